(** C02 - lemmas.  Part 1: list toolkit (total selection [sel], flat buffers, filter indices);
    part 2: every operation of C02/Model.v equals its documented selection, selections compose,
    histories stay aligned, documented content of the individual operations; examples at the end. *)
From Coq Require Import List NArith ZArith Bool Arith Lia Permutation SpecFloat.
From LinfaVerif Require Import Common.Num Common.B32 C02.Model.
Import ListNotations.

Arguments sel : simpl never.

(** * option traversal *)
Lemma mapM_Some_map {X Y} (f : X -> option Y) (g : X -> Y) l :
  (forall x, In x l -> f x = Some (g x)) -> mapM f l = Some (map g l).
Proof.
  induction l as [|a l IH]; simpl; intros H; auto.
  rewrite H by auto. rewrite IH by auto. reflexivity.
Qed.

(** * sel: total selection *)
Lemma sel_nil {X} idx : sel (@nil X) idx = [].
Proof. induction idx as [|a idx IH]; auto. unfold sel in *. simpl. rewrite IH. destruct a; reflexivity. Qed.

Lemma sel_cons {X} (l : list X) a idx :
  sel l (a :: idx) = (match nth_error l a with Some x => [x] | None => [] end) ++ sel l idx.
Proof. reflexivity. Qed.

Lemma sel_app {X} (l : list X) i j : sel l (i ++ j) = sel l i ++ sel l j.
Proof. unfold sel. apply flat_map_app. Qed.

Lemma in_range_Forall b idx : in_range b idx = true <-> Forall (fun i => i < b) idx.
Proof.
  unfold in_range. rewrite forallb_forall, Forall_forall. split; intros H x Hx.
  - apply Nat.ltb_lt; auto. - apply Nat.ltb_lt; auto.
Qed.

Lemma nth_error_lt_Some {X} (l : list X) i : i < length l -> exists x, nth_error l i = Some x.
Proof. intros H. destruct (nth_error l i) eqn:E; eauto. apply nth_error_None in E. lia. Qed.

Lemma select_sel {X} (l : list X) idx :
  Forall (fun i => i < length l) idx -> select l idx = Some (sel l idx).
Proof.
  unfold select. induction idx as [|a idx IH]; intros H; simpl; auto.
  inversion H; subst. destruct (nth_error_lt_Some l a) as [x Hx]; auto.
  rewrite Hx. rewrite IH by auto. rewrite sel_cons, Hx. reflexivity.
Qed.

Lemma sel_length {X} (l : list X) idx :
  Forall (fun i => i < length l) idx -> length (sel l idx) = length idx.
Proof.
  induction idx as [|a idx IH]; intros H; auto. inversion H; subst.
  rewrite sel_cons, app_length, IH by auto.
  destruct (nth_error_lt_Some l a) as [x Hx]; auto. rewrite Hx. reflexivity.
Qed.

Lemma sel_map {X Y} (f : X -> Y) l idx : sel (map f l) idx = map f (sel l idx).
Proof.
  induction idx as [|a idx IH]; auto. rewrite !sel_cons, map_app, IH. f_equal.
  rewrite nth_error_map. destruct (nth_error l a); reflexivity.
Qed.

Lemma sel_In {X} (l : list X) idx x : In x (sel l idx) -> In x l.
Proof.
  induction idx as [|a idx IH]; simpl; intros H; [contradiction|].
  rewrite sel_cons in H. apply in_app_or in H as [H|H]; auto.
  destruct (nth_error l a) eqn:E; simpl in H; [|contradiction].
  destruct H as [H|[]]; subst. eapply nth_error_In; eauto.
Qed.

Lemma sel_Forall {X} (P : X -> Prop) l idx : Forall P l -> Forall P (sel l idx).
Proof. rewrite !Forall_forall. intros H x Hx. apply H. eapply sel_In; eauto. Qed.

Lemma nth_error_sel {X} (l : list X) i k :
  Forall (fun a => a < length l) i ->
  nth_error (sel l i) k = match nth_error i k with Some a => nth_error l a | None => None end.
Proof.
  revert k. induction i as [|a i IH]; intros k H.
  - destruct k; reflexivity.
  - inversion H; subst. destruct (nth_error_lt_Some l a) as [x Hx]; auto.
    rewrite sel_cons, Hx. destruct k; simpl; auto.
Qed.

Lemma sel_sel {X} (l : list X) i j :
  Forall (fun a => a < length l) i -> sel (sel l i) j = sel l (sel i j).
Proof.
  intros H. induction j as [|k j IH]; auto.
  rewrite !sel_cons, sel_app, IH. f_equal.
  rewrite nth_error_sel by auto. destruct (nth_error i k) as [a|]; auto.
  rewrite sel_cons. simpl. rewrite app_nil_r. reflexivity.
Qed.

Lemma skipn_nth_error {X} (l : list X) a x : nth_error l a = Some x -> skipn a l = x :: skipn (S a) l.
Proof.
  revert a. induction l as [|y l IH]; intros [|a] H; simpl in *; try discriminate.
  - inversion H; reflexivity. - apply IH; auto.
Qed.

Lemma sel_seq {X} (l : list X) a k : a + k <= length l -> sel l (seq a k) = firstn k (skipn a l).
Proof.
  revert a. induction k as [|k IH]; intros a H; simpl; auto.
  destruct (nth_error_lt_Some l a) as [x Hx]; [lia|].
  rewrite sel_cons, Hx, IH by lia. rewrite (skipn_nth_error l a x Hx). reflexivity.
Qed.

Lemma sel_all {X} (l : list X) : sel l (seq 0 (length l)) = l.
Proof. rewrite sel_seq by lia. simpl. apply firstn_all. Qed.

Lemma sel_prefix {X} (l : list X) k : k <= length l -> sel l (seq 0 k) = firstn k l.
Proof. intros H. rewrite sel_seq by lia. reflexivity. Qed.

Lemma sel_suffix {X} (l : list X) k : k <= length l -> sel l (seq k (length l - k)) = skipn k l.
Proof.
  intros H. rewrite sel_seq by lia. apply firstn_all2. rewrite skipn_length. lia.
Qed.

Lemma sel_all_or_nil {X} (l : list X) n : l = [] \/ length l = n -> sel l (seq 0 n) = l.
Proof. intros [H|H]; subst; [apply sel_nil | apply sel_all]. Qed.

Lemma seq_Forall_lt a k : Forall (fun i => i < a + k) (seq a k).
Proof. apply Forall_forall. intros x Hx. apply in_seq in Hx. lia. Qed.

(** * rows of equal width: flat buffers *)
Definition width {X} (w : nat) (rows : list (list X)) : Prop := Forall (fun r => length r = w) rows.

Lemma concat_length_w {X} (rows : list (list X)) w : width w rows -> length (concat rows) = length rows * w.
Proof. induction 1; simpl; auto. rewrite app_length. lia. Qed.

Lemma firstn_app_len {X} (r rest : list X) m : firstn (length r + m) (r ++ rest) = r ++ firstn m rest.
Proof. induction r; simpl; auto. f_equal; auto. Qed.
Lemma skipn_app_len {X} (r rest : list X) m : skipn (length r + m) (r ++ rest) = skipn m rest.
Proof. induction r; simpl; auto. Qed.

Lemma firstn_concat {X} (rows : list (list X)) w k :
  width w rows -> firstn (k * w) (concat rows) = concat (firstn k rows).
Proof.
  intros H. revert k. induction H as [|r rows Hr H IH]; intros k.
  - simpl. rewrite !firstn_nil. reflexivity.
  - destruct k; simpl; auto. replace (w + k * w) with (length r + k * w) by (rewrite Hr; reflexivity).
    rewrite firstn_app_len, IH. reflexivity.
Qed.
Lemma skipn_concat {X} (rows : list (list X)) w k :
  width w rows -> skipn (k * w) (concat rows) = concat (skipn k rows).
Proof.
  intros H. revert k. induction H as [|r rows Hr H IH]; intros k.
  - simpl. rewrite !skipn_nil. reflexivity.
  - destruct k; simpl; auto. replace (w + k * w) with (length r + k * w) by (rewrite Hr; reflexivity).
    rewrite skipn_app_len, IH. reflexivity.
Qed.

Lemma chunk_rows_concat {X} (rows : list (list X)) w :
  width w rows -> chunk_rows w (length rows) (concat rows) = rows.
Proof.
  induction 1 as [|r rows Hr H IH]; simpl; auto.
  replace w with (length r + 0) by lia. rewrite firstn_app_len, skipn_app_len. simpl. rewrite app_nil_r.
  f_equal. replace (length r + 0) with w by lia. exact IH.
Qed.

Lemma from_shape_vec_concat {X} (rows : list (list X)) w n :
  width w rows -> length rows = n -> from_shape_vec n w (concat rows) = Some rows.
Proof.
  intros H Hn. unfold from_shape_vec. rewrite (concat_length_w rows w H), Hn, Nat.eqb_refl.
  subst n. rewrite chunk_rows_concat; auto.
Qed.

Lemma In_firstn {X} k (l : list X) x : In x (firstn k l) -> In x l.
Proof. revert l. induction k; intros [|a l]; simpl; try tauto. intros [H|H]; auto. Qed.
Lemma width_firstn {X} w k (rows : list (list X)) : width w rows -> width w (firstn k rows).
Proof. unfold width. rewrite !Forall_forall. intros H x Hx. apply H. eapply In_firstn; eauto. Qed.
Lemma In_skipn {X} k (l : list X) x : In x (skipn k l) -> In x l.
Proof. revert l. induction k; intros [|a l]; simpl; auto. Qed.
Lemma width_skipn {X} w k (rows : list (list X)) : width w rows -> width w (skipn k rows).
Proof. unfold width. rewrite !Forall_forall. intros H x Hx. apply H. eapply In_skipn; eauto. Qed.

(* the whole raw-vector path of the owned split, for one array *)
Lemma flat_split {X} (rows : list (list X)) w n1 :
  width w rows -> n1 <= length rows ->
  exists b1 b2, split_off (n1 * w) (concat rows) = Some (b1, b2)
    /\ from_shape_vec n1 w b1 = Some (firstn n1 rows)
    /\ from_shape_vec (length rows - n1) w b2 = Some (skipn n1 rows).
Proof.
  intros H Hn. unfold split_off. rewrite (concat_length_w rows w H).
  assert (E : Nat.leb (n1 * w) (length rows * w) = true) by (apply Nat.leb_le; apply Nat.mul_le_mono_r; auto).
  rewrite E. eexists; eexists; split; [reflexivity|].
  rewrite (firstn_concat rows w n1 H), (skipn_concat rows w n1 H). split.
  - apply from_shape_vec_concat; [apply width_firstn; auto | rewrite firstn_length; lia].
  - apply from_shape_vec_concat; [apply width_skipn; auto | rewrite skipn_length; lia].
Qed.

(** * identity selections *)
Lemma map_sel_all {X} (rows : list (list X)) w : width w rows -> map (fun r => sel r (seq 0 w)) rows = rows.
Proof.
  induction 1 as [|r rows Hr H IH]; simpl; auto. rewrite IH. f_equal. subst w. apply sel_all.
Qed.

Lemma select_cols_sel {X} (rows : list (list X)) w cidx :
  width w rows -> Forall (fun j => j < w) cidx ->
  select_cols rows cidx = Some (map (fun r => sel r cidx) rows).
Proof.
  intros H Hc. unfold select_cols. apply mapM_Some_map. intros r Hr.
  apply select_sel. unfold width in H. rewrite Forall_forall in H. rewrite (H r Hr). exact Hc.
Qed.

Lemma map_singleton_concat {X} (rows : list (list X)) : width 1 rows -> map (fun x => [x]) (concat rows) = rows.
Proof.
  induction 1 as [|r rows Hr H IH]; simpl; auto.
  destruct r as [|x [|y r]]; simpl in Hr; try discriminate. simpl. rewrite IH. reflexivity.
Qed.

(** * the index list of a filter *)
Fixpoint kidx {X} (q : X -> bool) (i : nat) (l : list X) : list nat :=
  match l with [] => [] | x :: r => if q x then i :: kidx q (S i) r else kidx q (S i) r end.

Lemma filter_seq_kidx {X} (q : X -> bool) (pre l : list X) :
  filter (fun i => match nth_error (pre ++ l) i with Some x => q x | None => false end)
         (seq (length pre) (length l)) = kidx q (length pre) l.
Proof.
  revert pre. induction l as [|x l IH]; intros pre; simpl; auto.
  rewrite nth_error_app2 by lia. rewrite Nat.sub_diag. simpl.
  specialize (IH (pre ++ [x])). rewrite <- app_assoc in IH. simpl in IH.
  rewrite app_length in IH. simpl in IH. rewrite Nat.add_1_r in IH. rewrite IH. reflexivity.
Qed.

Lemma kidx_bound {X} (q : X -> bool) i l : Forall (fun a => i <= a < i + length l) (kidx q i l).
Proof.
  revert i. induction l as [|x l IH]; intros i; simpl; auto.
  assert (H : Forall (fun a => i <= a < i + S (length l)) (kidx q (S i) l)).
  { eapply Forall_impl; [|apply IH]. simpl. intros; lia. }
  destruct (q x); auto. constructor; auto. lia.
Qed.

Lemma sel_kidx {X Y} (q : Y -> bool) (prea a : list X) (b : list Y) :
  length a = length b ->
  sel (prea ++ a) (kidx q (length prea) b) = map fst (filter (fun p => q (snd p)) (combine a b)).
Proof.
  revert prea b. induction a as [|x a IH]; intros prea [|y b] H; simpl in *; try discriminate; auto.
  specialize (IH (prea ++ [x]) b). rewrite <- app_assoc, app_length in IH. simpl in IH.
  rewrite Nat.add_1_r in IH. destruct (q y); simpl.
  - rewrite sel_cons, nth_error_app2, Nat.sub_diag by lia. simpl. f_equal. apply IH. lia.
  - apply IH. lia.
Qed.

Lemma sel_kidx_self {X} (q : X -> bool) (pre l : list X) :
  sel (pre ++ l) (kidx q (length pre) l) = filter q l.
Proof.
  revert pre. induction l as [|x l IH]; intros pre; simpl; auto.
  specialize (IH (pre ++ [x])). rewrite <- app_assoc, app_length in IH. simpl in IH.
  rewrite Nat.add_1_r in IH. destruct (q x); simpl; auto.
  rewrite sel_cons, nth_error_app2, Nat.sub_diag by lia. simpl. f_equal. apply IH.
Qed.

Lemma NoDup_app_snoc {X} (l : list X) v : NoDup l -> ~ In v l -> NoDup (l ++ [v]).
Proof.
  induction 1 as [|x l Hx Hl IH]; simpl; intros Hn.
  - constructor; auto. constructor.
  - constructor.
    + intros H1. apply in_app_or in H1 as [H1|[H1|[]]]; [contradiction|]. subst. apply Hn. auto.
    + apply IH. intros E. apply Hn. auto.
Qed.

Lemma Forall2_len {X Y} (R : X -> Y -> Prop) l1 l2 : Forall2 R l1 l2 -> length l1 = length l2.
Proof. induction 1; simpl; auto. Qed.

Arguments s_rows {B}. Arguments s_cols {B}. Arguments s_tcols {B}. Arguments s_g {B}.
Arguments s_kw {B}. Arguments s_kf {B}. Arguments s_kt {B}. Arguments s_t1 {B}. Arguments s_nt {B}.

Section Ops.
Variables A B W Nm : Type.
Variable beq : B -> B -> bool.
Variable of_bool : bool -> B.
Hypothesis beq_spec : forall x y, beq x y = true <-> x = y.

Notation dset := (dset A B W Nm).
Notation out := (out A B W Nm).
Notation wf := (wf A B W Nm).
Notation apply := (apply A B W Nm beq of_bool).
Notation spec := (spec A B W Nm beq of_bool).
Notation spec_outs := (spec_outs A B W Nm beq of_bool).
Notation apply_sel := (apply_sel A B W Nm).
Notation sel_rows := (sel_rows A B W Nm).
Notation names_ok := (names_ok Nm).

(** * well-formedness, unpacked *)
Record WF (d : dset) : Prop := mkWF {
  wf_recs : width (d_nf d) (d_recs d);
  wf_tgts : width (ntargets d) (d_tgts d);
  wf_ntg : length (d_tgts d) = nsamples d;
  wf_ws : d_ws d = [] \/ length (d_ws d) = nsamples d;
  wf_fn : d_fn d = [] \/ length (d_fn d) = d_nf d;
  wf_tn : d_tn d = [] \/ length (d_tn d) = ntargets d;
  wf_t1 : d_t1 d = true -> d_nt d = 1 }.

Lemma names_ok_iff (l : list Nm) w : names_ok l w = true <-> (l = [] \/ length l = w).
Proof.
  unfold Model.names_ok. destruct l as [|a l].
  - split; auto.
  - rewrite Nat.eqb_eq. split; auto. intros [H|H]; [discriminate|auto].
Qed.

Lemma forallb_width {X} (rows : list (list X)) w :
  forallb (fun r => Nat.eqb (length r) w) rows = true <-> width w rows.
Proof.
  unfold width. rewrite forallb_forall, Forall_forall. split; intros H x Hx.
  - apply Nat.eqb_eq; auto. - apply Nat.eqb_eq; auto.
Qed.

Lemma wf_WF d : wf d = true <-> WF d.
Proof.
  unfold Model.wf. rewrite !andb_true_iff, !forallb_width, !names_ok_iff, orb_true_iff, !Nat.eqb_eq.
  split.
  - intros [[[[[[H1 H2] H3] H4] H5] H6] H7]. constructor; auto.
    + destruct H4 as [H4|H4]; auto. left. destruct (d_ws d); auto; discriminate.
    + intros E. rewrite E in H7. simpl in H7. apply Nat.eqb_eq. exact H7.
  - intros [H1 H2 H3 H4 H5 H6 H7]. repeat split; auto.
    + destruct H4 as [H4|H4]; auto. left. rewrite H4. reflexivity.
    + destruct (d_t1 d); simpl; auto. apply Nat.eqb_eq. auto.
Qed.

(** * selections that keep all columns *)
Lemma map_idB_sel_all (rows : list (list B)) w :
  width w rows -> map (fun t => map (idB B) (sel t (seq 0 w))) rows = rows.
Proof.
  induction 1 as [|r rows Hr H IH]; simpl; auto. rewrite IH. f_equal. subst w.
  rewrite sel_all. unfold idB. apply map_id.
Qed.

Lemma apply_sel_rows d rows kw kn : WF d ->
  apply_sel (sel_rows d rows kw kn) d =
  mkD (d_nf d) (d_nt d) (d_t1 d) (sel (d_recs d) rows) (sel (d_tgts d) rows)
      (if kw then sel (d_ws d) rows else []) (if kn then d_fn d else []) (if kn then d_tn d else []).
Proof.
  intros [H1 H2 H3 H4 H5 H6 H7]. unfold Model.apply_sel, Model.sel_rows, all_cols, all_tcols. simpl.
  rewrite seq_length. f_equal.
  - apply map_sel_all. apply sel_Forall. exact H1.
  - apply map_idB_sel_all. apply sel_Forall. exact H2.
  - destruct kn; auto. apply sel_all_or_nil; auto.
  - destruct kn; auto. apply sel_all_or_nil; auto.
Qed.

Lemma with_names_ok d : WF d -> forall r t w,
  with_names A B W Nm (new_ds A B W Nm (d_nf d) (d_nt d) (d_t1 d) r t w) (d_fn d) (d_tn d)
  = Some (mkD (d_nf d) (d_nt d) (d_t1 d) r t w (d_fn d) (d_tn d)).
Proof.
  intros [H1 H2 H3 H4 H5 H6 H7] r t w. unfold with_names, new_ds. simpl.
  unfold Model.ntargets at 1. simpl. fold (ntargets d).
  rewrite (proj2 (names_ok_iff _ _) H5), (proj2 (names_ok_iff _ _) H6). reflexivity.
Qed.

Definition pairs (l : list out) : list (option B * dset) := map (fun r => (o_label r, o_ds r)) l.

(** * the ratio splits *)
Lemma split_weights d n1 : WF d -> n1 <= nsamples d ->
  (if Nat.eqb (length (d_ws d)) (n1 + (nsamples d - n1)) then (firstn n1 (d_ws d), skipn n1 (d_ws d)) else (d_ws d, []))
  = (sel (d_ws d) (seq 0 n1), sel (d_ws d) (seq n1 (nsamples d - n1))).
Proof.
  intros Hw Hn. destruct (wf_ws d Hw) as [E|E].
  - rewrite E, !sel_nil, firstn_nil, skipn_nil. destruct (Nat.eqb (length (@nil W)) (n1 + (nsamples d - n1))); reflexivity.
  - replace (n1 + (nsamples d - n1)) with (nsamples d) by lia. rewrite E, Nat.eqb_refl.
    rewrite sel_prefix by lia. rewrite <- E. rewrite sel_suffix by lia. reflexivity.
Qed.

Lemma split_owned_spec d ratio l : WF d ->
  spec_outs (OpSplitOwned ratio) d = Some l ->
  exists outs, split_owned A B W Nm ratio d = Some outs /\ pairs outs = l /\ forallb (counts_ok A B W Nm beq) outs = true.
Proof.
  intros Hw. unfold Model.spec_outs, Model.spec, split_point, split_owned.
  destruct (N.ltb (N.of_nat (nsamples d)) (ceil_ratio_f32 (N.of_nat (nsamples d)) ratio)) eqn:E; [discriminate|].
  apply N.ltb_ge in E. set (n1 := N.to_nat (ceil_ratio_f32 (N.of_nat (nsamples d)) ratio)).
  assert (Hn : n1 <= nsamples d).
  { unfold n1. revert E. generalize (ceil_ratio_f32 (N.of_nat (nsamples d)) ratio). intros c E. lia. }
  intros H; inversion H; subst l; clear H.
  destruct (flat_split (d_recs d) (d_nf d) n1 (wf_recs d Hw) Hn) as [b1 [b2 [S1 [F1 F2]]]].
  unfold nsamples in *. rewrite S1, F1, F2.
  assert (Hn' : n1 <= length (d_tgts d)) by (rewrite (wf_ntg d Hw); exact Hn).
  destruct (flat_split (d_tgts d) (ntargets d) n1 (wf_tgts d Hw) Hn') as [c1 [c2 [S2 [G1 G2]]]].
  rewrite S2, G1. rewrite (wf_ntg d Hw) in G2. unfold nsamples in G2. rewrite G2.
  pose proof (split_weights d n1 Hw Hn) as Hws. unfold nsamples in Hws. rewrite Hws.
  rewrite !with_names_ok by auto. eexists; split; [reflexivity|]. split; [|reflexivity].
  simpl. rewrite !apply_sel_rows by auto. unfold nsamples.
  pose proof (wf_ntg d Hw) as Hl. unfold nsamples in Hl.
  rewrite (sel_prefix (d_recs d)), (sel_prefix (d_tgts d)), (sel_suffix (d_recs d)) by lia.
  rewrite <- Hl. rewrite (sel_suffix (d_tgts d)) by lia. reflexivity.
Qed.

Lemma split_view_spec d ratio l : WF d ->
  spec_outs (OpSplitView ratio) d = Some l ->
  exists outs, split_view A B W Nm ratio d = Some outs /\ pairs outs = l /\ forallb (counts_ok A B W Nm beq) outs = true.
Proof.
  intros Hw. unfold Model.spec_outs, Model.spec, split_point, split_view.
  destruct (N.ltb (N.of_nat (nsamples d)) (ceil_ratio_f32 (N.of_nat (nsamples d)) ratio)) eqn:E; [discriminate|].
  apply N.ltb_ge in E. set (n1 := N.to_nat (ceil_ratio_f32 (N.of_nat (nsamples d)) ratio)).
  assert (Hn : n1 <= nsamples d).
  { unfold n1. revert E. generalize (ceil_ratio_f32 (N.of_nat (nsamples d)) ratio). intros c E. lia. }
  intros H; inversion H; subst l; clear H.
  unfold split_at. rewrite (wf_ntg d Hw).
  unfold nsamples in *. rewrite (proj2 (Nat.leb_le _ _) Hn).
  assert (Hws : (if Nat.eqb (length (d_ws d)) (length (d_recs d)) then (firstn n1 (d_ws d), skipn n1 (d_ws d)) else ([], []))
                = (sel (d_ws d) (seq 0 n1), sel (d_ws d) (seq n1 (length (d_recs d) - n1)))).
  { destruct (wf_ws d Hw) as [E1|E1]; unfold nsamples in E1.
    - rewrite E1, !sel_nil, firstn_nil, skipn_nil. destruct (Nat.eqb (length (@nil W)) (length (d_recs d))); reflexivity.
    - rewrite E1, Nat.eqb_refl. rewrite sel_prefix by lia. rewrite <- E1. rewrite sel_suffix by lia. reflexivity. }
  rewrite Hws. rewrite !with_names_ok by auto. eexists; split; [reflexivity|]. split; [|reflexivity].
  simpl. rewrite !apply_sel_rows by auto. unfold nsamples.
  pose proof (wf_ntg d Hw) as Hl. unfold nsamples in Hl.
  rewrite (sel_prefix (d_recs d)), (sel_prefix (d_tgts d)), (sel_suffix (d_recs d)) by lia.
  rewrite <- Hl. rewrite (sel_suffix (d_tgts d)) by lia. reflexivity.
Qed.

(** * shuffle / bootstrap *)
Notation done outs l := (pairs outs = l /\ forallb (counts_ok A B W Nm beq) outs = true).

Lemma in_range_n_tgts d idx : WF d -> in_range (nsamples d) idx = true ->
  Forall (fun i => i < length (d_recs d)) idx /\ Forall (fun i => i < length (d_tgts d)) idx.
Proof.
  intros Hw H. apply in_range_Forall in H. rewrite (wf_ntg d Hw). unfold nsamples in *. auto.
Qed.

Lemma shuffle_spec d idx l : WF d ->
  spec_outs (OpShuffle idx) d = Some l ->
  exists outs, shuffle A B W Nm idx d = Some outs /\ done outs l.
Proof.
  intros Hw. unfold Model.spec_outs, Model.spec, shuffle.
  destruct (in_range (nsamples d) idx) eqn:E; [|discriminate].
  destruct (in_range_n_tgts d idx Hw E) as [H1 H2].
  intros H; inversion H; subst l; clear H.
  rewrite (select_sel _ _ H1), (select_sel _ _ H2), with_names_ok by auto.
  eexists; split; [reflexivity|]. split; [|reflexivity].
  simpl. rewrite apply_sel_rows by auto. reflexivity.
Qed.

Lemma draw_ok_range k b (idx : list nat) : length idx = k -> Forall (fun i => i < b) idx -> draw_ok k b = true.
Proof.
  intros Hk H. unfold draw_ok. destruct idx as [|a idx]; simpl in Hk; subst k; auto.
  inversion H; subst. destruct b; [lia|]. reflexivity.
Qed.

Lemma mapM_spec {X} (f : X -> option out) (g : X -> option B * dset) (P : X -> bool) xs :
  forallb P xs = true ->
  (forall x, P x = true -> exists o, f x = Some o /\ (o_label o, o_ds o) = g x /\ counts_ok A B W Nm beq o = true) ->
  exists outs, mapM f xs = Some outs /\ done outs (map g xs).
Proof.
  intros HP H. induction xs as [|x xs IH]; simpl in *.
  - exists []. auto.
  - apply andb_true_iff in HP as [Hx Hxs]. destruct (H x Hx) as [o [E1 [E2 E3]]].
    destruct (IH Hxs) as [outs [E4 [E5 E6]]]. rewrite E1, E4. exists (o :: outs). simpl.
    rewrite E2, E5, E3, E6. auto.
Qed.

Lemma bootstrap_samples_spec d draws l : WF d ->
  spec_outs (OpBootSamples draws) d = Some l ->
  exists outs, bootstrap_samples A B W Nm draws d = Some outs /\ done outs l.
Proof.
  intros Hw. unfold Model.spec_outs, Model.spec, bootstrap_samples.
  destruct (forallb (in_range (nsamples d)) draws) eqn:E; [|discriminate].
  intros H; inversion H; subst l; clear H. rewrite map_map.
  apply (mapM_spec _ _ _ _ E). intros idx Hi.
  destruct (in_range_n_tgts d idx Hw Hi) as [H1 H2].
  unfold bootstrap_samples1. rewrite (draw_ok_range (length idx) (nsamples d) idx eq_refl H1).
  simpl. rewrite (select_sel _ _ H1), (select_sel _ _ H2). eexists; split; [reflexivity|].
  split; [|reflexivity]. simpl. rewrite apply_sel_rows by auto. reflexivity.
Qed.

Lemma apply_sel_tgts_all d (rows : list (list B)) : WF d -> width (ntargets d) rows ->
  map (fun t => map (idB B) (sel t (all_tcols A B W Nm d))) rows = rows.
Proof. intros Hw H. apply map_idB_sel_all. exact H. Qed.

Lemma bootstrap_features_spec d draws l : WF d ->
  spec_outs (OpBootFeatures draws) d = Some l ->
  exists outs, bootstrap_features A B W Nm draws d = Some outs /\ done outs l.
Proof.
  intros Hw. unfold Model.spec_outs, Model.spec, bootstrap_features.
  destruct (forallb (in_range (d_nf d)) draws) eqn:E; [|discriminate].
  intros H; inversion H; subst l; clear H. rewrite map_map.
  apply (mapM_spec _ _ _ _ E). intros c Hc. apply in_range_Forall in Hc.
  unfold bootstrap_features1. rewrite (draw_ok_range (length c) (d_nf d) c eq_refl Hc). simpl.
  rewrite (select_cols_sel _ _ _ (wf_recs d Hw) Hc). eexists; split; [reflexivity|].
  split; [|reflexivity]. simpl. unfold Model.apply_sel, new_ds, all_rows. simpl.
  pose proof (wf_ntg d Hw) as Hl. unfold nsamples in *.
  rewrite sel_all. rewrite <- Hl at 1. rewrite sel_all.
  rewrite (apply_sel_tgts_all d _ Hw (wf_tgts d Hw)). reflexivity.
Qed.

Lemma bootstrap_spec d draws l : WF d ->
  spec_outs (OpBootstrap draws) d = Some l ->
  exists outs, bootstrap A B W Nm draws d = Some outs /\ done outs l.
Proof.
  intros Hw. unfold Model.spec_outs, Model.spec, bootstrap.
  match goal with |- context [forallb ?P draws] => destruct (forallb P draws) eqn:E; [|discriminate] end.
  intros H; inversion H; subst l; clear H. rewrite map_map.
  apply (mapM_spec _ _ _ _ E). intros [idx c] Hc. simpl in Hc. apply andb_true_iff in Hc as [Hi Hc].
  destruct (in_range_n_tgts d idx Hw Hi) as [H1 H2]. apply in_range_Forall in Hc.
  unfold bootstrap1. simpl.
  rewrite (draw_ok_range (length idx) (nsamples d) idx eq_refl H1), (draw_ok_range (length c) (d_nf d) c eq_refl Hc).
  simpl. rewrite (select_sel _ _ H1), (select_sel _ _ H2).
  rewrite (select_cols_sel (sel (d_recs d) idx) (d_nf d) c) by (auto; apply sel_Forall; apply (wf_recs d Hw)).
  eexists; split; [reflexivity|]. split; [|reflexivity]. simpl.
  unfold Model.apply_sel, new_ds. simpl.
  rewrite (apply_sel_tgts_all d _ Hw) by (apply sel_Forall; apply (wf_tgts d Hw)). reflexivity.
Qed.

(** * map_targets, view, to_owned, into_single_target, sample_iter *)
Lemma all_rows_recs d : sel (d_recs d) (all_rows A B W Nm d) = d_recs d.
Proof. unfold all_rows, nsamples. apply sel_all. Qed.
Lemma all_rows_tgts d : WF d -> sel (d_tgts d) (all_rows A B W Nm d) = d_tgts d.
Proof. intros Hw. unfold all_rows. rewrite <- (wf_ntg d Hw). apply sel_all. Qed.
Lemma all_rows_ws d : WF d -> sel (d_ws d) (all_rows A B W Nm d) = d_ws d.
Proof. intros Hw. unfold all_rows. apply sel_all_or_nil. apply (wf_ws d Hw). Qed.
Lemma all_cols_recs d : WF d -> map (fun r => sel r (all_cols A B W Nm d)) (d_recs d) = d_recs d.
Proof. intros Hw. apply map_sel_all. apply (wf_recs d Hw). Qed.
Lemma all_cols_fn d : WF d -> sel (d_fn d) (all_cols A B W Nm d) = d_fn d.
Proof. intros Hw. apply sel_all_or_nil. apply (wf_fn d Hw). Qed.
Lemma all_tcols_tn d : WF d -> sel (d_tn d) (all_tcols A B W Nm d) = d_tn d.
Proof. intros Hw. apply sel_all_or_nil. apply (wf_tn d Hw). Qed.

Lemma map_targets_spec d f l : WF d ->
  spec_outs (OpMapTargets f) d = Some l ->
  exists outs, map_targets A B W Nm f d = Some outs /\ done outs l.
Proof.
  intros Hw H. unfold Model.spec_outs, Model.spec in H. inversion H; subst l; clear H.
  unfold map_targets. eexists; split; [reflexivity|]. split; [|reflexivity]. simpl.
  unfold Model.apply_sel. simpl. unfold all_cols at 1. rewrite seq_length.
  rewrite all_rows_recs, all_rows_tgts, all_rows_ws, all_cols_recs, all_cols_fn, all_tcols_tn by auto.
  do 2 f_equal. f_equal.
  pose proof (wf_tgts d Hw) as Ht. induction Ht as [|t ts Ht Hts IH]; simpl; auto.
  rewrite IH. f_equal. unfold all_tcols. rewrite <- Ht. rewrite sel_all. reflexivity.
Qed.

Lemma view_spec d l : WF d ->
  spec_outs OpView d = Some l -> exists outs, view A B W Nm d = Some outs /\ done outs l.
Proof.
  intros Hw H. unfold Model.spec_outs, Model.spec in H. inversion H; subst l; clear H.
  unfold view. rewrite with_names_ok by auto. eexists; split; [reflexivity|]. split; [|reflexivity].
  simpl. rewrite apply_sel_rows by auto. rewrite all_rows_recs, all_rows_tgts, all_rows_ws by auto. reflexivity.
Qed.

Lemma to_owned_spec d l : WF d ->
  spec_outs OpToOwned d = Some l -> exists outs, to_owned A B W Nm d = Some outs /\ done outs l.
Proof.
  intros Hw H. unfold Model.spec_outs, Model.spec in H. inversion H; subst l; clear H.
  unfold to_owned. eexists; split; [reflexivity|]. split; [|reflexivity].
  simpl. rewrite apply_sel_rows by auto. rewrite all_rows_recs, all_rows_tgts by auto. reflexivity.
Qed.

Lemma sample_iter_spec d l : WF d ->
  spec_outs OpSampleIter d = Some l -> exists outs, sample_iter A B W Nm d = Some outs /\ done outs l.
Proof.
  intros Hw H. unfold Model.spec_outs, Model.spec in H. inversion H; subst l; clear H.
  unfold sample_iter. pose proof (wf_ntg d Hw) as Hl.
  rewrite (select_sel (d_recs d)) by (apply (seq_Forall_lt 0)).
  rewrite (select_sel (d_tgts d)) by (rewrite Hl; apply (seq_Forall_lt 0)).
  eexists; split; [reflexivity|]. split; [|reflexivity].
  simpl. rewrite apply_sel_rows by auto. reflexivity.
Qed.

Lemma into_single_spec d l : WF d ->
  spec_outs OpIntoSingle d = Some l -> exists outs, into_single_target A B W Nm d = Some outs /\ done outs l.
Proof.
  intros Hw. unfold Model.spec_outs, Model.spec, into_single_target.
  destruct (d_t1 d) eqn:T1; simpl; [discriminate|].
  destruct (Nat.eqb (nsamples d * d_nt d) (nsamples d)) eqn:E; [|discriminate].
  apply Nat.eqb_eq in E. intros H; inversion H; subst l; clear H.
  pose proof (wf_tgts d Hw) as Ht. unfold Model.ntargets in Ht. rewrite T1 in Ht.
  rewrite (concat_length_w _ _ Ht), (wf_ntg d Hw), E, Nat.eqb_refl.
  eexists; split; [reflexivity|]. split; [|reflexivity]. simpl.
  unfold Model.apply_sel, new_ds. simpl. unfold all_cols at 1. rewrite seq_length.
  rewrite all_rows_recs, all_rows_tgts, all_cols_recs by auto.
  do 2 f_equal. f_equal.
  assert (Hid : map (fun t => map (idB B) (sel t (all_tcols A B W Nm d))) (d_tgts d) = d_tgts d).
  { apply map_idB_sel_all. apply (wf_tgts d Hw). }
  rewrite Hid.
  assert (C : d_nt d = 1 \/ d_tgts d = []).
  { destruct (nsamples d) eqn:En.
    - right. pose proof (wf_ntg d Hw) as Hl. rewrite En in Hl. destruct (d_tgts d); auto; discriminate.
    - left. nia. }
  destruct C as [C|C].
  - rewrite C in Ht. apply map_singleton_concat. exact Ht.
  - rewrite C. reflexivity.
Qed.

(** * the iterators *)
Lemma feature_iter_spec d l : WF d ->
  spec_outs OpFeatureIter d = Some l -> exists outs, feature_iter A B W Nm d = Some outs /\ done outs l.
Proof.
  intros Hw H. unfold Model.spec_outs, Model.spec in H. inversion H; subst l; clear H.
  unfold feature_iter, all_cols. rewrite map_map.
  apply (mapM_spec _ _ (fun j => Nat.ltb j (d_nf d))).
  { apply forallb_forall. intros j Hj. apply in_seq in Hj. apply Nat.ltb_lt. lia. }
  intros j Hj. apply Nat.ltb_lt in Hj. unfold feature_iter1.
  rewrite (select_cols_sel _ _ [j] (wf_recs d Hw)) by (constructor; auto).
  assert (Hfn : (if Nat.eqb (length (d_fn d)) 1
                 then match nth_error (d_fn d) j with Some x => Some [x] | None => None end
                 else Some [])
                = Some (if Nat.eqb (d_nf d) 1 then sel (d_fn d) [j] else [])).
  { destruct (wf_fn d Hw) as [E|E].
    - rewrite E, sel_nil. simpl. destruct (Nat.eqb (d_nf d) 1); reflexivity.
    - rewrite E. destruct (Nat.eqb (d_nf d) 1); auto.
      destruct (nth_error_lt_Some (d_fn d) j) as [x Hx]; [lia|].
      rewrite sel_cons, Hx. reflexivity. }
  rewrite Hfn. eexists; split; [reflexivity|]. split; [|reflexivity]. simpl.
  unfold Model.apply_sel. simpl.
  rewrite all_rows_recs, all_rows_tgts, all_rows_ws, all_tcols_tn by auto.
  rewrite (apply_sel_tgts_all d _ Hw (wf_tgts d Hw)). reflexivity.
Qed.

Lemma target_iter_spec d l : WF d ->
  spec_outs OpTargetIter d = Some l -> exists outs, target_iter A B W Nm d = Some outs /\ done outs l.
Proof.
  intros Hw. unfold Model.spec_outs, Model.spec, target_iter.
  destruct (d_t1 d) eqn:T1; [discriminate|].
  intros H; inversion H; subst l; clear H. rewrite map_map.
  unfold Model.ntargets at 1. rewrite T1.
  apply (mapM_spec _ _ (fun j => Nat.ltb j (d_nt d))).
  { apply forallb_forall. intros j Hj. apply in_seq in Hj. apply Nat.ltb_lt. lia. }
  intros j Hj. apply Nat.ltb_lt in Hj. unfold target_iter1. rewrite T1.
  pose proof (wf_tgts d Hw) as Ht. pose proof (wf_tn d Hw) as Hn.
  unfold Model.ntargets in Ht, Hn. rewrite T1 in Ht, Hn.
  rewrite (select_cols_sel _ _ [j] Ht) by (constructor; auto).
  assert (Htn : match d_tn d with
                | [] => Some []
                | _ :: _ => match nth_error (d_tn d) j with Some x => Some [x] | None => None end
                end = Some (sel (d_tn d) [j])).
  { destruct Hn as [E|E].
    - rewrite E, sel_nil. reflexivity.
    - destruct (nth_error_lt_Some (d_tn d) j) as [x Hx]; [lia|].
      rewrite sel_cons, Hx. destruct (d_tn d); [destruct j; discriminate|reflexivity]. }
  rewrite Htn. eexists; split; [reflexivity|]. split; [|reflexivity]. simpl.
  unfold Model.apply_sel. simpl. unfold all_cols at 1. rewrite seq_length.
  rewrite all_rows_recs, all_rows_tgts, all_rows_ws, all_cols_recs, all_cols_fn by auto.
  assert (Hm : map (fun t => map (idB B) (sel t [j])) (d_tgts d) = map (fun r => sel r [j]) (d_tgts d))
    by (apply map_ext; intros t; unfold idB; apply map_id).
  rewrite Hm. reflexivity.
Qed.

Lemma slice_rows_sel {X} (l : list X) i size : (i + 1) * size <= length l ->
  slice_rows (i * size) ((i + 1) * size) l = Some (sel l (seq (i * size) size)).
Proof.
  intros H. unfold slice_rows. rewrite (proj2 (Nat.leb_le _ _) H).
  replace ((i + 1) * size - i * size) with size by lia. rewrite sel_seq by lia. reflexivity.
Qed.

Lemma chunks_spec d size l : WF d ->
  spec_outs (OpChunks size) d = Some l -> exists outs, sample_chunks A B W Nm size d = Some outs /\ done outs l.
Proof.
  intros Hw. unfold Model.spec_outs, Model.spec, sample_chunks.
  destruct size as [|s]; [discriminate|].
  remember (S s) as size eqn:Es.
  intros H. injection H as H. subst l. rewrite map_map.
  apply (mapM_spec _ _ (fun i => Nat.ltb i (nsamples d / size))).
  { apply forallb_forall. intros j Hj. apply in_seq in Hj. apply Nat.ltb_lt. destruct Hj as [_ Hj]. exact Hj. }
  intros i Hi. apply Nat.ltb_lt in Hi.
  assert (Hb : (i + 1) * size <= nsamples d).
  { assert (Hs : size <> 0) by lia. pose proof (Nat.mul_div_le (nsamples d) size Hs) as Hd.
    apply Nat.le_trans with (size * (nsamples d / size)); [|exact Hd].
    rewrite Nat.mul_comm. apply Nat.mul_le_mono_l. lia. }
  unfold chunk1. rewrite slice_rows_sel by exact Hb.
  rewrite slice_rows_sel by (rewrite (wf_ntg d Hw); exact Hb).
  eexists; split; [reflexivity|]. split; [|reflexivity]. simpl.
  rewrite apply_sel_rows by auto. reflexivity.
Qed.

(** * label counts *)
Lemma mem_In v l : mem B beq v l = true <-> In v l.
Proof.
  unfold mem. rewrite existsb_exists. split.
  - intros [x [Hx E]]. apply beq_spec in E. subst. exact Hx.
  - intros H. exists v. split; auto. apply beq_spec. reflexivity.
Qed.
Lemma beq_refl v : beq v v = true.
Proof. apply beq_spec. reflexivity. Qed.
Lemma beq_false x y : x <> y -> beq x y = false.
Proof. intros H. destruct (beq x y) eqn:E; auto. apply beq_spec in E. contradiction. Qed.

Lemma count_occb_app v l1 l2 : count_occb B beq v (l1 ++ l2) = count_occb B beq v l1 + count_occb B beq v l2.
Proof. unfold count_occb. rewrite filter_app, app_length. reflexivity. Qed.
Lemma count_occb_notin v l : ~ In v l -> count_occb B beq v l = 0.
Proof.
  unfold count_occb. induction l as [|x l IH]; simpl; intros H; auto.
  rewrite beq_false by (intros E; apply H; auto). apply IH. intros E; apply H; auto.
Qed.

Lemma keys_nodup_iff m : keys_nodup B beq m = true <-> NoDup (map fst m).
Proof.
  induction m as [|[k c] m IH]; simpl.
  - split; auto. constructor.
  - rewrite andb_true_iff, negb_true_iff, IH. split.
    + intros [H1 H2]. constructor; auto. intros E. apply mem_In in E. congruence.
    + intros H. inversion H; subst. split; auto. destruct (mem B beq k (map fst m)) eqn:E; auto.
      apply mem_In in E. contradiction.
Qed.

Record CI (m : list (B * nat)) (col : list B) : Prop := mkCI {
  ci_nodup : NoDup (map fst m);
  ci_count : forall k c, In (k, c) m -> c <> 0 /\ c = count_occb B beq k col;
  ci_cover : forall v, In v col -> In v (map fst m) }.

Lemma CI_nil : CI [] [].
Proof. constructor; simpl; try tauto. constructor. Qed.

Lemma count_incr_keys m v :
  map fst (count_incr B beq m v) = if mem B beq v (map fst m) then map fst m else map fst m ++ [v].
Proof.
  induction m as [|[k c] m IH]; simpl; auto.
  destruct (beq k v) eqn:E.
  - apply beq_spec in E. subst. rewrite beq_refl. reflexivity.
  - assert (E' : beq v k = false) by (apply beq_false; intros H; subst; rewrite beq_refl in E; discriminate).
    rewrite E'. simpl. rewrite IH. destruct (mem B beq v (map fst m)); reflexivity.
Qed.

Lemma count_incr_In m v k c : NoDup (map fst m) -> In (k, c) (count_incr B beq m v) ->
  (k <> v /\ In (k, c) m) \/
  (k = v /\ ((exists c0, In (k, c0) m /\ c = S c0) \/ (c = 1 /\ ~ In v (map fst m)))).
Proof.
  induction m as [|[k0 c0] m IH]; simpl; intros Hn H.
  - destruct H as [H|[]]. inversion H; subst. right. split; auto.
  - inversion Hn as [|? ? Hk0 Hn']; subst. destruct (beq k0 v) eqn:E.
    + apply beq_spec in E. subst k0. destruct H as [H|H].
      * inversion H; subst. right. split; auto. left. exists c0. auto.
      * left. split; auto. intros E. subst k. apply Hk0. apply (in_map fst) in H. exact H.
    + assert (Hne : k0 <> v) by (intros E'; subst; rewrite beq_refl in E; discriminate).
      destruct H as [H|H].
      * inversion H; subst. left. auto.
      * destruct (IH Hn' H) as [[H1 H2]|[H1 [[c1 [H2 H3]]|[H2 H3]]]].
        -- left. auto.
        -- right. split; auto. left. exists c1. auto.
        -- right. split; auto. right. split; auto. intros [E'|E']; [congruence|contradiction].
Qed.

Lemma CI_incr m col v : CI m col -> CI (count_incr B beq m v) (col ++ [v]).
Proof.
  intros [H1 H2 H3]. constructor.
  - rewrite count_incr_keys. destruct (mem B beq v (map fst m)) eqn:E; auto.
    assert (~ In v (map fst m)) by (intros H; apply mem_In in H; congruence).
    apply NoDup_app_snoc; auto.
  - intros k c H. rewrite count_occb_app. unfold count_occb at 2. simpl.
    destruct (count_incr_In m v k c H1 H) as [[Hk Hin]|[Hk [[c0 [Hin Hc]]|[Hc Hnot]]]].
    + rewrite beq_false by auto. simpl. destruct (H2 k c Hin). split; auto. lia.
    + subst k c. rewrite beq_refl. simpl. destruct (H2 v c0 Hin). split; lia.
    + subst k c. rewrite beq_refl. simpl. rewrite count_occb_notin; [split; lia|].
      intros Hv. apply Hnot. apply H3. exact Hv.
  - intros x Hx. rewrite count_incr_keys. apply in_app_or in Hx.
    destruct (mem B beq v (map fst m)) eqn:E.
    + destruct Hx as [Hx|[Hx|[]]]; auto. subst. apply mem_In. exact E.
    + apply in_or_app. destruct Hx as [Hx|[Hx|[]]]; auto. subst. right. simpl. auto.
Qed.

Lemma CI_counts_ok1 m col : CI m col -> counts_ok1 B beq m col = true.
Proof.
  intros [H1 H2 H3]. unfold counts_ok1. rewrite !andb_true_iff. repeat split.
  - apply keys_nodup_iff. exact H1.
  - apply forallb_forall. intros [k c] Hkc. simpl. destruct (H2 k c Hkc) as [Ha Hb].
    rewrite andb_true_iff, negb_true_iff, Nat.eqb_neq, Nat.eqb_eq. auto.
  - apply forallb_forall. intros v Hv. apply mem_In. auto.
Qed.

Lemma CI_fold col m c0 : CI m c0 -> CI (fold_left (count_incr B beq) col m) (c0 ++ col).
Proof.
  revert m c0. induction col as [|v col IH]; intros m c0 H; simpl.
  - rewrite app_nil_r. exact H.
  - replace (c0 ++ v :: col) with ((c0 ++ [v]) ++ col) by (rewrite <- app_assoc; reflexivity).
    apply IH. apply CI_incr. exact H.
Qed.

(* columns growing in step with zip_incr *)
Fixpoint app_col (cols : list (list B)) (t : list B) : list (list B) :=
  match cols, t with
  | c :: cs, v :: vs => (c ++ [v]) :: app_col cs vs
  | cs, _ => cs
  end.

Lemma zip_incr_F2 maps cols t : Forall2 CI maps cols -> Forall2 CI (zip_incr B beq maps t) (app_col cols t).
Proof.
  intros H. revert t. induction H as [|m c ms cs Hm H IH]; intros t.
  - destruct t; constructor.
  - destruct t as [|v vs]; simpl.
    + constructor; auto.
    + constructor; auto. apply CI_incr. exact Hm.
Qed.

Lemma fold_zip_incr_F2 rows maps cols :
  Forall2 CI maps cols -> Forall2 CI (fold_left (zip_incr B beq) rows maps) (fold_left app_col rows cols).
Proof.
  revert maps cols. induction rows as [|t rows IH]; intros maps cols H; simpl; auto.
  apply IH. apply zip_incr_F2. exact H.
Qed.

Definition tcol (j : nat) (rows : list (list B)) : list B :=
  flat_map (fun t => match nth_error t j with Some x => [x] | None => [] end) rows.

Lemma nth_error_app_col cols t j : length t = length cols ->
  nth_error (app_col cols t) j =
  match nth_error cols j, nth_error t j with Some c, Some v => Some (c ++ [v]) | _, _ => None end.
Proof.
  revert t j. induction cols as [|c cs IH]; intros [|v vs] j H; simpl in *; try discriminate.
  - destruct j; reflexivity.
  - destruct j; simpl; auto.
Qed.

Lemma app_col_length cols t : length (app_col cols t) = length cols.
Proof. revert t. induction cols as [|c cs IH]; intros [|v vs]; simpl; auto. Qed.

Lemma nth_error_fold_app_col rows w cols j : width w rows -> length cols = w ->
  nth_error (fold_left app_col rows cols) j = option_map (fun c => c ++ tcol j rows) (nth_error cols j).
Proof.
  intros H. revert cols. induction H as [|t rows Ht H IH]; intros cols Hc; simpl.
  - destruct (nth_error cols j); simpl; auto. rewrite app_nil_r. reflexivity.
  - rewrite IH by (rewrite app_col_length; exact Hc).
    rewrite nth_error_app_col by congruence.
    destruct (nth_error cols j) as [c|] eqn:E1; simpl; auto.
    destruct (nth_error t j) as [v|] eqn:E2; simpl.
    + rewrite <- app_assoc. reflexivity.
    + apply nth_error_None in E2. assert (j < length cols) by (apply nth_error_Some; congruence). lia.
Qed.

Lemma repeat_F2 w : Forall2 CI (repeat [] w) (repeat [] w).
Proof. induction w; simpl; constructor; auto. apply CI_nil. Qed.

Lemma combine_seq_nth {X} (l : list X) a j x : In (j, x) (combine (seq a (length l)) l) -> nth_error l (j - a) = Some x /\ a <= j.
Proof.
  revert a. induction l as [|y l IH]; simpl; intros a H; [contradiction|].
  destruct H as [H|H].
  - inversion H; subst. rewrite Nat.sub_diag. auto.
  - destruct (IH (S a) H) as [H1 H2]. split; [|lia].
    replace (j - a) with (S (j - S a)) by lia. exact H1.
Qed.

Lemma Forall2_nth_error {X Y} (R : X -> Y -> Prop) l1 l2 j x :
  Forall2 R l1 l2 -> nth_error l1 j = Some x -> exists y, nth_error l2 j = Some y /\ R x y.
Proof.
  intros H. revert j. induction H; intros [|j] E; simpl in *; try discriminate.
  - inversion E; subst. eauto. - eauto.
Qed.

Lemma fold_app_col_length rows c0 : length (fold_left app_col rows c0) = length c0.
Proof. revert c0. induction rows as [|t rows IH]; intros c; simpl; auto. rewrite IH, app_col_length. reflexivity. Qed.

(* the counts accumulated over rows of width w are right for every column *)
Lemma counts_rows_ok (rows : list (list B)) w :
  width w rows ->
  let ms := fold_left (zip_incr B beq) rows (repeat [] w) in
  length ms = w /\
  forallb (fun jm => counts_ok1 B beq (snd jm) (tcol (fst jm) rows)) (combine (seq 0 (length ms)) ms) = true.
Proof.
  intros H ms.
  pose proof (fold_zip_incr_F2 rows _ _ (repeat_F2 w)) as F. fold ms in F.
  assert (L : length ms = w).
  { rewrite (Forall2_len _ _ _ F), fold_app_col_length, repeat_length. reflexivity. }
  split; auto. apply forallb_forall. intros [j m] Hjm. simpl.
  apply combine_seq_nth in Hjm as [Hn _]. rewrite Nat.sub_0_r in Hn.
  destruct (Forall2_nth_error _ _ _ _ _ F Hn) as [c [Hc HCI]].
  rewrite (nth_error_fold_app_col rows w) in Hc by (auto; apply repeat_length).
  destruct (nth_error (repeat (@nil B) w) j) as [l0|] eqn:E; simpl in Hc; [|discriminate].
  apply nth_error_In in E. apply repeat_spec in E. subst l0. simpl in Hc. inversion Hc; subst c.
  apply CI_counts_ok1. exact HCI.
Qed.


Lemma counts_ok_intro (o : out) :
  length (o_counts o) = ntargets (o_ds o) ->
  forallb (fun jm => counts_ok1 B beq (snd jm) (tcolumn A B W Nm (fst jm) (o_ds o)))
          (combine (seq 0 (length (o_counts o))) (o_counts o)) = true ->
  counts_ok A B W Nm beq o = true.
Proof.
  intros L C. unfold counts_ok. destruct (o_counts o) as [|m ms] eqn:E; auto.
  rewrite <- L. rewrite Nat.eqb_refl. exact C.
Qed.

(** * with_labels *)
Lemma map_snd_filter_combine {X Y} (q : Y -> bool) (a : list X) (b : list Y) : length a = length b ->
  map snd (filter (fun p => q (snd p)) (combine a b)) = filter q b.
Proof.
  revert b. induction a as [|x a IH]; intros [|y b] H; simpl in *; try discriminate; auto.
  destruct (q y); simpl; rewrite IH by lia; reflexivity.
Qed.
Lemma map_fst_filter_In {X Y} (q : X * Y -> bool) (a : list X) (b : list Y) x :
  In x (map fst (filter q (combine a b))) -> In x a.
Proof.
  intros H. apply in_map_iff in H as [[x' y] [E H]]. simpl in E. subst x'.
  apply filter_In in H as [H _]. apply in_combine_l in H. exact H.
Qed.

Lemma wl_loop_spec labels ow i (a : list (list A)) (b : list (list B)) maps :
  length a = length b -> (forall w, ow = Some w -> i + length b <= length w) ->
  let q := any_in B beq labels in
  let F := filter (fun p => q (snd p)) (combine a b) in
  wl_loop A B W beq labels ow i (combine a b) maps
  = Some (map fst F, map snd F,
          match ow with Some w => sel w (kidx q i b) | None => [] end,
          fold_left (zip_incr B beq) (map snd F) maps).
Proof.
  revert b i maps. induction a as [|x a IH]; intros [|y b] i maps Hl Hw; simpl in *; try discriminate.
  - destruct ow; reflexivity.
  - destruct (any_in B beq labels y) eqn:Q; simpl.
    + assert (Hwi : (match ow with
                     | Some w => match nth_error w i with Some x0 => Some [x0] | None => None end
                     | None => Some []
                     end) = Some (match ow with Some w => sel w [i] | None => [] end)).
      { destruct ow as [w|]; auto. destruct (nth_error_lt_Some w i) as [x0 Hx]; [specialize (Hw w eq_refl); lia|].
        rewrite sel_cons, Hx. reflexivity. }
      rewrite Hwi. rewrite IH by (try lia; intros w E; specialize (Hw w E); lia).
      destruct ow as [w|]; [|reflexivity]. rewrite <- sel_app. reflexivity.
    + rewrite IH by (try lia; intros w E; specialize (Hw w E); lia). reflexivity.
Qed.

Lemma with_labels_spec d labels l : WF d ->
  spec_outs (OpWithLabels labels) d = Some l ->
  exists outs, with_labels A B W Nm beq labels d = Some outs /\ done outs l.
Proof.
  intros Hw H. unfold Model.spec_outs, Model.spec in H. inversion H; subst l; clear H.
  pose proof (wf_ntg d Hw) as Hl. unfold nsamples in Hl.
  unfold with_labels.
  rewrite wl_loop_spec; [|symmetry; exact Hl|].
  2:{ intros w E. unfold weights_opt in E. destruct (wf_ws d Hw) as [E1|E1].
      - rewrite E1 in E. discriminate.
      - destruct (d_ws d) eqn:E2; [discriminate|]. inversion E; subst w. unfold nsamples in E1. simpl in *. lia. }
  set (q := any_in B beq labels).
  set (F := filter (fun p => q (snd p)) (combine (d_recs d) (d_tgts d))).
  assert (W1 : width (d_nf d) (map fst F)).
  { apply Forall_forall. intros x Hx. apply map_fst_filter_In in Hx.
    pose proof (wf_recs d Hw) as H1. unfold width in H1. rewrite Forall_forall in H1. auto. }
  assert (ES : map snd F = filter q (d_tgts d)) by (apply map_snd_filter_combine; auto).
  assert (W2 : width (ntargets d) (map snd F)).
  { rewrite ES. apply Forall_forall. intros x Hx. apply filter_In in Hx as [Hx _].
    pose proof (wf_tgts d Hw) as H1. unfold width in H1. rewrite Forall_forall in H1. auto. }
  rewrite (from_shape_vec_concat _ _ _ W1 eq_refl).
  rewrite (from_shape_vec_concat _ _ _ W2) by (rewrite !map_length; reflexivity).
  eexists; split; [reflexivity|]. split.
  - simpl. rewrite apply_sel_rows by auto. do 2 f_equal.
    assert (K : kept_rows A B W Nm beq labels d = kidx q 0 (d_tgts d)).
    { unfold kept_rows, all_rows, nsamples. rewrite <- Hl.
      apply (filter_seq_kidx q [] (d_tgts d)). }
    rewrite K. f_equal.
    + symmetry. apply (sel_kidx q [] (d_recs d) (d_tgts d)). auto.
    + rewrite ES. symmetry. apply (sel_kidx_self q [] (d_tgts d)).
    + unfold weights_opt. destruct (d_ws d) eqn:E; [rewrite sel_nil|]; reflexivity.
  - simpl. rewrite andb_true_r.
    destruct (counts_rows_ok (map snd F) (ntargets d) W2) as [L C].
    apply counts_ok_intro; [exact L | exact C].
Qed.

(** * one_vs_all *)
Lemma distinct_In v l : In v (distinct B beq l) <-> In v l.
Proof.
  induction l as [|x l IH]; simpl; [tauto|]. rewrite filter_In, IH, negb_true_iff.
  split.
  - intros [H|[H _]]; auto.
  - intros [H|H]; auto. destruct (beq x v) eqn:E.
    + left. apply beq_spec. exact E. + right. auto.
Qed.
Lemma distinct_NoDup l : NoDup (distinct B beq l).
Proof.
  induction l as [|x l IH]; simpl; constructor.
  - rewrite filter_In, negb_true_iff. intros [_ H]. rewrite beq_refl in H. discriminate.
  - apply NoDup_filter. exact IH.
Qed.

Lemma column0_first (rows : list (list B)) : width 1 rows ->
  column 0 rows = Some (flat_map (fun t => match t with x :: _ => [x] | [] => [] end) rows)
  /\ map (fun x => [x]) (flat_map (fun t => match t with x :: _ => [x] | [] => [] end) rows) = rows.
Proof.
  unfold column. induction 1 as [|r rows Hr H IH].
  - simpl; auto.
  - destruct IH as [IH1 IH2]. destruct r as [|x [|y r]]; simpl in Hr; try discriminate.
    simpl in IH1. simpl. rewrite IH1. simpl. rewrite IH2. auto.
Qed.

Lemma one_vs_all_spec d l : WF d ->
  spec_outs OpOneVsAll d = Some l ->
  exists outs, one_vs_all A B W Nm beq of_bool d = Some outs /\ done outs l.
Proof.
  intros Hw. unfold Model.spec_outs, Model.spec, one_vs_all.
  destruct (d_t1 d) eqn:T1; [|discriminate]. simpl.
  intros H; inversion H; subst l; clear H. rewrite map_map.
  pose proof (wf_tgts d Hw) as Ht. unfold Model.ntargets in Ht. rewrite T1 in Ht.
  destruct (column0_first (d_tgts d) Ht) as [C1 C2]. rewrite C1.
  fold (first_column A B W Nm d) in *.
  apply (mapM_spec _ _ (fun _ => true)); [apply forallb_forall; auto|].
  intros label _.
  pose proof (wf_t1 d Hw T1) as Hnt.
  assert (Hn : with_names A B W Nm
                 (new_ds A B W Nm (d_nf d) 1 true (d_recs d)
                    (map (fun x => [x]) (map (fun x => of_bool (beq x label)) (first_column A B W Nm d))) (d_ws d))
                 (d_fn d) (d_tn d)
               = Some (mkD (d_nf d) 1 true (d_recs d)
                    (map (fun x => [x]) (map (fun x => of_bool (beq x label)) (first_column A B W Nm d))) (d_ws d)
                    (d_fn d) (d_tn d))).
  { unfold with_names, new_ds. simpl. unfold Model.ntargets. simpl.
    pose proof (wf_tn d Hw) as Hn. unfold Model.ntargets in Hn. rewrite T1 in Hn.
    rewrite (proj2 (names_ok_iff _ _) (wf_fn d Hw)), (proj2 (names_ok_iff _ _) Hn). reflexivity. }
  rewrite Hn. eexists; split; [reflexivity|]. split.
  - simpl. f_equal. unfold Model.apply_sel. simpl. unfold all_cols at 1. rewrite seq_length.
    rewrite all_rows_recs, all_rows_tgts, all_rows_ws, all_cols_recs, all_cols_fn by auto.
    f_equal.
    + rewrite <- C2. rewrite !map_map. apply map_ext. intros x. reflexivity.
    + pose proof (wf_tn d Hw) as Hn'. unfold Model.ntargets in Hn'. rewrite T1 in Hn'.
      symmetry. apply (sel_all_or_nil (d_tn d) 1). exact Hn'.
  - unfold counts_ok. simpl. unfold Model.ntargets. simpl. rewrite andb_true_r.
    apply CI_counts_ok1.
    match goal with |- CI _ ?c => replace c with ([] ++ map (fun x => of_bool (beq x label)) (first_column A B W Nm d)) end.
    + unfold counts_of. apply CI_fold. apply CI_nil.
    + simpl. unfold tcolumn. simpl. rewrite flat_map_concat_map, map_map. simpl.
      rewrite <- flat_map_concat_map. clear. induction (first_column A B W Nm d); simpl; auto. f_equal. auto.
Qed.

(** * every operation is its documented selection *)
Theorem apply_spec o d l : WF d ->
  spec_outs o d = Some l ->
  exists outs, apply o d = Some outs /\ pairs outs = l /\ forallb (counts_ok A B W Nm beq) outs = true.
Proof.
  intros Hw H. destruct o; simpl.
  - apply split_owned_spec; auto.
  - apply split_view_spec; auto.
  - apply shuffle_spec; auto.
  - apply bootstrap_spec; auto.
  - apply bootstrap_samples_spec; auto.
  - apply bootstrap_features_spec; auto.
  - apply with_labels_spec; auto.
  - apply one_vs_all_spec; auto.
  - apply map_targets_spec; auto.
  - apply view_spec; auto.
  - apply to_owned_spec; auto.
  - apply into_single_spec; auto.
  - apply sample_iter_spec; auto.
  - apply feature_iter_spec; auto.
  - apply target_iter_spec; auto.
  - apply chunks_spec; auto.
Qed.

(** * Alignment: the result is one selection of the source *)
Definition sel_ok (d : dset) (s : selection B) : Prop :=
  Forall (fun i => i < nsamples d) (s_rows s) /\
  Forall (fun j => j < d_nf d) (s_cols s) /\
  Forall (fun j => j < ntargets d) (s_tcols s).

Definition shape_ok (s : selection B) : Prop :=
  (s_t1 s = true -> s_nt s = 1) /\
  (length (s_tcols s) = (if s_t1 s then 1 else s_nt s) \/ (s_rows s = [] /\ s_kt s = false)).

Definition Aligned (src res : dset) : Prop := exists s, sel_ok src s /\ res = apply_sel s src.

Definition compose (s1 s2 : selection B) : selection B :=
  mkSel (sel (s_rows s1) (s_rows s2)) (sel (s_cols s1) (s_cols s2)) (sel (s_tcols s1) (s_tcols s2))
        (fun x => s_g s2 (s_g s1 x)) (s_kw s1 && s_kw s2) (s_kf s1 && s_kf s2) (s_kt s1 && s_kt s2)
        (s_t1 s2) (s_nt s2).

Lemma sel_sel_opt {X} (l : list X) n i j : (l = [] \/ length l = n) -> Forall (fun a => a < n) i ->
  sel (sel l i) j = sel l (sel i j).
Proof.
  intros [H|H] Hi.
  - subst. rewrite !sel_nil. reflexivity.
  - apply sel_sel. rewrite H. exact Hi.
Qed.

Lemma apply_sel_compose a s1 s2 : WF a -> sel_ok a s1 -> sel_ok (apply_sel s1 a) s2 ->
  apply_sel s2 (apply_sel s1 a) = apply_sel (compose s1 s2) a /\ sel_ok a (compose s1 s2).
Proof.
  intros Hw [R1 [C1 T1]] [R2 [C2 T2]]. split.
  - unfold Model.apply_sel at 1 3. unfold compose. simpl. simpl in C2.
    rewrite (sel_length (s_cols s1) (s_cols s2) C2). f_equal.
    + rewrite sel_map, map_map. rewrite sel_sel by exact R1.
      apply map_ext_in. intros r Hr. apply sel_sel.
      apply sel_In in Hr. pose proof (wf_recs a Hw) as Hwid. unfold width in Hwid. rewrite Forall_forall in Hwid.
      rewrite (Hwid r Hr). exact C1.
    + rewrite sel_map, map_map. rewrite sel_sel by (rewrite (wf_ntg a Hw); exact R1).
      apply map_ext_in. intros t Ht. rewrite sel_map, map_map. f_equal. apply sel_sel.
      apply sel_In in Ht. pose proof (wf_tgts a Hw) as Hwid. unfold width in Hwid. rewrite Forall_forall in Hwid.
      rewrite (Hwid t Ht). exact T1.
    + destruct (s_kw s1), (s_kw s2); simpl; auto; try apply sel_nil.
      apply (sel_sel_opt _ (nsamples a)); auto. apply (wf_ws a Hw).
    + destruct (s_kf s1), (s_kf s2); simpl; auto; try apply sel_nil.
      apply (sel_sel_opt _ (d_nf a)); auto. apply (wf_fn a Hw).
    + destruct (s_kt s1), (s_kt s2); simpl; auto; try apply sel_nil.
      apply (sel_sel_opt _ (ntargets a)); auto. apply (wf_tn a Hw).
  - unfold compose, sel_ok. simpl. repeat split; apply sel_Forall; assumption.
Qed.

Lemma Aligned_trans a b c : WF a -> Aligned a b -> Aligned b c -> Aligned a c.
Proof.
  intros Hw [s1 [O1 E1]] [s2 [O2 E2]]. subst b c.
  destruct (apply_sel_compose a s1 s2 Hw O1 O2) as [E O]. exists (compose s1 s2). split; auto.
Qed.

Lemma Aligned_refl d : WF d -> Aligned d d.
Proof.
  intros Hw. exists (sel_rows d (all_rows A B W Nm d) true true). split.
  - unfold sel_ok, Model.sel_rows, all_rows, all_cols, all_tcols. simpl.
    repeat split; apply (seq_Forall_lt 0).
  - rewrite apply_sel_rows by auto. rewrite all_rows_recs, all_rows_tgts, all_rows_ws by auto.
    destruct d; reflexivity.
Qed.

Lemma apply_sel_WF d s : WF d -> sel_ok d s -> shape_ok s -> WF (apply_sel s d).
Proof.
  intros Hw [R [C T]] [S1 S2].
  assert (Rt : Forall (fun i => i < length (d_tgts d)) (s_rows s)) by (rewrite (wf_ntg d Hw); exact R).
  constructor; simpl.
  - apply Forall_forall. intros r Hr. apply in_map_iff in Hr as [r0 [E Hr]]. subst r.
    apply sel_In in Hr. pose proof (wf_recs d Hw) as Hwid. unfold width in Hwid. rewrite Forall_forall in Hwid.
    apply sel_length. rewrite (Hwid r0 Hr). exact C.
  - unfold Model.ntargets. simpl. destruct S2 as [S2|[S2 _]].
    + apply Forall_forall. intros t Ht. apply in_map_iff in Ht as [t0 [E Ht]]. subst t.
      apply sel_In in Ht. pose proof (wf_tgts d Hw) as Hwid. unfold width in Hwid. rewrite Forall_forall in Hwid.
      rewrite map_length, sel_length by (rewrite (Hwid t0 Ht); exact T). exact S2.
    + rewrite S2. unfold sel. simpl. constructor.
  - unfold nsamples. simpl. rewrite !map_length, !sel_length; auto.
  - unfold nsamples. simpl. rewrite map_length, (sel_length (d_recs d)) by exact R.
    destruct (s_kw s); auto. destruct (wf_ws d Hw) as [E|E].
    + left. rewrite E. apply sel_nil.
    + right. apply sel_length. rewrite E. exact R.
  - destruct (s_kf s); auto. destruct (wf_fn d Hw) as [E|E].
    + left. rewrite E. apply sel_nil.
    + right. apply sel_length. rewrite E. exact C.
  - unfold Model.ntargets. simpl. destruct (s_kt s) eqn:K; auto. destruct (wf_tn d Hw) as [E|E].
    + left. rewrite E. apply sel_nil.
    + right. rewrite sel_length by (rewrite E; exact T).
      destruct S2 as [S2|[_ S2]]; [exact S2|discriminate].
  - exact S1.
Qed.

Lemma all_tcols_length d : length (all_tcols A B W Nm d) = if d_t1 d then 1 else d_nt d.
Proof. unfold all_tcols. rewrite seq_length. reflexivity. Qed.

Lemma sel_rows_ok d rows kw kn : WF d -> Forall (fun i => i < nsamples d) rows ->
  sel_ok d (sel_rows d rows kw kn) /\ shape_ok (sel_rows d rows kw kn).
Proof.
  intros Hw H. unfold sel_ok, shape_ok, Model.sel_rows. simpl. repeat split; auto.
  - apply (seq_Forall_lt 0). - apply (seq_Forall_lt 0). - apply (wf_t1 d Hw).
  - left. apply all_tcols_length.
Qed.

Lemma Forall_map_intro {X Y} (P : Y -> Prop) (f : X -> Y) l : (forall x, In x l -> P (f x)) -> Forall P (map f l).
Proof. intros H. apply Forall_forall. intros y Hy. apply in_map_iff in Hy as [x [E Hx]]. subst. auto. Qed.

Ltac one_res := constructor; [|constructor]; simpl.
Ltac two_res := constructor; [|constructor; [|constructor]]; simpl.

Lemma spec_ok o d l : WF d -> spec o d = Some l ->
  Forall (fun p => sel_ok d (snd p) /\ shape_ok (snd p)) l.
Proof.
  intros Hw. destruct o; simpl.
  - (* split owned *)
    unfold split_point. destruct (N.ltb _ _) eqn:E; [discriminate|]. apply N.ltb_ge in E.
    intros H; inversion H; subst l; clear H.
    assert (Hn : N.to_nat (ceil_ratio_f32 (N.of_nat (nsamples d)) ratio) <= nsamples d).
    { revert E. generalize (ceil_ratio_f32 (N.of_nat (nsamples d)) ratio). intros c E. lia. }
    two_res; apply sel_rows_ok; auto.
    + eapply Forall_impl; [|apply (seq_Forall_lt 0)]. simpl. intros; lia.
    + eapply Forall_impl; [|apply seq_Forall_lt]. simpl. intros; lia.
  - unfold split_point. destruct (N.ltb _ _) eqn:E; [discriminate|]. apply N.ltb_ge in E.
    intros H; inversion H; subst l; clear H.
    assert (Hn : N.to_nat (ceil_ratio_f32 (N.of_nat (nsamples d)) ratio) <= nsamples d).
    { revert E. generalize (ceil_ratio_f32 (N.of_nat (nsamples d)) ratio). intros c E. lia. }
    two_res; apply sel_rows_ok; auto.
    + eapply Forall_impl; [|apply (seq_Forall_lt 0)]. simpl. intros; lia.
    + eapply Forall_impl; [|apply seq_Forall_lt]. simpl. intros; lia.
  - destruct (in_range (nsamples d) idx) eqn:E; [|discriminate].
    intros H; inversion H; subst l; clear H. one_res; apply sel_rows_ok; auto.
    apply in_range_Forall. exact E.
  - match goal with |- context [forallb ?P draws] => destruct (forallb P draws) eqn:E; [|discriminate] end.
    intros H; inversion H; subst l; clear H. apply Forall_map_intro. intros [idx c] Hin. simpl.
    rewrite forallb_forall in E. specialize (E _ Hin). simpl in E. apply andb_true_iff in E as [E1 E2].
    apply in_range_Forall in E1. apply in_range_Forall in E2.
    unfold sel_ok, shape_ok. simpl. repeat split; auto.
    + apply (seq_Forall_lt 0). + apply (wf_t1 d Hw). + left. apply all_tcols_length.
  - destruct (forallb (in_range (nsamples d)) draws) eqn:E; [|discriminate].
    intros H; inversion H; subst l; clear H. apply Forall_map_intro. intros idx Hin. simpl.
    rewrite forallb_forall in E. specialize (E _ Hin). apply in_range_Forall in E. apply sel_rows_ok; auto.
  - destruct (forallb (in_range (d_nf d)) draws) eqn:E; [|discriminate].
    intros H; inversion H; subst l; clear H. apply Forall_map_intro. intros c Hin. simpl.
    rewrite forallb_forall in E. specialize (E _ Hin). apply in_range_Forall in E.
    unfold sel_ok, shape_ok. simpl. repeat split; auto.
    + apply (seq_Forall_lt 0). + apply (seq_Forall_lt 0). + apply (wf_t1 d Hw). + left. apply all_tcols_length.
  - intros H; inversion H; subst l; clear H. one_res; apply sel_rows_ok; auto.
    unfold kept_rows. apply Forall_forall. intros i Hi. apply filter_In in Hi as [Hi _].
    unfold all_rows in Hi. apply in_seq in Hi. lia.
  - destruct (d_t1 d) eqn:T1; [|discriminate].
    intros H; inversion H; subst l; clear H. apply Forall_map_intro. intros lab _. simpl.
    unfold sel_ok, shape_ok. simpl. repeat split; auto; try apply (seq_Forall_lt 0).
    constructor; auto. unfold Model.ntargets. rewrite T1. lia.
  - intros H; inversion H; subst l; clear H. one_res.
    unfold sel_ok, shape_ok. simpl. repeat split; try apply (seq_Forall_lt 0).
    + apply (wf_t1 d Hw). + left. apply all_tcols_length.
  - intros H; inversion H; subst l; clear H. one_res; apply sel_rows_ok; auto. apply (seq_Forall_lt 0).
  - intros H; inversion H; subst l; clear H. one_res; apply sel_rows_ok; auto. apply (seq_Forall_lt 0).
  - destruct (d_t1 d) eqn:T1; simpl; [discriminate|].
    destruct (Nat.eqb (nsamples d * d_nt d) (nsamples d)) eqn:E; [|discriminate]. apply Nat.eqb_eq in E.
    intros H; inversion H; subst l; clear H. one_res.
    unfold sel_ok, shape_ok. simpl. repeat split; try apply (seq_Forall_lt 0).
    rewrite all_tcols_length, T1. unfold all_rows.
    destruct (nsamples d) eqn:En; [right; auto|left; nia].
  - intros H; inversion H; subst l; clear H. one_res; apply sel_rows_ok; auto. apply (seq_Forall_lt 0).
  - intros H; inversion H; subst l; clear H. apply Forall_map_intro. intros j Hj. simpl.
    unfold all_cols in Hj. apply in_seq in Hj.
    unfold sel_ok, shape_ok. simpl. repeat split; auto; try apply (seq_Forall_lt 0).
    + constructor; auto. lia. + apply (wf_t1 d Hw). + left. apply all_tcols_length.
  - destruct (d_t1 d) eqn:T1; [discriminate|].
    intros H; inversion H; subst l; clear H. apply Forall_map_intro. intros j Hj. simpl. apply in_seq in Hj.
    unfold sel_ok, shape_ok. simpl. repeat split; auto; try apply (seq_Forall_lt 0); try discriminate.
    constructor; auto. unfold Model.ntargets. rewrite T1. lia.
  - destruct size as [|s]; [discriminate|]. remember (S s) as size eqn:Es.
    intros H. injection H as H. subst l. apply Forall_map_intro. intros i Hi. simpl. apply in_seq in Hi.
    apply sel_rows_ok; auto.
    assert (Hb : (i + 1) * size <= nsamples d).
    { assert (Hs : size <> 0) by lia. pose proof (Nat.mul_div_le (nsamples d) size Hs) as Hd.
      apply Nat.le_trans with (size * (nsamples d / size)); [|exact Hd].
      rewrite Nat.mul_comm. apply Nat.mul_le_mono_l. lia. }
    eapply Forall_impl; [|apply seq_Forall_lt]. simpl. intros; lia.
Qed.

Theorem spec_aligned o d l : WF d -> spec_outs o d = Some l ->
  Forall (fun p => Aligned d (snd p) /\ WF (snd p)) l.
Proof.
  intros Hw H. unfold Model.spec_outs in H. destruct (spec o d) as [sp|] eqn:E; [|discriminate].
  inversion H; subst l; clear H. pose proof (spec_ok o d sp Hw E) as Hok.
  apply Forall_map_intro. intros [lab s] Hin. simpl.
  rewrite Forall_forall in Hok. destruct (Hok _ Hin) as [O S]. simpl in *. split.
  - exists s. auto. - apply apply_sel_WF; auto.
Qed.

(** * histories *)
Fixpoint run_spec (ops : list (op B * nat)) (d : dset) : option dset :=
  match ops with
  | [] => Some d
  | (o, k) :: rest =>
    match spec_outs o d with
    | None => None
    | Some l => match nth_error l k with Some p => run_spec rest (snd p) | None => None end
    end
  end.

Theorem run_aligned ops : forall d d', WF d -> run_spec ops d = Some d' ->
  run A B W Nm beq of_bool ops d = Some d' /\ Aligned d d' /\ WF d'.
Proof.
  induction ops as [|[o k] rest IH]; intros d d' Hw H; simpl in *.
  - inversion H; subst. split; [reflexivity|]. split; [apply Aligned_refl; auto|auto].
  - destruct (spec_outs o d) as [l|] eqn:E; [|discriminate].
    destruct (nth_error l k) as [p|] eqn:Ek; [|discriminate].
    destruct (apply_spec o d l Hw E) as [outs [Ea [Ep _]]]. rewrite Ea.
    pose proof (spec_aligned o d l Hw E) as Hal. rewrite Forall_forall in Hal.
    destruct (Hal p (nth_error_In _ _ Ek)) as [Al Wp].
    unfold pairs in Ep. subst l. rewrite nth_error_map in Ek.
    destruct (nth_error outs k) as [r|]; [|discriminate]. simpl in Ek. inversion Ek; subst p. simpl in *.
    destruct (IH _ _ Wp H) as [R [Al' W']]. split; [exact R|]. split; [|exact W'].
    eapply Aligned_trans; eauto.
Qed.

(** * documented content of the individual operations *)
Lemma sel_prefix_opt {X} (l : list X) n k : (l = [] \/ length l = n) -> k <= n -> sel l (seq 0 k) = firstn k l.
Proof. intros [H|H] Hk; [subst; rewrite sel_nil, firstn_nil; reflexivity | apply sel_prefix; lia]. Qed.
Lemma sel_suffix_opt {X} (l : list X) n k : (l = [] \/ length l = n) -> k <= n -> sel l (seq k (n - k)) = skipn k l.
Proof. intros [H|H] Hk; [subst; rewrite sel_nil, skipn_nil; reflexivity | subst n; apply sel_suffix; lia]. Qed.

Theorem split_content d ratio : WF d ->
  let n := nsamples d in
  let n1N := ceil_ratio_f32 (N.of_nat n) ratio in
  let n1 := N.to_nat n1N in
  let d1 := mkD (d_nf d) (d_nt d) (d_t1 d) (firstn n1 (d_recs d)) (firstn n1 (d_tgts d)) (firstn n1 (d_ws d)) (d_fn d) (d_tn d) in
  let d2 := mkD (d_nf d) (d_nt d) (d_t1 d) (skipn n1 (d_recs d)) (skipn n1 (d_tgts d)) (skipn n1 (d_ws d)) (d_fn d) (d_tn d) in
  ((n1N <= N.of_nat n)%N ->
     (exists outs, split_owned A B W Nm ratio d = Some outs /\ pairs outs = [(None, d1); (None, d2)]) /\
     (exists outs, split_view A B W Nm ratio d = Some outs /\ pairs outs = [(None, d1); (None, d2)])) /\
  ((N.of_nat n < n1N)%N -> split_owned A B W Nm ratio d = None /\ split_view A B W Nm ratio d = None).
Proof.
  intros Hw n n1N n1 d1 d2. split.
  - intros Hle.
    assert (Hn : n1 <= n). { unfold n1. revert Hle. generalize n1N. intros c Hc. lia. }
    assert (Hs : forall o, o = OpSplitOwned ratio \/ o = OpSplitView ratio -> spec_outs o d = Some [(None, d1); (None, d2)]).
    { intros o Ho. unfold Model.spec_outs.
      assert (E : spec o d = Some [(None, sel_rows d (seq 0 n1) true true); (None, sel_rows d (seq n1 (n - n1)) true true)]).
      { destruct Ho; subst o; simpl; unfold split_point; fold n; fold n1N;
        rewrite (proj2 (N.ltb_ge _ _) Hle); reflexivity. }
      rewrite E. simpl. rewrite !apply_sel_rows by auto. unfold d1, d2.
      pose proof (wf_ntg d Hw) as Hl. fold n in Hl.
      rewrite (sel_prefix (d_recs d)), (sel_prefix (d_tgts d)) by (try rewrite Hl; exact Hn).
      rewrite (sel_prefix_opt (d_ws d) n) by (auto; apply (wf_ws d Hw)).
      rewrite (sel_suffix_opt (d_recs d) n), (sel_suffix_opt (d_tgts d) n), (sel_suffix_opt (d_ws d) n)
        by (auto; try apply (wf_ws d Hw)).
      reflexivity. }
    split.
    + destruct (split_owned_spec d ratio _ Hw (Hs _ (or_introl eq_refl))) as [outs [E1 [E2 _]]]. eauto.
    + destruct (split_view_spec d ratio _ Hw (Hs _ (or_intror eq_refl))) as [outs [E1 [E2 _]]]. eauto.
  - intros Hlt. unfold split_owned, split_view. fold n. fold n1N.
    rewrite (proj2 (N.ltb_lt _ _) Hlt). auto.
Qed.

Lemma nth_error_combine {X Y} (a : list X) (b : list Y) i :
  nth_error (combine a b) i = match nth_error a i, nth_error b i with Some x, Some y => Some (x, y) | _, _ => None end.
Proof.
  revert b i. induction a as [|x a IH]; intros [|y b] [|i]; simpl; auto.
  destruct (nth_error a i); reflexivity.
Qed.

Lemma sel_combine {X Y} (a : list X) (b : list Y) idx : length a = length b ->
  sel (combine a b) idx = combine (sel a idx) (sel b idx).
Proof.
  intros Hl. induction idx as [|i idx IH]; auto.
  rewrite !sel_cons, IH, nth_error_combine.
  destruct (nth_error a i) eqn:E1, (nth_error b i) eqn:E2; simpl; auto.
  - apply nth_error_None in E2. assert (i < length a) by (apply nth_error_Some; congruence). lia.
  - apply nth_error_None in E1. assert (i < length b) by (apply nth_error_Some; congruence). lia.
Qed.

Theorem shuffle_perm d idx : WF d -> Permutation idx (seq 0 (nsamples d)) ->
  exists outs d', shuffle A B W Nm idx d = Some outs /\ pairs outs = [(None, d')] /\
    d_recs d' = sel (d_recs d) idx /\ d_tgts d' = sel (d_tgts d) idx /\
    Permutation (combine (d_recs d') (d_tgts d')) (combine (d_recs d) (d_tgts d)) /\
    d_ws d' = [] /\ d_fn d' = d_fn d /\ d_tn d' = d_tn d.
Proof.
  intros Hw Hp.
  assert (Hr : in_range (nsamples d) idx = true).
  { apply in_range_Forall. apply Forall_forall. intros i Hi.
    apply (Permutation_in _ Hp) in Hi. apply in_seq in Hi. lia. }
  assert (Hs : spec_outs (OpShuffle idx) d = Some [(None, apply_sel (sel_rows d idx false true) d)]).
  { unfold Model.spec_outs. simpl. rewrite Hr. reflexivity. }
  destruct (shuffle_spec d idx _ Hw Hs) as [outs [E1 [E2 _]]].
  exists outs. eexists. split; [exact E1|]. split; [exact E2|].
  rewrite apply_sel_rows by auto. simpl. repeat split; auto.
  pose proof (wf_ntg d Hw) as Hl. unfold nsamples in Hl.
  rewrite <- sel_combine by auto.
  assert (Hc : length (combine (d_recs d) (d_tgts d)) = nsamples d).
  { rewrite combine_length, Hl. unfold nsamples. apply Nat.min_id. }
  rewrite <- (sel_all (combine (d_recs d) (d_tgts d))) at 2. rewrite Hc.
  unfold sel. apply Permutation_flat_map. exact Hp.
Qed.

Theorem bootstrap_content d idx cidx : WF d ->
  Forall (fun i => i < nsamples d) idx -> Forall (fun j => j < d_nf d) cidx ->
  exists outs d', bootstrap A B W Nm [(idx, cidx)] d = Some outs /\ pairs outs = [(None, d')] /\
    length (d_recs d') = length idx /\ length (d_tgts d') = length idx /\ d_nf d' = length cidx /\
    d_ws d' = [] /\
    forall i r, nth_error idx i = Some r ->
      exists row t, nth_error (d_recs d) r = Some row /\ nth_error (d_tgts d) r = Some t /\
                    nth_error (d_recs d') i = Some (sel row cidx) /\ nth_error (d_tgts d') i = Some t.
Proof.
  intros Hw Hi Hc.
  assert (Hs : spec_outs (OpBootstrap [(idx, cidx)]) d
               = Some [(None, apply_sel (mkSel idx cidx (all_tcols A B W Nm d) (idB B) false false false (d_t1 d) (d_nt d)) d)]).
  { unfold Model.spec_outs. simpl.
    rewrite (proj2 (in_range_Forall _ _) Hi), (proj2 (in_range_Forall _ _) Hc). reflexivity. }
  destruct (bootstrap_spec d _ _ Hw Hs) as [outs [E1 [E2 _]]].
  exists outs. eexists. split; [exact E1|]. split; [exact E2|].
  pose proof (wf_ntg d Hw) as Hl.
  assert (Hi' : Forall (fun i => i < length (d_tgts d)) idx) by (rewrite Hl; exact Hi).
  unfold Model.apply_sel. simpl.
  rewrite (apply_sel_tgts_all d _ Hw) by (apply sel_Forall; apply (wf_tgts d Hw)).
  rewrite map_length, !sel_length by auto. repeat split; auto.
  intros i r Hir. rewrite Forall_forall in Hi. pose proof (Hi r (nth_error_In _ _ Hir)) as Hr.
  destruct (nth_error_lt_Some (d_recs d) r Hr) as [row Hrow].
  destruct (nth_error_lt_Some (d_tgts d) r) as [t Ht]; [rewrite Hl; exact Hr|].
  exists row, t. repeat split; auto.
  - rewrite nth_error_map, nth_error_sel by (apply Forall_forall; exact Hi). rewrite Hir, Hrow. reflexivity.
  - rewrite nth_error_sel by exact Hi'. rewrite Hir. exact Ht.
Qed.

Lemma combine_fst_snd {X Y} (l : list (X * Y)) : combine (map fst l) (map snd l) = l.
Proof. induction l as [|[x y] l IH]; simpl; auto. rewrite IH. reflexivity. Qed.

Lemma any_in_iff labels t : any_in B beq labels t = true <-> exists x, In x t /\ In x labels.
Proof.
  unfold any_in. rewrite existsb_exists. split; intros [x [H1 H2]]; exists x; split; auto; apply mem_In; auto.
Qed.

Theorem with_labels_content d labels : WF d ->
  exists outs d', with_labels A B W Nm beq labels d = Some outs /\ pairs outs = [(None, d')] /\
    forallb (counts_ok A B W Nm beq) outs = true /\
    let K := kept_rows A B W Nm beq labels d in
    d_recs d' = sel (d_recs d) K /\ d_tgts d' = sel (d_tgts d) K /\ d_ws d' = sel (d_ws d) K /\
    d_fn d' = d_fn d /\ d_tn d' = d_tn d /\
    combine (d_recs d') (d_tgts d') = filter (fun p => any_in B beq labels (snd p)) (combine (d_recs d) (d_tgts d)) /\
    (forall i, In i K <-> exists t x, nth_error (d_tgts d) i = Some t /\ In x t /\ In x labels).
Proof.
  intros Hw.
  assert (Hs : spec_outs (OpWithLabels labels) d
               = Some [(None, apply_sel (sel_rows d (kept_rows A B W Nm beq labels d) true true) d)]) by reflexivity.
  destruct (with_labels_spec d labels _ Hw Hs) as [outs [E1 [E2 E3]]].
  exists outs. eexists. split; [exact E1|]. split; [exact E2|]. split; [exact E3|].
  rewrite apply_sel_rows by auto. simpl. repeat split; auto.
  - pose proof (wf_ntg d Hw) as Hl. unfold nsamples in Hl.
    set (q := any_in B beq labels).
    assert (K : kept_rows A B W Nm beq labels d = kidx q 0 (d_tgts d)).
    { unfold kept_rows, all_rows, nsamples. rewrite <- Hl. apply (filter_seq_kidx q [] (d_tgts d)). }
    rewrite K.
    pose proof (sel_kidx q [] (d_recs d) (d_tgts d) (eq_sym Hl)) as H1. simpl in H1. rewrite H1.
    pose proof (sel_kidx_self q [] (d_tgts d)) as H2. simpl in H2. rewrite H2.
    rewrite <- (map_snd_filter_combine q (d_recs d) (d_tgts d)) by auto.
    apply combine_fst_snd.
  - intros Hi. unfold kept_rows in Hi. apply filter_In in Hi as [_ Hi].
    destruct (nth_error (d_tgts d) i) as [t|] eqn:E; [|discriminate].
    apply any_in_iff in Hi as [x [H1 H2]]. exists t, x. auto.
  - intros [t [x [H1 [H2 H3]]]]. unfold kept_rows. apply filter_In. split.
    + unfold all_rows. apply in_seq. rewrite <- (wf_ntg d Hw).
      assert (i < length (d_tgts d)) by (apply nth_error_Some; congruence). lia.
    + rewrite H1. apply any_in_iff. eauto.
Qed.

Theorem one_vs_all_content d : WF d -> d_t1 d = true ->
  let labs := distinct B beq (first_column A B W Nm d) in
  exists outs, one_vs_all A B W Nm beq of_bool d = Some outs /\
    forallb (counts_ok A B W Nm beq) outs = true /\
    NoDup labs /\ (forall v, In v labs <-> In v (first_column A B W Nm d)) /\
    pairs outs = map (fun l => (Some l, mkD (d_nf d) 1 true (d_recs d)
                                            (map (map (fun x => of_bool (beq x l))) (d_tgts d))
                                            (d_ws d) (d_fn d) (d_tn d))) labs.
Proof.
  intros Hw T1 labs.
  assert (Hs : exists l, spec_outs OpOneVsAll d = Some l /\
     l = map (fun l => (Some l, mkD (d_nf d) 1 true (d_recs d)
                                     (map (map (fun x => of_bool (beq x l))) (d_tgts d))
                                     (d_ws d) (d_fn d) (d_tn d))) labs).
  { eexists. split.
    - unfold Model.spec_outs. simpl. rewrite T1. reflexivity.
    - rewrite map_map. apply map_ext. intros lab. simpl. f_equal.
      unfold Model.apply_sel. simpl. unfold all_cols at 1. rewrite seq_length.
      rewrite all_rows_recs, all_rows_tgts, all_rows_ws, all_cols_recs, all_cols_fn by auto.
      pose proof (wf_tgts d Hw) as Ht. pose proof (wf_tn d Hw) as Hn.
      unfold Model.ntargets in Ht, Hn. rewrite T1 in Ht, Hn.
      f_equal.
      + clear - Ht. induction Ht as [|t ts Ht Hts IH]; simpl; auto. rewrite IH. f_equal.
        destruct t as [|x [|y t]]; simpl in Ht; try discriminate. reflexivity.
      + apply (sel_all_or_nil (d_tn d) 1). exact Hn. }
  destruct Hs as [l [Hs El]].
  destruct (one_vs_all_spec d l Hw Hs) as [outs [E1 [E2 E3]]].
  exists outs. split; [exact E1|]. split; [exact E3|]. split; [apply distinct_NoDup|].
  split; [intros v; apply distinct_In|]. rewrite E2. exact El.
Qed.

(** * what alignment says, row by row and column by column *)
Theorem aligned_rows src res : WF src -> Aligned src res ->
  exists rows cols tcols g,
    Forall (fun r => r < nsamples src) rows /\ Forall (fun c => c < d_nf src) cols /\
    Forall (fun c => c < ntargets src) tcols /\ length rows = nsamples res /\
    (forall i r, nth_error rows i = Some r ->
       exists row t, nth_error (d_recs src) r = Some row /\ nth_error (d_tgts src) r = Some t /\
         nth_error (d_recs res) i = Some (sel row cols) /\
         nth_error (d_tgts res) i = Some (map g (sel t tcols)) /\
         (d_ws res = [] \/ (nth_error (d_ws res) i = nth_error (d_ws src) r /\ length (d_ws res) = nsamples res))) /\
    (d_fn res = [] \/ d_fn res = sel (d_fn src) cols) /\
    (d_tn res = [] \/ d_tn res = sel (d_tn src) tcols).
Proof.
  intros Hw [s [[R [C T]] E]]. subst res.
  exists (s_rows s), (s_cols s), (s_tcols s), (s_g s).
  pose proof (wf_ntg src Hw) as Hl.
  assert (Rt : Forall (fun i => i < length (d_tgts src)) (s_rows s)) by (rewrite Hl; exact R).
  split; [exact R|]. split; [exact C|]. split; [exact T|].
  split; [unfold nsamples; simpl; rewrite map_length, sel_length by exact R; reflexivity|].
  split; [|split].
  - intros i r Hir. rewrite Forall_forall in R. pose proof (R r (nth_error_In _ _ Hir)) as Hr.
    destruct (nth_error_lt_Some (d_recs src) r Hr) as [row Hrow].
    destruct (nth_error_lt_Some (d_tgts src) r) as [t Ht]; [rewrite Hl; exact Hr|].
    exists row, t. simpl. split; [exact Hrow|]. split; [exact Ht|]. split; [|split].
    + rewrite nth_error_map, nth_error_sel by (apply Forall_forall; exact R). rewrite Hir, Hrow. reflexivity.
    + rewrite nth_error_map, nth_error_sel by exact Rt. rewrite Hir, Ht. reflexivity.
    + destruct (s_kw s); auto. destruct (wf_ws src Hw) as [Ew|Ew].
      * left. rewrite Ew. apply sel_nil.
      * right. assert (Rw : Forall (fun i => i < length (d_ws src)) (s_rows s)) by (rewrite Ew; apply Forall_forall; exact R).
        split.
        -- rewrite nth_error_sel by exact Rw. rewrite Hir. reflexivity.
        -- unfold nsamples. simpl. rewrite map_length, !sel_length; auto. apply Forall_forall; exact R.
  - simpl. destruct (s_kf s); auto.
  - simpl. destruct (s_kt s); auto.
Qed.

Theorem operation_aligned o d l : WF d -> spec_outs o d = Some l ->
  exists outs, apply o d = Some outs /\ pairs outs = l /\
    Forall (fun r => Aligned d (o_ds r) /\ WF (o_ds r)) outs /\
    forallb (counts_ok A B W Nm beq) outs = true.
Proof.
  intros Hw H. destruct (apply_spec o d l Hw H) as [outs [E1 [E2 E3]]].
  exists outs. split; [exact E1|]. split; [exact E2|]. split; [|exact E3].
  pose proof (spec_aligned o d l Hw H) as Hal. subst l. unfold pairs in Hal.
  rewrite Forall_map in Hal. exact Hal.
Qed.

(** * chunking and the iterators *)
Theorem chunks_content d size : WF d -> size <> 0 ->
  exists outs, sample_chunks A B W Nm size d = Some outs /\
    pairs outs = map (fun i => (None, mkD (d_nf d) (d_nt d) (d_t1 d)
                                          (firstn size (skipn (i * size) (d_recs d)))
                                          (firstn size (skipn (i * size) (d_tgts d))) [] [] []))
                     (seq 0 (nsamples d / size)).
Proof.
  intros Hw Hs.
  assert (E : spec_outs (OpChunks size) d
              = Some (map (fun i => (None, mkD (d_nf d) (d_nt d) (d_t1 d)
                                          (firstn size (skipn (i * size) (d_recs d)))
                                          (firstn size (skipn (i * size) (d_tgts d))) [] [] []))
                     (seq 0 (nsamples d / size)))).
  { unfold Model.spec_outs. simpl. destruct size as [|s]; [contradiction|]. remember (S s) as sz eqn:Es.
    rewrite map_map. f_equal. apply map_ext_in. intros i Hi. apply in_seq in Hi. simpl.
    rewrite apply_sel_rows by auto. f_equal.
    assert (Hb : (i + 1) * sz <= nsamples d).
    { assert (Hz : sz <> 0) by lia. pose proof (Nat.mul_div_le (nsamples d) sz Hz) as Hd.
      apply Nat.le_trans with (sz * (nsamples d / sz)); [|exact Hd].
      rewrite Nat.mul_comm. apply Nat.mul_le_mono_l. lia. }
    rewrite !sel_seq by (try rewrite (wf_ntg d Hw); unfold nsamples in *; lia). reflexivity. }
  destruct (chunks_spec d size _ Hw E) as [outs [E1 [E2 _]]]. eauto.
Qed.

Theorem sample_iter_content d : WF d ->
  exists outs, sample_iter A B W Nm d = Some outs /\
    pairs outs = [(None, mkD (d_nf d) (d_nt d) (d_t1 d) (d_recs d) (d_tgts d) [] [] [])].
Proof.
  intros Hw.
  assert (E : spec_outs OpSampleIter d = Some [(None, mkD (d_nf d) (d_nt d) (d_t1 d) (d_recs d) (d_tgts d) [] [] [])]).
  { unfold Model.spec_outs. simpl. rewrite apply_sel_rows by auto.
    rewrite all_rows_recs, all_rows_tgts by auto. reflexivity. }
  destruct (sample_iter_spec d _ Hw E) as [outs [E1 [E2 _]]]. eauto.
Qed.

Theorem feature_iter_content d : WF d ->
  exists outs, feature_iter A B W Nm d = Some outs /\
    pairs outs = map (fun j => (None, mkD 1 (d_nt d) (d_t1 d) (map (fun r => sel r [j]) (d_recs d)) (d_tgts d) (d_ws d)
                                          (if Nat.eqb (d_nf d) 1 then sel (d_fn d) [j] else []) (d_tn d)))
                     (seq 0 (d_nf d)).
Proof.
  intros Hw.
  assert (E : spec_outs OpFeatureIter d
              = Some (map (fun j => (None, mkD 1 (d_nt d) (d_t1 d) (map (fun r => sel r [j]) (d_recs d)) (d_tgts d) (d_ws d)
                                          (if Nat.eqb (d_nf d) 1 then sel (d_fn d) [j] else []) (d_tn d)))
                     (seq 0 (d_nf d)))).
  { unfold Model.spec_outs. simpl. rewrite map_map. f_equal. apply map_ext. intros j. simpl.
    unfold Model.apply_sel. simpl.
    rewrite all_rows_recs, all_rows_tgts, all_rows_ws, all_tcols_tn by auto.
    rewrite (apply_sel_tgts_all d _ Hw (wf_tgts d Hw)). reflexivity. }
  destruct (feature_iter_spec d _ Hw E) as [outs [E1 [E2 _]]]. eauto.
Qed.

Theorem target_iter_content d : WF d -> d_t1 d = false ->
  exists outs, target_iter A B W Nm d = Some outs /\
    pairs outs = map (fun j => (None, mkD (d_nf d) 1 false (d_recs d) (map (fun t => sel t [j]) (d_tgts d)) (d_ws d)
                                          (d_fn d) (sel (d_tn d) [j])))
                     (seq 0 (d_nt d)).
Proof.
  intros Hw T1.
  assert (E : spec_outs OpTargetIter d
              = Some (map (fun j => (None, mkD (d_nf d) 1 false (d_recs d) (map (fun t => sel t [j]) (d_tgts d)) (d_ws d)
                                          (d_fn d) (sel (d_tn d) [j])))
                     (seq 0 (d_nt d)))).
  { unfold Model.spec_outs. simpl. rewrite T1. rewrite map_map. f_equal. apply map_ext. intros j. simpl.
    unfold Model.apply_sel. simpl. unfold all_cols at 1. rewrite seq_length.
    rewrite all_rows_recs, all_rows_tgts, all_rows_ws, all_cols_recs, all_cols_fn by auto.
    assert (Hm : map (fun t => map (idB B) (sel t [j])) (d_tgts d) = map (fun r => sel r [j]) (d_tgts d))
      by (apply map_ext; intros t; unfold idB; apply map_id).
    rewrite Hm. reflexivity. }
  destruct (target_iter_spec d _ Hw E) as [outs [E1 [E2 _]]]. eauto.
Qed.

Theorem target_iter_single_panics d : d_t1 d = true -> target_iter A B W Nm d = None.
Proof. intros T1. unfold target_iter, Model.ntargets. rewrite T1. simpl. unfold target_iter1. rewrite T1. reflexivity. Qed.

(** * the documented domain is exactly where the code returns (operations without drawn indices) *)
Definition rng_free (o : op B) : bool :=
  match o with
  | OpShuffle _ | OpBootstrap _ | OpBootSamples _ | OpBootFeatures _ => false
  | _ => true
  end.

Theorem domain_exact o d : WF d -> rng_free o = true ->
  (spec o d = None <-> apply o d = None).
Proof.
  intros Hw Hr. split.
  - destruct o; try discriminate Hr; simpl; try (intros H0; discriminate H0).
    + unfold split_point, split_owned. destruct (N.ltb _ _); [reflexivity|intros H0; discriminate H0].
    + unfold split_point, split_view. destruct (N.ltb _ _); [reflexivity|intros H0; discriminate H0].
    + unfold one_vs_all. destruct (d_t1 d); [intros H0; discriminate H0|reflexivity].
    + unfold into_single_target. destruct (d_t1 d) eqn:T1; simpl; [reflexivity|].
      pose proof (wf_tgts d Hw) as Ht. unfold Model.ntargets in Ht. rewrite T1 in Ht.
      rewrite (concat_length_w _ _ Ht), (wf_ntg d Hw).
      destruct (Nat.eqb (nsamples d * d_nt d) (nsamples d)); [intros H0; discriminate H0|reflexivity].
    + destruct (d_t1 d) eqn:T1; [intros _; apply target_iter_single_panics; exact T1|intros H0; discriminate H0].
    + destruct size; [reflexivity|intros H0; discriminate H0].
  - intros Ha. destruct (spec o d) as [sp|] eqn:E; auto.
    assert (Hs : spec_outs o d = Some (map (fun p => (fst p, apply_sel (snd p) d)) sp))
      by (unfold Model.spec_outs; rewrite E; reflexivity).
    destruct (apply_spec o d _ Hw Hs) as [outs [E1 _]]. rewrite E1 in Ha. discriminate.
Qed.


End Ops.

(** * Examples: the hypotheses of the theorems are satisfiable on non-trivial inputs *)
Definition ofbN (b : bool) : N := if b then 1%N else 0%N.
Lemma Neqb_spec : forall x y : N, N.eqb x y = true <-> x = y.
Proof. intros. apply N.eqb_eq. Qed.

(* three samples, two features, one-dimensional labels 1 0 1, weights and names present *)
Definition ex_d : dset N N N N :=
  mkD 2 1 true ([[0; 1]; [64; 65]; [128; 129]])%N ([[1]; [0]; [1]])%N ([1; 3; 5])%N ([0; 1])%N ([0])%N.
(* two target columns *)
Definition ex_d2 : dset N N N N :=
  mkD 1 2 false ([[0]; [64]; [128]; [192]])%N ([[1; 0]; [0; 0]; [2; 1]; [0; 2]])%N ([1; 3; 5; 7])%N ([0])%N ([0; 1])%N.
Definition half : spec_float := b32_of_bits 1056964608%Z.       (* 0.5f32 *)
Definition tenth : spec_float := b32_of_bits 1036831949%Z.      (* 0.1f32 = 0.100000001490116...  *)

Example ex_wf : WF N N N N ex_d.
Proof. apply wf_WF. reflexivity. Qed.
Example ex_wf2 : WF N N N N ex_d2.
Proof. apply wf_WF. reflexivity. Qed.

(* the split point is taken in single precision: 10 * 0.1f32 rounds to 1.0, so the first part has
   one sample (the exact product 1.0000000149 would give two); 3 * 0.5 = 1.5 gives two *)
Example ex_ceil_single : ceil_ratio_f32 10 tenth = 1%N /\ ceil_ratio_f32 3 half = 2%N.
Proof. split; vm_compute; reflexivity. Qed.
Example ex_split_hyp : (ceil_ratio_f32 (N.of_nat (nsamples ex_d)) half <= N.of_nat (nsamples ex_d))%N.
Proof. vm_compute. discriminate. Qed.
Example ex_split_panics : (N.of_nat (nsamples ex_d) < ceil_ratio_f32 (N.of_nat (nsamples ex_d)) (b32_of_bits 1069547520%Z))%N.
Proof. vm_compute. reflexivity. Qed.                                (* ratio 1.5 *)

Example ex_perm : Permutation [2; 0; 1] (seq 0 (nsamples ex_d)).
Proof. simpl. apply (Permutation_cons_app [0; 1] [] 2). simpl. apply Permutation_refl. Qed.

Example ex_spec_defined :
  spec_outs N N N N N.eqb ofbN (OpWithLabels [1%N]) ex_d <> None /\
  spec_outs N N N N N.eqb ofbN OpOneVsAll ex_d <> None /\
  spec_outs N N N N N.eqb ofbN (OpBootstrap [([2; 2; 0], [1; 1])]) ex_d <> None /\
  spec_outs N N N N N.eqb ofbN OpTargetIter ex_d2 <> None /\
  spec_outs N N N N N.eqb ofbN (OpChunks 2) ex_d <> None.
Proof. repeat split; vm_compute; discriminate. Qed.

(* histories inside the documented domain: label filter (multi-target, "any"), second part of a
   ratio split, one target column - the surviving sample keeps its record 192, weight 7/2 and
   the name of target column 1; shuffle then bootstrap - weights and names are gone, rows stay paired *)
Example ex_history :
  run_spec N N N N N.eqb ofbN
    [(OpWithLabels [2%N; 1%N], 0); (OpSplitView half, 1); (OpTargetIter, 1)] ex_d2
  = Some (mkD 1 1 false ([[192]])%N ([[2]])%N ([7])%N ([0])%N ([1])%N).
Proof. vm_compute. reflexivity. Qed.
Example ex_history2 :
  run_spec N N N N N.eqb ofbN [(OpShuffle [2; 0; 1], 0); (OpBootSamples [[1; 1]], 0)] ex_d
  = Some (mkD 2 1 true ([[0; 1]; [0; 1]])%N ([[1]; [1]])%N [] [] []).
Proof. vm_compute. reflexivity. Qed.
