(** C02 - correspondence (model vs implementation, container by container) and the property oracle
    (documented selection + identity tags) evaluated on the implementation's outputs.
    Everything is instantiated at N: record cells are identity tags  r*64 + c  of the ORIGINAL
    dataset, weights are written as 2*w = 2r+1, feature/target names "f<c>"/"t<c>" as c.
    RNG-driven calls carry the words the generator returned; the model's indices are replayed from
    them (C02/Rng.v), the oracle judges the output with the indices read back from the tags.
    [CLay] cases carry the source as raw vectors + offsets + strides (C02/Layout.v). *)
From Coq Require Import List NArith ZArith Bool Arith SpecFloat.
From LinfaVerif Require Export Common.Num Common.B32 Common.Run C02.Model C02.Rng C02.Layout gen.C02_switch.
Import ListNotations.

Definition dsN := dset N N N N.
Definition outN := out N N N N.
Definition opN := op N.
Definition ofb (b : bool) : N := if b then 1%N else 0%N.

(* the target maps used by the generator: x |-> (a*x + b) mod m *)
Definition affine (a b m : N) (x : N) : N := ((a * x + b) mod m)%N.

Definition applyN : opN -> dsN -> option (list outN) := apply N N N N N.eqb ofb.
Definition specN : opN -> dsN -> option (list (option N * dsN)) := spec_outs N N N N N.eqb ofb.

Definition ldsetN := ldset N N N N.
(* owned_split_raw_weights: read from the checked sources by tools/c02_layout_switch.py *)
Definition apply_lN : opN -> ldsetN -> option (list outN) := apply_l N N N N N.eqb ofb owned_split_raw_weights.
Definition logicalN : ldsetN -> option dsN := logical N N N N.

Record step := mkStep {
  st_op : opN;                 (* the call; for RNG-driven calls with the indices READ BACK from the result's identity tags *)
  st_keep : N;                 (* which result the history continues with *)
  st_panic : bool;             (* the call panicked *)
  st_same : bool;              (* the source dataset read back after the call is unchanged *)
  st_req : option rreq;        (* RNG-driven calls: what was asked for ... *)
  st_rng : list rword;         (* ... and every word the generator returned during the call *)
  st_outs : list outN }.

Inductive case :=
| CSeq (id : N) (wfsrc : bool) (src : dsN) (steps : list step)   (* wfsrc: the source is meant to be well-formed *)
| CRatio (id : N) (n : N) (ratio_bits : Z) (panicked : bool) (n1 n2 : N)
| CLay (id : N) (src : ldsetN) (steps : list step).               (* every step is a call on [src] as it lies in memory *)

(** * comparisons *)
Definition nat_eqb := Nat.eqb.
Definition rows_eqb (a b : list (list N)) : bool := list_eqb (list_eqb N.eqb) a b.
Definition optN_eqb (a b : option N) : bool :=
  match a, b with Some x, Some y => N.eqb x y | None, None => true | _, _ => false end.

Fixpoint insert_by {X} (key : X -> N) (x : X) (l : list X) : list X :=
  match l with
  | [] => [x]
  | y :: r => if N.leb (key x) (key y) then x :: l else y :: insert_by key x r
  end.
Definition sort_by {X} (key : X -> N) (l : list X) : list X := fold_right (insert_by key) [] l.

Definition label_key (o : outN) : N := match o_label o with Some l => l | None => 0%N end.
Definition counts_eqb (a b : list (list (N * nat))) : bool :=
  list_eqb (list_eqb (fun x y => N.eqb (fst x) (fst y) && Nat.eqb (snd x) (snd y)))
           (map (sort_by fst) a) (map (sort_by fst) b).

(* bit mask of the containers in which two results differ *)
Definition diff_ds (m i : dsN) : N :=
  (flag (rows_eqb (d_recs m) (d_recs i)) 8
   + flag (rows_eqb (d_tgts m) (d_tgts i)) 16
   + flag (list_eqb N.eqb (d_ws m) (d_ws i)) 32
   + flag (list_eqb N.eqb (d_fn m) (d_fn i) && list_eqb N.eqb (d_tn m) (d_tn i)) 64
   + flag (Nat.eqb (d_nf m) (d_nf i) && Nat.eqb (d_nt m) (d_nt i) && Bool.eqb (d_t1 m) (d_t1 i)) 128)%N.

Definition lor_list (l : list N) : N := fold_left N.lor l 0%N.

Fixpoint zipw {X Y V} (f : X -> Y -> V) (a : list X) (b : list Y) : list V :=
  match a, b with x :: a', y :: b' => f x y :: zipw f a' b' | _, _ => [] end.

(** * correspondence of one step: the transliterated model against the implementation *)
(* the call the model makes: for RNG-driven calls the drawn indices are REPLAYED from the recorded
   words (C02/Rng.v), they are not taken from the implementation's output *)
Definition model_op (cur : dsN) (s : step) : option opN :=
  match st_req s with
  | None => Some (st_op s)
  | Some q => match replay N N N N q cur (st_rng s) with
              | Some (o, []) => Some o
              | _ => None       (* no run of rand's algorithms consumes exactly these words *)
              end
  end.
(* 2048: words were recorded but the modelled algorithm does not consume exactly them *)
Definition replay_code (cur : dsN) (s : step) : N :=
  match st_req s, model_op cur s with
  | Some _, None => if st_panic s then 0%N else flag (match st_rng s with [] => true | _ => false end) 2048
  | _, _ => 0%N
  end.

Definition corr_cmp (mo : option (list outN)) (s : step) : N :=
  match mo, st_panic s with
  | None, true => 0%N
  | None, false => 1%N                       (* the model panics, the implementation returned *)
  | Some _, true => 2%N                      (* the implementation panicked, the model returns *)
  | Some mo, false =>
    let mo := sort_by label_key mo in
    let io := sort_by label_key (st_outs s) in
    if negb (Nat.eqb (length mo) (length io)) then 4%N
    else lor_list (zipw (fun m i =>
                           N.lor (diff_ds (o_ds m) (o_ds i))
                                 (flag (optN_eqb (o_label m) (o_label i)) 256
                                  + flag (counts_eqb (o_counts m) (o_counts i)) 512)%N) mo io)
  end.

Definition corr_step (cur : dsN) (s : step) : N :=
  N.lor (corr_cmp (match model_op cur s with Some o => applyN o cur | None => None end) s)
        (replay_code cur s).

(** * the property oracle *)
Definition wfN : dsN -> bool := wf N N N N.

(* identity tags: cell = 64 * sample + column *)
Definition rid (cell : N) : N := (cell / 64)%N.
Definition cid (cell : N) : N := (cell mod 64)%N.
Definition all_same (l : list N) : bool := match l with [] => true | x :: r => forallb (N.eqb x) r end.

Definition row_tag_ok (r : list N) : bool := all_same (map rid r).
Fixpoint cols_ok (rows : list (list N)) (ids : list N) : bool :=        (* every row carries the same column ids *)
  match rows with [] => true | r :: rest => list_eqb N.eqb (map cid r) ids && cols_ok rest ids end.

Definition tags_ok (d : dsN) : bool :=
  forallb row_tag_ok (d_recs d)
  && match d_recs d with
     | [] => true
     | r0 :: _ => let ids := map cid r0 in
                  cols_ok (d_recs d) ids
                  && match d_fn d with [] => true | fnm => list_eqb N.eqb fnm ids end
     end
  && match d_ws d with
     | [] => true
     | ws => Nat.eqb (length ws) (length (d_recs d))
             && forallb (fun rw => match fst rw with
                                   | [] => true
                                   | c :: _ => N.eqb (snd rw) (2 * rid c + 1)
                                   end) (combine (d_recs d) ws)
     end.

(* documented content that is not already in the selection itself *)
Definition is_perm_of_range (n : nat) (idx : list nat) : bool :=
  Nat.eqb (length idx) n && forallb (fun i => existsb (Nat.eqb i) idx) (seq 0 n).

Definition doc_ok (o : opN) (cur : dsN) : bool :=
  match o with
  | OpShuffle idx => is_perm_of_range (nsamples cur) idx
  | _ => true
  end.

(* does this result type store label counts? then they must be there *)
Definition counts_present (o : opN) (r : outN) : bool :=
  match o with
  | OpWithLabels _ | OpOneVsAll => Nat.eqb (length (o_counts r)) (ntargets (o_ds r))
  | _ => Nat.eqb (length (o_counts r)) 0
  end.

Definition oracle_step (cur : dsN) (s : step) : N :=
  (flag (st_same s) 1024
   + (if wfN cur then
        match specN (st_op s) cur with
        | None => 0                                   (* outside the documented domain: nothing is promised *)
        | Some sp =>
          if st_panic s then 1
          else
            let sp := sort_by (fun p => match fst p with Some l => l | None => 0 end) sp in
            let io := sort_by label_key (st_outs s) in
            if negb (Nat.eqb (length sp) (length io)) then 2
            else
              lor_list (zipw (fun p i =>
                 let e := snd p in let d := o_ds i in
                 (flag (rows_eqb (d_recs e) (d_recs d) && Nat.eqb (d_nf e) (d_nf d)) 4
                  + flag (rows_eqb (d_tgts e) (d_tgts d) && Nat.eqb (d_nt e) (d_nt d) && Bool.eqb (d_t1 e) (d_t1 d)) 8
                  + flag (list_eqb N.eqb (d_ws e) (d_ws d)) 16
                  + flag (list_eqb N.eqb (d_fn e) (d_fn d) && list_eqb N.eqb (d_tn e) (d_tn d)) 32
                  + flag (optN_eqb (fst p) (o_label i)) 64
                  + flag (counts_ok N N N N N.eqb i && counts_present (st_op s) i) 128
                  + flag (wfN d) 2048)%N) sp io)
              + flag (doc_ok (st_op s) cur) 256
        end
      else 0)
   + (if st_panic s || negb (wfN cur) then 0 else flag (forallb (fun r => tags_ok (o_ds r)) (st_outs s)) 512))%N.

Fixpoint walk (cur : dsN) (steps : list step) : N * N :=
  match steps with
  | [] => (0%N, 0%N)
  | s :: rest =>
    let c := corr_step cur s in
    let o := oracle_step cur s in
    let next := if st_panic s || N.eqb (st_keep s) 255 then Some cur      (* 255: the history stays on the same dataset *)
                else match nth_error (sort_by label_key (st_outs s)) (N.to_nat (st_keep s)) with
                     | Some r => Some (o_ds r) | None => None end in
    match next with
    | Some d => let '(c', o') := walk d rest in (N.lor c c', N.lor o o')
    | None => (N.lor c 1024, o)              (* malformed case: the kept result does not exist *)
    end
  end.

Definition ratio_check (n : N) (bits : Z) (panicked : bool) (n1 n2 : N) : bool :=
  let m := ceil_ratio_f32 n (b32_of_bits bits) in
  if N.ltb n m then panicked
  else negb panicked && N.eqb m n1 && N.eqb (n - m) n2.

(** * calls on a dataset as it lies in memory (C02/Layout.v) *)
Definition corr_lay (l : ldsetN) (s : step) : N :=
  match logicalN l with
  | None => 1024%N
  | Some cur =>
      N.lor (corr_cmp (match model_op cur s with Some o => apply_lN o l | None => None end) s)
            (replay_code cur s)
  end.

(* a panic is excused where the layout alone forbids the call ([layout_rejects]: the documented
   row-major requirement of the owned split, non-contiguous weights in with_labels, non-contiguous
   targets in into_single_target); whatever is RETURNED must be the documented selection of the
   logical contents *)
Definition oracle_lay (l : ldsetN) (s : step) : N :=
  match logicalN l with
  | None => 8192%N
  | Some cur =>
      if negb (ok_l N N N N l && wfN cur && tags_ok cur) then 8192%N
      else if st_panic s && layout_rejects N N N N (st_op s) l then flag (st_same s) 1024
      else oracle_step cur s
  end.

Definition run_case (c : case) : verdict :=
  match c with
  | CSeq id wfsrc src steps =>
      let '(co, orc) := walk src steps in
      (id, (co, (orc + flag (negb wfsrc || (wfN src && tags_ok src)) 8192)%N))     (* 8192: the generator itself is wrong *)
  | CRatio id n bits p n1 n2 =>
      let ok := ratio_check n bits p n1 n2 in (id, (flag ok 1, flag ok 4096))
  | CLay id l steps =>
      (id, (lor_list (map (corr_lay l) steps), lor_list (map (oracle_lay l) steps)))
  end.

Definition run_cases (cs : list case) : list N := report (map run_case cs).
