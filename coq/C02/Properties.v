(** C02 - property theorems (statements only; proofs are in C02/Proofs.v).

    Vocabulary (C02/Model.v, C02/Proofs.v):
    - [dset]: the five parallel containers of a DatasetBase (records, target rows, weights, feature
      names, target names) plus the array widths; [WF d]: rows have the declared widths, one target
      row per record, weights absent or one per sample, names absent or one per column.
    - [apply o d]: the transliterated operation ([None] = the call panics); [spec_outs o d]: the
      documented results, each written as ONE selection [apply_sel s d] of the source - the same
      row-index list for records, targets and weights, the same column list for records and feature
      names, one target-column list for targets and target names ([None] = outside the documented
      domain: split point beyond the data, index out of range, chunk size 0, ...).
    - [Aligned src res]: [res = apply_sel s src] for some selection [s] with all indices in range.
    - [pairs outs]: the (one-vs-all label, dataset) part of a result list. *)
From Coq Require Import List NArith ZArith Bool Arith Permutation SpecFloat.
From LinfaVerif Require Import Common.Num Common.B32 C02.Model C02.Proofs.
Import ListNotations.

Section C02.
Variables A B W Nm : Type.           (* record cells, labels, weights, names *)
Variable beq : B -> B -> bool.       (* label equality of the implementation *)
Variable of_bool : bool -> B.        (* how one_vs_all's boolean targets are written *)
Hypothesis beq_spec : forall x y, beq x y = true <-> x = y.

Notation dset := (dset A B W Nm).
Notation WF := (WF A B W Nm).
Notation Aligned := (Aligned A B W Nm).
Notation pairs := (pairs A B W Nm).
Notation counts_ok := (counts_ok A B W Nm beq).

(* each theorem below is closed by the lemma of C02/Proofs.v named in its proof (the lemmas take
   exactly those section variables they use) *)
Local Ltac by_lemma L :=
  first [ exact (L A B W Nm beq of_bool beq_spec) | exact (L A B W Nm beq of_bool)
        | exact (L A B W Nm beq beq_spec) | exact (L A B W Nm beq) | exact (L A B W Nm) ].

(** T1 (selection lemma, all sixteen operations): inside its documented domain every operation
    returns exactly its documented selections, and every stored label count is the recount of the
    result's own targets. *)
Theorem operation_is_selection : forall (o : op B) (d : dset) l,
  WF d -> spec_outs A B W Nm beq of_bool o d = Some l ->
  exists outs, apply A B W Nm beq of_bool o d = Some outs /\ pairs outs = l /\ forallb counts_ok outs = true.
Proof. by_lemma Proofs.apply_spec. Qed.

(** every result of every operation is aligned with its source and is again well-formed *)
Theorem operation_results_aligned : forall (o : op B) (d : dset) l,
  WF d -> spec_outs A B W Nm beq of_bool o d = Some l ->
  exists outs, apply A B W Nm beq of_bool o d = Some outs /\ pairs outs = l /\
    Forall (fun r => Aligned d (o_ds r) /\ WF (o_ds r)) outs /\ forallb counts_ok outs = true.
Proof. by_lemma Proofs.operation_aligned. Qed.

(** what alignment means in the words of the property: row i of the result is record, target(s) and
    - when carried - weight of ONE source sample rows[i]; names are those of the selected columns *)
Theorem aligned_means_same_sample : forall (src res : dset), WF src -> Aligned src res ->
  exists rows cols tcols g,
    Forall (fun r => r < nsamples src) rows /\ Forall (fun c => c < d_nf src) cols /\
    Forall (fun c => c < ntargets src) tcols /\ length rows = nsamples res /\
    (forall i r, nth_error rows i = Some r ->
       exists row t, nth_error (d_recs src) r = Some row /\ nth_error (d_tgts src) r = Some t /\
         nth_error (d_recs res) i = Some (sel row cols) /\
         nth_error (d_tgts res) i = Some (map g (sel t tcols)) /\
         (d_ws res = [] \/ (nth_error (d_ws res) i = nth_error (d_ws src) r /\ length (d_ws res) = nsamples res))) /\
    (d_fn res = [] \/ d_fn res = sel (d_fn src) cols) /\
    (d_tn res = [] \/ d_tn res = sel (d_tn src) tcols).
Proof. by_lemma Proofs.aligned_rows. Qed.

(** selections compose *)
Theorem aligned_transitive : forall a b c : dset, WF a -> Aligned a b -> Aligned b c -> Aligned a c.
Proof. by_lemma Proofs.Aligned_trans. Qed.

(** T1 (histories): for EVERY finite sequence of operations (each step names the operation and
    which of its results is carried on) that stays inside the documented domains, the implementation
    model returns exactly the specified dataset, which is aligned with the original one. *)
Theorem run_aligned : forall (ops : list (op B * nat)) (d d' : dset),
  WF d -> run_spec A B W Nm beq of_bool ops d = Some d' ->
  run A B W Nm beq of_bool ops d = Some d' /\ Aligned d d' /\ WF d'.
Proof. by_lemma Proofs.run_aligned. Qed.

(** ratio split, owned (raw vectors) and view alike: the first ceil_f32(n * ratio) samples and the
    rest, in order, weights split with them, names kept; a split point beyond the data panics *)
Theorem split_prefix : forall (d : dset) (ratio : spec_float), WF d ->
  let n := nsamples d in
  let n1N := ceil_ratio_f32 (N.of_nat n) ratio in
  let n1 := N.to_nat n1N in
  let d1 := mkD (d_nf d) (d_nt d) (d_t1 d) (firstn n1 (d_recs d)) (firstn n1 (d_tgts d)) (firstn n1 (d_ws d)) (d_fn d) (d_tn d) in
  let d2 := mkD (d_nf d) (d_nt d) (d_t1 d) (skipn n1 (d_recs d)) (skipn n1 (d_tgts d)) (skipn n1 (d_ws d)) (d_fn d) (d_tn d) in
  ((n1N <= N.of_nat n)%N ->
     (exists outs, split_owned A B W Nm ratio d = Some outs /\ pairs outs = [(None, d1); (None, d2)]) /\
     (exists outs, split_view A B W Nm ratio d = Some outs /\ pairs outs = [(None, d1); (None, d2)])) /\
  ((N.of_nat n < n1N)%N -> split_owned A B W Nm ratio d = None /\ split_view A B W Nm ratio d = None).
Proof. by_lemma Proofs.split_content. Qed.

(** shuffle: when the drawn index list is a permutation of all samples, the (record, target) pairs of
    the result are a permutation of the source's; weights are dropped, names kept *)
Theorem shuffle_perm : forall (d : dset) (idx : list nat), WF d -> Permutation idx (seq 0 (nsamples d)) ->
  exists outs d', shuffle A B W Nm idx d = Some outs /\ pairs outs = [(None, d')] /\
    d_recs d' = sel (d_recs d) idx /\ d_tgts d' = sel (d_tgts d) idx /\
    Permutation (combine (d_recs d') (d_tgts d')) (combine (d_recs d) (d_tgts d)) /\
    d_ws d' = [] /\ d_fn d' = d_fn d /\ d_tn d' = d_tn d.
Proof. by_lemma Proofs.shuffle_perm. Qed.

(** bootstrap: draws inside the ranges give only existing samples and features, record and target
    of a result row come from the same drawn sample *)
Theorem bootstrap_in_range : forall (d : dset) (idx cidx : list nat), WF d ->
  Forall (fun i => i < nsamples d) idx -> Forall (fun j => j < d_nf d) cidx ->
  exists outs d', bootstrap A B W Nm [(idx, cidx)] d = Some outs /\ pairs outs = [(None, d')] /\
    length (d_recs d') = length idx /\ length (d_tgts d') = length idx /\ d_nf d' = length cidx /\
    d_ws d' = [] /\
    forall i r, nth_error idx i = Some r ->
      exists row t, nth_error (d_recs d) r = Some row /\ nth_error (d_tgts d) r = Some t /\
                    nth_error (d_recs d') i = Some (sel row cidx) /\ nth_error (d_tgts d') i = Some t.
Proof. by_lemma Proofs.bootstrap_content. Qed.

(** label filter: exactly the samples carrying one of the listed labels in some target column, in
    their order, with their weights; names kept; the reported counts are the recount of the kept targets *)
Theorem with_labels_exact : forall (d : dset) (labels : list B), WF d ->
  exists outs d', with_labels A B W Nm beq labels d = Some outs /\ pairs outs = [(None, d')] /\
    forallb counts_ok outs = true /\
    let K := kept_rows A B W Nm beq labels d in
    d_recs d' = sel (d_recs d) K /\ d_tgts d' = sel (d_tgts d) K /\ d_ws d' = sel (d_ws d) K /\
    d_fn d' = d_fn d /\ d_tn d' = d_tn d /\
    combine (d_recs d') (d_tgts d') = filter (fun p => any_in B beq labels (snd p)) (combine (d_recs d) (d_tgts d)) /\
    (forall i, In i K <-> exists t x, nth_error (d_tgts d) i = Some t /\ In x t /\ In x labels).
Proof. by_lemma Proofs.with_labels_content. Qed.

(** one-vs-all: one result per distinct label (no label twice, none missing), each with the
    indicator targets of that label over the unchanged records, weights and names, and right counts *)
Theorem one_vs_all_complete : forall (d : dset), WF d -> d_t1 d = true ->
  let labs := distinct B beq (first_column A B W Nm d) in
  exists outs, one_vs_all A B W Nm beq of_bool d = Some outs /\
    forallb counts_ok outs = true /\
    NoDup labs /\ (forall v, In v labs <-> In v (first_column A B W Nm d)) /\
    pairs outs = map (fun l => (Some l, mkD (d_nf d) 1 true (d_recs d)
                                            (map (map (fun x => of_bool (beq x l))) (d_tgts d))
                                            (d_ws d) (d_fn d) (d_tn d))) labs.
Proof. by_lemma Proofs.one_vs_all_content. Qed.

(** chunking: floor(n / size) consecutive blocks of records and targets, cut at the same bounds *)
Theorem chunks_are_blocks : forall (d : dset) (size : nat), WF d -> size <> 0 ->
  exists outs, sample_chunks A B W Nm size d = Some outs /\
    pairs outs = map (fun i => (None, mkD (d_nf d) (d_nt d) (d_t1 d)
                                          (firstn size (skipn (i * size) (d_recs d)))
                                          (firstn size (skipn (i * size) (d_tgts d))) [] [] []))
                     (seq 0 (nsamples d / size)).
Proof. by_lemma Proofs.chunks_content. Qed.

(** per-sample iteration yields every (record, target) pair once, in order *)
Theorem sample_iter_in_order : forall (d : dset), WF d ->
  exists outs, sample_iter A B W Nm d = Some outs /\
    pairs outs = [(None, mkD (d_nf d) (d_nt d) (d_t1 d) (d_recs d) (d_tgts d) [] [] [])].
Proof. by_lemma Proofs.sample_iter_content. Qed.

(** per-feature iteration: view j holds column j of every record with all targets and weights; the
    feature name is carried only when there is exactly one feature (as the code does) *)
Theorem feature_iter_columns : forall (d : dset), WF d ->
  exists outs, feature_iter A B W Nm d = Some outs /\
    pairs outs = map (fun j => (None, mkD 1 (d_nt d) (d_t1 d) (map (fun r => sel r [j]) (d_recs d)) (d_tgts d) (d_ws d)
                                          (if Nat.eqb (d_nf d) 1 then sel (d_fn d) [j] else []) (d_tn d)))
                     (seq 0 (d_nf d)).
Proof. by_lemma Proofs.feature_iter_content. Qed.

(** per-target iteration (two-dimensional targets): view j holds target column j and ITS name;
    on one-dimensional targets the first step panics *)
Theorem target_iter_columns : forall (d : dset), WF d -> d_t1 d = false ->
  exists outs, target_iter A B W Nm d = Some outs /\
    pairs outs = map (fun j => (None, mkD (d_nf d) 1 false (d_recs d) (map (fun t => sel t [j]) (d_tgts d)) (d_ws d)
                                          (d_fn d) (sel (d_tn d) [j])))
                     (seq 0 (d_nt d)).
Proof. by_lemma Proofs.target_iter_content. Qed.

Theorem target_iter_single_target_panics : forall (d : dset), d_t1 d = true -> target_iter A B W Nm d = None.
Proof. by_lemma Proofs.target_iter_single_panics. Qed.

(** T2: for the operations without drawn indices the documented domain is exactly where the code
    returns - outside it the call panics, inside it (theorems above) it returns the selection *)
Theorem domain_is_exact : forall (o : op B) (d : dset), WF d -> rng_free B o = true ->
  (spec A B W Nm beq of_bool o d = None <-> apply A B W Nm beq of_bool o d = None).
Proof. by_lemma Proofs.domain_exact. Qed.

End C02.
