(** C02 - property theorems (statements only; proofs are in C02/Proofs.v).

    Vocabulary (C02/Model.v, C02/Proofs.v):
    - [dset]: the five parallel containers of a DatasetBase (records, target rows, weights, feature
      names, target names) plus the array widths; [WF d]: rows have the declared widths, one target
      row per record, weights absent or one per sample, names absent or one per column.
    - [apply o d]: the transliterated operation ([None] = the call panics); [spec_outs o d]: the
      documented results, each written as ONE selection [apply_sel s d] of the source - the same
      row-index list for records, targets and weights, the same column list for records and feature
      names, one target-column list for targets and target names ([None] = outside the documented
      domain: split point beyond the data, index out of range, chunk size 0, ...).
    - [Aligned src res]: [res = apply_sel s src] for some selection [s] with all indices in range.
    - [pairs outs]: the (one-vs-all label, dataset) part of a result list.

    Extension (C02/Rng.v, C02/Layout.v, C02/ProofsExt.v):
    - [rword]: one recorded call of the random generator ([next_u32] / [next_u64]) with the value it
      returned; [sample_below], [gen_index], [fisher_yates], [draw_many]: rand 0.8's uniform integer
      sampling (widening multiply + rejection zone), [SliceRandom::shuffle] and the bootstrap index loops
      as functions of the recorded words; [replay q d words]: the call (with its drawn indices) a request
      [q] amounts to; [apply_rng q words d]: that call applied.
    - [ldset]: a dataset as it lies in memory - raw vector, offset and strides of records, targets and
      weights; [logical l]: what the accessors show; [ok_l l]: every logical element lies inside its raw
      vector; [apply_l raw_w o l]: the operation on the representation ([raw_w]: the owned split cuts the
      weights in their raw vector, as the code does / in logical order, as the proposed repair does);
      [layout_rejects o l]: the layouts on which the call panics although the logical call would return.
    - [carries_weights o]: the eight operations whose results have weights. *)
From Coq Require Import List NArith ZArith Bool Arith Permutation SpecFloat.
From LinfaVerif Require Import Common.Num Common.B32 C02.Model C02.Rng C02.Layout C02.Proofs C02.ProofsExt.
Import ListNotations.

Section C02.
Variables A B W Nm : Type.           (* record cells, labels, weights, names *)
Variable beq : B -> B -> bool.       (* label equality of the implementation *)
Variable of_bool : bool -> B.        (* how one_vs_all's boolean targets are written *)
Hypothesis beq_spec : forall x y, beq x y = true <-> x = y.

Notation dset := (dset A B W Nm).
Notation WF := (WF A B W Nm).
Notation Aligned := (Aligned A B W Nm).
Notation pairs := (pairs A B W Nm).
Notation counts_ok := (counts_ok A B W Nm beq).

(* each theorem below is closed by the lemma of C02/Proofs.v named in its proof (the lemmas take
   exactly those section variables they use) *)
Local Ltac by_lemma L :=
  first [ exact (L A B W Nm beq of_bool beq_spec) | exact (L A B W Nm beq of_bool)
        | exact (L A B W Nm beq beq_spec) | exact (L A B W Nm beq) | exact (L A B W Nm) ].

(** T1 (selection lemma, all sixteen operations): inside its documented domain every operation
    returns exactly its documented selections, and every stored label count is the recount of the
    result's own targets. *)
Theorem operation_is_selection : forall (o : op B) (d : dset) l,
  WF d -> spec_outs A B W Nm beq of_bool o d = Some l ->
  exists outs, apply A B W Nm beq of_bool o d = Some outs /\ pairs outs = l /\ forallb counts_ok outs = true.
Proof. by_lemma Proofs.apply_spec. Qed.

(** every result of every operation is aligned with its source and is again well-formed *)
Theorem operation_results_aligned : forall (o : op B) (d : dset) l,
  WF d -> spec_outs A B W Nm beq of_bool o d = Some l ->
  exists outs, apply A B W Nm beq of_bool o d = Some outs /\ pairs outs = l /\
    Forall (fun r => Aligned d (o_ds r) /\ WF (o_ds r)) outs /\ forallb counts_ok outs = true.
Proof. by_lemma Proofs.operation_aligned. Qed.

(** what alignment means in the words of the property: row i of the result is record, target(s) and
    - when carried - weight of ONE source sample rows[i]; names are those of the selected columns *)
Theorem aligned_means_same_sample : forall (src res : dset), WF src -> Aligned src res ->
  exists rows cols tcols g,
    Forall (fun r => r < nsamples src) rows /\ Forall (fun c => c < d_nf src) cols /\
    Forall (fun c => c < ntargets src) tcols /\ length rows = nsamples res /\
    (forall i r, nth_error rows i = Some r ->
       exists row t, nth_error (d_recs src) r = Some row /\ nth_error (d_tgts src) r = Some t /\
         nth_error (d_recs res) i = Some (sel row cols) /\
         nth_error (d_tgts res) i = Some (map g (sel t tcols)) /\
         (d_ws res = [] \/ (nth_error (d_ws res) i = nth_error (d_ws src) r /\ length (d_ws res) = nsamples res))) /\
    (d_fn res = [] \/ d_fn res = sel (d_fn src) cols) /\
    (d_tn res = [] \/ d_tn res = sel (d_tn src) tcols).
Proof. by_lemma Proofs.aligned_rows. Qed.

(** selections compose *)
Theorem aligned_transitive : forall a b c : dset, WF a -> Aligned a b -> Aligned b c -> Aligned a c.
Proof. by_lemma Proofs.Aligned_trans. Qed.

(** T1 (histories): for EVERY finite sequence of operations (each step names the operation and
    which of its results is carried on) that stays inside the documented domains, the implementation
    model returns exactly the specified dataset, which is aligned with the original one. *)
Theorem run_aligned : forall (ops : list (op B * nat)) (d d' : dset),
  WF d -> run_spec A B W Nm beq of_bool ops d = Some d' ->
  run A B W Nm beq of_bool ops d = Some d' /\ Aligned d d' /\ WF d'.
Proof. by_lemma Proofs.run_aligned. Qed.

(** ratio split, owned (raw vectors) and view alike: the first ceil_f32(n * ratio) samples and the
    rest, in order, weights split with them, names kept; a split point beyond the data panics *)
Theorem split_prefix : forall (d : dset) (ratio : spec_float), WF d ->
  let n := nsamples d in
  let n1N := ceil_ratio_f32 (N.of_nat n) ratio in
  let n1 := N.to_nat n1N in
  let d1 := mkD (d_nf d) (d_nt d) (d_t1 d) (firstn n1 (d_recs d)) (firstn n1 (d_tgts d)) (firstn n1 (d_ws d)) (d_fn d) (d_tn d) in
  let d2 := mkD (d_nf d) (d_nt d) (d_t1 d) (skipn n1 (d_recs d)) (skipn n1 (d_tgts d)) (skipn n1 (d_ws d)) (d_fn d) (d_tn d) in
  ((n1N <= N.of_nat n)%N ->
     (exists outs, split_owned A B W Nm ratio d = Some outs /\ pairs outs = [(None, d1); (None, d2)]) /\
     (exists outs, split_view A B W Nm ratio d = Some outs /\ pairs outs = [(None, d1); (None, d2)])) /\
  ((N.of_nat n < n1N)%N -> split_owned A B W Nm ratio d = None /\ split_view A B W Nm ratio d = None).
Proof. by_lemma Proofs.split_content. Qed.

(** shuffle: when the drawn index list is a permutation of all samples, the (record, target) pairs of
    the result are a permutation of the source's; weights are dropped, names kept *)
Theorem shuffle_perm : forall (d : dset) (idx : list nat), WF d -> Permutation idx (seq 0 (nsamples d)) ->
  exists outs d', shuffle A B W Nm idx d = Some outs /\ pairs outs = [(None, d')] /\
    d_recs d' = sel (d_recs d) idx /\ d_tgts d' = sel (d_tgts d) idx /\
    Permutation (combine (d_recs d') (d_tgts d')) (combine (d_recs d) (d_tgts d)) /\
    d_ws d' = [] /\ d_fn d' = d_fn d /\ d_tn d' = d_tn d.
Proof. by_lemma Proofs.shuffle_perm. Qed.

(** bootstrap: draws inside the ranges give only existing samples and features, record and target
    of a result row come from the same drawn sample *)
Theorem bootstrap_in_range : forall (d : dset) (idx cidx : list nat), WF d ->
  Forall (fun i => i < nsamples d) idx -> Forall (fun j => j < d_nf d) cidx ->
  exists outs d', bootstrap A B W Nm [(idx, cidx)] d = Some outs /\ pairs outs = [(None, d')] /\
    length (d_recs d') = length idx /\ length (d_tgts d') = length idx /\ d_nf d' = length cidx /\
    d_ws d' = [] /\
    forall i r, nth_error idx i = Some r ->
      exists row t, nth_error (d_recs d) r = Some row /\ nth_error (d_tgts d) r = Some t /\
                    nth_error (d_recs d') i = Some (sel row cidx) /\ nth_error (d_tgts d') i = Some t.
Proof. by_lemma Proofs.bootstrap_content. Qed.

(** label filter: exactly the samples carrying one of the listed labels in some target column, in
    their order, with their weights; names kept; the reported counts are the recount of the kept targets *)
Theorem with_labels_exact : forall (d : dset) (labels : list B), WF d ->
  exists outs d', with_labels A B W Nm beq labels d = Some outs /\ pairs outs = [(None, d')] /\
    forallb counts_ok outs = true /\
    let K := kept_rows A B W Nm beq labels d in
    d_recs d' = sel (d_recs d) K /\ d_tgts d' = sel (d_tgts d) K /\ d_ws d' = sel (d_ws d) K /\
    d_fn d' = d_fn d /\ d_tn d' = d_tn d /\
    combine (d_recs d') (d_tgts d') = filter (fun p => any_in B beq labels (snd p)) (combine (d_recs d) (d_tgts d)) /\
    (forall i, In i K <-> exists t x, nth_error (d_tgts d) i = Some t /\ In x t /\ In x labels).
Proof. by_lemma Proofs.with_labels_content. Qed.

(** one-vs-all: one result per distinct label (no label twice, none missing), each with the
    indicator targets of that label over the unchanged records, weights and names, and right counts *)
Theorem one_vs_all_complete : forall (d : dset), WF d -> d_t1 d = true ->
  let labs := distinct B beq (first_column A B W Nm d) in
  exists outs, one_vs_all A B W Nm beq of_bool d = Some outs /\
    forallb counts_ok outs = true /\
    NoDup labs /\ (forall v, In v labs <-> In v (first_column A B W Nm d)) /\
    pairs outs = map (fun l => (Some l, mkD (d_nf d) 1 true (d_recs d)
                                            (map (map (fun x => of_bool (beq x l))) (d_tgts d))
                                            (d_ws d) (d_fn d) (d_tn d))) labs.
Proof. by_lemma Proofs.one_vs_all_content. Qed.

(** chunking: floor(n / size) consecutive blocks of records and targets, cut at the same bounds *)
Theorem chunks_are_blocks : forall (d : dset) (size : nat), WF d -> size <> 0 ->
  exists outs, sample_chunks A B W Nm size d = Some outs /\
    pairs outs = map (fun i => (None, mkD (d_nf d) (d_nt d) (d_t1 d)
                                          (firstn size (skipn (i * size) (d_recs d)))
                                          (firstn size (skipn (i * size) (d_tgts d))) [] [] []))
                     (seq 0 (nsamples d / size)).
Proof. by_lemma Proofs.chunks_content. Qed.

(** per-sample iteration yields every (record, target) pair once, in order *)
Theorem sample_iter_in_order : forall (d : dset), WF d ->
  exists outs, sample_iter A B W Nm d = Some outs /\
    pairs outs = [(None, mkD (d_nf d) (d_nt d) (d_t1 d) (d_recs d) (d_tgts d) [] [] [])].
Proof. by_lemma Proofs.sample_iter_content. Qed.

(** per-feature iteration: view j holds column j of every record with all targets and weights; the
    feature name is carried only when there is exactly one feature (as the code does) *)
Theorem feature_iter_columns : forall (d : dset), WF d ->
  exists outs, feature_iter A B W Nm d = Some outs /\
    pairs outs = map (fun j => (None, mkD 1 (d_nt d) (d_t1 d) (map (fun r => sel r [j]) (d_recs d)) (d_tgts d) (d_ws d)
                                          (if Nat.eqb (d_nf d) 1 then sel (d_fn d) [j] else []) (d_tn d)))
                     (seq 0 (d_nf d)).
Proof. by_lemma Proofs.feature_iter_content. Qed.

(** per-target iteration (two-dimensional targets): view j holds target column j and ITS name;
    on one-dimensional targets the first step panics *)
Theorem target_iter_columns : forall (d : dset), WF d -> d_t1 d = false ->
  exists outs, target_iter A B W Nm d = Some outs /\
    pairs outs = map (fun j => (None, mkD (d_nf d) 1 false (d_recs d) (map (fun t => sel t [j]) (d_tgts d)) (d_ws d)
                                          (d_fn d) (sel (d_tn d) [j])))
                     (seq 0 (d_nt d)).
Proof. by_lemma Proofs.target_iter_content. Qed.

Theorem target_iter_single_target_panics : forall (d : dset), d_t1 d = true -> target_iter A B W Nm d = None.
Proof. by_lemma Proofs.target_iter_single_panics. Qed.

(** T2: for the operations without drawn indices the documented domain is exactly where the code
    returns - outside it the call panics, inside it (theorems above) it returns the selection *)
Theorem domain_is_exact : forall (o : op B) (d : dset), WF d -> rng_free B o = true ->
  (spec A B W Nm beq of_bool o d = None <-> apply A B W Nm beq of_bool o d = None).
Proof. by_lemma Proofs.domain_exact. Qed.


(** * Extension 1: rand's index generation from the words the generator returned *)

(** a uniform draw below [range] (any width, any words, any number of rejections) is below [range] *)
Theorem uniform_draw_below_bound : forall (w range : N) (words : list rword) v rest,
  (0 < range)%N -> sample_below w range words = Some (v, rest) -> (v < range)%N.
Proof. exact ProofsExt.sample_below_lt. Qed.

(** the modelled [SliceRandom::shuffle] of (0..n) returns a permutation of 0..n-1 whatever the words are *)
Theorem fisher_yates_is_permutation : forall (n : nat) (words : list rword) idx rest,
  fisher_yates n words = Some (idx, rest) -> Permutation idx (seq 0 n).
Proof. exact ProofsExt.fisher_yates_perm. Qed.

(** the swap never leaves the slice: the loop fails to return only when some draw does (words
    exhausted or of the wrong width) *)
Theorem fisher_yates_fails_only_on_words : forall (n : nat) (words : list rword),
  fisher_yates n words = None -> exists k ws, k <= n - 1 /\ gen_index (N.of_nat (k + 1)) ws = None.
Proof. exact ProofsExt.fisher_yates_None. Qed.

(** every request, whatever the generator returns, amounts to a call inside the documented domain:
    the RNG-driven operations fail to return only on the generator side (empty range, words that do
    not fit), never because a drawn index is rejected by the selection *)
Theorem rng_calls_stay_in_domain : forall (q : rreq) (d : dset) words,
  WF d ->
  (forall o rest, replay A B W Nm q d words = Some (o, rest) -> exists sp, spec A B W Nm beq of_bool o d = Some sp) /\
  (apply_rng A B W Nm beq of_bool q words d = None <-> replay A B W Nm q d words = None).
Proof.
  intros q d words Hw. split.
  - intros o rest H. exact (ProofsExt.replay_in_domain A B W Nm beq of_bool q d words o rest H).
  - exact (ProofsExt.apply_rng_returns A B W Nm beq of_bool beq_spec q d words Hw).
Qed.

(** shuffle with the modelled generator: a permutation of all (record, target) pairs, weights
    dropped, names kept - no hypothesis on the drawn indices any more *)
Theorem shuffle_with_rng_is_permutation : forall (d : dset) words outs, WF d ->
  apply_rng A B W Nm beq of_bool RShuffle words d = Some outs ->
  exists idx d', Permutation idx (seq 0 (nsamples d)) /\ pairs outs = [(None, d')] /\
    d_recs d' = sel (d_recs d) idx /\ d_tgts d' = sel (d_tgts d) idx /\
    Permutation (combine (d_recs d') (d_tgts d')) (combine (d_recs d) (d_tgts d)) /\
    d_ws d' = [] /\ d_fn d' = d_fn d /\ d_tn d' = d_tn d.
Proof. exact (ProofsExt.shuffle_rng_permutes A B W Nm beq of_bool). Qed.

(** bootstrap with the modelled generator: [iters] results, each made of [a] existing samples
    (record and targets of the same drawn sample) restricted to [b] existing features, no weights *)
Theorem bootstrap_with_rng_draws_existing : forall (d : dset) a b iters words outs, WF d ->
  apply_rng A B W Nm beq of_bool (RBootstrap a b iters) words d = Some outs ->
  length outs = iters /\
  Forall (fun r : out A B W Nm => exists idx cidx,
            length idx = a /\ length cidx = b /\
            Forall (fun i => i < nsamples d) idx /\ Forall (fun j => j < d_nf d) cidx /\
            d_recs (o_ds r) = map (fun x => sel x cidx) (sel (d_recs d) idx) /\
            d_tgts (o_ds r) = sel (d_tgts d) idx /\ d_ws (o_ds r) = [] /\ d_nf (o_ds r) = b) outs.
Proof. exact (ProofsExt.bootstrap_rng_existing A B W Nm beq of_bool). Qed.

(** * Extension 2: memory layouts *)

(** the one equation: for a dataset in ANY layout (Fortran order, strided, reversed, offset slices,
    transposed - anything whose elements lie inside the raw vectors) every operation returns exactly
    what it returns on the logical contents, or panics, and [layout_rejects] says exactly when.
    For the owned ratio split this needs the weights to be cut in logical order ([raw_w = false], the
    repair) or the weight array to be its own raw vector ([plain_weights]). *)
Theorem layout_only_panics : forall (raw_w : bool) (o : op B) (l : ldset A B W Nm) (d : dset),
  ok_l A B W Nm l = true -> logical A B W Nm l = Some d -> WF d ->
  (forall r, o = OpSplitOwned r -> raw_w = false \/ plain_weights A B W Nm l = true) ->
  apply_l A B W Nm beq of_bool raw_w o l
  = if layout_rejects A B W Nm o l then None else apply A B W Nm beq of_bool o d.
Proof. exact (ProofsExt.layout_only_panics A B W Nm beq of_bool). Qed.

(** the owned ratio split on the representation (is_standard_layout asserts, into_raw_vec, split_off,
    from_shape_vec): whenever it RETURNS, records and targets were in standard layout with raw vectors
    of exactly n*width cells, and the result is the split of the logical contents - rows are never
    mixed silently; a standard-layout array that owns a longer raw vector panics as well *)
Theorem split_owned_layout_guard : forall (raw_w : bool) ratio (l : ldset A B W Nm) (d : dset) outs,
  ok_l A B W Nm l = true -> logical A B W Nm l = Some d -> WF d ->
  (raw_w = false \/ plain_weights A B W Nm l = true) ->
  split_owned_l A B W Nm raw_w ratio l = Some outs ->
  is_std2 (l_recs l) = true /\ t_std (l_tgts l) = true /\
  length (a_buf (l_recs l)) = a_n (l_recs l) * a_w (l_recs l) /\
  split_owned A B W Nm ratio d = Some outs.
Proof. exact (ProofsExt.split_owned_layout_guard A B W Nm beq of_bool). Qed.

(** * Extension 3: weights *)

(** weights follow the rows, for every operation: inside the documented domain each result is the
    selection [rows] of the source's samples - its records and targets are those of exactly these rows -
    and its weights are the weights of the SAME rows when the operation carries weights
    ([carries_weights]: both ratio splits, the label filter, one-vs-all, map_targets, view, feature and
    target iteration), none otherwise (shuffle, the three bootstraps, to_owned, into_single_target,
    sample iteration, chunks) *)
Theorem weights_follow_rows : forall (o : op B) (d : dset) sp, WF d ->
  spec A B W Nm beq of_bool o d = Some sp ->
  exists outs, apply A B W Nm beq of_bool o d = Some outs /\ length outs = length sp /\
    forall k r, nth_error outs k = Some r ->
      exists rows cols tcols g,
        Forall (fun i => i < nsamples d) rows /\
        d_recs (o_ds r) = map (fun x => sel x cols) (sel (d_recs d) rows) /\
        d_tgts (o_ds r) = map (fun t => map g (sel t tcols)) (sel (d_tgts d) rows) /\
        d_ws (o_ds r) = (if carries_weights B o then sel (d_ws d) rows else []) /\
        (carries_weights B o = true -> d_ws d <> [] -> length (d_ws (o_ds r)) = nsamples (o_ds r)).
Proof. exact (ProofsExt.weights_follow_rows A B W Nm beq of_bool beq_spec). Qed.

(** a weight vector that is neither empty nor one per sample (what `with_weights` accepts without a
    test): the results are those of the same dataset without weights, except that the owned split
    leaves the WHOLE vector on its first part (the view split drops it), the label filter indexes it by
    the original sample number and panics past its end, and the cloning operations copy it unchanged *)
Theorem illformed_weights_behaviour : forall (o : op B) (d : dset),
  d_ws d <> [] -> length (d_ws d) <> nsamples d -> length (d_tgts d) = nsamples d ->
  apply A B W Nm beq of_bool o d
  = match apply A B W Nm beq of_bool o (set_ws A B W Nm d []) with
    | Some outs0 => ill_weights A B W Nm beq o d outs0
    | None => None
    end.
Proof. exact (ProofsExt.illformed_weights A B W Nm beq of_bool). Qed.

End C02.

(** the weights of the owned split are not protected by any layout test (finding F-C02-1): there is a
    well-formed dataset (four samples, weight array reversed in memory) on which the code as it stands
    returns - with consistent sizes - the first two samples with the weights of the last two, while
    the logical split gives them their own; cutting the weights in logical order removes the
    difference.  Outside that class: [split_owned_layout_guard] / [layout_only_panics]. *)
Theorem split_owned_raw_weights_refuted :
  exists (l : ldset N N N N) d ratio outs,
    ok_l N N N N l = true /\ logical N N N N l = Some d /\ Proofs.WF N N N N d /\
    split_owned_l N N N N true ratio l = Some outs /\
    split_owned N N N N ratio d <> Some outs /\
    map (fun r => d_ws (o_ds r)) outs = [[7; 5]; [3; 1]]%N /\
    option_map (map (fun r => d_ws (o_ds r))) (split_owned N N N N ratio d) = Some [[1; 3]; [5; 7]]%N /\
    split_owned_l N N N N false ratio l = split_owned N N N N ratio d.
Proof. exact ProofsExt.split_owned_raw_weights_refuted. Qed.
