(** C02 - lemmas of the extension.  Part A: rand's index generation (uniform draws stay below the
    bound, Fisher-Yates returns a permutation, the RNG-driven operations with the modelled generator);
    part B: memory layouts (a standard-layout array shows a contiguous block, the owned ratio split /
    with_labels / into_single_target on the representation, [layout_only_panics]); part C: weights
    ([weights_follow_rows] over the op datatype, behaviour on ill-formed weight vectors); examples and
    the refutation of the unguarded raw-vector weight split at the end. *)
From Coq Require Import List NArith ZArith Bool Arith Lia Permutation SpecFloat.
From LinfaVerif Require Import Common.Num Common.B32 C02.Model C02.Rng C02.Layout C02.Proofs.
Import ListNotations.

(** * Part A - rand's index generation *)
Lemma word_at_lt w x v : word_at w x = Some v -> (v < 2 ^ w)%N.
Proof.
  destruct x as [u|u|u]; simpl; try discriminate.
  - destruct (N.eqb w 32) eqn:E; [|discriminate]. apply N.eqb_eq in E. subst w.
    intros H; inversion H; subst. apply N.mod_lt. discriminate.
  - destruct (N.eqb w 64) eqn:E; [|discriminate]. apply N.eqb_eq in E. subst w.
    intros H; inversion H; subst. apply N.mod_lt. discriminate.
Qed.

Lemma sample_below_lt w range words v rest :
  (0 < range)%N -> sample_below w range words = Some (v, rest) -> (v < range)%N.
Proof.
  intros Hr. induction words as [|x words IH]; simpl; [discriminate|].
  destruct (word_at w x) as [u|] eqn:E; [|discriminate].
  destruct (N.leb ((u * range) mod 2 ^ w) (zone w range)).
  - intros H; inversion H; subst. apply word_at_lt in E.
    apply N.div_lt_upper_bound; [apply N.pow_nonzero; discriminate|].
    apply N.mul_lt_mono_pos_r; auto.
  - exact IH.
Qed.

Lemma gen_range_usize_lt n words v rest : gen_range_usize n words = Some (v, rest) -> (v < n)%N.
Proof.
  unfold gen_range_usize. destruct (N.eqb n 0) eqn:E; [discriminate|]. apply N.eqb_neq in E.
  apply sample_below_lt. lia.
Qed.

Lemma gen_index_lt n words v rest : gen_index n words = Some (v, rest) -> (v < n)%N.
Proof.
  unfold gen_index. destruct (N.leb n u32_max).
  - destruct (N.eqb n 0) eqn:E; [discriminate|]. apply N.eqb_neq in E. apply sample_below_lt. lia.
  - apply gen_range_usize_lt.
Qed.

Lemma upd_perm {X} (l : list X) i a x : nth_error l i = Some a -> Permutation (x :: l) (a :: upd l i x).
Proof.
  revert i. induction l as [|h t IH]; intros [|i] H; simpl in *; try discriminate.
  - inversion H; subst. apply perm_swap.
  - eapply perm_trans; [apply perm_swap|]. eapply perm_trans; [apply perm_skip; apply (IH i H)|]. apply perm_swap.
Qed.

Lemma nth_error_upd {X} (l : list X) i j x :
  nth_error (upd l i x) j = if Nat.eqb i j then (match nth_error l i with Some _ => Some x | None => None end) else nth_error l j.
Proof.
  revert i j. induction l as [|h t IH]; intros i j.
  - simpl. destruct i, j; simpl; try reflexivity. destruct (Nat.eqb i j); reflexivity.
  - destruct i as [|i], j as [|j]; simpl; try reflexivity. apply IH.
Qed.

Lemma swap_perm {X} (l : list X) i j l' : swap l i j = Some l' -> Permutation l' l.
Proof.
  unfold swap. destruct (nth_error l i) as [a|] eqn:Ei; [|discriminate].
  destruct (nth_error l j) as [b|] eqn:Ej; [|discriminate]. intros H; inversion H; subst l'; clear H.
  pose proof (upd_perm l i a b Ei) as P1.
  assert (Ej' : nth_error (upd l i b) j = Some b).
  { rewrite nth_error_upd. destruct (Nat.eqb i j) eqn:E; [rewrite Ei; reflexivity|exact Ej]. }
  pose proof (upd_perm (upd l i b) j b a Ej') as P2.
  apply Permutation_sym. apply (Permutation_cons_inv (a := b)).
  eapply perm_trans; [exact P1|]. eapply perm_trans; [exact P2|]. apply Permutation_refl.
Qed.

Lemma swap_Some {X} (l : list X) i j : i < length l -> j < length l -> exists l', swap l i j = Some l'.
Proof.
  intros Hi Hj. unfold swap. destruct (nth_error_lt_Some l i Hi) as [a Ha]. destruct (nth_error_lt_Some l j Hj) as [b Hb].
  rewrite Ha, Hb. eauto.
Qed.

Lemma swap_length {X} (l : list X) i j l' : swap l i j = Some l' -> length l' = length l.
Proof. intros H. apply Permutation_length. eapply swap_perm; eauto. Qed.

Lemma fy_loop_S i l words :
  fy_loop (S i) l words =
  match gen_index (N.of_nat (S i + 1)) words with
  | None => None
  | Some (j, rest) => match swap l (S i) (N.to_nat j) with None => None | Some l' => fy_loop i l' rest end
  end.
Proof. reflexivity. Qed.

Lemma fy_loop_perm i : forall l words l' rest, fy_loop i l words = Some (l', rest) -> Permutation l' l.
Proof.
  induction i as [|i IH]; intros l words l' rest.
  - simpl. intros H; inversion H; subst. apply Permutation_refl.
  - rewrite fy_loop_S. destruct (gen_index (N.of_nat (S i + 1)) words) as [[j r1]|]; [|discriminate].
    destruct (swap l (S i) (N.to_nat j)) as [l1|] eqn:Es; [|discriminate].
    intros H. eapply perm_trans; [apply (IH _ _ _ _ H)|]. eapply swap_perm; eauto.
Qed.

Theorem fisher_yates_perm n words idx rest : fisher_yates n words = Some (idx, rest) -> Permutation idx (seq 0 n).
Proof. apply fy_loop_perm. Qed.

(* the loop never leaves the slice: the only way not to return is that the words do not fit *)
Lemma fy_loop_None i : forall l words, i < length l -> fy_loop i l words = None ->
  exists k ws, k <= i /\ gen_index (N.of_nat (k + 1)) ws = None.
Proof.
  induction i as [|i IH]; intros l words Hi; [simpl; discriminate|].
  rewrite fy_loop_S.
  destruct (gen_index (N.of_nat (S i + 1)) words) as [[j r1]|] eqn:Eg.
  - pose proof (gen_index_lt _ _ _ _ Eg) as Hj.
    destruct (swap_Some l (S i) (N.to_nat j)) as [l1 Hs]; [lia|lia|]. rewrite Hs.
    intros H. destruct (IH l1 r1) as [k [ws [Hk Hn]]]; auto.
    { rewrite (swap_length _ _ _ _ Hs). lia. }
    exists k, ws. split; [lia|exact Hn].
  - intros _. exists (S i), words. split; [lia|exact Eg].
Qed.


Lemma fisher_yates_None n words : fisher_yates n words = None ->
  exists k ws, k <= n - 1 /\ gen_index (N.of_nat (k + 1)) ws = None.
Proof.
  intros H. destruct n as [|n]; [discriminate H|].
  apply (fy_loop_None (S n - 1) (seq 0 (S n)) words); [rewrite seq_length; lia|exact H].
Qed.

Lemma draw_many_spec k : forall bound words vs rest, draw_many k bound words = Some (vs, rest) ->
  length vs = k /\ Forall (fun v => v < N.to_nat bound) vs.
Proof.
  induction k as [|k IH]; intros bound words vs rest; simpl.
  - intros H; inversion H; subst. auto.
  - destruct (gen_range_usize bound words) as [[v r1]|] eqn:Eg; [|discriminate].
    destruct (draw_many k bound r1) as [[vs1 r2]|] eqn:Ed; [|discriminate].
    intros H; inversion H; subst. destruct (IH _ _ _ _ Ed) as [L F]. simpl. split; [lia|].
    constructor; auto. apply gen_range_usize_lt in Eg. lia.
Qed.

Lemma draws_single_spec iters : forall k bound words ds rest, draws_single iters k bound words = Some (ds, rest) ->
  length ds = iters /\ Forall (fun vs => length vs = k /\ Forall (fun v => v < N.to_nat bound) vs) ds.
Proof.
  induction iters as [|it IH]; intros k bound words ds rest; simpl.
  - intros H; inversion H; subst. auto.
  - destruct (draw_many k bound words) as [[vs r1]|] eqn:E1; [|discriminate].
    destruct (draws_single it k bound r1) as [[ds1 r2]|] eqn:E2; [|discriminate].
    intros H; inversion H; subst. destruct (IH _ _ _ _ _ E2) as [L F]. simpl. split; [lia|].
    constructor; auto. apply (draw_many_spec _ _ _ _ _ E1).
Qed.

Lemma draws_bootstrap_spec iters : forall a b n nf words ds rest, draws_bootstrap iters a b n nf words = Some (ds, rest) ->
  length ds = iters /\
  Forall (fun p => (length (fst p) = a /\ Forall (fun v => v < N.to_nat n) (fst p)) /\
                   (length (snd p) = b /\ Forall (fun v => v < N.to_nat nf) (snd p))) ds.
Proof.
  induction iters as [|it IH]; intros a b n nf words ds rest; simpl.
  - intros H; inversion H; subst. auto.
  - destruct (draw_many a n words) as [[i1 r1]|] eqn:E1; [|discriminate].
    destruct (draw_many b nf r1) as [[c1 r2]|] eqn:E2; [|discriminate].
    destruct (draws_bootstrap it a b n nf r2) as [[ds1 r3]|] eqn:E3; [|discriminate].
    intros H; inversion H; subst. destruct (IH _ _ _ _ _ _ _ E3) as [L F]. simpl. split; [lia|].
    constructor; auto. simpl. split; [apply (draw_many_spec _ _ _ _ _ E1)|apply (draw_many_spec _ _ _ _ _ E2)].
Qed.

(** * Part B - memory layouts *)
Lemma at_addr_nat {X} (buf : list X) k : at_addr buf (Z.of_nat k) = nth_error buf k.
Proof. unfold at_addr. destruct (Z.ltb_spec (Z.of_nat k) 0); [lia|]. rewrite Nat2Z.id. reflexivity. Qed.

Lemma mapM_ext_in {X Y} (f g : X -> option Y) l : (forall x, In x l -> f x = g x) -> mapM f l = mapM g l.
Proof.
  induction l as [|a l IH]; simpl; intros H; auto. rewrite H by auto. rewrite IH by auto. reflexivity.
Qed.

Lemma mapM_map {X Y V} (f : Y -> option V) (g : X -> Y) l : mapM f (map g l) = mapM (fun x => f (g x)) l.
Proof. induction l as [|a l IH]; simpl; auto. rewrite IH. reflexivity. Qed.

Lemma map_add_seq base s w : map (fun j => base + j) (seq s w) = seq (base + s) w.
Proof.
  revert s. induction w as [|w IH]; intros s; simpl; auto. f_equal. rewrite IH. f_equal. lia.
Qed.

Lemma mapM_block {X} (buf : list X) base w : base + w <= length buf ->
  mapM (fun j => nth_error buf (base + j)) (seq 0 w) = Some (firstn w (skipn base buf)).
Proof.
  intros H. rewrite <- (mapM_map (nth_error buf) (fun j => base + j)). rewrite map_add_seq, Nat.add_0_r.
  change (select buf (seq base w) = Some (firstn w (skipn base buf))).
  rewrite select_sel.
  - rewrite sel_seq by lia. reflexivity.
  - eapply Forall_impl; [|apply seq_Forall_lt]. simpl. intros; lia.
Qed.

Lemma mapM_length {X Y} (f : X -> option Y) l r : mapM f l = Some r -> length r = length l.
Proof.
  revert r. induction l as [|a l IH]; simpl; intros r H.
  - inversion H; reflexivity.
  - destruct (f a); [|discriminate]. destruct (mapM f l); [|discriminate]. inversion H; subst. simpl. f_equal. auto.
Qed.

Definition Ok2 {X} (a : arr2 X) : Prop :=
  forall i j, i < a_n a -> j < a_w a -> (0 <= addr2 a i j < Z.of_nat (length (a_buf a)))%Z.
Definition Ok1 {X} (v : arr1 X) : Prop :=
  forall i, i < v_n v -> (0 <= addr1 v i < Z.of_nat (length (v_buf v)))%Z.

Lemma in_buf_iff {X} (buf : list X) p : in_buf buf p = true <-> (0 <= p < Z.of_nat (length buf))%Z.
Proof. unfold in_buf. rewrite andb_true_iff, Z.leb_le, Z.ltb_lt. tauto. Qed.

Lemma ok2_iff {X} (a : arr2 X) : ok2 a = true <-> Ok2 a.
Proof.
  unfold ok2, Ok2. rewrite forallb_forall. split.
  - intros H i j Hi Hj. specialize (H i). rewrite forallb_forall in H.
    apply in_buf_iff. apply H; apply in_seq; lia.
  - intros H i Hi. apply forallb_forall. intros j Hj. apply in_seq in Hi. apply in_seq in Hj.
    apply in_buf_iff. apply H; lia.
Qed.
Lemma ok1_iff {X} (v : arr1 X) : ok1 v = true <-> Ok1 v.
Proof.
  unfold ok1, Ok1. rewrite forallb_forall. split.
  - intros H i Hi. apply in_buf_iff. apply H. apply in_seq. lia.
  - intros H i Hi. apply in_seq in Hi. apply in_buf_iff. apply H. lia.
Qed.

Lemma skipn_add {X} (l : list X) a b : skipn b (skipn a l) = skipn (a + b) l.
Proof.
  revert l. induction a as [|a IH]; intros l; simpl; auto. destruct l as [|x l]; [rewrite skipn_nil; reflexivity|apply IH].
Qed.

(* the rows of a contiguous block *)
Lemma rows_block_concat {X} (buf : list X) w n : forall off, off + n * w <= length buf ->
  concat (map (fun i => firstn w (skipn (off + i * w) buf)) (seq 0 n)) = firstn (n * w) (skipn off buf).
Proof.
  induction n as [|n IH]; intros off H; [reflexivity|].
  rewrite <- cons_seq, <- seq_shift, map_cons, map_map, concat_cons.
  assert (E : map (fun x => firstn w (skipn (off + S x * w) buf)) (seq 0 n)
              = map (fun i => firstn w (skipn ((off + w) + i * w) buf)) (seq 0 n)).
  { apply map_ext. intros i. replace (off + S i * w) with (off + w + i * w) by lia. reflexivity. }
  rewrite E, IH by lia. rewrite Nat.mul_0_l, Nat.add_0_r.
  replace (skipn (off + w) buf) with (skipn w (skipn off buf)) by (apply skipn_add).
  set (b := skipn off buf).
  assert (Hb : w <= length b) by (unfold b; rewrite skipn_length; lia).
  rewrite <- (firstn_skipn w b) at 3. rewrite firstn_app, firstn_firstn, firstn_length.
  rewrite (Nat.min_l w (length b)) by exact Hb.
  replace (S n * w) with (w + n * w) by lia.
  rewrite (Nat.min_r (w + n * w) w) by lia.
  replace (w + n * w - w) with (n * w) by lia. reflexivity.
Qed.

Lemma rows_block_width {X} (buf : list X) w n off : off + n * w <= length buf ->
  width w (map (fun i => firstn w (skipn (off + i * w) buf)) (seq 0 n)).
Proof.
  intros H. apply Forall_forall. intros r Hr. apply in_map_iff in Hr as [i [E Hi]]. subst r. apply in_seq in Hi.
  rewrite firstn_length, skipn_length. assert (i * w + w <= n * w) by nia. lia.
Qed.

(* a standard-layout array shows the contiguous block behind its first element, row by row *)
Lemma std_block {X} (a : arr2 X) : Ok2 a -> is_std2 a = true ->
  exists rows, rows2 a = Some rows /\ length rows = a_n a /\ width (a_w a) rows /\
               concat rows = block (a_buf a) (a_off a) (a_n a * a_w a) /\
               (a_n a * a_w a <> 0 -> a_off a + a_n a * a_w a <= length (a_buf a)).
Proof.
  intros Hok Hstd. unfold rows2. destruct a as [buf off n w rs cs]; simpl in *.
  destruct (Nat.eq_dec n 0) as [En|En].
  { subst n. simpl. exists []. repeat split; auto. constructor. lia. }
  destruct (Nat.eq_dec w 0) as [Ew|Ew].
  { subst w. simpl. exists (map (fun _ => []) (seq 0 n)). repeat split.
    - apply mapM_Some_map. reflexivity.
    - rewrite map_length, seq_length. reflexivity.
    - apply Forall_forall. intros r Hr. apply in_map_iff in Hr as [i [E _]]. subst. reflexivity.
    - rewrite Nat.mul_0_r. unfold block. simpl. induction (seq 0 n); simpl; auto.
    - lia. }
  unfold is_std2 in Hstd. simpl in Hstd.
  rewrite (proj2 (Nat.eqb_neq n 0) En), (proj2 (Nat.eqb_neq w 0) Ew) in Hstd. simpl in Hstd.
  apply andb_true_iff in Hstd as [Hc Hr].
  assert (A : forall i j, i < n -> j < w -> addr2 (mkA2 buf off n w rs cs) i j = Z.of_nat (off + i * w + j)).
  { intros i j Hi Hj. unfold addr2. simpl.
    assert (Hjc : (Z.of_nat j * cs = Z.of_nat j)%Z).
    { apply orb_true_iff in Hc as [Hc|Hc]; [apply Nat.eqb_eq in Hc; assert (j = 0) by lia; subst; lia | apply Z.eqb_eq in Hc; lia]. }
    assert (Hir : (Z.of_nat i * rs = Z.of_nat (i * w))%Z).
    { apply orb_true_iff in Hr as [Hr|Hr]; [apply Nat.eqb_eq in Hr; assert (i = 0) by lia; subst; lia|].
      apply Z.eqb_eq in Hr. destruct (Nat.eqb w 1) eqn:E1; [apply Nat.eqb_eq in E1; subst w; lia|]. subst rs. lia. }
    rewrite Hjc, Hir. lia. }
  assert (Hlen : off + n * w <= length buf).
  { specialize (Hok (n - 1) (w - 1)). simpl in Hok. rewrite A in Hok by lia.
    assert (Hm : (n - 1) * w + (w - 1) + 1 = n * w) by nia. lia. }
  exists (map (fun i => firstn w (skipn (off + i * w) buf)) (seq 0 n)). repeat split.
  - apply mapM_Some_map. intros i Hi. apply in_seq in Hi.
    rewrite (mapM_ext_in _ (fun j => nth_error buf ((off + i * w) + j))).
    + apply mapM_block. assert (i * w + w <= n * w) by nia. lia.
    + intros j Hj. apply in_seq in Hj. rewrite A by lia. rewrite at_addr_nat. f_equal; lia.
  - rewrite map_length, seq_length. reflexivity.
  - apply rows_block_width. exact Hlen.
  - unfold block. apply rows_block_concat. exact Hlen.
  - intros _. exact Hlen.
Qed.

Lemma std_block1 {X} (v : arr1 X) : Ok1 v -> is_std1 v = true ->
  elems1 v = Some (block (v_buf v) (v_off v) (v_n v)) /\ (v_n v <> 0 -> v_off v + v_n v <= length (v_buf v)).
Proof.
  intros Hok Hstd. unfold elems1. destruct v as [buf off n s]; simpl in *.
  unfold is_std1 in Hstd. simpl in Hstd.
  assert (A : forall i, i < n -> addr1 (mkA1 buf off n s) i = Z.of_nat (off + i)).
  { intros i Hi. unfold addr1. simpl. apply orb_true_iff in Hstd as [H|H].
    - apply Z.eqb_eq in H. subst s. lia.
    - apply Nat.leb_le in H. assert (i = 0) by lia. subst. lia. }
  assert (Hlen : n <> 0 -> off + n <= length buf).
  { intros Hn. specialize (Hok (n - 1)). simpl in Hok. rewrite A in Hok by lia. lia. }
  split; [|exact Hlen].
  destruct (Nat.eq_dec n 0) as [En|En]; [subst n; reflexivity|].
  rewrite (mapM_ext_in _ (fun i => nth_error buf (off + i))).
  - apply mapM_block. auto.
  - intros i Hi. apply in_seq in Hi. rewrite A by lia. apply at_addr_nat.
Qed.

Lemma block_all {X} (buf : list X) off k : length buf = k -> (k <> 0 -> off + k <= length buf) -> block buf off k = buf.
Proof.
  intros L H. unfold block. destruct (Nat.eq_dec k 0) as [E|E].
  - subst k. destruct buf; [|discriminate]. rewrite skipn_nil. reflexivity.
  - assert (off = 0) by (specialize (H E); lia). subst off. simpl. subst k. apply firstn_all.
Qed.

(** * Part B2 - the dataset operations on the representation *)
Definition t_off {X} (t : tarr X) : nat := match t with T1 v => v_off v | T2 a => a_off a end.

Lemma concat_singletons {X} (l : list X) : concat (map (fun x => [x]) l) = l.
Proof. induction l; simpl; auto. f_equal; auto. Qed.

Lemma t_std_block {X} (t : tarr X) rows : t_ok t = true -> t_std t = true -> t_rows t = Some rows ->
  width (t_nt t) rows /\
  concat rows = block (t_buf t) (t_off t) (length rows * t_nt t) /\
  (length rows * t_nt t <> 0 -> t_off t + length rows * t_nt t <= length (t_buf t)).
Proof.
  destruct t as [v|a]; simpl; intros Hok Hstd Hr.
  - apply ok1_iff in Hok. destruct (std_block1 v Hok Hstd) as [E Hl]. rewrite E in Hr. inversion Hr; subst rows; clear Hr.
    rewrite map_length, concat_singletons, Nat.mul_1_r.
    assert (L : length (block (v_buf v) (v_off v) (v_n v)) = v_n v).
    { pose proof (mapM_length _ _ _ E) as L. rewrite seq_length in L. exact L. }
    rewrite L. repeat split; auto.
    apply Forall_forall. intros r Hin. apply in_map_iff in Hin as [x [Ex _]]. subst r. reflexivity.
  - apply ok2_iff in Hok. destruct (std_block a Hok Hstd) as [rows' [E [L [Wd [C Hl]]]]].
    rewrite E in Hr. inversion Hr; subst rows'; clear Hr. rewrite L. auto.
Qed.

Lemma from_shape_vec_len {X} n w (b : list X) r : from_shape_vec n w b = Some r -> length b = n * w.
Proof. unfold from_shape_vec. destruct (Nat.eqb (length b) (n * w)) eqn:E; [|discriminate]. intros _. apply Nat.eqb_eq. exact E. Qed.

Lemma split_off_len {X} k (buf b1 b2 : list X) : split_off k buf = Some (b1, b2) ->
  length b1 = k /\ length b1 + length b2 = length buf.
Proof.
  unfold split_off. destruct (Nat.leb k (length buf)) eqn:E; [|discriminate]. apply Nat.leb_le in E.
  intros H; inversion H; subst. rewrite firstn_length, skipn_length. lia.
Qed.

Section LayoutOps.
Variables A B W Nm : Type.
Variable beq : B -> B -> bool.
Variable of_bool : bool -> B.

Notation ldset := (ldset A B W Nm).
Notation dset := (dset A B W Nm).
Notation WF := (WF A B W Nm).
Notation logical := (logical A B W Nm).
Notation apply := (apply A B W Nm beq of_bool).
Notation apply_l := (apply_l A B W Nm beq of_bool).
Notation split_owned_l := (split_owned_l A B W Nm).
Notation layout_rejects := (layout_rejects A B W Nm).
Notation plain_weights := (plain_weights A B W Nm).

Lemma logical_fields (l : ldset) d : logical l = Some d ->
  rows2 (l_recs l) = Some (d_recs d) /\ t_rows (l_tgts l) = Some (d_tgts d) /\ elems1 (l_ws l) = Some (d_ws d) /\
  d_nf d = a_w (l_recs l) /\ d_nt d = t_nt (l_tgts l) /\ d_t1 d = t_is1 (l_tgts l) /\ d_fn d = l_fn l /\ d_tn d = l_tn l.
Proof.
  unfold Layout.logical. destruct (rows2 (l_recs l)) as [r|]; [|discriminate].
  destruct (t_rows (l_tgts l)) as [t|]; [|discriminate]. destruct (elems1 (l_ws l)) as [w|]; [|discriminate].
  intros H; inversion H; subst d; simpl. repeat split; reflexivity.
Qed.

Lemma ntargets_logical (l : ldset) d : logical l = Some d -> ntargets d = t_nt (l_tgts l).
Proof.
  intros H. destruct (logical_fields l d H) as [_ [_ [_ [_ [E1 [E2 _]]]]]].
  unfold ntargets. rewrite E1, E2. destruct (l_tgts l); reflexivity.
Qed.

Lemma rows2_length {X} (a : arr2 X) rows : rows2 a = Some rows -> length rows = a_n a.
Proof. intros H. apply mapM_length in H. rewrite seq_length in H. exact H. Qed.
Lemma elems1_length {X} (v : arr1 X) ws : elems1 v = Some ws -> length ws = v_n v.
Proof. intros H. apply mapM_length in H. rewrite seq_length in H. exact H. Qed.

Lemma plain_weights_buf (l : ldset) ws : ok1 (l_ws l) = true -> plain_weights l = true -> elems1 (l_ws l) = Some ws ->
  v_buf (l_ws l) = ws.
Proof.
  unfold Layout.plain_weights. intros Hok Hp He. apply andb_true_iff in Hp as [Hp Hs]. apply andb_true_iff in Hp as [Ho Hl].
  apply Nat.eqb_eq in Ho. apply Nat.eqb_eq in Hl. apply ok1_iff in Hok.
  destruct (std_block1 (l_ws l) Hok Hs) as [E Hb]. rewrite E in He. inversion He; subst ws.
  rewrite Ho. symmetry. apply block_all; auto. intros Hn. specialize (Hb Hn). lia.
Qed.

(** the owned split returns only when the layout is not one of the rejected ones *)
Lemma split_owned_l_Some_accepts raw ratio (l : ldset) outs :
  split_owned_l raw ratio l = Some outs -> layout_rejects (OpSplitOwned ratio) l = false.
Proof.
  unfold Layout.split_owned_l, Layout.layout_rejects.
  destruct (is_std2 (l_recs l)); simpl; [|discriminate].
  destruct (t_std (l_tgts l)); simpl; [|discriminate].
  destruct (N.ltb _ _) eqn:En; [discriminate|]. apply N.ltb_ge in En.
  set (n := a_n (l_recs l)) in *. set (n1 := N.to_nat (ceil_ratio_f32 (N.of_nat n) ratio)).
  assert (Hn : n1 <= n) by (unfold n1; lia).
  destruct (split_off (n1 * a_w (l_recs l)) (a_buf (l_recs l))) as [[b1 b2]|] eqn:S1; [|discriminate].
  destruct (from_shape_vec n1 _ b1) as [r1|] eqn:F1; [|discriminate].
  destruct (from_shape_vec (n - n1) _ b2) as [r2|] eqn:F2; [|discriminate].
  destruct (split_off (n1 * t_nt (l_tgts l)) (t_buf (l_tgts l))) as [[c1 c2]|] eqn:S2; [|discriminate].
  destruct (from_shape_vec n1 _ c1) as [t1|] eqn:G1; [|discriminate].
  destruct (from_shape_vec (n - n1) _ c2) as [t2|] eqn:G2; [|discriminate].
  intros _.
  apply from_shape_vec_len in F1, F2, G1, G2. apply split_off_len in S1, S2.
  assert (E1 : length (a_buf (l_recs l)) = n * a_w (l_recs l)) by nia.
  assert (E2 : length (t_buf (l_tgts l)) = n * t_nt (l_tgts l)) by nia.
  rewrite E1, E2, !Nat.eqb_refl. reflexivity.
Qed.

Lemma split_owned_l_eq raw ratio (l : ldset) d :
  ok_l A B W Nm l = true -> logical l = Some d -> WF d ->
  layout_rejects (OpSplitOwned ratio) l = false -> (raw = false \/ plain_weights l = true) ->
  split_owned_l raw ratio l = split_owned A B W Nm ratio d.
Proof.
  intros Hok Hl Hw Hrej Hraw.
  destruct (logical_fields l d Hl) as [ER [ET [EW [Enf [Ent [Et1 [Efn Etn]]]]]]].
  pose proof (ntargets_logical l d Hl) as Entg.
  unfold Layout.ok_l in Hok. apply andb_true_iff in Hok as [Hok OkW]. apply andb_true_iff in Hok as [OkR OkT].
  unfold Layout.layout_rejects in Hrej.
  apply orb_false_iff in Hrej as [Hrej L2]. apply orb_false_iff in Hrej as [Hrej L1].
  apply orb_false_iff in Hrej as [S1 S2].
  apply negb_false_iff in S1, S2, L1, L2. apply Nat.eqb_eq in L1, L2.
  (* records *)
  destruct (std_block (l_recs l) (proj1 (ok2_iff _) OkR) S1) as [rows [ER' [LR [WR [CR HR]]]]].
  rewrite ER in ER'. inversion ER'; subst rows; clear ER'.
  assert (BR : a_buf (l_recs l) = concat (d_recs d)).
  { rewrite CR. symmetry. apply block_all; auto. }
  (* targets *)
  destruct (t_std_block (l_tgts l) (d_tgts d) OkT S2 ET) as [WT [CT HT]].
  pose proof (wf_ntg A B W Nm d Hw) as Hnt. unfold nsamples in Hnt. rewrite LR in Hnt.
  rewrite Hnt in CT, HT.
  assert (BT : t_buf (l_tgts l) = concat (d_tgts d)).
  { rewrite CT. symmetry. apply block_all; auto. }
  (* weights *)
  pose proof (elems1_length _ _ EW) as LW.
  unfold Layout.split_owned_l, split_owned.
  rewrite S1, S2. simpl. unfold nsamples. rewrite LR, <- Enf, Entg, BR, BT, EW, <- LW, <- Et1, <- Efn, <- Etn.
  destruct (N.ltb _ _); [reflexivity|].
  destruct (split_off _ (concat (d_recs d))) as [[b1 b2]|]; [|reflexivity].
  destruct (from_shape_vec _ _ b1) as [r1|]; [|reflexivity].
  destruct (from_shape_vec _ _ b2) as [r2|]; [|reflexivity].
  destruct (split_off _ (concat (d_tgts d))) as [[c1 c2]|]; [|reflexivity].
  destruct (from_shape_vec _ _ c1) as [t1|]; [|reflexivity].
  destruct (from_shape_vec _ _ c2) as [t2|]; [|reflexivity].
  rewrite <- Ent.
  assert (Hbuf : raw = true -> v_buf (l_ws l) = d_ws d).
  { intros Er. destruct Hraw as [Hraw|Hraw]; [congruence|]. apply plain_weights_buf; auto. }
  destruct (Nat.eqb (length (d_ws d)) _); [|reflexivity].
  destruct raw; [rewrite (Hbuf eq_refl)|]; reflexivity.
Qed.

Lemma lift_logical (f : dset -> option (list (out A B W Nm))) (l : ldset) d : logical l = Some d -> lift A B W Nm f l = f d.
Proof. intros H. unfold lift. rewrite H. reflexivity. Qed.

Lemma into_single_l_eq (l : ldset) d :
  ok_l A B W Nm l = true -> logical l = Some d -> WF d ->
  into_single_l A B W Nm l = if layout_rejects OpIntoSingle l then None else into_single_target A B W Nm d.
Proof.
  intros Hok Hl Hw.
  destruct (logical_fields l d Hl) as [ER [ET [EW [Enf [Ent [Et1 [Efn Etn]]]]]]].
  unfold Layout.ok_l in Hok. apply andb_true_iff in Hok as [Hok OkW]. apply andb_true_iff in Hok as [OkR OkT].
  unfold Layout.into_single_l, Layout.layout_rejects, into_single_target. rewrite Et1.
  destruct (l_tgts l) as [v|a] eqn:ETg; simpl in *; [reflexivity|].
  pose proof (rows2_length _ _ ET) as LT. pose proof (rows2_length _ _ ER) as LR.
  pose proof (wf_ntg A B W Nm d Hw) as Hnt. unfold nsamples in *. rewrite LT, LR in Hnt.
  pose proof (wf_tgts A B W Nm d Hw) as WT. unfold ntargets in WT. rewrite Et1, Ent in WT. simpl in WT.
  rewrite (concat_length_w _ _ WT), LT, LR, <- Hnt.
  destruct (Nat.eqb (a_n a * a_w a) (a_n a)) eqn:Es; simpl.
  2:{ destruct (is_std2 a); reflexivity. }
  apply Nat.eqb_eq in Es.
  destruct (is_std2 a) eqn:Sa; simpl.
  - rewrite ER. rewrite Enf.
    destruct (std_block a (proj1 (ok2_iff _) OkT) Sa) as [rows [ET' [L' [W' [C' _]]]]].
    rewrite ET in ET'. inversion ET'; subst rows. rewrite C', Es. reflexivity.
  - (* not C-contiguous: an F-contiguous (n,1) array would be C-contiguous as well *)
    assert (Hf : is_f2 a = false).
    { unfold is_f2, is_std2 in *. simpl in *.
      destruct (Nat.eqb (a_n a) 0) eqn:E0; [discriminate Sa|]. simpl in Sa.
      assert (E1 : a_w a = 1) by (apply Nat.eqb_neq in E0; nia).
      rewrite E1 in *. simpl in *. rewrite andb_true_r. destruct (Nat.eqb (a_n a) 1); simpl in *; auto. }
    rewrite Hf. reflexivity.
Qed.

(** the one equation: a layout never changes what is returned, it can only turn a call into a panic,
    and [layout_rejects] says exactly when *)
Theorem layout_only_panics raw o (l : ldset) d :
  ok_l A B W Nm l = true -> logical l = Some d -> WF d ->
  (forall r, o = OpSplitOwned r -> raw = false \/ plain_weights l = true) ->
  apply_l raw o l = if layout_rejects o l then None else apply o d.
Proof.
  intros Hok Hl Hw Hraw.
  destruct o as [ratio|ratio|idx|draws|draws|draws|labels| | f | | | | | | |size];
    match goal with
    | |- Layout.apply_l _ _ _ _ _ _ _ (OpSplitOwned _) _ = _ => idtac
    | |- Layout.apply_l _ _ _ _ _ _ _ (OpWithLabels _) _ = _ => idtac
    | |- Layout.apply_l _ _ _ _ _ _ _ OpIntoSingle _ = _ => idtac
    | _ => unfold Layout.apply_l, Layout.layout_rejects; apply lift_logical; exact Hl
    end.
  - change (Layout.split_owned_l A B W Nm raw ratio l
            = if Layout.layout_rejects A B W Nm (OpSplitOwned ratio) l then None else split_owned A B W Nm ratio d).
    destruct (Layout.layout_rejects A B W Nm (OpSplitOwned ratio) l) eqn:Er.
    + destruct (Layout.split_owned_l A B W Nm raw ratio l) as [outs|] eqn:Es; auto.
      apply split_owned_l_Some_accepts in Es. congruence.
    + apply split_owned_l_eq; auto. apply (Hraw ratio). reflexivity.
  - change (Layout.with_labels_l A B W Nm beq labels l
            = if weights_slice_panics A B W Nm l then None else with_labels A B W Nm beq labels d).
    unfold Layout.with_labels_l. destruct (weights_slice_panics A B W Nm l); [reflexivity|]. apply lift_logical. exact Hl.
  - apply into_single_l_eq; auto.
Qed.

Corollary split_owned_layout_guard raw ratio (l : ldset) d outs :
  ok_l A B W Nm l = true -> logical l = Some d -> WF d -> (raw = false \/ plain_weights l = true) ->
  split_owned_l raw ratio l = Some outs ->
  is_std2 (l_recs l) = true /\ t_std (l_tgts l) = true /\
  length (a_buf (l_recs l)) = a_n (l_recs l) * a_w (l_recs l) /\
  split_owned A B W Nm ratio d = Some outs.
Proof.
  intros Hok Hl Hw Hraw Hs.
  pose proof (split_owned_l_Some_accepts _ _ _ _ Hs) as Hr.
  pose proof (layout_only_panics raw (OpSplitOwned ratio) l d Hok Hl Hw (fun _ _ => Hraw)) as E.
  change (Layout.split_owned_l A B W Nm raw ratio l
          = if Layout.layout_rejects A B W Nm (OpSplitOwned ratio) l then None else split_owned A B W Nm ratio d) in E.
  rewrite Hr in E. rewrite E in Hs.
  unfold Layout.layout_rejects in Hr.
  apply orb_false_iff in Hr as [Hr _]. apply orb_false_iff in Hr as [Hr L1]. apply orb_false_iff in Hr as [S1 S2].
  apply negb_false_iff in S1, S2, L1. apply Nat.eqb_eq in L1. auto.
Qed.
End LayoutOps.

(** * Part A2 - the RNG-driven operations with rand's index generation *)
Lemma mapM_Forall2 {X Y} (f : X -> option Y) l r : mapM f l = Some r -> Forall2 (fun x y => f x = Some y) l r.
Proof.
  revert r. induction l as [|a l IH]; simpl; intros r H.
  - inversion H; constructor.
  - destruct (f a) as [y|] eqn:E; [|discriminate]. destruct (mapM f l) as [ys|]; [|discriminate].
    inversion H; subst. constructor; auto.
Qed.

Section RngOps.
Variables A B W Nm : Type.
Variable beq : B -> B -> bool.
Variable of_bool : bool -> B.
Hypothesis beq_spec : forall x y, beq x y = true <-> x = y.

Notation dset := (dset A B W Nm).
Notation out := (out A B W Nm).
Notation WF := (WF A B W Nm).
Notation apply := (apply A B W Nm beq of_bool).
Notation spec := (spec A B W Nm beq of_bool).
Notation spec_outs := (spec_outs A B W Nm beq of_bool).
Notation replay := (replay A B W Nm).
Notation apply_rng := (apply_rng A B W Nm beq of_bool).
Notation pairs := (pairs A B W Nm).

Lemma Forall_in_range b idx : Forall (fun i => i < b) idx -> in_range b idx = true.
Proof. apply in_range_Forall. Qed.

(** whatever words the generator returns, the modelled index generation only produces calls inside
    the documented domain: shuffle a permutation, bootstrap indices below the bounds *)
Theorem replay_in_domain q (d : dset) words o rest : replay q d words = Some (o, rest) ->
  exists sp, spec o d = Some sp.
Proof.
  destruct q as [|a b iters|k iters|k iters]; simpl.
  - destruct (fisher_yates (nsamples d) words) as [[idx r]|] eqn:E; [|discriminate].
    intros H; inversion H; subst. simpl.
    apply fisher_yates_perm in E.
    assert (Hr : in_range (nsamples d) idx = true).
    { apply Forall_in_range. apply Forall_forall. intros i Hi.
      apply (Permutation_in _ E) in Hi. apply in_seq in Hi. lia. }
    rewrite Hr. eauto.
  - destruct (draws_bootstrap _ _ _ _ _ words) as [[ds r]|] eqn:E; [|discriminate].
    intros H; inversion H; subst. simpl.
    destruct (draws_bootstrap_spec _ _ _ _ _ _ _ _ E) as [_ F]. rewrite !Nat2N.id in F.
    match goal with |- context [forallb ?P ds] => assert (Hr : forallb P ds = true) end.
    { apply forallb_forall. intros p Hp. rewrite Forall_forall in F. destruct (F p Hp) as [[_ F1] [_ F2]].
      rewrite (Forall_in_range _ _ F1), (Forall_in_range _ _ F2). reflexivity. }
    rewrite Hr. eauto.
  - destruct (draws_single _ _ _ words) as [[ds r]|] eqn:E; [|discriminate].
    intros H; inversion H; subst. simpl.
    destruct (draws_single_spec _ _ _ _ _ _ E) as [_ F]. rewrite !Nat2N.id in F.
    assert (Hr : forallb (in_range (nsamples d)) ds = true).
    { apply forallb_forall. intros p Hp. rewrite Forall_forall in F. apply Forall_in_range. apply (F p Hp). }
    rewrite Hr. eauto.
  - destruct (draws_single _ _ _ words) as [[ds r]|] eqn:E; [|discriminate].
    intros H; inversion H; subst. simpl.
    destruct (draws_single_spec _ _ _ _ _ _ E) as [_ F]. rewrite !Nat2N.id in F.
    assert (Hr : forallb (in_range (d_nf d)) ds = true).
    { apply forallb_forall. intros p Hp. rewrite Forall_forall in F. apply Forall_in_range. apply (F p Hp). }
    rewrite Hr. eauto.
Qed.

(** hence the only way an RNG-driven call does not return is the generator side (empty range /
    words that do not fit), never an index that the selection rejects *)
Theorem apply_rng_returns q (d : dset) words : WF d ->
  (apply_rng q words d = None <-> replay q d words = None).
Proof.
  intros Hw. unfold Rng.apply_rng. destruct (replay q d words) as [[o rest]|] eqn:E; [|tauto].
  split; [|discriminate]. intros Ha.
  destruct (replay_in_domain _ _ _ _ _ E) as [sp Hs].
  assert (Hso : spec_outs o d = Some (map (fun p => (fst p, apply_sel A B W Nm (snd p) d)) sp))
    by (unfold Model.spec_outs; rewrite Hs; reflexivity).
  destruct (apply_spec A B W Nm beq of_bool beq_spec o d _ Hw Hso) as [outs [E1 _]]. congruence.
Qed.

Theorem shuffle_rng_permutes (d : dset) words outs : WF d -> apply_rng RShuffle words d = Some outs ->
  exists idx d', Permutation idx (seq 0 (nsamples d)) /\ pairs outs = [(None, d')] /\
    d_recs d' = sel (d_recs d) idx /\ d_tgts d' = sel (d_tgts d) idx /\
    Permutation (combine (d_recs d') (d_tgts d')) (combine (d_recs d) (d_tgts d)) /\
    d_ws d' = [] /\ d_fn d' = d_fn d /\ d_tn d' = d_tn d.
Proof.
  intros Hw. unfold Rng.apply_rng. simpl.
  destruct (fisher_yates (nsamples d) words) as [[idx r]|] eqn:E; [|discriminate]. simpl.
  apply fisher_yates_perm in E. intros Hs.
  destruct (shuffle_perm A B W Nm beq of_bool d idx Hw E) as [outs' [d' [E1 R]]].
  rewrite E1 in Hs. inversion Hs; subst outs'. exists idx, d'. tauto.
Qed.

Theorem bootstrap_rng_existing (d : dset) a b iters words outs : WF d ->
  apply_rng (RBootstrap a b iters) words d = Some outs ->
  length outs = iters /\
  Forall (fun r : out => exists idx cidx,
            length idx = a /\ length cidx = b /\
            Forall (fun i => i < nsamples d) idx /\ Forall (fun j => j < d_nf d) cidx /\
            d_recs (o_ds r) = map (fun x => sel x cidx) (sel (d_recs d) idx) /\
            d_tgts (o_ds r) = sel (d_tgts d) idx /\ d_ws (o_ds r) = [] /\ d_nf (o_ds r) = b) outs.
Proof.
  intros Hw. unfold Rng.apply_rng. simpl.
  destruct (draws_bootstrap _ _ _ _ _ words) as [[ds r]|] eqn:E; [|discriminate]. simpl.
  destruct (draws_bootstrap_spec _ _ _ _ _ _ _ _ E) as [L F]. rewrite !Nat2N.id in F.
  unfold bootstrap. intros Hm. pose proof (mapM_length _ _ _ Hm) as Lo. split; [lia|].
  apply mapM_Forall2 in Hm. clear E L Lo. induction Hm as [|p o ps os Hp Hm IH]; [constructor|].
  inversion F as [|p' ps' [[La Fa] [Lb Fb]] F']; subst. constructor; [|apply IH; exact F'].
  exists (fst p), (snd p).
  assert (Ht : Forall (fun i => i < length (d_tgts d)) (fst p)) by (rewrite (wf_ntg A B W Nm d Hw); exact Fa).
  unfold bootstrap1 in Hp.
  rewrite (draw_ok_range (length (fst p)) (nsamples d) (fst p) eq_refl Fa),
          (draw_ok_range (length (snd p)) (d_nf d) (snd p) eq_refl Fb) in Hp. simpl in Hp.
  unfold nsamples in Fa. rewrite (select_sel _ _ Fa), (select_sel _ _ Ht) in Hp.
  rewrite (select_cols_sel (sel (d_recs d) (fst p)) (d_nf d) (snd p)) in Hp
    by (auto; apply sel_Forall; apply (wf_recs A B W Nm d Hw)).
  inversion Hp; subst o. simpl. repeat split; auto.
Qed.

End RngOps.

(** * Part C - weights *)
Section Weights.
Variables A B W Nm : Type.
Variable beq : B -> B -> bool.
Variable of_bool : bool -> B.
Hypothesis beq_spec : forall x y, beq x y = true <-> x = y.

Notation dset := (dset A B W Nm).
Notation out := (out A B W Nm).
Notation WF := (WF A B W Nm).
Notation apply := (apply A B W Nm beq of_bool).
Notation spec := (spec A B W Nm beq of_bool).
Notation spec_outs := (spec_outs A B W Nm beq of_bool).
Notation pairs := (pairs A B W Nm).

(** which operations hand the sample weights on - a property of the operation alone *)
Definition carries_weights (o : op B) : bool :=
  match o with
  | OpSplitOwned _ | OpSplitView _ | OpWithLabels _ | OpOneVsAll | OpMapTargets _ | OpView
  | OpFeatureIter | OpTargetIter => true
  | OpShuffle _ | OpBootstrap _ | OpBootSamples _ | OpBootFeatures _ | OpToOwned | OpIntoSingle
  | OpSampleIter | OpChunks _ => false
  end.

Lemma Forall_map_kw {X} (f : X -> option B * selection B) (k : bool) l :
  (forall x, s_kw (snd (f x)) = k) -> Forall (fun p => s_kw (snd p) = k) (map f l).
Proof. intros H. apply Forall_forall. intros p Hp. apply in_map_iff in Hp as [x [E _]]. subst. apply H. Qed.

Lemma spec_kw o (d : dset) sp : spec o d = Some sp -> Forall (fun p => s_kw (snd p) = carries_weights o) sp.
Proof.
  destruct o; simpl.
  - destruct (N.ltb _ _); [discriminate|]. intros H; inversion H; subst. repeat constructor.
  - destruct (N.ltb _ _); [discriminate|]. intros H; inversion H; subst. repeat constructor.
  - destruct (in_range _ _); [|discriminate]. intros H; inversion H; subst. repeat constructor.
  - match goal with |- context [forallb ?P draws] => destruct (forallb P draws) end; [|discriminate].
    intros H; inversion H; subst. apply Forall_map_kw. reflexivity.
  - destruct (forallb _ draws); [|discriminate]. intros H; inversion H; subst. apply Forall_map_kw. reflexivity.
  - destruct (forallb _ draws); [|discriminate]. intros H; inversion H; subst. apply Forall_map_kw. reflexivity.
  - intros H; inversion H; subst. repeat constructor.
  - destruct (d_t1 d); [|discriminate]. intros H; inversion H; subst. apply Forall_map_kw. reflexivity.
  - intros H; inversion H; subst. repeat constructor.
  - intros H; inversion H; subst. repeat constructor.
  - intros H; inversion H; subst. repeat constructor.
  - destruct (negb (d_t1 d) && _); [|discriminate]. intros H; inversion H; subst. repeat constructor.
  - intros H; inversion H; subst. repeat constructor.
  - intros H; inversion H; subst. apply Forall_map_kw. reflexivity.
  - destruct (d_t1 d); [discriminate|]. intros H; inversion H; subst. apply Forall_map_kw. reflexivity.
  - destruct size; [discriminate|]. intros H; inversion H; subst. apply Forall_map_kw. reflexivity.
Qed.

(** weights follow the rows: inside the documented domain every result of every operation is a
    selection [rows] of the source's samples - records and targets of exactly those rows - and its
    weights are the weights of the SAME rows when the operation carries weights, none otherwise *)
Theorem weights_follow_rows (o : op B) (d : dset) sp : WF d -> spec o d = Some sp ->
  exists outs, apply o d = Some outs /\ length outs = length sp /\
    forall k r, nth_error outs k = Some r ->
      exists rows cols tcols g,
        Forall (fun i => i < nsamples d) rows /\
        d_recs (o_ds r) = map (fun x => sel x cols) (sel (d_recs d) rows) /\
        d_tgts (o_ds r) = map (fun t => map g (sel t tcols)) (sel (d_tgts d) rows) /\
        d_ws (o_ds r) = (if carries_weights o then sel (d_ws d) rows else []) /\
        (carries_weights o = true -> d_ws d <> [] -> length (d_ws (o_ds r)) = nsamples (o_ds r)).
Proof.
  intros Hw Hs.
  assert (Hso : spec_outs o d = Some (map (fun p => (fst p, apply_sel A B W Nm (snd p) d)) sp))
    by (unfold Model.spec_outs; rewrite Hs; reflexivity).
  destruct (apply_spec A B W Nm beq of_bool beq_spec o d _ Hw Hso) as [outs [E1 [E2 _]]].
  exists outs. split; [exact E1|]. split.
  { apply (f_equal (@length _)) in E2. unfold Proofs.pairs in E2. rewrite !map_length in E2. exact E2. }
  intros k r Hk.
  assert (Hp : nth_error (pairs outs) k = Some (o_label r, o_ds r)).
  { unfold Proofs.pairs. rewrite nth_error_map, Hk. reflexivity. }
  rewrite E2, nth_error_map in Hp. destruct (nth_error sp k) as [[lab s]|] eqn:Ek; [|discriminate].
  simpl in Hp. inversion Hp as [[Hlab Hds]]. clear Hp.
  pose proof (spec_ok A B W Nm beq of_bool o d sp Hw Hs) as Hok. pose proof (spec_kw o d sp Hs) as Hkw.
  rewrite Forall_forall in Hok, Hkw. apply nth_error_In in Ek.
  destruct (Hok _ Ek) as [[R [C T]] _]. specialize (Hkw _ Ek). simpl in *.
  exists (s_rows s), (s_cols s), (s_tcols s), (s_g s). rewrite <- Hkw. repeat split; auto.
  intros Hk1 Hne. rewrite Hk1. unfold nsamples. simpl. rewrite map_length.
  destruct (wf_ws A B W Nm d Hw) as [E|E]; [contradiction|].
  rewrite !sel_length; auto. rewrite E. exact R.
Qed.

(** ** weight vectors that are neither empty nor one per sample *)
Definition set_ws (d : dset) (w : list W) : dset :=
  mkD (d_nf d) (d_nt d) (d_t1 d) (d_recs d) (d_tgts d) w (d_fn d) (d_tn d).
Definition out_set_ws (w : list W) (r : out) : out := mkO (o_label r) (set_ws (o_ds r) w) (o_counts r).

(* from the results on the same dataset without weights to the results with the ill-formed vector:
   the owned split leaves the WHOLE vector on the first part, the view split drops it, the label filter
   indexes it by the original sample number (and panics past its end), the cloning operations copy
   it as it is, the others never look at it *)
Definition ill_weights (o : op B) (d : dset) (outs0 : list out) : option (list out) :=
  let ws := d_ws d in
  match o with
  | OpSplitOwned _ => match outs0 with
                      | r1 :: rest => Some (out_set_ws ws r1 :: rest)
                      | [] => Some []
                      end
  | OpWithLabels ls =>
      let kept := kept_rows A B W Nm beq ls d in
      if forallb (fun i => Nat.ltb i (length ws)) kept
      then Some (map (out_set_ws (sel ws kept)) outs0) else None
  | OpOneVsAll | OpMapTargets _ | OpView | OpFeatureIter | OpTargetIter => Some (map (out_set_ws ws) outs0)
  | _ => Some outs0
  end.

Lemma mapM_set_ws {X} (f f0 : X -> option out) (ws : list W) l :
  (forall x, f x = match f0 x with Some r => Some (out_set_ws ws r) | None => None end) ->
  mapM f l = match mapM f0 l with Some rs => Some (map (out_set_ws ws) rs) | None => None end.
Proof.
  intros H. induction l as [|a l IH]; simpl; auto. rewrite H, IH.
  destruct (f0 a); auto. destruct (mapM f0 l); reflexivity.
Qed.

Lemma wl_loop_ill labels ws i (a : list (list A)) (b : list (list B)) maps : length a = length b ->
  let q := any_in B beq labels in
  wl_loop A B W beq labels (Some ws) i (combine a b) maps =
  if forallb (fun k => Nat.ltb k (length ws)) (kidx q i b)
  then match wl_loop A B W beq labels None i (combine a b) maps with
       | Some (rs, ts, _, m) => Some (rs, ts, sel ws (kidx q i b), m)
       | None => None
       end
  else None.
Proof.
  revert b i maps. induction a as [|x a IH]; intros [|y b] i maps Hl; simpl in *; try discriminate; auto.
  destruct (any_in B beq labels y) eqn:Q; simpl.
  - destruct (nth_error ws i) as [wi|] eqn:Ew.
    + assert (Hi : Nat.ltb i (length ws) = true).
      { apply Nat.ltb_lt. apply nth_error_Some. congruence. }
      rewrite Hi. simpl. rewrite IH by lia.
      destruct (forallb _ (kidx (any_in B beq labels) (S i) b)); [|reflexivity].
      destruct (wl_loop A B W beq labels None (S i) (combine a b) (zip_incr B beq maps y)) as [[[[rs ts] w0] m]|]; [|reflexivity].
      rewrite sel_cons, Ew. reflexivity.
    + assert (Hi : Nat.ltb i (length ws) = false).
      { apply Nat.ltb_ge. apply nth_error_None. exact Ew. }
      rewrite Hi. reflexivity.
  - apply IH. lia.
Qed.

Theorem illformed_weights (o : op B) (d : dset) :
  d_ws d <> [] -> length (d_ws d) <> nsamples d -> length (d_tgts d) = nsamples d ->
  apply o d = match apply o (set_ws d []) with
              | Some outs0 => ill_weights o d outs0
              | None => None
              end.
Proof.
  intros Hne Hlen Hnt.
  assert (Hw0 : weights_opt A B W Nm d = Some (d_ws d)).
  { unfold weights_opt. destruct (d_ws d); [contradiction|reflexivity]. }
  destruct o; simpl.
  - (* owned split *)
    unfold split_owned. simpl. unfold nsamples in *. simpl.
    destruct (N.ltb _ _) eqn:En; [reflexivity|]. apply N.ltb_ge in En.
    set (n1 := N.to_nat (ceil_ratio_f32 (N.of_nat (length (d_recs d))) ratio)).
    assert (Hn : n1 + (length (d_recs d) - n1) = length (d_recs d)) by (unfold n1; lia).
    rewrite Hn. rewrite (proj2 (Nat.eqb_neq _ _) Hlen).
    destruct (split_off _ (concat (d_recs d))) as [[b1 b2]|]; [|reflexivity].
    destruct (from_shape_vec n1 _ b1) as [r1|]; [|reflexivity].
    destruct (from_shape_vec _ _ b2) as [r2|]; [|reflexivity].
    destruct (split_off _ (concat (d_tgts d))) as [[c1 c2]|]; [|reflexivity].
    destruct (from_shape_vec n1 _ c1) as [t1|]; [|reflexivity].
    destruct (from_shape_vec _ _ c2) as [t2|]; [|reflexivity].
    assert (E0 : forall b : bool, (if b then (firstn n1 (@nil W), skipn n1 (@nil W)) else ([], [])) = ([], [])).
    { intros [|]; [rewrite firstn_nil, skipn_nil|]; reflexivity. }
    rewrite E0. unfold with_names, new_ds. simpl.
    destruct (names_ok Nm (d_fn d) (d_nf d) && names_ok Nm (d_tn d) _); reflexivity.
  - (* view split *)
    unfold split_view. simpl. unfold nsamples in *. simpl.
    destruct (N.ltb _ _); [reflexivity|].
    rewrite (proj2 (Nat.eqb_neq _ _) Hlen).
    assert (E0 : forall k (b : bool), (if b then (firstn k (@nil W), skipn k (@nil W)) else ([], [])) = ([], [])).
    { intros k [|]; [rewrite firstn_nil, skipn_nil|]; reflexivity. }
    rewrite E0.
    destruct (split_at _ (d_recs d)) as [[r1 r2]|]; [|reflexivity].
    destruct (split_at _ (d_tgts d)) as [[t1 t2]|]; [|reflexivity].
    destruct (with_names _ _ _ _ _ _ _); [|reflexivity]. destruct (with_names _ _ _ _ _ _ _); reflexivity.
  - destruct (shuffle A B W Nm idx (set_ws d [])) eqn:E; unfold shuffle in *; simpl in *; rewrite E; reflexivity.
  - unfold bootstrap, bootstrap1. simpl. destruct (mapM _ draws); reflexivity.
  - unfold bootstrap_samples, bootstrap_samples1. simpl. destruct (mapM _ draws); reflexivity.
  - unfold bootstrap_features, bootstrap_features1. simpl. destruct (mapM _ draws); reflexivity.
  - (* label filter *)
    unfold with_labels. rewrite Hw0. unfold weights_opt at 1. simpl.
    unfold nsamples in Hnt. rewrite wl_loop_ill by (symmetry; exact Hnt).
    assert (K : kept_rows A B W Nm beq labels d = kidx (any_in B beq labels) 0 (d_tgts d)).
    { unfold kept_rows, all_rows, nsamples. rewrite <- Hnt. apply (filter_seq_kidx (any_in B beq labels) [] (d_tgts d)). }
    rewrite K. destruct (forallb _ (kidx _ 0 (d_tgts d))).
    2:{ destruct (wl_loop A B W beq labels None 0 _ _) as [[[[rs ts] w0] m]|]; [|reflexivity].
        unfold ntargets; simpl. destruct (from_shape_vec _ _ (concat rs)); [|reflexivity].
        destruct (from_shape_vec _ _ (concat ts)); reflexivity. }
    unfold ntargets; simpl.
    destruct (wl_loop A B W beq labels None 0 _ _) as [[[[rs ts] w0] m]|] eqn:El; [|reflexivity].
    assert (Ew0 : w0 = []).
    { revert El. generalize (repeat (@nil (B * nat)) (if d_t1 d then 1 else d_nt d)). generalize 0.
      generalize (combine (d_recs d) (d_tgts d)). clear. intros rows. revert rs ts w0 m.
      induction rows as [|[r t] rows IH]; intros rs ts w0 m i maps; simpl.
      - intros H; inversion H; reflexivity.
      - destruct (any_in B beq labels t); [|apply IH].
        destruct (wl_loop A B W beq labels None (S i) rows _) as [[[[rs1 ts1] w1] m1]|] eqn:E; [|discriminate].
        intros H; inversion H; subst. simpl. eapply IH; eauto. }
    subst w0.
    destruct (from_shape_vec _ _ (concat rs)); [|reflexivity]. destruct (from_shape_vec _ _ (concat ts)); reflexivity.
  - (* one-vs-all *)
    unfold one_vs_all. simpl. destruct (d_t1 d); simpl; [|reflexivity].
    destruct (column 0 (d_tgts d)) as [col|]; [|reflexivity].
    apply mapM_set_ws. intros lab. unfold with_names, new_ds. simpl.
    destruct (names_ok Nm (d_fn d) (d_nf d) && names_ok Nm (d_tn d) _); reflexivity.
  - reflexivity.
  - unfold view, with_names, new_ds. simpl.
    destruct (names_ok Nm (d_fn d) (d_nf d) && names_ok Nm (d_tn d) _); reflexivity.
  - reflexivity.
  - unfold into_single_target. simpl. destruct (d_t1 d); simpl; [reflexivity|].
    unfold nsamples; simpl. destruct (Nat.eqb _ _); reflexivity.
  - unfold sample_iter. simpl. unfold nsamples; simpl.
    destruct (select (d_recs d) _); [|reflexivity]. destruct (select (d_tgts d) _); reflexivity.
  - unfold feature_iter. simpl. apply mapM_set_ws. intros j. unfold feature_iter1. simpl.
    destruct (select_cols (d_recs d) [j]); [|reflexivity].
    destruct (if Nat.eqb (length (d_fn d)) 1 then _ else _); reflexivity.
  - unfold target_iter. unfold ntargets. simpl. apply mapM_set_ws. intros j. unfold target_iter1. simpl.
    destruct (d_t1 d); [reflexivity|]. destruct (select_cols (d_tgts d) [j]); [|reflexivity].
    destruct (match d_tn d with [] => _ | _ => _ end); reflexivity.
  - unfold sample_chunks. simpl. destruct size; [reflexivity|].
    unfold nsamples, chunk1; simpl. destruct (mapM _ _); reflexivity.
Qed.

End Weights.

(** * Examples: the hypotheses are satisfiable, the models run on real recorded words *)
Local Open Scope N_scope.

(* words that Xoshiro256Plus returned inside `indices.shuffle(rng)` for 8 samples (a run of the harness)
   and the permutation the implementation produced from them *)
Example ex_fisher_yates :
  fisher_yates 8 [W32 704109776; W32 3498884968; W32 3809831239; W32 2153366064; W32 3652671668; W32 3329088509; W32 344796807]
  = Some ([7; 0; 4; 3; 2; 6; 5; 1]%nat, []).
Proof. vm_compute. reflexivity. Qed.

(* two samples: the first word falls outside the acceptance zone and is thrown away, as rand does *)
Example ex_fisher_yates_rejects : fisher_yates 2 [W32 1873250928; W32 2222017490] = Some ([0; 1]%nat, []).
Proof. vm_compute. reflexivity. Qed.

(* `bootstrap_samples(3, rng)` taken twice on 4 samples: 6 indices from 11 words (5 rejections) *)
Example ex_bootstrap_draws :
  draws_single 2 3 4 [W64 11380476321516352529; W64 13850447255738114579; W64 7484457284639133250; W64 12433128626433225862;
                      W64 13053385766067566978; W64 1061960564305516947; W64 11622456536471348806; W64 15394906103543042956;
                      W64 13325378947309890873; W64 11265360412577662599; W64 14320295646970677554]
  = Some ([[2; 3; 0]; [3; 2; 3]]%nat, []).
Proof. vm_compute. reflexivity. Qed.

(* an empty range panics before a word is drawn; a word of the wrong width does not replay *)
Example ex_empty_range : gen_range_usize 0 [W64 5] = None /\ gen_index 3 [W64 5] = None.
Proof. split; reflexivity. Qed.

(* four samples, two features, 1-D targets, weights 1/2, 3/2, 5/2, 7/2 (written 2w) *)
Definition ex_d4 : dset N N N N :=
  mkD 2 1 true [[0; 1]; [64; 65]; [128; 129]; [192; 193]] [[0]; [1]; [2]; [3]] [1; 3; 5; 7] [] [].
Example ex_wf4 : WF N N N N ex_d4.
Proof. apply wf_WF. reflexivity. Qed.

(* the same dataset with its weight array REVERSED in memory (`w.slice_move(s![..;-1])`) *)
Definition ex_l_rev : ldset N N N N :=
  mkL (mkA2 [0; 1; 64; 65; 128; 129; 192; 193] 0 4 2 2 1) (T1 (mkA1 [0; 1; 2; 3] 0 4 1)) (mkA1 [7; 5; 3; 1] 3 4 (-1)) [] [].
Example ex_l_rev_logical : ok_l N N N N ex_l_rev = true /\ logical N N N N ex_l_rev = Some ex_d4.
Proof. split; vm_compute; reflexivity. Qed.

(* records in Fortran order, targets strided (every second cell of a longer vector) *)
Definition ex_l_f : ldset N N N N :=
  mkL (mkA2 [0; 64; 128; 192; 1; 65; 129; 193] 0 4 2 1 4) (T1 (mkA1 [0; 9; 1; 9; 2; 9; 3; 9] 0 4 2)) (mkA1 [1; 3; 5; 7] 0 4 1) [] [].
Example ex_l_f_logical : ok_l N N N N ex_l_f = true /\ logical N N N N ex_l_f = Some ex_d4.
Proof. split; vm_compute; reflexivity. Qed.

(* records in standard layout but owning a longer raw vector (`a.slice_move(s![1.., ..])`) *)
Definition ex_l_off : ldset N N N N :=
  mkL (mkA2 [900; 901; 0; 1; 64; 65; 128; 129; 192; 193] 2 4 2 2 1) (T1 (mkA1 [0; 1; 2; 3] 0 4 1)) (mkA1 [1; 3; 5; 7] 0 4 1) [] [].
Example ex_l_off_logical : ok_l N N N N ex_l_off = true /\ logical N N N N ex_l_off = Some ex_d4.
Proof. split; vm_compute; reflexivity. Qed.

Definition ex_half : spec_float := b32_of_bits 1056964608%Z.

(* the owned split refuses both (the second although `is_standard_layout()` holds); every other
   operation - here the view split and the label filter - returns what it returns on the logical contents *)
Example ex_layout_guard :
  layout_rejects N N N N (OpSplitOwned ex_half) ex_l_f = true /\
  layout_rejects N N N N (OpSplitOwned ex_half) ex_l_off = true /\
  apply_l N N N N N.eqb ofbN true (OpSplitOwned ex_half) ex_l_f = None /\
  apply_l N N N N N.eqb ofbN true (OpSplitOwned ex_half) ex_l_off = None /\
  apply_l N N N N N.eqb ofbN true (OpSplitView ex_half) ex_l_f = apply N N N N N.eqb ofbN (OpSplitView ex_half) ex_d4 /\
  apply_l N N N N N.eqb ofbN true (OpWithLabels [3; 0]) ex_l_f = apply N N N N N.eqb ofbN (OpWithLabels [3; 0]) ex_d4 /\
  apply N N N N N.eqb ofbN (OpSplitView ex_half) ex_d4 <> None.
Proof. repeat split; try (vm_compute; reflexivity). vm_compute. discriminate. Qed.

(** the weights of the owned split are NOT protected by a layout test (finding F-C02-1): with the
    reversed weight array the code as it stands ([raw_w = true]) returns - sizes consistent - the first
    two samples with the weights 7/2 and 5/2 of the LAST two; with the repair it returns 1/2 and 3/2 *)
Theorem split_owned_raw_weights_refuted :
  exists (l : ldset N N N N) d ratio outs,
    ok_l N N N N l = true /\ logical N N N N l = Some d /\ WF N N N N d /\
    split_owned_l N N N N true ratio l = Some outs /\
    split_owned N N N N ratio d <> Some outs /\
    map (fun r => d_ws (o_ds r)) outs = [[7; 5]; [3; 1]] /\
    option_map (map (fun r => d_ws (o_ds r))) (split_owned N N N N ratio d) = Some [[1; 3]; [5; 7]] /\
    split_owned_l N N N N false ratio l = split_owned N N N N ratio d.
Proof.
  exists ex_l_rev, ex_d4, ex_half.
  eexists. split; [vm_compute; reflexivity|]. split; [vm_compute; reflexivity|]. split; [exact ex_wf4|].
  split; [vm_compute; reflexivity|]. repeat split; try (vm_compute; reflexivity). vm_compute. discriminate.
Qed.

(* weights: the label filter keeps samples 3 and 0's weights... in the order of the samples *)
Example ex_weights_follow :
  option_map (map (fun r => (d_recs (o_ds r), d_ws (o_ds r)))) (apply N N N N N.eqb ofbN (OpWithLabels [3; 0]) ex_d4)
  = Some [([[0; 1]; [192; 193]], [1; 7])].
Proof. vm_compute. reflexivity. Qed.

(* an ill-formed weight vector (3 weights for 4 samples): the owned split leaves all three on the first
   part, the view split drops them, the label filter panics when it reaches sample 3, one-vs-all clones them *)
Definition ex_d4_ill : dset N N N N := set_ws N N N N ex_d4 [1; 3; 5].
Example ex_illformed :
  option_map (map (fun r => d_ws (o_ds r))) (apply N N N N N.eqb ofbN (OpSplitOwned ex_half) ex_d4_ill) = Some [[1; 3; 5]; []] /\
  option_map (map (fun r => d_ws (o_ds r))) (apply N N N N N.eqb ofbN (OpSplitView ex_half) ex_d4_ill) = Some [[]; []] /\
  apply N N N N N.eqb ofbN (OpWithLabels [3; 0]) ex_d4_ill = None /\
  option_map (map (fun r => d_ws (o_ds r))) (apply N N N N N.eqb ofbN (OpWithLabels [2; 0]) ex_d4_ill) = Some [[1; 5]] /\
  option_map (map (fun r => d_ws (o_ds r))) (apply N N N N N.eqb ofbN OpView ex_d4_ill) = Some [[1; 3; 5]].
Proof. repeat split; vm_compute; reflexivity. Qed.
