(** C02 - the index generation of rand 0.8 that the RNG-driven dataset operations use, as a function
    of the words the generator returned (recorded by the harness through a wrapping RngCore):

    - [rng.gen_range(0..n)] on usize ([bootstrap*]): [UniformInt::<usize>::sample_single_inclusive(0, n-1)]
      = widening multiply of a 64-bit word with the range, rejection when the low half exceeds the zone;
    - [SliceRandom::shuffle] ([shuffle]): [for i in (1..len).rev() { swap(i, gen_index(rng, i+1)) }] with
      [gen_index] = [gen_range(0..ubound as u32)] (32-bit words) whenever ubound <= u32::MAX.

    Definitions only; proofs are in C02/ProofsExt.v. *)
From Coq Require Import List NArith ZArith Bool Arith.
From LinfaVerif Require Import C02.Model.
Import ListNotations.

(** a recorded call of the generator: [next_u32] or [next_u64] and the value it returned
    ([WBytes]: a [fill_bytes] call of that length - none of the modelled algorithms makes one) *)
Inductive rword := W32 (v : N) | W64 (v : N) | WBytes (len : N).

Definition word_at (w : N) (x : rword) : option N :=
  match x with
  | W32 v => if N.eqb w 32 then Some (v mod 2 ^ 32)%N else None
  | W64 v => if N.eqb w 64 then Some (v mod 2 ^ 64)%N else None
  | WBytes _ => None
  end.

(* (range << range.leading_zeros()).wrapping_sub(1) at width w *)
Definition zone (w range : N) : N :=
  let lz := (w - N.size range)%N in
  ((N.shiftl range lz mod 2 ^ w + 2 ^ w - 1) mod 2 ^ w)%N.

(* sample_single_inclusive(0, range - 1) for 0 < range < 2^w: loop { v = rng.gen(); (hi, lo) = v.wmul(range);
   if lo <= zone { return hi } };  [None]: the recorded words do not fit (exhausted / other width) *)
Fixpoint sample_below (w range : N) (words : list rword) : option (N * list rword) :=
  match words with
  | [] => None
  | x :: rest =>
    match word_at w x with
    | None => None
    | Some v =>
      let p := (v * range)%N in
      if N.leb (p mod 2 ^ w) (zone w range) then Some ((p / 2 ^ w)%N, rest)
      else sample_below w range rest
    end
  end.

(* Rng::gen_range(0..n) at usize: `assert!(!range.is_empty(), "cannot sample empty range")` *)
Definition gen_range_usize (n : N) (words : list rword) : option (N * list rword) :=
  if N.eqb n 0 then None else sample_below 64 n words.

Definition u32_max : N := 4294967295%N.

(* rand::seq::gen_index *)
Definition gen_index (ubound : N) (words : list rword) : option (N * list rword) :=
  if N.leb ubound u32_max
  then (if N.eqb ubound 0 then None else sample_below 32 ubound words)
  else gen_range_usize ubound words.

(* slice.swap(i, j); out of bounds panics (never happens below) *)
Fixpoint upd {X} (l : list X) (i : nat) (x : X) : list X :=
  match l, i with
  | [], _ => []
  | _ :: r, 0 => x :: r
  | y :: r, S i' => y :: upd r i' x
  end.
Definition swap {X} (l : list X) (i j : nat) : option (list X) :=
  match nth_error l i, nth_error l j with
  | Some a, Some b => Some (upd (upd l i b) j a)
  | _, _ => None
  end.

(* for i in (1..len).rev(): the argument [i] counts down from len-1 to 1 *)
Fixpoint fy_loop (i : nat) (l : list nat) (words : list rword) : option (list nat * list rword) :=
  match i with
  | 0 => Some (l, words)
  | S i' =>
    match gen_index (N.of_nat (i + 1)) words with
    | None => None
    | Some (j, rest) =>
      match swap l i (N.to_nat j) with
      | None => None
      | Some l' => fy_loop i' l' rest
      end
    end
  end.

(* `let mut indices = (0..n).collect(); indices.shuffle(rng)` *)
Definition fisher_yates (n : nat) (words : list rword) : option (list nat * list rword) :=
  fy_loop (n - 1) (seq 0 n) words.

(* (0..k).map(|_| rng.gen_range(0..bound)).collect() *)
Fixpoint draw_many (k : nat) (bound : N) (words : list rword) : option (list nat * list rword) :=
  match k with
  | 0 => Some ([], words)
  | S k' =>
    match gen_range_usize bound words with
    | None => None
    | Some (v, rest) =>
      match draw_many k' bound rest with
      | Some (vs, rest') => Some (N.to_nat v :: vs, rest')
      | None => None
      end
    end
  end.

(* [iters] items of the bootstrap iterators, drawn one after the other from the same generator *)
Fixpoint draws_bootstrap (iters a b : nat) (n nf : N) (words : list rword)
  : option (list (list nat * list nat) * list rword) :=
  match iters with
  | 0 => Some ([], words)
  | S it =>
    match draw_many a n words with
    | None => None
    | Some (idx, r1) =>
      match draw_many b nf r1 with
      | None => None
      | Some (cidx, r2) =>
        match draws_bootstrap it a b n nf r2 with
        | Some (ds, r3) => Some ((idx, cidx) :: ds, r3)
        | None => None
        end
      end
    end
  end.

Fixpoint draws_single (iters k : nat) (bound : N) (words : list rword) : option (list (list nat) * list rword) :=
  match iters with
  | 0 => Some ([], words)
  | S it =>
    match draw_many k bound words with
    | None => None
    | Some (idx, r1) =>
      match draws_single it k bound r1 with
      | Some (ds, r2) => Some (idx :: ds, r2)
      | None => None
      end
    end
  end.

(** the RNG-driven operations with the generator's words instead of the drawn indices *)
Inductive rreq :=
| RShuffle
| RBootstrap (a b iters : nat)
| RBootSamples (k iters : nat)
| RBootFeatures (k iters : nat).

Section WithRng.
Variables A B W Nm : Type.
Variable beq : B -> B -> bool.
Variable of_bool : bool -> B.

(* the operation (with its drawn indices) that the request amounts to on [d] for these words, and
   the words left over *)
Definition replay (q : rreq) (d : dset A B W Nm) (words : list rword) : option (op B * list rword) :=
  match q with
  | RShuffle =>
      match fisher_yates (nsamples d) words with
      | Some (idx, rest) => Some (OpShuffle idx, rest) | None => None end
  | RBootstrap a b iters =>
      match draws_bootstrap iters a b (N.of_nat (nsamples d)) (N.of_nat (d_nf d)) words with
      | Some (ds, rest) => Some (OpBootstrap ds, rest) | None => None end
  | RBootSamples k iters =>
      match draws_single iters k (N.of_nat (nsamples d)) words with
      | Some (ds, rest) => Some (OpBootSamples ds, rest) | None => None end
  | RBootFeatures k iters =>
      match draws_single iters k (N.of_nat (d_nf d)) words with
      | Some (ds, rest) => Some (OpBootFeatures ds, rest) | None => None end
  end.

Definition apply_rng (q : rreq) (words : list rword) (d : dset A B W Nm) : option (list (out A B W Nm)) :=
  match replay q d words with
  | Some (o, _) => apply A B W Nm beq of_bool o d
  | None => None
  end.
End WithRng.
