(** C16 - property theorems (statements only; proofs are in C16/Proofs.v).
    Conventions: matrices are lists of rows, [rect p X] says every row has p entries, [col o j X] is
    column j, [Rmean] / [Rvar] are the mean and the population variance (ddof 0) of a column.
    Real-number theorems use the model at [R_ops] with [fmaR a b c = a*b + c]; [eps] is the absolute
    guard `F::EPSILON` of `abs_diff_eq!` (any non-negative real), [lay] the memory layout. *)
From Coq Require Import List NArith QArith Qreals Reals.
From LinfaVerif Require Import Common.Num Common.NdSum Common.QF C16.Model C16.Corr C16.Proofs.
Import ListNotations.
Local Open Scope R_scope.

(** standard scaling (with or without dividing by the deviation) centres every column *)
Theorem standard_mean_zero : forall eps lay ws p X s Y j, rect p X -> (j < p)%nat ->
  fit R_ops fmaR eps lay (Standard true ws) p X = FitOk s -> transform R_ops s X = Some Y ->
  Rmean (col R_ops j Y) = 0.
Proof. exact standard_mean_zero_R. Qed.

(** ... and gives unit variance to every column whose deviation exceeds the guard *)
Theorem standard_var_one : forall eps lay wm p X s Y j, rect p X -> (j < p)%nat ->
  fit R_ops fmaR eps lay (Standard wm true) p X = FitOk s -> transform R_ops s X = Some Y ->
  0 <= eps -> eps < R_sqrt.sqrt (Rvar (col R_ops j X)) ->
  Rvar (col R_ops j Y) = 1.
Proof. exact standard_var_one_R. Qed.

(** finding F14: without the hypothesis on the guard the statement is false - the non-constant column
    (0, 2^-52) keeps its variance - and inside the known class the column is exactly left unscaled *)
Theorem standard_var_one_refuted :
  exists X s Y, rect 1 X /\ fit R_ops fmaR eps64 RowMajor (Standard true true) 1 X = FitOk s /\
    transform R_ops s X = Some Y /\ (exists a b, In a (col R_ops 0 X) /\ In b (col R_ops 0 X) /\ a <> b) /\
    Rvar (col R_ops 0 Y) <> 1.
Proof. exact standard_var_one_refuted_R. Qed.

Theorem standard_known_class_unscaled : forall eps lay wm p X s Y j, rect p X -> (j < p)%nat ->
  fit R_ops fmaR eps lay (Standard wm true) p X = FitOk s -> transform R_ops s X = Some Y ->
  R_sqrt.sqrt (Rvar (col R_ops j X)) <= eps ->
  Rvar (col R_ops j Y) = Rvar (col R_ops j X).
Proof. exact standard_guard_unscaled_R. Qed.

(** the same guard in min-max and max-abs scaling (same known class): a column whose range / largest
    magnitude is at most eps is only shifted to the lower end, respectively left as it is *)
Theorem minmax_known_class_unscaled : forall eps lay lo hi p X s Y j, rect p X -> (j < p)%nat ->
  fit R_ops fmaR eps lay (MinMax lo hi) p X = FitOk s -> transform R_ops s X = Some Y ->
  col_max R_ops (col R_ops j X) - col_min R_ops (col R_ops j X) <= eps ->
  col R_ops j Y = map (fun x => (x - col_min R_ops (col R_ops j X)) * (hi - lo) + lo) (col R_ops j X).
Proof. exact minmax_guard_unscaled_R. Qed.

Theorem maxabs_known_class_unscaled : forall eps lay p X s Y j, rect p X -> (j < p)%nat ->
  fit R_ops fmaR eps lay MaxAbs p X = FitOk s -> transform R_ops s X = Some Y ->
  (forall x, In x (col R_ops j X) -> Rabs x <= eps) ->
  col R_ops j Y = col R_ops j X.
Proof. exact maxabs_guard_unscaled_R. Qed.

(** the fitted statistics are the exact ones: both summation orders give the mean, and ndarray's one-pass
    Welford recurrence (with its fused multiply-add) gives the population variance *)
Theorem fitted_statistics_exact : forall lay c, c <> [] ->
  col_mean R_ops lay c = Rmean c /\ col_var R_ops fmaR c = Rvar c.
Proof. exact fit_statistics_exact. Qed.

(** constant columns are only centred (image 0, or the constant itself when the mean is kept) *)
Theorem standard_constant_centred : forall eps lay wm ws p X s Y j c, rect p X -> (j < p)%nat ->
  fit R_ops fmaR eps lay (Standard wm ws) p X = FitOk s -> transform R_ops s X = Some Y ->
  (forall x, In x (col R_ops j X) -> x = c) ->
  forall y, In y (col R_ops j Y) -> y = if wm then 0 else c.
Proof. exact standard_constant_centred_R. Qed.

(** the no-mean variant keeps the column means, the no-std variant keeps the column variances *)
Theorem no_mean_keeps_mean : forall eps lay ws p X s Y j, rect p X -> (j < p)%nat ->
  fit R_ops fmaR eps lay (Standard false ws) p X = FitOk s -> transform R_ops s X = Some Y ->
  Rmean (col R_ops j Y) = Rmean (col R_ops j X).
Proof. exact no_mean_keeps_mean_R. Qed.

Theorem no_std_keeps_spread : forall eps lay wm p X s Y j, rect p X -> (j < p)%nat ->
  fit R_ops fmaR eps lay (Standard wm false) p X = FitOk s -> transform R_ops s X = Some Y ->
  Rvar (col R_ops j Y) = Rvar (col R_ops j X).
Proof. exact no_std_keeps_spread_R. Qed.

(** min-max scaling maps a column with two entries more than [eps] apart onto [lo, hi], both ends attained *)
Theorem minmax_range_attained : forall eps lay lo hi p X s Y j, rect p X -> (j < p)%nat ->
  fit R_ops fmaR eps lay (MinMax lo hi) p X = FitOk s -> transform R_ops s X = Some Y ->
  0 <= eps -> (exists a b, In a (col R_ops j X) /\ In b (col R_ops j X) /\ eps < b - a) ->
  lo <= hi /\ (forall y, In y (col R_ops j Y) -> lo <= y <= hi) /\
  In lo (col R_ops j Y) /\ In hi (col R_ops j Y).
Proof. exact minmax_range_attained_R. Qed.

(** max-abs scaling gives maximum absolute value one to a column with an entry above the guard *)
Theorem maxabs_one : forall eps lay p X s Y j, rect p X -> (j < p)%nat ->
  fit R_ops fmaR eps lay MaxAbs p X = FitOk s -> transform R_ops s X = Some Y ->
  0 <= eps -> (exists a, In a (col R_ops j X) /\ eps < Rabs a) ->
  (forall y, In y (col R_ops j Y) -> Rabs y <= 1) /\ exists y, In y (col R_ops j Y) /\ Rabs y = 1.
Proof. exact maxabs_one_R. Qed.

(** norm scaling: a row with a non-zero entry has a non-zero norm and is mapped to a row of norm one
    (L1, L2 and max norm); a row of zero norm is returned unchanged - in every arithmetic, floats included,
    so no division by zero happens (repair of finding F13) *)
Theorem norm_unit : forall k r, (exists x, In x r /\ x <> 0) ->
  row_norm R_ops k r <> 0 /\ row_norm R_ops k (norm_row R_ops k r) = 1.
Proof. intros k r H. pose proof (row_norm_nonzero k r H) as Hn. split; [exact Hn | exact (norm_unit_R k r Hn)]. Qed.

(** float level (binary64): the former open item is closed in C16/PropertiesFloat.v - [norm_finite_float] (every
    finite row is mapped to a finite row, all three norms, no input excluded), [norm_l1_max_unit_interval_float],
    [norm_l2_unit_interval_float] with its refutation outside the stated class (finding F51).  The zero-norm guard
    below holds in every arithmetic (no division by zero). *)
Theorem norm_zero_rows_unchanged : forall F (o : NumOps F) k r,
  eqb o (row_norm o k r) (zero o) = true -> norm_row o k r = r.
Proof. exact (@norm_zero_guard). Qed.

(** each fitted transform is one fixed function applied row by row (it does not look at the rest of the
    data it is applied to), so it commutes with row selection and reordering; in exact arithmetic the
    function is affine in every entry *)
Theorem transform_fixed : forall F (o : NumOps F) (s : scaler F), exists f : list F -> list F,
  forall p X Y, rect p X -> transform o s X = Some Y -> Y = map f X.
Proof. intros F o s. exists (tr_row o (meth s) (offsets s) (scales s)). exact (transform_is_map o s). Qed.

Theorem transform_affine_rowwise : forall F (o : NumOps F) s p X Y idx, rect p X ->
  transform o s X = Some Y -> (forall i, In i idx -> (i < length X)%nat) ->
  transform o s (select idx X) = Some (select idx Y).
Proof. exact (@transform_rowwise_any). Qed.

Theorem transform_entry_affine : forall m off sc, exists a b, forall x, tr_elem R_ops m off sc x = a * x + b.
Proof. exact transform_affine_R. Qed.

Theorem norm_and_whiten_rowwise : forall F (o : NumOps F) k mu W idx X,
  (forall i, In i idx -> (i < length X)%nat) ->
  norm_transform o k (select idx X) = select idx (norm_transform o k X) /\
  whiten_transform o mu W (select idx X) = select idx (whiten_transform o mu W X).
Proof. intros F o k mu W idx X H. split; [exact (norm_transform_rowwise o k idx X H) | exact (whiten_transform_rowwise o mu W idx X H)]. Qed.

(** dataset forms: only the records change; targets, weights, feature and target names pass through *)
Theorem metadata_passthrough : forall F T W (o : NumOps F) s (d d' : dataset (list (list F)) T W),
  transform_dataset o s d = Some d' ->
  transform o s (records d) = Some (records d') /\ targets d' = targets d /\ weights d' = weights d /\
  feature_names d' = feature_names d /\ target_names d' = target_names d.
Proof. exact (@transform_dataset_passthrough). Qed.

Theorem metadata_passthrough_norm_whiten : forall F T W (o : NumOps F) k mu Wm (d : dataset (list (list F)) T W),
  let dn := norm_transform_dataset o k d in let dw := whiten_transform_dataset o mu Wm d in
  (records dn = norm_transform o k (records d) /\ targets dn = targets d /\ weights dn = weights d /\
   feature_names dn = feature_names d /\ target_names dn = target_names d) /\
  (records dw = whiten_transform o mu Wm (records d) /\ targets dw = targets d /\ weights dw = weights d /\
   feature_names dw = feature_names d /\ target_names dw = target_names d).
Proof. intros. split; apply map_records_passthrough. Qed.

(** empty training data is rejected with NotEnoughSamples by every scaler variant, and only empty data is *)
Theorem empty_training_data_rejected : forall F (o : NumOps F) fma eps lay m p X,
  fit o fma eps lay m p X = NotEnoughSamples <-> X = [].
Proof. exact (@fit_rejects_only_empty). Qed.

(** whitening, per run (pattern B; the for-all-inputs statement from the contracts of the decompositions is in
    C16/PropertiesWhiten.v): whenever the checker accepts the published mean [mu], whitening matrix [W] and
    output [Y] for the data [X], then over the reals mu is the column mean within d, Y is (X - mu) W^T within
    d entrywise, and the sample covariance (ddof 1) of Y is the identity within d entrywise *)
Theorem whiten_ok_sound : forall p d X mu W Y, whiten_ok p d X mu W Y = true ->
  whiten_spec p (Q2R d) (mmap Q2R X) (map Q2R mu) (mmap Q2R W) (mmap Q2R Y).
Proof. exact whiten_ok_sound_R. Qed.
