(** C16 - lemmas about the scaler / whitening model.  Structural facts hold for every NumOps
    instance; the normalisation facts are proved for the real-number instance R_ops with
    fma a b c = a*b + c; the whitening checker is proved sound by mapping its exact rational
    computation to R. *)
From Coq Require Import List NArith ZArith Bool Reals Lra Lia Psatz.
From Coq Require Import QArith Qreals.
From LinfaVerif Require Import Common.Num Common.NdSum Common.QF C16.Model C16.Corr.
Import ListNotations.
Local Open Scope R_scope.

Definition fmaR (a b c : R) : R := a * b + c.
Notation oR := R_ops.

Definition Rmean (l : list R) : R := Rsum l / INR (length l).
Definition Rvar (l : list R) : R := Rsum (map (fun x => (x - Rmean l) * (x - Rmean l)) l) / INR (length l).
Definition rect {A} (p : nat) (X : list (list A)) : Prop := Forall (fun r => length r = p) X.

(** * Sums *)
Lemma fold_left_Rplus l : forall a, fold_left Rplus l a = a + Rsum l.
Proof. induction l as [|x l IH]; intros a; simpl; [lra|]. rewrite IH. lra. Qed.

Lemma seq_sum_R l : seq_sum oR l = Rsum l.
Proof. unfold seq_sum; cbn [add zero oR]. rewrite fold_left_Rplus. lra. Qed.

Lemma Rsum_app a b : Rsum (a ++ b) = Rsum a + Rsum b.
Proof. induction a as [|x a IH]; simpl; [lra|]. rewrite IH; lra. Qed.

Lemma chunks8_R : forall n xs p, (length xs <= n)%nat -> length p = 8%nat ->
  let '(p', rest) := chunks8 oR xs p in length p' = 8%nat /\ Rsum p' + Rsum rest = Rsum p + Rsum xs.
Proof.
  induction n as [|n IH]; intros xs p Hn Hp.
  - destruct xs; [|simpl in Hn; lia]. simpl. split; auto.
  - destruct xs as [|x0 [|x1 [|x2 [|x3 [|x4 [|x5 [|x6 [|x7 t]]]]]]]]; try (simpl; split; auto; fail).
    cbn [chunks8].
    destruct p as [|p0 [|p1 [|p2 [|p3 [|p4 [|p5 [|p6 [|p7 [|]]]]]]]]]; simpl in Hp; try lia.
    set (q := map _ _).
    specialize (IH t q). destruct (chunks8 oR t q) as [p' rest].
    assert (Hq : length q = 8%nat) by reflexivity.
    destruct IH as [H1 H2]; [simpl in Hn; lia | exact Hq |].
    split; [exact H1|]. rewrite H2. unfold q, Rsum. cbn. lra.
Qed.

Lemma usum_R l : usum oR l = Rsum l.
Proof.
  unfold usum. cbn [zero oR].
  pose proof (chunks8_R (length l) l [0;0;0;0;0;0;0;0] (le_n _) eq_refl) as H.
  destruct (chunks8 oR l [0;0;0;0;0;0;0;0]) as [p rest]. destruct H as [H1 H2].
  destruct p as [|p0 [|p1 [|p2 [|p3 [|p4 [|p5 [|p6 [|p7 [|]]]]]]]]]; simpl in H1; try lia.
  cbn [add oR]. rewrite fold_left_Rplus. simpl in H2. lra.
Qed.

Lemma col_sum_R lay c : col_sum oR lay c = Rsum c.
Proof. destruct lay; [apply seq_sum_R | apply usum_R]. Qed.

Lemma of_N_R n : of_N oR (N.of_nat n) = INR n.
Proof. cbn [of_N oR]. rewrite Nat2N.id. reflexivity. Qed.

Lemma col_mean_R lay c : col_mean oR lay c = Rmean c.
Proof. unfold col_mean, Rmean. rewrite col_sum_R, of_N_R. reflexivity. Qed.

(** * Welford's recurrence computes the exact mean and the exact centred sum of squares *)
Definition Rsq (l : list R) : R := Rsum (map (fun x => x * x) l).

Definition welford_inv (l : list R) (st : R * R * N) : Prop :=
  let '(m, s, i) := st in
  i = N.of_nat (length l) /\
  (l = [] -> m = 0 /\ s = 0) /\
  (l <> [] -> m = Rsum l / INR (length l) /\ s = Rsq l - Rsum l * Rsum l / INR (length l)).

Lemma INR_pos_S k : 0 < INR (S k).
Proof. apply lt_0_INR; lia. Qed.

Lemma INR_len_pos {A} (l : list A) : l <> [] -> 0 < INR (length l).
Proof. destruct l; [congruence|]. intros _. apply INR_pos_S. Qed.

Lemma welford_correct l : welford_inv l (welford oR fmaR l).
Proof.
  induction l as [|x l IH] using rev_ind.
  - simpl. repeat split; auto; congruence.
  - unfold welford in *. rewrite fold_left_app. cbn [fold_left].
    destruct (fold_left (welford_step oR fmaR) l (zero oR, zero oR, 0%N)) as [[m s] i].
    destruct IH as [Hi [IH0 IH1]]. unfold welford_step. cbn [add sub mul div of_N oR]. unfold fmaR.
    assert (Hc : INR (N.to_nat (N.succ i)) = INR (S (length l))).
    { rewrite Hi, N2Nat.inj_succ, Nat2N.id. reflexivity. }
    rewrite Hc. unfold welford_inv.
    assert (Hl : length (l ++ [x]) = S (length l)) by (rewrite app_length; simpl; lia).
    assert (Hs : Rsum (l ++ [x]) = Rsum l + x) by (rewrite Rsum_app; simpl; lra).
    assert (Hq : Rsq (l ++ [x]) = Rsq l + x * x).
    { unfold Rsq. rewrite map_app, Rsum_app. simpl. lra. }
    split; [rewrite Hi, Hl; lia|]. split; [intros E; destruct l; discriminate|]. intros _.
    rewrite Hl, Hs, Hq.
    destruct l as [|y l'].
    + destruct (IH0 eq_refl) as [-> ->]. unfold Rsq. simpl. split; field.
    + assert (Hne : y :: l' <> []) by congruence.
      destruct (IH1 Hne) as [-> ->]. remember (y :: l') as l.
      pose proof (INR_len_pos l Hne) as Hk.
      assert (Hk1 : INR (S (length l)) = INR (length l) + 1) by apply S_INR.
      rewrite Hk1. split; field; lra.
Qed.

Lemma Rsum_centred l a :
  Rsum (map (fun x => (x - a) * (x - a)) l) = Rsq l - 2 * a * Rsum l + INR (length l) * a * a.
Proof.
  unfold Rsq. induction l as [|x l IH]; [simpl; lra|].
  cbn [map Rsum fold_right length]. unfold Rsum in *. rewrite IH, S_INR. lra.
Qed.

Lemma col_var_R c : c <> [] -> col_var oR fmaR c = Rvar c.
Proof.
  intros Hc. unfold col_var, Rvar. pose proof (welford_correct c) as H.
  destruct (welford oR fmaR c) as [[m s] i]. destruct H as [_ [_ H]].
  destruct (H Hc) as [_ ->].
  rewrite of_N_R. cbn [sub div zero oR]. rewrite Rsum_centred. unfold Rmean.
  pose proof (INR_len_pos c Hc) as Hk. field. lra.
Qed.

Lemma Rvar_nonneg c : 0 <= Rvar c.
Proof.
  unfold Rvar. destruct c as [|x c'].
  - simpl. unfold Rdiv. rewrite Rinv_0. lra.
  - remember (x :: c') as c. assert (Hk : 0 < INR (length c)) by (subst c; apply INR_pos_S).
    apply Rmult_le_pos; [|left; apply Rinv_0_lt_compat; exact Hk].
    generalize (Rmean c). intros a. clear. unfold Rsum. induction c as [|y c IH]; simpl; [lra|]. pose proof (Rle_0_sqr (y - a)) as Hs. unfold Rsqr in Hs. lra.
Qed.

(** * Structure of fit / transform (any arithmetic where stated) *)
Section Structure.
Context {F : Type} (o : NumOps F).

Lemma nth_map_lt {A B} (f : A -> B) l j d d' : (j < length l)%nat -> nth j (map f l) d = f (nth j l d').
Proof. intros H. rewrite (nth_indep _ d (f d')) by (rewrite map_length; exact H). apply map_nth. Qed.

Lemma columns_length p X : length (columns o p X) = p.
Proof. unfold columns. rewrite map_length, seq_length. reflexivity. Qed.

Lemma nth_columns p X j d : (j < p)%nat -> nth j (columns o p X) d = col o j X.
Proof.
  intros H. unfold columns. rewrite (nth_map_lt _ _ _ _ 0%nat) by (rewrite seq_length; exact H).
  rewrite seq_nth by exact H. reflexivity.
Qed.

Lemma nth_tr_row m : forall offs scs row j d, (j < length offs)%nat -> (j < length scs)%nat -> (j < length row)%nat ->
  nth j (tr_row o m offs scs row) d = tr_elem o m (nth j offs d) (nth j scs d) (nth j row d).
Proof.
  induction offs as [|f offs IH]; intros scs row j d H1 H2 H3; [simpl in H1; lia|].
  destruct scs as [|s scs]; [simpl in H2; lia|]. destruct row as [|x row]; [simpl in H3; lia|].
  destruct j as [|j]; [reflexivity|]. simpl in *. apply IH; lia.
Qed.

Lemma tr_row_nil m offs scs : tr_row o m offs scs [] = [].
Proof. destruct offs; [reflexivity|]. destruct scs; reflexivity. Qed.

(** the fitted transform is one fixed function applied to every row *)
Lemma transform_is_map s p X Y : rect p X -> transform o s X = Some Y ->
  Y = map (tr_row o (meth s) (offsets s) (scales s)) X.
Proof.
  intros HX. unfold transform. destruct X as [|r0 X']; [intros H; inversion H; reflexivity|].
  destruct (Nat.eqb (length r0) 0) eqn:E0.
  - intros H; inversion H; subst Y. apply Nat.eqb_eq in E0.
    assert (Hp : p = 0%nat) by (inversion HX; subst; lia). subst p.
    symmetry. rewrite <- (map_id (r0 :: X')) at 2. apply map_ext_in. intros r Hr.
    unfold rect in HX. rewrite Forall_forall in HX. specialize (HX r Hr).
    destruct r; [apply tr_row_nil | discriminate].
  - destruct (_ && _); intros H; inversion H; reflexivity.
Qed.

Lemma transform_widths s r0 X Y : transform o s (r0 :: X) = Some Y -> length r0 <> 0%nat ->
  length (offsets s) = length r0 /\ length (scales s) = length r0.
Proof.
  unfold transform. intros H H0. apply Nat.eqb_neq in H0. rewrite H0 in H.
  destruct (Nat.eqb (length r0) (length (offsets s)) && Nat.eqb (length r0) (length (scales s))) eqn:E; [|discriminate].
  apply andb_true_iff in E as [E1 E2]. apply Nat.eqb_eq in E1, E2. lia.
Qed.

Lemma col_transform s p X Y j d : X <> [] -> rect p X -> (j < p)%nat -> transform o s X = Some Y ->
  map (fun r => nth j r d) Y = map (fun x => tr_elem o (meth s) (nth j (offsets s) d) (nth j (scales s) d) x) (map (fun r => nth j r d) X).
Proof.
  intros Hne HX Hj HT. pose proof (transform_is_map s p X Y HX HT) as ->.
  destruct X as [|r0 X']; [congruence|].
  assert (Hr0 : length r0 = p) by (inversion HX; auto).
  destruct (transform_widths s r0 X' _ HT) as [Ho Hs]; [lia|].
  rewrite !map_map. apply map_ext_in. intros r Hr.
  unfold rect in HX. rewrite Forall_forall in HX. specialize (HX r Hr).
  apply nth_tr_row; lia.
Qed.

Lemma fit_ok_inv fma eps lay m p X s : fit o fma eps lay m p X = FitOk s ->
  X <> [] /\ meth s = m /\ length (offsets s) = p /\ length (scales s) = p.
Proof.
  unfold fit. destruct X as [|r X']; [discriminate|]. intros H. split; [congruence|].
  destruct m as [wm ws|lo hi|].
  - inversion H; subst s; cbn. repeat split.
    + rewrite map_length. apply columns_length.
    + destruct ws; [rewrite map_length; apply columns_length | apply repeat_length].
  - destruct (ltb o hi lo); [discriminate|]. inversion H; subst s; cbn.
    repeat split; rewrite map_length; apply columns_length.
  - inversion H; subst s; cbn. repeat split; [apply repeat_length | rewrite map_length; apply columns_length].
Qed.

Lemma fit_empty fma eps lay m p : fit o fma eps lay m p [] = NotEnoughSamples.
Proof. reflexivity. Qed.

Lemma fit_rejects_only_empty fma eps lay m p X : fit o fma eps lay m p X = NotEnoughSamples <-> X = [].
Proof.
  split; [|intros ->; reflexivity]. unfold fit. destruct X as [|r X']; [auto|].
  destruct m as [wm ws|lo hi|]; try discriminate. destruct (ltb o hi lo); discriminate.
Qed.

End Structure.

(** * Means and variances of affine images *)
Lemma Rsum_map_affine l a b : Rsum (map (fun x => a * x + b) l) = a * Rsum l + INR (length l) * b.
Proof. unfold Rsum. induction l as [|x l IH]; [simpl; lra|]. cbn [map fold_right length]. rewrite IH, S_INR. lra. Qed.

Lemma Rmean_affine l a b : l <> [] -> Rmean (map (fun x => a * x + b) l) = a * Rmean l + b.
Proof.
  intros H. unfold Rmean. rewrite map_length, Rsum_map_affine. pose proof (INR_len_pos l H). field. lra.
Qed.

Lemma Rvar_affine l a b : l <> [] -> Rvar (map (fun x => a * x + b) l) = a * a * Rvar l.
Proof.
  intros H. unfold Rvar. rewrite (Rmean_affine l a b H), map_length, map_map.
  assert (E : Rsum (map (fun x => (a * x + b - (a * Rmean l + b)) * (a * x + b - (a * Rmean l + b))) l)
              = a * a * Rsum (map (fun x => (x - Rmean l) * (x - Rmean l)) l)).
  { generalize (Rmean l). intros m. unfold Rsum. clear H. induction l as [|x l IH]; [simpl; lra|].
    cbn [map fold_right]. rewrite IH. lra. }
  rewrite E. pose proof (INR_len_pos l H). field. lra.
Qed.

Lemma map_ext_eq {A B} (f g : A -> B) l : (forall x, f x = g x) -> map f l = map g l.
Proof. intros H. apply map_ext. exact H. Qed.

Lemma nth_repeat_lt {A} (x d : A) p : forall j, (j < p)%nat -> nth j (repeat x p) d = x.
Proof. induction p as [|p IH]; intros j Hj; [lia|]. destruct j; simpl; auto. apply IH; lia. Qed.

(** * Standard scaler *)
Section Standard.
Context (eps : R) (lay : layout).

Lemma std_offsets wm ws p X s j : (j < p)%nat ->
  fit oR fmaR eps lay (Standard wm ws) p X = FitOk s -> nth j (offsets s) 0 = Rmean (col oR j X).
Proof.
  intros Hj. unfold fit. destruct X as [|r X']; [discriminate|]. intros H; inversion H; subst s; cbn [offsets].
  rewrite (nth_map_lt _ _ _ _ []) by (rewrite columns_length; exact Hj).
  rewrite nth_columns by exact Hj. apply col_mean_R.
Qed.

Lemma std_scales_on wm p X s j : (j < p)%nat ->
  fit oR fmaR eps lay (Standard wm true) p X = FitOk s ->
  nth j (scales s) 0 = inv_or_one oR eps (R_sqrt.sqrt (Rvar (col oR j X))).
Proof.
  intros Hj. unfold fit. destruct X as [|r X'] eqn:EX; [discriminate|]. rewrite <- EX.
  intros H; inversion H; subst s; cbn [scales].
  rewrite (nth_map_lt _ _ _ _ []) by (rewrite columns_length; exact Hj).
  rewrite nth_columns by exact Hj. unfold col_std. rewrite col_var_R; [reflexivity|].
  unfold col. rewrite EX. discriminate.
Qed.

Lemma std_scales_off wm p X s j : (j < p)%nat ->
  fit oR fmaR eps lay (Standard wm false) p X = FitOk s -> nth j (scales s) 0 = 1.
Proof.
  intros Hj. unfold fit. destruct X as [|r X']; [discriminate|]. intros H; inversion H; subst s; cbn [scales one oR].
  apply nth_repeat_lt; exact Hj.
Qed.

Lemma col_nonempty {F} (o : NumOps F) j (X : list (list F)) : X <> [] -> col o j X <> [].
Proof. destruct X; [congruence|]. discriminate. Qed.

(** image column of the fitted standard scaler *)
Lemma std_col wm ws p X s Y j : rect p X -> (j < p)%nat ->
  fit oR fmaR eps lay (Standard wm ws) p X = FitOk s -> transform oR s X = Some Y ->
  col oR j Y = map (fun x => nth j (scales s) 0 * x
                             + ((if wm then 0 else Rmean (col oR j X)) - Rmean (col oR j X) * nth j (scales s) 0))
                   (col oR j X).
Proof.
  intros HX Hj HF HT. destruct (fit_ok_inv oR _ _ _ _ _ _ _ HF) as [Hne [Hm _]].
  unfold col. cbn [zero oR]. rewrite (col_transform oR s p X Y j 0 Hne HX Hj HT).
  rewrite Hm, (std_offsets wm ws p X s j Hj HF). apply map_ext_eq. intros x.
  unfold col. cbn [zero oR]. destruct wm; cbn [tr_elem add sub mul oR]; lra.
Qed.

Theorem standard_mean_zero_R ws p X s Y j : rect p X -> (j < p)%nat ->
  fit oR fmaR eps lay (Standard true ws) p X = FitOk s -> transform oR s X = Some Y ->
  Rmean (col oR j Y) = 0.
Proof.
  intros HX Hj HF HT. destruct (fit_ok_inv oR _ _ _ _ _ _ _ HF) as [Hne _].
  rewrite (std_col true ws p X s Y j HX Hj HF HT), Rmean_affine by (apply col_nonempty; exact Hne). lra.
Qed.

Theorem no_mean_keeps_mean_R ws p X s Y j : rect p X -> (j < p)%nat ->
  fit oR fmaR eps lay (Standard false ws) p X = FitOk s -> transform oR s X = Some Y ->
  Rmean (col oR j Y) = Rmean (col oR j X).
Proof.
  intros HX Hj HF HT. destruct (fit_ok_inv oR _ _ _ _ _ _ _ HF) as [Hne _].
  rewrite (std_col false ws p X s Y j HX Hj HF HT), Rmean_affine by (apply col_nonempty; exact Hne). lra.
Qed.

Theorem standard_var_one_R wm p X s Y j : rect p X -> (j < p)%nat ->
  fit oR fmaR eps lay (Standard wm true) p X = FitOk s -> transform oR s X = Some Y ->
  0 <= eps -> eps < R_sqrt.sqrt (Rvar (col oR j X)) ->
  Rvar (col oR j Y) = 1.
Proof.
  intros HX Hj HF HT He Hg. destruct (fit_ok_inv oR _ _ _ _ _ _ _ HF) as [Hne _].
  rewrite (std_col wm true p X s Y j HX Hj HF HT), Rvar_affine by (apply col_nonempty; exact Hne).
  rewrite (std_scales_on wm p X s j Hj HF). unfold inv_or_one, abs_diff_eq0. cbn [leb abs sub zero one div oR].
  set (v := Rvar (col oR j X)) in *. pose proof (Rvar_nonneg (col oR j X)) as Hv. fold v in Hv.
  pose proof (sqrt_pos v) as Hs.
  assert (Hlb : Rleb (Rabs (R_sqrt.sqrt v - 0)) eps = false).
  { apply Rleb_false. rewrite Rminus_0_r, Rabs_right; lra. }
  rewrite Hlb. assert (Hpos : 0 < R_sqrt.sqrt v) by lra.
  assert (E : R_sqrt.sqrt v * R_sqrt.sqrt v = v) by (apply sqrt_sqrt; exact Hv).
  rewrite <- E at 3. field. lra.
Qed.

Theorem no_std_keeps_spread_R wm p X s Y j : rect p X -> (j < p)%nat ->
  fit oR fmaR eps lay (Standard wm false) p X = FitOk s -> transform oR s X = Some Y ->
  Rvar (col oR j Y) = Rvar (col oR j X).
Proof.
  intros HX Hj HF HT. destruct (fit_ok_inv oR _ _ _ _ _ _ _ HF) as [Hne _].
  rewrite (std_col wm false p X s Y j HX Hj HF HT), Rvar_affine by (apply col_nonempty; exact Hne).
  rewrite (std_scales_off wm p X s j Hj HF). lra.
Qed.

Lemma Rmean_const l c : l <> [] -> (forall x, In x l -> x = c) -> Rmean l = c.
Proof.
  intros Hne H. unfold Rmean. assert (E : Rsum l = INR (length l) * c).
  { clear Hne. unfold Rsum. induction l as [|x l IH]; [simpl; lra|]. cbn [fold_right length]. rewrite S_INR, IH.
    - rewrite (H x (or_introl eq_refl)). lra.
    - intros y Hy. apply H. right; exact Hy. }
  rewrite E. pose proof (INR_len_pos l Hne). field. lra.
Qed.

(** a constant column is only centred: its image is 0 (or, without centring, the constant itself) *)
Theorem standard_constant_centred_R wm ws p X s Y j c : rect p X -> (j < p)%nat ->
  fit oR fmaR eps lay (Standard wm ws) p X = FitOk s -> transform oR s X = Some Y ->
  (forall x, In x (col oR j X) -> x = c) ->
  forall y, In y (col oR j Y) -> y = if wm then 0 else c.
Proof.
  intros HX Hj HF HT Hc y Hy. destruct (fit_ok_inv oR _ _ _ _ _ _ _ HF) as [Hne _].
  rewrite (std_col wm ws p X s Y j HX Hj HF HT) in Hy. apply in_map_iff in Hy as [x [<- Hx]].
  rewrite (Rmean_const _ c (col_nonempty oR j X Hne) Hc), (Hc x Hx). destruct wm; lra.
Qed.

End Standard.

(** * Min-max scaler *)
Lemma fold_min_spec r : forall x,
  let m := fold_left (fun acc y => if ltb oR acc y then acc else y) r x in
  (m = x \/ In m r) /\ m <= x /\ forall y, In y r -> m <= y.
Proof.
  induction r as [|z r IH]; intros x; cbn [fold_left].
  - repeat split; auto; try lra. intros y [].
  - destruct (ltb oR x z) eqn:E; cbn [ltb oR] in E.
    + apply Rltb_true in E. destruct (IH x) as [H1 [H2 H3]]. repeat split.
      * destruct H1; [left; auto | right; right; auto].
      * exact H2.
      * intros y [<-|Hy]; [lra | auto].
    + apply Rltb_false in E. destruct (IH z) as [H1 [H2 H3]]. repeat split.
      * right. destruct H1 as [->|H1]; [left; auto | right; auto].
      * lra.
      * intros y [<-|Hy]; [lra | auto].
Qed.

Lemma fold_max_spec r : forall x,
  let m := fold_left (fun acc y => if ltb oR y acc then acc else y) r x in
  (m = x \/ In m r) /\ x <= m /\ forall y, In y r -> y <= m.
Proof.
  induction r as [|z r IH]; intros x; cbn [fold_left].
  - repeat split; auto; try lra. intros y [].
  - destruct (ltb oR z x) eqn:E; cbn [ltb oR] in E.
    + apply Rltb_true in E. destruct (IH x) as [H1 [H2 H3]]. repeat split.
      * destruct H1; [left; auto | right; right; auto].
      * exact H2.
      * intros y [<-|Hy]; [lra | auto].
    + apply Rltb_false in E. destruct (IH z) as [H1 [H2 H3]]. repeat split.
      * right. destruct H1 as [->|H1]; [left; auto | right; auto].
      * lra.
      * intros y [<-|Hy]; [lra | auto].
Qed.

Lemma col_min_spec c : c <> [] -> In (col_min oR c) c /\ forall y, In y c -> col_min oR c <= y.
Proof.
  destruct c as [|x r]; [congruence|]. intros _. unfold col_min.
  destruct (fold_min_spec r x) as [H1 [H2 H3]]. split.
  - destruct H1 as [->|H1]; [left; auto | right; auto].
  - intros y [<-|Hy]; auto.
Qed.

Lemma col_max_spec c : c <> [] -> In (col_max oR c) c /\ forall y, In y c -> y <= col_max oR c.
Proof.
  destruct c as [|x r]; [congruence|]. intros _. unfold col_max.
  destruct (fold_max_spec r x) as [H1 [H2 H3]]. split.
  - destruct H1 as [->|H1]; [left; auto | right; auto].
  - intros y [<-|Hy]; auto.
Qed.

Section MinMaxAbs.
Context (eps : R) (lay : layout).

Theorem minmax_range_attained_R lo hi p X s Y j : rect p X -> (j < p)%nat ->
  fit oR fmaR eps lay (MinMax lo hi) p X = FitOk s -> transform oR s X = Some Y ->
  0 <= eps -> (exists a b, In a (col oR j X) /\ In b (col oR j X) /\ eps < b - a) ->
  lo <= hi /\ (forall y, In y (col oR j Y) -> lo <= y <= hi) /\ In lo (col oR j Y) /\ In hi (col oR j Y).
Proof.
  intros HX Hj HF HT He [a [b [Ha [Hb Hab]]]].
  destruct (fit_ok_inv oR _ _ _ _ _ _ _ HF) as [Hne [Hm _]].
  assert (Hcol : col oR j Y = map (tr_elem oR (MinMax lo hi) (nth j (offsets s) 0) (nth j (scales s) 0)) (col oR j X)).
  { unfold col. cbn [zero oR]. rewrite (col_transform oR s p X Y j 0 Hne HX Hj HT), Hm. reflexivity. }
  revert HF. unfold fit. destruct X as [|r0 X'] eqn:EX; [discriminate|]. rewrite <- EX in *.
  cbn [ltb oR]. destruct (Rltb hi lo) eqn:Ehl; [discriminate|]. apply Rltb_false in Ehl.
  intros HF; inversion HF; subst s; clear HF. cbn [offsets scales] in Hcol.
  rewrite !(nth_map_lt _ _ _ _ []) in Hcol by (rewrite columns_length; exact Hj).
  rewrite nth_columns in Hcol by exact Hj.
  set (c := col oR j X) in *. assert (Hc : c <> []) by (apply col_nonempty; rewrite EX; discriminate).
  destruct (col_min_spec c Hc) as [Hmin1 Hmin2]. destruct (col_max_spec c Hc) as [Hmax1 Hmax2].
  set (mn := col_min oR c) in *. set (mx := col_max oR c) in *.
  assert (Hd : eps < mx - mn) by (pose proof (Hmin2 a Ha); pose proof (Hmax2 b Hb); lra).
  assert (Hsc : minmax_scale oR eps c = 1 / (mx - mn)).
  { unfold minmax_scale, abs_diff_eq0. fold mn mx. cbn [leb abs sub zero one div oR].
    assert (E : Rleb (Rabs (mx - mn - 0)) eps = false).
    { apply Rleb_false. rewrite Rminus_0_r, Rabs_right; lra. }
    rewrite E. reflexivity. }
  rewrite Hsc in Hcol. rewrite Hcol. split; [exact Ehl|].
  assert (Hy : forall x, tr_elem oR (MinMax lo hi) mn (1 / (mx - mn)) x = (x - mn) / (mx - mn) * (hi - lo) + lo).
  { intros x. cbn [tr_elem add sub mul oR]. field. lra. }
  split; [|split].
  - intros y Hin. apply in_map_iff in Hin as [x [<- Hx]]. rewrite Hy.
    pose proof (Hmin2 x Hx). pose proof (Hmax2 x Hx).
    assert (Ht0 : 0 <= (x - mn) / (mx - mn)) by (apply Rmult_le_pos; [lra | left; apply Rinv_0_lt_compat; lra]).
    assert (Ht1 : (x - mn) / (mx - mn) <= 1).
    { apply (Rmult_le_reg_r (mx - mn)); [lra|]. unfold Rdiv. rewrite Rmult_assoc, Rinv_l; lra. }
    split; nra.
  - apply in_map_iff. exists mn. split; [|exact Hmin1]. rewrite Hy. unfold Rdiv. lra.
  - apply in_map_iff. exists mx. split; [|exact Hmax1]. rewrite Hy. field. lra.
Qed.

(** * Max-abs scaler *)
Lemma fmax_R a b : fmax oR a b = Rmax b a.
Proof.
  unfold fmax. cbn [eqb ltb oR].
  assert (Ea : Reqb a a = true) by (apply Reqb_true; reflexivity).
  assert (Eb : Reqb b b = true) by (apply Reqb_true; reflexivity).
  rewrite Ea, Eb. destruct (Rltb a b) eqn:E.
  - apply Rltb_true in E. rewrite Rmax_left; lra.
  - apply Rltb_false in E. rewrite Rmax_right; lra.
Qed.

Lemma norm_max_fold_spec c : forall f0, 0 <= f0 ->
  let M := fold_left (fun f v => fmax oR (abs oR v) f) c f0 in
  f0 <= M /\ (forall x, In x c -> Rabs x <= M) /\ (M = f0 \/ exists x, In x c /\ Rabs x = M).
Proof.
  induction c as [|z c IH]; intros f0 H0; cbn [fold_left].
  - repeat split; auto; try lra. intros x [].
  - rewrite fmax_R. change (abs oR z) with (Rabs z).
    assert (Hm : 0 <= Rmax f0 (Rabs z)) by (pose proof (Rmax_l f0 (Rabs z)); lra).
    destruct (IH _ Hm) as [H1 [H2 H3]]. pose proof (Rmax_l f0 (Rabs z)). pose proof (Rmax_r f0 (Rabs z)).
    repeat split.
    + lra.
    + intros x [<-|Hx]; [lra | auto].
    + destruct H3 as [H3|[x [Hx1 Hx2]]].
      * destruct (Rle_dec f0 (Rabs z)).
        -- right. exists z. split; [left; auto|]. rewrite H3, Rmax_right; auto.
        -- left. rewrite H3, Rmax_left; lra.
      * right. exists x. split; [right; auto | auto].
Qed.

Lemma norm_max_spec c : 0 <= norm_max oR c /\ (forall x, In x c -> Rabs x <= norm_max oR c) /\
  (norm_max oR c = 0 \/ exists x, In x c /\ Rabs x = norm_max oR c).
Proof. unfold norm_max. cbn [zero oR]. apply (norm_max_fold_spec c 0). lra. Qed.

Theorem maxabs_one_R p X s Y j : rect p X -> (j < p)%nat ->
  fit oR fmaR eps lay MaxAbs p X = FitOk s -> transform oR s X = Some Y ->
  0 <= eps -> (exists a, In a (col oR j X) /\ eps < Rabs a) ->
  (forall y, In y (col oR j Y) -> Rabs y <= 1) /\ exists y, In y (col oR j Y) /\ Rabs y = 1.
Proof.
  intros HX Hj HF HT He [a [Ha Hab]].
  destruct (fit_ok_inv oR _ _ _ _ _ _ _ HF) as [Hne [Hm _]].
  assert (Hcol : col oR j Y = map (tr_elem oR MaxAbs (nth j (offsets s) 0) (nth j (scales s) 0)) (col oR j X)).
  { unfold col. cbn [zero oR]. rewrite (col_transform oR s p X Y j 0 Hne HX Hj HT), Hm. reflexivity. }
  revert HF. unfold fit. destruct X as [|r0 X'] eqn:EX; [discriminate|]. rewrite <- EX in *.
  intros HF; inversion HF; subst s; clear HF. cbn [offsets scales] in Hcol.
  rewrite (nth_map_lt _ _ _ _ []) in Hcol by (rewrite columns_length; exact Hj).
  rewrite nth_columns in Hcol by exact Hj. cbn [zero oR] in Hcol. rewrite nth_repeat_lt in Hcol by exact Hj.
  set (c := col oR j X) in *. destruct (norm_max_spec c) as [HM0 [HM1 HM2]]. set (M := norm_max oR c) in *.
  assert (HMa : eps < M) by (pose proof (HM1 a Ha); lra).
  assert (Hsc : inv_or_one oR eps M = 1 / M).
  { unfold inv_or_one, abs_diff_eq0. cbn [leb abs sub zero one div oR].
    assert (E : Rleb (Rabs (M - 0)) eps = false) by (apply Rleb_false; rewrite Rminus_0_r, Rabs_right; lra).
    rewrite E. reflexivity. }
  rewrite Hsc in Hcol. rewrite Hcol.
  assert (Hy : forall x, Rabs (tr_elem oR MaxAbs 0 (1 / M) x) = Rabs x / M).
  { intros x. cbn [tr_elem sub mul oR]. rewrite Rminus_0_r. unfold Rdiv. rewrite Rmult_1_l, Rabs_mult.
    rewrite (Rabs_right (/ M)); [reflexivity|]. left. apply Rinv_0_lt_compat. lra. }
  split.
  - intros y Hin. apply in_map_iff in Hin as [x [<- Hx]]. rewrite Hy. pose proof (HM1 x Hx).
    apply (Rmult_le_reg_r M); [lra|]. unfold Rdiv. rewrite Rmult_assoc, Rinv_l; lra.
  - destruct HM2 as [HM2|[x [Hx1 Hx2]]]; [lra|].
    exists (tr_elem oR MaxAbs 0 (1 / M) x). split; [apply in_map; exact Hx1|]. rewrite Hy, Hx2. field. lra.
Qed.

End MinMaxAbs.

(** * Norm scaler *)
(** in every arithmetic: a row whose norm is zero is returned as it is (no division happens) *)
Lemma norm_zero_guard {F} (o : NumOps F) k r : eqb o (row_norm o k r) (zero o) = true -> norm_row o k r = r.
Proof. unfold norm_row. intros ->. reflexivity. Qed.

Lemma Rsum_nonneg l : (forall x, In x l -> 0 <= x) -> 0 <= Rsum l.
Proof.
  unfold Rsum. induction l as [|x l IH]; intros H; simpl; [lra|].
  pose proof (H x (or_introl eq_refl)). assert (0 <= fold_right Rplus 0 l) by (apply IH; intros y Hy; apply H; right; auto). lra.
Qed.

Lemma Rsum_ge_elem l x : (forall y, In y l -> 0 <= y) -> In x l -> x <= Rsum l.
Proof.
  unfold Rsum. induction l as [|z l IH]; intros H [].
  - subst z. simpl. assert (0 <= fold_right Rplus 0 l) by (apply (Rsum_nonneg l); intros y Hy; apply H; right; auto). lra.
  - simpl. pose proof (H z (or_introl eq_refl)). assert (x <= fold_right Rplus 0 l) by (apply IH; auto; intros y Hy; apply H; right; auto). lra.
Qed.

Lemma sqsum_nonneg r : 0 <= Rsum (map (fun x => x * x) r).
Proof. apply Rsum_nonneg. intros y Hy. apply in_map_iff in Hy as [x [<- _]]. nra. Qed.

Lemma row_norm_nonneg k r : 0 <= row_norm oR k r.
Proof.
  destruct k; cbn [row_norm].
  - unfold norm_l1. rewrite seq_sum_R. apply Rsum_nonneg. intros y Hy. apply in_map_iff in Hy as [x [<- _]]. apply Rabs_pos.
  - unfold norm_l2. cbn [sqrt oR]. apply sqrt_pos.
  - apply norm_max_spec.
Qed.

(** every entry is bounded by the norm, so a row with a non-zero entry has a non-zero norm *)
Lemma row_norm_bounds k r x : In x r -> Rabs x <= row_norm oR k r.
Proof.
  intros Hx. destruct k; cbn [row_norm].
  - unfold norm_l1. rewrite seq_sum_R. apply Rsum_ge_elem.
    + intros y Hy. apply in_map_iff in Hy as [z [<- _]]. apply Rabs_pos.
    + apply in_map. exact Hx.
  - unfold norm_l2. cbn [sqrt oR mul]. rewrite seq_sum_R.
    rewrite <- (sqrt_Rsqr (Rabs x)) by apply Rabs_pos. apply sqrt_le_1_alt.
    unfold Rsqr. rewrite <- Rabs_mult, Rabs_right by nra.
    apply (Rsum_ge_elem (map (fun x => x * x) r) (x * x)).
    + intros y Hy. apply in_map_iff in Hy as [z [<- _]]. nra.
    + apply in_map_iff. exists x. auto.
  - apply norm_max_spec. exact Hx.
Qed.

Lemma row_norm_nonzero k r : (exists x, In x r /\ x <> 0) -> row_norm oR k r <> 0.
Proof.
  intros [x [Hx Hn]]. pose proof (row_norm_bounds k r x Hx). pose proof (Rabs_pos_lt x Hn). lra.
Qed.

Lemma norm_max_scale c d : 0 < d -> forall f0,
  fold_left (fun f v => fmax oR (abs oR v) f) (map (fun el => el / d) c) (f0 / d)
  = fold_left (fun f v => fmax oR (abs oR v) f) c f0 / d.
Proof.
  intros Hd. induction c as [|z c IH]; intros f0; cbn [map fold_left]; [reflexivity|].
  rewrite <- IH. f_equal. rewrite !fmax_R. change (abs oR (z / d)) with (Rabs (z / d)). change (abs oR z) with (Rabs z).
  unfold Rdiv. rewrite Rabs_mult, (Rabs_right (/ d)) by (left; apply Rinv_0_lt_compat; exact Hd).
  rewrite (Rmult_comm f0), (Rmult_comm (Rabs z)), RmaxRmult by (left; apply Rinv_0_lt_compat; exact Hd). apply Rmult_comm.
Qed.

Lemma row_norm_scale k r d : 0 < d -> row_norm oR k (map (fun el => el / d) r) = row_norm oR k r / d.
Proof.
  intros Hd. assert (Hi : 0 < / d) by (apply Rinv_0_lt_compat; exact Hd). destruct k; cbn [row_norm].
  - unfold norm_l1. rewrite !seq_sum_R, map_map. cbn [abs oR].
    unfold Rsum. induction r as [|x r IH]; simpl; [lra|]. rewrite IH. unfold Rdiv.
    rewrite Rabs_mult, (Rabs_right (/ d)) by lra. lra.
  - unfold norm_l2. cbn [sqrt oR mul]. rewrite !seq_sum_R, map_map.
    assert (E : Rsum (map (fun x => x / d * (x / d)) r) = Rsum (map (fun x => x * x) r) / (d * d)).
    { unfold Rsum. induction r as [|x r IH]; simpl; [lra|]. rewrite IH. field. lra. }
    rewrite E. apply sqrt_lem_1.
    + apply Rmult_le_pos; [apply sqsum_nonneg | left; apply Rinv_0_lt_compat; nra].
    + apply Rmult_le_pos; [apply sqrt_pos | lra].
    + pose proof (sqrt_sqrt _ (sqsum_nonneg r)) as Hs.
      transitivity (R_sqrt.sqrt (Rsum (map (fun x => x * x) r)) * R_sqrt.sqrt (Rsum (map (fun x => x * x) r)) / (d * d)); [field; lra|].
      rewrite Hs. reflexivity.
  - unfold norm_max. cbn [zero oR]. replace 0 with (0 / d) at 1 by (unfold Rdiv; lra). apply norm_max_scale. exact Hd.
Qed.

Theorem norm_unit_R k r : row_norm oR k r <> 0 -> row_norm oR k (norm_row oR k r) = 1.
Proof.
  intros Hn. unfold norm_row. cbn [eqb zero div oR].
  assert (E : Reqb (row_norm oR k r) 0 = false).
  { destruct (Reqb (row_norm oR k r) 0) eqn:E; [apply Reqb_true in E; contradiction | reflexivity]. }
  rewrite E. pose proof (row_norm_nonneg k r). rewrite row_norm_scale by lra. field. exact Hn.
Qed.

(** * Row-wise, fixed, affine *)
Definition select {A} (idx : list nat) (X : list (list A)) : list (list A) := map (fun i => nth i X []) idx.

Lemma select_map {A B} (f : list A -> list B) idx X : (forall i, In i idx -> (i < length X)%nat) ->
  select idx (map f X) = map f (select idx X).
Proof.
  intros H. unfold select. rewrite map_map. apply map_ext_in. intros i Hi.
  rewrite (nth_map_lt f X i [] []); auto.
Qed.

Lemma select_rect {A} p idx (X : list (list A)) : rect p X -> (forall i, In i idx -> (i < length X)%nat) -> rect p (select idx X).
Proof.
  intros HX H. unfold rect, select in *. rewrite Forall_forall in *. intros r Hr.
  apply in_map_iff in Hr as [i [<- Hi]]. apply HX. apply nth_In. auto.
Qed.

Theorem transform_rowwise_any {F} (o : NumOps F) s p X Y idx : rect p X -> transform o s X = Some Y ->
  (forall i, In i idx -> (i < length X)%nat) ->
  transform o s (select idx X) = Some (select idx Y).
Proof.
  intros HX HT Hidx. pose proof (transform_is_map o s p X Y HX HT) as HY. subst Y.
  rewrite select_map by exact Hidx.
  pose proof (select_rect p idx X HX Hidx) as HS.
  destruct (select idx X) as [|q0 S'] eqn:ES; [reflexivity|].
  assert (Hq0 : length q0 = p) by (inversion HS; auto).
  destruct X as [|r0 X']. { destruct idx as [|i idx']; [discriminate|]. specialize (Hidx i (or_introl eq_refl)). simpl in Hidx. lia. }
  assert (Hr0 : length r0 = p) by (inversion HX; auto).
  unfold transform in *. rewrite Hq0. rewrite Hr0 in HT.
  destruct (Nat.eqb p 0) eqn:E0.
  - apply Nat.eqb_eq in E0. f_equal. symmetry. rewrite <- (map_id (q0 :: S')) at 2. apply map_ext_in. intros r Hr.
    unfold rect in HS. rewrite Forall_forall in HS. specialize (HS r Hr). destruct r; [apply tr_row_nil | simpl in HS; lia].
  - destruct (Nat.eqb p (length (offsets s)) && Nat.eqb p (length (scales s))); [reflexivity | discriminate].
Qed.

Theorem transform_affine_R m off sc : exists a b, forall x, tr_elem oR m off sc x = a * x + b.
Proof.
  destruct m as [[|] ws|lo hi|]; cbn [tr_elem add sub mul oR].
  - exists sc, (- off * sc). intros; lra.
  - exists sc, (off - off * sc). intros; lra.
  - exists (sc * (hi - lo)), (lo - off * sc * (hi - lo)). intros; lra.
  - exists sc, (- off * sc). intros; lra.
Qed.

(** * Dataset forms *)
Lemma transform_dataset_passthrough {F T W} (o : NumOps F) s (d d' : dataset (list (list F)) T W) :
  transform_dataset o s d = Some d' ->
  transform o s (records d) = Some (records d') /\ targets d' = targets d /\ weights d' = weights d /\
  feature_names d' = feature_names d /\ target_names d' = target_names d.
Proof.
  unfold transform_dataset. destruct (transform o s (records d)) as [Y|]; [|discriminate].
  intros H; inversion H; subst d'. cbn. repeat split; reflexivity.
Qed.

Lemma map_records_passthrough {R R' T W} (f : R -> R') (d : dataset R T W) :
  records (map_records f d) = f (records d) /\ targets (map_records f d) = targets d /\
  weights (map_records f d) = weights d /\ feature_names (map_records f d) = feature_names d /\
  target_names (map_records f d) = target_names d.
Proof. cbn. repeat split; reflexivity. Qed.

(** * Soundness of the whitening checker (exact rational recomputation) *)
Definition Rcov (Y : list (list R)) (k l : nat) : R :=
  let ck := col oR k Y in let cl := col oR l Y in
  Rsum (map2 (fun a b => (a - Rmean ck) * (b - Rmean cl)) ck cl) / (INR (length Y) - 1).

Definition whiten_spec (p : nat) (d : R) (X : list (list R)) (mu : list R) (W Y : list (list R)) : Prop :=
  (1 < length X)%nat /\ rect p X /\ length mu = p /\ length W = p /\ rect p W /\
  (forall j, (j < p)%nat -> Rabs (nth j mu 0 - Rmean (col oR j X)) <= d) /\
  Forall2 (Forall2 (fun y z => Rabs (y - z) <= d)) Y (whiten_transform oR mu W X) /\
  (forall k l, (k < p)%nat -> (l < p)%nat -> Rabs (Rcov Y k l - (if Nat.eqb k l then 1 else 0)) <= d).

Lemma Q2R_Qred q : Q2R (Qred q) = Q2R q.
Proof. apply Qeq_eqR. apply Qred_correct. Qed.

Lemma Q2R_qsum l : Q2R (qsum l) = Rsum (map Q2R l).
Proof.
  unfold qsum. assert (G : forall a, Q2R (fold_left (fun a x => Qred (a + x)) l a) = Q2R a + Rsum (map Q2R l)).
  { induction l as [|x l IH]; intros a; cbn [fold_left map]; [unfold Rsum; simpl; lra|].
    rewrite IH, Q2R_Qred, Q2R_plus. unfold Rsum. simpl. lra. }
  rewrite G, RMicromega.Q2R_0. lra.
Qed.

Lemma Q2R_inject_Z z : Q2R (inject_Z z) = IZR z.
Proof. unfold Q2R, inject_Z. simpl. field. Qed.

Lemma Q2R_qlen {A} (l : list A) : Q2R (qlen l) = INR (length l).
Proof. unfold qlen. rewrite Q2R_inject_Z, <- INR_IZR_INZ. reflexivity. Qed.

Lemma qlen_nonzero {A} (l : list A) : l <> [] -> ~ (qlen l == 0)%Q.
Proof.
  intros H E. apply Qeq_eqR in E. rewrite Q2R_qlen, RMicromega.Q2R_0 in E.
  pose proof (INR_len_pos l H). lra.
Qed.

Lemma Q2R_qmean l : l <> [] -> Q2R (qmean l) = Rmean (map Q2R l).
Proof.
  intros H. unfold qmean, Rmean. rewrite Q2R_Qred, Q2R_div by (apply qlen_nonzero; exact H).
  rewrite Q2R_qsum, Q2R_qlen, map_length. reflexivity.
Qed.

Lemma Q2R_nth j r : nth j (map Q2R r) 0 = Q2R (nth j r 0%Q).
Proof. rewrite <- RMicromega.Q2R_0. apply map_nth. Qed.

Lemma Q2R_qcol j X : map Q2R (qcol j X) = col oR j (mmap Q2R X).
Proof.
  unfold qcol, col, mmap. rewrite !map_map. apply map_ext. intros r. cbn [zero oR]. symmetry. apply Q2R_nth.
Qed.

Lemma close_R d a b : close d a b = true -> Rabs (Q2R a - Q2R b) <= Q2R d.
Proof. unfold close. intros H. apply Qleb_R in H. rewrite Qabs'_R, Q2R_minus in H. exact H. Qed.

Lemma Q2R_qvsub a : forall b, map Q2R (qvsub a b) = vsub oR (map Q2R a) (map Q2R b).
Proof.
  unfold qvsub. induction a as [|x a IH]; intros [|y b]; cbn [map2 map vsub]; try reflexivity.
  rewrite IH, Q2R_minus. reflexivity.
Qed.

Lemma Q2R_qdot a : forall b, Q2R (qdot a b) = vdot oR (map Q2R a) (map Q2R b).
Proof.
  unfold qdot. intros b. rewrite Q2R_qsum. revert b.
  induction a as [|x a IH]; intros [|y b]; cbn [map2 map vdot]; try reflexivity.
  unfold Rsum in *. cbn [fold_right]. rewrite IH, Q2R_mult. reflexivity.
Qed.

Lemma Q2R_affine_row mu W x :
  map Q2R (affine_row mu W x) = whiten_row oR (map Q2R mu) (mmap Q2R W) (map Q2R x).
Proof.
  unfold affine_row, whiten_row, mmap. rewrite !map_map. apply map_ext. intros w.
  rewrite Q2R_qdot, Q2R_qvsub. reflexivity.
Qed.

Lemma forall2b_Forall2 {A B} (f : A -> B -> bool) (P : A -> B -> Prop) :
  (forall a b, f a b = true -> P a b) -> forall l1 l2, forall2b f l1 l2 = true -> Forall2 P l1 l2.
Proof.
  intros H. induction l1 as [|a l1 IH]; intros [|b l2] E; cbn [forall2b] in E; try discriminate; constructor.
  - apply andb_true_iff in E as [E1 _]. apply H; exact E1.
  - apply andb_true_iff in E as [_ E2]. apply IH; exact E2.
Qed.

Lemma Forall2_map {A B A' B'} (f : A -> A') (g : B -> B') (P : A' -> B' -> Prop) l1 l2 :
  Forall2 (fun a b => P (f a) (g b)) l1 l2 -> Forall2 P (map f l1) (map g l2).
Proof. induction 1; cbn; constructor; auto. Qed.

Lemma rows_close_R d A B : rows_close d A B = true ->
  Forall2 (Forall2 (fun y z => Rabs (y - z) <= Q2R d)) (mmap Q2R A) (mmap Q2R B).
Proof.
  intros H. unfold mmap. apply Forall2_map.
  apply (forall2b_Forall2 _ _ (fun a b Hab => Forall2_map Q2R Q2R _ a b
          (forall2b_Forall2 (close d) _ (fun x y Hxy => close_R d x y Hxy) a b Hab))). exact H.
Qed.

Lemma Q2R_map2_cov ck cl mk ml :
  Rsum (map Q2R (map2 (fun a b => ((a - mk) * (b - ml))%Q) ck cl))
  = Rsum (map2 (fun a b => (a - Q2R mk) * (b - Q2R ml)) (map Q2R ck) (map Q2R cl)).
Proof.
  revert cl. induction ck as [|a ck IH]; intros [|b cl]; cbn [map2 map]; try reflexivity.
  unfold Rsum in *. cbn [fold_right]. rewrite IH, Q2R_mult, !Q2R_minus. reflexivity.
Qed.

Lemma Q2R_qcov Y k l : (1 < length Y)%nat -> Q2R (qcov Y k l) = Rcov (mmap Q2R Y) k l.
Proof.
  intros Hn. assert (HY : Y <> []) by (destruct Y; simpl in Hn; [lia | discriminate]).
  unfold qcov, Rcov. rewrite Q2R_Qred.
  assert (Hd : ~ (qlen Y - 1 == 0)%Q).
  { intros E. apply Qeq_eqR in E. rewrite Q2R_minus, Q2R_qlen, RMicromega.Q2R_0 in E.
    assert (Q2R 1 = 1) by (unfold Q2R; simpl; field). apply lt_INR in Hn. simpl in Hn. lra. }
  rewrite Q2R_div by exact Hd. rewrite Q2R_qsum, Q2R_map2_cov, Q2R_minus, Q2R_qlen.
  assert (Hc : forall j, qcol j Y <> []) by (intros j; unfold qcol; destruct Y; [congruence | discriminate]).
  rewrite !Q2R_qmean by apply Hc. rewrite !Q2R_qcol.
  assert (E1 : Q2R 1 = 1) by (unfold Q2R; simpl; field). rewrite E1.
  assert (EL : length (mmap Q2R Y) = length Y) by (unfold mmap; apply map_length). rewrite EL. reflexivity.
Qed.

Lemma rect_mmap {A B} (f : A -> B) p X : forallb (fun r => Nat.eqb (length r) p) X = true -> rect p (mmap f X).
Proof.
  intros H. unfold rect, mmap. rewrite Forall_forall. intros r Hr. apply in_map_iff in Hr as [r' [<- Hr']].
  rewrite forallb_forall in H. specialize (H r' Hr'). apply Nat.eqb_eq in H. rewrite map_length. exact H.
Qed.

Lemma Forall2_length' {A B} (P : A -> B -> Prop) l1 l2 : Forall2 P l1 l2 -> length l1 = length l2.
Proof. induction 1; simpl; auto. Qed.

Theorem whiten_ok_sound_R p d X mu W Y : whiten_ok p d X mu W Y = true ->
  whiten_spec p (Q2R d) (mmap Q2R X) (map Q2R mu) (mmap Q2R W) (mmap Q2R Y).
Proof.
  unfold whiten_ok. intros H.
  apply andb_true_iff in H as [H Hcov]. apply andb_true_iff in H as [H Haff]. apply andb_true_iff in H as [Hsh Hmean].
  unfold wshape_ok in Hsh.
  apply andb_true_iff in Hsh as [Hsh HWr]. apply andb_true_iff in Hsh as [Hsh HWl].
  apply andb_true_iff in Hsh as [Hsh Hml]. apply andb_true_iff in Hsh as [Hn HXr].
  apply Nat.ltb_lt in Hn. apply Nat.eqb_eq in HWl, Hml.
  unfold mean_ok in Hmean. apply andb_true_iff in Hmean as [_ Hmean].
  unfold affine_ok in Haff. unfold cov_ok in Hcov.
  assert (HX : X <> []) by (destruct X; simpl in Hn; [lia | discriminate]).
  assert (ELX : length (mmap Q2R X) = length X) by (unfold mmap; apply map_length).
  assert (ELW : length (mmap Q2R W) = length W) by (unfold mmap; apply map_length).
  pose proof (rows_close_R _ _ _ Haff) as HA.
  assert (ELY : length Y = length X).
  { apply Forall2_length' in HA. unfold mmap in HA. rewrite !map_length in HA. exact HA. }
  unfold whiten_spec. rewrite ELX, ELW, map_length.
  split; [exact Hn|]. split; [apply rect_mmap; exact HXr|]. split; [exact Hml|].
  split; [exact HWl|]. split; [apply rect_mmap; exact HWr|]. split; [|split].
  - intros j Hj. rewrite forallb_forall in Hmean. assert (Hin : In j (seq 0 p)) by (apply in_seq; lia).
    pose proof (close_R _ _ _ (Hmean j Hin)) as Hc.
    rewrite Q2R_nth, <- Q2R_qcol. rewrite <- Q2R_qmean; [exact Hc|].
    unfold qcol. destruct X; [congruence | discriminate].
  - unfold whiten_transform. unfold mmap at 2 in HA. rewrite map_map in HA.
    unfold mmap at 3. rewrite map_map. erewrite map_ext; [exact HA|]. intros x. cbn beta. symmetry. apply Q2R_affine_row.
  - intros k l Hk Hl. rewrite forallb_forall in Hcov.
    assert (Hik : In k (seq 0 p)) by (apply in_seq; lia). assert (Hil : In l (seq 0 p)) by (apply in_seq; lia).
    pose proof (Hcov k Hik) as Hc. rewrite forallb_forall in Hc. pose proof (close_R _ _ _ (Hc l Hil)) as Hc'.
    rewrite Q2R_qcov in Hc' by lia.
    destruct (Nat.eqb k l); [|rewrite RMicromega.Q2R_0 in Hc'; exact Hc'].
    assert (E1 : Q2R 1 = 1) by (unfold Q2R; simpl; field). rewrite E1 in Hc'. exact Hc'.
Qed.

(** norm scaler and whitening transform are maps of one row function as well *)
Lemma norm_transform_rowwise {F} (o : NumOps F) k idx X : (forall i, In i idx -> (i < length X)%nat) ->
  norm_transform o k (select idx X) = select idx (norm_transform o k X).
Proof. intros H. unfold norm_transform. symmetry. apply select_map. exact H. Qed.

Lemma whiten_transform_rowwise {F} (o : NumOps F) mu W idx X : (forall i, In i idx -> (i < length X)%nat) ->
  whiten_transform o mu W (select idx X) = select idx (whiten_transform o mu W X).
Proof. intros H. unfold whiten_transform. symmetry. apply select_map. exact H. Qed.

(** * The known class of finding F14: a spread at or below the absolute guard leaves the column unscaled *)
Lemma standard_guard_unscaled_R eps lay wm p X s Y j : rect p X -> (j < p)%nat ->
  fit oR fmaR eps lay (Standard wm true) p X = FitOk s -> transform oR s X = Some Y ->
  R_sqrt.sqrt (Rvar (col oR j X)) <= eps ->
  Rvar (col oR j Y) = Rvar (col oR j X).
Proof.
  intros HX Hj HF HT Hg. destruct (fit_ok_inv oR _ _ _ _ _ _ _ HF) as [Hne _].
  rewrite (std_col eps lay wm true p X s Y j HX Hj HF HT), Rvar_affine by (apply col_nonempty; exact Hne).
  rewrite (std_scales_on eps lay wm p X s j Hj HF). unfold inv_or_one, abs_diff_eq0. cbn [leb abs sub zero one div oR].
  pose proof (sqrt_pos (Rvar (col oR j X))) as Hs.
  assert (E : Rleb (Rabs (R_sqrt.sqrt (Rvar (col oR j X)) - 0)) eps = true).
  { apply Rleb_true. rewrite Rminus_0_r, Rabs_right; lra. }
  rewrite E. lra.
Qed.

Definition eps64 : R := / 4503599627370496.   (* f64::EPSILON = 2^-52 *)
Lemma eps64_pos : 0 < eps64.
Proof. unfold eps64. apply Rinv_0_lt_compat. lra. Qed.

Lemma Rvar_pair a b : Rvar [a; b] = (b - a) * (b - a) / 4.
Proof. unfold Rvar, Rmean, Rsum. simpl. field. Qed.

(** witness: the column (0, eps) is not constant, yet its image has variance eps^2/4, not 1 *)
Lemma standard_var_one_refuted_R :
  exists X s Y, rect 1 X /\ fit oR fmaR eps64 RowMajor (Standard true true) 1 X = FitOk s /\
    transform oR s X = Some Y /\ (exists a b, In a (col oR 0 X) /\ In b (col oR 0 X) /\ a <> b) /\
    Rvar (col oR 0 Y) <> 1.
Proof.
  pose proof eps64_pos as He.
  exists [[0]; [eps64]]. eexists. eexists.
  assert (HX : rect 1 [[0]; [eps64]]) by (repeat constructor).
  split; [exact HX|]. split; [reflexivity|]. split; [reflexivity|]. split.
  - exists 0, eps64. cbn. split; [left; reflexivity|]. split; [right; left; reflexivity | lra].
  - match goal with |- Rvar (col oR 0 ?Y) <> 1 => set (YY := Y) end.
    assert (E : Rvar (col oR 0 YY) = Rvar (col oR 0 [[0]; [eps64]])).
    { eapply (standard_guard_unscaled_R eps64 RowMajor true 1 _ _ YY 0 HX (le_n 1)); [reflexivity | reflexivity |].
      cbn [col map nth zero oR]. rewrite Rvar_pair.
      replace ((eps64 - 0) * (eps64 - 0) / 4) with ((eps64 / 2) * (eps64 / 2)) by field.
      rewrite sqrt_square; lra. }
    rewrite E. cbn [col map nth zero oR]. rewrite Rvar_pair.
    assert (eps64 < 1) by (unfold eps64; lra). nra.
Qed.

(** * Non-vacuity: the hypotheses of the theorems are satisfiable *)
Example scaler_hyps_satisfiable :
  exists X s Y, rect 1 X /\ fit oR fmaR eps64 ColMajor (Standard false true) 1 X = FitOk s /\
    transform oR s X = Some Y /\ 0 <= eps64 /\ eps64 < R_sqrt.sqrt (Rvar (col oR 0 X)).
Proof.
  pose proof eps64_pos as He. exists [[1]; [3]]. eexists. eexists.
  split; [repeat constructor|]. split; [reflexivity|]. split; [reflexivity|]. split; [lra|].
  cbn [col map nth zero oR]. rewrite Rvar_pair. replace ((3 - 1) * (3 - 1) / 4) with 1 by field.
  rewrite sqrt_1. unfold eps64. lra.
Qed.

Example minmax_hyps_satisfiable :
  exists X s Y, rect 2 X /\ fit oR fmaR eps64 RowMajor (MinMax (-2) 3) 2 X = FitOk s /\
    transform oR s X = Some Y /\ (exists a b, In a (col oR 1 X) /\ In b (col oR 1 X) /\ eps64 < b - a).
Proof.
  pose proof eps64_pos as He. exists [[1; 5]; [3; 7]; [3; 6]].
  assert (E : Rltb 3 (-2) = false) by (apply Rltb_false; lra).
  eexists. eexists. split; [repeat constructor|]. split.
  - unfold fit. cbn [ltb oR]. rewrite E. reflexivity.
  - split; [reflexivity|]. exists 5, 7. cbn. split; [auto|]. split; [auto|]. unfold eps64. lra.
Qed.

Example maxabs_hyps_satisfiable :
  exists X s Y, rect 1 X /\ fit oR fmaR eps64 RowMajor MaxAbs 1 X = FitOk s /\
    transform oR s X = Some Y /\ (exists a, In a (col oR 0 X) /\ eps64 < Rabs a).
Proof.
  exists [[1]; [-4]]. eexists. eexists. split; [repeat constructor|]. split; [reflexivity|]. split; [reflexivity|].
  exists (-4). cbn. split; [auto|]. rewrite Rabs_left by lra. unfold eps64. lra.
Qed.

Example norm_hyps_satisfiable : forall k, row_norm oR k [3; 0; -4] <> 0.
Proof. intros k. apply row_norm_nonzero. exists 3. cbn. split; [auto | lra]. Qed.

Example whiten_ok_satisfiable :
  whiten_ok 1 (1 # 10) [[0]; [2]]%Q [1]%Q [[7 # 10]]%Q [[- (7 # 10)]; [7 # 10]]%Q = true.
Proof. vm_compute. reflexivity. Qed.

Example select_example : select [2; 0; 2]%nat [[1]; [2]; [3]] = [[3]; [1]; [3]].
Proof. reflexivity. Qed.

(** min-max and max-abs inside the known class of F14: the column is only shifted / left as it is *)
Lemma minmax_guard_unscaled_R eps lay lo hi p X s Y j : rect p X -> (j < p)%nat ->
  fit oR fmaR eps lay (MinMax lo hi) p X = FitOk s -> transform oR s X = Some Y ->
  col_max oR (col oR j X) - col_min oR (col oR j X) <= eps ->
  col oR j Y = map (fun x => (x - col_min oR (col oR j X)) * (hi - lo) + lo) (col oR j X).
Proof.
  intros HX Hj HF HT Hg.
  destruct (fit_ok_inv oR _ _ _ _ _ _ _ HF) as [Hne [Hm _]].
  assert (Hcol : col oR j Y = map (tr_elem oR (MinMax lo hi) (nth j (offsets s) 0) (nth j (scales s) 0)) (col oR j X)).
  { unfold col. cbn [zero oR]. rewrite (col_transform oR s p X Y j 0 Hne HX Hj HT), Hm. reflexivity. }
  revert HF. unfold fit. destruct X as [|r0 X'] eqn:EX; [discriminate|]. rewrite <- EX in *.
  destruct (ltb oR hi lo); [discriminate|].
  intros HF; inversion HF; subst s; clear HF. cbn [offsets scales] in Hcol.
  rewrite !(nth_map_lt _ _ _ _ []) in Hcol by (rewrite columns_length; exact Hj).
  rewrite nth_columns in Hcol by exact Hj.
  set (c := col oR j X) in *. assert (Hc : c <> []) by (apply col_nonempty; rewrite EX; discriminate).
  destruct (col_min_spec c Hc) as [Hmin1 Hmin2]. destruct (col_max_spec c Hc) as [Hmax1 Hmax2].
  pose proof (Hmin2 _ Hmax1) as Hle.
  assert (Hsc : minmax_scale oR eps c = 1).
  { unfold minmax_scale, abs_diff_eq0. cbn [leb abs sub zero one div oR].
    assert (E : Rleb (Rabs (col_max oR c - col_min oR c - 0)) eps = true).
    { apply Rleb_true. rewrite Rminus_0_r, Rabs_right; lra. }
    rewrite E. reflexivity. }
  rewrite Hsc in Hcol. rewrite Hcol. apply map_ext. intros x. cbn [tr_elem add sub mul oR]. lra.
Qed.

Lemma maxabs_guard_unscaled_R eps lay p X s Y j : rect p X -> (j < p)%nat ->
  fit oR fmaR eps lay MaxAbs p X = FitOk s -> transform oR s X = Some Y ->
  (forall x, In x (col oR j X) -> Rabs x <= eps) ->
  col oR j Y = col oR j X.
Proof.
  intros HX Hj HF HT Hg.
  destruct (fit_ok_inv oR _ _ _ _ _ _ _ HF) as [Hne [Hm _]].
  assert (Hcol : col oR j Y = map (tr_elem oR MaxAbs (nth j (offsets s) 0) (nth j (scales s) 0)) (col oR j X)).
  { unfold col. cbn [zero oR]. rewrite (col_transform oR s p X Y j 0 Hne HX Hj HT), Hm. reflexivity. }
  revert HF. unfold fit. destruct X as [|r0 X'] eqn:EX; [discriminate|]. rewrite <- EX in *.
  intros HF; inversion HF; subst s; clear HF. cbn [offsets scales] in Hcol.
  rewrite (nth_map_lt _ _ _ _ []) in Hcol by (rewrite columns_length; exact Hj).
  rewrite nth_columns in Hcol by exact Hj. cbn [zero oR] in Hcol. rewrite nth_repeat_lt in Hcol by exact Hj.
  set (c := col oR j X) in *. destruct (norm_max_spec c) as [HM0 [HM1 HM2]].
  assert (HMe : norm_max oR c <= eps).
  { destruct HM2 as [->|[x [Hx <-]]]; [|apply Hg; exact Hx].
    assert (Hc : c <> []) by (apply col_nonempty; rewrite EX; discriminate).
    destruct c as [|x c']; [congruence|]. pose proof (Hg x (or_introl eq_refl)). pose proof (Rabs_pos x). lra. }
  assert (Hsc : inv_or_one oR eps (norm_max oR c) = 1).
  { unfold inv_or_one, abs_diff_eq0. cbn [leb abs sub zero one div oR].
    assert (E : Rleb (Rabs (norm_max oR c - 0)) eps = true) by (apply Rleb_true; rewrite Rminus_0_r, Rabs_right; lra).
    rewrite E. reflexivity. }
  rewrite Hsc in Hcol. rewrite Hcol. rewrite <- (map_id c) at 2. apply map_ext. intros x. cbn [tr_elem sub mul oR]. lra.
Qed.

(** Welford's one-pass recurrence and both summation orders are exact over the reals *)
Lemma fit_statistics_exact lay c : c <> [] ->
  col_mean oR lay c = Rmean c /\ col_var oR fmaR c = Rvar c.
Proof. intros H. split; [apply col_mean_R | apply col_var_R; exact H]. Qed.

(** the known class is inhabited by non-constant columns (so the known-class lemmas are not vacuous), and so
    is its complement (scaler_hyps_satisfiable above) *)
Example minmax_known_class_inhabited :
  exists X s Y, rect 1 X /\ fit oR fmaR eps64 RowMajor (MinMax 0 1) 1 X = FitOk s /\ transform oR s X = Some Y /\
    col_max oR (col oR 0 X) - col_min oR (col oR 0 X) <= eps64 /\ col_max oR (col oR 0 X) <> col_min oR (col oR 0 X).
Proof.
  pose proof eps64_pos as He.
  assert (E : Rltb 1 0 = false) by (apply Rltb_false; lra).
  assert (E1 : Rltb eps64 0 = false) by (apply Rltb_false; lra).
  assert (E2 : Rltb 0 eps64 = true) by (apply Rltb_true; lra).
  exists [[0]; [eps64]]. eexists. eexists. split; [repeat constructor|]. split.
  - unfold fit. cbn [ltb oR]. rewrite E. reflexivity.
  - split; [reflexivity|]. cbn [col map nth zero oR col_max col_min fold_left ltb]. rewrite E1, E2. split; lra.
Qed.

Example maxabs_known_class_inhabited :
  exists X s Y, rect 1 X /\ fit oR fmaR eps64 RowMajor MaxAbs 1 X = FitOk s /\ transform oR s X = Some Y /\
    (forall x, In x (col oR 0 X) -> Rabs x <= eps64) /\ (exists x, In x (col oR 0 X) /\ x <> 0).
Proof.
  pose proof eps64_pos as He.
  exists [[eps64]; [- eps64 / 2]]. eexists. eexists. split; [repeat constructor|]. split; [reflexivity|]. split; [reflexivity|].
  cbn [col map nth zero oR]. split.
  - intros x [<-|[<-|[]]]; [rewrite Rabs_right; lra | rewrite Rabs_left; lra].
  - exists eps64. split; [left; reflexivity | lra].
Qed.
