(** C16 - float-level (binary64) facts about the min-max and max-abs scalers *)
From Coq Require Import ZArith Reals Floats SpecFloat List Lra Lia Bool Psatz.
From Flocq Require Import Core Relative BinarySingleNaN PrimFloat.
From LinfaVerif Require Import Common.Num Common.NdSum Common.QF C16.Model C16.Corr C16.Proofs.
From LinfaVerif Require Import C16.Float64 C16.FloatNorm.
Import ListNotations.
Local Open Scope R_scope.

(** * generic bridging: the image column under a fitted min-max / max-abs scaler, in every arithmetic *)
Section Bridge.
Context {F : Type} (o : NumOps F) (fma : F -> F -> F -> F) (eps : F) (lay : layout).

Lemma col_min_in c : c <> [] -> In (col_min o c) c.
Proof.
  destruct c as [|x r]; [congruence|]. intros _. unfold col_min.
  assert (G : forall r x, fold_left (fun acc y => if ltb o acc y then acc else y) r x = x \/
                          In (fold_left (fun acc y => if ltb o acc y then acc else y) r x) r).
  { clear. induction r as [|z r IH]; intros x; cbn [fold_left]; [left; reflexivity|].
    destruct (ltb o x z).
    - destruct (IH x) as [H|H]; [left; exact H | right; right; exact H].
    - destruct (IH z) as [H|H]; [right; left; symmetry; exact H | right; right; exact H]. }
  destruct (G r x) as [H|H]; [left; symmetry; exact H | right; exact H].
Qed.

Lemma col_max_in c : c <> [] -> In (col_max o c) c.
Proof.
  destruct c as [|x r]; [congruence|]. intros _. unfold col_max.
  assert (G : forall r x, fold_left (fun acc y => if ltb o y acc then acc else y) r x = x \/
                          In (fold_left (fun acc y => if ltb o y acc then acc else y) r x) r).
  { clear. induction r as [|z r IH]; intros x; cbn [fold_left]; [left; reflexivity|].
    destruct (ltb o z x).
    - destruct (IH x) as [H|H]; [left; exact H | right; right; exact H].
    - destruct (IH z) as [H|H]; [right; left; symmetry; exact H | right; right; exact H]. }
  destruct (G r x) as [H|H]; [left; symmetry; exact H | right; exact H].
Qed.

Lemma minmax_scale_inv c : minmax_scale o eps c = inv_or_one o eps (sub o (col_max o c) (col_min o c)).
Proof. reflexivity. Qed.

Lemma minmax_col lo hi p X s Y j : rect p X -> (j < p)%nat ->
  fit o fma eps lay (MinMax lo hi) p X = FitOk s -> transform o s X = Some Y ->
  col o j X <> [] /\
  col o j Y = map (tr_elem o (MinMax lo hi) (col_min o (col o j X)) (minmax_scale o eps (col o j X))) (col o j X).
Proof.
  intros HX Hj HF HT. destruct (fit_ok_inv o _ _ _ _ _ _ _ HF) as [Hne [Hm _]].
  split; [apply col_nonempty; exact Hne|].
  assert (Hcol : col o j Y = map (tr_elem o (MinMax lo hi) (nth j (offsets s) (zero o)) (nth j (scales s) (zero o))) (col o j X)).
  { unfold col. rewrite (col_transform o s p X Y j (zero o) Hne HX Hj HT), Hm. reflexivity. }
  revert HF. unfold fit. destruct X as [|r0 X'] eqn:EX; [discriminate|]. rewrite <- EX in *.
  destruct (ltb o hi lo); [discriminate|].
  intros HF; inversion HF; subst s; clear HF. cbn [offsets scales] in Hcol.
  rewrite !(nth_map_lt _ _ _ _ []) in Hcol by (rewrite columns_length; exact Hj).
  rewrite nth_columns in Hcol by exact Hj. exact Hcol.
Qed.

Lemma maxabs_col p X s Y j : rect p X -> (j < p)%nat ->
  fit o fma eps lay MaxAbs p X = FitOk s -> transform o s X = Some Y ->
  col o j Y = map (tr_elem o MaxAbs (zero o) (inv_or_one o eps (norm_max o (col o j X)))) (col o j X).
Proof.
  intros HX Hj HF HT. destruct (fit_ok_inv o _ _ _ _ _ _ _ HF) as [Hne [Hm _]].
  assert (Hcol : col o j Y = map (tr_elem o MaxAbs (nth j (offsets s) (zero o)) (nth j (scales s) (zero o))) (col o j X)).
  { unfold col. rewrite (col_transform o s p X Y j (zero o) Hne HX Hj HT), Hm. reflexivity. }
  revert HF. unfold fit. destruct X as [|r0 X'] eqn:EX; [discriminate|]. rewrite <- EX in *.
  intros HF; inversion HF; subst s; clear HF. cbn [offsets scales] in Hcol.
  rewrite (nth_map_lt _ _ _ _ []) in Hcol by (rewrite columns_length; exact Hj).
  rewrite nth_columns in Hcol by exact Hj. rewrite nth_repeat_lt in Hcol by exact Hj. exact Hcol.
Qed.

End Bridge.

(** * binary64 *)
Definition eps64f : PrimFloat.float := 0x1p-52%float.

Lemma eps64f_R : f64_R eps64f = bpow radix2 (-52).
Proof.
  rewrite f64_R_SF. replace (Prim2SF eps64f) with (S754_finite false 4503599627370496 (-104)) by (vm_compute; reflexivity).
  unfold SF2R, F2R. cbn [cond_Zopp Fnum Fexp]. change (IZR 4503599627370496) with (bpow radix2 52).
  rewrite <- bpow_plus. reflexivity.
Qed.
Lemma eps64f_fin : ffin eps64f = true.
Proof. rewrite <- ffin_f64_finite. vm_compute. reflexivity. Qed.

Lemma sub_fin_or_inf a b : ffin a = true -> ffin b = true ->
  ffin (a - b)%float = true \/ exists s, Prim2B (a - b)%float = B754_infinity s.
Proof.
  unfold ffin. rewrite sub_equiv. intros Fa Fb.
  generalize (Bminus_correct prec emax Hprec Hmax mode_NE _ _ Fa Fb). destruct (Rlt_bool _ _).
  - intros (_ & H & _). left; exact H.
  - intros (H & _). right. destruct (Bminus mode_NE (Prim2B a) (Prim2B b)) as [s|s| |s m e Hv]; simpl in H; try discriminate.
    exists s. reflexivity.
Qed.

(** the guarded reciprocal `if abs_diff_eq!(d, 0) { 1 } else { 1 / d }`: always finite; it is 1/d when d > 2^-52 *)
Lemma inv_or_one_spec d : (ffin d = true \/ exists s, Prim2B d = B754_infinity s) ->
  ffin (inv_or_one o64 eps64f d) = true /\
  (ffin d = true -> bpow radix2 (-52) < f64_R d ->
   inv_or_one o64 eps64f d = (1 / d)%float /\ f64_R (1 / d)%float = rnd (1 / f64_R d) /\ f64_R (1 / d)%float <= bpow radix2 52).
Proof.
  intros Hd. unfold inv_or_one, abs_diff_eq0. cbn [leb abs sub zero one div B64_ops].
  assert (Hdiv : ffin d = true -> bpow radix2 (-52) < Rabs (f64_R d) ->
                 ffin (1 / d)%float = true /\ f64_R (1 / d)%float = rnd (1 / f64_R d) /\ Rabs (f64_R (1 / d)%float) <= bpow radix2 52).
  { intros Fd Hgt. pose proof (bpow_gt_0 radix2 (-52)) as P.
    assert (Hn : f64_R d <> 0) by (intros E; rewrite E, Rabs_R0 in Hgt; lra).
    assert (Hq : Rabs (f64_R 1%float / f64_R d) <= bpow radix2 52).
    { rewrite f64_R_one. unfold Rdiv. rewrite Rmult_1_l, Rabs_inv.
      replace (bpow radix2 52) with (/ bpow radix2 (-52)) by (rewrite <- bpow_opp; reflexivity).
      apply Rinv_le_contravar; lra. }
    destruct (div_fin 1%float d ffin_one Fd Hn) as [H1 H2].
    - apply (no_overflow _ (bpow radix2 52)); [apply bpow_generic; lia | apply bpow_lt; lia | exact Hq].
    - split; [exact H1|]. rewrite H2. rewrite f64_R_one. split; [reflexivity|].
      rewrite f64_R_one in Hq. apply rnd_abs_le_gen; [apply bpow_generic; lia | exact Hq]. }
  destruct Hd as [Fd | [s Hs]].
  - destruct (sub_zero_fin d Fd) as [F0 E0].
    destruct (abs_spec64 (d - 0)%float F0) as (Fa & Ea & _).
    rewrite (leb_fin _ _ Fa eps64f_fin), Ea, E0, eps64f_R.
    destruct (Rle_bool_spec (Rabs (f64_R d)) (bpow radix2 (-52))) as [Hle|Hgt].
    + split; [exact ffin_one|]. intros _ Hp. exfalso. pose proof (bpow_gt_0 radix2 (-52)). rewrite Rabs_right in Hle; lra.
    + destruct (Hdiv Fd Hgt) as (H1 & H2 & H3). split; [exact H1|]. intros _ Hp. split; [reflexivity|]. split; [exact H2|].
      apply Rle_trans with (2 := H3). apply Rle_abs.
  - assert (E1 : Prim2B (PrimFloat.abs (d - 0)%float) = B754_infinity false).
    { rewrite abs_equiv, sub_equiv, Hs, Prim2B_zero. reflexivity. }
    assert (E2 : (PrimFloat.abs (d - 0) <=? eps64f)%float = false).
    { rewrite leb_equiv, E1. unfold Bleb. rewrite B2SF_Prim2B. vm_compute. reflexivity. }
    rewrite E2. split.
    + unfold ffin. rewrite div_equiv, Hs, Prim2B_one. generalize (@is_finite_Bone prec emax Hprec Hmax).
      destruct (@Bone prec emax Hprec Hmax); simpl; intros; try discriminate; reflexivity.
    + unfold ffin. rewrite Hs. discriminate.
Qed.

Lemma allfin_in c x : allfin c -> In x c -> ffin x = true.
Proof. unfold allfin. rewrite Forall_forall. auto. Qed.

Lemma minmax_scale_fin c : allfin c -> c <> [] -> ffin (minmax_scale o64 eps64f c) = true.
Proof.
  intros Hc Hne. rewrite minmax_scale_inv. apply inv_or_one_spec. cbn [sub B64_ops].
  apply sub_fin_or_inf; apply (allfin_in c); auto; [apply col_max_in | apply col_min_in]; exact Hne.
Qed.

(** ** the lower end is attained exactly *)
Theorem minmax_min_end_64 c lo hi : allfin c -> c <> [] -> ffin lo = true -> ffin (hi - lo)%float = true ->
  let y := tr_elem o64 (MinMax lo hi) (col_min o64 c) (minmax_scale o64 eps64f c) (col_min o64 c) in
  ffin y = true /\ f64_R y = f64_R lo.
Proof.
  intros Hc Hne Flo Fw. cbn [tr_elem add sub mul B64_ops].
  pose proof (allfin_in c _ Hc (col_min_in o64 c Hne)) as Fm. set (m := col_min o64 c) in *.
  pose proof (minmax_scale_fin c Hc Hne) as Fs. set (sc := minmax_scale o64 eps64f c) in *.
  assert (Hz : forall x, Rabs (rnd x) < bpow radix2 1024 <-> Rabs (rnd x) < bpow radix2 1024) by tauto.
  assert (B0 : Rabs (rnd 0) < bpow radix2 1024) by (rewrite rnd_0, Rabs_R0; apply bpow_gt_0).
  destruct (sub_fin m m Fm Fm) as [F1 E1]. { rewrite Rminus_diag_eq by reflexivity. exact B0. }
  rewrite Rminus_diag_eq, rnd_0 in E1 by reflexivity.
  destruct (mul_fin (m - m)%float sc F1 Fs) as [F2 E2]. { rewrite E1, Rmult_0_l. exact B0. }
  rewrite E1, Rmult_0_l, rnd_0 in E2.
  destruct (mul_fin ((m - m) * sc)%float (hi - lo)%float F2 Fw) as [F3 E3]. { rewrite E2, Rmult_0_l. exact B0. }
  rewrite E2, Rmult_0_l, rnd_0 in E3.
  assert (El : rnd (f64_R ((m - m) * sc * (hi - lo))%float + f64_R lo) = f64_R lo).
  { rewrite E3, Rplus_0_l. apply rnd_generic, f64_R_generic. }
  destruct (add_fin _ lo F3 Flo) as [F4 E4]. { rewrite El. apply f64_R_lt_max. }
  split; [exact F4 | rewrite E4; exact El].
Qed.

(** ** d * (1/d) is 1 or its predecessor *)
Lemma recip_prod d : ffin d = true -> bpow radix2 (-52) < f64_R d -> f64_R d <= bpow radix2 1022 ->
  ffin (d * (1 / d))%float = true /\ 1 - u64 <= f64_R (d * (1 / d))%float <= 1 /\
  f64_R (1 / d)%float * f64_R d <= 1 + u64 /\ 1 - u64 <= f64_R (1 / d)%float * f64_R d /\ 0 <= f64_R (1 / d)%float.
Proof.
  intros Fd Hlo Hhi. pose proof (bpow_gt_0 radix2 (-52)) as P. pose proof u64_bounds as [U1 U2].
  destruct (inv_or_one_spec d (or_introl Fd)) as [Fi Hi]. destruct (Hi Fd Hlo) as (Ei & Er & Eb). rewrite Ei in Fi.
  set (D := f64_R d) in *. assert (PD : 0 < D) by lra.
  assert (Hn : bpow radix2 (-1022) <= 1 / D).
  { replace (bpow radix2 (-1022)) with (/ bpow radix2 1022) by (rewrite <- bpow_opp; reflexivity).
    unfold Rdiv. rewrite Rmult_1_l. apply Rinv_le_contravar; lra. }
  pose proof (rnd_rel_lower _ Hn) as L1. pose proof (rnd_rel_upper _ Hn) as L2. rewrite <- Er in L1, L2.
  set (r := f64_R (1 / d)%float) in *.
  assert (ED : 1 / D * D = 1) by (field; lra).
  assert (Lo : 1 - u64 <= r * D).
  { apply Rle_trans with (1 / D * (1 - u64) * D); [right; field; lra|]. apply Rmult_le_compat_r; lra. }
  assert (Hi' : r * D <= 1 + u64).
  { apply Rle_trans with (1 / D * (1 + u64) * D); [|right; field; lra]. apply Rmult_le_compat_r; lra. }
  assert (Pr : 0 <= r).
  { apply Rle_trans with (2 := L1). apply Rmult_le_pos; [|lra]. unfold Rdiv. rewrite Rmult_1_l. left. apply Rinv_0_lt_compat. exact PD. }
  destruct (mul_fin d (1 / d)%float Fd Fi) as [Ft Et].
  { apply (no_overflow _ (bpow radix2 1)); [apply bpow_generic; lia | apply bpow_lt; lia |].
    fold D r. rewrite Rabs_right by nra. change (bpow radix2 1) with 2. lra. }
  fold D r in Et. split; [exact Ft|]. rewrite Et. split; [|split; [exact Hi' | split; [exact Lo | exact Pr]]]. split.
  - apply rnd_ge_gen; [apply one_minus_u_generic | lra].
  - apply rnd_le_one. lra.
Qed.

(** ** max-abs: every image lies in [-1, 1] and the largest magnitude is mapped to 1 or its predecessor *)
Theorem maxabs_unit_interval_64 c : allfin c ->
  bpow radix2 (-52) < f64_R (norm_max o64 c) -> f64_R (norm_max o64 c) <= bpow radix2 1022 ->
  let img := map (tr_elem o64 MaxAbs 0%float (inv_or_one o64 eps64f (norm_max o64 c))) c in
  allfin img /\ Forall (fun y => Rabs (f64_R y) <= 1) img /\ exists y, In y img /\ 1 - u64 <= Rabs (f64_R y).
Proof.
  intros Hc Hlo Hhi. destruct (norm_max_spec64 c Hc) as (Fn & Nn & Hb). set (M := norm_max o64 c) in *.
  destruct (inv_or_one_spec M (or_introl Fn)) as [Fi Hi]. destruct (Hi Fn Hlo) as (Ei & _ & _). rewrite Ei in *.
  destruct (recip_prod M Fn Hlo Hhi) as (_ & _ & Hup & Hdn & Pr). set (r := f64_R (1 / M)%float) in *.
  pose proof u64_bounds as [U1 U2]. pose proof (bpow_gt_0 radix2 (-52)) as P.
  assert (Hel : forall el, In el c ->
            ffin ((el - 0) * (1 / M))%float = true /\ Rabs (f64_R ((el - 0) * (1 / M))%float) = rnd (Rabs (f64_R el) * r)).
  { intros el Hin. pose proof (allfin_in c el Hc Hin) as Fe. destruct (sub_zero_fin el Fe) as [F0 E0].
    rewrite Forall_forall in Hb. pose proof (Hb el Hin) as Hle.
    assert (Hp : Rabs (f64_R el * r) <= 2).
    { rewrite Rabs_mult, (Rabs_right r) by lra. apply Rle_trans with (f64_R M * r); [apply Rmult_le_compat_r; lra | lra]. }
    destruct (mul_fin (el - 0)%float (1 / M)%float F0 Fi) as [F1 E1].
    { rewrite E0. fold r. apply (no_overflow _ (bpow radix2 1)); [apply bpow_generic; lia | apply bpow_lt; lia | exact Hp]. }
    split; [exact F1|]. rewrite E1, E0. fold r. rewrite <- rnd_abs, Rabs_mult, (Rabs_right r) by lra. reflexivity. }
  cbn [tr_elem sub mul B64_ops]. split; [|split].
  - apply Forall_forall. intros y Hy. apply in_map_iff in Hy as [el [<- Hin]]. apply (Hel el Hin).
  - apply Forall_forall. intros y Hy. apply in_map_iff in Hy as [el [<- Hin]]. cbn [tr_elem sub mul B64_ops].
    destruct (Hel el Hin) as [_ ->]. apply rnd_le_one. rewrite Forall_forall in Hb. pose proof (Hb el Hin) as Hle.
    apply Rle_trans with (f64_R M * r); [apply Rmult_le_compat_r; lra | lra].
  - destruct (norm_max_attained c 0%float Hc ffin_zero) as [H|[el [H1 H2]]].
    + exfalso. change (M = 0%float) in H. rewrite H, f64_R_zero in Hlo. lra.
    + change (f64_R M = Rabs (f64_R el)) in H2.
      exists ((el - 0) * (1 / M))%float. split; [apply in_map_iff; exists el; split; [reflexivity | exact H1]|].
      destruct (Hel el H1) as [_ ->]. rewrite <- H2. apply rnd_ge_gen; [apply one_minus_u_generic | lra].
Qed.

(** ** the upper end of min-max: not attained exactly in general; what is guaranteed *)
Lemma Rabs_add_le a b x y : Rabs a <= x -> Rabs b <= y -> Rabs (a + b) <= x + y.
Proof. intros. apply Rle_trans with (1 := Rabs_triang a b). lra. Qed.

Lemma minmax_max_unfold c lo hi :
  tr_elem o64 (MinMax lo hi) (col_min o64 c) (minmax_scale o64 eps64f c) (col_max o64 c)
  = ((col_max o64 c - col_min o64 c) * inv_or_one o64 eps64f (col_max o64 c - col_min o64 c) * (hi - lo) + lo)%float.
Proof. reflexivity. Qed.

(** default range 0..=1: the image of the column maximum is 1 or the float just below *)
Theorem minmax_unit_range_max_end_64 c : allfin c ->
  let d := (col_max o64 c - col_min o64 c)%float in
  ffin d = true -> bpow radix2 (-52) < f64_R d -> f64_R d <= bpow radix2 1022 ->
  let y := tr_elem o64 (MinMax 0%float 1%float) (col_min o64 c) (minmax_scale o64 eps64f c) (col_max o64 c) in
  ffin y = true /\ 1 - u64 <= f64_R y <= 1.
Proof.
  intros Hc d Fd Hlo Hhi. rewrite minmax_max_unfold. fold d.
  destruct (inv_or_one_spec d (or_introl Fd)) as [_ Hi]. destruct (Hi Fd Hlo) as (-> & _ & _).
  destruct (recip_prod d Fd Hlo Hhi) as (Ft & [T1 T2] & _). set (t := (d * (1 / d))%float) in *.
  pose proof u64_bounds as [U1 U2].
  assert (Bt : forall x, x = f64_R t -> Rabs (rnd x) < bpow radix2 1024).
  { intros x ->. rewrite rnd_generic by apply f64_R_generic. apply f64_R_lt_max. }
  destruct (sub_fin 1%float 0%float ffin_one ffin_zero) as [Fw Ew].
  { rewrite f64_R_one, f64_R_zero, Rminus_0_r, rnd_generic by apply one_generic. rewrite Rabs_right by lra.
    change 1 with (bpow radix2 0). apply bpow_lt. lia. }
  rewrite f64_R_one, f64_R_zero, Rminus_0_r, rnd_generic in Ew by apply one_generic.
  destruct (mul_fin t (1 - 0)%float Ft Fw) as [Fp Ep]. { apply Bt. rewrite Ew. ring. }
  rewrite Ew, Rmult_1_r, rnd_generic in Ep by apply f64_R_generic.
  destruct (add_fin (t * (1 - 0))%float 0%float Fp ffin_zero) as [Fy Ey]. { apply Bt. rewrite Ep, f64_R_zero. ring. }
  rewrite Ep, f64_R_zero, Rplus_0_r, rnd_generic in Ey by apply f64_R_generic.
  split; [exact Fy | rewrite Ey; split; assumption].
Qed.

(** any range with |lo|, |hi| <= 2^1021: the image of the column maximum is within 6 u (|lo| + |hi|) + 2^-1074 of hi *)
Theorem minmax_max_end_64 c lo hi : allfin c -> ffin lo = true -> ffin hi = true ->
  let d := (col_max o64 c - col_min o64 c)%float in
  ffin d = true -> bpow radix2 (-52) < f64_R d -> f64_R d <= bpow radix2 1022 ->
  Rabs (f64_R lo) <= bpow radix2 1021 -> Rabs (f64_R hi) <= bpow radix2 1021 ->
  let y := tr_elem o64 (MinMax lo hi) (col_min o64 c) (minmax_scale o64 eps64f c) (col_max o64 c) in
  ffin y = true /\
  Rabs (f64_R y - f64_R hi) <= 6 * u64 * (Rabs (f64_R lo) + Rabs (f64_R hi)) + bpow radix2 (-1074).
Proof.
  intros Hc Flo Fhi d Fd Hlo Hhi BL BH. rewrite minmax_max_unfold. fold d.
  destruct (inv_or_one_spec d (or_introl Fd)) as [_ Hi]. destruct (Hi Fd Hlo) as (-> & _ & _).
  destruct (recip_prod d Fd Hlo Hhi) as (Ft & [T1 T2] & _). set (t := (d * (1 / d))%float) in *.
  pose proof u64_bounds as [U1 U2]. set (T := f64_R t) in *. set (L := f64_R lo) in *. set (H := f64_R hi) in *.
  set (A := Rabs L + Rabs H). assert (PA : 0 <= A) by (unfold A; pose proof (Rabs_pos L); pose proof (Rabs_pos H); lra).
  assert (E1022 : bpow radix2 1022 = 2 * bpow radix2 1021) by (change 1022%Z with (1 + 1021)%Z; rewrite bpow_plus; reflexivity).
  assert (E1023 : bpow radix2 1023 = 2 * bpow radix2 1022) by (change 1023%Z with (1 + 1022)%Z; rewrite bpow_plus; reflexivity).
  pose proof (bpow_gt_0 radix2 1021) as P1021.
  (* w = hi - lo *)
  assert (a1 : Rabs (H - L) <= A).
  { unfold A. replace (H - L) with (H + - L) by ring. apply Rle_trans with (1 := Rabs_triang _ _). rewrite Rabs_Ropp. lra. }
  destruct (sub_fin hi lo Fhi Flo) as [Fw Ew].
  { fold H L. apply (no_overflow _ (bpow radix2 1022)); [apply bpow_generic; lia | apply bpow_lt; lia | unfold A in a1; lra]. }
  fold H L in Ew. set (W := f64_R (hi - lo)%float) in *.
  assert (a2 : Rabs (W - (H - L)) <= u64 * A).
  { rewrite Ew. replace (H - L) with (H + - L) by ring.
    apply Rle_trans with (u64 * Rabs (H + - L)).
    - apply rnd_sum_rel; [apply f64_R_generic | apply generic_format_opp; apply f64_R_generic].
    - apply Rmult_le_compat_l; [lra|]. replace (H + - L) with (H - L) by ring. exact a1. }
  assert (a3 : Rabs W <= (1 + u64) * A).
  { replace W with ((W - (H - L)) + (H - L)) by ring. replace ((1 + u64) * A) with (u64 * A + A) by ring.
    apply Rabs_add_le; assumption. }
  assert (a3' : Rabs W <= bpow radix2 1022).
  { rewrite Ew. apply rnd_abs_le_gen; [apply bpow_generic; lia | unfold A in a1; lra]. }
  (* p = t * w *)
  assert (a5 : Rabs (T * W) <= Rabs W).
  { rewrite Rabs_mult, (Rabs_right T) by lra. pose proof (Rabs_pos W). nra. }
  destruct (mul_fin t (hi - lo)%float Ft Fw) as [Fp Ep].
  { fold T W. apply (no_overflow _ (bpow radix2 1022)); [apply bpow_generic; lia | apply bpow_lt; lia | lra]. }
  fold T W in Ep. set (P := f64_R (t * (hi - lo))%float) in *.
  assert (a4 : Rabs (T * W - W) <= u64 * ((1 + u64) * A)).
  { replace (T * W - W) with ((T - 1) * W) by ring. rewrite Rabs_mult.
    assert (Rabs (T - 1) <= u64) by (apply Rabs_le; lra). pose proof (Rabs_pos W). pose proof (Rabs_pos (T - 1)). nra. }
  set (eta := bpow radix2 (-1075)). assert (Pe : 0 < eta) by apply bpow_gt_0.
  assert (a6 : Rabs (P - T * W) <= u64 * ((1 + u64) * A) + eta).
  { rewrite Ep. apply Rle_trans with (1 := rnd_err (T * W)). fold eta.
    apply Rplus_le_compat_r. apply Rmult_le_compat_l; lra. }
  set (E1 := u64 * ((1 + u64) * A) + eta + u64 * ((1 + u64) * A) + u64 * A).
  assert (a7 : Rabs (P - (H - L)) <= E1).
  { replace (P - (H - L)) with ((P - T * W) + (T * W - W) + (W - (H - L))) by ring. unfold E1.
    apply Rabs_add_le; [apply Rabs_add_le|]; assumption. }
  assert (a7' : Rabs P <= bpow radix2 1022).
  { rewrite Ep. apply rnd_abs_le_gen; [apply bpow_generic; lia | lra]. }
  (* y = p + lo *)
  assert (a8 : Rabs (P + L) <= E1 + A).
  { replace (P + L) with ((P - (H - L)) + H) by ring. apply Rabs_add_le; [exact a7|]. unfold A. pose proof (Rabs_pos L). lra. }
  destruct (add_fin (t * (hi - lo))%float lo Fp Flo) as [Fy Ey].
  { fold P L. apply (no_overflow _ (bpow radix2 1023)); [apply bpow_generic; lia | apply bpow_lt; lia |].
    apply Rle_trans with (1 := Rabs_triang _ _). lra. }
  fold P L in Ey. split; [exact Fy|]. set (Y := f64_R (t * (hi - lo) + lo)%float) in *.
  assert (a9 : Rabs (Y - (P + L)) <= u64 * (E1 + A)).
  { rewrite Ey. apply Rle_trans with (u64 * Rabs (P + L)).
    - apply rnd_sum_rel; apply f64_R_generic.
    - apply Rmult_le_compat_l; lra. }
  assert (a10 : Rabs (Y - H) <= u64 * (E1 + A) + E1).
  { replace (Y - H) with ((Y - (P + L)) + (P - (H - L))) by ring. apply Rabs_add_le; assumption. }
  apply Rle_trans with (1 := a10).
  assert (E2 : bpow radix2 (-1074) = 2 * eta).
  { unfold eta. change (-1074)%Z with (1 + -1075)%Z. rewrite bpow_plus. reflexivity. }
  rewrite E2. fold A. unfold E1. set (uA := u64 * A). assert (PuA : 0 <= uA) by (unfold uA; nra).
  replace (u64 * ((1 + u64) * A)) with ((1 + u64) * uA) by (unfold uA; ring).
  replace (6 * u64 * A) with (6 * uA) by (unfold uA; ring).
  replace (u64 * ((1 + u64) * uA + eta + (1 + u64) * uA + uA + A)) with
          (u64 * ((1 + u64) * uA + eta + (1 + u64) * uA + uA) + uA) by (unfold uA; ring).
  assert (K1 : u64 * uA <= uA / 1024) by nra.
  assert (K2 : u64 * eta <= eta / 1024) by nra.
  assert (K3 : u64 * (u64 * uA) <= uA / 1024) by nra.
  nra.
Qed.

(** ** witnesses: the exact statements fail *)
Lemma minmax_max_end_not_exact :
  let c := [0%float; 49%float] in
  allfin c /\ bpow radix2 (-52) < f64_R (col_max o64 c - col_min o64 c)%float /\
  f64_R (tr_elem o64 (MinMax 0%float 1%float) (col_min o64 c) (minmax_scale o64 eps64f c) (col_max o64 c)) < f64_R 1%float.
Proof.
  cbn zeta. split; [|split].
  - repeat constructor; rewrite <- ffin_f64_finite; vm_compute; reflexivity.
  - rewrite <- eps64f_R. apply ltb_R; [exact eps64f_fin | rewrite <- ffin_f64_finite; vm_compute; reflexivity | vm_compute; reflexivity].
  - apply ltb_R; [rewrite <- ffin_f64_finite; vm_compute; reflexivity | exact ffin_one | vm_compute; reflexivity].
Qed.

Lemma maxabs_one_not_exact :
  let c := [49%float] in
  allfin c /\ bpow radix2 (-52) < f64_R (norm_max o64 c) /\
  Forall (fun y => Rabs (f64_R y) < 1) (map (tr_elem o64 MaxAbs 0%float (inv_or_one o64 eps64f (norm_max o64 c))) c).
Proof.
  cbn zeta. split; [|split].
  - repeat constructor; rewrite <- ffin_f64_finite; vm_compute; reflexivity.
  - rewrite <- eps64f_R. apply ltb_R; [exact eps64f_fin | rewrite <- ffin_f64_finite; vm_compute; reflexivity | vm_compute; reflexivity].
  - repeat constructor. cbn [map].
    set (y := tr_elem o64 MaxAbs 0%float (inv_or_one o64 eps64f (norm_max o64 [49%float])) 49%float).
    assert (Fy : ffin y = true) by (rewrite <- ffin_f64_finite; vm_compute; reflexivity).
    assert (H1 : f64_R y < 1) by (rewrite <- f64_R_one; apply ltb_R; [exact Fy | exact ffin_one | vm_compute; reflexivity]).
    assert (H0 : 0 <= f64_R y) by (rewrite <- f64_R_zero; apply leb_R; [exact ffin_zero | exact Fy | vm_compute; reflexivity]).
    rewrite Rabs_right; lra.
Qed.

(** * the same facts for a fitted scaler applied to its training matrix *)
Lemma minmax_min_end_fit lay lo hi p X s Y j : rect p X -> (j < p)%nat ->
  fit o64 fma64 eps64f lay (MinMax lo hi) p X = FitOk s -> transform o64 s X = Some Y ->
  Forall (fun x => f64_finite x = true) (col o64 j X) ->
  f64_finite lo = true -> f64_finite (hi - lo)%float = true ->
  exists y, In y (col o64 j Y) /\ f64_finite y = true /\ f64_R y = f64_R lo.
Proof.
  intros HX Hj HF HT Hc Fl Fw. destruct (minmax_col o64 fma64 eps64f lay lo hi p X s Y j HX Hj HF HT) as [Hne Hcol].
  rewrite Hcol. set (c := col o64 j X) in *.
  exists (tr_elem o64 (MinMax lo hi) (col_min o64 c) (minmax_scale o64 eps64f c) (col_min o64 c)).
  split; [apply in_map; apply col_min_in; exact Hne|]. rewrite ffin_f64_finite in *.
  apply minmax_min_end_64; [apply allfin_of_finite; exact Hc | exact Hne | exact Fl | exact Fw].
Qed.

Lemma maxabs_unit_interval_fit lay p X s Y j : rect p X -> (j < p)%nat ->
  fit o64 fma64 eps64f lay MaxAbs p X = FitOk s -> transform o64 s X = Some Y ->
  Forall (fun x => f64_finite x = true) (col o64 j X) ->
  bpow radix2 (-52) < f64_R (norm_max o64 (col o64 j X)) ->
  f64_R (norm_max o64 (col o64 j X)) <= bpow radix2 1022 ->
  Forall (fun y => f64_finite y = true /\ Rabs (f64_R y) <= 1) (col o64 j Y) /\
  exists y, In y (col o64 j Y) /\ 1 - u64 <= Rabs (f64_R y).
Proof.
  intros HX Hj HF HT Hc Hlo Hhi. rewrite (maxabs_col o64 fma64 eps64f lay p X s Y j HX Hj HF HT).
  destruct (maxabs_unit_interval_64 _ (allfin_of_finite _ Hc) Hlo Hhi) as (H1 & H2 & H3).
  split; [|exact H3]. unfold allfin in H1. rewrite Forall_forall in *. intros y Hy.
  split; [rewrite ffin_f64_finite; apply H1; exact Hy | apply H2; exact Hy].
Qed.
