(** C16 - Whitener::fit: from the contracts of the decompositions to the identity covariance, over R.
    Matrices of the model are lists of rows; for the algebra they are read as functions nat -> nat -> R
    through [ent] (entries outside the shape are 0), so that products are finite sums [bsum] and the
    usual laws (associativity, transposition, identity) are equalities of functions. *)
From Coq Require Import List NArith Bool Reals Lra Lia Psatz FunctionalExtensionality.
From LinfaVerif Require Import Common.Num Common.NdSum Common.QF C16.Model C16.Corr C16.Proofs.
Import ListNotations.
Local Open Scope R_scope.

(** * finite sums *)
Definition bsum (n : nat) (f : nat -> R) : R := Rsum (map f (seq 0 n)).

Lemma bsum_S n f : bsum (S n) f = bsum n f + f n.
Proof. unfold bsum. rewrite seq_S, map_app, Rsum_app. unfold Rsum. simpl. lra. Qed.

Lemma bsum_ext n f g : (forall i, (i < n)%nat -> f i = g i) -> bsum n f = bsum n g.
Proof. induction n as [|n IH]; intros H; [reflexivity|]. rewrite !bsum_S, IH, H; auto. Qed.

Lemma bsum_zero n f : (forall i, (i < n)%nat -> f i = 0) -> bsum n f = 0.
Proof. induction n as [|n IH]; intros H; [reflexivity|]. rewrite bsum_S, IH, H; auto; lra. Qed.

Lemma bsum_plus n f g : bsum n (fun i => f i + g i) = bsum n f + bsum n g.
Proof. induction n as [|n IH]; [unfold bsum, Rsum; simpl; lra|]. rewrite !bsum_S, IH. lra. Qed.

Lemma bsum_scal_l n c f : bsum n (fun i => c * f i) = c * bsum n f.
Proof. induction n as [|n IH]; [unfold bsum, Rsum; simpl; lra|]. rewrite !bsum_S, IH. lra. Qed.

Lemma bsum_scal_r n c f : bsum n (fun i => f i * c) = bsum n f * c.
Proof. induction n as [|n IH]; [unfold bsum, Rsum; simpl; lra|]. rewrite !bsum_S, IH. lra. Qed.

Lemma bsum_swap n m f : bsum n (fun i => bsum m (fun j => f i j)) = bsum m (fun j => bsum n (fun i => f i j)).
Proof.
  induction n as [|n IH].
  - symmetry. apply bsum_zero. intros; reflexivity.
  - rewrite bsum_S, IH, <- bsum_plus. apply bsum_ext. intros j _. rewrite bsum_S. reflexivity.
Qed.

Lemma bsum_delta n k f : (k < n)%nat -> bsum n (fun i => if Nat.eqb i k then f i else 0) = f k.
Proof.
  induction n as [|n IH]; intros Hk; [lia|]. rewrite bsum_S. destruct (Nat.eq_dec k n) as [->|Hne].
  - rewrite Nat.eqb_refl, bsum_zero; [lra|]. intros i Hi. destruct (Nat.eqb_spec i n); [lia | reflexivity].
  - rewrite IH by lia. destruct (Nat.eqb_spec n k); [lia | lra].
Qed.

Lemma bsum_shift n f : bsum (S n) f = f 0%nat + bsum n (fun i => f (S i)).
Proof. unfold bsum. cbn [seq map]. rewrite <- seq_shift, map_map. reflexivity. Qed.

(** * matrices as functions *)
Definition fm := nat -> nat -> R.
Definition mm (k : nat) (A B : fm) : fm := fun i j => bsum k (fun l => A i l * B l j).
Definition tr (A : fm) : fm := fun i j => A j i.
Definition Ip (p : nat) : fm := fun i j => if (Nat.ltb i p && Nat.eqb i j)%bool then 1 else 0.
Definition dg (p : nat) (d : nat -> R) : fm := fun i j => if (Nat.ltb i p && Nat.eqb i j)%bool then d i else 0.
Definition scm (c : R) (A : fm) : fm := fun i j => c * A i j.
Definition rsupp (n : nat) (A : fm) : Prop := forall i j, (n <= i)%nat -> A i j = 0.
Definition csupp (m : nat) (A : fm) : Prop := forall i j, (m <= j)%nat -> A i j = 0.

Lemma fm_ext (A B : fm) : (forall i j, A i j = B i j) -> A = B.
Proof. intros H. apply functional_extensionality. intros i. apply functional_extensionality. intros j. apply H. Qed.

Lemma fm_eq_ranged n m (A B : fm) : rsupp n A -> csupp m A -> rsupp n B -> csupp m B ->
  (forall i j, (i < n)%nat -> (j < m)%nat -> A i j = B i j) -> A = B.
Proof.
  intros ra ca rb cb H. apply fm_ext. intros i j.
  destruct (Nat.lt_ge_cases i n) as [Hi|Hi]; [destruct (Nat.lt_ge_cases j m) as [Hj|Hj]|].
  - apply H; assumption.
  - rewrite ca, cb; auto.
  - rewrite ra, rb; auto.
Qed.

Lemma mm_assoc k q A B C : mm q (mm k A B) C = mm k A (mm q B C).
Proof.
  apply fm_ext. intros i j. unfold mm.
  transitivity (bsum q (fun l => bsum k (fun a => A i a * B a l * C l j))).
  { apply bsum_ext. intros l _. rewrite <- bsum_scal_r. reflexivity. }
  rewrite bsum_swap. apply bsum_ext. intros a _. rewrite <- bsum_scal_l. apply bsum_ext. intros l _. ring.
Qed.

Lemma tr_mm k A B : tr (mm k A B) = mm k (tr B) (tr A).
Proof. apply fm_ext. intros i j. unfold tr, mm. apply bsum_ext. intros l _. ring. Qed.

Lemma tr_tr A : tr (tr A) = A.
Proof. reflexivity. Qed.

Lemma tr_dg p d : tr (dg p d) = dg p d.
Proof.
  apply fm_ext. intros i j. unfold tr, dg. destruct (Nat.eqb_spec j i) as [->|Hne].
  - rewrite Nat.eqb_refl. reflexivity.
  - destruct (Nat.eqb_spec i j); [congruence|]. rewrite !andb_false_r. reflexivity.
Qed.

Lemma tr_Ip p : tr (Ip p) = Ip p.
Proof. apply (tr_dg p (fun _ => 1)). Qed.

Lemma Ip_dg p : Ip p = dg p (fun _ => 1).
Proof. reflexivity. Qed.

Lemma mm_dg_l p d B : mm p (dg p d) B = fun i j => if Nat.ltb i p then d i * B i j else 0.
Proof.
  apply fm_ext. intros i j. unfold mm, dg. destruct (Nat.ltb_spec i p) as [Hi|Hi]; cbn [andb].
  - rewrite <- (bsum_delta p i (fun l => d l * B l j) Hi). apply bsum_ext. intros l _.
    rewrite Nat.eqb_sym. destruct (Nat.eqb_spec l i) as [->|]; lra.
  - apply bsum_zero. intros; lra.
Qed.

Lemma mm_dg_r p d A : mm p A (dg p d) = fun i j => if Nat.ltb j p then A i j * d j else 0.
Proof.
  apply fm_ext. intros i j. unfold mm, dg. destruct (Nat.ltb_spec j p) as [Hj|Hj].
  - rewrite <- (bsum_delta p j (fun l => A i l * d l) Hj). apply bsum_ext. intros l Hl.
    apply Nat.ltb_lt in Hl. rewrite Hl. cbn [andb]. destruct (Nat.eqb_spec l j) as [->|]; lra.
  - apply bsum_zero. intros l Hl. destruct (Nat.eqb_spec l j); [lia|]. rewrite andb_false_r. lra.
Qed.

Lemma mm_Ip_l n B : rsupp n B -> mm n (Ip n) B = B.
Proof.
  intros Hs. rewrite Ip_dg, mm_dg_l. apply fm_ext. intros i j. destruct (Nat.ltb_spec i n); [lra|]. symmetry. apply Hs. assumption.
Qed.

Lemma mm_Ip_r m A : csupp m A -> mm m A (Ip m) = A.
Proof.
  intros Hs. rewrite Ip_dg, mm_dg_r. apply fm_ext. intros i j. destruct (Nat.ltb_spec j m); [lra|]. symmetry. apply Hs. assumption.
Qed.

Lemma dg_dg p a b : mm p (dg p a) (dg p b) = dg p (fun i => a i * b i).
Proof.
  rewrite mm_dg_l. apply fm_ext. intros i j. unfold dg. destruct (Nat.ltb i p); cbn [andb]; [|reflexivity].
  destruct (Nat.eqb i j); lra.
Qed.

Lemma dg_ext p a b : (forall i, (i < p)%nat -> a i = b i) -> dg p a = dg p b.
Proof.
  intros H. apply fm_ext. intros i j. unfold dg. destruct (Nat.ltb_spec i p); cbn [andb]; [|reflexivity].
  destruct (Nat.eqb i j); [apply H; assumption | reflexivity].
Qed.

Lemma rsupp_mm n k A B : rsupp n A -> rsupp n (mm k A B).
Proof. intros H i j Hi. unfold mm. apply bsum_zero. intros l _. rewrite H by exact Hi. lra. Qed.
Lemma csupp_mm m k A B : csupp m B -> csupp m (mm k A B).
Proof. intros H i j Hj. unfold mm. apply bsum_zero. intros l _. rewrite H by exact Hj. lra. Qed.
Lemma rsupp_tr m A : csupp m A -> rsupp m (tr A).
Proof. intros H i j Hi. apply H. exact Hi. Qed.
Lemma csupp_tr n A : rsupp n A -> csupp n (tr A).
Proof. intros H i j Hj. apply H. exact Hj. Qed.
Lemma rsupp_dg p d : rsupp p (dg p d).
Proof. intros i j Hi. unfold dg. destruct (Nat.ltb_spec i p); [lia | reflexivity]. Qed.
Lemma csupp_dg p d : csupp p (dg p d).
Proof. intros i j Hj. unfold dg. destruct (Nat.ltb_spec i p); cbn [andb]; [|reflexivity]. destruct (Nat.eqb_spec i j); [lia | reflexivity]. Qed.

Lemma mm_scm_l k c A B : mm k (scm c A) B = scm c (mm k A B).
Proof. apply fm_ext. intros i j. unfold mm, scm. rewrite <- bsum_scal_l. apply bsum_ext. intros; ring. Qed.
Lemma mm_scm_r k c A B : mm k A (scm c B) = scm c (mm k A B).
Proof. apply fm_ext. intros i j. unfold mm, scm. rewrite <- bsum_scal_l. apply bsum_ext. intros; ring. Qed.
Lemma tr_scm c A : tr (scm c A) = scm c (tr A).
Proof. reflexivity. Qed.

(** pulling the first two factors of a right-nested product together *)
Lemma mm_pair k q A B Z : mm k A (mm q B Z) = mm q (mm k A B) Z.
Proof. symmetry. apply mm_assoc. Qed.

(** * the three whitening matrices, as matrix algebra *)
Lemma dg_const p c : dg p (fun _ => c) = scm c (Ip p).
Proof. apply fm_ext. intros i j. unfold dg, scm, Ip. destruct (Nat.ltb i p && Nat.eqb i j)%bool; lra. Qed.

(** PCA: S = U diag(s) V with U^T U = I and V V^T = I, W = diag(e) V, e_i^2 s_i^2 = c2: W (S^T S) W^T = c2 I *)
Lemma pca_fm n p (S U V : fm) (s e : nat -> R) (c2 : R) :
  mm n (tr U) U = Ip p -> mm p V (tr V) = Ip p -> S = mm p (mm p U (dg p s)) V ->
  (forall i, (i < p)%nat -> e i * (s i * (s i * e i)) = c2) ->
  mm p (mm p (mm p (dg p e) V) (mm n (tr S) S)) (tr (mm p (dg p e) V)) = scm c2 (Ip p).
Proof.
  intros HU HV -> He. rewrite !tr_mm, !tr_dg. rewrite !mm_assoc.
  rewrite !(mm_pair p p V (tr V)), HV.
  rewrite (mm_Ip_l p (dg p e)) by apply rsupp_dg.
  rewrite (mm_pair n p (tr U) U), HU.
  rewrite (mm_Ip_l p (mm p (dg p s) (dg p e))) by (apply rsupp_mm, rsupp_dg).
  rewrite (mm_Ip_l p) by (apply rsupp_mm, rsupp_dg).
  rewrite !dg_dg. rewrite <- dg_const. apply dg_ext. exact He.
Qed.

(** ZCA: Sg = U diag(s) U^T with U orthogonal, W = U diag(l) U^T, l_i^2 s_i = 1: W Sg W^T = I *)
Lemma zca_fm p (Sg U : fm) (s l : nat -> R) :
  mm p (tr U) U = Ip p -> mm p U (tr U) = Ip p -> csupp p U -> Sg = mm p (mm p U (dg p s)) (tr U) ->
  (forall i, (i < p)%nat -> l i * (s i * l i) = 1) ->
  mm p (mm p (mm p (mm p U (dg p l)) (tr U)) Sg) (tr (mm p (mm p U (dg p l)) (tr U))) = Ip p.
Proof.
  intros H1 H2 HcU -> Hl. rewrite !tr_mm, !tr_dg, !tr_tr. rewrite !mm_assoc.
  rewrite !(mm_pair p p (tr U) U), H1.
  rewrite (mm_Ip_l p (mm p (dg p l) (tr U))) by (apply rsupp_mm, rsupp_dg).
  rewrite (mm_Ip_l p) by (apply rsupp_mm, rsupp_dg).
  rewrite (mm_pair p p (dg p s)), dg_dg. rewrite (mm_pair p p (dg p l)), dg_dg.
  rewrite (dg_ext p _ (fun _ => 1)) by exact Hl. rewrite <- Ip_dg, (mm_Ip_l p (tr U)) by (apply rsupp_tr; exact HcU).
  exact H2.
Qed.

(** Cholesky: Sg symmetric with right inverse P, L L^T = P^T, L non-singular, W = L^T: W Sg W^T = I *)
Lemma chol_fm p (Sg P L Li : fm) :
  tr Sg = Sg -> mm p Sg P = Ip p -> mm p L (tr L) = tr P -> mm p Li L = Ip p -> rsupp p L -> csupp p L ->
  mm p (mm p (tr L) Sg) (tr (tr L)) = Ip p.
Proof.
  intros Hsym HP HL HLi rL cL. rewrite tr_tr. set (M := mm p (mm p (tr L) Sg) L).
  assert (HPt : mm p (tr P) Sg = Ip p).
  { rewrite <- Hsym at 1. rewrite <- tr_mm, HP. apply tr_Ip. }
  assert (H1 : mm p L M = L).
  { unfold M. rewrite !mm_assoc. rewrite (mm_pair p p L (tr L)), HL. rewrite (mm_pair p p (tr P) Sg), HPt.
    apply mm_Ip_l. exact rL. }
  assert (rM : rsupp p M) by (unfold M; apply rsupp_mm, rsupp_mm, rsupp_tr; exact cL).
  rewrite <- (mm_Ip_l p M rM). rewrite <- HLi, mm_assoc, H1. reflexivity.
Qed.

(** * lists of rows read as matrices *)
Definition ent (A : list (list R)) : fm := fun i j => nth j (nth i A []) 0.

Lemma nth_nil_R j : nth j (@nil R) 0 = 0.
Proof. destruct j; reflexivity. Qed.

Lemma rect_nth {A} p (X : list (list A)) i : rect p X -> (i < length X)%nat -> length (nth i X []) = p.
Proof. intros H Hi. unfold rect in H. rewrite Forall_forall in H. apply H. apply nth_In. exact Hi. Qed.

Lemma ent_rsupp n A : length A = n -> rsupp n (ent A).
Proof. intros <- i j Hi. unfold ent. rewrite (nth_overflow A) by exact Hi. apply nth_nil_R. Qed.

Lemma ent_csupp m A : rect m A -> csupp m (ent A).
Proof.
  intros H i j Hj. unfold ent. destruct (Nat.lt_ge_cases i (length A)) as [Hi|Hi].
  - apply nth_overflow. rewrite (rect_nth m A i H Hi). exact Hj.
  - rewrite (nth_overflow A) by exact Hi. apply nth_nil_R.
Qed.

Lemma nth_map_default {A B} (f : A -> B) l d d' i : f d = d' -> nth i (map f l) d' = f (nth i l d).
Proof. intros <-. apply map_nth. Qed.

Lemma col_nth j B l : nth l (col oR j B) 0 = ent B l j.
Proof. unfold col, ent. cbn [zero oR]. apply (nth_map_default (fun r => nth j r 0) B []). apply nth_nil_R. Qed.

Lemma vdot_bsum : forall k a b, length a = k -> length b = k ->
  vdot oR a b = bsum k (fun i => nth i a 0 * nth i b 0).
Proof.
  induction k as [|k IH]; intros [|x a] [|y b] Ha Hb; simpl in Ha, Hb; try discriminate.
  - reflexivity.
  - rewrite bsum_shift. cbn [vdot nth add mul oR]. rewrite (IH a b) by lia. reflexivity.
Qed.

Lemma vsub_length : forall k a b, length a = k -> length b = k -> length (vsub oR a b) = k.
Proof. induction k as [|k IH]; intros [|x a] [|y b] Ha Hb; simpl in *; try discriminate; auto. Qed.

Lemma vsub_nth : forall a b i, (i < length a)%nat -> (i < length b)%nat ->
  nth i (vsub oR a b) 0 = nth i a 0 - nth i b 0.
Proof.
  induction a as [|x a IH]; intros [|y b] i Ha Hb; simpl in Ha, Hb; try lia.
  destruct i as [|i]; cbn [vsub nth sub oR]; [reflexivity|]. apply IH; lia.
Qed.

Lemma center_shape n p mu X : length X = n -> rect p X -> length mu = p ->
  length (center oR mu X) = n /\ rect p (center oR mu X).
Proof.
  intros Hn HX Hm. unfold center. split; [rewrite map_length; exact Hn|].
  unfold rect in *. rewrite Forall_forall in *. intros r Hr. apply in_map_iff in Hr as [x [<- Hx]].
  apply vsub_length; [apply HX; exact Hx | exact Hm].
Qed.

Lemma ent_center p mu X r i : rect p X -> length mu = p -> (r < length X)%nat -> (i < p)%nat ->
  ent (center oR mu X) r i = ent X r i - nth i mu 0.
Proof.
  intros HX Hm Hr Hi. unfold ent, center. rewrite (nth_map_lt _ X r [] []) by exact Hr.
  apply vsub_nth; [rewrite (rect_nth p X r HX Hr); exact Hi | lia].
Qed.

Lemma mat_mul_shape q A B : length (mat_mul oR q A B) = length A /\ rect q (mat_mul oR q A B).
Proof.
  unfold mat_mul. split; [apply map_length|]. unfold rect. rewrite Forall_forall. intros r Hr.
  apply in_map_iff in Hr as [a [<- _]]. rewrite map_length, seq_length. reflexivity.
Qed.

Lemma ent_mat_mul k q A B : rect k A -> length B = k -> rect q B ->
  ent (mat_mul oR q A B) = mm k (ent A) (ent B).
Proof.
  intros HA HB HBq. destruct (mat_mul_shape q A B) as [L1 L2].
  apply (fm_eq_ranged (length A) q).
  - apply ent_rsupp. exact L1.
  - apply ent_csupp. exact L2.
  - apply rsupp_mm, ent_rsupp. reflexivity.
  - apply csupp_mm, ent_csupp. exact HBq.
  - intros i j Hi Hj. unfold ent at 1. unfold mat_mul. rewrite (nth_map_lt _ A i [] []) by exact Hi.
    rewrite (nth_map_lt _ (seq 0 q) j 0 0%nat) by (rewrite seq_length; exact Hj). rewrite seq_nth by exact Hj. cbn [Nat.add].
    rewrite (vdot_bsum k); [| apply rect_nth; assumption | unfold col; rewrite map_length; exact HB].
    unfold mm. apply bsum_ext. intros l _. rewrite col_nth. reflexivity.
Qed.

Lemma mat_t_shape p A : length (mat_t oR p A) = p /\ rect (length A) (mat_t oR p A).
Proof.
  unfold mat_t. split; [apply columns_length|]. unfold rect, columns. rewrite Forall_forall. intros r Hr.
  apply in_map_iff in Hr as [j [<- _]]. unfold col. apply map_length.
Qed.

Lemma ent_mat_t p A : rect p A -> ent (mat_t oR p A) = tr (ent A).
Proof.
  intros HA. destruct (mat_t_shape p A) as [L1 L2]. apply (fm_eq_ranged p (length A)).
  - apply ent_rsupp. exact L1.
  - apply ent_csupp. exact L2.
  - apply rsupp_tr, ent_csupp. exact HA.
  - apply csupp_tr, ent_rsupp. reflexivity.
  - intros i j Hi Hj. unfold ent at 1. unfold mat_t. rewrite nth_columns by exact Hi. rewrite col_nth. reflexivity.
Qed.

Lemma ent_map_div d A : ent (map (map (fun x => x / d)) A) = scm (/ d) (ent A).
Proof.
  apply fm_ext. intros i j. unfold ent, scm.
  rewrite (nth_map_default (map (fun x => x / d)) A [] [] i eq_refl).
  rewrite (nth_map_default (fun x => x / d) (nth i A []) 0 0 j) by (unfold Rdiv; lra). unfold Rdiv. ring.
Qed.

Lemma map_div_shape n p d (A : list (list R)) : length A = n -> rect p A ->
  length (map (map (fun x => x / d)) A) = n /\ rect p (map (map (fun x => x / d)) A).
Proof.
  intros Hn HA. split; [rewrite map_length; exact Hn|]. unfold rect in *. rewrite Forall_forall in *.
  intros r Hr. apply in_map_iff in Hr as [a [<- Ha]]. rewrite map_length. apply HA. exact Ha.
Qed.

(** the covariance matrix of the model is S^T S / (n - 1) *)
Lemma cov_matrix_shape p S : length (cov_matrix oR p S) = p /\ rect p (cov_matrix oR p S).
Proof.
  unfold cov_matrix. destruct (mat_mul_shape p (mat_t oR p S) S) as [L1 L2]. destruct (mat_t_shape p S) as [L3 _].
  apply map_div_shape; [rewrite L1; exact L3 | exact L2].
Qed.

Lemma ent_cov_matrix p S : rect p S -> (1 <= length S)%nat ->
  ent (cov_matrix oR p S) = scm (/ (INR (length S) - 1)) (mm (length S) (tr (ent S)) (ent S)).
Proof.
  intros HS Hn. unfold cov_matrix. rewrite ent_map_div. destruct (mat_t_shape p S) as [_ L2].
  rewrite (ent_mat_mul (length S) p _ S L2 eq_refl HS), (ent_mat_t p S HS). rewrite of_N_R.
  rewrite minus_INR by exact Hn. reflexivity.
Qed.

(** zip_rows *)
Lemma zip_rows_length (f : list R -> R -> list R) : forall A s, length A = length s -> length (zip_rows f A s) = length A.
Proof. induction A as [|r A IH]; intros [|x s] H; simpl in *; try discriminate; auto. Qed.

Lemma zip_rows_nth (f : list R -> R -> list R) : forall A s k, length A = length s -> (k < length A)%nat ->
  nth k (zip_rows f A s) [] = f (nth k A []) (nth k s 0).
Proof.
  induction A as [|r A IH]; intros [|x s] k H Hk; simpl in *; try discriminate; try lia.
  destruct k as [|k]; [reflexivity|]. apply IH; lia.
Qed.

Lemma pca_matrix_shape floor n p s Vt : length s = p -> length Vt = p -> rect p Vt ->
  length (pca_matrix oR floor n s Vt) = p /\ rect p (pca_matrix oR floor n s Vt).
Proof.
  intros Hs HV HVr. unfold pca_matrix. split; [rewrite zip_rows_length; lia|].
  unfold rect. rewrite Forall_forall. intros r Hr. apply (In_nth _ _ []) in Hr as [k [Hk <-]].
  rewrite zip_rows_length in Hk by lia. rewrite zip_rows_nth by lia. rewrite map_length. apply rect_nth; [exact HVr | lia].
Qed.

Lemma ent_pca_matrix floor n p s Vt : length s = p -> length Vt = p -> rect p Vt ->
  ent (pca_matrix oR floor n s Vt)
  = mm p (dg p (fun k => R_sqrt.sqrt (INR (n - 1)) / fmax oR (nth k s 0) floor)) (ent Vt).
Proof.
  intros Hs HV HVr. destruct (pca_matrix_shape floor n p s Vt Hs HV HVr) as [L1 L2].
  apply (fm_eq_ranged p p).
  - apply ent_rsupp; exact L1.
  - apply ent_csupp; exact L2.
  - apply rsupp_mm, rsupp_dg.
  - apply csupp_mm, ent_csupp. exact HVr.
  - intros k i Hk Hi. rewrite mm_dg_l. apply Nat.ltb_lt in Hk as Hk'. rewrite Hk'.
    unfold ent at 1. unfold pca_matrix. rewrite zip_rows_nth by lia.
    cbn [sqrt of_N mul div oR]. rewrite Nat2N.id.
    rewrite (nth_map_default _ (nth k Vt []) 0 0 i) by lra. unfold ent. ring.
Qed.

Lemma diag_cols_shape p s : length (diag_cols oR p s) = p /\ rect p (diag_cols oR p s).
Proof.
  unfold diag_cols. split; [rewrite map_length, seq_length; reflexivity|].
  unfold rect. rewrite Forall_forall. intros r Hr. apply in_map_iff in Hr as [i [<- _]]. rewrite map_length, seq_length. reflexivity.
Qed.

Lemma ent_diag_cols p s : ent (diag_cols oR p s) = dg p (fun j => nth j s 0).
Proof.
  destruct (diag_cols_shape p s) as [L1 L2]. apply (fm_eq_ranged p p).
  - apply ent_rsupp; exact L1.
  - apply ent_csupp; exact L2.
  - apply rsupp_dg.
  - apply csupp_dg.
  - intros i j Hi Hj. unfold ent, diag_cols, dg.
    rewrite (nth_map_lt _ (seq 0 p) i [] 0%nat) by (rewrite seq_length; exact Hi). rewrite seq_nth by exact Hi.
    rewrite (nth_map_lt _ (seq 0 p) j 0 0%nat) by (rewrite seq_length; exact Hj). rewrite seq_nth by exact Hj.
    cbn [Nat.add one zero mul oR]. apply Nat.ltb_lt in Hi as Hi'. rewrite Hi'. cbn [andb].
    destruct (Nat.eqb_spec i j) as [->|]; lra.
Qed.

Lemma zca_matrix_shape floor p s U : length U = p -> rect p U ->
  length (zca_matrix oR floor p s U) = p /\ rect p (zca_matrix oR floor p s U).
Proof.
  intros HU HUr. unfold zca_matrix. cbv zeta.
  match goal with |- length (mat_mul oR p ?A ?B) = p /\ _ => destruct (mat_mul_shape p A B) as [L1 L2] end.
  split; [|exact L2]. rewrite L1.
  match goal with |- length (mat_mul oR p ?A ?B) = p => destruct (mat_mul_shape p A B) as [L3 _] end.
  rewrite L3. exact HU.
Qed.

Lemma ent_zca_matrix floor p s U : length s = p -> length U = p -> rect p U ->
  ent (zca_matrix oR floor p s U)
  = mm p (mm p (ent U) (dg p (fun j => fmax oR (1 / R_sqrt.sqrt (nth j s 0)) floor))) (tr (ent U)).
Proof.
  intros Hs HU HUr. unfold zca_matrix. set (s' := map (fun x => fmax oR (div oR (one oR) (sqrt oR x)) floor) s).
  destruct (diag_cols_shape p s') as [D1 D2]. destruct (mat_mul_shape p U (diag_cols oR p s')) as [M1 M2].
  destruct (mat_t_shape p U) as [T1 T2]. rewrite HU in T2.
  rewrite (ent_mat_mul p p _ (mat_t oR p U) M2 T1 T2).
  rewrite (ent_mat_mul p p U _ HUr D1 D2), ent_diag_cols, (ent_mat_t p U HUr).
  f_equal. f_equal. apply dg_ext. intros j Hj. unfold s'.
  rewrite (nth_map_lt _ s j 0 0) by lia. reflexivity.
Qed.

Lemma ent_chol_matrix p L : rect p L -> ent (chol_matrix oR p L) = tr (ent L).
Proof. apply ent_mat_t. Qed.

(** the transform as a product *)
Lemma whiten_transform_shape p mu W X : length W = p ->
  length (whiten_transform oR mu W X) = length X /\ rect p (whiten_transform oR mu W X).
Proof.
  intros HW. unfold whiten_transform. split; [apply map_length|]. unfold rect. rewrite Forall_forall.
  intros r Hr. apply in_map_iff in Hr as [x [<- _]]. unfold whiten_row. rewrite map_length. exact HW.
Qed.

Lemma ent_whiten_transform p mu W X : rect p X -> length mu = p -> length W = p -> rect p W ->
  ent (whiten_transform oR mu W X) = mm p (ent (center oR mu X)) (tr (ent W)).
Proof.
  intros HX Hm HW HWr. destruct (whiten_transform_shape p mu W X HW) as [L1 L2].
  destruct (center_shape (length X) p mu X eq_refl HX Hm) as [C1 C2].
  apply (fm_eq_ranged (length X) p).
  - apply ent_rsupp; exact L1.
  - apply ent_csupp; exact L2.
  - apply rsupp_mm, ent_rsupp. exact C1.
  - apply csupp_mm, csupp_tr, ent_rsupp. exact HW.
  - intros r k Hr Hk. unfold ent at 1. unfold whiten_transform. rewrite (nth_map_lt _ X r [] []) by exact Hr.
    unfold whiten_row. rewrite (nth_map_lt _ W k 0 []) by lia.
    rewrite (vdot_bsum p); [| apply vsub_length; [apply rect_nth; assumption | exact Hm] | apply rect_nth; [exact HWr | lia]].
    unfold mm, tr. apply bsum_ext. intros i Hi. f_equal. unfold ent, center.
    rewrite (nth_map_lt _ X r [] []) by exact Hr. reflexivity.
Qed.

(** * the sample covariance of a list matrix, as a function of its entries *)
Lemma col_as_seq Y k : col oR k Y = map (fun r => ent Y r k) (seq 0 (length Y)).
Proof.
  apply (nth_ext _ _ 0 0).
  - unfold col. rewrite !map_length, seq_length. reflexivity.
  - intros i Hi. unfold col in Hi. rewrite map_length in Hi. rewrite col_nth.
    rewrite (nth_map_lt _ (seq 0 (length Y)) i 0 0%nat) by (rewrite seq_length; exact Hi). rewrite seq_nth by exact Hi. reflexivity.
Qed.

Lemma map2_map_same {A} (g : R -> R -> R) (f1 f2 : A -> R) l :
  map2 g (map f1 l) (map f2 l) = map (fun r => g (f1 r) (f2 r)) l.
Proof. induction l as [|x l IH]; cbn [map map2]; [reflexivity|]. rewrite IH. reflexivity. Qed.

Lemma Rmean_seq n f : Rmean (map f (seq 0 n)) = bsum n f / INR n.
Proof. unfold Rmean, bsum. rewrite map_length, seq_length. reflexivity. Qed.

Lemma Rcov_ent Y k l : let n := length Y in
  Rcov Y k l = bsum n (fun r => (ent Y r k - bsum n (fun r => ent Y r k) / INR n) *
                                 (ent Y r l - bsum n (fun r => ent Y r l) / INR n)) / (INR n - 1).
Proof.
  intros n. unfold Rcov. cbn zeta. rewrite !col_as_seq, map2_map_same, !Rmean_seq. reflexivity.
Qed.

Lemma Forall2_refl {A} (P : A -> A -> Prop) l : (forall x, P x x) -> Forall2 P l l.
Proof. intros H. induction l; constructor; auto. Qed.

(** * assembly: if W Sigma W^T = I for the covariance Sigma of the model, the whitened data have identity covariance *)
Definition col_means (lay : layout) (p : nat) (X : list (list R)) : list R := map (col_mean oR lay) (columns oR p X).

Lemma col_means_spec lay p X j : (j < p)%nat -> nth j (col_means lay p X) 0 = Rmean (col oR j X).
Proof.
  intros Hj. unfold col_means. rewrite (nth_map_lt _ _ j 0 []) by (rewrite columns_length; exact Hj).
  rewrite nth_columns by exact Hj. apply col_mean_R.
Qed.

Lemma col_means_length lay p X : length (col_means lay p X) = p.
Proof. unfold col_means. rewrite map_length. apply columns_length. Qed.

Lemma centred_colsum lay p X i : rect p X -> (1 <= length X)%nat ->
  bsum (length X) (fun r => ent (center oR (col_means lay p X) X) r i) = 0.
Proof.
  intros HX Hn. pose proof (col_means_length lay p X) as Hm.
  destruct (center_shape (length X) p _ X eq_refl HX Hm) as [C1 C2].
  destruct (Nat.lt_ge_cases i p) as [Hi|Hi].
  - rewrite (bsum_ext _ _ (fun r => ent X r i + - nth i (col_means lay p X) 0)).
    2:{ intros r Hr. rewrite (ent_center p _ X r i HX Hm Hr Hi). ring. }
    rewrite bsum_plus, col_means_spec by exact Hi. unfold Rmean. rewrite col_as_seq, map_length, seq_length.
    fold (bsum (length X) (fun r => ent X r i)).
    rewrite (bsum_ext _ (fun _ => - (bsum (length X) (fun r => ent X r i) / INR (length X))) (fun r => (- (bsum (length X) (fun r => ent X r i) / INR (length X))) * 1)) by (intros; ring).
    rewrite bsum_scal_l. assert (E : bsum (length X) (fun _ => 1) = INR (length X)).
    { clear. induction (length X) as [|n IH]; [reflexivity|]. rewrite bsum_S, IH, S_INR. reflexivity. }
    rewrite E. assert (0 < INR (length X)) by (apply lt_0_INR; lia). field. lra.
  - apply bsum_zero. intros r _. apply (ent_csupp p _ C2). exact Hi.
Qed.

Lemma whiten_spec_of_cov lay p X W : rect p X -> (1 < length X)%nat -> length W = p -> rect p W ->
  let mu := col_means lay p X in
  mm p (mm p (ent W) (ent (cov_matrix oR p (center oR mu X)))) (tr (ent W)) = Ip p ->
  whiten_spec p 0 X mu W (whiten_transform oR mu W X).
Proof.
  intros HX Hn HW HWr mu Hcov. pose proof (col_means_length lay p X) as Hm. fold mu in Hm.
  destruct (center_shape (length X) p mu X eq_refl HX Hm) as [C1 C2]. set (Sl := center oR mu X) in *.
  unfold whiten_spec. split; [exact Hn|]. split; [exact HX|]. split; [exact Hm|]. split; [exact HW|]. split; [exact HWr|].
  split; [|split].
  - intros j Hj. unfold mu. rewrite col_means_spec by exact Hj. rewrite Rminus_diag_eq, Rabs_R0 by reflexivity. lra.
  - apply Forall2_refl. intros r. apply Forall2_refl. intros x. rewrite Rminus_diag_eq, Rabs_R0 by reflexivity. lra.
  - intros k l Hk Hl. set (Y := whiten_transform oR mu W X).
    destruct (whiten_transform_shape p mu W X HW) as [Y1 Y2]. fold Y in Y1, Y2.
    assert (EY : ent Y = mm p (ent Sl) (tr (ent W))) by (apply ent_whiten_transform; assumption).
    set (n := length X) in *.
    assert (Hsum : forall k', bsum n (fun r => ent Y r k') = 0).
    { intros k'. rewrite EY. unfold mm. rewrite bsum_swap. apply bsum_zero. intros i _.
      rewrite bsum_scal_r. unfold Sl, mu, n. rewrite centred_colsum by (assumption || lia). ring. }
    rewrite Rcov_ent, Y1. fold n. rewrite !Hsum.
    assert (Pn : 0 < INR n - 1) by (assert (2 <= INR n) by (change 2 with (INR 2); apply le_INR; lia); lra).
    rewrite (bsum_ext _ _ (fun r => tr (ent Y) k r * ent Y r l)) by (intros; unfold tr, Rdiv; ring).
    fold (mm n (tr (ent Y)) (ent Y) k l).
    assert (E : mm n (tr (ent Y)) (ent Y) = scm (INR n - 1) (mm p (mm p (ent W) (ent (cov_matrix oR p Sl))) (tr (ent W)))).
    { rewrite EY, tr_mm, tr_tr. rewrite (ent_cov_matrix p Sl C2) by (rewrite C1; lia). rewrite C1. fold n.
      rewrite mm_scm_r, mm_scm_l. rewrite !mm_assoc.
      apply fm_ext. intros a b. unfold scm. field. lra. }
    rewrite E, Hcov. unfold scm, Ip. apply Nat.ltb_lt in Hk as Hk'. rewrite Hk'. cbn [andb].
    destruct (Nat.eqb k l).
    + replace ((INR n - 1) * 1 / (INR n - 1) - 1) with 0 by (field; lra). rewrite Rabs_R0. lra.
    + replace ((INR n - 1) * 0 / (INR n - 1) - 0) with 0 by (field; lra). rewrite Rabs_R0. lra.
Qed.

(** * contracts of the decompositions (what linfa-linalg's routines return, in exact arithmetic) *)
(** compact SVD of the centred n x p data S: singular values s, V^T with orthonormal rows, and some U with
    orthonormal columns such that S = U diag(s) V^T (U is not computed by the code) *)
Definition svd_contract (n p : nat) (Sl : list (list R)) (s : list R) (Vt : list (list R)) : Prop :=
  length s = p /\ length Vt = p /\ rect p Vt /\
  mm p (ent Vt) (tr (ent Vt)) = Ip p /\
  exists U : fm, mm n (tr U) U = Ip p /\ ent Sl = mm p (mm p U (dg p (fun i => nth i s 0))) (ent Vt).

(** SVD of the symmetric positive definite p x p covariance: singular values s and an orthogonal U with
    Sigma = U diag(s) U^T (for such a matrix the left and right singular vectors coincide) *)
Definition eig_contract (p : nat) (Sg : list (list R)) (s : list R) (Ul : list (list R)) : Prop :=
  length s = p /\ length Ul = p /\ rect p Ul /\
  mm p (tr (ent Ul)) (ent Ul) = Ip p /\ mm p (ent Ul) (tr (ent Ul)) = Ip p /\
  ent Sg = mm p (mm p (ent Ul) (dg p (fun i => nth i s 0))) (tr (ent Ul)).

(** inverse followed by Cholesky: L is the (non-singular) lower factor of the transposed inverse P of Sigma *)
Definition invchol_contract (p : nat) (Sg : list (list R)) (L : list (list R)) : Prop :=
  length L = p /\ rect p L /\
  exists P Li : fm, mm p (ent Sg) P = Ip p /\ mm p (ent L) (tr (ent L)) = tr P /\ mm p Li (ent L) = Ip p.

Lemma whiten_fit_some lay floor dec m p X : X <> [] ->
  whiten_fit oR lay floor dec m p X =
  Some (col_means lay p X,
        match m with
        | WPca => let '(s, vt) := svd_vt dec (center oR (col_means lay p X) X) in pca_matrix oR floor (length X) s vt
        | WZca => let '(s, u) := svd_u dec (cov_matrix oR p (center oR (col_means lay p X) X)) in zca_matrix oR floor p s u
        | WCholesky => chol_matrix oR p (inv_chol dec (cov_matrix oR p (center oR (col_means lay p X) X)))
        end).
Proof. destruct X; [congruence | reflexivity]. Qed.

Lemma nonempty_of_len {A} (X : list A) : (1 < length X)%nat -> X <> [].
Proof. destruct X; simpl; [lia | discriminate]. Qed.

Theorem whitening_identity_covariance_pca_R lay floor dec p X s Vt mu W :
  rect p X -> (1 < length X)%nat ->
  svd_vt dec (center oR (col_means lay p X) X) = (s, Vt) ->
  svd_contract (length X) p (center oR (col_means lay p X) X) s Vt ->
  (forall i, (i < p)%nat -> 0 < nth i s 0 /\ floor <= nth i s 0) ->
  whiten_fit oR lay floor dec WPca p X = Some (mu, W) ->
  whiten_spec p 0 X mu W (whiten_transform oR mu W X).
Proof.
  intros HX Hn Hdec (Hs & HV & HVr & HVo & U & HUo & HS) Hpos Hfit.
  rewrite (whiten_fit_some _ _ _ _ _ _ (nonempty_of_len X Hn)), Hdec in Hfit. inversion Hfit; subst mu W; clear Hfit.
  destruct (pca_matrix_shape floor (length X) p s Vt Hs HV HVr) as [W1 W2].
  apply (whiten_spec_of_cov lay p X _ HX Hn W1 W2).
  destruct (center_shape (length X) p _ X eq_refl HX (col_means_length lay p X)) as [C1 C2].
  set (Sl := center oR (col_means lay p X) X) in *. set (n := length X) in *.
  rewrite (ent_cov_matrix p Sl C2) by (rewrite C1; lia). rewrite C1. fold n. rewrite mm_scm_r, mm_scm_l.
  rewrite (ent_pca_matrix floor n p s Vt Hs HV HVr).
  rewrite (dg_ext p _ (fun k => R_sqrt.sqrt (INR (n - 1)) / nth k s 0)).
  2:{ intros k Hk. destruct (Hpos k Hk) as [_ Hf]. rewrite fmax_R, Rmax_right by exact Hf. reflexivity. }
  assert (Pn : 0 < INR n - 1) by (assert (2 <= INR n) by (change 2 with (INR 2); apply le_INR; lia); lra).
  rewrite (pca_fm n p (ent Sl) U (ent Vt) (fun i => nth i s 0) _ (INR n - 1) HUo HVo HS).
  - apply fm_ext. intros i j. unfold scm. field. lra.
  - intros i Hi. destruct (Hpos i Hi) as [Hp _]. cbn beta.
    assert (E : R_sqrt.sqrt (INR (n - 1)) * R_sqrt.sqrt (INR (n - 1)) = INR n - 1).
    { rewrite sqrt_sqrt by apply pos_INR. apply minus_INR. lia. }
    rewrite <- E. field. lra.
Qed.

Theorem whitening_identity_covariance_zca_R lay floor dec p X s Ul mu W :
  rect p X -> (1 < length X)%nat ->
  svd_u dec (cov_matrix oR p (center oR (col_means lay p X) X)) = (s, Ul) ->
  eig_contract p (cov_matrix oR p (center oR (col_means lay p X) X)) s Ul ->
  (forall i, (i < p)%nat -> 0 < nth i s 0 /\ floor <= 1 / R_sqrt.sqrt (nth i s 0)) ->
  whiten_fit oR lay floor dec WZca p X = Some (mu, W) ->
  whiten_spec p 0 X mu W (whiten_transform oR mu W X).
Proof.
  intros HX Hn Hdec (Hs & HU & HUr & HU1 & HU2 & HSg) Hpos Hfit.
  rewrite (whiten_fit_some _ _ _ _ _ _ (nonempty_of_len X Hn)), Hdec in Hfit. inversion Hfit; subst mu W; clear Hfit.
  destruct (zca_matrix_shape floor p s Ul HU HUr) as [W1 W2].
  apply (whiten_spec_of_cov lay p X _ HX Hn W1 W2).
  rewrite (ent_zca_matrix floor p s Ul Hs HU HUr).
  rewrite (dg_ext p _ (fun j => 1 / R_sqrt.sqrt (nth j s 0))).
  2:{ intros k Hk. destruct (Hpos k Hk) as [_ Hf]. rewrite fmax_R, Rmax_right by exact Hf. reflexivity. }
  apply (zca_fm p _ (ent Ul) (fun i => nth i s 0)); [exact HU1 | exact HU2 | apply ent_csupp; exact HUr | exact HSg |].
  intros i Hi. destruct (Hpos i Hi) as [Hp _]. cbn beta.
  assert (Hq : 0 < R_sqrt.sqrt (nth i s 0)) by (apply sqrt_lt_R0; exact Hp).
  rewrite <- (sqrt_sqrt (nth i s 0)) at 2 by lra. field. lra.
Qed.

Theorem whitening_identity_covariance_cholesky_R lay floor dec p X L mu W :
  rect p X -> (1 < length X)%nat ->
  inv_chol dec (cov_matrix oR p (center oR (col_means lay p X) X)) = L ->
  invchol_contract p (cov_matrix oR p (center oR (col_means lay p X) X)) L ->
  whiten_fit oR lay floor dec WCholesky p X = Some (mu, W) ->
  whiten_spec p 0 X mu W (whiten_transform oR mu W X).
Proof.
  intros HX Hn Hdec (HL & HLr & P & Li & HP & HLL & HLi) Hfit.
  rewrite (whiten_fit_some _ _ _ _ _ _ (nonempty_of_len X Hn)), Hdec in Hfit. inversion Hfit; subst mu W; clear Hfit.
  destruct (mat_t_shape p L) as [W1 W2]. rewrite HL in W2.
  apply (whiten_spec_of_cov lay p X (chol_matrix oR p L) HX Hn W1 W2).
  rewrite (ent_chol_matrix p L HLr).
  destruct (center_shape (length X) p _ X eq_refl HX (col_means_length lay p X)) as [C1 C2].
  apply (chol_fm p _ P (ent L) Li); [| exact HP | exact HLL | exact HLi | apply ent_rsupp; exact HL | apply ent_csupp; exact HLr].
  rewrite (ent_cov_matrix p _ C2) by (rewrite C1; lia). rewrite tr_scm, tr_mm, tr_tr. reflexivity.
Qed.
(** * non-vacuity: a data set and decomposition results that satisfy the three contracts *)
Definition exX : list (list R) := [[0]; [0]; [2]; [4]; [4]].
Definition exS : list (list R) := [[-2]; [-2]; [0]; [2]; [2]].

Lemma exX_centred : center oR (col_means RowMajor 1 exX) exX = exS.
Proof.
  assert (E : col_means RowMajor 1 exX = [2]).
  { unfold col_means, columns, col, col_mean, col_sum, seq_sum, exX. cbn.
    replace (INR (Pos.to_nat 5)) with 5 by (simpl; lra). f_equal. lra. }
  rewrite E. unfold center, exX, exS. cbn. repeat (f_equal; try lra).
Qed.

Lemma Ip_supp p : rsupp p (Ip p) /\ csupp p (Ip p).
Proof. rewrite Ip_dg. split; [apply rsupp_dg | apply csupp_dg]. Qed.

Lemma lt1 i : (i < 1)%nat -> i = 0%nat.
Proof. lia. Qed.

Example pca_contract_satisfiable :
  svd_contract 5 1 (center oR (col_means RowMajor 1 exX) exX) [4] [[1]] /\
  (forall i, (i < 1)%nat -> 0 < nth i [4] 0 /\ / 100000000 <= nth i [4] 0).
Proof.
  rewrite exX_centred. split.
  - split; [reflexivity|]. split; [reflexivity|]. split; [repeat constructor|]. split.
    + apply (fm_eq_ranged 1 1); try apply Ip_supp.
      * apply rsupp_mm, ent_rsupp. reflexivity.
      * apply csupp_mm, csupp_tr, ent_rsupp. reflexivity.
      * intros i j Hi Hj. apply lt1 in Hi, Hj. subst. unfold mm, bsum, tr, ent, Ip, Rsum. cbn. lra.
    + exists (ent [[-1/2]; [-1/2]; [0]; [1/2]; [1/2]]). split.
      * apply (fm_eq_ranged 1 1); try apply Ip_supp.
        -- apply rsupp_mm, rsupp_tr, ent_csupp. repeat constructor.
        -- apply csupp_mm, ent_csupp. repeat constructor.
        -- intros i j Hi Hj. apply lt1 in Hi, Hj. subst. unfold mm, bsum, tr, ent, Ip, Rsum. cbn. lra.
      * apply (fm_eq_ranged 5 1).
        -- apply ent_rsupp. reflexivity.
        -- apply ent_csupp. repeat constructor.
        -- apply rsupp_mm, rsupp_mm, ent_rsupp. reflexivity.
        -- apply csupp_mm, ent_csupp. repeat constructor.
        -- intros i j Hi Hj. apply lt1 in Hj. subst j.
           do 5 (destruct i as [|i]; [unfold mm, bsum, dg, ent, exS, Rsum; cbn; lra|]). lia.
  - intros i Hi. apply lt1 in Hi. subst. cbn. lra.
Qed.

(** covariance of the example: the 1 x 1 matrix (4) *)
Lemma ex_cov : cov_matrix oR 1 exS = [[4]].
Proof.
  unfold cov_matrix, mat_mul, mat_t, columns, col, exS. cbn.
  replace (INR (Pos.to_nat 4)) with 4 by (simpl; lra). repeat f_equal. lra.
Qed.

Example zca_contract_satisfiable :
  eig_contract 1 (cov_matrix oR 1 (center oR (col_means RowMajor 1 exX) exX)) [4] [[1]] /\
  (forall i, (i < 1)%nat -> 0 < nth i [4] 0 /\ / 100000000 <= 1 / R_sqrt.sqrt (nth i [4] 0)).
Proof.
  rewrite exX_centred, ex_cov. split.
  - split; [reflexivity|]. split; [reflexivity|]. split; [repeat constructor|].
    assert (H : forall A B : fm, rsupp 1 A -> csupp 1 B -> (mm 1 A B 0%nat 0%nat = 1) -> mm 1 A B = Ip 1).
    { intros A B ra cb E. apply (fm_eq_ranged 1 1); try apply Ip_supp; [apply rsupp_mm; exact ra | apply csupp_mm; exact cb |].
      intros i j Hi Hj. apply lt1 in Hi, Hj. subst. rewrite E. reflexivity. }
    split; [|split].
    + apply H; [apply rsupp_tr, ent_csupp; repeat constructor | apply ent_csupp; repeat constructor |].
      unfold mm, bsum, tr, ent, Rsum. cbn. lra.
    + apply H; [apply ent_rsupp; reflexivity | apply csupp_tr, ent_rsupp; reflexivity |].
      unfold mm, bsum, tr, ent, Rsum. cbn. lra.
    + apply (fm_eq_ranged 1 1).
      * apply ent_rsupp. reflexivity.
      * apply ent_csupp. repeat constructor.
      * apply rsupp_mm, rsupp_mm, ent_rsupp. reflexivity.
      * apply csupp_mm, csupp_tr, ent_rsupp. reflexivity.
      * intros i j Hi Hj. apply lt1 in Hi, Hj. subst. unfold mm, bsum, tr, dg, ent, Rsum. cbn. lra.
  - intros i Hi. apply lt1 in Hi. subst. cbn [nth].
    assert (E : R_sqrt.sqrt 4 = 2) by (replace 4 with (2 * 2) by lra; apply sqrt_square; lra).
    rewrite E. lra.
Qed.

Example cholesky_contract_satisfiable :
  invchol_contract 1 (cov_matrix oR 1 (center oR (col_means RowMajor 1 exX) exX)) [[/ 2]].
Proof.
  rewrite exX_centred, ex_cov. split; [reflexivity|]. split; [repeat constructor|].
  exists (ent [[/ 4]]), (ent [[2]]).
  assert (H : forall A B C : fm, rsupp 1 A -> csupp 1 B -> rsupp 1 C -> csupp 1 C ->
              (mm 1 A B 0%nat 0%nat = C 0%nat 0%nat) -> mm 1 A B = C).
  { intros A B C ra cb rc cc E. apply (fm_eq_ranged 1 1); auto; [apply rsupp_mm; exact ra | apply csupp_mm; exact cb |].
    intros i j Hi Hj. apply lt1 in Hi, Hj. subst. exact E. }
  split; [|split].
  - apply H; try apply Ip_supp; [apply ent_rsupp; reflexivity | apply ent_csupp; repeat constructor |].
    unfold mm, bsum, ent, Ip, Rsum. cbn. lra.
  - apply H; [apply ent_rsupp; reflexivity | apply csupp_tr, ent_rsupp; reflexivity
             | apply rsupp_tr, ent_csupp; repeat constructor | apply csupp_tr, ent_rsupp; reflexivity |].
    unfold mm, bsum, tr, ent, Rsum. cbn. lra.
  - apply H; try apply Ip_supp; [apply ent_rsupp; reflexivity | apply ent_csupp; repeat constructor |].
    unfold mm, bsum, ent, Ip, Rsum. cbn. lra.
Qed.
