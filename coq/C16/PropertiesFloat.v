(** C16 - float-level (T2) property theorems for the binary64 instance of the model (statements only; proofs in
    C16/FloatNorm.v and C16/FloatLinear.v, the binary64 toolbox in C16/Float64.v).
    The model terms are the ones executed against the Rust code bit for bit: [B64_ops] are Coq's primitive
    floats, tied to IEEE-754 binary64 round-to-nearest-even by the standard library's primitive-float specification (Floats) and Flocq's
    IEEE754/PrimFloat.v.  Vocabulary:
      [f64_finite x]   x is neither an infinity nor a NaN
      [f64_R x]        the real value of a finite x (Flocq's [B2R] of [Prim2B x])
      [u64]            2^-53, the unit round-off
      [eps64f]         2^-52 = `f64::EPSILON`, the absolute guard of `abs_diff_eq!`
      [bpow radix2 e]  2^e
    Every premise of the form "at most 2^1022 / 2^1021" excludes only the top two binades of the format. *)
From Coq Require Import List ZArith Reals Floats.
From Flocq Require Import Core.
From LinfaVerif Require Import Common.Num Common.QF Common.Fma C16.Model C16.Proofs C16.Float64 C16.FloatNorm C16.FloatLinear.
Import ListNotations.
Local Open Scope R_scope.

(** ** norm scaler (closes the former OPEN item of Properties.v) *)

(** every row of finite entries is mapped to a row of finite entries - l1, l2 and max norm, NO input excluded: a norm
    that overflows to +infinity gives the zero image, a zero norm leaves the row as it is, and otherwise
    |entry| / norm stays below 2^26 even when the squares of the l2 norm underflow *)
Theorem norm_finite_float : forall k r, Forall (fun x => f64_finite x = true) r ->
  Forall (fun y => f64_finite y = true) (norm_row B64_ops k r).
Proof. intros k r H. apply finite_of_allfin, norm_finite_float_64, allfin_of_finite, H. Qed.

(** l1 and max norm: every image lies in [-1, 1] exactly (the rounded sum of the |entries| is never below an entry,
    the max involves no rounding, and a quotient of magnitude <= 1 rounds to magnitude <= 1) *)
Theorem norm_l1_max_unit_interval_float : forall k r, k <> NL2 -> Forall (fun x => f64_finite x = true) r ->
  Forall (fun y => Rabs (f64_R y) <= 1) (norm_row B64_ops k r).
Proof. intros k r Hk H. apply norm_l1_max_le_one_64; [exact Hk | apply allfin_of_finite, H]. Qed.

(** max norm: a row with a non-zero norm has an image entry of magnitude exactly one (the division x / |x| is exact) *)
Theorem norm_max_unit_float : forall r, Forall (fun x => f64_finite x = true) r ->
  PrimFloat.eqb (norm_max B64_ops r) 0%float = false ->
  exists y, In y (norm_row B64_ops NMax r) /\ Rabs (f64_R y) = 1.
Proof. intros r H. apply norm_max_unit_64, allfin_of_finite, H. Qed.

(** l2 norm: every image lies in [-(1 + 2^-51), 1 + 2^-51] for the rows whose non-zero entries have magnitude at
    least 2^-511 (their squares do not underflow; rows with entries above 2^511 are included: their norm overflows and
    the image is zero) *)
Theorem norm_l2_unit_interval_float : forall r, Forall (fun x => f64_finite x = true) r ->
  Forall (fun x => f64_R x = 0 \/ bpow radix2 (-511) <= Rabs (f64_R x)) r ->
  Forall (fun y => Rabs (f64_R y) <= 1 + 4 * u64) (norm_row B64_ops NL2 r).
Proof. intros r H Hc. apply norm_l2_le_one_64; [apply allfin_of_finite, H | exact Hc]. Qed.

(** ... and the exclusion is needed (known finding F51, underflow half): the one-entry row 1.1875 * 2^-537 has a
    non-zero computed norm and the image 1.1875; (overflow half) the row (2^600, 2^600) is mapped to (0, 0) *)
Theorem norm_l2_unit_interval_float_refuted :
  exists r, Forall (fun x => f64_finite x = true) r /\ PrimFloat.eqb (row_norm B64_ops NL2 r) 0%float = false /\
    Forall (fun y => 1 + 4 * u64 < Rabs (f64_R y)) (norm_row B64_ops NL2 r).
Proof.
  exists [0x1.3p-537%float]. destruct norm_l2_bound_needs_class as (H1 & H2 & H3).
  split; [|split; assumption]. repeat constructor.
Qed.

Theorem norm_l2_overflow_maps_to_zero :
  norm_row B64_ops NL2 [0x1p+600%float; 0x1p+600%float] = [0%float; 0%float].
Proof. exact norm_l2_overflow_zero_image. Qed.

(** ** min-max scaler *)

(** the fitted scale `1 / (max - min)` (or 1 under the guard) of a column of finite entries is always finite *)
Theorem minmax_scale_finite_float : forall c, Forall (fun x => f64_finite x = true) c -> c <> [] ->
  f64_finite (minmax_scale B64_ops eps64f c) = true.
Proof. intros c H Hne. rewrite ffin_f64_finite. apply minmax_scale_fin; [apply allfin_of_finite, H | exact Hne]. Qed.

(** the column minimum is mapped to the lower end of the range EXACTLY (as a real value; the sign of a zero may
    differ), for every column of finite entries, constant or not, whenever the width hi - lo does not overflow *)
Theorem minmax_min_end_attained_float : forall lay lo hi p X s Y j, rect p X -> (j < p)%nat ->
  fit B64_ops fma64 eps64f lay (MinMax lo hi) p X = FitOk s -> transform B64_ops s X = Some Y ->
  Forall (fun x => f64_finite x = true) (col B64_ops j X) ->
  f64_finite lo = true -> f64_finite (PrimFloat.sub hi lo) = true ->
  exists y, In y (col B64_ops j Y) /\ f64_finite y = true /\ f64_R y = f64_R lo.
Proof. exact minmax_min_end_fit. Qed.

(** the column maximum is NOT mapped to the upper end exactly: the code multiplies by the reciprocal of the spread,
    and 49 * (1/49) = 1 - 2^-53 in binary64 ... *)
Theorem minmax_max_end_attained_float_refuted :
  exists c, Forall (fun x => f64_finite x = true) c /\
    bpow radix2 (-52) < f64_R (PrimFloat.sub (col_max B64_ops c) (col_min B64_ops c)) /\
    f64_R (tr_elem B64_ops (MinMax 0%float 1%float) (col_min B64_ops c) (minmax_scale B64_ops eps64f c) (col_max B64_ops c))
    < f64_R 1%float.
Proof.
  exists [0%float; 49%float]. destruct minmax_max_end_not_exact as (H1 & H2 & H3).
  split; [repeat constructor | split; assumption].
Qed.

(** ... what IS guaranteed for a column of finite entries whose spread d = max - min (as computed) is finite, above
    the guard and at most 2^1022: with the default range 0..=1 the image of the maximum is 1 or the float just
    below it; with any range |lo|, |hi| <= 2^1021 it is finite and within 6 * 2^-53 (|lo| + |hi|) + 2^-1074 of hi
    (the oracle of the correspondence allows 16 * 2^-53 (|lo| + |hi|)) *)
Theorem minmax_max_end_unit_range_float : forall c, Forall (fun x => f64_finite x = true) c ->
  let d := PrimFloat.sub (col_max B64_ops c) (col_min B64_ops c) in
  f64_finite d = true -> bpow radix2 (-52) < f64_R d -> f64_R d <= bpow radix2 1022 ->
  let y := tr_elem B64_ops (MinMax 0%float 1%float) (col_min B64_ops c) (minmax_scale B64_ops eps64f c) (col_max B64_ops c) in
  f64_finite y = true /\ 1 - u64 <= f64_R y <= 1.
Proof.
  intros c H d Fd Hlo Hhi y. unfold y, d in *. rewrite ffin_f64_finite in Fd. rewrite ffin_f64_finite.
  exact (minmax_unit_range_max_end_64 c (allfin_of_finite c H) Fd Hlo Hhi).
Qed.

Theorem minmax_max_end_float : forall c lo hi, Forall (fun x => f64_finite x = true) c ->
  f64_finite lo = true -> f64_finite hi = true ->
  let d := PrimFloat.sub (col_max B64_ops c) (col_min B64_ops c) in
  f64_finite d = true -> bpow radix2 (-52) < f64_R d -> f64_R d <= bpow radix2 1022 ->
  Rabs (f64_R lo) <= bpow radix2 1021 -> Rabs (f64_R hi) <= bpow radix2 1021 ->
  let y := tr_elem B64_ops (MinMax lo hi) (col_min B64_ops c) (minmax_scale B64_ops eps64f c) (col_max B64_ops c) in
  f64_finite y = true /\
  Rabs (f64_R y - f64_R hi) <= 6 * u64 * (Rabs (f64_R lo) + Rabs (f64_R hi)) + bpow radix2 (-1074).
Proof.
  intros c lo hi H Fl Fh d Fd Hlo Hhi BL BH y. unfold y, d in *. rewrite ffin_f64_finite in Fl, Fh, Fd. rewrite ffin_f64_finite.
  exact (minmax_max_end_64 c lo hi (allfin_of_finite c H) Fl Fh Fd Hlo Hhi BL BH).
Qed.

(** ** max-abs scaler *)

(** a column of finite entries whose largest magnitude M is above the guard and at most 2^1022 (so that 1/M is a
    normal number) is mapped into [-1, 1] exactly, all images finite, and an entry of magnitude M is mapped to
    magnitude 1 or 1 - 2^-53 *)
Theorem maxabs_unit_interval_float : forall lay p X s Y j, rect p X -> (j < p)%nat ->
  fit B64_ops fma64 eps64f lay MaxAbs p X = FitOk s -> transform B64_ops s X = Some Y ->
  Forall (fun x => f64_finite x = true) (col B64_ops j X) ->
  bpow radix2 (-52) < f64_R (norm_max B64_ops (col B64_ops j X)) ->
  f64_R (norm_max B64_ops (col B64_ops j X)) <= bpow radix2 1022 ->
  Forall (fun y => f64_finite y = true /\ Rabs (f64_R y) <= 1) (col B64_ops j Y) /\
  exists y, In y (col B64_ops j Y) /\ 1 - u64 <= Rabs (f64_R y).
Proof. exact maxabs_unit_interval_fit. Qed.

(** ... and "maximum absolute value exactly one" is false in binary64: the column (49) is mapped to 1 - 2^-53 *)
Theorem maxabs_one_attained_float_refuted :
  exists c, Forall (fun x => f64_finite x = true) c /\ bpow radix2 (-52) < f64_R (norm_max B64_ops c) /\
    Forall (fun y => Rabs (f64_R y) < 1)
           (map (tr_elem B64_ops MaxAbs 0%float (inv_or_one B64_ops eps64f (norm_max B64_ops c))) c).
Proof.
  exists [49%float]. destruct maxabs_one_not_exact as (H1 & H2 & H3). split; [repeat constructor | split; assumption].
Qed.
