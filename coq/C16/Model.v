(** C16 - executable model of linfa-preprocessing's scalers and whitening transform
    (linear_scaling.rs: ScalingMethod::{standardize, min_max, max_abs}, LinearScaler::transform;
    norm_scaling.rs: NormScaler::transform; whitening.rs: FittedWhitener::transform and the
    dataset-level forms), a transliteration polymorphic in NumOps.  Two extra operations the
    NumOps record does not carry are section arguments: [fma] (ndarray's Welford update uses
    `mul_add`) and [eps] (`F::EPSILON`, the default epsilon of `abs_diff_eq!`).
    Run with B64_ops/fma64 and B32_ops/fma32 against Rust bit for bit, reasoned about with R_ops.
    Matrices are lists of rows; an `Array2` of shape (0, p) is the empty list (p is passed). *)
From Coq Require Import List NArith Bool.
From Coq Require String.
From LinfaVerif Require Import Common.Num Common.NdSum.
Import ListNotations.

(** memory layout of the record matrix: it decides which branch of ndarray's `sum_axis` runs *)
Inductive layout := RowMajor | ColMajor.
Inductive norm_kind := NL1 | NL2 | NMax.

Section Scalers.
Context {F : Type} (o : NumOps F) (fma : F -> F -> F -> F) (eps : F).
Notation "a + b" := (add o a b).
Notation "a - b" := (sub o a b).
Notation "a * b" := (mul o a b).
Notation "a / b" := (div o a b).

Definition mat := list (list F).

Definition col (j : nat) (X : mat) : list F := map (fun r => nth j r (zero o)) X.
Definition columns (p : nat) (X : mat) : list (list F) := map (fun j => col j X) (seq 0 p).

(** `abs_diff_eq!(s, F::zero())` : |s - 0| <= F::EPSILON (an absolute threshold: finding F14) *)
Definition abs_diff_eq0 (s : F) : bool := leb o (abs o (s - zero o)) eps.
Definition inv_or_one (s : F) : F := if abs_diff_eq0 s then one o else one o / s.

(** `mean_axis(Axis(0))` = `sum_axis(Axis(0)) / n`.  sum_axis adds the rows one after the other
    (`res = res + &row`, starting from zeros) unless axis 0 has the smaller stride (column-major
    data with n > 1), in which case every lane is summed by `.sum()` = unrolled_fold. *)
Definition col_sum (lay : layout) (c : list F) : F :=
  match lay with RowMajor => seq_sum o c | ColMajor => usum o c end.
Definition col_mean (lay : layout) (c : list F) : F :=
  col_sum lay c / of_N o (N.of_nat (length c)).

(** `var_axis(Axis(0), ddof)` - Welford, one pass over the rows, ddof = 0 *)
Definition welford_step (st : F * F * N) (x : F) : F * F * N :=
  let '(mean, ssq, i) := st in
  let count := of_N o (N.succ i) in
  let delta := x - mean in
  let mean' := mean + delta / count in
  (mean', fma (x - mean') delta ssq, N.succ i).
Definition welford (c : list F) : F * F * N := fold_left welford_step c (zero o, zero o, 0%N).
Definition col_var (c : list F) : F :=
  let '(_, ssq, _) := welford c in
  ssq / (of_N o (N.of_nat (length c)) - zero o).
Definition col_std (c : list F) : F := sqrt o (col_var c).

(** `fold_axis(Axis(0), +inf, |&acc, &el| if acc < el { acc } else { el })`; the first step always
    takes the element (nothing is smaller than +inf), so the fold starts from the first row.
    Ties (and -0 / +0) keep the later element, as in the code. *)
Definition col_min (c : list F) : F :=
  match c with
  | [] => zero o      (* n = 0 is rejected before *)
  | x :: r => fold_left (fun acc y => if ltb o acc y then acc else y) r x
  end.
Definition col_max (c : list F) : F :=
  match c with
  | [] => zero o
  | x :: r => fold_left (fun acc y => if ltb o y acc then acc else y) r x
  end.

(** Rust `f64::max` (IEEE maxNum: a NaN operand is ignored) *)
Definition fmax (a b : F) : F :=
  if eqb o a a then (if eqb o b b then (if ltb o a b then b else a) else a) else b.
(** linfa-linalg `Norm`: `iter().fold(0, |f, &v| v.abs().max(f))`, `iter().map(abs).sum()`,
    `iter().map(|x| x*x).sum().sqrt()` (Iterator::sum = sequential fold) *)
Definition norm_max (c : list F) : F := fold_left (fun f v => fmax (abs o v) f) c (zero o).
Definition norm_l1 (c : list F) : F := seq_sum o (map (abs o) c).
Definition norm_l2 (c : list F) : F := sqrt o (seq_sum o (map (fun x => x * x) c)).

Inductive method := Standard (with_mean with_std : bool) | MinMax (lo hi : F) | MaxAbs.
Record scaler := mkScaler { offsets : list F; scales : list F; meth : method }.
Inductive fit_result := FitOk (s : scaler) | NotEnoughSamples | FlippedMinMaxRange.

Definition minmax_scale (c : list F) : F :=
  let d := col_max c - col_min c in
  if abs_diff_eq0 d then one o else one o / d.

(** ScalingMethod::fit on a record matrix with n = length X rows and p columns *)
Definition fit (lay : layout) (m : method) (p : nat) (X : mat) : fit_result :=
  match X with
  | [] => NotEnoughSamples
  | _ :: _ =>
      let cs := columns p X in
      match m with
      | Standard _ ws =>
          FitOk {| offsets := map (col_mean lay) cs;
                   scales := if ws then map (fun c => inv_or_one (col_std c)) cs
                             else repeat (one o) p;
                   meth := m |}
      | MinMax lo hi =>
          if ltb o hi lo then FlippedMinMaxRange
          else FitOk {| offsets := map col_min cs; scales := map minmax_scale cs; meth := m |}
      | MaxAbs =>
          FitOk {| offsets := repeat (zero o) p;
                   scales := map (fun c => inv_or_one (norm_max c)) cs;
                   meth := m |}
      end
  end.

(** LinearScaler::transform, one element: (el - offset) * scale, `+ offset` for the no-mean
    standard scaler, then the range map of MinMax *)
Definition tr_elem (m : method) (off sc el : F) : F :=
  let base := (el - off) * sc in
  match m with
  | Standard false _ => base + off
  | Standard true _ => base
  | MinMax lo hi => base * (hi - lo) + lo
  | MaxAbs => base
  end.

Fixpoint tr_row (m : method) (offs scs row : list F) : list F :=
  match offs, scs, row with
  | f :: offs', s :: scs', x :: row' => tr_elem m f s x :: tr_row m offs' scs' row'
  | _, _, _ => []
  end.

(** None = panic (Zip over columns / offsets / scales of different lengths) *)
Definition transform (s : scaler) (X : mat) : option mat :=
  match X with
  | [] => Some X                                   (* x.is_empty() *)
  | r0 :: _ =>
      if Nat.eqb (length r0) 0 then Some X
      else if Nat.eqb (length r0) (length (offsets s)) && Nat.eqb (length r0) (length (scales s))
      then Some (map (tr_row (meth s) (offsets s) (scales s)) X)
      else None
  end.

(** NormScaler::transform: rows of zero norm are left unchanged (repair of finding F13) *)
Definition row_norm (k : norm_kind) (r : list F) : F :=
  match k with NL1 => norm_l1 r | NL2 => norm_l2 r | NMax => norm_max r end.
Definition norm_row (k : norm_kind) (r : list F) : list F :=
  let nm := row_norm k r in
  if eqb o nm (zero o) then r else map (fun el => el / nm) r.
Definition norm_transform (k : norm_kind) (X : mat) : mat := map (norm_row k) X.

(** FittedWhitener::transform: (x - mean) . W^T, row by row (the floating-point product goes
    through matrixmultiply and is not reproduced bit for bit; this is the exact-arithmetic map) *)
Fixpoint vsub (a b : list F) : list F :=
  match a, b with x :: a', y :: b' => (x - y) :: vsub a' b' | _, _ => [] end.
Fixpoint vdot (a b : list F) : F :=
  match a, b with x :: a', y :: b' => x * y + vdot a' b' | _, _ => zero o end.
Definition whiten_row (mean : list F) (W : mat) (x : list F) : list F :=
  map (fun w => vdot (vsub x mean) w) W.
Definition whiten_transform (mean : list F) (W : mat) (X : mat) : mat := map (whiten_row mean W) X.

(** Whitener::fit - the glue around the decompositions (whitening.rs).  The decompositions themselves
    (linfa-linalg's SVD, Cholesky factorisation and inverse) are outside the model: their results enter
    through the record [decomps] and are characterised by contracts in C16/WhitenProofs.v.  The matrix
    products are the exact-arithmetic ones (like [whiten_row]; the floating-point products go through
    matrixmultiply and are not reproduced bit for bit).
      mean  = records.mean_axis(0);  sigma = records - mean
      Pca:      (_, s, v_t) = svd(sigma);  s = max(s, 1e-8);  row i of v_t *= sqrt(n - 1) / s_i
      Zca:      cov = sigma^T sigma / (n - 1);  (u, s, _) = svd(cov);  s = max(1 / sqrt(s), 1e-8);
                u . (eye * s) . u^T
      Cholesky: cov as above;  (cholesky(inverse(cov)^T))^T
    [floor] is the constant `F::cast(1e-8)`. *)
Definition center (mean : list F) (X : mat) : mat := map (fun x => vsub x mean) X.
Definition mat_t (p : nat) (A : mat) : mat := columns p A.                  (* transpose of a matrix with p columns *)
Definition mat_mul (q : nat) (A B : mat) : mat :=                             (* A . B, B with q columns *)
  map (fun a => map (fun j => vdot a (col j B)) (seq 0 q)) A.
Definition cov_matrix (p : nat) (S : mat) : mat :=
  let d := of_N o (N.of_nat (Nat.sub (length S) 1)) in
  map (map (fun x => x / d)) (mat_mul p (mat_t p S) S).
Fixpoint zip_rows (f : list F -> F -> list F) (A : mat) (s : list F) : mat :=
  match A, s with r :: A', x :: s' => f r x :: zip_rows f A' s' | _, _ => [] end.
Definition pca_matrix (floor : F) (n : nat) (s : list F) (Vt : mat) : mat :=
  let c := sqrt o (of_N o (N.of_nat (Nat.sub n 1))) in
  zip_rows (fun row si => map (fun v => v * (c / fmax si floor)) row) Vt s.
(** `Array2::eye(p) * s` (broadcast along the rows): entry (i, j) = eye(i, j) * s_j *)
Definition diag_cols (p : nat) (s : list F) : mat :=
  map (fun i => map (fun j => (if Nat.eqb i j then one o else zero o) * nth j s (zero o)) (seq 0 p)) (seq 0 p).
Definition zca_matrix (floor : F) (p : nat) (s : list F) (U : mat) : mat :=
  let s' := map (fun x => fmax (one o / sqrt o x) floor) s in
  mat_mul p (mat_mul p U (diag_cols p s')) (mat_t p U).
Definition chol_matrix (p : nat) (L : mat) : mat := mat_t p L.

Inductive wmethod := WPca | WZca | WCholesky.
(** results of the decompositions as functions of their input matrix: singular values and V^T of the compact
    SVD, singular values and U of the compact SVD, lower Cholesky factor of the transposed inverse *)
Record decomps := mkDecomps {
  svd_vt : mat -> list F * mat; svd_u : mat -> list F * mat; inv_chol : mat -> mat }.

(** None = NotEnoughSamples (errors of the decompositions are not modelled) *)
Definition whiten_fit (lay : layout) (floor : F) (dec : decomps) (m : wmethod) (p : nat) (X : mat)
  : option (list F * mat) :=
  match X with
  | [] => None
  | _ :: _ =>
      let mean := map (col_mean lay) (columns p X) in
      let S := center mean X in
      Some (mean,
            match m with
            | WPca => let '(s, vt) := svd_vt dec S in pca_matrix floor (length X) s vt
            | WZca => let '(s, u) := svd_u dec (cov_matrix p S) in zca_matrix floor p s u
            | WCholesky => chol_matrix p (inv_chol dec (cov_matrix p S))
            end)
  end.

End Scalers.

Arguments method : clear implicits. Arguments scaler : clear implicits.
Arguments fit_result : clear implicits. Arguments mat : clear implicits.
Arguments Standard {F}. Arguments MinMax {F}. Arguments MaxAbs {F}.
Arguments FitOk {F}. Arguments NotEnoughSamples {F}. Arguments FlippedMinMaxRange {F}.
Arguments mkScaler {F}. Arguments offsets {F}. Arguments scales {F}. Arguments meth {F}.
Arguments decomps : clear implicits. Arguments mkDecomps {F}. Arguments svd_vt {F}. Arguments svd_u {F}. Arguments inv_chol {F}.

(** Dataset-level forms: the records are replaced, everything else is handed through
    (`DatasetBase::new(records, targets).with_weights(..).with_feature_names(..).with_target_names(..)`) *)
Record dataset (R T W : Type) := mkDataset {
  records : R; targets : T; weights : W; feature_names : list String.string; target_names : list String.string }.
Arguments mkDataset {R T W}. Arguments records {R T W}. Arguments targets {R T W}.
Arguments weights {R T W}. Arguments feature_names {R T W}. Arguments target_names {R T W}.

Definition map_records {R R' T W} (f : R -> R') (d : dataset R T W) : dataset R' T W :=
  mkDataset (f (records d)) (targets d) (weights d) (feature_names d) (target_names d).

Definition transform_dataset {F T W} (o : NumOps F) (s : scaler F) (d : dataset (list (list F)) T W)
  : option (dataset (list (list F)) T W) :=
  match transform o s (records d) with
  | Some Y => Some (map_records (fun _ => Y) d)
  | None => None
  end.
Definition norm_transform_dataset {F T W} (o : NumOps F) (k : norm_kind) (d : dataset (list (list F)) T W)
  : dataset (list (list F)) T W := map_records (norm_transform o k) d.
Definition whiten_transform_dataset {F T W} (o : NumOps F) (mean : list F) (W' : list (list F))
  (d : dataset (list (list F)) T W) : dataset (list (list F)) T W :=
  map_records (whiten_transform o mean W') d.
