(** C16 - Whitener::fit: identity covariance from the contracts of the decompositions, over R
    (statements only; model: [whiten_fit] and its parts in C16/Model.v; proofs in C16/WhitenProofs.v).

    Vocabulary (C16/WhitenProofs.v).  A list matrix A is read as the function [ent A : nat -> nat -> R]
    (entry (i, j), 0 outside the shape); [mm k A B] is the product with inner dimension k,
    [tr] the transpose, [Ip p] the p x p identity, [dg p d] the p x p diagonal matrix with entries d 0 .. d (p-1).
    The contracts say what linfa-linalg's routines return in exact arithmetic:
      [svd_contract n p S s Vt]      compact SVD of the centred n x p data: Vt is p x p with Vt Vt^T = I and there is a
                                     U with U^T U = I and S = U diag(s) Vt            (`sigma.svd(false, true)`)
      [eig_contract p C s U]         SVD of the symmetric covariance: U is p x p orthogonal and C = U diag(s) U^T
                                                                                      (`sigma.svd(true, false)`)
      [invchol_contract p C L]       L is p x p, C P = I, L L^T = P^T for some P, and L is non-singular
                                                  (`invc_inplace()?.reversed_axes().cholesky_into()?`)
    [whiten_spec p d X mu W Y] (C16/Proofs.v) is the statement certified per run by the checker [whiten_ok]: here it
    is obtained with d = 0 for every data set, i.e. mu is exactly the column mean, and the sample covariance
    (ddof 1) of Y = (X - mu) W^T is exactly the identity.
    Excluded inputs are explicit: fewer than two rows; singular values below the floor `1e-8` (the code clamps them:
    rank-deficient data do not get identity covariance) - [floor] is that constant. *)
From Coq Require Import List Reals.
From LinfaVerif Require Import Common.Num Common.QF C16.Model C16.Corr C16.Proofs C16.WhitenProofs.
Import ListNotations.
Local Open Scope R_scope.

(** PCA whitening: W = diag(sqrt(n-1) / s) V^T *)
Theorem whitening_identity_covariance_pca : forall lay floor dec p X s Vt mu W,
  rect p X -> (1 < length X)%nat ->
  svd_vt dec (center R_ops (col_means lay p X) X) = (s, Vt) ->
  svd_contract (length X) p (center R_ops (col_means lay p X) X) s Vt ->
  (forall i, (i < p)%nat -> 0 < nth i s 0 /\ floor <= nth i s 0) ->
  whiten_fit R_ops lay floor dec WPca p X = Some (mu, W) ->
  whiten_spec p 0 X mu W (whiten_transform R_ops mu W X).
Proof. exact whitening_identity_covariance_pca_R. Qed.

(** ZCA (Mahalanobis) whitening: W = U diag(1 / sqrt(s)) U^T *)
Theorem whitening_identity_covariance_zca : forall lay floor dec p X s U mu W,
  rect p X -> (1 < length X)%nat ->
  svd_u dec (cov_matrix R_ops p (center R_ops (col_means lay p X) X)) = (s, U) ->
  eig_contract p (cov_matrix R_ops p (center R_ops (col_means lay p X) X)) s U ->
  (forall i, (i < p)%nat -> 0 < nth i s 0 /\ floor <= 1 / R_sqrt.sqrt (nth i s 0)) ->
  whiten_fit R_ops lay floor dec WZca p X = Some (mu, W) ->
  whiten_spec p 0 X mu W (whiten_transform R_ops mu W X).
Proof. exact whitening_identity_covariance_zca_R. Qed.

(** Cholesky whitening: W = L^T, L the lower Cholesky factor of the transposed inverse covariance *)
Theorem whitening_identity_covariance_cholesky : forall lay floor dec p X L mu W,
  rect p X -> (1 < length X)%nat ->
  inv_chol dec (cov_matrix R_ops p (center R_ops (col_means lay p X) X)) = L ->
  invchol_contract p (cov_matrix R_ops p (center R_ops (col_means lay p X) X)) L ->
  whiten_fit R_ops lay floor dec WCholesky p X = Some (mu, W) ->
  whiten_spec p 0 X mu W (whiten_transform R_ops mu W X).
Proof. exact whitening_identity_covariance_cholesky_R. Qed.

(** the glue itself: the published mean is the column mean, the covariance matrix handed to the decompositions is
    S^T S / (n - 1) of the centred data S, and the three whitening matrices are the stated products *)
Theorem whiten_fit_glue : forall lay floor dec m p X, X <> [] ->
  whiten_fit R_ops lay floor dec m p X =
  Some (col_means lay p X,
        match m with
        | WPca => let '(s, vt) := svd_vt dec (center R_ops (col_means lay p X) X) in pca_matrix R_ops floor (length X) s vt
        | WZca => let '(s, u) := svd_u dec (cov_matrix R_ops p (center R_ops (col_means lay p X) X)) in zca_matrix R_ops floor p s u
        | WCholesky => chol_matrix R_ops p (inv_chol dec (cov_matrix R_ops p (center R_ops (col_means lay p X) X)))
        end).
Proof. exact whiten_fit_some. Qed.

Theorem whiten_glue_matrices : forall floor n p s M S, length s = p -> length M = p -> rect p M ->
  (rect p S -> (1 <= length S)%nat ->
   ent (cov_matrix R_ops p S) = scm (/ (INR (length S) - 1)) (mm (length S) (tr (ent S)) (ent S))) /\
  ent (pca_matrix R_ops floor n s M)
    = mm p (dg p (fun k => R_sqrt.sqrt (INR (n - 1)) / fmax R_ops (nth k s 0) floor)) (ent M) /\
  ent (zca_matrix R_ops floor p s M)
    = mm p (mm p (ent M) (dg p (fun j => fmax R_ops (1 / R_sqrt.sqrt (nth j s 0)) floor))) (tr (ent M)) /\
  ent (chol_matrix R_ops p M) = tr (ent M).
Proof.
  intros floor n p s M S Hs HM HMr. split; [intros HS Hn; exact (ent_cov_matrix p S HS Hn)|].
  split; [exact (ent_pca_matrix floor n p s M Hs HM HMr)|].
  split; [exact (ent_zca_matrix floor p s M Hs HM HMr) | exact (ent_chol_matrix p M HMr)].
Qed.
