(** C16 round 5 - lemmas: the fitted parameters of the linear scalers do not depend on the order of the
    training rows (exact real arithmetic; min / max folds and the running maximum of |x| are order-free,
    the mean and the Welford variance are the exact mean and population variance), and a fitted scaler
    maps a concatenation of two batches to the concatenation of their images (no state between calls). *)
From Coq Require Import List NArith Bool Reals Lra Lia Permutation.
From LinfaVerif Require Import Common.Num Common.NdSum Common.QF C16.Model C16.Corr C16.Proofs.
Import ListNotations.
Local Open Scope R_scope.

(** * columns of a row-permuted matrix are permuted columns *)
Lemma col_perm {F} (o : NumOps F) j X X' : Permutation X X' -> Permutation (col o j X) (col o j X').
Proof. intros H. unfold col. apply Permutation_map. exact H. Qed.

Lemma perm_nonempty {A} (c c' : list A) : Permutation c c' -> c <> [] -> c' <> [].
Proof. intros H Hn E. subst. apply Permutation_sym, Permutation_nil in H. contradiction. Qed.

Lemma map_columns_perm {F} (o : NumOps F) {B} (g : list F -> B) p X X' :
  (forall j, g (col o j X) = g (col o j X')) -> map g (columns o p X) = map g (columns o p X').
Proof. intros H. unfold columns. rewrite !map_map. apply map_ext. intros j. apply H. Qed.

(** * order-free column statistics over R *)
Lemma col_min_perm c c' : Permutation c c' -> col_min oR c = col_min oR c'.
Proof.
  intros H. destruct c as [|x r].
  - apply Permutation_nil in H. subst. reflexivity.
  - assert (Hn : x :: r <> []) by discriminate.
    pose proof (perm_nonempty _ _ H Hn) as Hn'.
    destruct (col_min_spec _ Hn) as [I1 L1]. destruct (col_min_spec _ Hn') as [I2 L2].
    apply Rle_antisym.
    + apply L1. apply (Permutation_in _ (Permutation_sym H)). exact I2.
    + apply L2. apply (Permutation_in _ H). exact I1.
Qed.

Lemma col_max_perm c c' : Permutation c c' -> col_max oR c = col_max oR c'.
Proof.
  intros H. destruct c as [|x r].
  - apply Permutation_nil in H. subst. reflexivity.
  - assert (Hn : x :: r <> []) by discriminate.
    pose proof (perm_nonempty _ _ H Hn) as Hn'.
    destruct (col_max_spec _ Hn) as [I1 L1]. destruct (col_max_spec _ Hn') as [I2 L2].
    apply Rle_antisym.
    + apply L2. apply (Permutation_in _ H). exact I1.
    + apply L1. apply (Permutation_in _ (Permutation_sym H)). exact I2.
Qed.

Lemma norm_max_perm c c' : Permutation c c' -> norm_max oR c = norm_max oR c'.
Proof.
  intros H. destruct (norm_max_spec c) as (P1 & B1 & A1). destruct (norm_max_spec c') as (P2 & B2 & A2).
  apply Rle_antisym.
  - destruct A1 as [E|[x [Hx E]]]; [rewrite E; exact P2|]. rewrite <- E. apply B2. apply (Permutation_in _ H Hx).
  - destruct A2 as [E|[x [Hx E]]]; [rewrite E; exact P1|]. rewrite <- E. apply B1.
    apply (Permutation_in _ (Permutation_sym H) Hx).
Qed.

Lemma Rsum_perm c c' : Permutation c c' -> Rsum c = Rsum c'.
Proof. induction 1; cbn [Rsum fold_right] in *; unfold Rsum in *; cbn [fold_right] in *; lra. Qed.

Lemma Rmean_perm c c' : Permutation c c' -> Rmean c = Rmean c'.
Proof. intros H. unfold Rmean. rewrite (Rsum_perm _ _ H), (Permutation_length H). reflexivity. Qed.

Lemma Rvar_perm c c' : Permutation c c' -> Rvar c = Rvar c'.
Proof.
  intros H. unfold Rvar. rewrite (Rmean_perm _ _ H), (Permutation_length H).
  rewrite (Rsum_perm _ _ (Permutation_map (fun x => (x - Rmean c') * (x - Rmean c')) H)). reflexivity.
Qed.

(** * the fits *)
Lemma minmax_fit_perm fma eps lay lo hi p X X' : Permutation X X' ->
  fit oR fma eps lay (MinMax lo hi) p X = fit oR fma eps lay (MinMax lo hi) p X'.
Proof.
  intros H. destruct X as [|r X]. { apply Permutation_nil in H. subst. reflexivity. }
  destruct X' as [|r' X'']. { apply Permutation_sym, Permutation_nil in H. discriminate. }
  unfold fit. cbv zeta. destruct (ltb oR hi lo); [reflexivity|].
  assert (E1 : map (col_min oR) (columns oR p (r :: X)) = map (col_min oR) (columns oR p (r' :: X''))).
  { apply map_columns_perm. intros j. apply col_min_perm, col_perm, H. }
  assert (E2 : map (minmax_scale oR eps) (columns oR p (r :: X)) = map (minmax_scale oR eps) (columns oR p (r' :: X''))).
  { apply map_columns_perm. intros j. unfold minmax_scale.
    rewrite (col_min_perm _ _ (col_perm oR j _ _ H)), (col_max_perm _ _ (col_perm oR j _ _ H)). reflexivity. }
  rewrite E1, E2. reflexivity.
Qed.

Lemma maxabs_fit_perm fma eps lay p X X' : Permutation X X' ->
  fit oR fma eps lay MaxAbs p X = fit oR fma eps lay MaxAbs p X'.
Proof.
  intros H. destruct X as [|r X]. { apply Permutation_nil in H. subst. reflexivity. }
  destruct X' as [|r' X'']. { apply Permutation_sym, Permutation_nil in H. discriminate. }
  unfold fit. cbv zeta.
  assert (E : map (fun c => inv_or_one oR eps (norm_max oR c)) (columns oR p (r :: X)) =
              map (fun c => inv_or_one oR eps (norm_max oR c)) (columns oR p (r' :: X''))).
  { apply (map_columns_perm oR (fun c => inv_or_one oR eps (norm_max oR c))). intros j.
    rewrite (norm_max_perm _ _ (col_perm oR j _ _ H)). reflexivity. }
  rewrite E. reflexivity.
Qed.

Lemma standard_fit_perm eps lay wm ws p X X' : Permutation X X' ->
  fit oR fmaR eps lay (Standard wm ws) p X = fit oR fmaR eps lay (Standard wm ws) p X'.
Proof.
  intros H. destruct X as [|r X]. { apply Permutation_nil in H. subst. reflexivity. }
  destruct X' as [|r' X'']. { apply Permutation_sym, Permutation_nil in H. discriminate. }
  unfold fit. cbv zeta.
  assert (E1 : map (col_mean oR lay) (columns oR p (r :: X)) = map (col_mean oR lay) (columns oR p (r' :: X''))).
  { apply map_columns_perm. intros j. rewrite !col_mean_R. apply Rmean_perm, col_perm, H. }
  assert (E2 : map (fun c => inv_or_one oR eps (col_std oR fmaR c)) (columns oR p (r :: X)) =
               map (fun c => inv_or_one oR eps (col_std oR fmaR c)) (columns oR p (r' :: X''))).
  { apply (map_columns_perm oR (fun c => inv_or_one oR eps (col_std oR fmaR c))). intros j. unfold col_std.
    rewrite (col_var_R (col oR j (r :: X))) by (apply col_nonempty; discriminate).
    rewrite (col_var_R (col oR j (r' :: X''))) by (apply col_nonempty; discriminate).
    rewrite (Rvar_perm _ _ (col_perm oR j _ _ H)). reflexivity. }
  rewrite E1, E2. reflexivity.
Qed.

Example minmax_fit_perm_ex :
  fit oR fmaR 0 RowMajor (MinMax 0 1) 1 [[-3]; [1]; [2]] = fit oR fmaR 0 RowMajor (MinMax 0 1) 1 [[2]; [-3]; [1]].
Proof. apply minmax_fit_perm. apply Permutation_sym. apply (Permutation_cons_app [[-3]; [1]] []). reflexivity. Qed.

(** * no state between calls: the image of two batches presented together is the two images side by side,
      in every arithmetic *)
Lemma transform_rect0 {F} (o : NumOps F) (s : scaler F) X : rect 0 X -> transform o s X = Some X.
Proof.
  intros H. unfold transform. destruct X as [|r0 X']; [reflexivity|].
  inversion H as [|? ? H0 ?]; subst. rewrite H0. reflexivity.
Qed.

Lemma transform_app {F} (o : NumOps F) (s : scaler F) p B1 B2 Y1 Y2 : rect p B1 -> rect p B2 ->
  transform o s B1 = Some Y1 -> transform o s B2 = Some Y2 -> transform o s (B1 ++ B2) = Some (Y1 ++ Y2).
Proof.
  intros R1 R2 T1 T2. destruct B1 as [|r0 B1'].
  - cbn in T1. inversion T1; subst. exact T2.
  - pose proof (transform_is_map o s p _ _ R1 T1) as E1. pose proof (transform_is_map o s p _ _ R2 T2) as E2.
    assert (R12 : rect p ((r0 :: B1') ++ B2)) by (unfold rect; apply Forall_app; split; assumption).
    revert T1. unfold transform. cbn [app].
    destruct (Nat.eqb (length r0) 0) eqn:E0.
    + intros T1. inversion T1; subst Y1. apply Nat.eqb_eq in E0.
      assert (Hp : p = 0%nat) by (inversion R1; subst; lia). subst p.
      rewrite (transform_rect0 o s B2 R2) in T2. inversion T2; subst. reflexivity.
    + destruct (_ && _); intros T1; [|discriminate]. rewrite E1, E2, <- map_app. reflexivity.
Qed.

(** * binary64: the same for finite data, through Flocq.  The running maximum of |x| is order-free bit for bit
      (it is a non-negative finite float, so its real value determines it); the min / max folds are order-free
      in value, their bits can differ in the sign of a zero (ties keep the later element). *)
From Coq Require Import ZArith Floats SpecFloat.
From Flocq Require Import Core BinarySingleNaN PrimFloat.
From LinfaVerif Require Import C16.Float64 C16.FloatNorm C16.FloatLinear.
Import LinfaVerif.Common.Num.

Lemma fold_min_spec64 r : forall x, ffin x = true -> allfin r ->
  ffin (fold_left (fun acc y => if ltb o64 acc y then acc else y) r x) = true /\
  f64_R (fold_left (fun acc y => if ltb o64 acc y then acc else y) r x) <= f64_R x /\
  forall y, In y r -> f64_R (fold_left (fun acc y => if ltb o64 acc y then acc else y) r x) <= f64_R y.
Proof.
  induction r as [|z r IH]; intros x Fx Hr; cbn [fold_left].
  - split; [exact Fx|]. split; [lra|]. intros y [].
  - inversion Hr as [|? ? Fz Hr']; subst. assert (Hl : ltb o64 x z = Rlt_bool (f64_R x) (f64_R z)) by (cbn [ltb B64_ops]; apply ltb_fin; assumption). rewrite Hl.
    destruct (Rlt_bool_spec (f64_R x) (f64_R z)) as [L|L].
    + destruct (IH x Fx Hr') as (H1 & H2 & H3). split; [exact H1|]. split; [exact H2|].
      intros y [<-|Hy]; [lra | auto].
    + destruct (IH z Fz Hr') as (H1 & H2 & H3). split; [exact H1|]. split; [lra|].
      intros y [<-|Hy]; [lra | auto].
Qed.

Lemma fold_max_spec64 r : forall x, ffin x = true -> allfin r ->
  ffin (fold_left (fun acc y => if ltb o64 y acc then acc else y) r x) = true /\
  f64_R x <= f64_R (fold_left (fun acc y => if ltb o64 y acc then acc else y) r x) /\
  forall y, In y r -> f64_R y <= f64_R (fold_left (fun acc y => if ltb o64 y acc then acc else y) r x).
Proof.
  induction r as [|z r IH]; intros x Fx Hr; cbn [fold_left].
  - split; [exact Fx|]. split; [lra|]. intros y [].
  - inversion Hr as [|? ? Fz Hr']; subst. assert (Hl : ltb o64 z x = Rlt_bool (f64_R z) (f64_R x)) by (cbn [ltb B64_ops]; apply ltb_fin; assumption). rewrite Hl.
    destruct (Rlt_bool_spec (f64_R z) (f64_R x)) as [L|L].
    + destruct (IH x Fx Hr') as (H1 & H2 & H3). split; [exact H1|]. split; [exact H2|].
      intros y [<-|Hy]; [lra | auto].
    + destruct (IH z Fz Hr') as (H1 & H2 & H3). split; [exact H1|]. split; [lra|].
      intros y [<-|Hy]; [lra | auto].
Qed.

Lemma col_min_le64 c : allfin c -> forall y, In y c -> f64_R (col_min o64 c) <= f64_R y.
Proof.
  intros Hc. destruct c as [|x r]; [intros y []|]. inversion Hc as [|? ? Fx Hr]; subst. unfold col_min.
  destruct (fold_min_spec64 r x Fx Hr) as (_ & H2 & H3). intros y [<-|Hy]; auto.
Qed.

Lemma col_max_ge64 c : allfin c -> forall y, In y c -> f64_R y <= f64_R (col_max o64 c).
Proof.
  intros Hc. destruct c as [|x r]; [intros y []|]. inversion Hc as [|? ? Fx Hr]; subst. unfold col_max.
  destruct (fold_max_spec64 r x Fx Hr) as (_ & H2 & H3). intros y [<-|Hy]; auto.
Qed.

Lemma allfin_perm c c' : allfin c -> Permutation c c' -> allfin c'.
Proof. unfold allfin. intros Hc H. exact (Permutation_Forall H Hc). Qed.

Lemma col_min_perm64 c c' : allfin c -> Permutation c c' -> f64_R (col_min o64 c) = f64_R (col_min o64 c').
Proof.
  intros Hc H. pose proof (allfin_perm _ _ Hc H) as Hc'. destruct c as [|x r].
  - apply Permutation_nil in H. subst. reflexivity.
  - assert (Hn : x :: r <> []) by discriminate. pose proof (perm_nonempty _ _ H Hn) as Hn'.
    apply Rle_antisym.
    + apply (col_min_le64 _ Hc). apply (Permutation_in _ (Permutation_sym H)). apply col_min_in. exact Hn'.
    + apply (col_min_le64 _ Hc'). apply (Permutation_in _ H). apply col_min_in. exact Hn.
Qed.

Lemma col_max_perm64 c c' : allfin c -> Permutation c c' -> f64_R (col_max o64 c) = f64_R (col_max o64 c').
Proof.
  intros Hc H. pose proof (allfin_perm _ _ Hc H) as Hc'. destruct c as [|x r].
  - apply Permutation_nil in H. subst. reflexivity.
  - assert (Hn : x :: r <> []) by discriminate. pose proof (perm_nonempty _ _ H Hn) as Hn'.
    apply Rle_antisym.
    + apply (col_max_ge64 _ Hc'). apply (Permutation_in _ H). apply col_max_in. exact Hn.
    + apply (col_max_ge64 _ Hc). apply (Permutation_in _ (Permutation_sym H)). apply col_max_in. exact Hn'.
Qed.

Lemma fmax_choice (a b : PrimFloat.float) : fmax o64 a b = a \/ fmax o64 a b = b.
Proof. unfold fmax. destruct (eqb o64 a a); [destruct (eqb o64 b b); [destruct (ltb o64 a b)|]|]; auto. Qed.

Lemma norm_max_fold_att64 : forall r acc,
  fold_left (fun f v => fmax o64 (abs o64 v) f) r acc = acc \/
  exists x, In x r /\ fold_left (fun f v => fmax o64 (abs o64 v) f) r acc = PrimFloat.abs x.
Proof.
  induction r as [|z r IH]; intros acc; cbn [fold_left]; [left; reflexivity|].
  destruct (IH (fmax o64 (abs o64 z) acc)) as [E|[x [Hx E]]].
  - destruct (fmax_choice (abs o64 z) acc) as [Hc|Hc].
    + right. exists z. split; [left; reflexivity | rewrite E; exact Hc].
    + left. rewrite E. exact Hc.
  - right. exists x. split; [right; exact Hx | exact E].
Qed.

Lemma norm_max_att64 c : norm_max o64 c = 0%float \/ exists x, In x c /\ norm_max o64 c = PrimFloat.abs x.
Proof. exact (norm_max_fold_att64 c 0%float). Qed.

Lemma norm_max_le64 c c' : allfin c -> allfin c' -> Permutation c c' ->
  f64_R (norm_max o64 c) <= f64_R (norm_max o64 c').
Proof.
  intros Hc Hc' H. destruct (norm_max_spec64 c' Hc') as (F2 & N2 & B2).
  destruct (norm_max_att64 c) as [E|[x [Hx E]]]; rewrite E.
  - rewrite f64_R_zero. apply nn_nonneg. exact N2.
  - destruct (abs_spec64 x (allfin_in c x Hc Hx)) as (_ & E1 & _). rewrite E1.
    rewrite Forall_forall in B2. apply B2. apply (Permutation_in _ H Hx).
Qed.

Lemma norm_max_perm64 c c' : allfin c -> Permutation c c' -> norm_max o64 c = norm_max o64 c'.
Proof.
  intros Hc H. pose proof (allfin_perm _ _ Hc H) as Hc'.
  destruct (norm_max_spec64 c Hc) as (F1 & [_ S1] & _). destruct (norm_max_spec64 c' Hc') as (F2 & [_ S2] & _).
  apply Prim2B_inj. apply B2R_Bsign_inj; [exact F1 | exact F2 | | rewrite S1, S2; reflexivity].
  apply Rle_antisym; [exact (norm_max_le64 c c' Hc Hc' H) | exact (norm_max_le64 c' c Hc' Hc (Permutation_sym H))].
Qed.

Lemma col_allfin j X : Forall allfin X -> allfin (col o64 j X).
Proof.
  intros HX. unfold col, allfin. apply Forall_forall. intros v Hv. apply in_map_iff in Hv as [r [<- Hr]].
  rewrite Forall_forall in HX. destruct (nth_in_or_default j r (zero o64)) as [Hin|E].
  - exact (allfin_in r _ (HX r Hr) Hin).
  - rewrite E. exact ffin_zero.
Qed.

Lemma maxabs_fit_perm64 fma eps lay p X X' : Forall allfin X -> Permutation X X' ->
  fit o64 fma eps lay MaxAbs p X = fit o64 fma eps lay MaxAbs p X'.
Proof.
  intros HX H. destruct X as [|r X]. { apply Permutation_nil in H. subst. reflexivity. }
  destruct X' as [|r' X'']. { apply Permutation_sym, Permutation_nil in H. discriminate. }
  unfold fit. cbv zeta.
  assert (E : map (fun c => inv_or_one o64 eps (norm_max o64 c)) (columns o64 p (r :: X)) =
              map (fun c => inv_or_one o64 eps (norm_max o64 c)) (columns o64 p (r' :: X''))).
  { apply (map_columns_perm o64 (fun c => inv_or_one o64 eps (norm_max o64 c))). intros j.
    rewrite (norm_max_perm64 _ _ (col_allfin j _ HX) (col_perm o64 j _ _ H)). reflexivity. }
  rewrite E. reflexivity.
Qed.

Lemma minmax_stats_perm64 X X' j : Forall allfin X -> Permutation X X' ->
  f64_R (col_min o64 (col o64 j X)) = f64_R (col_min o64 (col o64 j X')) /\
  f64_R (col_max o64 (col o64 j X)) = f64_R (col_max o64 (col o64 j X')).
Proof.
  intros HX H. split; [apply col_min_perm64 | apply col_max_perm64]; try (apply col_allfin; exact HX); apply col_perm, H.
Qed.

(** the bits of the minimum do depend on the order when zeros of both signs tie *)
Lemma minmax_offset_zero_sign_order :
  col_min o64 [0%float; (-0)%float] <> col_min o64 [(-0)%float; 0%float] /\
  f64_R (col_min o64 [0%float; (-0)%float]) = f64_R (col_min o64 [(-0)%float; 0%float]).
Proof.
  split.
  - intros E. apply (f_equal Prim2SF) in E. vm_compute in E. discriminate.
  - apply col_min_perm64; [repeat constructor | apply perm_swap].
Qed.

(** statements in the vocabulary of PropertiesFloat.v ([f64_finite]) *)
Definition finite_matrix (X : list (list PrimFloat.float)) : Prop := Forall (Forall (fun x => f64_finite x = true)) X.

Lemma finite_matrix_allfin X : finite_matrix X -> Forall allfin X.
Proof. unfold finite_matrix. apply Forall_impl. intros r Hr. apply allfin_of_finite, Hr. Qed.

Lemma maxabs_fit_perm_float fma eps lay p X X' : finite_matrix X -> Permutation X X' ->
  fit B64_ops fma eps lay MaxAbs p X = fit B64_ops fma eps lay MaxAbs p X'.
Proof. intros HX. apply maxabs_fit_perm64, finite_matrix_allfin, HX. Qed.

Lemma minmax_stats_perm_float X X' j : finite_matrix X -> Permutation X X' ->
  f64_R (col_min B64_ops (col B64_ops j X)) = f64_R (col_min B64_ops (col B64_ops j X')) /\
  f64_R (col_max B64_ops (col B64_ops j X)) = f64_R (col_max B64_ops (col B64_ops j X')).
Proof. intros HX. apply minmax_stats_perm64, finite_matrix_allfin, HX. Qed.

Example finite_matrix_ex : finite_matrix [[(-5)%float; 1%float]; [2%float; 0%float]].
Proof. repeat constructor. Qed.
