(** C16 round 5 - property theorems about the ROW ORDER of the fitting data and about state between calls
    (statements only; proofs in C16/ProofsR5.v).  Vocabulary as in Properties.v / PropertiesFloat.v:
    [Permutation X X'] - X' has the rows of the record matrix X in another order; [fit] / [transform] are the
    model of ScalingMethod::fit / LinearScaler::transform (C16/Model.v), at [R_ops] in exact real arithmetic
    and at [B64_ops] the term that is run against the Rust code bit for bit; [finite_matrix X] - every entry
    is a finite binary64 number (no infinity, no NaN); [f64_R] - the real value of a finite float. *)
From Coq Require Import List ZArith Reals Floats Permutation.
From Flocq Require Import Core.
From LinfaVerif Require Import Common.Num Common.QF C16.Model C16.Proofs C16.Float64 C16.FloatNorm C16.FloatLinear C16.ProofsR5.
Import ListNotations.
Local Open Scope R_scope.

(** min-max scaling: the whole fit result (offsets = column minima, scales = 1 / (max - min) or 1 under the guard,
    or the FlippedMinMaxRange / NotEnoughSamples outcome) does not depend on the order of the training rows -
    exact arithmetic, any fused multiply-add, any guard, both layouts *)
Theorem minmax_fit_is_row_order_invariant : forall fma eps lay lo hi p X X', Permutation X X' ->
  fit R_ops fma eps lay (MinMax lo hi) p X = fit R_ops fma eps lay (MinMax lo hi) p X'.
Proof. exact minmax_fit_perm. Qed.

(** max-abs scaling: the same (scales = 1 / max |x| or 1 under the guard; the running maximum of |x| starts from
    0 and takes |x| of EVERY row, the first one included) *)
Theorem maxabs_fit_is_row_order_invariant : forall fma eps lay p X X', Permutation X X' ->
  fit R_ops fma eps lay MaxAbs p X = fit R_ops fma eps lay MaxAbs p X'.
Proof. exact maxabs_fit_perm. Qed.

(** standard scaling in exact arithmetic: the row-by-row / unrolled sums and the one-pass Welford recurrence are
    the exact mean and population variance, so the fit is order-free as well (in floating point only up to the
    summation order: no float-level statement is made for it) *)
Theorem standard_fit_is_row_order_invariant : forall eps lay wm ws p X X', Permutation X X' ->
  fit R_ops fmaR eps lay (Standard wm ws) p X = fit R_ops fmaR eps lay (Standard wm ws) p X'.
Proof. exact standard_fit_perm. Qed.

(** binary64, the executed term: on finite data the max-abs fit is row-order invariant BIT FOR BIT (max of the
    non-negative finite floats |x| is associative and commutative when there is no NaN) *)
Theorem maxabs_fit_is_row_order_invariant_float : forall fma eps lay p X X', finite_matrix X -> Permutation X X' ->
  fit B64_ops fma eps lay MaxAbs p X = fit B64_ops fma eps lay MaxAbs p X'.
Proof. exact maxabs_fit_perm_float. Qed.

(** binary64: on finite data the column minimum and maximum the min-max fit is built from have row-order
    invariant VALUES ... *)
Theorem minmax_extrema_row_order_invariant_float : forall X X' j, finite_matrix X -> Permutation X X' ->
  f64_R (col_min B64_ops (col B64_ops j X)) = f64_R (col_min B64_ops (col B64_ops j X')) /\
  f64_R (col_max B64_ops (col B64_ops j X)) = f64_R (col_max B64_ops (col B64_ops j X')).
Proof. exact minmax_stats_perm_float. Qed.

(** ... but not bits: among tied elements the folds keep the later one, so a column of zeros of both signs gets
    the sign of its last zero as offset *)
Theorem minmax_offset_bits_depend_on_row_order :
  col_min B64_ops [0%float; (-0)%float] <> col_min B64_ops [(-0)%float; 0%float] /\
  f64_R (col_min B64_ops [0%float; (-0)%float]) = f64_R (col_min B64_ops [(-0)%float; 0%float]).
Proof. exact minmax_offset_zero_sign_order. Qed.

(** no state between calls, in every arithmetic: a fitted scaler maps two batches presented together to the two
    images side by side - so the image of a batch does not depend on what was transformed before it
    (row selection / reordering: [transform_affine_rowwise] of Properties.v) *)
Theorem transform_is_rowwise_fixed_map_batches : forall F (o : NumOps F) (s : scaler F) p B1 B2 Y1 Y2,
  rect p B1 -> rect p B2 -> transform o s B1 = Some Y1 -> transform o s B2 = Some Y2 ->
  transform o s (B1 ++ B2) = Some (Y1 ++ Y2).
Proof. exact (@transform_app). Qed.
