(** C16 - float-level (binary64) facts about the norm scaler: finiteness and the bound on the images *)
From Coq Require Import ZArith Reals Floats List Lra Lia Bool Psatz.
From Flocq Require Import Core Relative BinarySingleNaN PrimFloat.
From LinfaVerif Require Import Common.Num Common.NdSum Common.QF C16.Model.
From LinfaVerif Require Import C16.Float64.
Import ListNotations.
Local Open Scope R_scope.

Notation o64 := B64_ops.
Definition allfin (r : list PrimFloat.float) : Prop := Forall (fun x => ffin x = true) r.

Lemma allfin_of_finite c : Forall (fun x => f64_finite x = true) c -> allfin c.
Proof. unfold allfin. intros H. rewrite Forall_forall in *. intros x Hx. rewrite <- ffin_f64_finite. exact (H x Hx). Qed.
Lemma finite_of_allfin c : allfin c -> Forall (fun x => f64_finite x = true) c.
Proof. unfold allfin. intros H. rewrite Forall_forall in *. intros x Hx. rewrite ffin_f64_finite. exact (H x Hx). Qed.

Lemma norm_l1_unfold r : norm_l1 o64 r = fold_left PrimFloat.add (map PrimFloat.abs r) 0%float.
Proof. reflexivity. Qed.
Lemma norm_l2_unfold r :
  norm_l2 o64 r = PrimFloat.sqrt (fold_left PrimFloat.add (map (fun x => (x * x)%float) r) 0%float).
Proof. reflexivity. Qed.

(** l1: the computed norm is +infinity or a finite value that dominates every |entry| *)
Lemma norm_l1_spec r : allfin r ->
  nn (norm_l1 o64 r) /\
  (ffin (norm_l1 o64 r) = true -> Forall (fun el => Rabs (f64_R el) <= f64_R (norm_l1 o64 r)) r).
Proof.
  intros Hr. rewrite norm_l1_unfold.
  assert (Hn : Forall nn (map PrimFloat.abs r)).
  { apply Forall_forall. intros v Hv. apply in_map_iff in Hv as [x [<- Hx]].
    unfold allfin in Hr. rewrite Forall_forall in Hr. apply (abs_spec64 x (Hr x Hx)). }
  destruct (fold_add_nn (map PrimFloat.abs r) 0%float nn_zero Hn) as [H1 H2]. split; [exact H1|].
  intros Fs. destruct (H2 Fs) as (_ & _ & L). rewrite Forall_forall in L. apply Forall_forall. intros el Hel.
  unfold allfin in Hr. rewrite Forall_forall in Hr.
  destruct (abs_spec64 el (Hr el Hel)) as (_ & E & _). rewrite <- E.
  apply (L (PrimFloat.abs el)). apply in_map. exact Hel.
Qed.

(** max: no rounding at all *)
Lemma fmax_fin a b : ffin a = true -> ffin b = true ->
  (fmax o64 a b = a \/ fmax o64 a b = b) /\ f64_R a <= f64_R (fmax o64 a b) /\ f64_R b <= f64_R (fmax o64 a b).
Proof.
  intros Fa Fb. unfold fmax. cbn [eqb ltb B64_ops].
  rewrite (eqb_fin a a), (eqb_fin b b), (ltb_fin a b) by assumption.
  rewrite !Req_bool_true by reflexivity.
  destruct (Rlt_bool_spec (f64_R a) (f64_R b)); (split; [auto | split; lra]).
Qed.

Lemma norm_max_fold_spec64 : forall r acc, allfin r -> ffin acc = true -> nn acc ->
  let nm := fold_left (fun f v => fmax o64 (abs o64 v) f) r acc in
  ffin nm = true /\ nn nm /\ f64_R acc <= f64_R nm /\ Forall (fun el => Rabs (f64_R el) <= f64_R nm) r.
Proof.
  induction r as [|x r IH]; intros acc Hr Fa Na; cbn [fold_left].
  - split; [exact Fa|]. split; [exact Na|]. split; [lra | constructor].
  - inversion Hr as [|? ? Fx Hr']; subst. change (abs o64 x) with (PrimFloat.abs x).
    destruct (abs_spec64 x Fx) as (F1 & E1 & N1).
    destruct (fmax_fin (PrimFloat.abs x) acc F1 Fa) as (Hc & L1 & L2).
    assert (Fm : ffin (fmax o64 (PrimFloat.abs x) acc) = true) by (destruct Hc as [-> | ->]; assumption).
    assert (Nm : nn (fmax o64 (PrimFloat.abs x) acc)) by (destruct Hc as [-> | ->]; assumption).
    destruct (IH _ Hr' Fm Nm) as (G1 & G2 & G3 & G4).
    split; [exact G1|]. split; [exact G2|]. split; [lra|]. constructor; [rewrite <- E1; lra | exact G4].
Qed.

Lemma norm_max_spec64 r : allfin r ->
  ffin (norm_max o64 r) = true /\ nn (norm_max o64 r) /\ Forall (fun el => Rabs (f64_R el) <= f64_R (norm_max o64 r)) r.
Proof.
  intros Hr. destruct (norm_max_fold_spec64 r 0%float Hr ffin_zero nn_zero) as (H1 & H2 & _ & H4). auto.
Qed.

(** l2: the computed norm is +infinity, or finite and
    - at least |el| (1 - u)^2 for every entry whose square does not underflow (|el| >= 2^-511),
    - at least 2^-537 when it is not zero (so |el| <= 2^26 norm for the entries below 2^-511) *)
Lemma one_plus_4u : (1 + 4 * u64) * ((1 - u64) * (1 - u64)) >= 1.
Proof. pose proof u64_bounds as [H1 H2]. nra. Qed.

Lemma norm_l2_spec r : allfin r ->
  nn (norm_l2 o64 r) /\
  (ffin (norm_l2 o64 r) = true ->
   Forall (fun el =>
     (bpow radix2 (-511) <= Rabs (f64_R el) -> Rabs (f64_R el) <= (1 + 4 * u64) * f64_R (norm_l2 o64 r)) /\
     (0 < f64_R (norm_l2 o64 r) -> Rabs (f64_R el) <= bpow radix2 26 * f64_R (norm_l2 o64 r))) r).
Proof.
  intros Hr. rewrite norm_l2_unfold. set (qs := map (fun x => (x * x)%float) r).
  assert (Hn : Forall nn qs).
  { apply Forall_forall. intros v Hv. apply in_map_iff in Hv as [x [<- Hx]].
    unfold allfin in Hr. rewrite Forall_forall in Hr. apply (mul_self_nn x (Hr x Hx)). }
  destruct (fold_add_nn qs 0%float nn_zero Hn) as [Ns Hs]. set (s := fold_left PrimFloat.add qs 0%float) in *.
  destruct (sqrt_nn s Ns) as (Nm & Fm & Em). split; [exact Nm|]. set (nm := PrimFloat.sqrt s) in *.
  intros Fn. rewrite Fm in Fn. destruct (Hs Fn) as (_ & _ & L). rewrite Forall_forall in L.
  pose proof (nn_nonneg s Ns) as Ps. pose proof u64_bounds as [U1 U2].
  (* first claim, for one entry *)
  assert (C1 : forall el, In el r -> bpow radix2 (-511) <= Rabs (f64_R el) ->
               Rabs (f64_R el) <= (1 + 4 * u64) * f64_R nm).
  { intros el Hel Ha. set (a := Rabs (f64_R el)) in *.
    unfold allfin in Hr. rewrite Forall_forall in Hr. pose proof (Hr el Hel) as Fe.
    destruct (L (el * el)%float) as [Fq Lq]. { unfold qs. apply in_map_iff. exists el. auto. }
    destruct (mul_self_nn el Fe) as [_ Eq]. specialize (Eq Fq).
    assert (Esq : f64_R el * f64_R el = a * a).
    { unfold a. destruct (Rcase_abs (f64_R el)) as [H|H]; [rewrite Rabs_left by exact H | rewrite Rabs_right by exact H]; ring. }
    rewrite Esq in Eq.
    assert (Hb : bpow radix2 (-1022) = bpow radix2 (-511) * bpow radix2 (-511)) by (rewrite <- bpow_plus; reflexivity).
    pose proof (bpow_gt_0 radix2 (-511)) as P511.
    assert (Ha2 : bpow radix2 (-1022) <= a * a) by (rewrite Hb; nra).
    pose proof (rnd_rel_lower (a * a) Ha2) as Lq2. rewrite <- Eq in Lq2.
    assert (Hsq : a * (1 - u64) <= R_sqrt.sqrt (f64_R s)).
    { rewrite <- (sqrt_square (a * (1 - u64))) by nra. apply sqrt_le_1_alt. nra. }
    assert (Hlow : bpow radix2 (-1022) <= a * (1 - u64)).
    { rewrite Hb. assert (bpow radix2 (-511) <= / 2).
      { apply Rle_trans with (bpow radix2 (-1)); [apply bpow_le; lia | simpl; lra]. }
      nra. }
    pose proof (rnd_rel_lower _ Hlow) as L3. pose proof (rnd_mono _ _ Hsq) as L4. rewrite <- Em in L4.
    pose proof one_plus_4u as H4u.
    assert (Hnm : a * ((1 - u64) * (1 - u64)) <= f64_R nm) by lra.
    assert (Pa : 0 <= a) by (unfold a; apply Rabs_pos).
    nra. }
  apply Forall_forall. intros el Hel. split; [apply C1; exact Hel|].
  intros Pn.
  assert (Hs0 : 0 < f64_R s).
  { destruct (Rle_lt_or_eq_dec _ _ Ps) as [H|H]; [exact H|]. rewrite <- H, sqrt_0, rnd_0 in Em. lra. }
  pose proof (generic_pos_ge_min _ Hs0 (f64_R_generic s)) as Hmin.
  assert (Hroot : bpow radix2 (-537) <= f64_R nm).
  { rewrite Em. apply rnd_ge_gen; [apply bpow_generic; lia|].
    rewrite <- (sqrt_bpow radix2 (-537)). apply sqrt_le_1_alt. exact Hmin. }
  destruct (Rle_lt_dec (bpow radix2 (-511)) (Rabs (f64_R el))) as [Hbig|Hsmall].
  - pose proof (C1 el Hel Hbig) as Hc. apply Rle_trans with (1 := Hc).
    apply Rmult_le_compat_r; [lra|]. apply Rle_trans with 2; [lra|].
    change 2 with (bpow radix2 1). apply bpow_le. lia.
  - apply Rle_trans with (bpow radix2 (-511)); [lra|].
    replace (bpow radix2 (-511)) with (bpow radix2 26 * bpow radix2 (-537)) by (rewrite <- bpow_plus; reflexivity).
    apply Rmult_le_compat_l; [apply bpow_ge_0 | exact Hroot].
Qed.

(** * the row transformation *)
Lemma norm_row_bound k r B : allfin r -> nn (row_norm o64 k r) ->
  generic_format radix2 fx B -> 0 <= B -> B < bpow radix2 1024 ->
  (ffin (row_norm o64 k r) = true -> 0 < f64_R (row_norm o64 k r) ->
   Forall (fun el => Rabs (f64_R el) <= B * f64_R (row_norm o64 k r)) r) ->
  allfin (norm_row o64 k r) /\
  ((ffin (row_norm o64 k r) = true -> f64_R (row_norm o64 k r) = 0 -> Forall (fun el => Rabs (f64_R el) <= B) r) ->
   Forall (fun y => Rabs (f64_R y) <= B) (norm_row o64 k r)).
Proof.
  intros Hr Nn HB HB0 HBm Hb. unfold norm_row. set (nm := row_norm o64 k r) in *.
  cbn [eqb zero div B64_ops]. pose proof (nn_eqb_zero nm Nn) as Hz.
  destruct (nm =? 0)%float eqn:Ez.
  - destruct Hz as [Fz Ez0]. split; [exact Hr|]. intros H. exact (H Fz Ez0).
  - assert (Hall : forall el, In el r -> ffin (el / nm)%float = true /\ Rabs (f64_R (el / nm)%float) <= B).
    { intros el Hel. unfold allfin in Hr. rewrite Forall_forall in Hr.
      destruct (div_by_nn el nm B (Hr el Hel) Nn Ez HB HBm) as (H1 & H2 & _); auto.
      intros Fn. specialize (Hb Fn (Hz Fn)). rewrite Forall_forall in Hb. apply Hb. exact Hel. }
    split.
    + apply Forall_forall. intros y Hy. apply in_map_iff in Hy as [el [<- Hel]]. apply Hall. exact Hel.
    + intros _. apply Forall_forall. intros y Hy. apply in_map_iff in Hy as [el [<- Hel]]. apply Hall. exact Hel.
Qed.

Lemma one_generic : generic_format radix2 fx 1.
Proof. change 1 with (bpow radix2 0). apply bpow_generic. lia. Qed.

Lemma one_4u_generic : generic_format radix2 fx (1 + 4 * u64).
Proof.
  rewrite fx_FLT. apply generic_format_FLT. exists (Float radix2 (2 ^ 51 + 1) (-51)).
  - unfold F2R, u64. cbn [Fnum Fexp]. rewrite plus_IZR, Rmult_plus_distr_r.
    change (IZR (2 ^ 51)) with (bpow radix2 51). rewrite <- bpow_plus. 
    replace (4 * bpow radix2 (-53)) with (bpow radix2 2 * bpow radix2 (-53)) by (simpl; lra).
    rewrite <- bpow_plus. change (51 + -51)%Z with 0%Z. change (2 + -53)%Z with (-51)%Z.
    change (bpow radix2 0) with 1. ring.
  - cbn [Fnum]. reflexivity.
  - cbn [Fexp]. lia.
Qed.

Lemma lt_bpow_1024 x : x <= bpow radix2 26 -> x < bpow radix2 1024.
Proof. intros H. apply Rle_lt_trans with (1 := H). apply bpow_lt. lia. Qed.

Theorem norm_finite_float_64 k r : allfin r -> allfin (norm_row o64 k r).
Proof.
  intros Hr. destruct k.
  - destruct (norm_l1_spec r Hr) as [Nn Hb].
    apply (norm_row_bound NL1 r 1 Hr Nn one_generic); [lra | apply lt_bpow_1024; change 1 with (bpow radix2 0); apply bpow_le; lia |].
    intros Fn _. specialize (Hb Fn). eapply Forall_impl; [|exact Hb]. cbn beta. cbn [row_norm]. intros; lra.
  - destruct (norm_l2_spec r Hr) as [Nn Hb].
    apply (norm_row_bound NL2 r (bpow radix2 26) Hr Nn); [apply bpow_generic; lia | apply bpow_ge_0 | apply bpow_lt; lia |].
    intros Fn Pn. specialize (Hb Fn). eapply Forall_impl; [|exact Hb]. cbn beta. cbn [row_norm]. intros el [_ H]. exact (H Pn).
  - destruct (norm_max_spec64 r Hr) as (Fn & Nn & Hb).
    apply (norm_row_bound NMax r 1 Hr Nn one_generic); [lra | apply lt_bpow_1024; change 1 with (bpow radix2 0); apply bpow_le; lia |].
    intros _ _. eapply Forall_impl; [|exact Hb]. cbn beta. cbn [row_norm]. intros; lra.
Qed.

(** l1 and max norm: every image lies in [-1, 1], for every finite row *)
Theorem norm_l1_max_le_one_64 k r : k <> NL2 -> allfin r -> Forall (fun y => Rabs (f64_R y) <= 1) (norm_row o64 k r).
Proof.
  intros Hk Hr. destruct k; [|congruence|].
  - destruct (norm_l1_spec r Hr) as [Nn Hb].
    apply (norm_row_bound NL1 r 1 Hr Nn one_generic); [lra | apply lt_bpow_1024; change 1 with (bpow radix2 0); apply bpow_le; lia | |].
    + intros Fn _. specialize (Hb Fn). eapply Forall_impl; [|exact Hb]. cbn beta. cbn [row_norm]. intros; lra.
    + intros Fn E0. specialize (Hb Fn). eapply Forall_impl; [|exact Hb]. cbn beta. cbn [row_norm] in E0. intros; lra.
  - destruct (norm_max_spec64 r Hr) as (Fn & Nn & Hb).
    apply (norm_row_bound NMax r 1 Hr Nn one_generic); [lra | apply lt_bpow_1024; change 1 with (bpow radix2 0); apply bpow_le; lia | |].
    + intros _ _. eapply Forall_impl; [|exact Hb]. cbn beta. cbn [row_norm]. intros; lra.
    + intros _ E0. eapply Forall_impl; [|exact Hb]. cbn beta. cbn [row_norm] in E0. intros; lra.
Qed.

(** l2 norm: images within 1 + 2^-51 for rows whose non-zero entries are at least 2^-511 in magnitude *)
Theorem norm_l2_le_one_64 r : allfin r ->
  Forall (fun x => f64_R x = 0 \/ bpow radix2 (-511) <= Rabs (f64_R x)) r ->
  Forall (fun y => Rabs (f64_R y) <= 1 + 4 * u64) (norm_row o64 NL2 r).
Proof.
  intros Hr Hc. destruct (norm_l2_spec r Hr) as [Nn Hb]. pose proof u64_bounds as [U1 U2].
  assert (Hall : ffin (row_norm o64 NL2 r) = true ->
                 Forall (fun el => Rabs (f64_R el) <= (1 + 4 * u64) * f64_R (row_norm o64 NL2 r)) r).
  { intros Fn. specialize (Hb Fn). cbn [row_norm]. rewrite Forall_forall in *. intros el Hel.
    destruct (Hc el Hel) as [E|E].
    - rewrite E, Rabs_R0. apply Rmult_le_pos; [lra | apply nn_nonneg; exact Nn].
    - apply (Hb el Hel). exact E. }
  apply (norm_row_bound NL2 r (1 + 4 * u64) Hr Nn one_4u_generic); [lra | apply lt_bpow_1024 | |].
  - apply Rle_trans with 2; [lra|]. change 2 with (bpow radix2 1). apply bpow_le. lia.
  - intros Fn _. exact (Hall Fn).
  - intros Fn E0. specialize (Hall Fn). eapply Forall_impl; [|exact Hall]. cbn beta. intros el H. rewrite E0 in H.
    apply Rle_trans with (1 := H). lra.
Qed.

(** * witnesses for the excluded l2 inputs (finding F51) *)
(** below the class: the square of 1.1875 * 2^-537 rounds down to 2^-1074, the computed norm is 2^-537 and the image
    is 1.1875 *)
Lemma norm_l2_bound_needs_class :
  let r := [0x1.3p-537%float] in
  allfin r /\ (row_norm o64 NL2 r =? 0)%float = false /\
  Forall (fun y => 1 + 4 * u64 < Rabs (f64_R y)) (norm_row o64 NL2 r).
Proof.
  cbn zeta. split; [|split].
  - repeat constructor; rewrite <- ffin_f64_finite; vm_compute; reflexivity.
  - vm_compute. reflexivity.
  - replace (norm_row o64 NL2 [0x1.3p-537%float]) with [0x1.3p+0%float] by (vm_compute; reflexivity).
    repeat constructor.
    assert (E : f64_R 0x1.3p+0%float = 19 / 16).
    { rewrite f64_R_SF. replace (Prim2SF 0x1.3p+0) with (S754_finite false 5348024557502464 (-52)) by (vm_compute; reflexivity).
      unfold SF2R, F2R. cbn [cond_Zopp Fnum Fexp]. replace 5348024557502464%Z with (19 * 2 ^ 48)%Z by reflexivity.
      rewrite mult_IZR. change (IZR (2 ^ 48)) with (bpow radix2 48). rewrite Rmult_assoc, <- bpow_plus.
      change (48 + -52)%Z with (-4)%Z. simpl (bpow radix2 (-4)). lra. }
    rewrite E. pose proof u64_bounds as [U1 U2]. rewrite Rabs_right; lra.
Qed.

(** above 2^511: the squares overflow, the computed norm is +infinity and the row is mapped to zeros (finite, but not
    of unit norm) *)
Lemma norm_l2_overflow_zero_image :
  norm_row o64 NL2 [0x1p+600%float; 0x1p+600%float] = [0%float; 0%float].
Proof. vm_compute. reflexivity. Qed.

(** the hypotheses of the theorems are satisfiable: an ordinary row, and its images *)
Example norm_float_example :
  let r := [3%float; 0%float; (-4)%float] in
  allfin r /\ Forall (fun x => f64_R x = 0 \/ bpow radix2 (-511) <= Rabs (f64_R x)) r /\
  norm_row o64 NL2 r = [0x1.3333333333333p-1%float; 0%float; (-0x1.999999999999ap-1)%float] /\ norm_row o64 NL1 r = [0x1.b6db6db6db6dbp-2%float; 0%float; (-0x1.2492492492492p-1)%float]
  /\ norm_row o64 NMax r = [0.75%float; 0%float; (-1)%float].
Proof.
  cbn zeta. split; [repeat constructor; rewrite <- ffin_f64_finite; vm_compute; reflexivity|].
  split; [|split; [vm_compute; reflexivity | split; vm_compute; reflexivity]].
  assert (H511 : bpow radix2 (-511) <= 1) by (change 1 with (bpow radix2 0); apply bpow_le; lia).
  assert (E3 : f64_R 3%float = 3).
  { rewrite f64_R_SF. replace (Prim2SF 3) with (S754_finite false 6755399441055744 (-51)) by (vm_compute; reflexivity).
    unfold SF2R, F2R. cbn [cond_Zopp Fnum Fexp]. replace 6755399441055744%Z with (3 * 2 ^ 51)%Z by reflexivity.
    rewrite mult_IZR. change (IZR (2 ^ 51)) with (bpow radix2 51). rewrite Rmult_assoc, <- bpow_plus.
    change (51 + -51)%Z with 0%Z. simpl. lra. }
  assert (E4 : f64_R (-4)%float = -4).
  { rewrite f64_R_SF. replace (Prim2SF (-4)) with (S754_finite true 4503599627370496 (-50)) by (vm_compute; reflexivity).
    unfold SF2R, F2R. cbn [cond_Zopp Fnum Fexp]. change (IZR (- (4503599627370496))) with (- bpow radix2 52).
    rewrite Ropp_mult_distr_l_reverse, <- bpow_plus. change (52 + -50)%Z with 2%Z. simpl. lra. }
  constructor; [|constructor; [|constructor; [|constructor]]].
  - right. rewrite E3, Rabs_right; lra.
  - left. apply f64_R_zero.
  - right. rewrite E4, Rabs_left; lra.
Qed.

(** * max norm: an entry of largest magnitude is mapped to magnitude exactly one *)
Lemma norm_max_attained : forall r acc, allfin r -> ffin acc = true ->
  let nm := fold_left (fun f v => fmax o64 (abs o64 v) f) r acc in
  nm = acc \/ exists el, In el r /\ f64_R nm = Rabs (f64_R el).
Proof.
  induction r as [|x r IH]; intros acc Hr Fa; cbn [fold_left]; [left; reflexivity|].
  inversion Hr as [|? ? Fx Hr']; subst. change (abs o64 x) with (PrimFloat.abs x).
  destruct (abs_spec64 x Fx) as (F1 & E1 & N1).
  destruct (fmax_fin (PrimFloat.abs x) acc F1 Fa) as (Hc & _ & _).
  assert (Fm : ffin (fmax o64 (PrimFloat.abs x) acc) = true) by (destruct Hc as [-> | ->]; assumption).
  destruct (IH _ Hr' Fm) as [H|[el [H1 H2]]].
  - destruct Hc as [Hc|Hc].
    + right. exists x. split; [left; reflexivity|]. rewrite H, Hc. exact E1.
    + left. rewrite H, Hc. reflexivity.
  - right. exists el. split; [right; exact H1 | exact H2].
Qed.

Theorem norm_max_unit_64 r : allfin r -> (norm_max o64 r =? 0)%float = false ->
  exists y, In y (norm_row o64 NMax r) /\ Rabs (f64_R y) = 1.
Proof.
  intros Hr Ez. destruct (norm_max_spec64 r Hr) as (Fn & Nn & Hb).
  destruct (norm_max_attained r 0%float Hr ffin_zero) as [H|[el [H1 H2]]].
  - exfalso. change (norm_max o64 r = 0%float) in H. rewrite H in Ez. vm_compute in Ez. discriminate.
  - change (f64_R (norm_max o64 r) = Rabs (f64_R el)) in H2.
    unfold norm_row. cbn [row_norm eqb zero div B64_ops]. rewrite Ez.
    exists (el / norm_max o64 r)%float. split; [apply in_map_iff; exists el; split; [reflexivity | exact H1]|].
    pose proof (nn_eqb_zero _ Nn) as Hz. rewrite Ez in Hz. specialize (Hz Fn).
    unfold allfin in Hr. rewrite Forall_forall in Hr.
    destruct (div_by_nn el (norm_max o64 r) 1 (Hr el H1) Nn Ez one_generic) as (_ & _ & E).
    + change 1 with (bpow radix2 0). apply bpow_lt. lia.
    + intros _. rewrite H2. lra.
    + lra.
    + rewrite (E Fn). rewrite <- rnd_abs. unfold Rdiv. rewrite Rabs_mult, Rabs_inv, <- H2, (Rabs_right (f64_R (norm_max o64 r))) by lra.
      rewrite Rinv_r by lra. apply rnd_generic, one_generic.
Qed.
