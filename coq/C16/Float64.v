(** C16 - binary64 facts behind the float-level theorems.  Coq's primitive floats are related to
    Flocq's [binary_float 53 1024] by Flocq's IEEE754/PrimFloat.v ([Prim2B], [add_equiv], ...), and the
    operations of that type to rounded real arithmetic by Flocq's [Bplus_correct] etc.  This file packages
    what the scaler proofs need: the real value [f64_R], finiteness [ffin], round-to-nearest-even [rnd],
    "non-negative or +infinity" values [nn] (norm accumulators), monotonicity of sums of such values,
    division by such a value, and the relative error bound of the normal range. *)
From Coq Require Import ZArith Reals Floats SpecFloat List Lra Lia Bool Psatz.
From Flocq Require Import Core Relative Plus_error Round_NE BinarySingleNaN PrimFloat.
From LinfaVerif Require Import Common.Num Common.QF.
Import ListNotations.
Local Open Scope R_scope.

Notation bf := (binary_float prec emax).
#[local] Existing Instance Hprec.
#[local] Existing Instance Hmax.
Definition f64_R (x : PrimFloat.float) : R := B2R (Prim2B x).
Definition ffin (x : PrimFloat.float) : bool := is_finite (Prim2B x).
Definition fx : Z -> Z := fexp prec emax.
Definition rnd (x : R) : R := round radix2 fx ZnearestE x.
Definition u64 : R := bpow radix2 (-53).

Lemma fx_FLT : fx = FLT_exp (-1074) 53.
Proof. reflexivity. Qed.

#[global] Instance fx_valid : Valid_exp fx.
Proof. apply fexp_correct. exact Hprec. Qed.

Lemma ffin_f64_finite x : f64_finite x = ffin x.
Proof. unfold f64_finite, ffin. rewrite <- B2SF_Prim2B. destruct (Prim2B x); reflexivity. Qed.

Lemma f64_R_generic x : generic_format radix2 fx (f64_R x).
Proof. apply generic_format_B2R. Qed.

Lemma Prim2B_zero : Prim2B 0%float = B754_zero false.
Proof. change 0%float with PrimFloat.zero. rewrite zero_equiv. apply Prim2B_B2Prim. Qed.

Lemma Prim2B_one : Prim2B 1%float = Bone.
Proof. change 1%float with PrimFloat.one. rewrite one_equiv. apply Prim2B_B2Prim. Qed.

Lemma f64_R_zero : f64_R 0%float = 0.
Proof. unfold f64_R. rewrite Prim2B_zero. reflexivity. Qed.

Lemma f64_R_one : f64_R 1%float = 1.
Proof. unfold f64_R. rewrite Prim2B_one. apply Bone_correct. Qed.

Lemma ffin_zero : ffin 0%float = true.
Proof. unfold ffin. rewrite Prim2B_zero. reflexivity. Qed.

Lemma ffin_one : ffin 1%float = true.
Proof. unfold ffin. rewrite Prim2B_one. apply is_finite_Bone. Qed.

(** * rounding *)
Lemma rnd_le_gen x y : generic_format radix2 fx y -> x <= y -> rnd x <= y.
Proof. intros. apply round_le_generic; auto with typeclass_instances. Qed.
Lemma rnd_ge_gen x y : generic_format radix2 fx x -> x <= y -> x <= rnd y.
Proof. intros. apply round_ge_generic; auto with typeclass_instances. Qed.
Lemma rnd_mono x y : x <= y -> rnd x <= rnd y.
Proof. intros. apply round_le; auto with typeclass_instances. Qed.
Lemma rnd_abs_le_gen x y : generic_format radix2 fx y -> Rabs x <= y -> Rabs (rnd x) <= y.
Proof. intros. apply abs_round_le_generic; auto with typeclass_instances. Qed.
Lemma rnd_generic x : generic_format radix2 fx x -> rnd x = x.
Proof. intros. apply round_generic; auto with typeclass_instances. Qed.
Lemma rnd_0 : rnd 0 = 0.
Proof. apply round_0. auto with typeclass_instances. Qed.
Lemma rnd_is_generic x : generic_format radix2 fx (rnd x).
Proof. apply generic_format_round; auto with typeclass_instances. Qed.

Lemma bpow_generic e : (-1074 <= e)%Z -> generic_format radix2 fx (bpow radix2 e).
Proof. intros H. rewrite fx_FLT. apply generic_format_FLT_bpow; [reflexivity | exact H]. Qed.

(** relative error of one rounding in the normal range: |rnd x - x| <= 2^-53 |x| for |x| >= 2^-1022 *)
Lemma rnd_rel x : bpow radix2 (-1022) <= Rabs x -> Rabs (rnd x - x) <= u64 * Rabs x.
Proof.
  intros H. unfold rnd. rewrite fx_FLT.
  pose proof (relative_error_N_FLT radix2 (-1074) 53 eq_refl (fun z => negb (Z.even z)) x H) as E.
  replace (/ 2 * bpow radix2 (- (53) + 1)) with u64 in E; [exact E|].
  unfold u64. change (- (53) + 1)%Z with (-53 + 1)%Z. rewrite bpow_plus. simpl. lra.
Qed.

Lemma u64_bounds : 0 < u64 <= / 1024.
Proof.
  unfold u64. split; [apply bpow_gt_0|].
  apply Rle_trans with (bpow radix2 (-10)); [apply bpow_le; lia|]. simpl. lra.
Qed.

Lemma rnd_rel_lower x : bpow radix2 (-1022) <= x -> x * (1 - u64) <= rnd x.
Proof.
  intros H. assert (Hx : 0 < x) by (pose proof (bpow_gt_0 radix2 (-1022)); lra).
  assert (H' : bpow radix2 (-1022) <= Rabs x) by (rewrite Rabs_right; lra).
  pose proof (rnd_rel x H') as E. rewrite (Rabs_right x) in E by lra.
  apply Rabs_le_inv in E. lra.
Qed.

Lemma rnd_rel_upper x : bpow radix2 (-1022) <= x -> rnd x <= x * (1 + u64).
Proof.
  intros H. assert (Hx : 0 < x) by (pose proof (bpow_gt_0 radix2 (-1022)); lra).
  assert (H' : bpow radix2 (-1022) <= Rabs x) by (rewrite Rabs_right; lra).
  pose proof (rnd_rel x H') as E. rewrite (Rabs_right x) in E by lra.
  apply Rabs_le_inv in E. lra.
Qed.

(** a positive representable number is at least the smallest subnormal *)
Lemma generic_pos_ge_min x : 0 < x -> generic_format radix2 fx x -> bpow radix2 (-1074) <= x.
Proof.
  intros Hx Hg. apply (generic_format_ge_bpow radix2 fx (-1074)); auto.
  intros e. unfold fx, fexp. apply Z.le_max_r.
Qed.

(** * non-negative or +infinity *)
Definition nnb (x : bf) : Prop := is_nan x = false /\ Bsign x = false.
Definition nn (x : PrimFloat.float) : Prop := nnb (Prim2B x).

Lemma nnb_inf (x : bf) : nnb x -> is_finite x = false -> x = B754_infinity false.
Proof. destruct x as [s|s| |s m e H]; intros [H1 H2]; simpl in *; intros; try discriminate. subst; reflexivity. Qed.

Lemma nnb_nonneg (x : bf) : nnb x -> 0 <= B2R x.
Proof.
  destruct x as [s|s| |s m e H]; intros [H1 H2]; simpl in *; try lra. subst s.
  apply F2R_ge_0. simpl. lia.
Qed.

Lemma nn_nonneg x : nn x -> 0 <= f64_R x.
Proof. apply nnb_nonneg. Qed.

Lemma nn_zero : nn 0%float.
Proof. unfold nn. rewrite Prim2B_zero. split; reflexivity. Qed.

Lemma finite_not_nan (x : bf) : is_finite x = true -> is_nan x = false.
Proof. destruct x; simpl; intros; auto; discriminate. Qed.

Lemma Bplus_nn (x y : bf) : nnb x -> nnb y ->
  nnb (Bplus mode_NE x y) /\
  (is_finite (Bplus mode_NE x y) = true ->
   is_finite x = true /\ is_finite y = true /\ B2R (Bplus mode_NE x y) = rnd (B2R x + B2R y)).
Proof.
  intros Hx Hy. destruct (is_finite x) eqn:Fx; [destruct (is_finite y) eqn:Fy|].
  - generalize (Bplus_correct prec emax Hprec Hmax mode_NE x y Fx Fy).
    destruct (Rlt_bool _ _).
    + intros (H1 & H2 & H3). split; [|intros _; auto].
      split; [apply finite_not_nan; exact H2|]. rewrite H3.
      destruct Hx as [_ Sx], Hy as [_ Sy]. rewrite Sx, Sy.
      destruct (Rcompare_spec (B2R x + B2R y) 0) as [H|H|H]; auto.
      exfalso. pose proof (nnb_nonneg x (conj (finite_not_nan x Fx) Sx)). pose proof (nnb_nonneg y (conj (finite_not_nan y Fy) Sy)). lra.
    + intros (H1 & _). destruct Hx as [_ Sx]. rewrite Sx in H1. simpl in H1.
      destruct (Bplus mode_NE x y) as [s|s| |s m e H]; simpl in H1; try discriminate.
      inversion H1; subst. split; [split; reflexivity | discriminate].
  - rewrite (nnb_inf y Hy Fy). destruct x as [s|s| |s m e H]; simpl in *; try discriminate;
      (split; [split; reflexivity | discriminate]).
  - rewrite (nnb_inf x Hx Fx). destruct y as [s|s| |s m e H]; destruct Hy as [N S]; simpl in *; try discriminate; subst;
      (split; [split; reflexivity | discriminate]).
Qed.

Lemma add_nn a b : nn a -> nn b ->
  nn (a + b)%float /\
  (ffin (a + b)%float = true -> ffin a = true /\ ffin b = true /\ f64_R (a + b)%float = rnd (f64_R a + f64_R b)).
Proof. unfold nn, ffin, f64_R. rewrite add_equiv. apply Bplus_nn. Qed.

Lemma mul_self_nn x : ffin x = true ->
  nn (x * x)%float /\ (ffin (x * x)%float = true -> f64_R (x * x)%float = rnd (f64_R x * f64_R x)).
Proof.
  unfold nn, ffin, f64_R. rewrite mul_equiv. set (b := Prim2B x). intros Fx.
  generalize (Bmult_correct prec emax Hprec Hmax mode_NE b b). destruct (Rlt_bool _ _).
  - intros (H1 & H2 & H3). rewrite Fx in H2. simpl in H2.
    pose proof (finite_not_nan _ H2) as Hn. split; [|intros _; exact H1].
    split; [exact Hn|]. rewrite (H3 Hn). apply xorb_nilpotent.
  - intros H1. rewrite xorb_nilpotent in H1. simpl in H1.
    destruct (Bmult mode_NE b b) as [s|s| |s m e H]; simpl in H1; try discriminate.
    inversion H1; subst. split; [split; reflexivity | discriminate].
Qed.

Lemma sqrt_nn x : nn x ->
  nn (PrimFloat.sqrt x) /\ ffin (PrimFloat.sqrt x) = ffin x /\ f64_R (PrimFloat.sqrt x) = rnd (R_sqrt.sqrt (f64_R x)).
Proof.
  unfold nn, ffin, f64_R. rewrite sqrt_equiv. set (b := Prim2B x). intros Hb.
  destruct (Bsqrt_correct prec emax Hprec Hmax mode_NE b) as (H1 & H2 & H3).
  assert (Hf : is_finite (Bsqrt mode_NE b) = is_finite b).
  { rewrite H2. destruct b as [s|s| |s m e H]; destruct Hb as [N S]; simpl in *; try discriminate; subst; reflexivity. }
  split; [|split; [exact Hf | exact H1]].
  destruct (is_finite b) eqn:Fb.
  - pose proof (finite_not_nan _ Hf) as Hn. split; [exact Hn|]. rewrite (H3 Hn). apply Hb.
  - rewrite (nnb_inf b Hb Fb). split; reflexivity.
Qed.

Lemma abs_spec64 x : ffin x = true ->
  ffin (PrimFloat.abs x) = true /\ f64_R (PrimFloat.abs x) = Rabs (f64_R x) /\ nn (PrimFloat.abs x).
Proof.
  unfold ffin, f64_R, nn, nnb. rewrite abs_equiv, is_finite_Babs, B2R_Babs, Bsign_Babs. intros H.
  repeat split; auto. destruct (Prim2B x); try discriminate; reflexivity.
Qed.

(** comparisons of finite values *)
Lemma eqb_fin a b : ffin a = true -> ffin b = true -> (a =? b)%float = Req_bool (f64_R a) (f64_R b).
Proof. intros. rewrite eqb_equiv. apply Beqb_correct; assumption. Qed.
Lemma ltb_fin a b : ffin a = true -> ffin b = true -> (a <? b)%float = Rlt_bool (f64_R a) (f64_R b).
Proof. intros. rewrite ltb_equiv. apply Bltb_correct; assumption. Qed.
Lemma leb_fin a b : ffin a = true -> ffin b = true -> (a <=? b)%float = Rle_bool (f64_R a) (f64_R b).
Proof. intros. rewrite leb_equiv. apply Bleb_correct; assumption. Qed.

(** the zero test of a norm: true only for a finite value 0; false for +infinity *)
Lemma nn_eqb_zero d : nn d ->
  if (d =? 0)%float then ffin d = true /\ f64_R d = 0 else (ffin d = true -> 0 < f64_R d).
Proof.
  intros Hd. destruct (ffin d) eqn:Fd.
  - rewrite (eqb_fin d 0 Fd ffin_zero), f64_R_zero. destruct (Req_bool_spec (f64_R d) 0) as [E|E].
    + auto.
    + intros _. pose proof (nn_nonneg d Hd). lra.
  - unfold ffin in Fd. rewrite eqb_equiv, Prim2B_zero, (nnb_inf _ Hd Fd). cbn. intros; discriminate.
Qed.

(** division of a finite value by a norm *)
Lemma div_by_nn el d B : ffin el = true -> nn d -> (d =? 0)%float = false ->
  generic_format radix2 fx B -> B < bpow radix2 1024 ->
  (ffin d = true -> Rabs (f64_R el) <= B * f64_R d) -> 0 <= B ->
  ffin (el / d)%float = true /\ Rabs (f64_R (el / d)%float) <= B /\
  (ffin d = true -> f64_R (el / d)%float = rnd (f64_R el / f64_R d)).
Proof.
  intros Fe Hd Ez HB HBm Hb HB0. pose proof (nn_eqb_zero d Hd) as Hz. rewrite Ez in Hz.
  unfold ffin, f64_R in *. rewrite div_equiv. set (x := Prim2B el) in *. set (y := Prim2B d) in *.
  destruct (is_finite y) eqn:Fy.
  - specialize (Hz eq_refl). specialize (Hb eq_refl).
    assert (Hy : B2R y <> 0) by lra.
    assert (Hq : Rabs (B2R x / B2R y) <= B).
    { unfold Rdiv. rewrite Rabs_mult, Rabs_inv. rewrite (Rabs_right (B2R y)) by lra.
      apply (Rmult_le_reg_r (B2R y)); [exact Hz|]. rewrite Rmult_assoc, Rinv_l by exact Hy. lra. }
    generalize (Bdiv_correct prec emax Hprec Hmax mode_NE x y Hy).
    rewrite Rlt_bool_true.
    + intros (H1 & H2 & _). rewrite H2, H1. split; [exact Fe|]. split; [|intros _; reflexivity].
      apply rnd_abs_le_gen; assumption.
    + apply Rle_lt_trans with B; [|exact HBm]. apply rnd_abs_le_gen; assumption.
  - rewrite (nnb_inf y Hd Fy). destruct x as [s|s| |s m e H]; simpl in *; try discriminate;
      (split; [reflexivity|]; split; [rewrite Rabs_R0; exact HB0 | intros; discriminate]).
Qed.

(** * sums of non-negative values never lose a term: if the sum is finite it dominates every term *)
Lemma fold_add_nn : forall l acc, nn acc -> Forall nn l ->
  let s := fold_left PrimFloat.add l acc in
  nn s /\ (ffin s = true -> ffin acc = true /\ f64_R acc <= f64_R s /\
           Forall (fun v => ffin v = true /\ f64_R v <= f64_R s) l).
Proof.
  induction l as [|v l IH]; intros acc Ha Hl; cbn [fold_left].
  - split; [exact Ha|]. intros H. split; [exact H|]. split; [lra | constructor].
  - inversion Hl as [|? ? Hv Hl']; subst.
    destruct (add_nn acc v Ha Hv) as [Hs Hf].
    destruct (IH (acc + v)%float Hs Hl') as [Hn Hfin]. split; [exact Hn|].
    intros Fs. destruct (Hfin Fs) as (F1 & L1 & L2). destruct (Hf F1) as (Fa & Fv & E).
    pose proof (nn_nonneg acc Ha) as Pa. pose proof (nn_nonneg v Hv) as Pv.
    assert (La : f64_R acc <= f64_R (acc + v)%float) by (rewrite E; apply rnd_ge_gen; [apply f64_R_generic | lra]).
    assert (Lv : f64_R v <= f64_R (acc + v)%float) by (rewrite E; apply rnd_ge_gen; [apply f64_R_generic | lra]).
    split; [exact Fa|]. split; [lra|]. constructor; [split; [exact Fv | lra] | exact L2].
Qed.

(** * finite operands: the result is the rounded exact result unless it overflows *)
Lemma add_fin a b : ffin a = true -> ffin b = true -> Rabs (rnd (f64_R a + f64_R b)) < bpow radix2 1024 ->
  ffin (a + b)%float = true /\ f64_R (a + b)%float = rnd (f64_R a + f64_R b).
Proof.
  unfold ffin, f64_R. rewrite add_equiv. intros Fa Fb Hb.
  generalize (Bplus_correct prec emax Hprec Hmax mode_NE _ _ Fa Fb). rewrite Rlt_bool_true by exact Hb.
  intros (H1 & H2 & _). auto.
Qed.

Lemma sub_fin a b : ffin a = true -> ffin b = true -> Rabs (rnd (f64_R a - f64_R b)) < bpow radix2 1024 ->
  ffin (a - b)%float = true /\ f64_R (a - b)%float = rnd (f64_R a - f64_R b).
Proof.
  unfold ffin, f64_R. rewrite sub_equiv. intros Fa Fb Hb.
  generalize (Bminus_correct prec emax Hprec Hmax mode_NE _ _ Fa Fb). rewrite Rlt_bool_true by exact Hb.
  intros (H1 & H2 & _). auto.
Qed.

Lemma mul_fin a b : ffin a = true -> ffin b = true -> Rabs (rnd (f64_R a * f64_R b)) < bpow radix2 1024 ->
  ffin (a * b)%float = true /\ f64_R (a * b)%float = rnd (f64_R a * f64_R b).
Proof.
  unfold ffin, f64_R. rewrite mul_equiv. intros Fa Fb Hb.
  generalize (Bmult_correct prec emax Hprec Hmax mode_NE (Prim2B a) (Prim2B b)). rewrite Rlt_bool_true by exact Hb.
  intros (H1 & H2 & _). rewrite H2, Fa, Fb. auto.
Qed.

Lemma div_fin a b : ffin a = true -> ffin b = true -> f64_R b <> 0 -> Rabs (rnd (f64_R a / f64_R b)) < bpow radix2 1024 ->
  ffin (a / b)%float = true /\ f64_R (a / b)%float = rnd (f64_R a / f64_R b).
Proof.
  unfold ffin, f64_R. rewrite div_equiv. intros Fa Fb Hn Hb.
  generalize (Bdiv_correct prec emax Hprec Hmax mode_NE (Prim2B a) (Prim2B b) Hn). rewrite Rlt_bool_true by exact Hb.
  intros (H1 & H2 & _). rewrite H2, Fa. auto.
Qed.

(** a bound by a representable number below 2^1024 rules the overflow out *)
Lemma no_overflow x B : generic_format radix2 fx B -> B < bpow radix2 1024 -> Rabs x <= B -> Rabs (rnd x) < bpow radix2 1024.
Proof. intros HB HBm Hx. apply Rle_lt_trans with B; [apply rnd_abs_le_gen; assumption | exact HBm]. Qed.

(** x - 0 = x *)
Lemma sub_zero_fin a : ffin a = true -> ffin (a - 0)%float = true /\ f64_R (a - 0)%float = f64_R a.
Proof.
  intros Fa. assert (E : rnd (f64_R a - f64_R 0%float) = f64_R a).
  { rewrite f64_R_zero, Rminus_0_r. apply rnd_generic, f64_R_generic. }
  destruct (sub_fin a 0%float Fa ffin_zero) as [H1 H2].
  - rewrite E. unfold f64_R. apply abs_B2R_lt_emax.
  - rewrite H2, E. auto.
Qed.

Lemma f64_R_lt_max a : Rabs (f64_R a) < bpow radix2 1024.
Proof. unfold f64_R. apply abs_B2R_lt_emax. Qed.

(** rounding commutes with the absolute value, and the error of a rounded sum of two representable numbers is
    purely relative (a sum in the subnormal range is exact) *)
Lemma rnd_abs x : rnd (Rabs x) = Rabs (rnd x).
Proof. apply round_NE_abs. auto with typeclass_instances. Qed.

Lemma rnd_sum_rel x y : generic_format radix2 fx x -> generic_format radix2 fx y ->
  Rabs (rnd (x + y) - (x + y)) <= u64 * Rabs (x + y).
Proof.
  intros Hx Hy. destruct (Rle_lt_dec (bpow radix2 (-1022)) (Rabs (x + y))) as [H|H].
  - apply rnd_rel. exact H.
  - rewrite rnd_generic.
    + rewrite Rminus_diag_eq by reflexivity. rewrite Rabs_R0. apply Rmult_le_pos; [apply bpow_ge_0 | apply Rabs_pos].
    + rewrite fx_FLT in *. apply FLT_format_plus_small; auto. reflexivity.
      apply Rle_trans with (bpow radix2 (-1022)); [lra | apply bpow_le; lia].
Qed.

(** general error of one rounding: relative 2^-53 plus absolute 2^-1075 *)
Lemma rnd_err x : Rabs (rnd x - x) <= u64 * Rabs x + bpow radix2 (-1075).
Proof.
  unfold rnd. rewrite fx_FLT.
  destruct (error_N_FLT radix2 (-1074) 53 eq_refl (fun z => negb (Z.even z)) x) as (e & t & He & Ht & _ & E).
  rewrite E. replace (x * (1 + e) + t - x) with (x * e + t) by ring.
  replace (/ 2 * bpow radix2 (- (53) + 1)) with u64 in He.
  2:{ unfold u64. change (- (53) + 1)%Z with (-53 + 1)%Z. rewrite bpow_plus. simpl. lra. }
  replace (/ 2 * bpow radix2 (-1074)) with (bpow radix2 (-1075)) in Ht.
  2:{ change (-1075)%Z with (-1 + -1074)%Z. rewrite bpow_plus. simpl. lra. }
  apply Rle_trans with (1 := Rabs_triang _ _). rewrite Rabs_mult.
  apply Rplus_le_compat; [|exact Ht]. rewrite Rmult_comm. apply Rmult_le_compat_r; [apply Rabs_pos | exact He].
Qed.

(** the tie 1 + 2^-53 rounds to the even neighbour 1, so everything up to it rounds to at most 1 *)
Lemma rnd_one_plus_u : rnd (1 + u64) = 1.
Proof.
  unfold rnd, round.
  assert (Hm : mag radix2 (1 + u64) = 1%Z :> Z).
  { apply mag_unique. pose proof u64_bounds as [U1 U2]. rewrite Rabs_right by lra.
    change (bpow radix2 (1 - 1)) with 1. change (bpow radix2 1) with 2. lra. }
  assert (Hc : cexp radix2 fx (1 + u64) = (-52)%Z) by (unfold cexp; rewrite Hm; reflexivity).
  assert (Hs : scaled_mantissa radix2 fx (1 + u64) = IZR (2 ^ 52) + / 2).
  { unfold scaled_mantissa. rewrite Hc. change (- -52)%Z with 52%Z. unfold u64.
    rewrite Rmult_plus_distr_r, Rmult_1_l, <- bpow_plus. change (-53 + 52)%Z with (-1)%Z.
    change (IZR (2 ^ 52)) with (bpow radix2 52). simpl (bpow radix2 (-1)). first [reflexivity | lra | (f_equal; lra)]. }
  rewrite Hs, Hc. unfold Znearest.
  assert (Hf : Zfloor (IZR (2 ^ 52) + / 2) = (2 ^ 52)%Z).
  { apply Zfloor_imp. rewrite plus_IZR. lra. }
  rewrite Hf, Rcompare_Eq by lra. cbn [negb Z.even].
  assert (He : Z.even (2 ^ 52) = true) by reflexivity. rewrite He. cbn [negb].
  unfold F2R. cbn [Fnum Fexp]. change (IZR (2 ^ 52)) with (bpow radix2 52). rewrite <- bpow_plus. reflexivity.
Qed.

Lemma rnd_le_one x : x <= 1 + u64 -> rnd x <= 1.
Proof. intros H. rewrite <- rnd_one_plus_u. apply rnd_mono. exact H. Qed.

Lemma one_minus_u_generic : generic_format radix2 fx (1 - u64).
Proof.
  rewrite fx_FLT. apply generic_format_FLT. exists (Float radix2 (2 ^ 53 - 1) (-53)).
  - unfold F2R, u64. cbn [Fnum Fexp]. rewrite minus_IZR, Rmult_minus_distr_r.
    change (IZR (2 ^ 53)) with (bpow radix2 53). rewrite <- bpow_plus. change (53 + -53)%Z with 0%Z.
    change (bpow radix2 0) with 1. ring.
  - cbn [Fnum]. reflexivity.
  - cbn [Fexp]. lia.
Qed.

(** value of a float literal through its SpecFloat image *)
Lemma f64_R_SF x : f64_R x = SF2R radix2 (Prim2SF x).
Proof. unfold f64_R, Prim2B. apply B2R_SF2B. Qed.

Lemma ltb_R a b : ffin a = true -> ffin b = true -> (a <? b)%float = true -> f64_R a < f64_R b.
Proof. intros Fa Fb H. rewrite (ltb_fin a b Fa Fb) in H. destruct (Rlt_bool_spec (f64_R a) (f64_R b)); [assumption | discriminate]. Qed.
Lemma leb_R a b : ffin a = true -> ffin b = true -> (a <=? b)%float = true -> f64_R a <= f64_R b.
Proof. intros Fa Fb H. rewrite (leb_fin a b Fa Fb) in H. destruct (Rle_bool_spec (f64_R a) (f64_R b)); [assumption | discriminate]. Qed.
Lemma leb_R_false a b : ffin a = true -> ffin b = true -> (a <=? b)%float = false -> f64_R b < f64_R a.
Proof. intros Fa Fb H. rewrite (leb_fin a b Fa Fb) in H. destruct (Rle_bool_spec (f64_R a) (f64_R b)); [discriminate | assumption]. Qed.
