(** C16 - correspondence (model vs implementation, bit for bit, binary64 and binary32) and the
    property oracle / whitening checker evaluated in exact rational arithmetic on the
    implementation's outputs.  Does not depend on the proofs. *)
From Coq Require Import List NArith ZArith QArith Bool Floats SpecFloat.
From Coq Require String.
From LinfaVerif Require Export Common.Num Common.NdSum Common.Run Common.B32 Common.Fma Common.QF C16.Model.
Import ListNotations.
Local Open Scope Q_scope.

(** * The two float instances *)
Record inst (F : Type) := mkInst {
  i_ops : NumOps F; i_fma : F -> F -> F -> F; i_eps : F;
  i_eqb : F -> F -> bool;        (* bit equality (all NaNs identified) *)
  i_Q : F -> Q; i_fin : F -> bool;
  i_u : Q;                        (* unit roundoff *)
  i_max : Q;                      (* largest finite number of the format *)
  i_minn : Q                      (* smallest positive normal number of the format *)
}.
Arguments i_ops {F}. Arguments i_fma {F}. Arguments i_eps {F}. Arguments i_eqb {F}.
Arguments i_Q {F}. Arguments i_fin {F}. Arguments i_u {F}. Arguments i_max {F}. Arguments i_minn {F}.

Definition f64_maxQ : Q := Eval vm_compute in Qred (inject_Z 9007199254740991 * Qpow2 971).   (* (2^53-1) 2^971 *)
Definition f64_minnQ : Q := Eval vm_compute in Qpow2 (-1022).
Definition f32_maxQ : Q := Eval vm_compute in Qred (inject_Z 16777215 * Qpow2 104).           (* (2^24-1) 2^104 *)
Definition f32_minnQ : Q := Eval vm_compute in Qpow2 (-126).

Definition I64 : inst float :=
  mkInst float B64_ops fma64 0x1p-52%float f64_biteq f64_Q f64_finite (1 # 9007199254740992) f64_maxQ f64_minnQ.
Definition I32 : inst spec_float :=
  mkInst spec_float B32_ops fma32 (S754_finite false 8388608 (-46)) b32_biteq SF2Qd sf_finite (1 # 16777216)
         f32_maxQ f32_minnQ.

(** * Case format *)
Record lin_case (F : Type) := mkLin {
  lc_lay : layout;
  lc_method : method F;
  lc_p : N;
  lc_X : list (list F);
  lc_fit : N;                       (* 0 fitted, 1 NotEnoughSamples, 2 FlippedMinMaxRange, 3 other error, 4 panic *)
  lc_offsets : list F;
  lc_scales : list F;
  lc_Y : option (list (list F));    (* transform of the training data; None = panic / not run *)
  lc_X2 : list (list F);            (* unseen data *)
  lc_Y2 : option (list (list F))
}.
Arguments mkLin {F}. Arguments lc_lay {F}. Arguments lc_method {F}. Arguments lc_p {F}. Arguments lc_X {F}.
Arguments lc_fit {F}. Arguments lc_offsets {F}. Arguments lc_scales {F}. Arguments lc_Y {F}.
Arguments lc_X2 {F}. Arguments lc_Y2 {F}.

Record whiten_case := mkWh {
  wc_lay : layout;
  wc_p : N;
  wc_X : list (list float);
  wc_mean : list float;
  wc_W : list (list float);
  wc_Y : list (list float);
  wc_X2 : list (list float);
  wc_Y2 : list (list float);
  wc_delta : float
}.

Inductive payload :=
| Lin64 (c : lin_case float)
| Lin32 (c : lin_case Z)                                  (* f32 bit patterns *)
| Norm64 (k : norm_kind) (X Y : list (list float))
| Norm32 (k : norm_kind) (X Y : list (list Z))
| Whiten (c : whiten_case)
| Fma64 (l : list (float * float * float * float))        (* self-test of Common/Fma.v against the hardware *)
| Fma32 (l : list (Z * Z * Z * Z))
| MetaOnly.

(** identity-tagged metadata of the dataset forms, before and after the transformation *)
Record meta := mkMeta {
  m_targets : list Z; m_weights : list Z; m_fnames : list String.string; m_tnames : list String.string }.

Record case := mkCase { c_id : N; c_meta_in : meta; c_meta_out : meta; c_payload : payload }.

(** * Conversions *)
Definition mmap {A B} (f : A -> B) (X : list (list A)) : list (list B) := map (map f) X.
Definition omap {A B} (f : A -> B) (x : option A) : option B :=
  match x with Some a => Some (f a) | None => None end.
Definition conv_method {A B} (f : A -> B) (m : method A) : method B :=
  match m with Standard a b => Standard a b | MinMax lo hi => MinMax (f lo) (f hi) | MaxAbs => MaxAbs end.
Definition conv_lin {A B} (f : A -> B) (c : lin_case A) : lin_case B :=
  mkLin (lc_lay c) (conv_method f (lc_method c)) (lc_p c) (mmap f (lc_X c)) (lc_fit c)
        (map f (lc_offsets c)) (map f (lc_scales c)) (omap (mmap f) (lc_Y c))
        (mmap f (lc_X2 c)) (omap (mmap f) (lc_Y2 c)).

(** * Correspondence *)
Section Corr.
Context {F : Type} (I : inst F).
Let o := i_ops I.

Definition vec_eqb (a b : list F) : bool := list_eqb (i_eqb I) a b.
Definition mat_eqb (a b : list (list F)) : bool := list_eqb vec_eqb a b.
Definition omat_eqb (a b : option (list (list F))) : bool :=
  match a, b with Some x, Some y => mat_eqb x y | None, None => true | _, _ => false end.

Definition corr_lin (c : lin_case F) : N :=
  match fit o (i_fma I) (i_eps I) (lc_lay c) (lc_method c) (N.to_nat (lc_p c)) (lc_X c) with
  | FitOk s =>
      if N.eqb (lc_fit c) 0 then
        (flag (vec_eqb (offsets s) (lc_offsets c)) 2
         + flag (vec_eqb (scales s) (lc_scales c)) 4
         + flag (omat_eqb (transform o s (lc_X c)) (lc_Y c)) 8
         + flag (omat_eqb (transform o s (lc_X2 c)) (lc_Y2 c)) 16)%N
      else 1%N
  | NotEnoughSamples => flag (N.eqb (lc_fit c) 1) 1
  | FlippedMinMaxRange => flag (N.eqb (lc_fit c) 2) 1
  end.

Definition corr_norm (k : norm_kind) (X Y : list (list F)) : N :=
  flag (mat_eqb (norm_transform o k X) Y) 32.

(** * Property oracle, exact rational arithmetic on the implementation's output *)
Definition qsum (l : list Q) : Q := fold_left (fun a x => Qred (a + x)) l 0.
Definition qlen {A} (l : list A) : Q := inject_Z (Z.of_nat (length l)).
Definition qmean (l : list Q) : Q := Qred (qsum l / qlen l).
Definition qvar (l : list Q) : Q :=
  let m := qmean l in Qred (qsum (map (fun x => (x - m) * (x - m)) l) / qlen l).
Definition qmaxabs (l : list Q) : Q :=
  fold_left (fun a x => let y := Qabs' x in if Qleb a y then y else a) l 0.
Definition qmin (l : list Q) : Q :=
  match l with [] => 0 | x :: r => fold_left (fun a y => if Qleb a y then a else y) r x end.
Definition qmax (l : list Q) : Q :=
  match l with [] => 0 | x :: r => fold_left (fun a y => if Qleb y a then a else y) r x end.
Definition qconst (l : list Q) : bool :=
  match l with [] => true | x :: r => forallb (Qeq_bool x) r end.
Definition qcol (j : nat) (X : list (list Q)) : list Q := map (fun r => nth j r 0) X.
Definition close (d a b : Q) : bool := Qleb (Qabs' (a - b)) d.
Definition qsq (x : Q) : Q := x * x.

Definition toQ (X : list (list F)) : list (list Q) := mmap (i_Q I) X.
Definition all_finite (X : list (list F)) : bool := forallb (forallb (i_fin I)) X.
Definition shape_ok {A} (n p : nat) (X : list (list A)) : bool :=
  Nat.eqb (length X) n && forallb (fun r => Nat.eqb (length r) p) X.

Definition KK : Q := 512.    (* (16 sqrt 2)^2: squared safety factor of the rounding-error model *)

(** standard scaler, one column: xs training column, ys its image *)
Definition oracle_std_col (wm ws : bool) (xs ys : list Q) : N :=
  let n := qlen xs in let u := i_u I in
  let M := qmaxabs xs in let mx := qmean xs in let vx := qvar xs in
  let my := qmean ys in let vy := qvar ys in
  if qconst xs then
    (* a constant column is only centred: every image is 0 (with mean) or the constant itself *)
    let tgt := if wm then 0 else mx in
    flag (forallb (fun y => close (16 * n * u * M) y tgt) ys) 4
  else
    (* squared bound on the absolute rounding error of one image *)
    let E2 := if ws then KK * n * n * u * u * (1 + qsq M / vx + (if wm then 0 else qsq M))
              else KK * n * n * u * u * qsq M in
    let mt := if wm then 0 else mx in
    let vt := if ws then 1 else vx in
    (flag (Qleb (qsq (my - mt)) E2) 1
     + flag (Qleb (qsq (vy - vt)) (2 * (4 * E2 * vt + qsq E2))) 2)%N.

Definition oracle_minmax_col (lo hi : Q) (xs ys : list Q) : N :=
  let u := i_u I in
  let t := 16 * u * (Qabs' lo + Qabs' hi) in
  if qconst xs then flag (forallb (fun y => close t y lo) ys) 4
  else flag (close t (qmin ys) lo && close t (qmax ys) hi) 8.

Definition oracle_maxabs_col (xs ys : list Q) : N :=
  if Qeq_bool (qmaxabs xs) 0 then flag (forallb (Qeq_bool 0) ys) 4
  else flag (close (4 * i_u I) (qmaxabs ys) 1) 16.

Definition lor_list (l : list N) : N := fold_left N.lor l 0%N.

Definition oracle_lin (c : lin_case F) : N :=
  let n := length (lc_X c) in let p := N.to_nat (lc_p c) in
  match n with
  | O => flag (N.leb 1 (lc_fit c) && N.leb (lc_fit c) 3) 2048   (* empty training data must be rejected with an error (which one: correspondence) *)
  | S _ =>
    match lc_method c, lc_fit c, lc_Y c with
    | MinMax lo hi, 2%N, _ => flag (ltb o hi lo) 2048     (* only a flipped range may be rejected *)
    | m, 0%N, Some Y =>
        if negb (shape_ok n p Y) then 2048%N else
        let XQ := toQ (lc_X c) in let YQ := toQ Y in
        (flag (all_finite Y) 64
         + lor_list (map (fun j =>
             let xs := qcol j XQ in let ys := qcol j YQ in
             match m with
             | Standard wm ws => oracle_std_col wm ws xs ys
             | MinMax lo hi => oracle_minmax_col (i_Q I lo) (i_Q I hi) xs ys
             | MaxAbs => oracle_maxabs_col xs ys
             end) (seq 0 p)))%N
    | _, _, _ => 2048%N                            (* valid input rejected, or transform panicked *)
    end
  end.

(** One row of the norm scaler, judged on the exact rational values of input and output.
    What the property demands of a non-zero row x (all three exact norms of a non-zero finite row are
    non-zero and at least the smallest subnormal, so "non-zero norm" is no restriction):
    - max norm: always representable, so the image must have unit norm (rows of subnormal entries included);
    - l1 norm: unit norm whenever the exact norm sum|x_i| stays finite under every rounding of the
      summation, (sum|x_i|) (1 + 2(p+2)u) <= MAX; beyond that the norm is legitimately +inf and only
      finiteness of the output is demanded (bit 64 of [oracle_norm]);
    - l2 norm: unit norm whenever the exact norm is finite, (sum x_i^2) (1 + 4(p+4)u) <= MAX^2.  The
      code squares the entries first, so it can only achieve this when the exact sum of squares lies in
      the range where neither the squares underflow (>= 16 p min_normal: total underflow error <= u/16
      relative) nor their sum overflows (<= MAX/2): inside that range a failure is bit 32, outside it
      (norm representable, squares not) it is reported under its own bit 8192.
    Non-finite outputs have value 0 under [i_Q], so an inf/NaN row also fails the unit-norm test. *)
Definition oracle_norm_row (k : norm_kind) (p : nat) (x y : list F) : N :=
  let xq := map (i_Q I) x in let yq := map (i_Q I) y in let u := i_u I in
  let pp := inject_Z (Z.of_nat p) in
  if forallb (Qeq_bool 0) xq then flag (vec_eqb x y) 32     (* zero rows stay as they are *)
  else
    match k with
    | NL1 =>
        if Qleb (qsum (map Qabs' xq) * (1 + 2 * (pp + 2) * u)) (i_max I)
        then flag (close (2 * (pp + 2) * u) (qsum (map Qabs' yq)) 1) 32
        else 0%N
    | NL2 =>
        let s := qsum (map qsq xq) in
        let unit := close (4 * (pp + 4) * u) (qsum (map qsq yq)) 1 in
        if Qleb (16 * pp * i_minn I) s && Qleb (2 * s) (i_max I) then flag unit 32
        else if Qleb (s * (1 + 4 * (pp + 4) * u)) (qsq (i_max I)) then flag unit 8192
        else 0%N
    | NMax => flag (close (4 * u) (qmaxabs yq) 1) 32
    end.

Fixpoint map2 {A B C} (f : A -> B -> C) (a : list A) (b : list B) : list C :=
  match a, b with x :: a', y :: b' => f x y :: map2 f a' b' | _, _ => [] end.

Definition oracle_norm (k : norm_kind) (X Y : list (list F)) : N :=
  let p := match X with [] => 0%nat | r :: _ => length r end in
  if negb (shape_ok (length X) p Y) then 32%N else
  (flag (all_finite Y) 64 + lor_list (map2 (oracle_norm_row k p) X Y))%N.

End Corr.

(** * Whitening checker (pattern B): exact rational recomputation from the published mean and
      whitening matrix and from the implementation's output *)
Definition qdot (a b : list Q) : Q := qsum (map2 Qmult a b).
Definition qvsub (a b : list Q) : list Q := map2 Qminus a b.
Definition affine_row (mu : list Q) (W : list (list Q)) (x : list Q) : list Q :=
  map (fun w => qdot (qvsub x mu) w) W.
Fixpoint forall2b {A B} (f : A -> B -> bool) (a : list A) (b : list B) : bool :=
  match a, b with
  | [], [] => true
  | x :: a', y :: b' => f x y && forall2b f a' b'
  | _, _ => false
  end.
Definition rows_close (d : Q) (A B : list (list Q)) : bool := forall2b (forall2b (close d)) A B.
(** sample covariance (ddof 1) of columns k and l of Y *)
Definition qcov (Y : list (list Q)) (k l : nat) : Q :=
  let ck := qcol k Y in let cl := qcol l Y in
  let mk := qmean ck in let ml := qmean cl in
  Qred (qsum (map2 (fun a b => (a - mk) * (b - ml)) ck cl) / (qlen Y - 1)).

Definition mean_ok (p : nat) (d : Q) (X : list (list Q)) (mu : list Q) : bool :=
  Nat.eqb (length mu) p && forallb (fun j => close d (nth j mu 0) (qmean (qcol j X))) (seq 0 p).
Definition affine_ok (d : Q) (mu : list Q) (W X Y : list (list Q)) : bool :=
  rows_close d Y (map (affine_row mu W) X).
Definition cov_ok (p : nat) (d : Q) (Y : list (list Q)) : bool :=
  forallb (fun k => forallb (fun l => close d (qcov Y k l) (if Nat.eqb k l then 1 else 0)) (seq 0 p)) (seq 0 p).
Definition wshape_ok (p : nat) (X : list (list Q)) (mu : list Q) (W : list (list Q)) : bool :=
  Nat.ltb 1 (length X) && forallb (fun r => Nat.eqb (length r) p) X
  && Nat.eqb (length mu) p && Nat.eqb (length W) p && forallb (fun r => Nat.eqb (length r) p) W.

Definition whiten_ok (p : nat) (d : Q) (X : list (list Q)) (mu : list Q) (W Y : list (list Q)) : bool :=
  wshape_ok p X mu W && mean_ok p d X mu && affine_ok d mu W X Y && cov_ok p d Y.

Definition fmat_finite (X : list (list float)) : bool := forallb (forallb f64_finite) X.

Definition oracle_whiten (c : whiten_case) : N :=
  let p := N.to_nat (wc_p c) in
  let q := mmap f64_Q in
  let d := f64_Q (wc_delta c) in
  let X := q (wc_X c) in let W := q (wc_W c) in let mu := map f64_Q (wc_mean c) in
  let Y := q (wc_Y c) in
  if negb (fmat_finite (wc_Y c) && fmat_finite (wc_Y2 c) && fmat_finite (wc_W c) && forallb f64_finite (wc_mean c))
  then 64%N else
  (* accepted exactly when the verified checker [whiten_ok] accepts (and the unseen data go through the
     same affine map); the two bits only say which conjunct failed *)
  if whiten_ok p d X mu W Y && affine_ok d mu W (q (wc_X2 c)) (q (wc_Y2 c)) then 0%N else
  (flag (wshape_ok p X mu W && cov_ok p d Y) 128
   + flag (mean_ok p d X mu && affine_ok d mu W X Y && affine_ok d mu W (q (wc_X2 c)) (q (wc_Y2 c))) 256)%N.

(** * Whitener::fit, the modelled glue: the published mean must be the model's mean bit for bit (the whitening
      matrix depends on the decompositions, which are outside the model, and is certified by [whiten_ok]) *)
Definition no_decomps : decomps float :=
  mkDecomps (fun _ => ([], [])) (fun _ => ([], [])) (fun _ => []).
Definition corr_whiten (c : whiten_case) : N :=
  match whiten_fit B64_ops (wc_lay c) 0x1.5798ee2308c3ap-27%float no_decomps WCholesky (N.to_nat (wc_p c)) (wc_X c) with
  | Some (mu, _) => flag (list_eqb f64_biteq mu (wc_mean c)) 256
  | None => 256%N
  end.

(** * Self-test of the fused multiply-add *)
Definition fma64_ok (t : float * float * float * float) : bool :=
  let '(a, b, c, r) := t in f64_biteq (fma64 a b c) r.
Definition fma32_ok (t : Z * Z * Z * Z) : bool :=
  let '(a, b, c, r) := t in
  b32_biteq (fma32 (b32_of_bits a) (b32_of_bits b) (b32_of_bits c)) (b32_of_bits r).

(** * Metadata: the dataset-level model hands targets, weights and both name lists through *)
Definition meta_eqb (a b : meta) : bool :=
  list_eqb Z.eqb (m_targets a) (m_targets b) && list_eqb Z.eqb (m_weights a) (m_weights b)
  && list_eqb String.eqb (m_fnames a) (m_fnames b) && list_eqb String.eqb (m_tnames a) (m_tnames b).
Definition meta_of {R} (d : dataset R (list Z) (list Z)) : meta :=
  mkMeta (targets d) (weights d) (feature_names d) (target_names d).
(** the model applied to a dataset carrying the input metadata (the record part is compared above) *)
Definition model_meta (m : meta) : meta :=
  meta_of (map_records (fun _ : unit => tt) (mkDataset tt (m_targets m) (m_weights m) (m_fnames m) (m_tnames m))).

Definition run_case (c : case) : verdict :=
  let mc := flag (meta_eqb (model_meta (c_meta_in c)) (c_meta_out c)) 64 in
  let mo := flag (meta_eqb (c_meta_in c) (c_meta_out c)) 512 in
  let '(cc, oc) :=
    match c_payload c with
    | Lin64 l => (corr_lin I64 l, oracle_lin I64 l)
    | Lin32 l => let l' := conv_lin b32_of_bits l in (corr_lin I32 l', oracle_lin I32 l')
    | Norm64 k X Y => (corr_norm I64 k X Y, oracle_norm I64 k X Y)
    | Norm32 k X Y => let X' := mmap b32_of_bits X in let Y' := mmap b32_of_bits Y in
                      (corr_norm I32 k X' Y', oracle_norm I32 k X' Y')
    | Whiten w => (corr_whiten w, oracle_whiten w)
    | Fma64 l => (flag (forallb fma64_ok l) 128, 0%N)
    | Fma32 l => (flag (forallb fma32_ok l) 128, 0%N)
    | MetaOnly => (0%N, 0%N)
    end in
  (c_id c, (N.lor cc mc, N.lor oc mo)).

Definition run_cases (cs : list case) : list N := report (map run_case cs).
