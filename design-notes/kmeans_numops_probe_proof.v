From Coq Require Import Floats List ZArith Reals Lra Lia Psatz. Import ListNotations.
Require Import km.
Open Scope R_scope.
Definition Rltb (a b:R) : bool := if Rlt_dec a b then true else false.
Definition RO : NumOps R := {| zero := 0; one := 1; add := Rplus; sub := Rminus; mul := Rmult; div := Rdiv; ltb := Rltb; ofN := fun n => IZR (Z.of_N n) |}.
Lemma Rltb_true a b : Rltb a b = true <-> a < b.
Proof. unfold Rltb; destruct (Rlt_dec a b); split; intros; try lra; try discriminate; auto. Qed.

Lemma scan_le cs : forall x i best bd, 
  snd (scan RO cs x i best bd) <= bd /\ (forall c, In c cs -> snd (scan RO cs x i best bd) <= sqdist RO c x).
Proof.
  induction cs as [|c cs IH]; intros x i best bd; cbn [scan].
  - cbn [snd]. split; [lra| intros c []].
  - destruct (ltb RO (sqdist RO c x) bd) eqn:E; cbn [ltb RO] in E.
    + apply Rltb_true in E. destruct (IH x (S i) i (sqdist RO c x)) as [H1 H2].
      split; [lra|]. intros c' [->|Hin]; auto.
    + assert (~ sqdist RO c x < bd) by (intro H; apply Rltb_true in H; cbn [ltb RO] in *; congruence).
      destruct (IH x (S i) best bd) as [H1 H2].
      split; [lra|]. intros c' [->|Hin]; [lra|auto].
Qed.

Theorem closest_min cs x c : In c cs -> snd (closest RO cs x) <= sqdist RO c x.
Proof. destruct cs as [|c0 cs]; [intros []|]. intros H. unfold closest. apply scan_le. exact H. Qed.
Print Assumptions closest_min.

(* The mean-shift inequality (Delta = (n+2)(s - n c)^2/(n+1)^2 >= 0, identity checked with sympy) is
   left to the build phase. *)
