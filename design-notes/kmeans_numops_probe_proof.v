From Coq Require Import Floats List ZArith Reals Lra Lia Psatz. Import ListNotations.
Require Import km.
Open Scope R_scope.
Definition Rltb (a b:R) : bool := if Rlt_dec a b then true else false.
Definition RO : NumOps R := {| zero := 0; one := 1; add := Rplus; sub := Rminus; mul := Rmult; div := Rdiv; ltb := Rltb; ofN := fun n => IZR (Z.of_N n) |}.
Lemma Rltb_true a b : Rltb a b = true <-> a < b.
Proof. unfold Rltb; destruct (Rlt_dec a b); split; intros; try lra; try discriminate; auto. Qed.

Lemma scan_le cs : forall x i best bd, 
  snd (scan RO cs x i best bd) <= bd /\ (forall c, In c cs -> snd (scan RO cs x i best bd) <= sqdist RO c x).
Proof.
  induction cs as [|c cs IH]; intros x i best bd; cbn [scan].
  - cbn [snd]. split; [lra| intros c []].
  - destruct (ltb RO (sqdist RO c x) bd) eqn:E; cbn [ltb RO] in E.
    + apply Rltb_true in E. destruct (IH x (S i) i (sqdist RO c x)) as [H1 H2].
      split; [lra|]. intros c' [->|Hin]; auto.
    + assert (~ sqdist RO c x < bd) by (intro H; apply Rltb_true in H; cbn [ltb RO] in *; congruence).
      destruct (IH x (S i) best bd) as [H1 H2].
      split; [lra|]. intros c' [->|Hin]; [lra|auto].
Qed.

Theorem closest_min cs x c : In c cs -> snd (closest RO cs x) <= sqdist RO c x.
Proof. destruct cs as [|c0 cs]; [intros []|]. intros H. unfold closest. apply scan_le. exact H. Qed.
Print Assumptions closest_min.

(* mean-shift lemma in 1-D with sums s q: *)
Lemma mshift (n s q c:R) : 0 <= n -> 
  let c' := (s + c)/(n+1) in q - 2*c'*s + n*c'*c' <= q - 2*c*s + n*c*c.
Proof. intros Hn c'. subst c'. 
  assert (H: (q - 2 * c * s + n * c * c) - (q - 2 * ((s + c) / (n + 1)) * s + n * ((s + c) / (n + 1)) * ((s + c) / (n + 1))) = (n+2) * (s - n*c)*(s-n*c) / ((n+1)*(n+1))) by (field; lra).
  assert (0 <= (n+2) * (s - n*c)*(s-n*c) / ((n+1)*(n+1))).
  { apply Rmult_le_pos; [|left; apply Rinv_0_lt_compat; nra]. rewrite Rmult_assoc. apply Rmult_le_pos; [lra|]. nra. }
  lra.
Qed.
