From Coq Require Import Floats List ZArith Reals Lra. Import ListNotations.
Require Import kmdata.

Record NumOps (F:Type) := { zero:F; one:F; add:F->F->F; sub:F->F->F; mul:F->F->F; div:F->F->F; ltb:F->F->bool; ofN : N -> F }.
Arguments zero {F}. Arguments one {F}. Arguments add {F}. Arguments sub {F}. Arguments mul {F}. Arguments div {F}. Arguments ltb {F}. Arguments ofN {F}.

Section KM.
Context {F:Type} (o:NumOps F).
Notation "a + b" := (add o a b). Notation "a - b" := (sub o a b). Notation "a * b" := (mul o a b). Notation "a / b" := (div o a b).
Definition row := list F.
Fixpoint sqd (a b:row) (acc:F) : F := match a, b with x::a', y::b' => sqd a' b' (acc + (x - y)*(x - y)) | _, _ => acc end.
Definition sqdist a b := sqd a b (zero o).
(* closest_centroid: strict < scan, init with centroid 0 *)
Fixpoint scan (cs:list row) (x:row) (i:nat) (best:nat) (bd:F) : nat * F :=
  match cs with [] => (best,bd) | c::cs' => let d := sqdist c x in if ltb o d bd then scan cs' x (S i) i d else scan cs' x (S i) best bd end.
Definition closest (cs:list row) (x:row) : nat * F := match cs with [] => (0%nat, zero o) | c0::_ => scan cs x 0 0%nat (sqdist c0 x) end.
Definition vadd (a b:row) : row := map (fun p => fst p + snd p) (combine a b).
Fixpoint upd {A} (l:list A) (k:nat) (f:A->A) : list A := match l, k with [], _ => [] | a::t, O => f a :: t | a::t, S k' => a :: upd t k' f end.
Definition compute_centroids (old:list row) (X:list row) (ms:list nat) : list row :=
  let d := match old with [] => 0%nat | c::_ => length c end in
  let init := map (fun _ => (repeat (zero o) d, 1%N)) old in
  let acc := fold_left (fun st xm => upd st (snd xm) (fun sc => (vadd (fst sc) (fst xm), N.succ (snd sc)))) (combine X ms) init in
  map (fun p => let '((s,cnt),oldc) := p in map (fun v => v / ofN o cnt) (vadd s oldc)) (combine acc old).
Definition step (cs:list row) (X:list row) : list row * list F :=
  let asg := map (closest cs) X in (compute_centroids cs X (map fst asg), map snd asg).
Fixpoint iter (n:nat) (cs:list row) (X:list row) : list row * list F := match n with O => (cs,[]) | S O => step cs X | S n' => iter n' (fst (step cs X)) X end.
(* ndarray unrolled_fold sum *)
Fixpoint chunks8 (xs:list F) (p:list F) {struct xs} : list F * list F :=
  match xs with
  | x0::x1::x2::x3::x4::x5::x6::x7::t => chunks8 t (map (fun q => fst q + snd q) (combine p [x0;x1;x2;x3;x4;x5;x6;x7]))
  | _ => (p, xs) end.
Definition usum (xs:list F) : F :=
  let z := zero o in
  let '(p,rest) := chunks8 xs [z;z;z;z;z;z;z;z] in
  match p with [p0;p1;p2;p3;p4;p5;p6;p7] =>
    let acc := z + (p0 + p4) in let acc := acc + (p1+p5) in let acc := acc + (p2+p6) in let acc := acc + (p3+p7) in
    fold_left (fun a x => a + x) rest acc | _ => z end.
End KM.

Definition PF : NumOps float := {| zero := 0%float; one := 1%float; add := PrimFloat.add; sub := PrimFloat.sub; mul := PrimFloat.mul; div := PrimFloat.div; ltb := PrimFloat.ltb; ofN := fun n => PrimFloat.of_uint63 (Uint63.of_Z (Z.of_N n)) |}.
Definition show (x:float) := Prim2SF x.
Definition run (m:nat) := let '(cs,ds) := iter PF m C0 X in (map (map show) cs, show (PrimFloat.div (usum PF ds) (ofN PF 23))).
Time Eval vm_compute in run 1.
Time Eval vm_compute in run 4.
