From Coq Require Import List Reals Lra Lia Psatz. Import ListNotations.
Open Scope R_scope.

(* list vectors *)
Fixpoint dot (a b : list R) : R := match a, b with x::a', y::b' => x*y + dot a' b' | _, _ => 0 end.
Definition vadd (a b : list R) := map (fun p => fst p + snd p) (combine a b).
Definition vscale (c:R) (a:list R) := map (Rmult c) a.
Definition mv (M : list (list R)) (v : list R) : list R := map (fun row => dot row v) M.
(* M^T r = sum_i r_i * row_i *)
Fixpoint mtv (M : list (list R)) (r : list R) (n:nat) : list R :=
  match M, r with row::M', ri::r' => vadd (vscale ri row) (mtv M' r' n) | _, _ => repeat 0 n end.
Definition sq (a:list R) := dot a a.

Lemma dot_comm a : forall b, dot a b = dot b a.
Proof. induction a as [|x a IH]; destruct b as [|y b]; cbn; try reflexivity. rewrite IH. ring. Qed.
Lemma dot_vadd_l a : forall b c, length a = length b -> dot (vadd a b) c = dot a c + dot b c.
Proof. induction a as [|x a IH]; destruct b as [|y b]; cbn; intros c H; try discriminate; try lra.
  destruct c as [|z c]; cbn; [lra|]. unfold vadd in IH. rewrite IH by lia. ring. Qed.
Lemma dot_vscale_l k a : forall c, dot (vscale k a) c = k * dot a c.
Proof. induction a as [|x a IH]; destruct c as [|z c]; cbn; try lra. unfold vscale in IH. rewrite IH. ring. Qed.
Lemma dot_repeat0 n c : dot (repeat 0 n) c = 0.
Proof. revert c; induction n; destruct c; cbn; try lra. rewrite IHn. ring. Qed.
Lemma len_vadd a b : length a = length b -> length (vadd a b) = length a.
Proof. intros H. unfold vadd. rewrite map_length, combine_length. lia. Qed.
Lemma len_vscale k a : length (vscale k a) = length a. Proof. apply map_length. Qed.

Definition wf (M:list (list R)) n := Forall (fun row => length row = n) M.
Lemma len_mtv M : forall r n, wf M n -> length (mtv M r n) = n.
Proof. induction M as [|row M IH]; intros r n H; cbn. apply repeat_length.
  destruct r as [|ri r]. apply repeat_length. inversion H; subst. rewrite len_vadd; rewrite len_vscale; auto. rewrite IH; auto. Qed.

(* adjoint: <r, M d> = <M^T r, d> *)
Lemma adjoint M : forall r d n, wf M n -> length r = length M -> dot r (mv M d) = dot (mtv M r n) d.
Proof. induction M as [|row M IH]; intros r d n Hwf Hl; destruct r as [|ri r]; try discriminate.
  - cbn. now rewrite dot_repeat0.
  - inversion Hwf; subst. change (mv (row :: M) d) with (dot row d :: mv M d). cbn [dot mtv].
    rewrite dot_vadd_l. 2:{ rewrite len_vscale, len_mtv; auto. } rewrite dot_vscale_l.
    rewrite (IH r d (length row)); auto. Qed.

(* quadratic expansion of 1/2 |M(t+d) - y|^2 *)
Lemma mv_vadd M : forall t d, length t = length d -> wf M (length t) -> mv M (vadd t d) = vadd (mv M t) (mv M d).
Proof. induction M as [|row M IH]; intros t d Hl Hwf; cbn; [reflexivity|]. inversion Hwf; subst. f_equal.
  - rewrite dot_comm. rewrite dot_vadd_l by auto. rewrite (dot_comm t), (dot_comm d). reflexivity.
  - apply IH; auto. Qed.
Lemma sq_nonneg a : 0 <= sq a. Proof. unfold sq. induction a; cbn; nra. Qed.

Definition vsub a b := vadd a (vscale (-1) b).
Definition half_sq_res M y t := / 2 * sq (vsub (mv M t) y).
Lemma len_mv M v : length (mv M v) = length M. Proof. apply map_length. Qed.
Lemma dot_vadd_r c a b : length a = length b -> dot c (vadd a b) = dot c a + dot c b.
Proof. intros. rewrite dot_comm, dot_vadd_l by auto. now rewrite (dot_comm a), (dot_comm b). Qed.

Lemma smooth_lower_bound M y t d : length t = length d -> wf M (length t) -> length y = length M ->
  half_sq_res M y (vadd t d) >= half_sq_res M y t + dot (mtv M (vsub (mv M t) y) (length t)) d.
Proof.
  intros Hl Hwf Hy. unfold half_sq_res. rewrite mv_vadd by auto.
  set (r := vsub (mv M t) y). set (u := mv M d).
  assert (Hr: length r = length M). { unfold r, vsub. rewrite len_vadd; rewrite ?len_vscale, ?len_mv; auto. }
  assert (Hu: length u = length M) by apply len_mv.
  assert (E: forall a u y, length a = length u -> length y = length a -> vsub (vadd a u) y = vadd (vsub a y) u).
  { clear. unfold vsub, vadd, vscale. induction a as [|x a IH]; destruct u as [|z u]; destruct y as [|w y]; cbn; intros; try discriminate; try reflexivity. f_equal. ring. apply IH; lia. }
  assert (E2 := E (mv M t) u y). rewrite E2 by (rewrite ?len_mv; congruence). clear E E2. fold r.
  unfold sq. rewrite dot_vadd_l, !dot_vadd_r by congruence. rewrite <- (adjoint M r d (length t)) by congruence. fold u.
  pose proof (sq_nonneg u) as Hn. unfold sq in Hn. rewrite (dot_comm u r). nra.
Qed.
Print Assumptions smooth_lower_bound.
