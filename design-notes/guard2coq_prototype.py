#!/usr/bin/env python3
"""Prototype: translate linfa ParamGuard::check_ref bodies into an AST (and Gallina text).
Restricted Rust subset; anything outside raises."""
import re, sys, glob, json

def find_impls(src):
    out=[]
    for m in re.finditer(r'impl\s*(<[^{]*?>)?\s*ParamGuard\s+for\s+([^{]+?)\s*\{', src):
        start=m.end()-1
        depth=0;i=start
        while True:
            c=src[i]
            if c=='{':depth+=1
            elif c=='}':
                depth-=1
                if depth==0:break
            i+=1
        out.append((m.group(2).strip(), src[start:i+1]))
    return out

def fn_body(block,name):
    m=re.search(r'fn\s+'+name+r'\s*\([^)]*\)\s*->\s*[^{]+\{',block)
    if not m:return None
    start=m.end()-1;depth=0;i=start
    while True:
        c=block[i]
        if c=='{':depth+=1
        elif c=='}':
            depth-=1
            if depth==0:break
        i+=1
    return block[start+1:i]

TOK=re.compile(r'\s*(?:(//[^\n]*)|(\d+\.\d*|\d+)|([A-Za-z_][A-Za-z0-9_]*(?:::[A-Za-z_][A-Za-z0-9_]*)*!?)|(\.\.=|==|!=|<=|>=|&&|\|\||=>|->|[-+*/<>=!&|.,;:(){}\[\]?#"]))')
def tokenize(s):
    toks=[];i=0
    while i<len(s):
        if s[i].isspace(): i+=1; continue
        if s[i]=='"':
            j=s.index('"',i+1); toks.append(('str',s[i:j+1])); i=j+1; continue
        if toks and toks[-1]==('p','.') and s[i].isdigit():
            j=i
            while j<len(s) and s[j].isdigit(): j+=1
            toks.append(('id',s[i:j])); i=j; continue
        m=TOK.match(s,i)
        if not m: raise SyntaxError('tok at '+s[i:i+30])
        i=m.end()
        if m.group(1): continue
        if m.group(2): toks.append(('num',m.group(2)))
        elif m.group(3): toks.append(('id',m.group(3)))
        else: toks.append(('p',m.group(4)))
    return toks

class P:
    def __init__(s,toks): s.t=toks; s.i=0
    def peek(s,k=0): return s.t[s.i+k] if s.i+k<len(s.t) else ('eof','')
    def eat(s,v=None):
        t=s.peek()
        if v is not None and t[1]!=v: raise SyntaxError('expected %r got %r at %d: %r'%(v,t,s.i,s.t[s.i:s.i+8]))
        s.i+=1; return t
    def at(s,v): return s.peek()[1]==v
    # statements
    def block(s):
        s.eat('{'); st=s.stmts(); s.eat('}'); return st
    def stmts(s):
        out=[]
        while not s.at('}') and s.peek()[0]!='eof':
            out.append(s.stmt())
        return out
    def stmt(s):
        t=s.peek()
        if t[1]=='let':
            s.eat(); pat=s.pattern(); s.eat('='); e=s.expr(); s.eat(';'); return ('let',pat,e)
        if t[1]=='return':
            s.eat(); e=s.expr(); 
            if s.at(';'): s.eat()
            return ('return',e)
        e=s.expr()
        if s.at(';'): s.eat(); return ('expr;',e)
        return ('tail',e)
    def pattern(s):
        if s.at('('):
            s.eat(); ps=[]
            while not s.at(')'):
                ps.append(s.pattern())
                if s.at(','): s.eat()
            s.eat(')'); return ('ptuple',ps)
        t=s.eat()
        if t[0]=='num': return ('plit',t[1])
        name=t[1]
        if name=='_': return ('pwild',)
        if s.at('('):
            s.eat(); ps=[]
            while not s.at(')'):
                ps.append(s.pattern())
                if s.at(','): s.eat()
            s.eat(')'); return ('pctor',name,ps)
        if s.at('{'):
            s.eat(); fs=[]
            while not s.at('}'):
                fs.append(s.eat()[1])
                if s.at(','): s.eat()
            s.eat('}'); return ('pstruct',name,fs)
        return ('pvar',name)
    # expressions
    def expr(s): return s.or_()
    def or_(s):
        e=s.and_()
        while s.at('||'): s.eat(); e=('or',e,s.and_())
        return e
    def and_(s):
        e=s.cmp()
        while s.at('&&'): s.eat(); e=('and',e,s.cmp())
        return e
    def cmp(s):
        e=s.rng()
        if s.peek()[1] in ('==','!=','<','<=','>','>='):
            op=s.eat()[1]; e=('cmp',op,e,s.rng())
        return e
    def rng(s):
        e=s.unary()
        if s.at('..='): s.eat(); e=('range_incl',e,s.unary())
        return e
    def unary(s):
        if s.at('!'): s.eat(); return ('not',s.unary())
        if s.at('&'): s.eat(); return s.unary()
        if s.at('*'): s.eat(); return s.unary()
        if s.at('-'): s.eat(); return ('neg',s.unary())
        return s.postfix()
    def postfix(s):
        e=s.primary()
        while True:
            if s.at('.'):
                s.eat(); t=s.eat()
                if s.at('('):
                    args=s.args(); e=('call',e,t[1],args)
                else: e=('field',e,t[1])
            elif s.at('?'): s.eat(); e=('try',e)
            else: break
        return e
    def args(s):
        s.eat('('); a=[]
        while not s.at(')'):
            if s.at('|'):  # closure |p| expr
                s.eat(); v=s.eat()[1]; s.eat('|'); a.append(('closure',v,s.expr()))
            else: a.append(s.expr())
            if s.at(','): s.eat()
        s.eat(')'); return a
    def primary(s):
        t=s.peek()
        if t[1]=='(':
            s.eat(); es=[]
            while not s.at(')'):
                es.append(s.expr())
                if s.at(','): s.eat()
            s.eat(')'); return es[0] if len(es)==1 else ('tuple',es)
        if t[1]=='if':
            s.eat()
            if s.at('let'):
                s.eat(); pat=s.pattern(); s.eat('='); e=s.noblock_expr(); th=s.block()
                el=None
                if s.at('else'): s.eat(); el=[('tail',s.primary())] if s.at('if') else s.block()
                return ('iflet',pat,e,th,el)
            c=s.noblock_expr(); th=s.block(); el=None
            if s.at('else'):
                s.eat(); el=[('tail',s.primary())] if s.at('if') else s.block()
            return ('if',c,th,el)
        if t[1]=='match':
            s.eat(); e=s.noblock_expr(); s.eat('{'); arms=[]
            while not s.at('}'):
                pat=s.pattern(); guard=None
                if s.at('if'): s.eat(); guard=s.expr()
                s.eat('=>')
                body=s.block() if s.at('{') else [('tail',s.expr())]
                if s.at(','): s.eat()
                arms.append((pat,guard,body))
            s.eat('}'); return ('match',e,arms)
        if t[0]=='num': s.eat(); return ('num',t[1])
        if t[0]=='str': s.eat(); return ('str',t[1])
        if t[0]=='id':
            s.eat(); name=t[1]
            if s.at('('): return ('fcall',name,s.args())
            if name.endswith('!'): return ('macro',name,s.args())
            return ('var',name)
        raise SyntaxError('primary %r'%(s.t[s.i:s.i+6],))
    def noblock_expr(s):
        # expression that stops before '{' (struct literals are not in the subset)
        return s.expr()

def translate_file(path):
    src=open(path).read()
    res=[]
    for ty,block in find_impls(src):
        body=fn_body(block,'check_ref')
        chk=fn_body(block,'check')
        if body is None: continue
        ast=P(tokenize(body)).stmts()
        chk_norm=re.sub(r'\s+','',chk or '')
        res.append({'type':ty,'ast':ast,'check_is_canonical': chk_norm=='self.check_ref()?;Ok(self.0)'})
    return res

if __name__=='__main__':
    n=0
    for f in sorted(glob.glob('/repo/**/*.rs',recursive=True)):
        if '/target/' in f: continue
        s=open(f).read()
        if 'fn check_ref' not in s or 'trait ParamGuard' in s: continue
        try:
            r=translate_file(f)
        except SyntaxError as e:
            print('FAIL',f,e); continue
        for x in r:
            n+=1
            print('OK',f.replace('/repo/',''),x['type'],'canonical_check=',x['check_is_canonical'],'stmts=',len(x['ast']))
    print(n,'impls')
