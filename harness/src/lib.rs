//! Shared helpers of the correspondence harness: deterministic PRNG, Coq literal printing,
//! sharded case files, per-case metadata, run statistics.
use std::collections::BTreeMap;
use std::fmt::Write as _;
use std::fs::File;
use std::io::{BufWriter, Write};
use std::path::{Path, PathBuf};

/// SplitMix64: every random choice of a run derives from one state seeded by VERIF_SEED.
#[derive(Clone, Debug)]
pub struct Sm64(pub u64);
impl Sm64 {
    pub fn new(seed: u64) -> Self {
        Sm64(seed ^ 0x9E37_79B9_7F4A_7C15)
    }
    pub fn next(&mut self) -> u64 {
        self.0 = self.0.wrapping_add(0x9E37_79B9_7F4A_7C15);
        let mut z = self.0;
        z = (z ^ (z >> 30)).wrapping_mul(0xBF58_476D_1CE4_E5B9);
        z = (z ^ (z >> 27)).wrapping_mul(0x94D0_49BB_1331_11EB);
        z ^ (z >> 31)
    }
    /// uniform in 0..n (n > 0)
    pub fn below(&mut self, n: u64) -> u64 {
        self.next() % n
    }
    pub fn range(&mut self, lo: i64, hi: i64) -> i64 {
        lo + (self.next() % ((hi - lo + 1) as u64)) as i64
    }
    pub fn unit(&mut self) -> f64 {
        (self.next() >> 11) as f64 / (1u64 << 53) as f64
    }
    pub fn gauss(&mut self) -> f64 {
        let u1 = self.unit().max(1e-300);
        let u2 = self.unit();
        (-2.0 * u1.ln()).sqrt() * (2.0 * std::f64::consts::PI * u2).cos()
    }
    pub fn pick<'a, T>(&mut self, xs: &'a [T]) -> &'a T {
        &xs[self.below(xs.len() as u64) as usize]
    }
    pub fn chance(&mut self, p: f64) -> bool {
        self.unit() < p
    }
    /// a child generator (so that sub-streams do not disturb each other)
    pub fn fork(&mut self) -> Sm64 {
        Sm64(self.next())
    }
    pub fn shuffle<T>(&mut self, v: &mut [T]) {
        for i in (1..v.len()).rev() {
            let j = self.below(i as u64 + 1) as usize;
            v.swap(i, j);
        }
    }
}

/// Coq literal of an f64 (exact: hexadecimal mantissa, binary exponent), usable in float_scope.
pub fn cf64(x: f64) -> String {
    if x.is_nan() {
        return "nan".into();
    }
    if x.is_infinite() {
        return if x > 0.0 { "infinity".into() } else { "neg_infinity".into() };
    }
    let bits = x.to_bits();
    let neg = bits >> 63 == 1;
    let e = ((bits >> 52) & 0x7ff) as i64;
    let frac = bits & ((1u64 << 52) - 1);
    if e == 0 && frac == 0 {
        return if neg { "(-0)".into() } else { "0".into() };
    }
    let (mut m, mut ex) = if e == 0 { (frac, -1074i64) } else { (frac | (1u64 << 52), e - 1075) };
    while m & 1 == 0 {
        m >>= 1;
        ex += 1;
    }
    let body = format!("0x{:x}p{}{}", m, if ex >= 0 { "+" } else { "" }, ex);
    if neg { format!("(-{})", body) } else { body }
}
/// f32 widened exactly to f64 literal (every f32 is an f64)
pub fn cf32(x: f32) -> String {
    cf64(x as f64)
}
/// raw IEEE bit pattern of an f32 as a Z literal (for Flocq's b32_of_bits)
pub fn cbits32(x: f32) -> String {
    format!("{}", x.to_bits())
}
pub fn cbits64(x: f64) -> String {
    format!("{}", x.to_bits())
}

pub fn clist<T, G: Fn(&T) -> String>(xs: &[T], f: G) -> String {
    let mut s = String::from("[");
    for (i, x) in xs.iter().enumerate() {
        if i > 0 {
            s.push_str("; ");
        }
        s.push_str(&f(x));
    }
    s.push(']');
    s
}
/// scalar float with an explicit scope (independent of the scopes open in the case file)
pub fn sf64(x: f64) -> String {
    format!("({})%float", cf64(x))
}
pub fn cn(x: u64) -> String {
    format!("{}%N", x)
}
pub fn cz(x: i64) -> String {
    format!("({})%Z", x)
}
pub fn cvec64(xs: &[f64]) -> String {
    format!("({})%float", clist(xs, |x| cf64(*x)))
}
pub fn cmat64(rows: &[Vec<f64>]) -> String {
    format!("({})%float", clist(rows, |r| clist(r, |x| cf64(*x))))
}
pub fn cvecn(xs: &[usize]) -> String {
    format!("({})%N", clist(xs, |x| format!("{}", x)))
}
pub fn cbool(b: bool) -> &'static str {
    if b { "true" } else { "false" }
}
pub fn cstr(s: &str) -> String {
    // Coq string literal: only double quotes need doubling
    format!("\"{}\"", s.replace('"', "\"\""))
}
pub fn rows_of(a: &ndarray::ArrayView2<f64>) -> Vec<Vec<f64>> {
    a.rows().into_iter().map(|r| r.to_vec()).collect()
}

/// JSON string escaping for metadata (no external dependency needed in the hot path).
pub fn jstr(s: &str) -> String {
    let mut o = String::from("\"");
    for c in s.chars() {
        match c {
            '"' => o.push_str("\\\""),
            '\\' => o.push_str("\\\\"),
            '\n' => o.push_str("\\n"),
            '\t' => o.push_str("\\t"),
            c if (c as u32) < 0x20 => {
                let _ = write!(o, "\\u{:04x}", c as u32);
            }
            c => o.push(c),
        }
    }
    o.push('"');
    o
}

/// Output of one generation run: sharded Coq case files + meta.jsonl + stats.json (+ rust-side failures).
pub struct Out {
    dir: PathBuf,
    shards: Vec<BufWriter<File>>,
    counts: Vec<usize>,
    meta: BufWriter<File>,
    rustfail: BufWriter<File>,
    pub ncases: usize,
    pub nontrivial: std::collections::BTreeSet<u64>,
    pub hist: BTreeMap<String, u64>,
    pub samples: Vec<String>,
    pub only: Option<u64>,
    case_ty: String,
}

impl Out {
    /// `require`: Coq module that defines the case type and `run_cases`, e.g. "C09.Corr".
    pub fn new(dir: &Path, nshards: usize, require: &str, case_ty: &str, only: Option<u64>) -> Out {
        std::fs::create_dir_all(dir).unwrap();
        for e in std::fs::read_dir(dir).unwrap() {
            let p = e.unwrap().path();
            if p.is_file() {
                let _ = std::fs::remove_file(p);
            }
        }
        let mut shards = Vec::new();
        for k in 0..nshards {
            let mut w = BufWriter::new(File::create(dir.join(format!("cases_{}.v", k))).unwrap());
            writeln!(w, "From Coq Require Import List NArith ZArith Floats String.").unwrap();
            writeln!(w, "From LinfaVerif Require Import {}.", require).unwrap();
            writeln!(w, "Import ListNotations.\nOpen Scope string_scope.").unwrap();
            writeln!(w, "Definition cases : list {} := [", case_ty).unwrap();
            shards.push(w);
        }
        Out {
            dir: dir.to_path_buf(),
            counts: vec![0; nshards],
            shards,
            meta: BufWriter::new(File::create(dir.join("meta.jsonl")).unwrap()),
            rustfail: BufWriter::new(File::create(dir.join("rust_fail.jsonl")).unwrap()),
            ncases: 0,
            nontrivial: Default::default(),
            hist: BTreeMap::new(),
            samples: vec![],
            only,
            case_ty: case_ty.to_string(),
        }
    }
    pub fn wanted(&self, id: u64) -> bool {
        self.only.map_or(true, |o| o == id)
    }
    /// add a case: `coq` is a Gallina term of the case type; `tags` feed the known-finding matcher;
    /// `desc` is a human-readable JSON value describing the input (for samples and replays);
    /// `nontrivial_key`: Some(hash of the canonical input) when the case exercises a non-trivial feature.
    pub fn case(&mut self, id: u64, coq: &str, tags: &[&str], desc: &str, nontrivial_key: Option<u64>) {
        if !self.wanted(id) {
            return;
        }
        let k = (id as usize) % self.shards.len();
        let w = &mut self.shards[k];
        if self.counts[k] > 0 {
            writeln!(w, ";").unwrap();
        }
        write!(w, "{}", coq).unwrap();
        self.counts[k] += 1;
        self.ncases += 1;
        let tagl = clist(tags, |t| jstr(t)).replace("; ", ", ");
        writeln!(self.meta, "{{\"id\": {}, \"tags\": {}, \"desc\": {}}}", id, tagl, desc).unwrap();
        if let Some(h) = nontrivial_key {
            self.nontrivial.insert(h);
        }
        if self.samples.len() < 3 {
            self.samples.push(desc.to_string());
        }
    }
    /// a violation established on the Rust side alone (metamorphic / differential oracle)
    pub fn rust_fail(&mut self, id: u64, code: u64, tags: &[&str], what: &str, desc: &str) {
        if !self.wanted(id) {
            return;
        }
        let tagl = clist(tags, |t| jstr(t)).replace("; ", ", ");
        writeln!(
            self.rustfail,
            "{{\"id\": {}, \"oracle\": {}, \"tags\": {}, \"what\": {}, \"desc\": {}}}",
            id, code, tagl, jstr(what), desc
        )
        .unwrap();
    }
    /// count a Rust-side evaluation that is not shipped to Coq
    pub fn rust_eval(&mut self, desc: &str, nontrivial_key: Option<u64>) {
        self.ncases += 1;
        if let Some(h) = nontrivial_key {
            self.nontrivial.insert(h);
        }
        if self.samples.len() < 3 {
            self.samples.push(desc.to_string());
        }
    }
    pub fn bump(&mut self, key: &str) {
        *self.hist.entry(key.to_string()).or_insert(0) += 1;
    }
    pub fn bump_by(&mut self, key: &str, n: u64) {
        *self.hist.entry(key.to_string()).or_insert(0) += n;
    }
    pub fn finish(mut self, rule: &str) {
        for (k, w) in self.shards.iter_mut().enumerate() {
            let _ = k;
            writeln!(w, "\n].\nDefinition result := Eval vm_compute in (run_cases cases).\nPrint result.").unwrap();
            w.flush().unwrap();
        }
        self.meta.flush().unwrap();
        self.rustfail.flush().unwrap();
        let mut s = String::new();
        let _ = write!(
            s,
            "{{\"evaluations\": {}, \"distinct_nontrivial\": {}, \"rule\": {}, \"case_type\": {}, \"input_distribution\": {{",
            self.ncases,
            self.nontrivial.len(),
            jstr(rule),
            jstr(&self.case_ty)
        );
        for (i, (k, v)) in self.hist.iter().enumerate() {
            if i > 0 {
                s.push_str(", ");
            }
            let _ = write!(s, "{}: {}", jstr(k), v);
        }
        s.push_str("}, \"samples\": [");
        for (i, d) in self.samples.iter().enumerate() {
            if i > 0 {
                s.push_str(", ");
            }
            s.push_str(d);
        }
        s.push_str("]}");
        std::fs::write(self.dir.join("stats.json"), s).unwrap();
    }
}

/// FNV-1a over bytes: canonical-input hashing for the distinct_nontrivial count
pub fn fnv(bytes: &[u8]) -> u64 {
    let mut h: u64 = 0xcbf29ce484222325;
    for b in bytes {
        h ^= *b as u64;
        h = h.wrapping_mul(0x100000001b3);
    }
    h
}
pub fn fnv_f64s(xs: &[f64], salt: u64) -> u64 {
    let mut h: u64 = 0xcbf29ce484222325 ^ salt;
    for x in xs {
        for b in x.to_bits().to_le_bytes().iter() {
            h ^= *b as u64;
            h = h.wrapping_mul(0x100000001b3);
        }
    }
    h
}

/// Common command line: `<bin> gen --seed S --tier quick|thorough --out DIR [--only ID] [--shards N]`
pub struct Args {
    pub seed: u64,
    pub tier: String,
    pub out: PathBuf,
    pub only: Option<u64>,
    pub shards: usize,
    pub extra: Vec<String>,
}
pub fn parse_args() -> Args {
    let a: Vec<String> = std::env::args().collect();
    let mut r = Args { seed: 1, tier: "quick".into(), out: PathBuf::from("out"), only: None, shards: 16, extra: vec![] };
    let mut i = 1;
    while i < a.len() {
        match a[i].as_str() {
            "gen" => {}
            "--seed" => { i += 1; r.seed = a[i].parse().unwrap(); }
            "--tier" => { i += 1; r.tier = a[i].clone(); }
            "--out" => { i += 1; r.out = PathBuf::from(&a[i]); }
            "--only" => { i += 1; r.only = Some(a[i].parse().unwrap()); }
            "--shards" => { i += 1; r.shards = a[i].parse().unwrap(); }
            other => r.extra.push(other.to_string()),
        }
        i += 1;
    }
    r
}

/// run a closure, turning a panic into Err(message)
pub fn guarded<T, G: FnOnce() -> T + std::panic::UnwindSafe>(f: G) -> Result<T, String> {
    let prev = std::panic::take_hook();
    std::panic::set_hook(Box::new(|_| {}));
    let r = std::panic::catch_unwind(f);
    std::panic::set_hook(prev);
    r.map_err(|e| {
        if let Some(s) = e.downcast_ref::<&str>() {
            s.to_string()
        } else if let Some(s) = e.downcast_ref::<String>() {
            s.clone()
        } else {
            "panic".to_string()
        }
    })
}
