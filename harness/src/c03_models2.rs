// C03 harness, part 4 (included by bin/c03.rs): SVM, trees, naive Bayes, FTRL, PCA, PLS, wrappers over fitted members.

fn after<'s>(s: &'s str, key: &str) -> Option<&'s str> { s.find(key).map(|i| &s[i + key.len()..]) }
/// Platt coefficients of an SVM fitted for probabilities (private field): from the Debug rendering
fn svm_platt_coeffs(dbg: &str) -> Option<(f64, f64)> {
    let r = after(dbg, "probability_coeffs: Some((")?;
    let (a, r) = r.split_once(", ")?;
    let (b, _) = r.split_once("))")?;
    Some((a.parse().ok()?, b.parse().ok()?))
}

#[derive(Clone, Copy, Debug)]
enum Kern { Lin, Gauss(f64), Poly(f64, f64) }

macro_rules! with_kernel {
    ($p:expr, $k:expr) => {
        match $k { Kern::Lin => $p.linear_kernel(), Kern::Gauss(e) => $p.gaussian_kernel(e), Kern::Poly(c, d) => $p.polynomial_kernel(c, d) }
    };
}

fn svm_models(ctx: &mut Ctx, rng: &mut Sm64, ninst: usize) {
    let kerns = [Kern::Lin, Kern::Gauss(8.0), Kern::Poly(1.0, 2.0), Kern::Gauss(30.0)];
    for inst in 0..ninst {
        let p = pick_dim(rng, inst, 9);
        let kern = kerns[inst % kerns.len()];
        let n = 36 + rng.below(16) as usize;
        let (x, y) = blobs(rng, n, p, 2, 0);
        let x: Vec<Vec<f64>> = x.iter().map(|r| r.iter().map(|v| 0.5 * v + 0.8 * rng.gauss()).collect()).collect();
        let xa: Array2<f64> = arr(&x);
        let yb: Array1<bool> = y.iter().map(|c| *c == 1).collect();
        let ds = DatasetBase::new(xa.clone(), yb.clone());
        let pool: Array2<f64> = arr(&pool_rows(rng, &x, &[]));
        let inst_name = format!("p={} kernel={:?}", p, kern);

        // classification (bool)
        match guarded(AssertUnwindSafe(|| with_kernel!(Svm::<f64, bool>::params().pos_neg_weights(1.0, 1.0), kern).fit(&ds))) {
            Ok(Ok(m)) => {
                let o: Array1<bool> = m.predict(&pool);
                let bad = (0..pool.nrows()).find(|&i| o[i] != (m.weighted_sum(&pool.row(i)) - m.rho >= 0.0));
                ext_case(ctx, "svm_classification", bad.is_none(), "predict(x) = (weighted_sum(x) - rho >= 0)", &format!("{} first differing row {:?}", inst_name, bad.map(|i| pool.row(i).to_vec())));
                let badrow = (0..pool.nrows()).find(|&i| { let one: bool = m.predict(pool.row(i)); let own: bool = m.predict(pool.row(i).to_owned()); one != o[i] || own != o[i] });
                row_form_check(ctx, "svm_classification", badrow, &pool);
                let asum: f64 = m.alpha.iter().map(|a| a.abs()).sum::<f64>() + m.rho.abs();
                let mm = &m;
                let near = move |row: &[f64]| !((mm.weighted_sum(&Array1::from(row.to_vec())) - mm.rho).abs() > 1e-9 * (1.0 + asum));
                let xl = Xl { exact: false, scale: asum, near: Some(Box::new(near)), expo: false };
                let pred = mk_pred!(m, Array1<bool>, f64, view);
                metamorph(ctx, rng, "svm_classification", &inst_name, &pred, &pool, &xl);
            }
            _ => no_model(ctx, "svm_classification", "fit failed"),
        }
        // classification with probabilities (Platt inside the SVM)
        match guarded(AssertUnwindSafe(|| with_kernel!(Svm::<f64, Pr>::params().pos_neg_weights(1.0, 1.0), kern).fit(&ds))) {
            Ok(Ok(m)) => {
                match svm_platt_coeffs(&format!("{:?}", m)) {
                    Some((a, b)) => {
                        let o: Array1<Pr> = m.predict(&pool);
                        let dec: Vec<f64> = (0..pool.nrows()).map(|i| m.weighted_sum(&pool.row(i)) - m.rho).collect();
                        let bad = (0..pool.nrows()).find(|&i| o[i].to_bits() != platt_predict(dec[i], a, b).to_bits());
                        ext_case(ctx, "svm_probability", bad.is_none(), "predict(x) = platt_predict(weighted_sum(x) - rho, a, b)", &format!("{} first differing row {:?}", inst_name, bad.map(|i| pool.row(i).to_vec())));
                        let badrow = (0..pool.nrows()).find(|&i| { let one: Pr = m.predict(pool.row(i)); one.to_bits() != o[i].to_bits() });
                        row_form_check(ctx, "svm_probability", badrow, &pool);
                        let id = ctx.next_id();
                        if ctx.out.wanted(id) {
                            let pts: Vec<(f64, u32, u32, i64)> = dec.iter().zip(o.iter()).map(|(v, pr)| { let (fb, eb) = platt_aux64(*v, a, b); (*v, fb, eb, pr.to_bits() as i64) }).collect();
                            platt_case(ctx, id, false, a, b, &pts, "svm_probability");
                        }
                        let asum: f64 = (m.alpha.iter().map(|a| a.abs()).sum::<f64>() + m.rho.abs()) * (1.0 + a.abs()) + b.abs();
                        let pred = mk_pred!(m, Array1<Pr>, f64, view);
                        metamorph(ctx, rng, "svm_probability", &inst_name, &pred, &pool, &Xl::real(asum));
                    }
                    None => panic!("cannot read probability_coeffs from the Debug rendering of Svm"),
                }
            }
            _ => no_model(ctx, "svm_probability", "fit failed"),
        }
        // regression
        let yr: Array1<f64> = x.iter().map(|r| r.iter().enumerate().map(|(j, v)| v * (1.0 - 0.3 * j as f64)).sum::<f64>() + 0.2 * rng.gauss()).collect();
        let dsr = DatasetBase::new(xa.clone(), yr.clone());
        let nu = inst % 2 == 1;
        match guarded(AssertUnwindSafe(|| {
            let prm = Svm::<f64, f64>::params();
            let prm = if nu { prm.nu_svr(0.5, Some(1.0)) } else { prm.c_svr(2.0, Some(0.1)) };
            with_kernel!(prm, kern).fit(&dsr)
        })) {
            Ok(Ok(m)) => {
                let o: Array1<f64> = m.predict(&pool);
                let bad = (0..pool.nrows()).find(|&i| o[i].to_bits() != (m.weighted_sum(&pool.row(i)) - m.rho).to_bits());
                ext_case(ctx, "svm_regression", bad.is_none(), "predict(x) = weighted_sum(x) - rho", &format!("{} first differing row {:?}", inst_name, bad.map(|i| pool.row(i).to_vec())));
                let badrow = (0..pool.nrows()).find(|&i| { let one: f64 = m.predict(pool.row(i)); let own: f64 = m.predict(pool.row(i).to_owned()); one.to_bits() != o[i].to_bits() || own.to_bits() != o[i].to_bits() });
                row_form_check(ctx, "svm_regression", badrow, &pool);
                let asum: f64 = m.alpha.iter().map(|a| a.abs()).sum::<f64>() * (1.0 + maxabs(xa.as_slice().unwrap())) + m.rho.abs();
                let pred = mk_pred!(m, Array1<f64>, f64, view);
                metamorph(ctx, rng, "svm_regression", &inst_name, &pred, &pool, &Xl::real(asum));
            }
            _ => no_model(ctx, "svm_regression", "fit failed"),
        }
        if inst == 0 {
            let ds32 = DatasetBase::new(xa.mapv(|v| v as f32), yr.mapv(|v| v as f32));
            if let Ok(Ok(m)) = guarded(AssertUnwindSafe(|| Svm::<f32, f32>::params().c_svr(2.0, Some(0.1)).gaussian_kernel(8.0).fit(&ds32))) {
                let pool32 = pool.mapv(|v| v as f32);
                let asum: f64 = m.alpha.iter().map(|a| a.abs() as f64).sum::<f64>() + m.rho.abs() as f64;
                let pred = mk_pred!(m, Array1<f32>, f32, view);
                metamorph(ctx, rng, "svm_regression_f32", &inst_name, &pred, &pool32, &Xl::real(asum));
            }
        }
        // one-class
        let dso = DatasetBase::new(xa.clone(), Array1::from_elem(n, ()));
        match guarded(AssertUnwindSafe(|| with_kernel!(Svm::<f64, Pr>::params().nu_weight(0.2), if let Kern::Lin = kern { Kern::Gauss(8.0) } else { kern }).fit(&dso))) {
            Ok(Ok(m)) => {
                let m: Svm<f64, bool> = m;
                let o: Array1<bool> = m.predict(&pool);
                let bad = (0..pool.nrows()).find(|&i| o[i] != (m.weighted_sum(&pool.row(i)) - m.rho >= 0.0));
                ext_case(ctx, "svm_one_class", bad.is_none(), "predict(x) = (weighted_sum(x) - rho >= 0)", &format!("{} first differing row {:?}", inst_name, bad.map(|i| pool.row(i).to_vec())));
                let asum: f64 = m.alpha.iter().map(|a| a.abs()).sum::<f64>() + m.rho.abs();
                let mm = &m;
                let near = move |row: &[f64]| !((mm.weighted_sum(&Array1::from(row.to_vec())) - mm.rho).abs() > 1e-9 * (1.0 + asum));
                let xl = Xl { exact: false, scale: asum, near: Some(Box::new(near)), expo: false };
                let pred = mk_pred!(m, Array1<bool>, f64, view);
                metamorph(ctx, rng, "svm_one_class", &inst_name, &pred, &pool, &xl);
            }
            _ => no_model(ctx, "svm_one_class", "fit failed"),
        }
    }
}

// ---------------------------------------------------------------- decision tree
fn tree_term(node: &TreeNode<f64, usize>, splits: &mut Vec<(usize, f64)>) -> String {
    if node.is_leaf() {
        format!("(Leaf {}%N)", node.prediction().unwrap())
    } else {
        let (f, v, _) = node.split();
        splits.push((f, v));
        let ch = node.children();
        let l = tree_term(ch[0].as_ref().expect("internal node without left child"), splits);
        let r = tree_term(ch[1].as_ref().expect("internal node without right child"), splits);
        format!("(Node {}%nat {} {} {})", f, sf64(v), l, r)
    }
}

fn tree_models(ctx: &mut Ctx, rng: &mut Sm64, ninst: usize) {
    for inst in 0..ninst {
        let p = pick_dim(rng, inst + 1, 9);
        let k = 2 + inst % 3;
        let n = 30 + rng.below(30) as usize;
        let (x, y) = blobs(rng, n, p, k, (inst % 2) as u64);
        let xa: Array2<f64> = arr(&x);
        let ds = DatasetBase::new(xa.clone(), Array1::from(y.iter().map(|c| c * 5 + 2).collect::<Vec<usize>>()));
        let depth = 2 + inst % 4;
        let model = match guarded(AssertUnwindSafe(|| DecisionTree::params().max_depth(Some(depth)).fit(&ds))) { Ok(Ok(m)) => m, _ => { no_model(ctx, "decision_tree", "fit failed"); continue; } };
        let mut splits = Vec::new();
        let term = tree_term(model.root_node(), &mut splits);
        // rows sitting exactly on a split value (x[feature] <= split goes left), and one ulp around it
        let mut extra = Vec::new();
        for (f, v) in splits.iter().take(8) {
            for dv in [*v, next_up(*v), next_down(*v)] {
                let mut r = x[rng.below(n as u64) as usize].clone();
                r[*f] = dv;
                extra.push(r);
            }
        }
        let pool: Array2<f64> = arr(&pool_rows(rng, &x, &extra));
        let id = ctx.next_id();
        if ctx.out.wanted(id) {
            let o: Array1<usize> = model.predict(&pool);
            let coq = format!("CTREE {} {} {} {}", cn(id), term, cmat64(&rows_of(&pool.view())), cvecn(&o.to_vec()));
            let desc = format!("{{\"predictor\": \"decision_tree\", \"internal_nodes\": {}, \"queries\": {}, \"queries_on_split_values\": {}}}", splits.len(), pool.nrows(), extra.len());
            ctx.out.bump("coq_tree");
            ctx.out.bump_by("coq_tree_rows_on_split_value", (extra.len() / 3) as u64);
            ctx.out.case(id, &coq, &["predictor_decision_tree"], &desc, if splits.is_empty() { None } else { Some(fnv(desc.as_bytes()) ^ id) });
        }
        let pred = mk_pred!(model, Array1<usize>, f64, view);
        metamorph(ctx, rng, "decision_tree", &format!("p={} depth<={} splits={}", p, depth, splits.len()), &pred, &pool, &Xl::exact());
        if inst == 0 {
            let ds32 = DatasetBase::new(xa.mapv(|v| v as f32), ds.targets().clone());
            if let Ok(Ok(m)) = guarded(AssertUnwindSafe(|| DecisionTree::<f32, usize>::params().max_depth(Some(depth)).fit(&ds32))) {
                let pool32 = pool.mapv(|v| v as f32);
                let pred = mk_pred!(m, Array1<usize>, f32, view);
                metamorph(ctx, rng, "decision_tree_f32", "f32", &pred, &pool32, &Xl::exact());
            }
        }
    }
}

// ---------------------------------------------------------------- naive Bayes
/// per-class fitted statistics (private HashMap<label, info>) from the bincode image:
/// (label, prior, first array, second array) with info = {class_count, prior, array, array}
fn nb_classes(bytes: &[u8]) -> Option<Vec<(usize, f64, Vec<f64>, Vec<f64>)>> {
    let mut r = Rd { b: bytes, pos: 0 };
    let n = r.u64()? as usize;
    if n > 1000 { return None; }
    let mut v = Vec::new();
    for _ in 0..n {
        let label = r.u64()? as usize;
        let _count = r.u64()?;
        let prior = r.f64()?;
        let a = r.arr1()?;
        let b = r.arr1()?;
        v.push((label, prior, a, b));
    }
    if r.done() { Some(v) } else { None }
}
/// the predicted label must attain the maximal joint log-likelihood (recomputed naively) up to rounding
fn nb_argmax_check(pool: &Array2<f64>, pred: &Array1<usize>, classes: &[(usize, f64, Vec<f64>, Vec<f64>)], jll: &dyn Fn(&[f64], &(usize, f64, Vec<f64>, Vec<f64>)) -> f64) -> Option<usize> {
    (0..pool.nrows()).find(|&i| {
        let row = pool.row(i).to_vec();
        let vals: Vec<(usize, f64)> = classes.iter().map(|c| (c.0, jll(&row, c))).collect();
        let mx = vals.iter().map(|v| v.1).fold(f64::NEG_INFINITY, f64::max);
        match vals.iter().find(|v| v.0 == pred[i]) {
            None => true,
            Some(v) => !(v.1 >= mx - 1e-9 * (1.0 + mx.abs())),
        }
    })
}
fn bayes_models(ctx: &mut Ctx, rng: &mut Sm64, ninst: usize) {
    for inst in 0..ninst {
        // fewer than 8 features: the row sums then run in the same order in every layout
        let p = pick_dim(rng, inst + 2, 5);
        let k = 2 + inst % 3;
        let n = 30 + rng.below(30) as usize;
        let (x, y) = blobs(rng, n, p, k, 0);
        let labels = Array1::from(y.iter().map(|c| c * 3 + 1).collect::<Vec<usize>>());
        let ds = DatasetBase::new(arr::<f64>(&x), labels.clone());
        match guarded(AssertUnwindSafe(|| GaussianNb::params().fit(&ds))) {
            Ok(Ok(m)) => {
                let pool: Array2<f64> = arr(&pool_rows(rng, &x, &[]));
                let classes = match bincode::serialize(&m).ok().and_then(|b| nb_classes(&b)) { Some(c) => c, None => panic!("cannot read the class statistics of GaussianNb from its bincode image") };
                let o: Array1<usize> = m.predict(&pool);
                let bad = nb_argmax_check(&pool, &o, &classes, &|row, c| {
                    let (theta, sigma) = (&c.2, &c.3);
                    let a: f64 = sigma.iter().map(|s| (2.0 * std::f64::consts::PI * s).ln()).sum();
                    let b: f64 = row.iter().zip(theta.iter().zip(sigma)).map(|(x, (t, s))| (x - t) * (x - t) / s).sum();
                    -0.5 * a - 0.5 * b + c.1.ln()
                });
                ext_case(ctx, "gaussian_nb", bad.is_none(), "predict(x) attains the maximal joint log-likelihood of the fitted class statistics", &format!("first differing row {:?}", bad.map(|i| pool.row(i).to_vec())));
                let pred = mk_pred!(m, Array1<usize>, f64, view);
                let xl = Xl { exact: false, scale: 1.0, near: None, expo: false };
                metamorph(ctx, rng, "gaussian_nb", &format!("p={} classes={}", p, k), &pred, &pool, &xl);
            }
            _ => no_model(ctx, "gaussian_nb", "fit failed"),
        }
        let xc: Vec<Vec<f64>> = y.iter().map(|c| (0..p).map(|j| (rng.below(4) + if j % k == *c { 3 } else { 0 }) as f64).collect()).collect();
        let dsc = DatasetBase::new(arr::<f64>(&xc), labels);
        match guarded(AssertUnwindSafe(|| MultinomialNb::params().fit(&dsc))) {
            Ok(Ok(m)) => {
                let q: Vec<Vec<f64>> = (0..20).map(|i| if i < 8 { xc[rng.below(n as u64) as usize].clone() } else { (0..p).map(|_| rng.below(6) as f64).collect() }).collect();
                let pool: Array2<f64> = arr(&q);
                let classes = match bincode::serialize(&m).ok().and_then(|b| nb_classes(&b)) { Some(c) => c, None => panic!("cannot read the class statistics of MultinomialNb from its bincode image") };
                let o: Array1<usize> = m.predict(&pool);
                let bad = nb_argmax_check(&pool, &o, &classes, &|row, c| row.iter().zip(&c.3).map(|(x, l)| x * l).sum::<f64>() + c.1.ln());
                ext_case(ctx, "multinomial_nb", bad.is_none(), "predict(x) attains the maximal joint log-likelihood x.feature_log_prob + ln prior", &format!("first differing row {:?}", bad.map(|i| pool.row(i).to_vec())));
                let pred = mk_pred!(m, Array1<usize>, f64, view);
                let xl = Xl { exact: false, scale: 1.0, near: None, expo: false };
                metamorph(ctx, rng, "multinomial_nb", &format!("p={} classes={}", p, k), &pred, &pool, &xl);
            }
            _ => no_model(ctx, "multinomial_nb", "fit failed"),
        }
    }
}

// ---------------------------------------------------------------- FTRL
fn ftrl_sigmoid(v: f64) -> f64 {
    let v = v.min(35.0).max(-35.0);
    if v.is_sign_negative() { let e = v.exp(); e / (e + 1.0) } else { 1.0 / (1.0 + (-v).exp()) }
}
fn fit_ftrl(x: &Array2<f64>, y: &Array1<bool>, passes: usize, alpha: f64) -> Option<Ftrl<f64>> {
    let ds = DatasetBase::new(x.clone(), y.clone());
    guarded(AssertUnwindSafe(|| {
        let params = Ftrl::params().alpha(alpha).beta(1.0).l1_ratio(0.01).l2_ratio(0.05);
        let mut m = params.fit_with(None, &ds).ok()?;
        for _ in 1..passes { m = params.fit_with(Some(m), &ds).ok()?; }
        Some(m)
    })).ok().flatten()
}
fn ftrl_models(ctx: &mut Ctx, rng: &mut Sm64, ninst: usize) {
    for inst in 0..ninst {
        let p = pick_dim(rng, inst, 17);
        let n = 40 + rng.below(20) as usize;
        let (x, y) = blobs(rng, n, p, 2, 0);
        let xa: Array2<f64> = arr(&x);
        let yb: Array1<bool> = y.iter().map(|c| *c == 1).collect();
        let m = match fit_ftrl(&xa, &yb, 3 + inst % 3, 0.05 + 0.1 * (inst % 3) as f64) { Some(m) => m, None => { no_model(ctx, "ftrl", "fit failed"); continue; } };
        let pool: Array2<f64> = arr(&pool_rows(rng, &x, &[]));
        let w = m.get_weights().to_vec();
        let o: Array1<Pr> = m.predict(&pool);
        let bad = (0..pool.nrows()).find(|&i| o[i].to_bits() != (ftrl_sigmoid(udot(pool.row(i).as_slice().unwrap(), &w)) as f32).to_bits());
        ext_case(ctx, "ftrl", bad.is_none(), "predict(x) = stable_sigmoid(unrolled_dot(x, get_weights())) as f32", &format!("p={} first differing row {:?} weights {:?}", p, bad.map(|i| pool.row(i).to_vec()), w));
        let pred = mk_pred!(m, Array1<Pr>, f64, view);
        metamorph(ctx, rng, "ftrl", &format!("p={}", p), &pred, &pool, &Xl::real(maxabs(&w)));
    }
}

// ---------------------------------------------------------------- PCA, PLS
fn reduction_models(ctx: &mut Ctx, rng: &mut Sm64, ninst: usize) {
    for inst in 0..ninst {
        let p = pick_dim(rng, inst, 9).max(2);
        let n = 3 * p + 10 + rng.below(10) as usize;
        let (x, y) = regdata(rng, n, p, 0.5);
        let xa: Array2<f64> = arr(&x);
        let ds = DatasetBase::new(xa.clone(), Array1::from(y.clone()));
        let pool: Array2<f64> = arr(&pool_rows(rng, &x, &[]));
        // embedding sizes 1, 2 or p: the sizes for which the external eigen-solver is reliable
        let k = if inst % 3 == 0 { 1 } else if inst % 3 == 1 { 2.min(p) } else { p };
        match guarded(AssertUnwindSafe(|| Pca::params(k).fit(&ds))) {
            Ok(Ok(m)) => {
                let o: Array2<f64> = m.predict(&pool);
                let w = m.components().t().to_owned();
                aff_case(ctx, "pca", 0, &m.mean().to_vec(), &[], &w, &vec![0.0; w.ncols()], &pool, &rows_of(&o.view()), &[]);
                let sc = (1.0 + maxabs(&m.mean().to_vec())) * w.iter().fold(0.0f64, |a, v| a.max(v.abs()));
                let pred = mk_pred!(m, Array2<f64>, f64, view);
                metamorph(ctx, rng, "pca", &format!("p={} k={}", p, k), &pred, &pool, &Xl::real(sc));
            }
            _ => no_model(ctx, "pca", "fit failed"),
        }
        let t = 1 + inst % 2;
        let y2 = Array2::from_shape_fn((n, t), |(i, j)| y[i] + j as f64 * x[i][p - 1]);
        let ds2 = DatasetBase::new(xa.clone(), y2);
        let kc = 1 + inst % 2.min(p);
        match guarded(AssertUnwindSafe(|| PlsRegression::params(kc).fit(&ds2))) {
            Ok(Ok(m)) => {
                // x_mean, x_std, y_mean are private: read them from the bincode image (field order of Pls)
                let img = bincode::serialize(&m).expect("bincode image of PlsRegression");
                let mut rd = Rd { b: &img, pos: 0 };
                let parsed = (|| { let xm = rd.arr1()?; let xs = rd.arr1()?; let ym = rd.arr1()?; let _ys = rd.arr1()?;
                    for _ in 0..6 { rd.arr2()?; }
                    let coef = rd.arr2()?; if rd.done() { Some((xm, xs, ym, coef)) } else { None } })();
                let (xm, xs, ym, coef) = match parsed { Some(t) => t, None => panic!("cannot read the fitted parameters of PlsRegression from its bincode image") };
                assert!(coef == *m.coefficients(), "bincode image of PlsRegression: coefficients differ from the accessor");
                let o: Array2<f64> = m.predict(&pool);
                aff_case(ctx, "pls", 0, &xm, &xs, &coef, &ym, &pool, &rows_of(&o.view()), &[]);
                let sc = m.coefficients().iter().fold(0.0f64, |a, v| a.max(v.abs())) * 8.0 + 8.0;
                let pred = mk_pred!(m, Array2<f64>, f64, view);
                metamorph(ctx, rng, "pls", &format!("p={} components={} targets={}", p, kc, t), &pred, &pool, &Xl::real(sc));
            }
            _ => no_model(ctx, "pls", "fit failed"),
        }
    }
}

// ---------------------------------------------------------------- wrappers over fitted members
fn composed_models(ctx: &mut Ctx, rng: &mut Sm64, ninst: usize) {
    for inst in 0..ninst {
        let p = pick_dim(rng, inst + 1, 9);
        let n = 40 + rng.below(10) as usize;
        let (x, y) = regdata(rng, n, p, 0.4);
        let xa: Array2<f64> = arr(&x);
        let pool: Array2<f64> = arr(&pool_rows(rng, &x, &[]));
        // multi-target: one OLS per target column
        let t = 2 + inst % 3;
        let mut members = Vec::new();
        for j in 0..t {
            let yj: Array1<f64> = (0..n).map(|i| y[i] * (1.0 + j as f64) - 2.0 * j as f64 * x[i][0]).collect();
            if let Ok(Ok(m)) = guarded(AssertUnwindSafe(|| LinearRegression::new().fit(&DatasetBase::new(xa.clone(), yj)))) { members.push(m); }
        }
        if members.len() == t {
            let sc = members.iter().map(|m| maxabs(&m.params().to_vec()) + m.intercept().abs()).fold(0.0, f64::max);
            let wrapper: MultiTargetModel<Array2<f64>, f64> = members.iter().cloned().collect();
            // column j of the wrapper is member j's prediction, bit for bit
            let o: Array2<f64> = wrapper.predict(&pool);
            let mut ok = o.nrows() == pool.nrows() && o.ncols() == t;
            for (j, m) in members.iter().enumerate() {
                let oj: Array1<f64> = m.predict(&pool);
                ok = ok && (0..pool.nrows()).all(|i| o[(i, j)].to_bits() == oj[i].to_bits());
            }
            let id = ctx.next_id();
            if ctx.out.wanted(id) {
                let desc = format!("{{\"wrapper\": \"MultiTargetModel over OLS members\", \"members\": {}, \"rows\": {}}}", t, pool.nrows());
                ctx.out.bump("multi_target_fitted_columns");
                ctx.out.rust_eval(&desc, Some(fnv(desc.as_bytes()) ^ id));
                if !ok { ctx.out.rust_fail(id, 128, &["wrapper_multi_target"], "a column of the multi-target prediction differs from the member model's own prediction", &desc); }
            }
            let pred = mk_pred!(wrapper, Array2<f64>, f64);
            metamorph(ctx, rng, "multi_target_ols", &format!("p={} targets={}", p, t), &pred, &pool, &Xl::real(sc));
        } else { no_model(ctx, "multi_target_ols", "member fit failed"); }

        // multi-class: one-vs-rest FTRL members
        let k = 3;
        let (xc, yc) = blobs(rng, 60, p, k, 0);
        let xca: Array2<f64> = arr(&xc);
        let poolc: Array2<f64> = arr(&pool_rows(rng, &xc, &[]));
        let mut ms = Vec::new();
        for c in 0..k {
            let yb: Array1<bool> = yc.iter().map(|l| *l == c).collect();
            if let Some(m) = fit_ftrl(&xca, &yb, 4, 0.1) { ms.push((100 + c, m)); }
        }
        if ms.len() == k {
            let sc = ms.iter().map(|(_, m)| maxabs(&m.get_weights().to_vec())).fold(0.0, f64::max);
            let probs: Vec<Array1<Pr>> = ms.iter().map(|(_, m)| m.predict(&poolc)).collect();
            let wrapper: MultiClassModel<Array2<f64>, usize> = ms.iter().cloned().collect();
            let o: Array1<usize> = wrapper.predict(&poolc);
            // the returned label is the label of a member with maximal probability
            let ok = o.len() == poolc.nrows() && (0..poolc.nrows()).all(|i| {
                let mx = probs.iter().map(|v| *v[i]).fold(f32::NEG_INFINITY, f32::max);
                ms.iter().zip(&probs).any(|((l, _), v)| *l == o[i] && *v[i] == mx)
            });
            let id = ctx.next_id();
            if ctx.out.wanted(id) {
                let desc = format!("{{\"wrapper\": \"MultiClassModel over one-vs-rest FTRL members\", \"members\": {}, \"rows\": {}}}", k, poolc.nrows());
                ctx.out.bump("multi_class_fitted_argmax");
                ctx.out.rust_eval(&desc, Some(fnv(desc.as_bytes()) ^ id));
                if !ok { ctx.out.rust_fail(id, 256, &["wrapper_multi_class"], "the multi-class label is not the label of a member with maximal probability", &desc); }
            }
            let probs2 = probs.clone();
            let poolrows = rows_f64(&poolc);
            let near = move |row: &[f64]| {
                // rows whose two best member probabilities are closer than f32 rounding of the sums
                match poolrows.iter().position(|r| r.as_slice() == row) {
                    Some(i) => { let mut v: Vec<f32> = probs2.iter().map(|q| *q[i]).collect(); v.sort_by(|a, b| b.partial_cmp(a).unwrap()); (v[0] - v[1]).abs() <= 1e-6 }
                    None => true,
                }
            };
            let xl = Xl { exact: false, scale: sc, near: Some(Box::new(near)), expo: false };
            let pred = mk_pred!(wrapper, Array1<usize>, f64);
            metamorph(ctx, rng, "multi_class_ftrl", &format!("p={} classes={}", p, k), &pred, &poolc, &xl);
        } else { no_model(ctx, "multi_class_ftrl", "member fit failed"); }

        // Platt calibration of a fitted regressor's decision value
        let yb: Array1<bool> = y.iter().map(|v| *v + 1.5 * rng.gauss() > 0.0).collect();
        if let Ok(Ok(inner)) = guarded(AssertUnwindSafe(|| LinearRegression::new().fit(&DatasetBase::new(xa.clone(), Array1::from(y.clone()))))) {
            platt_wrapper_check(ctx, rng, "platt_ols", inner, &xa, &yb, &pool);
        }
    }
}
