// C03 harness, part 5 (included by bin/c03.rs): the run.
fn main() {
    let args = parse_args();
    // watchdog: a fit that does not terminate must not hang the check
    std::thread::spawn(|| {
        std::thread::sleep(std::time::Duration::from_secs(900));
        eprintln!("c03 harness: watchdog - generation did not finish within 900 s (a library fit does not terminate?)");
        std::process::exit(3);
    });
    let thorough = args.tier == "thorough";
    let mut rng = Sm64::new(args.seed);
    let mut ctx = Ctx {
        out: Out::new(&args.out, args.shards, "C03.Corr", "case", args.only),
        id: 0,
        nbatches: if thorough { 16 } else { 8 },
        max_xl_ulps: 0.0,
        max_xl_window: 0.0,
    };
    let ninst = if thorough { 20 } else { 5 };
    // every section draws from its own child generator, so that a replay of one id is stable
    let t0 = std::time::Instant::now();
    macro_rules! lap { ($n:expr) => { if std::env::var("C03_TRACE").is_ok() { eprintln!("{:>8.2}s {}", t0.elapsed().as_secs_f64(), $n); } }; }
    lap!("multi_target_cases");
    let mut r = rng.fork(); multi_target_cases(&mut ctx, &mut r, thorough);
    lap!("multi_class_cases");
    let mut r = rng.fork(); multi_class_cases(&mut ctx, &mut r, thorough);
    lap!("platt_direct_cases");
    let mut r = rng.fork(); platt_direct_cases(&mut ctx, &mut r, thorough);
    lap!("platt_mock_cases");
    let mut r = rng.fork(); platt_mock_cases(&mut ctx, &mut r, thorough);
    lap!("kmeans_models");
    let mut r = rng.fork(); kmeans_models(&mut ctx, &mut r, ninst);
    lap!("gmm_models");
    let mut r = rng.fork(); gmm_models(&mut ctx, &mut r, ninst);
    lap!("linear_models");
    let mut r = rng.fork(); linear_models(&mut ctx, &mut r, ninst);
    lap!("isotonic_models");
    let mut r = rng.fork(); isotonic_models(&mut ctx, &mut r, 3 * ninst);
    lap!("logistic_models");
    let mut r = rng.fork(); logistic_models(&mut ctx, &mut r, ninst);
    lap!("svm_models");
    let mut r = rng.fork(); svm_models(&mut ctx, &mut r, ninst);
    lap!("tree_models");
    let mut r = rng.fork(); tree_models(&mut ctx, &mut r, ninst);
    lap!("bayes_models");
    let mut r = rng.fork(); bayes_models(&mut ctx, &mut r, ninst);
    lap!("ftrl_models");
    let mut r = rng.fork(); ftrl_models(&mut ctx, &mut r, ninst);
    lap!("reduction_models");
    let mut r = rng.fork(); reduction_models(&mut ctx, &mut r, ninst);
    lap!("composed_models");
    let mut r = rng.fork(); composed_models(&mut ctx, &mut r, ninst);
    // largest cross-layout difference seen, in units of 1e-3 ulp of the larger value
    let ulps = (ctx.max_xl_ulps * 1000.0).min(1.0e15) as u64;
    ctx.out.bump_by("xl_max_difference_milli_ulps", ulps);
    // largest fraction of the cross-layout rounding window that was consumed, in 1e-6
    let win = (ctx.max_xl_window * 1.0e6).min(1.0e15) as u64;
    ctx.out.bump_by("xl_max_window_fraction_ppm", win);
    ctx.out.finish("per predictor type: fitted instances over feature counts {1,2,3,5,8,9,17} x batches (whole pool, empty, single row, one row three times, random rows with repeats), each batch predicted whole / row by row / permuted / with duplicates / in halves / through every calling form / in column-major, strided and reversed layouts; Coq cases: exhaustive (rows, members) in 0..4 x 0..4 for both wrappers plus random and malformed members, platt_predict over special and random (a, b, x), one case per fitted k-means / linear / tree / isotonic / affine model; a case is non-trivial when the batch has >= 2 rows (metamorphic) or the wrapper has >= 2 members; distinct = distinct canonical inputs");
}
