// C03 harness, part 2 (included by bin/c03.rs): mock members, the composing wrappers, Platt scaling.

/// mock single-target regressor. mode 0: a function of the row alone; mode 1: depends on the row
/// index (like the DummyModel2 of the crate's tests); `extra` != 0 returns a vector of the wrong length.
#[derive(Debug, Clone)]
struct MockReg { tag: f64, mode: u8, extra: isize }
impl<D: Data<Elem = f64>> PredictInplace<ArrayBase<D, Ix2>, Array1<f64>> for MockReg {
    fn predict_inplace(&self, x: &ArrayBase<D, Ix2>, y: &mut Array1<f64>) {
        let n = (x.nrows() as isize + self.extra).max(0) as usize;
        let p = x.ncols();
        *y = (0..n)
            .map(|i| {
                if self.mode == 0 && i < x.nrows() && p > 0 {
                    self.tag * 1000.0 + 7.0 * x[(i, 0)] - x[(i, p - 1)]
                } else {
                    self.tag * 1000.0 + i as f64
                }
            })
            .collect();
    }
    fn default_target(&self, x: &ArrayBase<D, Ix2>) -> Array1<f64> { Array1::zeros(x.nrows()) }
}

/// mock probability model: probabilities are multiples of 1/4 so that ties between members are frequent
#[derive(Debug, Clone)]
struct MockPr { tag: f64, mode: u8, extra: isize }
impl<D: Data<Elem = f64>> PredictInplace<ArrayBase<D, Ix2>, Array1<Pr>> for MockPr {
    fn predict_inplace(&self, x: &ArrayBase<D, Ix2>, y: &mut Array1<Pr>) {
        let n = (x.nrows() as isize + self.extra).max(0) as usize;
        *y = (0..n)
            .map(|i| {
                let v = if self.mode == 0 && i < x.nrows() && x.ncols() > 0 {
                    (x[(i, 0)] * (self.tag + 1.0)).rem_euclid(5.0).floor() / 4.0
                } else if self.mode == 2 {
                    0.5
                } else {
                    ((i as f64 * (self.tag + 1.0)) % 5.0).floor() / 4.0
                };
                Pr::new(v as f32)
            })
            .collect();
    }
    fn default_target(&self, x: &ArrayBase<D, Ix2>) -> Array1<Pr> { Array1::default(x.nrows()) }
}

fn lattice(rng: &mut Sm64, n: usize, p: usize) -> Array2<f64> {
    Array2::from_shape_fn((n, p), |_| rng.range(-6, 6) as f64 * 0.5)
}

fn multi_target_cases(ctx: &mut Ctx, rng: &mut Sm64, thorough: bool) {
    let mut shapes: Vec<(usize, usize, u8, isize)> = Vec::new();
    for n in 0..=4 { for m in 0..=4 { for mode in 0..2u8 { shapes.push((n, m, mode, 0)); } } }
    let nrand = if thorough { 120 } else { 30 };
    for _ in 0..nrand { shapes.push((rng.below(10) as usize, rng.below(7) as usize, rng.below(2) as u8, 0)); }
    for _ in 0..(if thorough { 20 } else { 8 }) { shapes.push((1 + rng.below(4) as usize, 1 + rng.below(4) as usize, 1, if rng.chance(0.5) { 1 } else { -1 })); }
    for (n, m, mode, extra) in shapes {
        let id = ctx.next_id();
        let mut cr = rng.fork();
        let rng = &mut cr;
        if !ctx.out.wanted(id) { continue; }
        let x = lattice(rng, n, 2);
        let bad = if extra != 0 { rng.below(m as u64) as usize } else { usize::MAX };
        let mocks: Vec<MockReg> = (0..m).map(|j| MockReg { tag: (j + 1) as f64, mode, extra: if j == bad { extra } else { 0 } }).collect();
        let members: Vec<Vec<f64>> = mocks.iter().map(|mk| { let y: Array1<f64> = mk.predict(&x); y.to_vec() }).collect();
        let model: MultiTargetModel<Array2<f64>, f64> = mocks.iter().cloned().collect();
        let res = guarded(AssertUnwindSafe(|| { let y: Array2<f64> = model.predict(&x); y }));
        let (panicked, shape, rows) = match &res {
            Ok(y) => (false, (y.nrows(), y.ncols()), rows_of(&y.view())),
            Err(_) => (true, (0, 0), vec![]),
        };
        let coq = format!(
            "CMT {} {} {} {} ({}, {}) {}",
            cn(id), cn(n as u64), clist(&members, |v| cvec64(v)), cbool(panicked), cn(shape.0 as u64), cn(shape.1 as u64), cmat64(&rows)
        );
        let desc = format!(
            "{{\"wrapper\": \"MultiTargetModel\", \"rows\": {}, \"members\": {}, \"member_mode\": {}, \"malformed_member\": {}, \"member_outputs\": {}, \"panicked\": {}, \"output\": {}}}",
            n, m, mode, extra != 0, jrows(&members), panicked, jrows(&rows)
        );
        ctx.out.bump("coq_multi_target");
        if extra != 0 { ctx.out.bump("coq_multi_target_malformed"); }
        let key = if n >= 2 && m >= 2 { Some(fnv(desc.as_bytes())) } else { None };
        let tags: Vec<&str> = if extra != 0 { vec!["wrapper_multi_target", "malformed_member"] } else { vec!["wrapper_multi_target"] };
        ctx.out.case(id, &coq, &tags, &desc, key);
    }
    // metamorphic programme on wrappers whose members are row functions
    for k in 0..(if thorough { 6 } else { 2 }) {
        let m = 1 + k % 4;
        let model: MultiTargetModel<Array2<f64>, f64> = (0..m).map(|j| MockReg { tag: (j + 1) as f64, mode: 0, extra: 0 }).collect();
        let pool = lattice(rng, 14, 3);
        let pred = mk_pred!(model, Array2<f64>, f64);
        metamorph(ctx, rng, "multi_target_mock", &format!("{} row-function members", m), &pred, &pool, &Xl::exact());
    }
}

fn multi_class_cases(ctx: &mut Ctx, rng: &mut Sm64, thorough: bool) {
    let mut shapes: Vec<(usize, usize, u8, isize)> = Vec::new();
    for n in 0..=4 { for m in 0..=4 { for mode in 0..3u8 { shapes.push((n, m, mode, 0)); } } }
    let nrand = if thorough { 150 } else { 40 };
    for _ in 0..nrand { shapes.push((rng.below(10) as usize, rng.below(7) as usize, rng.below(3) as u8, 0)); }
    for _ in 0..(if thorough { 20 } else { 8 }) { shapes.push((1 + rng.below(4) as usize, 2 + rng.below(3) as usize, 1, if rng.chance(0.5) { 1 } else { -1 })); }
    for (n, m, mode, extra) in shapes {
        let id = ctx.next_id();
        let mut cr = rng.fork();
        let rng = &mut cr;
        if !ctx.out.wanted(id) { continue; }
        let x = lattice(rng, n, 2);
        let bad = if extra != 0 { rng.below(m as u64) as usize } else { usize::MAX };
        let dup_labels = rng.chance(0.15);
        let labels: Vec<usize> = (0..m).map(|j| if dup_labels { 10 + j / 2 } else { 10 + ((j * 7) % 11) }).collect();
        let mocks: Vec<MockPr> = (0..m).map(|j| MockPr { tag: ((j * 3) % 5) as f64, mode, extra: if j == bad { extra } else { 0 } }).collect();
        let members: Vec<Vec<f64>> = mocks.iter().map(|mk| { let y: Array1<Pr> = mk.predict(&x); y.iter().map(|p| **p as f64).collect() }).collect();
        let model: MultiClassModel<Array2<f64>, usize> = labels.iter().cloned().zip(mocks.iter().cloned()).collect();
        let res = guarded(AssertUnwindSafe(|| { let y: Array1<usize> = model.predict(&x); y }));
        let (panicked, outv) = match &res { Ok(y) => (false, y.to_vec()), Err(_) => (true, vec![]) };
        let coq = format!(
            "CMC {} {} 0%N {} {} {} {}",
            cn(id), cn(n as u64), cvecn(&labels), clist(&members, |v| cvec64(v)), cbool(panicked), cvecn(&outv)
        );
        let desc = format!(
            "{{\"wrapper\": \"MultiClassModel\", \"rows\": {}, \"labels\": {:?}, \"member_mode\": {}, \"malformed_member\": {}, \"member_probabilities\": {}, \"panicked\": {}, \"output\": {:?}}}",
            n, labels, mode, extra != 0, jrows(&members), panicked, outv
        );
        ctx.out.bump("coq_multi_class");
        // ties between the best members are what distinguishes > from >= and first from last
        let ties = (0..n).filter(|&i| {
            let pr: Vec<f64> = members.iter().filter(|v| v.len() > i).map(|v| v[i]).collect();
            let mx = pr.iter().cloned().fold(f64::NEG_INFINITY, f64::max);
            pr.iter().filter(|v| **v == mx).count() >= 2
        }).count();
        if ties > 0 { ctx.out.bump("coq_multi_class_with_ties"); }
        let key = if n >= 1 && m >= 2 { Some(fnv(desc.as_bytes())) } else { None };
        let tags: Vec<&str> = if extra != 0 { vec!["wrapper_multi_class", "malformed_member"] } else { vec!["wrapper_multi_class"] };
        ctx.out.case(id, &coq, &tags, &desc, key);
    }
    for k in 0..(if thorough { 6 } else { 2 }) {
        let m = 2 + k % 4;
        let model: MultiClassModel<Array2<f64>, usize> = (0..m).map(|j| (20 + j, MockPr { tag: j as f64, mode: 0, extra: 0 })).collect();
        let pool = lattice(rng, 14, 2);
        let pred = mk_pred!(model, Array1<usize>, f64);
        metamorph(ctx, rng, "multi_class_mock", &format!("{} row-function members", m), &pred, &pool, &Xl::exact());
    }
}

// ---------------------------------------------------------------- Platt

/// (bits of f_apb as f32, bits of exp(-|f_apb|) as f32): the libm value the Gallina model takes as input
fn platt_aux64(x: f64, a: f64, b: f64) -> (u32, u32) {
    let f = (a * x + b) as f32;
    (f.to_bits(), (-f.abs()).exp().to_bits())
}
fn platt_aux32(x: f32, a: f32, b: f32) -> (u32, u32) {
    let f = a * x + b;
    (f.to_bits(), (-f.abs()).exp().to_bits())
}
fn platt_case(ctx: &mut Ctx, id: u64, is32: bool, a: f64, b: f64, pts: &[(f64, u32, u32, i64)], origin: &str) {
    let coq = format!(
        "CPL {} {} {} {} {}",
        cn(id), cbool(is32), sf64(a), sf64(b),
        clist(pts, |t| format!("({}, ({}, ({}, {})))", sf64(t.0), cz(t.1 as i64), cz(t.2 as i64), cz(t.3)))
    );
    let desc = format!(
        "{{\"platt\": {}, \"f32_model\": {}, \"a\": {:e}, \"b\": {:e}, \"decision_values\": {:?}, \"probabilities\": {:?}}}",
        jstr(origin), is32, a, b,
        pts.iter().map(|t| format!("{:e}", t.0)).collect::<Vec<_>>(),
        pts.iter().map(|t| if t.3 < 0 { "panic".to_string() } else { format!("{:e}", f32::from_bits(t.3 as u32)) }).collect::<Vec<_>>()
    );
    ctx.out.bump(&format!("coq_platt_{}", origin));
    let key = Some(fnv(desc.as_bytes()));
    ctx.out.case(id, &coq, &["wrapper_platt"], &desc, key);
}

fn platt_direct_cases(ctx: &mut Ctx, rng: &mut Sm64, thorough: bool) {
    let n = if thorough { 200 } else { 50 };
    let special = [0.0, -0.0, 1.0, -1.0, 0.5, -2.0, 3.75, 1.0e-3, -1.0e-3];
    for k in 0..n {
        let id = ctx.next_id();
        let mut cr = rng.fork();
        let rng = &mut cr;
        if !ctx.out.wanted(id) { continue; }
        let is32 = k % 3 == 2;
        let mut a = if rng.chance(0.5) { *rng.pick(&special) } else { rng.gauss() * 2.0 };
        let mut b = if rng.chance(0.5) { *rng.pick(&special) } else { rng.gauss() * 1.5 };
        if is32 { a = a as f32 as f64; b = b as f32 as f64; }
        let mut xs: Vec<f64> = vec![0.0, -0.0, 1.0, -1.0, 1.0e-8, -1.0e-8, 12.5, -12.5, 50.0, -50.0, 200.0, -200.0, 1.0e10, -1.0e10];
        if !is32 { xs.push(1.0e300); xs.push(-1.0e300); xs.push(1.0e-300); }
        for _ in 0..8 { xs.push(rng.gauss() * 4.0); }
        for _ in 0..4 { xs.push(rng.range(-8, 8) as f64 * 0.25); }
        if a != 0.0 { xs.push(-b / a); }    // decision value (close to) zero
        let mut pts = Vec::new();
        for x in xs {
            let x = if is32 { x as f32 as f64 } else { x };
            let (fb, eb) = if is32 { platt_aux32(x as f32, a as f32, b as f32) } else { platt_aux64(x, a, b) };
            let r = if is32 { guarded(move || *platt_predict(x as f32, a as f32, b as f32)) } else { guarded(move || *platt_predict(x, a, b)) };
            let pb = match r { Ok(p) => p.to_bits() as i64, Err(_) => -1 };
            pts.push((x, fb, eb, pb));
        }
        platt_case(ctx, id, is32, a, b, &pts, "direct");
    }
}

/// a and b of a fitted Platt model (private fields, no accessor): read from the derived Debug rendering
fn platt_coeffs(dbg: &str) -> Option<(f64, f64)> {
    let r = dbg.strip_prefix("Platt { a: ")?;
    let (a, r) = r.split_once(", b: ")?;
    let (b, _) = r.split_once(", obj: ")?;
    Some((a.parse().ok()?, b.parse().ok()?))
}

/// Platt::predict_inplace against platt_predict of the inner model's predictions, then the Coq case
fn platt_wrapper_check<O>(ctx: &mut Ctx, rng: &mut Sm64, name: &str, inner: O, x: &Array2<f64>, y: &Array1<bool>, pool: &Array2<f64>)
where
    O: PredictInplace<Array2<f64>, Array1<f64>> + std::fmt::Debug + Clone,
{
    let ds = DatasetBase::new(x.clone(), y.clone());
    let fitted = match guarded(AssertUnwindSafe(|| Platt::<f64, O>::params().fit_with(inner.clone(), &ds))) {
        Ok(Ok(m)) => m,
        Ok(Err(e)) => { no_model(ctx, name, &format!("{}", e)); return; }
        Err(e) => { no_model(ctx, name, &e); return; }
    };
    let (a, b) = match platt_coeffs(&format!("{:?}", fitted)) {
        Some(ab) => ab,
        None => panic!("cannot read a, b from the Debug rendering of Platt: {:?}", fitted),
    };
    let id = ctx.next_id();
    if ctx.out.wanted(id) {
        let dec: Array1<f64> = inner.predict(pool);
        let res = guarded(AssertUnwindSafe(|| { let p: Array1<Pr> = fitted.predict(pool); p }));
        let mut pts = Vec::new();
        for (i, v) in dec.iter().enumerate() {
            let (fb, eb) = platt_aux64(*v, a, b);
            let pb = match &res { Ok(p) if p.len() == dec.len() => p[i].to_bits() as i64, _ => -1 };
            pts.push((*v, fb, eb, pb));
        }
        platt_case(ctx, id, false, a, b, &pts, name);
    }
    let pred = mk_pred!(fitted, Array1<Pr>, f64);
    metamorph(ctx, rng, name, &format!("a={:e} b={:e}", a, b), &pred, pool, &Xl::real(a.abs() + b.abs() + 1.0));
}

fn platt_mock_cases(ctx: &mut Ctx, rng: &mut Sm64, thorough: bool) {
    for k in 0..(if thorough { 10 } else { 3 }) {
        let n = 20 + rng.below(20) as usize;
        let x = lattice(rng, n, 3);
        let inner = MockReg { tag: 0.0, mode: 0, extra: 0 };
        let dec: Array1<f64> = inner.predict(&x);
        // labels correlated with the decision value, with some noise
        let y: Array1<bool> = dec.iter().map(|v| (*v + 3.0 * rng.gauss() > 0.0) ^ (k % 2 == 1)).collect();
        let pool = lattice(rng, 16, 3);
        platt_wrapper_check(ctx, rng, "platt_mock", inner, &x, &y, &pool);
    }
}
