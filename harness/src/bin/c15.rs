//! C15 harness: incremental fitting (Gaussian / multinomial naive Bayes, mini-batch k-means, FTRL) on
//! generated histories, at `f64` and at `f32`; emits Coq cases for C15/Corr.v and evaluates a few model-free
//! oracles directly.  Values of either element type cross as exact binary64 literals (every f32 is an f64).
use linfa::dataset::Pr;
use linfa::prelude::*;
use linfa::traits::{Fit, FitWith, Predict};
use linfa_bayes::{GaussianNb, MultinomialNb};
use linfa_clustering::{IncrKMeansError, KMeans, KMeansInit};
use linfa_ftrl::Ftrl;
use linfa_nn::distance::{Distance, L1Dist, L2Dist, LInfDist};
use ndarray::{Array1, Array2, Axis};
use ndarray_stats::QuantileExt;
use rand::SeedableRng;
use rand_xoshiro::Xoshiro256Plus;
use std::collections::{BTreeMap, HashMap};
use vh::*;

/// the two element types of the learners
trait HF: linfa::Float + serde::Serialize + serde::de::DeserializeOwned + std::panic::UnwindSafe + std::panic::RefUnwindSafe + 'static {
    const F32: bool;
    fn of64(v: f64) -> Self;
    fn to64(self) -> f64;
}
impl HF for f64 {
    const F32: bool = false;
    fn of64(v: f64) -> f64 { v }
    fn to64(self) -> f64 { self }
}
impl HF for f32 {
    const F32: bool = true;
    fn of64(v: f64) -> f32 { v as f32 }
    fn to64(self) -> f64 { self as f64 }
}
/// round the generated data to the element type (identity at f64)
fn rnd<F: HF>(v: f64) -> f64 { F::of64(v).to64() }
fn rnd_rows<F: HF>(x: &[Vec<f64>]) -> Vec<Vec<f64>> { x.iter().map(|r| r.iter().map(|v| rnd::<F>(*v)).collect()).collect() }

fn arr<F: HF>(rows: &[Vec<f64>], d: usize) -> Array2<F> {
    Array2::from_shape_vec((rows.len(), d), rows.iter().flatten().map(|v| F::of64(*v)).collect()).unwrap()
}
fn vec64<F: HF>(a: &Array1<F>) -> Vec<f64> { a.iter().map(|v| v.to64()).collect() }

// ------------------------------------------------------------------------------------------------
// memory layouts: the SAME logical matrix presented in seven ways
// ------------------------------------------------------------------------------------------------
#[derive(Clone, Copy, Debug, PartialEq)]
enum Lay { Std, ColMajor, RevRowsView, RevColsView, RevRowsOwned, RevColsOwned, Strided }
const LAYS: [Lay; 7] = [Lay::Std, Lay::ColMajor, Lay::RevRowsView, Lay::RevColsView, Lay::RevRowsOwned, Lay::RevColsOwned, Lay::Strided];
impl Lay {
    fn name(self) -> &'static str {
        match self { Lay::Std => "std", Lay::ColMajor => "colmajor", Lay::RevRowsView => "revrows_view", Lay::RevColsView => "revcols_view",
                     Lay::RevRowsOwned => "revrows_owned", Lay::RevColsOwned => "revcols_owned", Lay::Strided => "strided2" }
    }
    fn rot(k: u64) -> Lay { LAYS[(k % 7) as usize] }
}
/// a backing array and the recipe that gives the logical matrix back
struct Laid<F: HF> { backing: Array2<F>, lay: Lay }
impl<F: HF> Laid<F> {
    fn new(rows: &[Vec<f64>], d: usize, lay: Lay) -> Laid<F> {
        let n = rows.len();
        let backing = match lay {
            Lay::Std => arr::<F>(rows, d),
            Lay::ColMajor => {
                use ndarray::ShapeBuilder;
                let mut v = Vec::with_capacity(n * d);
                for j in 0..d { for r in rows { v.push(F::of64(r[j])); } }
                Array2::from_shape_vec((n, d).f(), v).unwrap()
            }
            Lay::RevRowsView | Lay::RevRowsOwned => { let rr: Vec<Vec<f64>> = rows.iter().rev().cloned().collect(); arr::<F>(&rr, d) }
            Lay::RevColsView | Lay::RevColsOwned => { let rr: Vec<Vec<f64>> = rows.iter().map(|r| r.iter().rev().cloned().collect()).collect(); arr::<F>(&rr, d) }
            Lay::Strided => {
                // every second row and every second column of a (2n x 2d) array; the rest is junk
                let mut a = Array2::from_elem((2 * n, 2 * d), F::of64(-7.25e7));
                for (i, r) in rows.iter().enumerate() { for j in 0..d { a[(2 * i, 2 * j)] = F::of64(r[j]); a[(2 * i + 1, 2 * j)] = F::of64(r[j] + 1.0); } }
                a
            }
        };
        let l = Laid { backing, lay };
        debug_assert!(l.view().nrows() == n);
        l
    }
    fn view(&self) -> ndarray::ArrayView2<F> {
        use ndarray::s;
        match self.lay {
            Lay::Std | Lay::ColMajor => self.backing.view(),
            Lay::RevRowsView | Lay::RevRowsOwned => self.backing.slice(s![..;-1, ..]),
            Lay::RevColsView | Lay::RevColsOwned => self.backing.slice(s![.., ..;-1]),
            Lay::Strided => self.backing.slice(s![..;2, ..;2]),
        }
    }
    /// the owned presentations: the array itself (row-major, column-major) or `.to_owned()` of the reversed
    /// view, which keeps the negative strides
    fn owned(&self) -> Option<Array2<F>> {
        match self.lay {
            Lay::Std | Lay::ColMajor | Lay::RevRowsOwned | Lay::RevColsOwned => Some(self.view().to_owned()),
            _ => None,
        }
    }
    /// are the column views contiguous (`as_slice()` succeeds)? decides which ndarray dot kernel `diff.dot(x)` takes
    fn cols_contiguous(&self) -> bool {
        let v = self.view();
        (0..v.ncols()).all(|j| v.column(j).as_slice().is_some())
    }
}
/// run `$body` with `$r` bound to the records in their layout: an owned array or a view
macro_rules! with_recs {
    ($laid:expr, $r:ident => $body:expr) => {
        match $laid.owned() { Some($r) => { $body } None => { let $r = $laid.view(); $body } }
    };
}
/// targets in three presentations of the same logical vector: standard, reversed view, every second element
struct LaidT<T: Clone> { backing: Array1<T>, kind: u64 }
impl<T: Clone> LaidT<T> {
    fn new(y: &[T], kind: u64, junk: T) -> LaidT<T> {
        let backing = match kind % 3 {
            0 => Array1::from(y.to_vec()),
            1 => Array1::from(y.iter().rev().cloned().collect::<Vec<T>>()),
            _ => { let mut v = Vec::with_capacity(2 * y.len()); for t in y { v.push(t.clone()); v.push(junk.clone()); } Array1::from(v) }
        };
        LaidT { backing, kind: kind % 3 }
    }
    fn view(&self) -> ndarray::ArrayView1<T> {
        use ndarray::s;
        match self.kind { 0 => self.backing.view(), 1 => self.backing.slice(s![..;-1]), _ => self.backing.slice(s![..;2]) }
    }
}
fn tlay_name(kind: u64) -> &'static str { match kind % 3 { 0 => "std", 1 => "rev_view", _ => "strided2" } }
const SCALES: [i32; 5] = [0, -40, -20, 20, 40];
fn scale_rows(x: &mut [Vec<f64>], k: i32) { let s = 2f64.powi(k); for r in x.iter_mut() { for v in r.iter_mut() { *v *= s; } } }

// ------------------------------------------------------------------------------------------------
// naive Bayes
// ------------------------------------------------------------------------------------------------
#[derive(Clone, Debug)]
struct Info { label: usize, count: usize, prior: f64, v1: Vec<f64>, v2: Vec<f64> }

/// the class statistics are private: they are read through the (bit-exact) bincode serialisation, whose
/// layout is the field order of the structs (class_count, prior, theta|feature_count, sigma|feature_log_prob)
fn read_state<F: HF, M: serde::Serialize>(m: &M) -> Vec<Info> {
    let bytes = bincode::serialize(m).unwrap();
    let map: HashMap<usize, (usize, F, Array1<F>, Array1<F>)> = bincode::deserialize(&bytes).unwrap();
    let mut v: Vec<Info> = map
        .into_iter()
        .map(|(k, (c, p, a, b))| Info { label: k, count: c, prior: p.to64(), v1: vec64(&a), v2: vec64(&b) })
        .collect();
    v.sort_by_key(|i| i.label);
    v
}

enum NbModel<F: HF> { G(GaussianNb<F, usize>), M(MultinomialNb<F, usize>) }
impl<F: HF> NbModel<F> {
    fn state(&self) -> Vec<Info> {
        match self { NbModel::G(m) => read_state::<F, _>(m), NbModel::M(m) => read_state::<F, _>(m) }
    }
    /// predict on the whole (laid-out) query matrix at once; None when it panics
    fn predict_all<S: ndarray::Data<Elem = F>>(&self, q: &ndarray::ArrayBase<S, ndarray::Ix2>) -> Option<Vec<usize>> {
        let qv = q.view();
        let r = match self {
            NbModel::G(m) => { let m = m.clone(); guarded(std::panic::AssertUnwindSafe(move || m.predict(&qv).to_vec())) }
            NbModel::M(m) => { let m = m.clone(); guarded(std::panic::AssertUnwindSafe(move || m.predict(&qv).to_vec())) }
        };
        r.ok()
    }
    fn predict<S: ndarray::Data<Elem = F>>(&self, q: &ndarray::ArrayBase<S, ndarray::Ix2>) -> Vec<Option<usize>> {
        // row by row: a NaN likelihood makes `argmax().unwrap()` panic - an observation (None), not a crash;
        // the one-row slice keeps the column stride of the query matrix's layout
        (0..q.nrows())
            .map(|i| {
                let qi = q.slice(ndarray::s![i..i + 1, ..]);
                let r = match self {
                    NbModel::G(m) => { let m = m.clone(); guarded(std::panic::AssertUnwindSafe(move || m.predict(&qi)[0])) }
                    NbModel::M(m) => { let m = m.clone(); guarded(std::panic::AssertUnwindSafe(move || m.predict(&qi)[0])) }
                };
                r.ok()
            })
            .collect()
    }
}

/// every batch of a history is presented in its own layout: batch b of history `rot0` takes layout (rot0 + b) mod 7
/// and target presentation (rot0 + b) mod 3
fn nb_history<F: HF>(multi: bool, param: f64, x: &[Vec<f64>], y: &[usize], d: usize, cuts: &[usize], rot0: u64, used: &mut BTreeMap<&'static str, u64>) -> Result<NbModel<F>, String> {
    let mut pos = 0;
    if multi {
        let params = MultinomialNb::<F, usize>::params().alpha(F::of64(param));
        let mut model: Option<MultinomialNb<F, usize>> = None;
        for (b, &c) in cuts.iter().enumerate() {
            let laid = Laid::<F>::new(&x[pos..pos + c], d, Lay::rot(rot0 + b as u64));
            let ty = LaidT::new(&y[pos..pos + c], rot0 + b as u64, usize::MAX);
            *used.entry(laid.lay.name()).or_insert(0) += 1;
            model = with_recs!(laid, r => params.fit_with(model, &DatasetBase::new(r, ty.view()))).map_err(|e| format!("{}", e))?;
            pos += c;
        }
        model.map(NbModel::M).ok_or_else(|| "no model".to_string())
    } else {
        let params = GaussianNb::<F, usize>::params().var_smoothing(F::of64(param));
        let mut model: Option<GaussianNb<F, usize>> = None;
        for (b, &c) in cuts.iter().enumerate() {
            let laid = Laid::<F>::new(&x[pos..pos + c], d, Lay::rot(rot0 + b as u64));
            let ty = LaidT::new(&y[pos..pos + c], rot0 + b as u64, usize::MAX);
            *used.entry(laid.lay.name()).or_insert(0) += 1;
            model = with_recs!(laid, r => params.fit_with(model, &DatasetBase::new(r, ty.view()))).map_err(|e| format!("{}", e))?;
            pos += c;
        }
        model.map(NbModel::G).ok_or_else(|| "no model".to_string())
    }
}
fn nb_batch<F: HF>(multi: bool, param: f64, x: &[Vec<f64>], y: &[usize], d: usize, lay: Lay, tkind: u64) -> Result<NbModel<F>, String> {
    let laid = Laid::<F>::new(x, d, lay);
    let ty = LaidT::new(y, tkind, usize::MAX);
    if multi {
        with_recs!(laid, r => MultinomialNb::<F, usize>::params().alpha(F::of64(param)).fit(&DatasetBase::new(r, ty.view()))).map(NbModel::M).map_err(|e| format!("{}", e))
    } else {
        with_recs!(laid, r => GaussianNb::<F, usize>::params().var_smoothing(F::of64(param)).fit(&DatasetBase::new(r, ty.view()))).map(NbModel::G).map_err(|e| format!("{}", e))
    }
}

fn info_term(i: &Info) -> String {
    format!(
        "{{| i_label := {}; i_count := {}; i_prior := {}; i_v1 := {}; i_v2 := {} |}}",
        cn(i.label as u64), cn(i.count as u64), sf64(i.prior), cvec64(&i.v1), cvec64(&i.v2)
    )
}
fn optn(p: &Option<usize>) -> String {
    match p { Some(k) => format!("Some {}", cn(*k as u64)), None => "None".into() }
}

/// table of the logarithms the library takes, computed with the element type's own `ln`
struct LnTab(BTreeMap<u64, f64>);
impl LnTab {
    fn add<F: HF>(&mut self, x: F) {
        if !x.is_nan() { self.0.insert(x.to64().to_bits(), x.ln().to64()); }
    }
    /// every logarithm the library takes when it predicts from / last updated this state
    fn add_state<F: HF>(&mut self, multi: bool, param: f64, st: &[Info]) {
        for i in st {
            self.add(F::of64(i.prior));
            if multi {
                let sm: Array1<F> = Array1::from(i.v1.iter().map(|v| F::of64(*v)).collect::<Vec<F>>()) + F::of64(param);
                let cnt = sm.sum();
                for v in sm.iter() { self.add(*v); }
                self.add(cnt);
            } else {
                for s in &i.v2 { self.add(F::cast(2. * std::f64::consts::PI) * F::of64(*s)); }
            }
        }
    }
    fn term(&self) -> String {
        let v: Vec<(f64, f64)> = self.0.iter().map(|(k, v)| (f64::from_bits(*k), *v)).collect();
        format!("({})%float", clist(&v, |p| format!("({}, {})", cf64(p.0), cf64(p.1))))
    }
}

/// all compositions of n into ordered positive parts
fn compositions(n: usize) -> Vec<Vec<usize>> {
    let mut res = Vec::new();
    for mask in 0..(1u32 << (n - 1)) {
        let mut parts = Vec::new();
        let mut cur = 1;
        for b in 0..(n - 1) {
            if mask >> b & 1 == 1 { parts.push(cur); cur = 1; } else { cur += 1; }
        }
        parts.push(cur);
        res.push(parts);
    }
    res
}
fn random_cuts(r: &mut Sm64, n: usize) -> Vec<usize> {
    // number of batches 1..n, sizes unequal on purpose
    let nb = 1 + r.below(std::cmp::min(n, 9) as u64) as usize;
    let mut pts: Vec<usize> = (1..n).collect();
    r.shuffle(&mut pts);
    let mut cutp: Vec<usize> = pts.into_iter().take(nb - 1).collect();
    cutp.sort();
    let mut parts = Vec::new();
    let mut last = 0;
    for c in cutp { parts.push(c - last); last = c; }
    parts.push(n - last);
    parts
}

fn gen_nb_data(r: &mut Sm64, multi: bool, n: usize, d: usize, nc: usize, fam: u64) -> (Vec<Vec<f64>>, Vec<usize>, bool) {
    let labels: Vec<usize> = (0..nc).map(|c| c * (1 + r.below(3) as usize) + r.below(2) as usize).scan(0usize, |s, v| { *s += v + 1; Some(*s - 1) }).collect();
    let mut y: Vec<usize> = (0..n).map(|i| if i < nc { labels[i] } else { *r.pick(&labels) }).collect();
    if fam == 4 && nc > 1 && n > nc {
        // one class with a single row
        let rare = labels[nc - 1];
        let mut seen = false;
        for v in y.iter_mut() {
            if *v == rare { if seen { *v = labels[0]; } seen = true; }
        }
    }
    let centers: Vec<Vec<f64>> = (0..nc).map(|_| (0..d).map(|_| r.range(-6, 6) as f64 * 1.5).collect()).collect();
    let mut exact = multi;
    let x: Vec<Vec<f64>> = y
        .iter()
        .map(|lab| {
            let ci = labels.iter().position(|l| l == lab).unwrap();
            (0..d)
                .map(|j| {
                    if multi {
                        match fam {
                            0 | 4 => (r.below(6) + if (ci + j) % 2 == 0 { 3 } else { 0 }) as f64,       // small counts
                            1 => if r.chance(0.5) { 0.0 } else { r.below(3) as f64 },                   // many zeros
                            2 => (r.below(2000) * 1000) as f64,                                         // large counts
                            _ => { exact = false; (r.unit() * 4.0 * (1 + (ci + j) % 3) as f64 * 8.0).round() / 8.0 + r.unit() * 1e-3 } // tf-idf like fractions
                        }
                    } else {
                        let c = centers[ci][j];
                        match fam {
                            0 | 4 => c + (0.5 + j as f64) * r.gauss(),                                 // blobs
                            1 => (c / 1.5).round() + r.range(-1, 1) as f64,                             // lattice: duplicates, zero variances
                            2 => 1e3 + c + 1e-2 * r.gauss(),                                            // large offset, small spread
                            _ => c * 1e-3 + 1e-4 * r.gauss() * (1.0 + 30.0 * j as f64),                 // small scale, unequal feature variances
                        }
                    }
                })
                .collect()
        })
        .collect();
    (x, y, exact)
}

/// joint log-likelihood of one class recomputed in f64 from the stored statistics (to recognise near-ties)
fn jll_f64(multi: bool, i: &Info, q: &[f64]) -> f64 {
    if multi {
        q.iter().zip(&i.v2).map(|(x, lp)| x * lp).sum::<f64>() + i.prior.ln()
    } else {
        let a: f64 = i.v2.iter().map(|s| (2.0 * std::f64::consts::PI * s).ln()).sum::<f64>();
        let b: f64 = q.iter().zip(i.v1.iter().zip(&i.v2)).map(|(x, (t, s))| (x - t) * (x - t) / s).sum::<f64>();
        -0.5 * a - 0.5 * b + i.prior.ln()
    }
}
fn rel_close(a: f64, b: f64, rel: f64) -> bool {
    (a - b).abs() <= rel * (1.0 + a.abs() + b.abs())
}

/// does the checked-out gaussian_nb.rs carry the repair of finding F12 (design-notes/fixes/C15_F12.diff)?
/// The repaired recurrence is a different function of the history, so the model variant is selected by the source.
fn gnb_repaired() -> bool {
    let repo = std::env::var("VERIF_REPO").unwrap_or_else(|_| "/repo".into());
    std::fs::read_to_string(format!("{}/algorithms/linfa-bayes/src/gaussian_nb.rs", repo))
        .map(|s| s.contains("fn max_pooled_variance"))
        .unwrap_or(false)
}

fn nb_case<F: HF>(out: &mut Out, id: u64, r: &mut Sm64, exhaustive: bool, thorough: bool, repaired: bool) {
    let multi = r.chance(0.42);
    let d = 1 + r.below(if exhaustive { 3 } else { 5 }) as usize;
    let n = if F::F32 {
        // binary32 arithmetic costs ~50 us per operation inside Coq: smaller data, fewer histories
        if exhaustive { 3 + r.below(3) as usize } else { 2 + r.below(if thorough { 60 } else { 28 }) as usize }
    } else if exhaustive { 4 + r.below(if thorough { 5 } else { 4 }) as usize } else { 2 + r.below(if thorough { 199 } else { 70 }) as usize };
    let nc = 1 + r.below(std::cmp::min(4, n) as u64) as usize;
    let fam = r.below(5);
    let (x0, mut y, mut exact) = gen_nb_data(r, multi, n, d, nc, fam);
    let mut x = rnd_rows::<F>(&x0);
    let order = r.below(3);
    // twin classes: two labels own exactly the same rows -> exactly tied posteriors in the single fit
    let twin = r.chance(0.15) && n >= 2;
    if twin {
        let h = std::cmp::max(1, n / 2);
        let (l0, l1) = (1usize, 4usize);
        let (bx, _) = (x.clone(), 0);
        x.clear(); y.clear();
        for i in 0..h { x.push(bx[i].clone()); y.push(l0); x.push(bx[i].clone()); y.push(l1); }
    }
    let n = x.len();
    if order == 1 && !twin {
        // sorted by class: most batches lack most classes
        let mut idx: Vec<usize> = (0..n).collect();
        idx.sort_by_key(|&i| y[i]);
        x = idx.iter().map(|&i| x[i].clone()).collect();
        y = idx.iter().map(|&i| y[i]).collect();
    }
    let mut copies = 1;
    let param = rnd::<F>(if multi {
        *r.pick(&[1.0, 1.0, 0.5, 1e-3, 0.0, 7.0])
    } else {
        *r.pick(&[0.0, 0.0, 0.0, 1e-9, 1e-3, 0.1])
    });
    if !multi && param > 0.0 && !exhaustive && r.chance(0.5) && n <= 40 {
        // every batch is the same block: all per-batch epsilons (and the one of the whole data) coincide
        copies = 2 + r.below(3) as usize;
        let (bx, by) = (x.clone(), y.clone());
        for _ in 1..copies { x.extend(bx.iter().cloned()); y.extend(by.iter().cloned()); }
    }
    let ntot = x.len();
    if F::F32 && multi && x.iter().map(|r| r.iter().sum::<f64>()).sum::<f64>() >= 16777216.0 { exact = false; }
    // robustness sweep: the scale (a power of two, exact) rotates with the case id, the layouts with id / history / batch
    let sk: i32 = [0, -40, 0, -20, 20, 0, 40][(id % 7) as usize];
    let blay = Lay::rot(r.below(7));
    let qlay = Lay::rot(r.below(7));
    let btk = r.below(3);
    let cutsets: Vec<Vec<usize>> = if exhaustive {
        compositions(ntot)
    } else if copies > 1 {
        vec![vec![n; copies]]
    } else {
        let mut v = vec![vec![ntot], random_cuts(r, ntot), random_cuts(r, ntot), vec![1; std::cmp::min(ntot, 12)].into_iter().chain(if ntot > 12 { vec![ntot - 12] } else { vec![] }).collect()];
        if ntot >= 4 { v.push(vec![ntot - 1, 1]); v.push(vec![1, ntot - 1]); }
        v
    };
    // queries: training rows, class means-ish points, fresh points
    let mut q: Vec<Vec<f64>> = Vec::new();
    for _ in 0..(if exhaustive { 3 } else { 5 }) {
        match r.below(3) {
            0 => q.push(x[r.below(ntot as u64) as usize].clone()),
            1 => {
                let a = &x[r.below(ntot as u64) as usize];
                let b = &x[r.below(ntot as u64) as usize];
                q.push(a.iter().zip(b).map(|(u, v)| rnd::<F>((u + v) / 2.0)).collect());
            }
            _ => q.push(x[r.below(ntot as u64) as usize].iter().map(|v| rnd::<F>(if multi { (v + r.below(3) as f64).abs() } else { v + r.gauss() })).collect()),
        }
    }
    // scaling by 2^sk is exact in both element types (no datum leaves the normal range); the multinomial alpha is a
    // count and is scaled with the counts, var_smoothing is relative and is not
    scale_rows(&mut x, sk);
    scale_rows(&mut q, sk);
    let param = if multi { rnd::<F>(param * 2f64.powi(sk)) } else { param };
    let qlaid = Laid::<F>::new(&q, d, qlay);

    // epsilon classes of finding F12 (decidable from the input alone; exact binary64 arithmetic on the data suffices)
    let mut tags: Vec<String> = vec![if multi { "mnb".into() } else { "gnb".into() }, format!("fam_{}", fam), if F::F32 { "f32".into() } else { "f64".into() },
                                     format!("scale_{}", sk), format!("lay_{}", blay.name()), format!("qlay_{}", qlay.name()), "hist_layouts_rotating".into()];
    let eps_of = |rows: &[Vec<f64>]| -> f64 { param * *arr::<f64>(rows, d).var_axis(Axis(0), 0.0).max().unwrap_or(&f64::NAN) };
    let mut eps_differ = false;
    if !multi {
        let eall = eps_of(&x);
        for cuts in &cutsets {
            let mut pos = 0;
            for &c in cuts {
                let e = eps_of(&x[pos..pos + c]);
                if !((e - eall).abs() <= 1e-12 * eall.abs()) { eps_differ = true; }
                pos += c;
            }
        }
        tags.push(if param > 0.0 { "vs_pos".into() } else { "vs_zero".into() });
        if param > 0.0 { tags.push(if eps_differ { "eps_differ".into() } else { "eps_equal".into() }); }
    }
    let nclasses_present = { let mut l = y.clone(); l.sort(); l.dedup(); l.len() };
    let desc = format!(
        "{{\"learner\": {}, \"float\": {}, \"scale_log2\": {}, \"single_fit_layout\": {}, \"single_fit_targets\": {}, \"query_layout\": {}, \"history_layouts\": \"batch b of history h: layout (id+h+b) mod 7 of [std, colmajor, revrows_view, revcols_view, revrows_owned, revcols_owned, strided2], targets (id+h+b) mod 3 of [std, rev_view, strided2]\", \"n\": {}, \"d\": {}, \"classes\": {}, \"param\": {:e}, \"family\": {}, \"order\": {}, \"copies\": {}, \"histories\": {}, \"exhaustive\": {}, \"X_first_row\": {:?}, \"y\": {:?}}}",
        jstr(if multi { "multinomial_nb" } else { "gaussian_nb" }), jstr(if F::F32 { "f32" } else { "f64" }), sk, jstr(blay.name()), jstr(tlay_name(btk)), jstr(qlay.name()), ntot, d, nclasses_present, param, fam, order, copies, cutsets.len(), exhaustive, x[0], &y[..std::cmp::min(y.len(), 24)]
    );
    out.bump(if multi { "nb_multinomial" } else { "nb_gaussian" });
    out.bump(if F::F32 { "nb_f32" } else { "nb_f64" });
    out.bump(&format!("nb_scale_2^{}", sk));
    out.bump(&format!("nb_single_fit_layout_{}", blay.name()));
    out.bump(&format!("nb_single_fit_targets_{}", tlay_name(btk)));
    out.bump(&format!("nb_query_layout_{}", qlay.name()));
    out.bump(if exhaustive { "nb_exhaustive_compositions" } else { "nb_random_cuts" });
    out.bump(&format!("nb_classes_{}", nclasses_present));
    if twin { out.bump("nb_twin_classes_exact_ties"); }
    if !multi { out.bump(if param > 0.0 { if eps_differ { "gnb_vs_pos_eps_differ" } else { "gnb_vs_pos_eps_equal" } } else { "gnb_vs_zero" }); }
    let tagrefs: Vec<&str> = tags.iter().map(|s| s.as_str()).collect();

    let batch = match nb_batch::<F>(multi, param, &x, &y, d, blay, btk) {
        Ok(m) => m,
        Err(e) => { out.rust_fail(id, 1 << 20, &tagrefs, &format!("batch fit failed on valid data: {}", e), &desc); out.rust_eval(&desc, None); return; }
    };
    let bstate = batch.state();
    let bpred = with_recs!(qlaid, qa => batch.predict(&qa));
    // the whole laid-out query matrix at once must answer like its rows one by one
    // (ndarray's `sum_axis` / `sum` legitimately add the terms of a row in memory order for some layouts - e.g. reversed
    // columns - so the two answers may differ where the two best joint log-likelihoods agree to rounding: such
    // near-ties, recognised by an f64 recomputation from the stored statistics with the relative window of the
    // batch-vs-history oracle, are accepted)
    let check_all = |m: &NbModel<F>, st: &[Info], rowwise: &[Option<usize>], out: &mut Out, what: &str| {
        if rowwise.iter().all(|p| p.is_some()) {
            let all = with_recs!(qlaid, qa => m.predict_all(&qa));
            let want: Vec<usize> = rowwise.iter().map(|p| p.unwrap()).collect();
            let near_tie = |got: &Vec<usize>| -> bool {
                got.len() == want.len() && got.iter().zip(&want).zip(&q).all(|((g, w), qi)| g == w || {
                    match (st.iter().find(|i| i.label == *g), st.iter().find(|i| i.label == *w)) {
                        (Some(ig), Some(iw)) => rel_close(jll_f64(multi, ig, qi), jll_f64(multi, iw, qi), if F::F32 { 1.0 / 256.0 } else { 1.0 / 1048576.0 }),
                        _ => false,
                    }
                })
            };
            if all.as_ref() != Some(&want) && !all.as_ref().map_or(false, near_tie) {
                out.rust_fail(id, 1 << 25, &tagrefs, &format!("predict on the whole query matrix (layout {}) gives {:?}, row by row {:?} ({})", qlay.name(), all, want, what), &desc);
            }
        }
    };
    check_all(&batch, &bstate, &bpred, out, "single fit");
    let mut used: BTreeMap<&'static str, u64> = BTreeMap::new();
    let mut tab = LnTab(BTreeMap::new());
    tab.add_state::<F>(multi, param, &bstate);
    let mut hists: Vec<String> = Vec::new();
    let mut incomplete = 0u64;
    let mut nbatches = 0u64;
    for (hi, cuts) in cutsets.iter().enumerate() {
        let model = match nb_history::<F>(multi, param, &x, &y, d, cuts, id + hi as u64, &mut used) {
            Ok(m) => m,
            Err(e) => { out.rust_fail(id, 1 << 20, &tagrefs, &format!("fit_with failed on valid batches {:?}: {}", cuts, e), &desc); out.rust_eval(&desc, None); return; }
        };
        let st = model.state();
        if multi || hi < 2 { tab.add_state::<F>(multi, param, &st); }
        // intermediate states of the multinomial model take logarithms too (their results are overwritten or kept)
        let pred = if hi < 2 || (!exhaustive && hi < 4) {
            if !multi { tab.add_state::<F>(multi, param, &st); }
            let hp = with_recs!(qlaid, qa => model.predict(&qa));
            if hi < 2 { check_all(&model, &st, &hp, out, "history"); }
            clist(&hp, optn)
        } else { "[]".into() };
        let mut pos = 0;
        for &c in cuts {
            let mut l: Vec<usize> = y[pos..pos + c].to_vec(); l.sort(); l.dedup();
            if l.len() < nclasses_present { incomplete += 1; }
            nbatches += 1;
            pos += c;
        }
        // model-free oracle (Rust side): multinomial log-probabilities are the additively smoothed frequencies
        if multi {
            for i in &st {
                let tot: f64 = i.v1.iter().sum::<f64>() + param * d as f64;
                for j in 0..d {
                    let want = ((i.v1[j] + param) / tot).ln();
                    let ok = if want.is_finite() { rel_close(i.v2[j], want, if F::F32 { 1e-4 } else { 1e-9 }) } else { i.v2[j] == want || (i.v2[j].is_nan() && want.is_nan()) };
                    if !ok {
                        out.rust_fail(id, 1 << 17, &tagrefs, &format!("feature_log_prob[{}][{}] = {:e}, smoothed frequency gives {:e} (history {:?})", i.label, j, i.v2[j], want, cuts), &desc);
                    }
                }
            }
        }
        hists.push(format!(
            "{{| h_cuts := {}; h_final := {}; h_pred := {} |}}",
            cvecn(cuts), clist(&st, info_term), pred
        ));
    }
    for (k, v) in &used { out.bump_by(&format!("nb_batch_layout_{}", k), *v); }
    out.bump_by("nb_histories", cutsets.len() as u64);
    out.bump_by("nb_batches", nbatches);
    out.bump_by("nb_class_incomplete_batches", incomplete);
    let coq = format!(
        "{{| c_id := {}; c_body := NB {{| n_f32 := {}; n_repaired := {}; n_multinomial := {}; n_param := {}; n_d := {}; n_X := {}; n_y := {}; n_batch := {}; n_batch_pred := {}; n_query := {}; n_ln := {}; n_exact := {}; n_hists := [{}] |}} |}}",
        cn(id), cbool(F::F32), cbool(repaired), cbool(multi), sf64(param), cn(d as u64), cmat64(&x), cvecn(&y), clist(&bstate, info_term), clist(&bpred, optn),
        cmat64(&q), tab.term(), cbool(exact), hists.join("; ")
    );
    let key = if nclasses_present > 1 && cutsets.iter().any(|c| c.len() > 1) { Some(fnv_f64s(&x.concat(), id << 3 | multi as u64)) } else { None };
    out.case(id, &coq, &tagrefs, &desc, key);
}

// ------------------------------------------------------------------------------------------------
// mini-batch k-means
// ------------------------------------------------------------------------------------------------
#[derive(Clone, Copy, PartialEq, Debug)]
enum Met { L1, L2, Linf }

struct KStep { x: Vec<Vec<f64>>, centroids: Vec<Vec<f64>>, counts: Vec<f64>, inertia: f64, ok: bool }

/// batch b is presented in layout (rot0 + b) mod 7; `init_f`: the Precomputed centroids are a column-major array
fn km_run<F: HF, D: Distance<F> + Clone + std::fmt::Debug + 'static>(
    dist: D, k: usize, init: Option<&Vec<Vec<f64>>>, init_f: bool, rot0: u64, seed: u64, tol: f64, d: usize, batches: &[Vec<Vec<f64>>],
) -> Result<Vec<KStep>, String> {
    let rng = Xoshiro256Plus::seed_from_u64(seed);
    let im = match init {
        Some(c) => KMeansInit::Precomputed(Laid::<F>::new(c, d, if init_f { Lay::ColMajor } else { Lay::Std }).backing),
        None => KMeansInit::Random,
    };
    let params = KMeans::params_with(k, rng, dist).tolerance(F::of64(tol)).n_runs(1).init_method(im);
    let mut model: Option<KMeans<F, D>> = None;
    let mut steps = Vec::new();
    for (bi, b) in batches.iter().enumerate() {
        let laid = Laid::<F>::new(b, d, Lay::rot(rot0 + bi as u64));
        let res = with_recs!(laid, r => params.fit_with(model, &DatasetBase::from(r)));
        let (m, ok) = match res {
            Ok(m) => (m, true),
            Err(IncrKMeansError::NotConverged(m)) => (m, false),
            Err(e) => return Err(format!("{}", e)),
        };
        steps.push(KStep {
            x: b.clone(),
            centroids: m.centroids().rows().into_iter().map(|r| r.iter().map(|v| v.to64()).collect()).collect(),
            counts: vec64(m.cluster_count()),
            inertia: m.inertia().to64(),
            ok,
        });
        model = Some(m);
    }
    Ok(steps)
}
#[allow(clippy::too_many_arguments)]
fn km_go<F: HF>(m: Met, k: usize, init: Option<&Vec<Vec<f64>>>, init_f: bool, rot0: u64, seed: u64, tol: f64, d: usize, batches: &[Vec<Vec<f64>>]) -> Result<Vec<KStep>, String> {
    let (i2, b2) = (init.cloned(), batches.to_vec());
    match guarded(move || match m {
        Met::L1 => km_run::<F, _>(L1Dist, k, i2.as_ref(), init_f, rot0, seed, tol, d, &b2),
        Met::L2 => km_run::<F, _>(L2Dist, k, i2.as_ref(), init_f, rot0, seed, tol, d, &b2),
        Met::Linf => km_run::<F, _>(LInfDist, k, i2.as_ref(), init_f, rot0, seed, tol, d, &b2),
    }) { Ok(r) => r, Err(p) => Err(format!("PANIC: {}", p)) }
}
/// distance between two centroid matrices as the library computes it (sequential folds in the element type;
/// the L2 square root is taken in f64 and rounded back)
fn cdist<F: HF>(m: Met, a: &[Vec<f64>], b: &[Vec<f64>], colmajor: bool) -> f64 {
    // column-major centroid matrices are folded column by column
    let flat = |x: &[Vec<f64>]| -> Vec<F> {
        if colmajor { let d = x[0].len(); (0..d).flat_map(|j| x.iter().map(move |r| F::of64(r[j]))).collect() } else { x.concat().iter().map(|v| F::of64(*v)).collect() }
    };
    let (fa, fb) = (flat(a), flat(b));
    match m {
        Met::L2 => F::of64(fa.iter().zip(&fb).fold(F::zero(), |acc, (x, y)| acc + (*x - *y) * (*x - *y)).to64().sqrt()).to64(),
        Met::L1 => fa.iter().zip(&fb).fold(F::zero(), |acc, (x, y)| acc + (*x - *y).abs()).to64(),
        Met::Linf => fa.iter().zip(&fb).fold(F::zero(), |acc: F, (x, y)| { let dd = (*x - *y).abs(); if acc < dd { dd } else { acc } }).to64(),
    }
}

fn km_case<F: HF>(out: &mut Out, id: u64, r: &mut Sm64, thorough: bool) {
    let d = 1 + r.below(3) as usize;
    let k = 1 + r.below(4) as usize;
    let m = *r.pick(&[Met::L2, Met::L2, Met::L2, Met::L1, Met::Linf]);
    let kind = r.below(4);
    let nb = 1 + r.below(if thorough { 8 } else { 6 }) as usize;
    let centers: Vec<Vec<f64>> = (0..k + 1).map(|_| (0..d).map(|_| r.range(-8, 8) as f64 * 2.0).collect()).collect();
    let point = |r: &mut Sm64| -> Vec<f64> {
        let c = r.pick(&centers).clone();
        let p: Vec<f64> = match kind {
            0 => c.iter().map(|v| v + 0.4 * r.gauss()).collect(),
            1 => (0..d).map(|_| r.range(-2, 2) as f64).collect(),       // lattice: ties between centroids, duplicates
            2 => c.iter().map(|v| 0.2 * v + 2.0 * r.gauss()).collect(),
            _ => c.iter().map(|v| 1e3 * v + 1e-2 * r.gauss()).collect(),
        };
        p.iter().map(|v| rnd::<F>(*v)).collect()
    };
    let random_init = r.chance(0.2);
    let sk: i32 = [0, -40, 0, -20, 20, 0, 40][(id % 7) as usize];
    let sc = 2f64.powi(sk);
    let first_n = if random_init { k + r.below(8) as usize } else { 1 + r.below(10) as usize };
    let batches: Vec<Vec<Vec<f64>>> = (0..nb).map(|b| (0..(if b == 0 { first_n } else { 1 + r.below(12) as usize })).map(|_| point(r).iter().map(|v| v * sc).collect()).collect()).collect();
    let seed = r.below(1000);
    let init: Vec<Vec<f64>> = if random_init {
        // KMeansInit::Random = rand::seq::index::sample on a clone of the parameter RNG (first batch)
        let mut rng = Xoshiro256Plus::seed_from_u64(seed);
        rand::seq::index::sample(&mut rng, batches[0].len(), k).into_vec().iter().map(|&i| batches[0][i].clone()).collect()
    } else {
        (0..k).map(|c| match r.below(4) {
            0 => batches[0][r.below(batches[0].len() as u64) as usize].clone(),
            1 => (0..d).map(|_| (500.0 + c as f64) * sc).collect(),   // far away: never receives a point
            _ => point(r).iter().map(|v| v * sc).collect(),
        }).collect()
    };
    // the tolerance is a distance: it carries the unit of the data and is scaled with them
    let mut tol = rnd::<F>(*r.pick(&[if F::F32 { 1e-30 } else { 1e-300 }, 1e-4, 0.05, 0.5, 2.0, 1e9]) * sc);
    let init_f = !random_init && r.chance(0.35);
    let rot0 = id;
    let mut border = false;
    if r.chance(0.35) {
        // put the tolerance exactly on an observed centroid shift: `dist < tol` must answer "not converged"
        if let Ok(steps) = km_go::<F>(m, k, if random_init { None } else { Some(&init) }, init_f, rot0, seed, tol, d, &batches) {
            let s = r.below(steps.len() as u64) as usize;
            let prev = if s == 0 { init.clone() } else { steps[s - 1].centroids.clone() };
            let t = cdist::<F>(m, &prev, &steps[s].centroids, init_f);
            if t.is_finite() && t > 0.0 { tol = t; border = true; }
        }
    }
    let mname = format!("{:?}", m);
    let tags = vec!["kmeans".to_string(), format!("metric_{}", mname), if F::F32 { "f32".into() } else { "f64".into() },
                    format!("scale_{}", sk), format!("lay_first_{}", Lay::rot(rot0).name()), if init_f { "init_colmajor".into() } else { "init_std".into() }];
    let tagrefs: Vec<&str> = tags.iter().map(|s| s.as_str()).collect();
    let desc = format!(
        "{{\"learner\": \"kmeans_incremental\", \"float\": {}, \"scale_log2\": {}, \"batch_layouts\": {:?}, \"init_colmajor\": {}, \"metric\": {}, \"k\": {}, \"d\": {}, \"tol\": {:e}, \"tol_on_border\": {}, \"batches\": {:?}, \"init\": {}, \"seed\": {}, \"kind\": {}, \"first_row\": {:?}}}",
        jstr(if F::F32 { "f32" } else { "f64" }), sk, (0..nb).map(|b| Lay::rot(rot0 + b as u64).name()).collect::<Vec<_>>(), init_f, jstr(&mname), k, d, tol, border, batches.iter().map(|b| b.len()).collect::<Vec<_>>(), jstr(if random_init { "random" } else { "precomputed" }), seed, kind, batches[0][0]
    );
    out.bump("kmeans_cases");
    out.bump(if F::F32 { "kmeans_f32" } else { "kmeans_f64" });
    out.bump(&format!("kmeans_scale_2^{}", sk));
    for b in 0..nb { out.bump(&format!("kmeans_batch_layout_{}", Lay::rot(rot0 + b as u64).name())); }
    if init_f { out.bump("kmeans_init_colmajor"); }
    out.bump(&format!("kmeans_metric_{}", mname));
    out.bump(if random_init { "kmeans_init_random" } else { "kmeans_init_precomputed" });
    if border { out.bump("kmeans_tol_on_border"); }
    match km_go::<F>(m, k, if random_init { None } else { Some(&init) }, init_f, rot0, seed, tol, d, &batches) {
        Err(e) => { out.rust_fail(id, 1 << 21, &tagrefs, &format!("fit_with failed on valid batches: {}", e), &desc); out.rust_eval(&desc, None); }
        Ok(steps) => {
            out.bump_by("kmeans_steps", steps.len() as u64);
            out.bump_by("kmeans_steps_converged", steps.iter().filter(|s| s.ok).count() as u64);
            // history is a function of the batches alone: a second run reproduces every bit
            if let Ok(again) = km_go::<F>(m, k, if random_init { None } else { Some(&init) }, init_f, rot0, seed, tol, d, &batches) {
                let same = steps.iter().zip(&again).all(|(a, b)| a.ok == b.ok && a.inertia.to_bits() == b.inertia.to_bits()
                    && a.centroids.concat().iter().zip(b.centroids.concat().iter()).all(|(u, v)| u.to_bits() == v.to_bits()));
                if !same { out.rust_fail(id, 1 << 22, &tagrefs, "two runs of the same history differ", &desc); }
            }
            let st: Vec<String> = steps.iter().map(|s| format!(
                "{{| ks_X := {}; ks_centroids := {}; ks_counts := {}; ks_inertia := {}; ks_ok := {} |}}",
                cmat64(&s.x), cmat64(&s.centroids), cvec64(&s.counts), sf64(s.inertia), cbool(s.ok))).collect();
            let coq = format!(
                "{{| c_id := {}; c_body := KM {{| kc_f32 := {}; kc_initF := {}; kc_metric := {}; kc_tol := {}; kc_init := {}; kc_steps := [{}] |}} |}}",
                cn(id), cbool(F::F32), cbool(init_f), mname, sf64(tol), cmat64(&init), st.join("; ")
            );
            let key = if k > 1 && nb > 1 { Some(fnv_f64s(&batches.concat().concat(), id)) } else { None };
            out.case(id, &coq, &tagrefs, &desc, key);
        }
    }
}

// ------------------------------------------------------------------------------------------------
// FTRL
// ------------------------------------------------------------------------------------------------
fn ftrl_from_parts<F: HF>(alpha: f64, beta: f64, l1: f64, l2: f64, z: &[f64], n: &[f64]) -> Ftrl<F> {
    // field order of `Ftrl`: alpha, beta, l1_ratio, l2_ratio, z, n
    let zf: Array1<F> = z.iter().map(|v| F::of64(*v)).collect();
    let nf: Array1<F> = n.iter().map(|v| F::of64(*v)).collect();
    let bytes = bincode::serialize(&(F::of64(alpha), F::of64(beta), F::of64(l1), F::of64(l2), zf, nf)).unwrap();
    bincode::deserialize(&bytes).unwrap()
}

fn ftrl_case<F: HF>(out: &mut Out, id: u64, r: &mut Sm64, thorough: bool) {
    let d = 1 + r.below(5) as usize;
    // units (x -> s x): gradients and z scale by s, n by s^2; the update is covariant when beta and l1 scale by s,
    // l2 by s^2 and alpha by 1/s (the weights then scale by 1/s and every probability is unchanged).  The guard
    // bounds l1_ratio and l2_ratio by the ABSOLUTE interval [0, 1], so for s > 1 they are left unscaled (tag
    // ftrl_l1l2_unscaled: no covariance there, the recurrence oracles still judge the run), and a fresh model draws z
    // from the ABSOLUTE interval U(0,1) whatever the scale of the data.
    let sk: i32 = [0, -40, 0, -20, 20, 0, 40][(id % 7) as usize];
    let sc = 2f64.powi(sk);
    let alpha = rnd::<F>(*r.pick(&[0.005, 0.1, 1.0, 2.5]) / sc);
    let beta = rnd::<F>(*r.pick(&[0.0, 0.5, 1.0, 3.0]) * sc);
    let (sc1, sc2) = if sk > 0 { (1.0, 1.0) } else { (sc, sc * sc) };
    // at f32 an upscaled run with unscaled l1 / l2 (weights 2^80 too large for the units of the data) overflows the
    // element type (sigma * w ~ 1e39): there only l1 = l2 = 0, whose scaled images are inside [0, 1], are generated
    let no_reg = F::F32 && sk > 0;
    let l1 = rnd::<F>(*r.pick(&[0.0, 0.1, 0.5, 0.5, 1.0]) * if no_reg { 0.0 } else { sc1 });
    let mut l2 = rnd::<F>(*r.pick(&[0.0, 0.3, 1.0]) * if no_reg { 0.0 } else { sc2 });
    // beta = 0 and l2 = 0 pass the parameter guard (beta = 0 is the default, l2 = 0 is inside [0, 1]) but make the
    // weight denominator (sqrt n + beta)/alpha + l2 vanish wherever n = 0: a coordinate with |z| > l1 - every fresh
    // model draws z from U(0,1) - gets an infinite weight and the next update makes the state non-finite for ever
    // (finding F-C15-2).  Two thirds of these draws keep the corner (tagged, with the IEEE expectation on the
    // weights); the rest move to l2 = 0.3 as before.
    if beta == 0.0 && l2 == 0.0 && r.chance(0.34) && !no_reg { l2 = rnd::<F>(0.3 * sc2); }
    let corner_params = beta == 0.0 && l2 == 0.0;
    let seed = r.below(1000);
    let crafted = r.chance(0.4);
    let params = match Ftrl::<F>::params_with_rng(Xoshiro256Plus::seed_from_u64(seed)).alpha(F::of64(alpha)).beta(F::of64(beta)).l1_ratio(F::of64(l1)).l2_ratio(F::of64(l2)).check() {
        Ok(p) => p,
        Err(e) => { out.rust_fail(id, 1 << 23, &["ftrl"], &format!("valid FTRL parameters rejected: {}", e), "{}"); return; }
    };
    let mut model = Ftrl::new(params.clone(), d);
    if crafted {
        // a state on and around the l1 border, both signs, signed zeros, some accumulated n
        let ulp = if F::F32 { f32::EPSILON as f64 } else { f64::EPSILON };
        // the smallest excess over l1 (matters when l1 = 0): tiny, but far from the subnormal range at every scale
        let tiny = if F::F32 { 1e-20 } else { 1e-120 } * sc;
        let z: Vec<f64> = (0..d).map(|_| rnd::<F>(match r.below(8) {
            0 => l1, 1 => -l1, 2 => l1 + l1 * ulp + tiny, 3 => -(l1 + l1 * ulp + tiny), 4 => 0.0, 5 => -0.0,
            6 => l1 * 0.999, _ => (r.unit() - 0.5) * 6.0 * sc,
        })).collect();
        let n: Vec<f64> = (0..d).map(|_| rnd::<F>(if r.chance(0.4) { 0.0 } else { (r.unit() * 3.0).powi(2) * sc * sc })).collect();
        model = ftrl_from_parts::<F>(alpha, beta, l1, l2, &z, &n);
    }
    let z0 = vec64(model.z());
    let n0 = vec64(model.n());
    let w0 = vec64(&model.get_weights());
    // decidable from the input: some coordinate of the initial state has a vanishing denominator and |z| > l1
    let zero_den = corner_params && z0.iter().zip(&n0).any(|(z, n)| *n == 0.0 && z.abs() > l1);
    let mut tags = vec!["ftrl".to_string(), if F::F32 { "f32".into() } else { "f64".into() }, format!("scale_{}", sk), format!("lay_first_{}", Lay::rot(id).name())];
    if sk > 0 && (l1 != 0.0 || l2 != 0.0) { tags.push("ftrl_l1l2_unscaled".into()); }
    if zero_den { tags.push("ftrl_zero_denominator".into()); }
    let tagrefs: Vec<&str> = tags.iter().map(|s| s.as_str()).collect();
    let nsteps = 1 + r.below(if thorough { 8 } else { 5 }) as usize;
    let mut steps: Vec<String> = Vec::new();
    let mut nfit = 0;
    let mut zero_w = w0.iter().filter(|w| **w == 0.0).count();
    let mut inf_w = w0.iter().filter(|w| w.is_infinite()).count();
    let mut lays: Vec<&'static str> = Vec::new();
    for si in 0..nsteps {
        // column-major batches have contiguous columns: `diff.dot(x)` then takes the 8-lane kernel, which differs from
        // the sequential one from 8 rows on - a third of the batches are that long whatever d
        let n = if r.chance(if d == 1 { 0.5 } else { 0.33 }) { 8 + r.below(20) as usize } else { 1 + r.below(14) as usize };
        let x: Vec<Vec<f64>> = (0..n).map(|_| (0..d).map(|_| rnd::<F>(match r.below(4) { 0 => 0.0, 1 => r.range(-2, 2) as f64, _ => r.gauss() }) * sc).collect()).collect();
        let y: Vec<bool> = (0..n).map(|_| r.chance(0.5)).collect();
        let laid = Laid::<F>::new(&x, d, Lay::rot(id + si as u64));
        let ty = LaidT::new(&y, id + si as u64, true);
        let contig = laid.cols_contiguous();
        lays.push(laid.lay.name());
        out.bump(&format!("ftrl_batch_layout_{}", laid.lay.name()));
        if contig && n >= 8 { out.bump("ftrl_batches_unrolled_dot_kernel"); }
        with_recs!(laid, recs => {
        let ds = DatasetBase::new(recs, ty.view());
        let use_fit = r.chance(0.5);
        let ps: Vec<f32> = if use_fit {
            // the probabilities fit_with computes itself are observable through predict on the same state
            model.predict(ds.records()).iter().map(|p| **p).collect()
        } else {
            (0..n).map(|_| match r.below(6) { 0 => 0.0f32, 1 => 1.0f32, 2 => 0.5f32, _ => r.unit() as f32 }).collect()
        };
        if use_fit {
            nfit += 1;
            // metamorphic: fit_with(model, ds) == update(ds, predict(ds)) on a copy
            let mut copy = model.clone();
            copy.update(&ds, Array1::from(ps.iter().map(|p| Pr::new(*p)).collect::<Vec<_>>()).view());
            model = match params.fit_with(Some(model), &ds) { Ok(m) => m, Err(e) => { out.rust_fail(id, 1 << 23, &tagrefs, &format!("fit_with failed: {}", e), "{}"); return; } };
            let same = copy.z().iter().zip(model.z().iter()).all(|(a, b)| a.to64().to_bits() == b.to64().to_bits() || (a.is_nan() && b.is_nan()))
                && copy.n().iter().zip(model.n().iter()).all(|(a, b)| a.to64().to_bits() == b.to64().to_bits() || (a.is_nan() && b.is_nan()));
            if !same { out.rust_fail(id, 1 << 18, &tagrefs, "fit_with differs from update with the predicted probabilities", "{}"); }
        } else {
            model.update(&ds, Array1::from(ps.iter().map(|p| Pr::new(*p)).collect::<Vec<_>>()).view());
        }
        let w = vec64(&model.get_weights());
        zero_w += w.iter().filter(|v| **v == 0.0).count();
        inf_w += w.iter().filter(|v| v.is_infinite()).count();
        steps.push(format!(
            "{{| fs_contig := {}; fs_X := {}; fs_y := {}; fs_p := {}; fs_z := {}; fs_n := {}; fs_w := {} |}}",
            cbool(contig), cmat64(&x), clist(&y, |b| cbool(*b).to_string()), cvec64(&ps.iter().map(|p| *p as f64).collect::<Vec<_>>()),
            cvec64(&vec64(model.z())), cvec64(&vec64(model.n())), cvec64(&w)
        ));
        });
    }
    // sigmoid sanity of predict (model-free), wherever the weights are finite
    {
        let x: Vec<Vec<f64>> = (0..4).map(|_| (0..d).map(|_| rnd::<F>(3.0 * r.gauss()) * sc).collect()).collect();
        let xl = Laid::<F>::new(&x, d, Lay::rot(id + 3));
        let xa = xl.view();
        let w = vec64(&model.get_weights());
        if w.iter().all(|v| v.is_finite()) {
            let p = model.predict(&xa);
            for i in 0..4 {
                let s: f64 = x[i].iter().zip(w.iter()).map(|(a, b)| a * b).sum::<f64>().max(-35.0).min(35.0);
                let want = 1.0 / (1.0 + (-s).exp());
                if !((*p[i] as f64 - want).abs() <= if F::F32 { 1e-4 } else { 1e-6 }) {
                    out.rust_fail(id, 1 << 19, &tagrefs, &format!("predict gives {:e}, sigmoid of the linear score is {:e}", *p[i], want), "{}");
                }
            }
        }
    }
    let desc = format!(
        "{{\"learner\": \"ftrl\", \"float\": {}, \"scale_log2\": {}, \"batch_layouts\": {:?}, \"d\": {}, \"alpha\": {}, \"beta\": {}, \"l1\": {}, \"l2\": {}, \"seed\": {}, \"crafted_state\": {}, \"zero_denominator\": {}, \"steps\": {}, \"fit_with_steps\": {}, \"z0\": {:?}}}",
        jstr(if F::F32 { "f32" } else { "f64" }), sk, lays, d, alpha, beta, l1, l2, seed, crafted, zero_den, nsteps, nfit, z0
    );
    out.bump("ftrl_cases");
    out.bump(if F::F32 { "ftrl_f32" } else { "ftrl_f64" });
    out.bump(&format!("ftrl_scale_2^{}", sk));
    out.bump_by("ftrl_steps", nsteps as u64);
    out.bump_by("ftrl_fit_with_steps", nfit as u64);
    out.bump_by("ftrl_zero_weights_seen", zero_w as u64);
    out.bump_by("ftrl_infinite_weights_seen", inf_w as u64);
    if crafted { out.bump("ftrl_crafted_border_state"); }
    if corner_params { out.bump("ftrl_beta0_l2_0"); }
    if zero_den { out.bump("ftrl_zero_denominator"); }
    let coq = format!(
        "{{| c_id := {}; c_body := FT {{| fc_f32 := {}; fc_alpha := {}; fc_beta := {}; fc_l1 := {}; fc_l2 := {}; fc_d := {}; fc_z0 := {}; fc_n0 := {}; fc_w0 := {}; fc_steps := [{}] |}} |}}",
        cn(id), cbool(F::F32), sf64(alpha), sf64(beta), sf64(l1), sf64(l2), cn(d as u64), cvec64(&z0), cvec64(&n0), cvec64(&w0), steps.join("; ")
    );
    out.case(id, &coq, &tagrefs, &desc, Some(fnv_f64s(&z0, id)));
}

fn main() {
    let args = parse_args();
    let mut rng = Sm64::new(args.seed);
    let thorough = args.tier == "thorough";
    let mut out = Out::new(&args.out, args.shards, "C15.Corr", "case", args.only);
    // the presentations are what they claim to be (ndarray's `to_owned` keeps negative strides and F order)
    {
        let rows = vec![vec![1.0, 2.0], vec![3.0, 4.0], vec![5.0, 6.0]];
        for lay in LAYS.iter() {
            let l = Laid::<f64>::new(&rows, 2, *lay);
            assert!(l.view() == arr::<f64>(&rows, 2).view(), "layout {:?} does not present the logical matrix", lay);
            if let Some(o) = l.owned() { assert!(o == arr::<f64>(&rows, 2) && o.strides() == l.view().strides(), "owned layout {:?} lost its strides", lay); }
        }
        assert!(Laid::<f64>::new(&rows, 2, Lay::ColMajor).owned().unwrap().strides() == [1, 3]);
        assert!(Laid::<f64>::new(&rows, 2, Lay::RevRowsOwned).owned().unwrap().strides() == [-2, 1]);
        assert!(Laid::<f64>::new(&rows, 2, Lay::RevColsOwned).owned().unwrap().strides() == [2, -1]);
        assert!(Laid::<f64>::new(&rows, 2, Lay::Strided).view().strides() == [8, 2]);
        assert!(LaidT::new(&[1usize, 2, 3], 1, 0).view().to_vec() == vec![1, 2, 3] && LaidT::new(&[1usize, 2, 3], 2, 0).view().to_vec() == vec![1, 2, 3]);
    }
    let repaired = gnb_repaired();
    if repaired { out.bump("gnb_repaired_source"); }
    let (n_exh, n_rand, n_km, n_ft) = if thorough { (120, 500, 700, 900) } else { (40, 90, 150, 190) };
    // binary32 cases are appended after the binary64 ones of each learner; ids are spread over the shards modulo
    // 16, so the slow ones are too
    let (m_exh, m_rand, m_km, m_ft) = if thorough { (48, 96, 160, 240) } else { (16, 32, 48, 64) };
    let mut id: u64 = 0;
    for _ in 0..n_exh { let mut r = rng.fork(); nb_case::<f64>(&mut out, id, &mut r, true, thorough, repaired); id += 1; }
    for _ in 0..n_rand { let mut r = rng.fork(); nb_case::<f64>(&mut out, id, &mut r, false, thorough, repaired); id += 1; }
    for _ in 0..n_km { let mut r = rng.fork(); km_case::<f64>(&mut out, id, &mut r, thorough); id += 1; }
    for _ in 0..n_ft { let mut r = rng.fork(); ftrl_case::<f64>(&mut out, id, &mut r, thorough); id += 1; }
    for _ in 0..m_exh { let mut r = rng.fork(); nb_case::<f32>(&mut out, id, &mut r, true, thorough, repaired); id += 1; }
    for _ in 0..m_rand { let mut r = rng.fork(); nb_case::<f32>(&mut out, id, &mut r, false, thorough, repaired); id += 1; }
    for _ in 0..m_km { let mut r = rng.fork(); km_case::<f32>(&mut out, id, &mut r, thorough); id += 1; }
    for _ in 0..m_ft { let mut r = rng.fork(); ftrl_case::<f32>(&mut out, id, &mut r, thorough); id += 1; }
    out.finish("each learner at f64 and (about a quarter of the cases) at f32; every batch / query matrix in one of 7 memory layouts of the same logical data (row-major, column-major, reversed rows / columns as views and as owned arrays with negative strides, every second row and column of a larger array; rotating with id + history + batch), targets in 3 presentations, k-means Precomputed centroids column-major in a third of the precomputed cases; data scaled by 2^-40, 2^-20, 1 (3/7), 2^20, 2^40 with the unit-carrying hyper-parameters (multinomial alpha, k-means tolerance, FTRL alpha / beta and, downwards, l1 / l2). naive Bayes: datasets from 5 families x {gaussian, multinomial} x smoothing values, cut into every composition of n<=8 rows (exhaustive stream; n<=5 at f32) or into random unequal cuts, single-row batches, n-1|1 and 1|n-1 (random stream), shuffled or sorted by class (class-incomplete batches), k identical blocks (equal epsilons); k-means: 4 data families x 3 metrics x precomputed/random initial centroids (far-away centroids that never receive a point, tolerance placed exactly on an observed shift); FTRL: hyper-parameter grid (including beta = 0 with l2 = 0: vanishing weight denominator) x seeds x crafted states on the l1 border x update/fit_with steps. non-trivial: naive Bayes with >= 2 classes and a history of >= 2 batches, k-means with k > 1 and >= 2 batches, every FTRL history; distinct = distinct (data, id) hashes");
}
