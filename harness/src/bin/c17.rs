//! C17 harness: count / tf-idf vectorisers on generated corpora; emits Coq cases for C17/Corr.v.
//!
//! mode 0: ASCII documents, default tokeniser - the Coq model tokenises and lower-cases itself.
//! mode 1: function tokenisers, custom regexes, non-ASCII text - the harness tokenises with the same
//!         `regex` / `unicode-normalization` crates and std `to_lowercase`, and ships the token lists.
use linfa_preprocessing::tf_idf_vectorization::{TfIdfMethod, TfIdfVectorizer};
use linfa_preprocessing::{CountVectorizer, Tokenizer};
use ndarray::Array1;
use regex::Regex;
use sprs::CsMat;
use unicode_normalization::UnicodeNormalization;
use vh::*;

#[derive(Clone, Debug, PartialEq)]
enum Tok { Default, Regex(String), FnSpace, FnSemi }

fn tok_space(s: &str) -> Vec<&str> { s.split(' ').collect() }
fn tok_semi(s: &str) -> Vec<&str> { s.split(';').collect() }

#[derive(Clone, Debug)]
struct Settings {
    lower: bool,
    normalize: bool,
    nmin: usize,
    nmax: usize,
    mindf: f32,
    maxdf: f32,
    stop: Option<Vec<String>>,
    cap: Option<usize>,
    fixed: Option<Vec<String>>,
    tok: Tok,
    method: usize,
    via_files: bool,   // use fit_files / transform_files on UTF-8 files holding the documents
}

const METHODS: [&str; 3] = ["Smooth", "NonSmooth", "Textbook"];
fn method_of(i: usize) -> TfIdfMethod {
    match i { 0 => TfIdfMethod::Smooth, 1 => TfIdfMethod::NonSmooth, _ => TfIdfMethod::Textbook }
}

macro_rules! configure {
    ($b:expr, $st:expr) => {{
        let mut b = $b
            .convert_to_lowercase($st.lower)
            .normalize($st.normalize)
            .n_gram_range($st.nmin, $st.nmax)
            .document_frequency($st.mindf, $st.maxdf)
            .max_features($st.cap);
        if let Some(sw) = &$st.stop { b = b.stopwords(sw); }
        match &$st.tok {
            Tok::Default => {}
            Tok::Regex(r) => { b = b.tokenizer(Tokenizer::Regex(r.clone())); }
            Tok::FnSpace => { b = b.tokenizer(Tokenizer::Function(tok_space)); }
            Tok::FnSemi => { b = b.tokenizer(Tokenizer::Function(tok_semi)); }
        }
        b
    }};
}

/// the idf method has no setter in the public API; it is a serialised field
fn tfidf_with_method(m: usize) -> TfIdfVectorizer {
    let mut v = serde_json::to_value(TfIdfVectorizer::default()).unwrap();
    v["method"] = serde_json::Value::String(METHODS[m].to_string());
    serde_json::from_value(v).unwrap()
}

struct Obs1 {
    vocab: Vec<String>, nentries: usize, ctrain: CsMat<usize>, ctest: CsMat<usize>,
    tvocab: Vec<String>, tnentries: usize, ttrain: CsMat<f64>, ttest: CsMat<f64>,
}
/// two independent fits of both vectorisers on the same input: every HashMap::new() draws a fresh
/// RandomState, so the second fit enumerates its vocabulary map in another order
struct Obs { a: Obs1, b: Obs1 }

fn write_docs(dir: &std::path::Path, tag: &str, docs: &[String]) -> Vec<std::path::PathBuf> {
    std::fs::create_dir_all(dir).unwrap();
    docs.iter().enumerate().map(|(i, d)| {
        let p = dir.join(format!("{}_{}.txt", tag, i));
        std::fs::write(&p, d.as_bytes()).unwrap();
        p
    }).collect()
}

/// `with_unseen = false` (the second fit): only the training corpus is transformed; the `ctest` / `ttest` fields then
/// repeat the training matrices and are not used
/// `warm = true` (the second fit): the parameter objects have a HISTORY - they are first configured with another
/// tokenizer regex and fitted once on the training corpus (whatever a fit caches inside the parameter object is now
/// there), and only then re-configured with the case's settings through the documented setters and fitted again.
/// The result must be that of a freshly built parameter object (the first fit), which the model decides.
fn run_once(st: &Settings, train: &[String], test: &[String], scratch: &std::path::Path, with_unseen: bool, warm: bool) -> Result<Obs1, String> {
    let xtr = Array1::from(train.to_vec());
    let xte = Array1::from(test.to_vec());
    let (cv, tv) = if warm {
        const WARM_RE: &str = r"[^ ;]+";
        const DEFAULT_RE: &str = r"\b\w\w+\b";
        // the earlier configuration used a regex for one half of the cases and a tokenizer FUNCTION for the other half
        // (deterministic in the case): the last tokenizer setter must win in both directions
        let warm_tok = || if (train.len() + st.nmax + st.method) % 2 == 0 { Tokenizer::Regex(WARM_RE.to_string()) } else { Tokenizer::Function(tok_semi) };
        let c0 = CountVectorizer::params().tokenizer(warm_tok()).n_gram_range(1, 2);
        c0.fit(&xtr).map_err(|e| format!("warm-up count fit: {}", e))?;
        let t0 = tfidf_with_method(st.method).tokenizer(warm_tok()).n_gram_range(1, 2);
        t0.fit(&xtr).map_err(|e| format!("warm-up tf-idf fit: {}", e))?;
        let (mut c1, mut t1) = (configure!(c0, st), configure!(t0, st));
        if let Tok::Default = &st.tok {
            // the case asks for the default tokenizer: say so explicitly, the object was warmed up with another regex
            c1 = c1.tokenizer(Tokenizer::Regex(DEFAULT_RE.to_string()));
            t1 = t1.tokenizer(Tokenizer::Regex(DEFAULT_RE.to_string()));
        }
        (c1, t1)
    } else {
        (configure!(CountVectorizer::params(), st), configure!(tfidf_with_method(st.method), st))
    };
    if st.via_files {
        let utf8 = encoding::all::UTF_8;
        let strict = encoding::DecoderTrap::Strict;
        let ftr = write_docs(scratch, "train", train);
        let fte = write_docs(scratch, "unseen", test);
        let fitted = match &st.fixed {
            Some(ws) => cv.fit_vocabulary(ws),
            None => cv.fit_files(&ftr, utf8, strict),
        }.map_err(|e| format!("count fit_files: {}", e))?;
        let tfitted = match &st.fixed {
            Some(ws) => tv.fit_vocabulary(ws),
            None => tv.fit_files(&ftr, utf8, strict),
        }.map_err(|e| format!("tf-idf fit_files: {}", e))?;
        if *tfitted.method() != method_of(st.method) { return Err("tf-idf method was not set".into()); }
        let ctrain = fitted.transform_files(&ftr, utf8, strict).map_err(|e| format!("transform_files: {}", e))?;
        let ttrain = tfitted.transform_files(&ftr, utf8, strict).map_err(|e| format!("tf-idf transform_files: {}", e))?;
        let r = Obs1 {
            vocab: fitted.vocabulary().clone(),
            nentries: fitted.nentries(),
            ctest: if with_unseen { fitted.transform_files(&fte, utf8, strict).map_err(|e| format!("transform_files: {}", e))? } else { ctrain.clone() },
            ctrain,
            tvocab: tfitted.vocabulary().clone(),
            tnentries: tfitted.nentries(),
            ttest: if with_unseen { tfitted.transform_files(&fte, utf8, strict).map_err(|e| format!("tf-idf transform_files: {}", e))? } else { ttrain.clone() },
            ttrain,
        };
        let _ = std::fs::remove_dir_all(scratch);
        return Ok(r);
    }
    let fitted = match &st.fixed {
        Some(ws) => cv.fit_vocabulary(ws),
        None => cv.fit(&xtr),
    }.map_err(|e| format!("count fit: {}", e))?;
    let tfitted = match &st.fixed {
        Some(ws) => tv.fit_vocabulary(ws),
        None => tv.fit(&xtr),
    }.map_err(|e| format!("tf-idf fit: {}", e))?;
    if *tfitted.method() != method_of(st.method) { return Err("tf-idf method was not set".into()); }
    let ctrain = fitted.transform(&xtr).map_err(|e| format!("transform: {}", e))?;
    let ttrain = tfitted.transform(&xtr).map_err(|e| format!("tf-idf transform: {}", e))?;
    Ok(Obs1 {
        vocab: fitted.vocabulary().clone(),
        nentries: fitted.nentries(),
        ctest: if with_unseen { fitted.transform(&xte).map_err(|e| format!("transform: {}", e))? } else { ctrain.clone() },
        ctrain,
        tvocab: tfitted.vocabulary().clone(),
        tnentries: tfitted.nentries(),
        ttest: if with_unseen { tfitted.transform(&xte).map_err(|e| format!("tf-idf transform: {}", e))? } else { ttrain.clone() },
        ttrain,
    })
}

fn run_impl(st: &Settings, train: &[String], test: &[String], scratch: &std::path::Path) -> Result<Obs, String> {
    let (st, train, test, scratch) = (st.clone(), train.to_vec(), test.to_vec(), scratch.to_path_buf());
    match guarded(move || -> Result<Obs, String> {
        let a = run_once(&st, &train, &test, &scratch, true, false)?;
        let b = run_once(&st, &train, &test, &scratch, false, true).map_err(|e| format!("second fit (re-configured parameter object): {}", e))?;
        Ok(Obs { a, b })
    }) {
        Ok(r) => r,
        Err(p) => Err(format!("PANIC: {}", p)),
    }
}

// ---- the harness's own tokenisation (mode 1 oracle input; also used to aim stop words and caps) ----
fn transform(s: &str, st: &Settings) -> String {
    let mut t = s.to_string();
    if st.normalize { t = t.nfkd().collect(); }
    if st.lower { t = t.to_lowercase(); }
    t
}
fn tokens(s: &str, st: &Settings, default_re: &Regex) -> Vec<String> {
    let t = transform(s, st);
    match &st.tok {
        Tok::Default => default_re.find_iter(&t).map(|m| m.as_str().to_string()).collect(),
        Tok::Regex(r) => Regex::new(r).unwrap().find_iter(&t).map(|m| m.as_str().to_string()).collect(),
        Tok::FnSpace => tok_space(&t).into_iter().map(|x| x.to_string()).collect(),
        Tok::FnSemi => tok_semi(&t).into_iter().map(|x| x.to_string()).collect(),
    }
}
fn naive_ngrams(toks: &[String], nmin: usize, nmax: usize) -> Vec<String> {
    let mut r = vec![];
    for i in 0..toks.len() {
        for n in nmin..=nmax {
            if i + n <= toks.len() { r.push(toks[i..i + n].join(" ")); }
        }
    }
    r
}

// ---- Coq printing ----
fn cstrs(xs: &[String]) -> String { clist(xs, |s| cstr(s)) }
fn copt_strs(x: &Option<Vec<String>>) -> String {
    match x { None => "None".into(), Some(v) => format!("(Some {})", cstrs(v)) }
}
fn ccmat(m: &CsMat<usize>) -> String {
    let rows: Vec<String> = m.outer_iterator()
        .map(|r| clist(&r.iter().collect::<Vec<_>>(), |(i, v)| format!("({}, {})", i, v)))
        .collect();
    format!("{{| cm_rows := {}; cm_cols := {}; cm_data := ([{}])%N |}}", cn(m.rows() as u64), cn(m.cols() as u64), rows.join("; "))
}
fn cfmat(m: &CsMat<f64>) -> String {
    let rows: Vec<String> = m.outer_iterator()
        .map(|r| clist(&r.iter().collect::<Vec<_>>(), |(i, v)| format!("({}%N, {})", i, sf64(**v))))
        .collect();
    format!("{{| fm_rows := {}; fm_cols := {}; fm_data := [{}] |}}", cn(m.rows() as u64), cn(m.cols() as u64), rows.join("; "))
}
fn jstrs(xs: &[String]) -> String { format!("[{}]", xs.iter().map(|s| jstr(s)).collect::<Vec<_>>().join(", ")) }

fn ln_args(method: usize, n: usize, df: usize) -> f64 {
    match method {
        0 => (1. + n as f64) / (1. + df as f64),
        1 => n as f64 / df as f64,
        _ => n as f64 / (1. + df as f64),
    }
}

struct Gen<'a> { out: &'a mut Out, id: u64, default_re: Regex, scratch: std::path::PathBuf }

impl<'a> Gen<'a> {
    fn emit(&mut self, stream: &str, st: &Settings, train: &[String], test: &[String]) {
        let id = self.id;
        self.id += 1;
        if !self.out.wanted(id) { return; }
        let ascii = train.iter().chain(test.iter()).all(|d| d.is_ascii());
        let mode = if st.tok == Tok::Default && ascii { 0 } else { 1 };
        let toks_tr: Vec<Vec<String>> = train.iter().map(|d| tokens(d, st, &self.default_re)).collect();
        let toks_te: Vec<Vec<String>> = test.iter().map(|d| tokens(d, st, &self.default_re)).collect();
        let mut tags: Vec<String> = vec![format!("stream_{}", stream), format!("mode{}", mode), format!("ngram_{}_{}", st.nmin, st.nmax),
                                         format!("method_{}", METHODS[st.method])];
        let windowed = !(st.mindf == 0.0 && st.maxdf == 1.0);
        if windowed { tags.push("df_window".into()); }
        if st.stop.is_some() { tags.push("stop_words".into()); }
        if st.cap.is_some() { tags.push("cap".into()); }
        if st.fixed.is_some() { tags.push("fixed_vocabulary".into()); }
        if !st.lower { tags.push("case_sensitive".into()); }
        match &st.tok { Tok::Default => {}, Tok::Regex(_) => tags.push("tok_regex".into()), _ => tags.push("tok_function".into()) }
        if !ascii { tags.push("non_ascii".into()); }
        if st.via_files { tags.push("via_files".into()); }
        let desc = format!(
            "{{\"stream\": {}, \"train\": {}, \"unseen\": {}, \"lowercase\": {}, \"normalize\": {}, \"n_gram_range\": [{}, {}], \"document_frequency_f32_bits\": [{}, {}], \"document_frequency\": [{}, {}], \"stopwords\": {}, \"max_features\": {}, \"fixed_vocabulary\": {}, \"tokenizer\": {}, \"idf_method\": {}, \"via_files\": {}}}",
            jstr(stream), jstrs(train), jstrs(test), st.lower, st.normalize, st.nmin, st.nmax, st.mindf.to_bits(), st.maxdf.to_bits(),
            jstr(&format!("{:?}", st.mindf)), jstr(&format!("{:?}", st.maxdf)),
            st.stop.as_ref().map_or("null".into(), |v| jstrs(v)), st.cap.map_or("null".into(), |k| k.to_string()),
            st.fixed.as_ref().map_or("null".into(), |v| jstrs(v)), jstr(&format!("{:?}", st.tok)), jstr(METHODS[st.method]), st.via_files);
        if st.fixed.is_none() {
            // where does this case sit relative to the conditions under which a wrong implementation would differ?
            let mut df: std::collections::BTreeMap<String, usize> = Default::default();
            for t in &toks_tr {
                let set: std::collections::BTreeSet<String> = naive_ngrams(t, st.nmin, st.nmax).into_iter().collect();
                for w in set { *df.entry(w).or_insert(0) += 1; }
            }
            let n = train.len();
            let (plo, phi) = (st.mindf * n as f32, st.maxdf * n as f32);
            let (lo, hi) = (plo as usize, phi as usize);
            if windowed {
                if plo.fract() != 0.0 || phi.fract() != 0.0 { self.out.bump("edge_bound_product_not_integral"); }
                if lo > 0 && df.values().any(|&d| d == lo) { self.out.bump("edge_df_equals_lower_bound"); }
                if lo > 0 && df.values().any(|&d| d + 1 == lo) { self.out.bump("edge_df_just_below_lower_bound"); }
                if df.values().any(|&d| d == hi) { self.out.bump("edge_df_equals_upper_bound"); }
                if df.values().any(|&d| Some(d) == hi.checked_add(1)) { self.out.bump("edge_df_just_above_upper_bound"); }
                if (lo == 0) != (hi == n) { self.out.bump("edge_one_sided_window"); }
            }
            let stopped = |w: &String| st.stop.as_ref().map_or(false, |sw| sw.contains(w));
            let mut adm: Vec<(usize, String)> = df.iter().filter(|(w, &d)| lo <= d && d <= hi && !stopped(w)).map(|(w, &d)| (d, w.clone())).collect();
            if st.stop.is_some() && df.keys().any(|w| stopped(w)) {
                self.out.bump(if lo == 0 && hi == n { "edge_stop_word_hits_in_shortcut_branch" } else { "edge_stop_word_hits_in_window_branch" });
            }
            if let Some(k) = st.cap {
                adm.sort_by(|a, b| b.cmp(a));
                if k < adm.len() { self.out.bump("edge_cap_below_admitted"); }
                if k > 0 && k < adm.len() && adm[k - 1].0 == adm[k].0 { self.out.bump("edge_cap_cuts_frequency_tie"); }
                if k == adm.len() { self.out.bump("edge_cap_equals_admitted"); }
            }
            if toks_tr.iter().any(|t| { let g = naive_ngrams(t, st.nmin, st.nmax); let mut u = g.clone(); u.sort(); u.dedup(); u.len() < g.len() }) {
                self.out.bump("edge_repeated_ngram_in_document");
            }
        }
        for t in &tags { self.out.bump(t); }
        self.out.bump(&format!("docs_{}", match train.len() { 0 => "0", 1 => "1", 2..=4 => "2to4", _ => "ge5" }));
        let tagrefs: Vec<&str> = tags.iter().map(|s| s.as_str()).collect();
        let obs = match run_impl(st, train, test, &self.scratch) {
            Ok(o) => o,
            Err(e) => {
                self.out.rust_fail(id, 1024, &tagrefs, &format!("fit/transform failed on valid input: {}", e), &desc);
                self.out.rust_eval(&desc, None);
                return;
            }
        };
        // ln table and direct compute_idf probes for the two corpus sizes
        let mut lns: Vec<String> = vec![];
        let mut idfs: Vec<String> = vec![];
        let mut sizes = vec![train.len(), test.len()];
        sizes.dedup();
        for &n in &sizes {
            for df in 0..=n {
                let x = ln_args(st.method, n, df);
                lns.push(format!("({}, {})", sf64(x), sf64(x.ln())));
                idfs.push(format!("(({}, {}), {})", cn(n as u64), cn(df as u64), sf64(method_of(st.method).compute_idf(n, df))));
            }
        }
        let docs_term = |docs: &[String], toks: &[Vec<String>]| -> String {
            let items: Vec<String> = docs.iter().zip(toks).map(|(d, t)| {
                if mode == 0 { format!("({}, [])", cstr(d)) } else { format!("({}, {})", cstr(d), cstrs(t)) }
            }).collect();
            format!("[{}]", items.join("; "))
        };
        // expression-level probes of the bound computation (same Rust expression as filter_vocabulary), also for
        // document counts no corpus can reach: around 2^24 (where `n as f32` starts to round) and far beyond
        let mut probes: Vec<String> = vec![];
        {
            let mut pr = Sm64::new(fnv(desc.as_bytes()) ^ 0x5eed_c17);
            let big: [u64; 12] = [16777215, 16777216, 16777217, 16777218, 16777219, 12582914, 12582911, 33554433, 25165825,
                                  1 << 31, (1 << 40) + 1, u64::MAX >> 1];
            let fs: [f32; 10] = [st.mindf, st.maxdf, 1.0 / 3.0, 2.0 / 3.0, 0.7, 0.99999994, 1.0000001, 1.0e-40, 3.0e38, f32::INFINITY];
            for i in 0..6 {
                let f = if i < 2 { fs[i] } else { *pr.pick(&fs) };
                let n: u64 = match pr.below(4) { 0 => train.len() as u64, 1 => pr.below(4096), 2 => 16777216 - 8 + pr.below(17), _ => *pr.pick(&big) };
                let b = (f * (n as usize) as f32) as usize;
                probes.push(format!("(({}, {}), {})", cz(f.to_bits() as i64), cn(n), cn(b as u64)));
            }
        }
        // ... and of the f32 division by which bounds "k of n documents" are written
        let mut ratios: Vec<String> = vec![];
        {
            let mut pr = Sm64::new(fnv(desc.as_bytes()) ^ 0x7a71_0c17);
            for i in 0..4 {
                let n = if i == 0 { train.len().max(1) as u64 } else { 1 + pr.below(if i == 1 { 24 } else { 4096 }) };
                let k = pr.below(n + 1);
                let q = k as f32 / n as f32;
                ratios.push(format!("(({}, {}), {})", cn(k), cn(n), cz(q.to_bits() as i64)));
            }
        }
        let obs2 = &obs.b;
        let obs = &obs.a;
        if obs.vocab != obs2.vocab || obs.tvocab != obs2.tvocab { self.out.bump("edge_second_fit_enumerates_in_another_order"); }
        if obs.vocab != obs.tvocab { self.out.bump("edge_count_and_tfidf_vectoriser_orders_differ"); }
        let coq = format!(
            "{{| c_id := {}; c_mode := {}; c_lower := {}; c_nmin := {}; c_nmax := {}; c_mindf := {}; c_maxdf := {}; c_stop := {}; c_cap := {}; c_fixed := {}; c_train := {}; c_test := {}; c_method := {}; c_ln := [{}]; c_vocab := {}; c_nentries := {}; c_ctrain := {}; c_ctest := {}; c_tvocab := {}; c_tnentries := {}; c_ttrain := {}; c_ttest := {}; c_idfs := [{}]; c_vocab2 := {}; c_ctrain2 := {}; c_tvocab2 := {}; c_ttrain2 := {}; c_bounds := [{}]; c_ratios := [{}] |}}",
            cn(id), cn(mode), cbool(st.lower), cn(st.nmin as u64), cn(st.nmax as u64),
            cz(st.mindf.to_bits() as i64), cz(st.maxdf.to_bits() as i64),
            copt_strs(&st.stop), st.cap.map_or("None".into(), |k| format!("(Some {})", cn(k as u64))), copt_strs(&st.fixed),
            docs_term(train, &toks_tr), docs_term(test, &toks_te), cn(st.method as u64), lns.join("; "),
            cstrs(&obs.vocab), cn(obs.nentries as u64), ccmat(&obs.ctrain), ccmat(&obs.ctest),
            cstrs(&obs.tvocab), cn(obs.tnentries as u64), cfmat(&obs.ttrain), cfmat(&obs.ttest), idfs.join("; "),
            cstrs(&obs2.vocab), ccmat(&obs2.ctrain), cstrs(&obs2.tvocab), cfmat(&obs2.ttrain),
            probes.join("; "), ratios.join("; "));
        // non-trivial: at least two distinct vocabulary entries and at least one stored count
        let nontrivial = obs.vocab.len() >= 2 && obs.ctrain.nnz() + obs.ctest.nnz() > 0;
        let key = if nontrivial { Some(fnv(desc.as_bytes())) } else { None };
        self.out.bump(&format!("vocab_{}", match obs.vocab.len() { 0 => "0", 1 => "1", 2..=5 => "2to5", 6..=20 => "6to20", _ => "gt20" }));
        self.out.case(id, &coq, &tagrefs, &desc, key);
    }

    /// settings that must be rejected (or, for NaN frequencies, accepted without a panic)
    fn malformed(&mut self, st: &Settings, what: &str) {
        let id = self.id;
        self.id += 1;
        if !self.out.wanted(id) { return; }
        let docs = vec!["aa bb".to_string(), "bb cc".to_string()];
        let desc = format!("{{\"stream\": \"malformed\", \"what\": {}, \"n_gram_range\": [{}, {}], \"document_frequency\": [{}, {}], \"tokenizer\": {}}}",
                           jstr(what), st.nmin, st.nmax, jstr(&format!("{:?}", st.mindf)), jstr(&format!("{:?}", st.maxdf)), jstr(&format!("{:?}", st.tok)));
        self.out.bump("stream_malformed");
        match run_impl(st, &docs, &docs, &self.scratch) {
            Err(e) if !e.starts_with("PANIC") => {}
            Err(e) => self.out.rust_fail(id, 2048, &["stream_malformed"], &format!("invalid settings ({}) made the vectoriser panic: {}", what, e), &desc),
            Ok(_) => self.out.rust_fail(id, 2048, &["stream_malformed"], &format!("invalid settings ({}) were accepted", what), &desc),
        }
        self.out.rust_eval(&desc, None);
    }
}

const SEPS: [&str; 10] = [" ", " ", "  ", ", ", ";", ".", "-", "\n", "!? ", "\t"];
const WORDS: [&str; 10] = ["aa", "bb", "ab", "Aa", "x", "c_1", "BB", "zz9", "aA", "b"];
const OOV: [&str; 4] = ["qq", "new", "Zz", "y"];
// the last eight: characters WITHOUT a lower-case mapping whose compatibility decomposition contains upper-case
// letters (TELEPHONE SIGN -> "TEL", NUMERO SIGN -> "No", TRADE MARK -> "TM", double-struck R N, SQUARE MHZ -> "MHz")
// next to their plain lower-case spellings: normalise-then-lower-case and lower-case-then-normalise differ on them
const UWORDS: [&str; 20] = ["\u{c9}cole", "e\u{301}cole", "\u{e9}cole", "\u{ff46}\u{ff55}\u{ff4c}\u{ff4c}", "full", "\u{fb01}ne", "fine",
                            "x\u{b2}", "\u{1c5}a", "stra\u{df}e", "\u{130}stanbul", "\u{3a3}\u{3a3}",
                            "\u{2121}", "tel", "\u{2116}", "no", "\u{2122}", "tm", "\u{211d}\u{2115}", "\u{3392}"];

fn doc_from(r: &mut Sm64, words: &[&str], len: usize, seps: &[&str]) -> String {
    let mut s = String::new();
    if r.chance(0.15) { s.push_str(*r.pick(seps)); }
    for i in 0..len {
        if i > 0 { s.push_str(*r.pick(seps)); }
        s.push_str(*r.pick(words));
    }
    if r.chance(0.15) { s.push_str(*r.pick(seps)); }
    s
}

fn df_grid(r: &mut Sm64, n: usize) -> f32 {
    match r.below(12) {
        0 => 0.0, 1 => 0.25, 2 => 1.0 / 3.0, 3 => 0.5, 4 => 2.0 / 3.0, 5 => 0.75, 6 => 1.0,
        7 => *r.pick(&[0.2f32, 0.4, 0.6, 0.8, 0.1, 0.9]),
        8 => *r.pick(&[1.5f32, 2.0, 1.0000001, 0.99999994, 1.0000001, 0.99999994, f32::INFINITY, 1.0e-40, 3.0e38, -0.0]),
        _ => r.below(n as u64 + 1) as f32 / (n.max(1) as f32),   // k/n: the product lands on (or just beside) the integer k
    }
}

/// random settings aimed at the corpus: stop words and caps are drawn from the n-grams that really occur
fn settings_for(r: &mut Sm64, train: &[String], tok: Tok, default_re: &Regex, allow_fixed: bool) -> Settings {
    let ranges = [(1, 1), (1, 2), (1, 3), (2, 2), (2, 3), (3, 3)];
    let (nmin, nmax) = *r.pick(&ranges);
    let mut st = Settings { lower: r.chance(0.7), normalize: r.chance(0.8), nmin, nmax, mindf: 0.0, maxdf: 1.0, stop: None, cap: None,
                            fixed: None, tok, method: r.below(3) as usize, via_files: r.chance(0.12) };
    let n = train.len();
    if r.chance(0.6) {
        let (a, b) = if r.chance(0.6) {
            (*r.pick(&[0.0f32, 0.0, 0.25, 1.0 / 3.0, 0.5, 0.2]), *r.pick(&[0.5f32, 2.0 / 3.0, 0.75, 1.0, 1.0, 0.8, 1.5]))
        } else {
            (df_grid(r, n), df_grid(r, n))
        };
        let (lo, hi) = if a <= b { (a, b) } else { (b, a) };
        st.mindf = lo;
        st.maxdf = hi;
        if r.chance(0.02) { st.mindf = f32::NAN; }
        if r.chance(0.02) { st.maxdf = f32::NAN; }
    }
    let mut cands: Vec<String> = train.iter().flat_map(|d| naive_ngrams(&tokens(d, &st, default_re), nmin, nmax)).collect();
    cands.sort();
    cands.dedup();
    if r.chance(0.4) {
        let mut sw: Vec<String> = vec![];
        let k = r.below(4) as usize;
        for _ in 0..k {
            if !cands.is_empty() { sw.push(r.pick(&cands).clone()); }
        }
        if r.chance(0.5) { sw.push(r.pick(&["Aa", "qq", "aa", "bb", "aa bb", "bb aa", "ab"]).to_string()); }
        st.stop = Some(sw);
    }
    if r.chance(0.45) {
        st.cap = Some(if r.chance(0.06) { 0 } else { 1 + r.below(cands.len() as u64 + 1) as usize });
    }
    if allow_fixed && r.chance(0.1) {
        let mut ws: Vec<String> = vec![];
        for _ in 0..r.below(6) {
            match r.below(4) {
                0 => ws.push(r.pick(&["qq", "Aa", "aa bb", "nothing here"]).to_string()),
                1 if !ws.is_empty() => { let w = r.pick(&ws).clone(); ws.push(w); }   // duplicate
                _ => if !cands.is_empty() { ws.push(r.pick(&cands).clone()); },
            }
        }
        st.fixed = Some(ws);
    }
    st
}

fn unseen(r: &mut Sm64, train: &[String], words: &[&str], seps: &[&str], maxlen: usize) -> Vec<String> {
    let mut test: Vec<String> = vec![];
    for _ in 0..r.below(4) {
        match r.below(4) {
            0 if !train.is_empty() => test.push(r.pick(train).clone()),
            1 => test.push(String::new()),
            _ => {
                let mut w: Vec<&str> = words.to_vec();
                w.push(*r.pick(&OOV[..]));
                let l = r.below(maxlen as u64 + 1) as usize;
                test.push(doc_from(r, &w, l, seps));
            }
        }
    }
    test
}

fn main() {
    let args = parse_args();
    let mut rng = Sm64::new(args.seed);
    let thorough = args.tier == "thorough";
    let mut out = Out::new(&args.out, args.shards, "C17.Corr", "case", args.only);
    let default_re = Regex::new(r"\b\w\w+\b").unwrap();
    let scratch = std::env::temp_dir().join(format!("verif_c17_{}_{}", std::process::id(), args.seed));
    let mut g = Gen { out: &mut out, id: 0, default_re: default_re.clone(), scratch: scratch.clone() };

    // ---- (a) exhaustive small: every corpus of <= 2 documents of <= 3 tokens over {aa, bb}; settings cycle with the corpus index
    {
        let mut docs: Vec<String> = vec![String::new()];
        for len in 1..=3usize {
            for code in 0..(1u32 << len) {
                let ws: Vec<&str> = (0..len).map(|i| if code >> i & 1 == 0 { "aa" } else { "bb" }).collect();
                docs.push(ws.join(" "));
            }
        }
        let mut corpora: Vec<Vec<String>> = vec![vec![]];
        for a in &docs { corpora.push(vec![a.clone()]); }
        for a in &docs { for b in &docs { corpora.push(vec![a.clone(), b.clone()]); } }
        let ranges = [(1, 1), (1, 2), (1, 3), (2, 2), (2, 3), (3, 3)];
        let grid = [0.0f32, 0.25, 1.0 / 3.0, 0.5, 2.0 / 3.0, 0.75, 1.0];
        let test = vec!["bb aa bb aa qq aa".to_string(), String::new()];
        let reps = if thorough { 4 } else { 2 };
        for (ci, c) in corpora.iter().enumerate() {
            for rep in 0..reps {
                let k = ci * reps + rep;
                let (nmin, nmax) = ranges[k % 6];
                let (a, b) = (grid[(k / 6) % 7], grid[(k / 42 + k) % 7]);
                let (lo, hi) = if rep % 2 == 0 { (0.0, 1.0) } else if a <= b { (a, b) } else { (b, a) };
                let st = Settings { lower: true, normalize: true, nmin, nmax, mindf: lo, maxdf: hi,
                                    stop: if k % 5 == 3 { Some(vec!["aa".to_string(), "bb aa".to_string()]) } else { None },
                                    cap: if k % 4 == 1 { Some((k / 4) % 5) } else { None }, fixed: None, tok: Tok::Default, method: k % 3, via_files: k % 11 == 7 };
                g.emit("exhaustive_small", &st, c, &test);
            }
        }
    }

    // ---- (b) structured random, ASCII, default tokeniser (mode 0)
    let nrandom = if thorough { 6000 } else { 2400 };
    let (maxdocs, maxlen) = if thorough { (12, 15) } else { (8, 10) };
    for _ in 0..nrandom {
        let mut r = rng.fork();
        let nw = 2 + r.below(5) as usize;
        let mut pool: Vec<&str> = WORDS.to_vec();
        r.shuffle(&mut pool);
        let words: Vec<&str> = pool[..nw].to_vec();
        let nd = match r.below(30) { 0 => 0, 1..=3 => 1, _ => 1 + r.below(maxdocs as u64) as usize };
        let train: Vec<String> = (0..nd).map(|_| { let l = r.below(maxlen as u64 + 1) as usize; doc_from(&mut r, &words, l, &SEPS) }).collect();
        let st = settings_for(&mut r, &train, Tok::Default, &default_re, true);
        let test = unseen(&mut r, &train, &words, &SEPS, maxlen);
        g.emit("random_ascii", &st, &train, &test);
    }

    // ---- (c) function tokenisers and custom regexes (mode 1): empty tokens, one-letter tokens, tokens containing spaces
    let nfn = if thorough { 1500 } else { 500 };
    for _ in 0..nfn {
        let mut r = rng.fork();
        let tok = match r.below(4) { 0 => Tok::FnSpace, 1 => Tok::FnSemi, 2 => Tok::Regex(r"\w+".into()), _ => Tok::Regex(r"[^ ]+".into()) };
        let seps: &[&str] = match tok { Tok::FnSemi => &[";", ";", " ", ";;", "; "], _ => &[" ", " ", "  ", ";", ","] };
        let nw = 2 + r.below(4) as usize;
        let mut pool: Vec<&str> = WORDS.to_vec();
        r.shuffle(&mut pool);
        let words: Vec<&str> = pool[..nw].to_vec();
        let nd = 1 + r.below(6) as usize;
        let train: Vec<String> = (0..nd).map(|_| { let l = r.below(8) as usize; doc_from(&mut r, &words, l, seps) }).collect();
        let st = settings_for(&mut r, &train, tok, &default_re, true);
        let test = unseen(&mut r, &train, &words, seps, 8);
        g.emit("tokenizer", &st, &train, &test);
    }

    // ---- (d) non-ASCII text (mode 1): combining characters, full-width forms, ligatures, non-ASCII case
    let nuni = if thorough { 1200 } else { 400 };
    for _ in 0..nuni {
        let mut r = rng.fork();
        let nw = 2 + r.below(5) as usize;
        let mut pool: Vec<&str> = UWORDS.to_vec();
        pool.extend_from_slice(&["aa", "Aa"]);
        r.shuffle(&mut pool);
        let words: Vec<&str> = pool[..nw].to_vec();
        let nd = 1 + r.below(5) as usize;
        let train: Vec<String> = (0..nd).map(|_| { let l = r.below(7) as usize; doc_from(&mut r, &words, l, &SEPS) }).collect();
        let st = settings_for(&mut r, &train, Tok::Default, &default_re, false);
        let test = unseen(&mut r, &train, &words, &SEPS, 7);
        g.emit("unicode", &st, &train, &test);
    }

    // ---- (f) document-frequency borders: 5..12 documents, words planted in exactly k-1, k, k+1 documents, bounds k/n
    //          (computed in f32 as a user would) and decimal literals - the products are not exact and land on, just
    //          below or just above an integer; this is where another rounding or another width of the product differs
    let nborder = if thorough { 900 } else { 360 };
    for _ in 0..nborder {
        let mut r = rng.fork();
        let n = 5 + r.below(8) as usize;
        let k = 1 + r.below(n as u64) as usize;
        let bw = ["aa", "bb", "ab", "zz9", "c_1", "qq"];
        let dfs = [k.saturating_sub(1), k, (k + 1).min(n), r.below(n as u64 + 1) as usize, r.below(n as u64 + 1) as usize, n];
        let mut docs: Vec<Vec<&str>> = vec![vec![]; n];
        for (w, &d) in bw.iter().zip(dfs.iter()) {
            let mut idx: Vec<usize> = (0..n).collect();
            r.shuffle(&mut idx);
            for &j in &idx[..d] {
                docs[j].push(*w);
                if r.chance(0.2) { docs[j].push(*w); }
            }
        }
        let train: Vec<String> = docs.iter_mut().map(|d| { r.shuffle(d); d.join(*r.pick(&[" ", ", ", "; "])) }).collect();
        let lit = [0.1f32, 0.2, 0.3, 0.4, 0.6, 0.7, 0.8, 0.9, 1.0 / 3.0, 2.0 / 3.0, 0.25, 0.75, 0.5];
        let kn = k as f32 / n as f32;
        let j = r.below(k as u64 + 1) as usize;
        let (lo, hi) = match r.below(6) {
            0 => (kn, 1.0),
            1 => (0.0, kn),
            2 => (kn, kn),
            3 => (j as f32 / n as f32, kn),
            4 => { let a = *r.pick(&lit); let b = *r.pick(&lit); if a <= b { (a, b) } else { (b, a) } },
            _ => { let a = *r.pick(&lit); if a <= kn { (a, kn) } else { (kn, a) } },
        };
        let (nmin, nmax) = *r.pick(&[(1usize, 1usize), (1, 1), (1, 2)]);
        let st = Settings { lower: true, normalize: r.chance(0.5), nmin, nmax, mindf: lo, maxdf: hi,
                            stop: if r.chance(0.15) { Some(vec!["bb".to_string()]) } else { None },
                            cap: if r.chance(0.15) { Some(1 + r.below(6) as usize) } else { None },
                            fixed: None, tok: Tok::Default, method: r.below(3) as usize, via_files: r.chance(0.05) };
        let test = unseen(&mut r, &train, &bw[..4], &SEPS, 5);
        g.emit("df_border", &st, &train, &test);
    }

    // ---- (g) the whole ASCII range (mode 0): printable characters, tab / newline / carriage return and a few control
    //          characters, biased to word characters and to the characters next to the \w ranges ( / : @ [ ` { ^ )
    let nascii = if thorough { 900 } else { 360 };
    for _ in 0..nascii {
        let mut r = rng.fork();
        let border: Vec<char> = "/:@[`{^_09AZaz".chars().collect();
        let ctrl: Vec<char> = vec!['\t', '\n', '\r', '\u{1}', '\u{b}', '\u{c}', '\u{1f}', '\u{7f}'];
        let mk = |r: &mut Sm64| -> String {
            let len = r.below(25) as usize;
            (0..len).map(|_| match r.below(10) {
                0..=3 => *r.pick(&['a', 'b', 'A', 'B', 'z', 'Z', '0', '9', '_', 'k', 'K']),
                4 | 5 => *r.pick(&border),
                6 => ' ',
                7 => *r.pick(&ctrl),
                _ => (32 + r.below(95)) as u8 as char,
            }).collect()
        };
        let nd = 1 + r.below(4) as usize;
        let train: Vec<String> = (0..nd).map(|_| mk(&mut r)).collect();
        let mut st = settings_for(&mut r, &train, Tok::Default, &default_re, false);
        if r.chance(0.6) { st.cap = None; st.stop = None; }
        let mut test: Vec<String> = (0..r.below(3)).map(|_| mk(&mut r)).collect();
        if !train.is_empty() && r.chance(0.5) { test.push(train[0].to_uppercase()); }
        g.emit("ascii_full", &st, &train, &test);
    }

    // ---- (e) malformed settings: must be refused with an error
    {
        let base = Settings { lower: true, normalize: true, nmin: 1, nmax: 1, mindf: 0.0, maxdf: 1.0, stop: None, cap: None, fixed: None,
                              tok: Tok::Default, method: 0, via_files: false };
        for (nmin, nmax) in [(0usize, 1usize), (1, 0), (0, 0), (2, 1), (3, 2)] {
            let mut s = base.clone(); s.nmin = nmin; s.nmax = nmax;
            g.malformed(&s, "n-gram range");
        }
        for (lo, hi) in [(-0.1f32, 1.0f32), (0.5, 0.2), (0.0, -1.0), (1.1, 1.0)] {
            let mut s = base.clone(); s.mindf = lo; s.maxdf = hi;
            g.malformed(&s, "document frequency");
        }
        let mut s = base.clone(); s.tok = Tok::Regex("(".into());
        g.malformed(&s, "regex");
    }

    let _ = std::fs::remove_dir_all(&scratch);
    out.finish("corpora over small word alphabets (repeats, empty documents, one-letter words, mixed case, punctuation, OOV words in unseen documents): exhaustive for <= 2 documents of <= 3 tokens over 2 words, random ASCII (model tokenises), function tokenisers / custom regexes and non-ASCII text (harness tokenises); settings: all n-gram ranges 1<=min<=max<=3, document-frequency windows on the grid {0,1/4,1/3,1/2,2/3,3/4,1} + decimal literals + k/n (computed in f32) + >1 + NaN / inf / subnormal / huge / -0.0, a border stream (5..12 documents, words planted in exactly k-1, k, k+1 documents, bounds k/n), a stream over the whole ASCII range, stop words drawn from the occurring n-grams, caps 0..|candidates|+1, fixed vocabularies, three idf methods; every case fits both vectorisers twice (two hash enumeration orders each; the second fit transforms the training corpus) and carries 6 expression-level probes of the bound computation (document counts up to 2^63) and 4 of the f32 division k/n; a case is non-trivial when the fitted vocabulary has >= 2 entries and some count is stored; distinct = distinct (corpus, settings) hashes");
}
