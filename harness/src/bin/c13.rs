//! C13 harness: SVM fits (C-/nu-classification, one-class, epsilon-/nu-regression) on generated data;
//! emits Coq cases for C13/Corr.v (bit-exact replay of the SMO solver + exact KKT oracle) and runs the
//! Rust-side oracles (transcendental kernel application, Platt prediction, panics / non-termination).
use linfa::composing::platt_scaling::{platt_newton_method, platt_predict};
use linfa::composing::PlattParams;
use linfa::ParamGuard;
use linfa::dataset::Pr;
use linfa::prelude::*;
use linfa_kernel::{Kernel, KernelInner, KernelMethod};
use linfa_svm::Svm;
use ndarray::{s, Array1, Array2, ArrayView1, ArrayView2, Axis, ShapeBuilder};
use serde::Deserialize;
use std::sync::mpsc;
use std::time::Duration;
use vh::*;

// ---- mirror of linfa_svm::Svm for reading the private fields through bincode ----
#[allow(dead_code)]
#[derive(Deserialize, Debug, Clone, PartialEq)]
enum ExitReason { ReachedThreshold, ReachedIterations }
#[allow(dead_code)]
#[derive(Deserialize, Debug, Clone)]
enum KM { Gaussian(f64), Linear, Polynomial(f64, f64) }
#[derive(Deserialize, Debug, Clone)]
enum Hyper { Linear(Array1<f64>), WeightedCombination(Array2<f64>) }
#[allow(dead_code)]
#[derive(Deserialize, Debug, Clone)]
struct SvmMirror {
    alpha: Vec<f64>,
    rho: f64,
    r: Option<f64>,
    exit_reason: ExitReason,
    iterations: usize,
    obj: f64,
    kernel_method: KM,
    sep_hyperplane: Hyper,
    probability_coeffs: Option<(f64, f64)>,
    phantom: (),
}

#[derive(Clone, Copy, PartialEq, Debug)]
enum Kind { CSvc, NuSvc, OneClass, EpsSvr, NuSvr }
#[derive(Clone, Copy, PartialEq, Debug)]
enum Ker { Linear, Gauss(f64), Poly(f64, f64) }

#[derive(Clone, Debug)]
struct Cfg {
    kind: Kind,
    ker: Ker,
    x: Vec<Vec<f64>>,
    yb: Vec<bool>,
    yr: Vec<f64>,
    par1: f64,
    par2: f64,
    eps: f64,
    shrink: bool,
    platt: bool,
    q: Vec<Vec<f64>>,
    /// 0: every parameter set explicitly; 1: documented defaults (C = (1,1) / eps 1e-7 / no shrinking / linear kernel);
    /// 2: c_svr(c, None) (loss epsilon 0.1); 3: nu_svr(nu, None) (c = 1); 4: c_eps(c, eps); 5: nu_eps(nu, eps)
    variant: u8,
    /// memory layouts of the records, the targets and the query batch (indices into LAYOUTS / TLAYOUTS / LAYOUTS)
    lay_x: u8,
    lay_y: u8,
    lay_q: u8,
    /// the records were scaled by 2^scale (kernel parameters, C / solver eps scaled so that the dual problem is the same);
    /// kappa = factor by which the kernel values changed (1 Gaussian, s^2 linear, s^(2 degree) polynomial)
    scale: i32,
    kappa: f64,
}

#[derive(Clone, Debug)]
struct FitOut {
    m: SvmMirror,
    nsupport: usize,
    ws: Vec<f64>,
    dec: Vec<f64>,
    lab: Vec<bool>,
    pr: Vec<f32>,
    /// weighted_sum of every training sample, the regression prediction of every training sample (else empty),
    /// the predicted label of every training sample (classification without calibration / one-class, else empty)
    tws: Vec<f64>,
    tout: Vec<f64>,
    tlab: Vec<bool>,
    platt_fallback: bool,
    /// Rust-side differential failures (single-sample predict vs batch, Platt coefficients)
    diff: Vec<String>,
}

fn arr(rows: &[Vec<f64>]) -> Array2<f64> {
    let d = if rows.is_empty() { 0 } else { rows[0].len() };
    Array2::from_shape_vec((rows.len(), d), rows.iter().flatten().cloned().collect()).unwrap()
}

fn kmethod(k: Ker) -> KernelMethod<f64> {
    match k {
        Ker::Linear => KernelMethod::Linear,
        Ker::Gauss(e) => KernelMethod::Gaussian(e),
        Ker::Poly(c, d) => KernelMethod::Polynomial(c, d),
    }
}

fn with_kernel<T>(p: linfa_svm::SvmParams<f64, T>, k: Ker) -> linfa_svm::SvmParams<f64, T> {
    match k {
        Ker::Linear => p.linear_kernel(),
        Ker::Gauss(e) => p.gaussian_kernel(e),
        Ker::Poly(c, d) => p.polynomial_kernel(c, d),
    }
}

fn mirror<T: serde::Serialize>(m: &T) -> SvmMirror {
    bincode::deserialize(&bincode::serialize(m).unwrap()).unwrap()
}

// ---- memory layouts: the same logical data behind different strides ----
/// 0 standard row-major (owned), 1 standard (view), 2 column-major (owned), 3 column-major (view),
/// 4 reversed rows (view, negative stride), 5 reversed rows (`to_owned()` of that view: keeps the negative stride),
/// 6 reversed columns (view), 7 reversed columns (owned), 8 every second row / column of a (2n, 2d) array whose
/// other entries are NaN (view), 9 the same as an owned non-contiguous array (`slice_move`)
const LAYOUTS: [&str; 10] = ["std", "std_view", "colmajor", "colmajor_view", "revrows_view", "revrows_owned",
    "revcols_view", "revcols_owned", "strided_view", "strided_owned"];
/// targets: 0 standard (owned), 1 standard (view), 2 reversed (view), 3 reversed (owned, `invert_axis`),
/// 4 every second element of a longer array (view), 5 the same owned (`slice_move`)
const TLAYOUTS: [&str; 6] = ["std", "std_view", "rev_view", "rev_owned", "strided_view", "strided_owned"];

struct Lay2 { back: Array2<f64>, lay: u8 }
impl Lay2 {
    fn new(rows: &[Vec<f64>], lay: u8) -> Lay2 {
        let n = rows.len();
        let d = if n == 0 { 0 } else { rows[0].len() };
        let back = match lay {
            0 | 1 => arr(rows),
            2 | 3 => {
                let mut v = Vec::with_capacity(n * d);
                for j in 0..d { for i in 0..n { v.push(rows[i][j]); } }
                Array2::from_shape_vec((n, d).f(), v).unwrap()
            }
            4 | 5 => arr(&rows.iter().rev().cloned().collect::<Vec<_>>()),
            6 | 7 => arr(&rows.iter().map(|r| r.iter().rev().cloned().collect::<Vec<f64>>()).collect::<Vec<_>>()),
            _ => {
                let mut a = Array2::from_elem((2 * n, 2 * d), f64::NAN);
                for i in 0..n { for j in 0..d { a[(2 * i, 2 * j)] = rows[i][j]; } }
                a
            }
        };
        Lay2 { back, lay }
    }
    fn is_view(&self) -> bool { matches!(self.lay, 1 | 3 | 4 | 6 | 8) }
    fn view(&self) -> ArrayView2<'_, f64> {
        match self.lay {
            0..=3 => self.back.view(),
            4 | 5 => self.back.slice(s![..;-1, ..]),
            6 | 7 => self.back.slice(s![.., ..;-1]),
            _ => self.back.slice(s![..;2, ..;2]),
        }
    }
    fn owned(&self) -> Array2<f64> {
        match self.lay {
            0..=3 => self.back.clone(),
            8 | 9 => self.back.clone().slice_move(s![..;2, ..;2]),
            _ => self.view().to_owned(),
        }
    }
}
struct Lay1<T: Clone> { back: Array1<T>, lay: u8 }
impl<T: Clone> Lay1<T> {
    fn new(xs: &[T], lay: u8) -> Lay1<T> {
        let back = match lay {
            0 | 1 => Array1::from(xs.to_vec()),
            2 | 3 => Array1::from(xs.iter().rev().cloned().collect::<Vec<T>>()),
            // the skipped entries repeat the neighbour (bool has no NaN); a reader in memory order sees the wrong length / pairing
            _ => Array1::from(xs.iter().flat_map(|x| [x.clone(), x.clone()]).collect::<Vec<T>>()),
        };
        Lay1 { back, lay }
    }
    fn is_view(&self) -> bool { matches!(self.lay, 1 | 2 | 4) }
    fn view(&self) -> ArrayView1<'_, T> {
        match self.lay { 0 | 1 => self.back.view(), 2 | 3 => self.back.slice(s![..;-1]), _ => self.back.slice(s![..;2]) }
    }
    fn owned(&self) -> Array1<T> {
        match self.lay {
            0 | 1 => self.back.clone(),
            2 | 3 => { let mut a = self.back.clone(); a.invert_axis(Axis(0)); a }
            _ => self.back.clone().slice_move(s![..;2]),
        }
    }
}

/// fit through the `Array2` / `Array1` implementation or through the `ArrayView2` / `ArrayView1` one, whichever the
/// layout of the records asks for (the targets follow: an owned dataset gets owned targets in their own layout)
macro_rules! fit_in_layout {
    ($p:expr, $xs:expr, $ys:expr) => {
        if $xs.is_view() { $p.fit(&DatasetBase::new($xs.view(), $ys.view())) } else { $p.fit(&DatasetBase::new($xs.owned(), $ys.owned())) }
    };
}
macro_rules! predict_in_layout {
    ($m:expr, $qs:expr) => {
        if $qs.is_view() { $m.predict(&$qs.view()) } else { $m.predict(&$qs.owned()) }
    };
}

fn run_fit(c: &Cfg) -> Result<FitOut, String> {
    let xs = Lay2::new(&c.x, c.lay_x);
    let qs = Lay2::new(&c.q, c.lay_q);
    // rows of the layout under test (a row of a column-major or strided matrix is itself a strided vector)
    let xv = xs.view();
    let q = qs.view();
    match c.kind {
        Kind::CSvc | Kind::NuSvc => {
            let ys = Lay1::new(&c.yb, c.lay_y);
            let ystd = Array1::from(c.yb.clone());
            let mut fallback = false;
            if c.platt {
                let p = with_kernel(Svm::<f64, Pr>::params(), c.ker).eps(c.eps).shrinking(c.shrink);
                let p = if c.kind == Kind::CSvc { p.pos_neg_weights(c.par1, c.par2) } else { p.nu_weight(c.par1) };
                match fit_in_layout!(p, xs, ys) {
                    Ok(model) => {
                        let ws: Vec<f64> = q.outer_iter().map(|r| model.weighted_sum(&r)).collect();
                        let pr: Vec<f32> = predict_in_layout!(model, qs).iter().map(|p| **p).collect();
                        let m = mirror(&model);
                        let lab = ws.iter().map(|w| w - m.rho >= 0.0).collect();
                        let mut diff = vec![];
                        for (k, r) in q.outer_iter().enumerate() {
                            let one: Pr = model.predict(r);
                            let own: Pr = model.predict(r.to_owned());
                            if (*one).to_bits() != pr[k].to_bits() || (*own).to_bits() != pr[k].to_bits() { diff.push(format!("single-sample probability of query {} differs from the batch prediction", k)); }
                        }
                        // the calibration is Platt's Newton method on the decision values of the training samples
                        let train: Array1<f64> = xv.outer_iter().map(|r| model.weighted_sum(&r) - m.rho).collect();
                        let pp: PlattParams<f64, ()> = PlattParams::default();
                        match platt_newton_method(train.view(), ystd.view(), pp.check_ref().unwrap()) {
                            Ok((a, b)) => {
                                if m.probability_coeffs.map(|(x, y)| (x.to_bits(), y.to_bits())) != Some((a.to_bits(), b.to_bits())) {
                                    diff.push("Platt coefficients are not those of the training decision values weighted_sum - rho".into());
                                }
                            }
                            Err(_) => diff.push("Platt calibration fails on the training decision values although the fit succeeded".into()),
                        }
                        let tws: Vec<f64> = xv.outer_iter().map(|r| model.weighted_sum(&r)).collect();
                        return Ok(FitOut { nsupport: model.nsupport(), ws, dec: vec![], lab, pr, tws, tout: vec![], tlab: vec![], m, platt_fallback: false, diff });
                    }
                    Err(linfa_svm::SvmError::Platt(_)) => fallback = true,
                    Err(e) => return Err(format!("ERR: {}", e)),
                }
            }
            let p = if c.variant == 1 {
                Svm::<f64, bool>::params()
            } else {
                let p = with_kernel(Svm::<f64, bool>::params(), c.ker).eps(c.eps).shrinking(c.shrink);
                if c.kind == Kind::CSvc { p.pos_neg_weights(c.par1, c.par2) } else { p.nu_weight(c.par1) }
            };
            let model = fit_in_layout!(p, xs, ys).map_err(|e| format!("ERR: {}", e))?;
            let ws: Vec<f64> = q.outer_iter().map(|r| model.weighted_sum(&r)).collect();
            let lab: Vec<bool> = predict_in_layout!(model, qs).to_vec();
            let mut diff = vec![];
            for (k, r) in q.outer_iter().enumerate() {
                if model.predict(r) != lab[k] || model.predict(r.to_owned()) != lab[k] { diff.push(format!("single-sample label of query {} differs from the batch prediction", k)); }
            }
            let tws: Vec<f64> = xv.outer_iter().map(|r| model.weighted_sum(&r)).collect();
            let tlab: Vec<bool> = predict_in_layout!(model, xs).to_vec();
            Ok(FitOut { m: mirror(&model), nsupport: model.nsupport(), ws, dec: vec![], lab, pr: vec![], tws, tout: vec![], tlab, platt_fallback: fallback, diff })
        }
        Kind::OneClass => {
            let p = with_kernel(Svm::<f64, Pr>::params(), c.ker).eps(c.eps).shrinking(c.shrink).nu_weight(c.par1);
            let unit = Array1::<()>::from_elem(c.x.len(), ());
            let model = if xs.is_view() { p.fit(&DatasetBase::new(xs.view(), unit.view())) } else { p.fit(&Dataset::from(xs.owned())) }
                .map_err(|e| format!("ERR: {}", e))?;
            let ws: Vec<f64> = q.outer_iter().map(|r| model.weighted_sum(&r)).collect();
            let lab: Vec<bool> = predict_in_layout!(model, qs).to_vec();
            let mut diff = vec![];
            for (k, r) in q.outer_iter().enumerate() {
                if model.predict(r) != lab[k] { diff.push(format!("single-sample label of query {} differs from the batch prediction", k)); }
            }
            let tws: Vec<f64> = xv.outer_iter().map(|r| model.weighted_sum(&r)).collect();
            let tlab: Vec<bool> = predict_in_layout!(model, xs).to_vec();
            Ok(FitOut { m: mirror(&model), nsupport: model.nsupport(), ws, dec: vec![], lab, pr: vec![], tws, tout: vec![], tlab, platt_fallback: false, diff })
        }
        Kind::EpsSvr | Kind::NuSvr => {
            let ys = Lay1::new(&c.yr, c.lay_y);
            let p = with_kernel(Svm::<f64, f64>::params(), c.ker).shrinking(c.shrink);
            #[allow(deprecated)]
            let p = match c.variant {
                2 => p.eps(c.eps).c_svr(c.par1, None),
                3 => p.eps(c.eps).nu_svr(c.par1, None),
                4 => p.c_eps(c.par1, c.eps),
                5 => p.nu_eps(c.par1, c.eps),
                _ => if c.kind == Kind::EpsSvr { p.eps(c.eps).c_svr(c.par1, Some(c.par2)) } else { p.eps(c.eps).nu_svr(c.par1, Some(c.par2)) },
            };
            let model = fit_in_layout!(p, xs, ys).map_err(|e| format!("ERR: {}", e))?;
            let ws: Vec<f64> = q.outer_iter().map(|r| model.weighted_sum(&r)).collect();
            let dec: Vec<f64> = predict_in_layout!(model, qs).to_vec();
            let mut diff = vec![];
            for (k, r) in q.outer_iter().enumerate() {
                if model.predict(r.to_owned()).to_bits() != dec[k].to_bits() || model.predict(r).to_bits() != dec[k].to_bits() {
                    diff.push(format!("single-sample prediction of query {} differs from the batch prediction", k));
                }
            }
            let tws: Vec<f64> = xv.outer_iter().map(|r| model.weighted_sum(&r)).collect();
            let tout: Vec<f64> = predict_in_layout!(model, xs).to_vec();
            Ok(FitOut { m: mirror(&model), nsupport: model.nsupport(), ws, dec, lab: vec![], pr: vec![], tws, tout, tlab: vec![], platt_fallback: false, diff })
        }
    }
}

/// run the fit in its own thread: a panic is an observation, and so is a fit that does not come back
fn timed_fit(c: &Cfg, secs: u64) -> Result<FitOut, String> {
    let (tx, rx) = mpsc::channel();
    let c2 = c.clone();
    std::thread::spawn(move || {
        let r = match guarded(move || run_fit(&c2)) {
            Ok(r) => r,
            Err(p) => Err(format!("PANIC: {}", p)),
        };
        let _ = tx.send(r);
    });
    match rx.recv_timeout(Duration::from_secs(secs)) {
        Ok(r) => r,
        Err(_) => Err(format!("TIMEOUT: fit did not return within {} s", secs)),
    }
}

// ---- the harness's own kernel arguments (what the kernel hands to exp / powf) ----
fn dotp(a: &[f64], b: &[f64]) -> f64 {
    // ndarray `.sum()` of the element-wise product: unrolled_fold with eight partial sums
    let prod: Vec<f64> = a.iter().zip(b).map(|(x, y)| x * y).collect();
    let mut p = [0.0f64; 8];
    let mut xs = &prod[..];
    while xs.len() >= 8 {
        for k in 0..8 { p[k] += xs[k]; }
        xs = &xs[8..];
    }
    let mut acc = 0.0;
    acc += p[0] + p[4];
    acc += p[1] + p[5];
    acc += p[2] + p[6];
    acc += p[3] + p[7];
    for v in xs { acc += *v; }
    acc
}
fn karg(k: Ker, a: &[f64], b: &[f64]) -> f64 {
    match k {
        Ker::Linear => dotp(a, b),
        Ker::Gauss(e) => {
            let mut s = -0.0f64;
            for (x, y) in a.iter().zip(b) { s += (x - y) * (x - y); }
            -s / e
        }
        Ker::Poly(c, _) => dotp(a, b) + c,
    }
}
fn kapply(k: Ker, arg: f64) -> f64 {
    match k {
        Ker::Linear => arg,
        Ker::Gauss(_) => arg.exp(),
        Ker::Poly(_, d) => arg.powf(d),
    }
}

/// floating-point Cholesky factor of K + (delta/2) I, entries rounded to a common binary grid: only a hint for the
/// exact certificate psd_cert of coq/C13/PsdCert.v (any matrix may be sent; a poor one just fails the check)
fn cholesky_hint(k: &[Vec<f64>], delta: f64) -> Vec<Vec<f64>> {
    let n = k.len();
    let mut l = vec![vec![0.0f64; n]; n];
    for i in 0..n {
        for j in 0..=i {
            let mut s = k[i][j] + if i == j { delta / 2.0 } else { 0.0 };
            for t in 0..j { s -= l[i][t] * l[j][t]; }
            if i == j {
                l[i][j] = if s > 0.0 { s.sqrt() } else { 0.0 };
            } else {
                l[i][j] = if l[j][j] > 0.0 { s / l[j][j] } else { 0.0 };
            }
        }
    }
    let lmax = l.iter().flatten().fold(0.0f64, |m, a| m.max(a.abs()));
    if !(lmax > 0.0 && lmax.is_finite()) { return vec![vec![0.0; n]; n]; }
    // grid 2^(e - 62) with 2^(e-1) <= max|L| < 2^e: entries become integers below 2^62 after scaling
    let e = lmax.log2().floor() as i32 + 1;
    let g = 2f64.powi(e - 62);
    for row in l.iter_mut() { for v in row.iter_mut() { *v = (*v / g).round() * g; } }
    l
}

// ---- generators ----
fn gen_points(rng: &mut Sm64, n: usize, d: usize, fam: u64) -> (Vec<Vec<f64>>, Vec<bool>) {
    let mut x = Vec::new();
    let mut y = Vec::new();
    let dir: Vec<f64> = (0..d).map(|_| rng.gauss()).collect();
    let pool: Vec<Vec<f64>> = (0..4).map(|_| (0..d).map(|_| rng.range(-3, 3) as f64 * 0.5).collect()).collect();
    for i in 0..n {
        let (row, lab): (Vec<f64>, bool) = match fam {
            0 => { let pos = i % 2 == 0; let c = if pos { 2.0 } else { -2.0 };            // separable blobs
                   ((0..d).map(|_| c + 0.4 * rng.gauss()).collect(), pos) }
            1 => { let pos = i % 2 == 0; let c = if pos { 0.7 } else { -0.7 };            // overlapping blobs
                   ((0..d).map(|_| c + rng.gauss()).collect(), pos) }
            2 => { let pos = i % 5 == 0; let c = if pos { 0.8 } else { -0.5 };            // imbalanced, overlapping
                   ((0..d).map(|_| c + 0.9 * rng.gauss()).collect(), pos) }
            3 => { let p = rng.pick(&pool).clone();                                        // duplicated points, partly conflicting labels
                   let s: f64 = p.iter().zip(&dir).map(|(a, b)| a * b).sum();
                   (p, if rng.chance(0.15) { s <= 0.0 } else { s > 0.0 }) }
            4 => { let p: Vec<f64> = (0..d).map(|_| rng.range(-2, 2) as f64).collect();     // integer lattice: ties, exact sums
                   let s: f64 = p.iter().zip(&dir).map(|(a, b)| a * b).sum::<f64>() + 0.3 * rng.gauss();
                   (p, s > 0.0) }
            _ => { let pos = i % 2 == 0; let r = if pos { 1.0 } else { 2.5 };             // rings (not linearly separable)
                   let v: Vec<f64> = (0..d).map(|_| rng.gauss()).collect();
                   let nv = v.iter().map(|a| a * a).sum::<f64>().sqrt().max(1e-9);
                   (v.iter().map(|a| a / nv * r + 0.15 * rng.gauss()).collect(), pos) }
        };
        x.push(row);
        y.push(lab);
    }
    // both classes must be present
    if y.iter().all(|b| *b) { y[0] = false; }
    if y.iter().all(|b| !*b) { y[0] = true; }
    (x, y)
}

fn gen_targets(rng: &mut Sm64, x: &[Vec<f64>], fam: u64) -> Vec<f64> {
    let d = x[0].len();
    let w: Vec<f64> = (0..d).map(|_| rng.range(-4, 4) as f64 * 0.5).collect();
    let b = rng.range(-2, 2) as f64;
    x.iter().map(|r| {
        let s: f64 = r.iter().zip(&w).map(|(a, c)| a * c).sum::<f64>() + b;
        match fam % 3 { 0 => s, 1 => s + 0.3 * rng.gauss(), _ => (1.5 * r[0]).sin() * 2.0 + 0.1 * rng.gauss() }
    }).collect()
}

fn logu(rng: &mut Sm64, lo: f64, hi: f64) -> f64 {
    (lo.ln() + rng.unit() * (hi.ln() - lo.ln())).exp()
}

fn kind_name(k: Kind) -> &'static str {
    match k { Kind::CSvc => "CSvc", Kind::NuSvc => "NuSvc", Kind::OneClass => "OneClass", Kind::EpsSvr => "EpsSvr", Kind::NuSvr => "NuSvr" }
}

fn gen_cfg(rng: &mut Sm64, nmax: usize, force_kind: Option<Kind>) -> (Cfg, u64) {
    let kind = force_kind.unwrap_or_else(|| *rng.pick(&[Kind::CSvc, Kind::CSvc, Kind::CSvc, Kind::NuSvc, Kind::NuSvc, Kind::OneClass, Kind::EpsSvr, Kind::EpsSvr, Kind::NuSvr]));
    let d = 1 + rng.below(3) as usize;
    let n = 6 + rng.below((nmax - 5) as u64) as usize;
    let fam = rng.below(6);
    let (mut x, yb) = gen_points(rng, n, d, fam);
    let ker = match rng.below(5) {
        0 | 1 => Ker::Linear,
        2 | 3 => Ker::Gauss(*rng.pick(&[0.5, 2.0, 10.0, 50.0])),
        _ => {
            // degree 2 / 3 with constants 0 / 1, and the first-degree polynomial (inner product shifted by a
            // constant: the only kernel besides the linear one for which an explicit hyperplane is tempting)
            // with constants 0, 0.5, 1, 3
            let c2 = *rng.pick(&[0.0, 1.0]);
            let d2 = *rng.pick(&[2.0, 3.0]);
            let c1 = *rng.pick(&[0.0, 0.5, 1.0, 3.0]);
            if rng.chance(0.4) { Ker::Poly(c1, 1.0) } else { Ker::Poly(c2, d2) }
        }
    };
    if let Ker::Poly(_, _) = ker {
        // keep the kernel values of the polynomial kernel within a few units (the solver tolerance is absolute)
        for r in x.iter_mut() { for v in r.iter_mut() { *v *= 0.5; } }
    }
    let yr = gen_targets(rng, &x, fam);
    let eps = *rng.pick(&[1e-3, 1e-5, 1e-7]);
    let shrink = rng.chance(0.3);
    let npos = yb.iter().filter(|b| **b).count();
    let (par1, par2) = match kind {
        Kind::CSvc => { let c = logu(rng, 1e-2, 1e3); (c, c * *rng.pick(&[1.0, 0.1, 10.0, 0.5, 3.0])) }
        Kind::NuSvc => {
            let numax = (2.0 * npos.min(n - npos) as f64 / n as f64).min(1.0);
            let nu = match rng.below(10) { 0 => numax, 1 | 2 => numax * 0.5, _ => (0.2 + 0.75 * rng.unit()) * numax };
            (nu, 0.0)
        }
        Kind::OneClass => (match rng.below(10) { 0 => 1.0, 1 | 2 => 0.5, _ => 0.05 + 0.9 * rng.unit() }, 0.0),
        Kind::EpsSvr => (logu(rng, 1e-1, 1e2), *rng.pick(&[0.01, 0.05, 0.1, 0.5])),
        Kind::NuSvr => (match rng.below(3) { 0 => 1.0, _ => 0.1 + 0.9 * rng.unit() }, logu(rng, 1e-1, 1e2)),
    };
    let platt = matches!(kind, Kind::CSvc | Kind::NuSvc) && rng.chance(0.3);
    // queries: stored samples, midpoints, fresh points
    let mut q = Vec::new();
    for k in 0..6 {
        match k % 3 {
            0 => q.push(x[rng.below(n as u64) as usize].clone()),
            1 => { let a = &x[rng.below(n as u64) as usize]; let b = &x[rng.below(n as u64) as usize];
                   q.push(a.iter().zip(b).map(|(u, v)| (u + v) / 2.0).collect()); }
            _ => q.push((0..d).map(|_| 3.0 * rng.gauss()).collect()),
        }
    }
    (Cfg { kind, ker, x, yb, yr, par1, par2, eps, shrink, platt, q, variant: 0, lay_x: 0, lay_y: 0, lay_q: 0, scale: 0, kappa: 1.0 }, fam)
}

/// scale the records and queries by 2^k and every hyper-parameter that carries units so that the dual problem is the
/// same one: Gaussian eps * s^2 (kernel values unchanged), polynomial constant * s^2 (kernel values * s^(2 degree)),
/// linear (kernel values * s^2); with kappa the factor of the kernel values: C / kappa (C-SVC, both regressions: the
/// coefficients scale by 1 / kappa, the decision values stay), solver eps * kappa (nu-SVC, one-class: the box [0, 1]
/// stays, the gradients scale by kappa).  All factors are powers of two: the scaling is exact.
fn apply_scale(c: &mut Cfg, k: i32) {
    if k == 0 { return; }
    let s = 2f64.powi(k);
    let s2 = s * s;
    let kappa = match c.ker {
        Ker::Linear => s2,
        Ker::Gauss(e) => { c.ker = Ker::Gauss(e * s2); 1.0 }
        Ker::Poly(cc, d) => { c.ker = Ker::Poly(cc * s2, d); s2.powi(d as i32) }
    };
    for r in c.x.iter_mut().chain(c.q.iter_mut()) { for v in r.iter_mut() { *v *= s; } }
    match c.kind {
        Kind::CSvc => { c.par1 /= kappa; c.par2 /= kappa; }
        Kind::NuSvc | Kind::OneClass => { c.eps *= kappa; }
        Kind::EpsSvr => { c.par1 /= kappa; }
        Kind::NuSvr => { c.par2 /= kappa; }
    }
    c.scale = k;
    c.kappa = kappa;
}

/// rotate memory layouts and scales over the cases of a stream (k = running index within the stream)
fn rotate(c: &mut Cfg, k: u64) {
    c.lay_x = (k % 10) as u8;
    c.lay_q = ((7 * k + 3) % 10) as u8;
    c.lay_y = if k % 9 == 4 { 2 + ((k / 9) % 4) as u8 } else { (k % 2) as u8 };
    apply_scale(c, [0, -40, 0, -20, 0, 0, 20, 0, 40, 0][((k / 3) % 10) as usize]);
}

fn cvecb(xs: &[bool]) -> String { clist(xs, |b| cbool(*b).to_string()) }
fn cmats(rows: &[Vec<f64>]) -> String { if rows.is_empty() { "[]".into() } else { cmat64(rows) } }
fn cvecs(xs: &[f64]) -> String { if xs.is_empty() { "[]".into() } else { cvec64(xs) } }

/// run one configuration and emit its case / Rust-side verdicts
fn emit(out: &mut Out, id: u64, c: &Cfg, fam: &str, stream: &str, thorough: bool, max_slack_ratio: &mut f64) {
    if !out.wanted(id) { return; }
    let n = c.x.len();
    let kname = kind_name(c.kind);
    let kern = match c.ker { Ker::Linear => "linear", Ker::Gauss(_) => "gaussian", Ker::Poly(_, d) => if d == 1.0 { "polynomial_degree1" } else { "polynomial" } };
    let mut tags: Vec<String> = vec![format!("kind_{}", kname), format!("kernel_{}", kern),
        (if c.shrink { "shrinking_true" } else { "shrinking_false" }).to_string(), format!("family_{}", fam), format!("stream_{}", stream)];
    if c.platt { tags.push("platt".into()); }
    let has_targets = c.kind != Kind::OneClass;
    let scale_name = if c.scale == 0 { "scale_1".to_string() } else { format!("scale_2p{}", c.scale) };
    for t in [format!("layout_x_{}", LAYOUTS[c.lay_x as usize]), format!("layout_q_{}", LAYOUTS[c.lay_q as usize]), scale_name] {
        out.bump(&t);
        tags.push(t);
    }
    if has_targets {
        let t = format!("layout_y_{}", TLAYOUTS[c.lay_y as usize]);
        out.bump(&t);
        tags.push(t);
        if c.lay_y >= 2 { tags.push("targets_noncontiguous".into()); out.bump("targets_noncontiguous"); }
    }
    {
        // input classes in which every coefficient of a class has to sit at its upper bound
        let npos = c.yb.iter().filter(|b| **b).count();
        let lim = match c.kind {
            Kind::NuSvc => c.par1 * n as f64 / 2.0 >= npos.min(n - npos) as f64 - 1e-9,
            Kind::OneClass => c.par1 * n as f64 >= n as f64,
            _ => false,
        };
        if lim { tags.push("nu_at_feasibility_limit".into()); out.bump("nu_at_feasibility_limit"); }
        // box bounds at or below the documented support-vector threshold 100 * eps
        if c.kind == Kind::CSvc && c.par1.min(c.par2) <= 100.0 * f64::EPSILON {
            tags.push("box_bound_below_sv_threshold".into()); out.bump("box_bound_below_sv_threshold");
        }
    }
    {
        // the solver replaces a non-positive curvature K_ii + K_jj - 2 K_ij (identical samples; in regression also the
        // pair alpha_i / alpha*_i of one sample) by the ABSOLUTE constant 1e-10: input class in which that constant
        // exceeds every kernel value (largest diagonal entry below 1e-10)
        let kdiag = c.x.iter().map(|r| kapply(c.ker, karg(c.ker, r, r)).abs()).fold(0.0f64, f64::max);
        let dup = matches!(c.kind, Kind::EpsSvr | Kind::NuSvr) || (0..n).any(|i| (0..i).any(|j| c.x[i] == c.x[j]));
        if dup && kdiag < 1e-10 { tags.push("curvature_guard_exceeds_kernel_values".into()); out.bump("curvature_guard_exceeds_kernel_values"); }
    }
    let desc = format!(
        "{{\"kind\": {}, \"kernel\": {}, \"kernel_params\": {}, \"n\": {}, \"d\": {}, \"family\": {}, \"stream\": {}, \"par1\": {:e}, \"par2\": {:e}, \"eps\": {:e}, \"shrinking\": {}, \"platt\": {}, \"layout_records\": {}, \"layout_targets\": {}, \"layout_queries\": {}, \"records_scaled_by_2_to\": {}, \"X_first_row\": {:?}}}",
        jstr(kname), jstr(kern), jstr(&format!("{:?}", c.ker)), n, c.x[0].len(), jstr(fam), jstr(stream), c.par1, c.par2, c.eps, c.shrink, c.platt,
        jstr(LAYOUTS[c.lay_x as usize]), jstr(if has_targets { TLAYOUTS[c.lay_y as usize] } else { "none" }), jstr(LAYOUTS[c.lay_q as usize]), c.scale, c.x[0]);
    out.bump(&format!("kind_{}", kname));
    out.bump(&format!("kernel_{}", kern));
    out.bump(if c.shrink { "shrinking_true" } else { "shrinking_false" });
    out.bump(&format!("family_{}", fam));
    out.bump(&format!("stream_{}", stream));
    out.bump(&format!("n_{}", if n < 16 { "lt16" } else if n < 40 { "16to39" } else if n < 130 { "40to129" } else { "ge130" }));
    let tagrefs: Vec<&str> = tags.iter().map(|s| s.as_str()).collect();

    // kernel matrix exactly as the fit builds it
    let xa = arr(&c.x);
    let kernel = Kernel::params().method(kmethod(c.ker)).transform(&xa);
    let kmat: Vec<Vec<f64>> = match &kernel.inner { KernelInner::Dense(a) => rows_of(&a.view()), _ => unreachable!() };
    let ka: Vec<Vec<f64>> = c.x.iter().map(|a| c.x.iter().map(|b| karg(c.ker, a, b)).collect()).collect();
    let km = kmethod(c.ker);
    let qk: Vec<Vec<f64>> = c.q.iter().map(|q| c.x.iter().map(|xj| km.distance(ndarray::ArrayView1::from(&xj[..]), ndarray::ArrayView1::from(&q[..]))).collect()).collect();
    let qa: Vec<Vec<f64>> = c.q.iter().map(|q| c.x.iter().map(|xj| karg(c.ker, xj, q)).collect()).collect();
    // Rust-side oracle: the kernel is its documented function of the argument the model reproduces
    let mut kbad = None;
    for i in 0..n { for j in 0..n { if kapply(c.ker, ka[i][j]).to_bits() != kmat[i][j].to_bits() { kbad = Some((i, j)); } } }
    for (qi, row) in qk.iter().enumerate() { for j in 0..n { if kapply(c.ker, qa[qi][j]).to_bits() != row[j].to_bits() { kbad = Some((qi, j)); } } }
    // Rust-side oracle: kernel construction and KernelMethod::distance see the LOGICAL data, whatever the memory layout
    {
        let xl = Lay2::new(&c.x, c.lay_x);
        let ql = Lay2::new(&c.q, c.lay_q);
        let kv = if xl.is_view() { Kernel::params().method(kmethod(c.ker)).transform(xl.view()) } else { Kernel::params().method(kmethod(c.ker)).transform(&xl.owned()) };
        let kvm: Vec<Vec<f64>> = match &kv.inner { KernelInner::Dense(a) => rows_of(&a.view()), _ => unreachable!() };
        let same = |a: &Vec<Vec<f64>>, b: &Vec<Vec<f64>>| a.len() == b.len() && a.iter().zip(b).all(|(r, t)| r.len() == t.len() && r.iter().zip(t).all(|(u, v)| u.to_bits() == v.to_bits()));
        if !same(&kvm, &kmat) {
            out.rust_fail(id, 2048, &tagrefs, &format!("the kernel matrix built from the records in layout {} differs from the one built from the same records in standard layout", LAYOUTS[c.lay_x as usize]), &desc);
        }
        let (xv, qv) = (xl.view(), ql.view());
        let qkv: Vec<Vec<f64>> = qv.outer_iter().map(|q| xv.outer_iter().map(|xj| km.distance(xj, q)).collect()).collect();
        if !same(&qkv, &qk) {
            out.rust_fail(id, 2048, &tagrefs, &format!("KernelMethod::distance on rows of records in layout {} / queries in layout {} differs from its value on the same vectors in standard layout", LAYOUTS[c.lay_x as usize], LAYOUTS[c.lay_q as usize]), &desc);
        }
    }
    if let Some((i, j)) = kbad {
        out.rust_fail(id, 2048, &tagrefs, &format!("kernel value at ({}, {}) is not exp/powf/identity of the documented argument", i, j), &desc);
    }

    let res = timed_fit(&c, if thorough { 120 } else { 30 });
    let replay_ok = n <= (if stream == "shrink" { 130 } else if thorough { 60 } else { 36 });
    // sizes for which the positive semi-definiteness certificate is evaluated (must agree with C13/Corr.v psd_limit)
    let psd_limit = 130usize;
    let nt = if c.kind == Kind::OneClass { (c.par1 * n as f64) as u64 } else { 0 };
    let head = format!(
        "{{| c_id := {}; c_kind := {}; c_kernel := {}; c_kp1 := {}; c_kp2 := {}; c_X := {}; c_yb := {}; c_yr := {}; c_par1 := {}; c_par2 := {}; c_eps := {}; c_shrink := {}; c_nt := {}; ",
        cn(id), kname,
        cn(match c.ker { Ker::Linear => 0, Ker::Gauss(_) => 1, Ker::Poly(_, _) => 2 }),
        sf64(match c.ker { Ker::Linear => 0.0, Ker::Gauss(e) => e, Ker::Poly(cc, _) => cc }),
        sf64(match c.ker { Ker::Poly(_, dd) => dd, _ => 0.0 }),
        cmat64(&c.x), cvecb(&c.yb), cvec64(&c.yr), sf64(c.par1), sf64(c.par2), sf64(c.eps), cbool(c.shrink), cn(nt));
    let kpart = format!("c_K := {}; c_KA := {}; ", cmat64(&kmat), if c.ker == Ker::Linear { "[]".to_string() } else { cmat64(&ka) });
    let qpart = format!("c_Q := {}; c_QK := {}; c_QA := {}; ", cmat64(&c.q), cmat64(&qk), if c.ker == Ker::Linear { "[]".to_string() } else { cmat64(&qa) });
    let key = Some(fnv_f64s(&c.x.concat(), fnv(format!("{:?}{:?}{}{}{}{}", c.kind, c.ker, c.par1, c.par2, c.eps, c.shrink).as_bytes())));
    if let Ok(f) = &res {
        if let Some(r) = f.m.r {
            // nu-SVC: the margin multiplier r is zero up to rounding (or infinite): the data is not separable at level nu
            let kmax0 = kmat.iter().flatten().fold(0.0f64, |m, a| m.max(a.abs()));
            if c.kind == Kind::NuSvc && !(r > 1e-9 * (c.kappa + kmax0) && r.is_finite()) { tags.push("nusvc_margin_zero".into()); out.bump("nusvc_margin_zero"); }
            // nu-SVC, non-linear kernel: the solver selects support vectors by |alpha_i| > 100 eps_machine BEFORE the coefficients
            // are divided by r, weighted_sum filters the published alpha_i / r by the same absolute threshold; since the repair
            // 4625418 (finding F-C13-S1) fit_nu re-selects the stored vectors after the division.  The class in which the two
            // selections differ for some sample (decidable from the published alpha and r) stays tagged and counted
            else if c.kind == Kind::NuSvc && c.ker != Ker::Linear {
                let thr = 100.0 * f64::EPSILON;
                if f.m.alpha.iter().any(|a| (a.abs() > thr) != ((a * r).abs() > thr)) {
                    tags.push("nusvc_sv_threshold_straddles_r".into()); out.bump("nusvc_sv_threshold_straddles_r");
                }
            }
        }
    }
    let tagrefs: Vec<&str> = tags.iter().map(|s| s.as_str()).collect();
    match res {
        Err(e) => {
            let is_panic = e.starts_with("PANIC");
            out.bump(if is_panic { "outcome_panic" } else if e.starts_with("TIMEOUT") { "outcome_timeout" } else { "outcome_error" });
            out.rust_fail(id, 512, &tagrefs, &format!("fit did not produce a model: {}", e), &desc);
            if is_panic && replay_ok {
                // the model of the solver must panic as well
                let coq = format!("{}c_replay := true; {}c_panic := true; c_alpha := []; c_rho := 0%float; c_r := None; c_obj := 0%float; c_iter := {}; c_w := []; c_sv := []; c_nsupport := 0%N; {}c_ws := []; c_dec := []; c_lab := []; c_pr := []; c_tolk := 0%float; c_toleq := 0%float; c_told := 0%float; c_tolpsd := 0%float; c_tws := []; c_tout := []; c_tlab := []; c_L := [] |}}",
                    head, kpart, cn(40 * n as u64 + 2000), qpart);
                out.case(id, &coq, &tagrefs, &desc, key);
            } else {
                out.rust_eval(&desc, None);
            }
        }
        Ok(f) => {
            out.bump("outcome_fitted");
            if f.platt_fallback { out.bump("platt_calibration_error_refit_as_bool"); }
            if f.m.exit_reason == ExitReason::ReachedIterations {
                out.rust_fail(id, 1024, &tagrefs, "solver stopped at the iteration limit", &desc);
            }
            let replay = replay_ok && f.m.iterations <= (if stream == "shrink" { 8000 } else if thorough { 6000 } else { 2500 });
            out.bump(if replay { "smo_replayed_bit_exact" } else { "oracle_only" });
            out.bump(&format!("iterations_{}", if f.m.iterations == 0 { "0" } else if f.m.iterations <= n { "le_n" } else if f.m.iterations <= 10 * n { "le_10n" } else { "gt_10n" }));
            // tolerances: KKT within 2 * eps of the solver (the stopping rule bounds the violation by eps) plus a
            // rounding allowance relative to the size of the terms; equality / decision: rounding allowance only
            let amax = f.m.alpha.iter().fold(0.0f64, |m, a| m.max(a.abs()));
            let asum: f64 = f.m.alpha.iter().map(|a| a.abs()).sum();
            let kmax = kmat.iter().flatten().fold(0.0f64, |m, a| m.max(a.abs()));
            let ymax = c.yr.iter().fold(0.0f64, |m, a| m.max(a.abs()));
            // the unit the conditions are compared with: the margin 1 (classification), the targets (regression: they are
            // not rescaled), nothing for one-class (its decision values scale with the kernel, the allowance is purely relative)
            let unit = if c.kind == Kind::OneClass { 0.0 } else { 1.0 };
            let scale = unit + asum * kmax + f.m.rho.abs() + if matches!(c.kind, Kind::EpsSvr | Kind::NuSvr) { ymax } else { 0.0 };
            // nu-SVC: the oracle divides the tolerance by the published r (the solver's eps lives in the unscaled dual)
            let rmul = match (c.kind, f.m.r) { (Kind::NuSvc, Some(r)) if r.is_finite() && r > 0.0 => r, _ => 1.0 };
            let tolk = 2.0 * c.eps + scale * 2f64.powi(-36) * rmul;
            let toleq = (amax + asum) * 2f64.powi(-40) * (1.0 + (f.m.iterations as f64).sqrt()) + 1e-300;
            let qkmax = qk.iter().flatten().fold(0.0f64, |m, a| m.max(a.abs()));
            let qkmax = qkmax.max(kmax);   // the decision values of the training samples are judged as well
            let told = (unit + asum * qkmax + f.m.rho.abs()) * 2f64.powi(-36) + (n as f64) * 100.0 * f64::EPSILON * qkmax;
            // coefficients at or below the documented absolute numerical-zero threshold 100 * f64::EPSILON
            let below = f.m.alpha.iter().filter(|a| **a != 0.0 && a.abs() <= 100.0 * f64::EPSILON).count();
            if below > 0 { out.bump("some_nonzero_coefficients_below_sv_threshold"); }
            if below > 0 && f.m.alpha.iter().all(|a| a.abs() <= 100.0 * f64::EPSILON) { out.bump("all_coefficients_below_sv_threshold"); }
            // rounding of the kernel values perturbs the spectrum by at most n * max|K| * a few ulps
            let tolpsd = (n as f64) * kmax * 2f64.powi(-45);
            // measured slack (float arithmetic, for the evidence only)
            if matches!(c.kind, Kind::CSvc) {
                for i in 0..n {
                    let fi: f64 = (0..n).map(|j| f.m.alpha[j] * kmat[i][j]).sum::<f64>() - f.m.rho;
                    let m = if c.yb[i] { fi } else { -fi };
                    let cb = if c.yb[i] { c.par1 } else { c.par2 };
                    let a = f.m.alpha[i].abs();
                    let mut v = 0.0f64;
                    if a < cb { v = v.max(1.0 - m); }
                    if a > 0.0 { v = v.max(m - 1.0); }
                    if c.eps > 0.0 && !c.shrink { *max_slack_ratio = max_slack_ratio.max(v / c.eps); }
                }
            }
            let (w, sv): (Vec<f64>, Vec<Vec<f64>>) = match &f.m.sep_hyperplane {
                Hyper::Linear(w) => (w.to_vec(), vec![]),
                Hyper::WeightedCombination(s) => (vec![], rows_of(&s.view())),
            };
            for d in &f.diff {
                out.rust_fail(id, 4096, &tagrefs, d, &desc);
            }
            // Rust-side oracle: the calibrated probability is platt_predict of the decision value
            if let Some((pa, pb)) = f.m.probability_coeffs {
                for (k, p) in f.pr.iter().enumerate() {
                    let want = *platt_predict(f.ws[k] - f.m.rho, pa, pb);
                    if want.to_bits() != p.to_bits() {
                        out.rust_fail(id, 4096, &tagrefs, &format!("probability of query {} is not platt_predict(weighted_sum - rho)", k), &desc);
                        break;
                    }
                }
            }
            let pr64: Vec<f64> = f.pr.iter().map(|p| *p as f64).collect();
            let lpart = if n <= psd_limit && kmat.iter().flatten().all(|v| v.is_finite()) {
                out.bump("psd_certificates");
                cmats(&cholesky_hint(&kmat, tolpsd))
            } else { "[]".to_string() };
            let desc = format!("{}, \"output\": {{\"rho\": \"{:e}\", \"r\": \"{:?}\", \"obj\": \"{:e}\", \"iterations\": {}, \"nsupport\": {}, \"alpha_head\": \"{:?}\"}}}}",
                &desc[..desc.len() - 1], f.m.rho, f.m.r, f.m.obj, f.m.iterations, f.nsupport, &f.m.alpha[..f.m.alpha.len().min(6)]);
            let coq = format!(
                "{}c_replay := {}; {}c_panic := false; c_alpha := {}; c_rho := {}; c_r := {}; c_obj := {}; c_iter := {}; c_w := {}; c_sv := {}; c_nsupport := {}; {}c_ws := {}; c_dec := {}; c_lab := {}; c_pr := {}; c_tolk := {}; c_toleq := {}; c_told := {}; c_tolpsd := {}; c_tws := {}; c_tout := {}; c_tlab := {}; c_L := {} |}}",
                head, cbool(replay), kpart, cvec64(&f.m.alpha), sf64(f.m.rho),
                match f.m.r { Some(r) => format!("Some {}", sf64(r)), None => "None".into() },
                sf64(f.m.obj), cn(f.m.iterations as u64), cvecs(&w), cmats(&sv), cn(f.nsupport as u64), qpart,
                cvec64(&f.ws), cvecs(&f.dec), cvecb(&f.lab), cvecs(&pr64), sf64(tolk), sf64(toleq), sf64(told), sf64(tolpsd),
                cvecs(&f.tws), cvecs(&f.tout), cvecb(&f.tlab),
                lpart);
            // non-trivial: the solver made at least one step and at least one coefficient is non-zero
            let nontrivial = f.m.iterations > 0 && f.m.alpha.iter().any(|a| *a != 0.0);
            out.case(id, &coq, &tagrefs, &desc, if nontrivial { key } else { None });
        }
    }
}

fn main() {
    let args = parse_args();
    let mut rng = Sm64::new(args.seed);
    let thorough = args.tier == "thorough";
    let ncases = if thorough { 800 } else { 180 };
    let mut out = Out::new(&args.out, args.shards, "C13.Corr", "case", args.only);
    let mut max_slack_ratio = 0.0f64;
    let mut id: u64 = 0;

    // ---- stream "small": exhaustive small problems on a line (every labelling with both classes) ----
    {
        let pts: [f64; 4] = [-1.0, 0.0, 0.5, 2.0];
        for n in 2..=4usize {
            for mask in 1..((1u32 << n) - 1) {
                for (ci, cc) in [0.5f64, 2.0].iter().enumerate() {
                    let x: Vec<Vec<f64>> = (0..n).map(|i| vec![pts[i]]).collect();
                    let yb: Vec<bool> = (0..n).map(|i| mask >> i & 1 == 1).collect();
                    let c = Cfg { kind: Kind::CSvc, ker: Ker::Linear, x: x.clone(), yb, yr: vec![0.0; n], par1: *cc, par2: if ci == 0 { 0.5 } else { 1.0 },
                                  eps: 1e-5, shrink: mask % 2 == 0, platt: false, q: vec![vec![0.25], vec![-3.0], vec![pts[0]]], variant: 0, lay_x: 0, lay_y: 0, lay_q: 0, scale: 0, kappa: 1.0 };
                    emit(&mut out, id, &c, "line", "small", thorough, &mut max_slack_ratio);
                    id += 1;
                }
            }
        }
    }
    // ---- stream "ties": identical points with balanced conflicting labels (decision value exactly 0) ----
    for k in 0..6u64 {
        let mut r = rng.fork();
        let n = 4 + 2 * (k as usize % 3);
        let d = 1 + (k as usize % 2);
        let p: Vec<f64> = (0..d).map(|_| r.range(-2, 2) as f64 * 0.5).collect();
        let x: Vec<Vec<f64>> = (0..n).map(|_| p.clone()).collect();
        let yb: Vec<bool> = (0..n).map(|i| i % 2 == 0).collect();
        let ker = match k % 3 { 0 => Ker::Linear, 1 => Ker::Gauss(2.0), _ => Ker::Poly(1.0, 2.0) };
        let c = Cfg { kind: Kind::CSvc, ker, x, yb, yr: vec![0.0; n], par1: 1.5, par2: 1.5, eps: 1e-5, shrink: k >= 3, platt: false,
                      q: vec![p.clone(), p.iter().map(|v| v + 1.0).collect(), vec![0.0; d]], variant: 0, lay_x: 0, lay_y: 0, lay_q: 0, scale: 0, kappa: 1.0 };
        emit(&mut out, id, &c, "identical", "ties", thorough, &mut max_slack_ratio);
        id += 1;
    }
    // ---- stream "tiny": box bounds around the support-vector threshold 100 * f64::EPSILON ----
    for k in 0..6u64 {
        let mut r = rng.fork();
        let (mut c, _) = gen_cfg(&mut r, 14, Some(Kind::CSvc));
        c.par1 = [1e-14, 3e-14, 2.2e-14, 1e-13, 2.3e-14, 5e-15][k as usize];
        c.par2 = if k % 2 == 0 { c.par1 } else { 0.7 };
        c.platt = false;
        emit(&mut out, id, &c, "tiny", "tiny", thorough, &mut max_slack_ratio);
        id += 1;
    }
    // ---- stream "defaults": documented default parameters and the optional / deprecated setters ----
    for k in 0..8u64 {
        let mut r = rng.fork();
        let (kind, variant) = [(Kind::CSvc, 1u8), (Kind::CSvc, 1), (Kind::EpsSvr, 2), (Kind::NuSvr, 3), (Kind::EpsSvr, 4), (Kind::NuSvr, 5), (Kind::EpsSvr, 2), (Kind::NuSvr, 3)][k as usize];
        let (mut c, fam) = gen_cfg(&mut r, 20, Some(kind));
        c.variant = variant;
        c.platt = false;
        match variant {
            1 => { c.ker = Ker::Linear; c.par1 = 1.0; c.par2 = 1.0; c.eps = 1e-7; c.shrink = false; }
            2 => { c.par2 = 0.1; }                       // c_svr(c, None): loss epsilon 0.1
            3 => { c.par2 = 1.0; }                       // nu_svr(nu, None): c = 1
            4 => { c.par2 = 0.1; }                       // c_eps(c, eps): loss epsilon 0.1
            _ => { c.par2 = 1.0; }                       // nu_eps(nu, eps): c = 1
        }
        emit(&mut out, id, &c, &format!("{}", fam), "defaults", thorough, &mut max_slack_ratio);
        id += 1;
    }
    // ---- stream "shrink": shrinking with coarse tolerances, so that the unshrink window (10 * eps) and the
    // shrinking schedule (every min(n, 1000) iterations) are hit in different states; three larger problems ----
    for k in 0..(if thorough { 60u64 } else { 24 }) {
        let mut r = rng.fork();
        let large = k % 8 == 7;
        let slow = !large && k % 4 != 3;
        let kind = if large { Kind::CSvc } else { [Kind::CSvc, Kind::EpsSvr, Kind::CSvc, Kind::NuSvc, Kind::CSvc, Kind::EpsSvr, Kind::OneClass, Kind::CSvc][k as usize % 8] };
        let d = 1 + r.below(2) as usize;
        let n = if large { 104 + r.below(16) as usize } else if slow { 8 + r.below(13) as usize } else { 12 + r.below(24) as usize };
        // overlapping classes: many bounded and free support vectors, slow convergence
        let (x, yb) = gen_points(&mut r, n, d, if k % 2 == 0 { 1 } else { 2 });
        let yr = gen_targets(&mut r, &x, 1);
        let mut q = vec![x[0].clone(), x[n / 2].clone()];
        q.push((0..d).map(|_| 3.0 * r.gauss()).collect());
        let ker = if large || k % 3 == 0 { Ker::Linear } else if k % 3 == 1 { Ker::Gauss(2.0) } else { Ker::Poly(1.0, 2.0) };
        let npos = yb.iter().filter(|b| **b).count();
        let (par1, par2) = match kind {
            Kind::CSvc => { let c = if large { 10.0 } else { [30.0, 100.0, 1000.0][k as usize % 3] }; (c, c * [1.0, 0.3][k as usize % 2]) }
            Kind::EpsSvr => ([20.0, 100.0][k as usize % 2], 0.05),
            Kind::NuSvc => (0.6 * (2.0 * npos.min(n - npos) as f64 / n as f64).min(1.0), 0.0),
            _ => (0.4, 0.0),
        };
        let eps = if slow || large { [1e-3, 1e-4][k as usize % 2] } else { [0.3, 0.1, 0.03, 0.01][(k / 4) as usize % 4] };
        let mut x = x;
        if let Ker::Poly(_, _) = ker { for row in x.iter_mut() { for v in row.iter_mut() { *v *= 0.5; } } }
        let mut c = Cfg { kind, ker, x, yb, yr, par1, par2, eps, shrink: true, platt: false, q, variant: 0, lay_x: 0, lay_y: 0, lay_q: 0, scale: 0, kappa: 1.0 };
        rotate(&mut c, k + 5);
        emit(&mut out, id, &c, if k % 2 == 0 { "1" } else { "2" }, "shrink", thorough, &mut max_slack_ratio);
        id += 1;
    }
    // ---- stream "guard": malformed hyper-parameters must be rejected, boundary values accepted ----
    if out.only.is_none() {
        let x = arr(&[vec![0.0], vec![1.0], vec![2.0], vec![3.0]]);
        let ds = Dataset::new(x, Array1::from(vec![true, true, false, false]));
        let bad: Vec<(&str, linfa_svm::SvmParams<f64, bool>)> = vec![
            ("eps < 0", Svm::<f64, bool>::params().eps(-1e-9)),
            ("eps NaN", Svm::<f64, bool>::params().eps(f64::NAN)),
            ("eps inf", Svm::<f64, bool>::params().eps(f64::INFINITY)),
            ("c_pos = 0", Svm::<f64, bool>::params().pos_neg_weights(0.0, 1.0)),
            ("c_neg < 0", Svm::<f64, bool>::params().pos_neg_weights(1.0, -1.0)),
            ("nu = 0", Svm::<f64, bool>::params().nu_weight(0.0)),
            ("nu > 1", Svm::<f64, bool>::params().nu_weight(1.0000001)),
        ];
        for (what, p) in bad {
            out.rust_eval("{\"stream\": \"guard\"}", None);
            out.bump("stream_guard");
            if p.fit(&ds).is_ok() {
                out.rust_fail(900_000, 8192, &["stream_guard"], &format!("invalid hyper-parameter accepted: {}", what), "{\"stream\": \"guard\"}");
            }
        }
        let good: Vec<(&str, linfa_svm::SvmParams<f64, bool>)> = vec![
            ("nu = 1", Svm::<f64, bool>::params().nu_weight(1.0).gaussian_kernel(1.0)),
            ("eps = 0.5", Svm::<f64, bool>::params().eps(0.5)),
            ("tiny C", Svm::<f64, bool>::params().pos_neg_weights(1e-300, 1e-300)),
        ];
        for (what, p) in good {
            out.rust_eval("{\"stream\": \"guard\"}", None);
            out.bump("stream_guard");
            if let Err(e) = p.check_ref() {
                out.rust_fail(900_001, 8192, &["stream_guard"], &format!("valid hyper-parameter rejected: {} ({})", what, e), "{\"stream\": \"guard\"}");
            }
        }
    }
    // ---- stream "random": structured random problems ----
    id = 1000;
    for _ in 0..ncases {
        let mut r = rng.fork();
        // size classes: most cases small enough for the bit-exact replay, some larger ones for the oracle only
        let big = r.chance(if thorough { 0.06 } else { 0.06 });
        let nmax = if big { if thorough { 250 } else { 120 } } else { if thorough { 60 } else { 36 } };
        let (mut c, fam) = gen_cfg(&mut r, nmax, None);
        rotate(&mut c, id - 1000);
        emit(&mut out, id, &c, &format!("{}", fam), "random", thorough, &mut max_slack_ratio);
        id += 1;
    }
    // ---- stream "poly1": every problem kind x first-degree polynomial kernel <x,y> + c, c in {0, 0.5, 1, 3}
    // (the decision value must contain c * sum_i alpha_i, which vanishes only when sum_i alpha_i = 0, i.e. not
    // for one-class fits), and the linear kernel with one-class fits ----
    id = 3000;
    for k in 0..24u64 {
        let mut r = rng.fork();
        let kind = [Kind::OneClass, Kind::CSvc, Kind::NuSvc, Kind::EpsSvr, Kind::NuSvr, Kind::OneClass][(k % 6) as usize];
        let (mut c, fam) = gen_cfg(&mut r, 20, Some(kind));
        let was_poly = matches!(c.ker, Ker::Poly(_, _));
        c.ker = if k % 6 == 5 { Ker::Linear } else { Ker::Poly([0.0, 0.5, 1.0, 3.0][(k / 6) as usize], 1.0) };
        if let Ker::Poly(_, _) = c.ker { if !was_poly { for row in c.x.iter_mut() { for v in row.iter_mut() { *v *= 0.5; } } } }
        c.platt = false;
        if c.kind == Kind::OneClass && c.par1 >= 1.0 { c.par1 = 0.5; }
        // queries: training samples (the one-class decision on them is what the labels publish) and fresh points
        c.q = vec![c.x[0].clone(), c.x[c.x.len() / 2].clone(), c.x[c.x.len() - 1].clone(),
                   (0..c.x[0].len()).map(|_| 2.0 * r.gauss()).collect(), vec![0.0; c.x[0].len()]];
        rotate(&mut c, k + 2);
        emit(&mut out, id, &c, &format!("{}", fam), "poly1", thorough, &mut max_slack_ratio);
        id += 1;
    }
    out.bump_by("max_kkt_slack_over_eps_x1000_csvc_noshrink", (max_slack_ratio * 1000.0) as u64);
    out.finish("SVM fits over 5 problem kinds x 3 kernels x 6 data families (separable, overlapping, imbalanced, duplicated points with conflicting labels, integer lattice, rings) x C / nu / eps / shrinking; a case is non-trivial when the solver made at least one step and published a non-zero coefficient; distinct = distinct (data, configuration) hashes");
    // threads of timed-out fits may still be running
    std::process::exit(0);
}
