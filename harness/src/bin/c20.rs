//! C20 harness: same data + parameters + seed => bit-identical results, run after run.
//!
//! `c20 gen ...`   (parent) builds a deterministic list of scenarios (estimator x dataset x parameters),
//!                 runs every scenario several times in this process under thread pools of different
//!                 sizes, re-spawns itself as fresh processes (`c20 child`, fresh hash seeds) with
//!                 RAYON_NUM_THREADS in {1,2,3,5,8,16}, and compares the bit patterns of all learned
//!                 quantities and predictions (maps compared as sorted maps, text vocabularies as
//!                 word -> column content).  A difference is reported with `rust_fail`.
//!                 It also emits Coq cases for C20/Corr.v: hash-map entry lists observed through the
//!                 public iterators (tree class frequencies, naive-Bayes classes, hierarchical clusters,
//!                 label sets), k-means task schedules observed through a spying distance function,
//!                 the default-seed table of the translator, and the `vocabulary()` orders / transformed
//!                 rows of repeated CountVectorizer fits (max_features cuts through document-frequency ties,
//!                 document-frequency windows, stop words) for the enumeration-parametrised model.
//! `c20 child ...` runs every scenario once and prints one digest line per component.
use linfa::dataset::Labels;
use linfa::prelude::*;
use linfa::traits::{Fit, FitWith, Predict, Transformer};
use linfa_clustering::{AppxDbscan, Dbscan, GaussianMixtureModel, GmmInitMethod, KMeans, KMeansInit, Optics};
use linfa_hierarchical::{HierarchicalCluster, Method};
use linfa_kernel::{Kernel, KernelMethod, KernelType};
use linfa_nn::distance::{Distance, L1Dist, L2Dist, LInfDist};
use ndarray::{Array1, Array2, ArrayView, Axis, Dimension};
use ndarray_stats::DeviationExt;
use rand::SeedableRng;
use rand_xoshiro::Xoshiro256Plus;
use std::collections::{BTreeMap, BTreeSet};
use std::io::Write as _;
use std::sync::atomic::{AtomicUsize, Ordering};
use std::sync::{Arc, Mutex};
use vh::*;

type Comps = Vec<(String, String)>;
type Run = Box<dyn Fn() -> Result<Comps, String> + Send + Sync>;

struct Scn {
    fam: &'static str,
    name: String,
    tags: Vec<String>,
    desc: String,
    nontrivial: bool,
    f: Run,
}

// ---------------------------------------------------------------- canonical renderings
fn hb(x: f64) -> String {
    format!("{:016x}", x.to_bits())
}
fn bits<'a, I: IntoIterator<Item = &'a f64>>(it: I) -> String {
    let mut s = String::new();
    for x in it {
        s.push_str(&hb(*x));
        s.push(',');
    }
    s
}
fn a2(a: &Array2<f64>) -> String {
    format!("{:?}|{}", a.dim(), bits(a.iter()))
}
fn a1(a: &Array1<f64>) -> String {
    bits(a.iter())
}
fn us<'a, I: IntoIterator<Item = &'a usize>>(it: I) -> String {
    it.into_iter().map(|v| v.to_string()).collect::<Vec<_>>().join(",")
}
/// canonical text of a JSON value: object keys sorted, floats as bit patterns
fn canon(v: &serde_json::Value, o: &mut String) {
    use serde_json::Value::*;
    match v {
        Null => o.push_str("null"),
        Bool(b) => o.push_str(if *b { "true" } else { "false" }),
        Number(n) => {
            if n.is_f64() {
                o.push_str(&hb(n.as_f64().unwrap()));
            } else {
                o.push_str(&n.to_string());
            }
        }
        String(s) => o.push_str(&jstr(s)),
        Array(a) => {
            o.push('[');
            for x in a {
                canon(x, o);
                o.push(',');
            }
            o.push(']');
        }
        Object(m) => {
            let mut keys: Vec<&std::string::String> = m.keys().collect();
            keys.sort();
            o.push('{');
            for k in keys {
                o.push_str(&jstr(k));
                o.push(':');
                canon(&m[k], o);
                o.push(',');
            }
            o.push('}');
        }
    }
}
fn jcanon<T: serde::Serialize>(m: &T) -> String {
    match serde_json::to_value(m) {
        Ok(v) => {
            let mut s = String::new();
            canon(&v, &mut s);
            s
        }
        Err(e) => format!("<not serialisable: {}>", e),
    }
}
fn mat(rows: &[Vec<f64>]) -> Array2<f64> {
    let d = if rows.is_empty() { 0 } else { rows[0].len() };
    Array2::from_shape_vec((rows.len(), d), rows.iter().flatten().cloned().collect()).unwrap()
}
fn es<E: std::fmt::Display>(e: E) -> String {
    format!("{}", e)
}
fn jopt<T: std::fmt::Debug>(o: &Option<T>) -> String {
    match o { Some(v) => format!("{:?}", v), None => "null".into() }
}
fn c(name: &str, text: String) -> (String, String) {
    (name.to_string(), text)
}
/// one component per estimator of a multi-estimator scenario: an error or a panic of one estimator becomes
/// the (compared) content of its own component and does not hide the estimators that follow
fn part<G: FnOnce() -> Result<String, String>>(out: &mut Comps, name: &str, f: G) {
    let t = match guarded(std::panic::AssertUnwindSafe(f)) {
        Ok(Ok(t)) => t,
        Ok(Err(e)) => format!("ERROR: {}", e),
        Err(p) => format!("PANIC: {}", p),
    };
    out.push(c(name, t));
}

// ---------------------------------------------------------------- data
fn blobs(r: &mut Sm64, n: usize, d: usize, nb: usize, spread: f64) -> Vec<Vec<f64>> {
    let centers: Vec<Vec<f64>> = (0..nb).map(|_| (0..d).map(|_| r.range(-8, 8) as f64 * 1.7 + r.unit()).collect()).collect();
    (0..n).map(|i| centers[i % nb].iter().map(|v| v + spread * r.gauss()).collect()).collect()
}
fn lattice(r: &mut Sm64, n: usize, d: usize, lo: i64, hi: i64) -> Vec<Vec<f64>> {
    (0..n).map(|_| (0..d).map(|_| r.range(lo, hi) as f64).collect()).collect()
}
fn distinct_labels(r: &mut Sm64, k: usize) -> Vec<usize> {
    let mut s = BTreeSet::new();
    while s.len() < k {
        let hi = if r.chance(0.5) { 12 } else { 5000 };
        s.insert(r.below(hi) as usize);
    }
    let mut v: Vec<usize> = s.into_iter().collect();
    r.shuffle(&mut v);
    v
}

// ---------------------------------------------------------------- scenario families
fn tree_scenarios(r: &mut Sm64, count: usize, v: &mut Vec<Scn>, modal: &mut Vec<(Array2<f64>, Array1<usize>, Option<Array1<f32>>, String)>) {
    use linfa_trees::{DecisionTree, SplitQuality};
    for i in 0..count {
        let kind = i % 5;
        let ncls = if kind >= 2 { 3 + r.below(3) as usize } else { 2 + r.below(4) as usize };
        let labs = distinct_labels(r, ncls);
        let d = 1 + r.below(3) as usize;
        let per = 1 + r.below(4) as usize;
        let (mut rows, mut y): (Vec<Vec<f64>>, Vec<usize>) = (vec![], vec![]);
        let mut w: Option<Vec<f32>> = None;
        match kind {
            0 => {
                // all rows identical, every class equally often: the root is one big tie
                let p: Vec<f64> = (0..d).map(|_| r.range(-2, 2) as f64).collect();
                for _ in 0..per { for l in &labs { rows.push(p.clone()); y.push(*l); } }
                if r.chance(0.3) { w = Some(vec![0.5f32; rows.len()]); }
            }
            1 => {
                // a few distinct points, each duplicated once per class (ties in every leaf)
                let np = 2 + r.below(3) as usize;
                let pts = lattice(r, np, d, -3, 3);
                for p in &pts { for _ in 0..per { for l in &labs { rows.push(p.clone()); y.push(*l); } } }
            }
            2 => {
                // random lattice data and labels, >= 3 classes, duplicated / mirrored feature columns
                let n = 8 + r.below(24) as usize;
                let bd = 1 + r.below(2) as usize;
                let base = lattice(r, n, bd, -3, 3);
                let mirror = r.chance(0.5);
                for b in &base {
                    let mut row = b.clone();
                    row.extend(b.iter().cloned());
                    if mirror { row.push(-b[0]); }
                    rows.push(row);
                    y.push(*r.pick(&labs));
                }
            }
            3 => {
                // fractional sample weights with >= 3 classes: class-frequency sums are not exact
                let n = 9 + r.below(24) as usize;
                rows = lattice(r, n, d, -2, 2);
                for _ in 0..n { y.push(*r.pick(&labs)); }
                w = Some((0..n).map(|_| *r.pick(&[0.1f32, 0.2, 0.3, 0.7, 1.1, 2.3])).collect());
            }
            _ => {
                // continuous data, balanced classes
                let n = ncls * (3 + r.below(6) as usize);
                rows = blobs(r, n, d.max(2), ncls, 1.5);
                for k in 0..n { y.push(labs[k % ncls]); }
            }
        }
        let x = mat(&rows);
        let ya = Array1::from(y.clone());
        let wa = w.clone().map(Array1::from);
        let dd = x.ncols();
        let mut q = rows.clone();
        for _ in 0..6 { q.push((0..dd).map(|_| r.range(-4, 4) as f64 * 0.5).collect()); }
        let qa = mat(&q);
        let gini = r.chance(0.6);
        let max_depth = *r.pick(&[None, None, Some(1usize), Some(2), Some(3)]);
        let mws = *r.pick(&[2.0f32, 2.0, 4.0]);
        let desc = format!(
            "{{\"estimator\": \"DecisionTree\", \"kind\": {}, \"classes\": {:?}, \"split_quality\": {}, \"max_depth\": {}, \"min_weight_split\": {}, \"X\": {:?}, \"y\": {:?}, \"weights\": {}}}",
            kind, labs, jstr(if gini { "gini" } else { "entropy" }), jopt(&max_depth), mws, rows, y, jopt(&w)
        );
        if kind <= 1 || kind == 3 { modal.push((x.clone(), ya.clone(), wa.clone(), desc.clone())); }
        let f: Run = Box::new(move || {
            let mut ds = Dataset::new(x.clone(), ya.clone());
            if let Some(w) = &wa { ds = ds.with_weights(w.clone()); }
            let p = DecisionTree::<f64, usize>::params()
                .split_quality(if gini { SplitQuality::Gini } else { SplitQuality::Entropy })
                .max_depth(max_depth)
                .min_weight_split(mws);
            let t = p.fit(&ds).map_err(es)?;
            Ok(vec![c("model", jcanon(&t)), c("predict", us(t.predict(&qa).iter())), c("importance", bits(t.feature_importance().iter()))])
        });
        v.push(Scn {
            fam: "tree", name: format!("tree/{}", i),
            tags: vec!["tree".into(), format!("tree_kind_{}", kind), format!("classes_{}", ncls.min(3))],
            desc, nontrivial: true, f,
        });
    }
}

/// Gaussian naive Bayes joint log-likelihood, transliterated from linfa-bayes gaussian_nb.rs
fn gnb_jll(prior: f64, theta: &Array1<f64>, sigma: &Array1<f64>, x: &Array2<f64>) -> Array1<f64> {
    let jointi = prior.ln();
    let mut nij = sigma.mapv(|x| (2. * std::f64::consts::PI) * x).mapv(|x| x.ln()).sum();
    nij = -0.5 * nij;
    let nij = ((x.to_owned() - theta).mapv(|x| x.powi(2)) / sigma).sum_axis(Axis(1)).mapv(|x| x * 0.5).mapv(|x| nij - x);
    nij + jointi
}

struct NbObs { x: Array2<f64>, y: Array1<usize>, q: Array2<f64>, vs: f64, desc: String }

fn nb_scenarios(r: &mut Sm64, count: usize, v: &mut Vec<Scn>, obs: &mut Vec<NbObs>) {
    use linfa_bayes::{GaussianNb, MultinomialNb};
    for i in 0..count {
        let gaussian = i % 3 != 2;
        let ncls = 2 + r.below(4) as usize;
        let labs = distinct_labels(r, ncls);
        let d = 1 + r.below(3) as usize;
        // groups of classes that receive exactly the same rows (in the same order): exact posterior ties
        let ngroups = 1 + r.below(ncls as u64 - 1) as usize;
        let per = 2 + r.below(4) as usize;
        let group_rows: Vec<Vec<Vec<f64>>> = (0..ngroups)
            .map(|_| if gaussian { blobs(r, per, d, 1, 1.0) } else { lattice(r, per, d.max(2), 0, 5) })
            .collect();
        let dd = group_rows[0][0].len();
        let mut items: Vec<(Vec<f64>, usize)> = vec![];
        for (ci, l) in labs.iter().enumerate() {
            for row in &group_rows[ci % ngroups] { items.push((row.clone(), *l)); }
        }
        // interleave the classes without disturbing the order inside a class
        let mut order: Vec<usize> = (0..ncls).flat_map(|ci| std::iter::repeat(ci).take(per)).collect();
        r.shuffle(&mut order);
        let mut next = vec![0usize; ncls];
        let (mut rows, mut y) = (vec![], vec![]);
        for ci in order {
            let (row, l) = &items[ci * per + next[ci]];
            next[ci] += 1;
            rows.push(row.clone());
            y.push(*l);
        }
        let mut q = rows.clone();
        for _ in 0..6 {
            q.push(if gaussian { (0..dd).map(|_| 3.0 * r.gauss()).collect() } else { (0..dd).map(|_| r.range(0, 6) as f64).collect() });
        }
        let (x, ya, qa) = (mat(&rows), Array1::from(y.clone()), mat(&q));
        let par = if gaussian { *r.pick(&[1e-9, 1e-3, 0.1]) } else { *r.pick(&[1.0, 0.5]) };
        let desc = format!(
            "{{\"estimator\": {}, \"classes\": {:?}, \"identical_class_groups\": {}, \"{}\": {:e}, \"X\": {:?}, \"y\": {:?}, \"queries\": {}}}",
            jstr(if gaussian { "GaussianNb" } else { "MultinomialNb" }), labs, ngroups, if gaussian { "var_smoothing" } else { "alpha" }, par, rows, y, q.len()
        );
        if gaussian { obs.push(NbObs { x: x.clone(), y: ya.clone(), q: qa.clone(), vs: par, desc: desc.clone() }); }
        let f: Run = Box::new(move || {
            let ds = Dataset::new(x.clone(), ya.clone());
            if gaussian {
                let m = GaussianNb::<f64, usize>::params().var_smoothing(par).fit(&ds).map_err(es)?;
                Ok(vec![c("model", jcanon(&m)), c("predict", us(m.predict(&qa).iter()))])
            } else {
                let m = MultinomialNb::<f64, usize>::params().alpha(par).fit(&ds).map_err(es)?;
                Ok(vec![c("model", jcanon(&m)), c("predict", us(m.predict(&qa).iter()))])
            }
        });
        v.push(Scn {
            fam: "bayes", name: format!("bayes/{}", i),
            tags: vec!["bayes".into(), (if gaussian { "gaussian_nb" } else { "multinomial_nb" }).into(), (if ngroups < ncls { "identical_classes" } else { "distinct_classes" }).into()],
            desc, nontrivial: ngroups < ncls, f,
        });
    }
}

struct HierObs { x: Array2<f64>, eps: f64, method: usize, num: usize, desc: String }
const HMETHODS: [(Method, &str); 4] = [(Method::Single, "single"), (Method::Complete, "complete"), (Method::Average, "average"), (Method::Weighted, "weighted")];

fn hier_run(x: &Array2<f64>, eps: f64, method: usize, num: usize) -> Result<Vec<usize>, String> {
    let kernel = Kernel::<f64>::params().kind(KernelType::Dense).method(KernelMethod::Gaussian(eps)).transform(x.view());
    let hc = HierarchicalCluster::<f64>::default().with_method(HMETHODS[method].0).num_clusters(num);
    let r: Result<DatasetBase<Kernel<f64>, Vec<usize>>, _> = hc.transform(kernel);
    r.map(|d| d.targets).map_err(es)
}

fn hier_scenarios(r: &mut Sm64, count: usize, v: &mut Vec<Scn>, obs: &mut Vec<HierObs>) {
    for i in 0..count {
        let n = 6 + r.below(18) as usize;
        let d = 1 + r.below(2) as usize;
        let rows = if i % 2 == 0 { lattice(r, n, d, -3, 3) } else { blobs(r, n, d, 3, 0.4) };
        let x = mat(&rows);
        let eps = *r.pick(&[2.0, 8.0, 30.0]);
        let method = r.below(4) as usize;
        let num = 2 + r.below(4) as usize;
        let desc = format!("{{\"estimator\": \"HierarchicalCluster\", \"linkage\": {}, \"num_clusters\": {}, \"gaussian_kernel_eps\": {}, \"X\": {:?}}}", jstr(HMETHODS[method].1), num, eps, rows);
        obs.push(HierObs { x: x.clone(), eps, method, num, desc: desc.clone() });
        let f: Run = Box::new(move || Ok(vec![c("labels", us(hier_run(&x, eps, method, num)?.iter()))]));
        v.push(Scn { fam: "hierarchical", name: format!("hierarchical/{}", i), tags: vec!["hierarchical".into(), format!("linkage_{}", HMETHODS[method].1)], desc, nontrivial: true, f });
    }
}

fn kmeans_comps<D: Distance<f64> + serde::Serialize>(m: &KMeans<f64, D>, q: &Array2<f64>) -> Comps {
    vec![
        c("centroids", a2(m.centroids())),
        c("cluster_count", a1(m.cluster_count())),
        c("inertia", hb(m.inertia())),
        c("predict", us(m.predict(q).iter())),
        c("transform", a1(&m.transform(q))),
    ]
}

fn kmeans_scenarios(r: &mut Sm64, thorough: bool, v: &mut Vec<Scn>) {
    // (a) large data: the parallel loops are split over the pool
    let sizes: Vec<(usize, usize, usize)> = if thorough { vec![(20000, 8, 8), (50000, 4, 6), (5000, 16, 5)] } else { vec![(20000, 8, 8), (6000, 3, 5)] };
    for (si, (n, d, k)) in sizes.into_iter().enumerate() {
        let dseed = r.next();
        let x = Arc::new(mat(&blobs(&mut Sm64::new(dseed), n, d, k + 1, 2.5)));
        for variant in 0..4 {
            let x = x.clone();
            let seed = r.below(1000);
            let (init, iname) = match variant { 0 | 1 => (KMeansInit::Random, "Random"), _ => (KMeansInit::KMeansPlusPlus, "KMeansPlusPlus") };
            let default_params = variant % 2 == 0;
            let desc = format!(
                "{{\"estimator\": \"KMeans\", \"data\": \"blobs(Sm64::new({}), n={}, d={}, centres={}, spread=2.5)\", \"k\": {}, \"init\": {}, \"rng\": {}, \"n_runs\": 2, \"max_n_iterations\": 25}}",
                dseed, n, d, k + 1, k, jstr(iname), jstr(&if default_params { "default parameter set".to_string() } else { format!("Xoshiro256Plus::seed_from_u64({})", seed) })
            );
            let f: Run = Box::new(move || {
                let ds = DatasetBase::from((*x).clone());
                let m = if default_params {
                    KMeans::params(k).init_method(init.clone()).n_runs(2).max_n_iterations(25).fit(&ds).map_err(es)?
                } else {
                    KMeans::params_with_rng(k, Xoshiro256Plus::seed_from_u64(seed)).init_method(init.clone()).n_runs(2).max_n_iterations(25).fit(&ds).map_err(es)?
                };
                Ok(kmeans_comps(&m, &x))
            });
            v.push(Scn { fam: "kmeans", name: format!("kmeans/large{}/{}", si, variant), tags: vec!["kmeans".into(), "large".into(), format!("init_{}", iname)], desc, nontrivial: true, f });
        }
    }
    // (b) tie-heavy lattice data, three metrics, incremental fitting
    for i in 0..(if thorough { 30 } else { 12 }) {
        let n = 300 + r.below(600) as usize;
        let d = 1 + r.below(3) as usize;
        let k = 2 + r.below(5) as usize;
        let rows = lattice(r, n, d, -4, 4);
        let x = Arc::new(mat(&rows));
        let seed = r.below(1000);
        let metric = i % 3;
        let incremental = i % 4 == 3;
        let desc = format!(
            "{{\"estimator\": \"KMeans\", \"data\": \"integer lattice [-4,4]^{} n={}\", \"k\": {}, \"metric\": {}, \"seed\": {}, \"incremental\": {}, \"X_first_rows\": {:?}}}",
            d, n, k, jstr(["L2", "L1", "Linf"][metric]), seed, incremental, &rows[..4]
        );
        let f: Run = Box::new(move || {
            fn go<D: Distance<f64> + std::fmt::Debug + serde::Serialize + 'static>(dist: D, x: &Array2<f64>, k: usize, seed: u64, incremental: bool) -> Result<Comps, String> {
                let p = KMeans::params_with(k, Xoshiro256Plus::seed_from_u64(seed), dist).n_runs(3).max_n_iterations(30).tolerance(1e-3);
                if incremental {
                    let p = p.check().map_err(es)?;
                    let mut model = None;
                    for b in 0..5 {
                        let lo = b * x.nrows() / 5;
                        let hi = (b + 1) * x.nrows() / 5;
                        let batch = DatasetBase::from(x.slice(ndarray::s![lo..hi, ..]).to_owned());
                        model = Some(match p.fit_with(model, &batch) { Ok(m) => m, Err(linfa_clustering::IncrKMeansError::NotConverged(m)) => m, Err(e) => return Err(es(e)) });
                    }
                    Ok(kmeans_comps(&model.unwrap(), x))
                } else {
                    let m = p.fit(&DatasetBase::from(x.clone())).map_err(es)?;
                    Ok(kmeans_comps(&m, x))
                }
            }
            match metric { 0 => go(L2Dist, &x, k, seed, incremental), 1 => go(L1Dist, &x, k, seed, incremental), _ => go(LInfDist, &x, k, seed, incremental) }
        });
        v.push(Scn { fam: "kmeans", name: format!("kmeans/lattice/{}", i), tags: vec!["kmeans".into(), "lattice".into()], desc, nontrivial: true, f });
    }
    // (c) row counts around the places where a chunked parallel reduction would start to split its input
    //     (4096 / 8192 rows), few features and clusters, a single restart: cheap, every pool size sees them
    let mut ns: Vec<usize> = vec![4097, 8192, 8193 + r.below(200) as usize, 12289 + r.below(4000) as usize];
    if thorough { ns.extend([4096, 5000 + r.below(3000) as usize, 16385, 30000 + r.below(10000) as usize]); }
    for (bi, n) in ns.into_iter().enumerate() {
        let d = 2 + r.below(2) as usize;
        let k = 2 + r.below(3) as usize;
        let dseed = r.next();
        let x = Arc::new(mat(&blobs(&mut Sm64::new(dseed), n, d, k + 1, 3.0)));
        let seed = r.below(1000);
        let default_params = bi % 2 == 0;
        let plus = bi % 4 < 2;
        let desc = format!(
            "{{\"estimator\": \"KMeans\", \"data\": \"blobs(Sm64::new({}), n={}, d={}, centres={}, spread=3)\", \"k\": {}, \"init\": {}, \"rng\": {}, \"n_runs\": 1, \"max_n_iterations\": 12, \"tolerance\": 1e-6}}",
            dseed, n, d, k + 1, k, jstr(if plus { "KMeansPlusPlus" } else { "Random" }), jstr(&if default_params { "default parameter set".to_string() } else { format!("Xoshiro256Plus::seed_from_u64({})", seed) })
        );
        let f: Run = Box::new(move || {
            let ds = DatasetBase::from((*x).clone());
            let init = if plus { KMeansInit::KMeansPlusPlus } else { KMeansInit::Random };
            let m = if default_params {
                KMeans::params(k).init_method(init).n_runs(1).max_n_iterations(12).tolerance(1e-6).fit(&ds).map_err(es)?
            } else {
                KMeans::params_with_rng(k, Xoshiro256Plus::seed_from_u64(seed)).init_method(init).n_runs(1).max_n_iterations(12).tolerance(1e-6).fit(&ds).map_err(es)?
            };
            let q = x.slice(ndarray::s![..x.nrows().min(6000), ..]).to_owned();
            Ok(kmeans_comps(&m, &q))
        });
        v.push(Scn { fam: "kmeans", name: format!("kmeans/boundary/{}", bi), tags: vec!["kmeans".into(), "large".into(), "rows_over_4096".into()], desc, nontrivial: true, f });
    }
}

fn gmm_scenarios(r: &mut Sm64, thorough: bool, v: &mut Vec<Scn>) {
    for i in 0..(if thorough { 16 } else { 6 }) {
        let (n, d, k) = (600 + r.below(1500) as usize, 2 + r.below(2) as usize, 2 + r.below(2) as usize);
        let dseed = r.next();
        let x = Arc::new(mat(&blobs(&mut Sm64::new(dseed), n, d, k, 1.0)));
        let seed = r.below(1000);
        let default_params = i % 2 == 0;
        let random_init = i % 4 >= 2;
        let desc = format!(
            "{{\"estimator\": \"GaussianMixtureModel\", \"data\": \"blobs(Sm64::new({}), n={}, d={}, centres={}, spread=1)\", \"k\": {}, \"init\": {}, \"rng\": {}}}",
            dseed, n, d, k, k, jstr(if random_init { "Random" } else { "KMeans" }), jstr(&if default_params { "default parameter set".to_string() } else { format!("Xoshiro256Plus::seed_from_u64({})", seed) })
        );
        let f: Run = Box::new(move || {
            let ds = DatasetBase::from((*x).clone());
            let im = if random_init { GmmInitMethod::Random } else { GmmInitMethod::KMeans };
            let m = if default_params {
                GaussianMixtureModel::params(k).init_method(im).n_runs(2).max_n_iterations(40).fit(&ds).map_err(es)?
            } else {
                GaussianMixtureModel::params_with_rng(k, Xoshiro256Plus::seed_from_u64(seed)).init_method(im).n_runs(2).max_n_iterations(40).fit(&ds).map_err(es)?
            };
            Ok(vec![c("model", jcanon(&m)), c("predict", us(m.predict(&*x).iter()))])
        });
        v.push(Scn { fam: "gmm", name: format!("gmm/{}", i), tags: vec!["gmm".into()], desc, nontrivial: true, f });
    }
    // non-default parameters: regularisation, tolerance, three restarts, explicit seeds; and data with more than
    // 8192 rows (the default initialisation runs k-means on them)
    let nvar = if thorough { 12 } else { 5 };
    for i in 0..nvar {
        let big = i == 0 || (thorough && i == 1);
        let (n, d, k) = if big { (8200 + r.below(3000) as usize, 2, 2) } else { (300 + r.below(900) as usize, 2 + r.below(3) as usize, 2 + r.below(3) as usize) };
        let dseed = r.next();
        let x = Arc::new(mat(&blobs(&mut Sm64::new(dseed), n, d, k, 1.2)));
        let seed = r.below(1000);
        let reg = *r.pick(&[1e-6, 1e-4, 1e-2]);
        let tol = *r.pick(&[1e-3, 1e-4]);
        let nruns = if big { 1 } else { 1 + r.below(3) };
        let random_init = !big && i % 2 == 1;
        let default_params = i % 3 == 2;
        let desc = format!(
            "{{\"estimator\": \"GaussianMixtureModel\", \"data\": \"blobs(Sm64::new({}), n={}, d={}, centres={}, spread=1.2)\", \"k\": {}, \"init\": {}, \"rng\": {}, \"n_runs\": {}, \"reg_covariance\": {:e}, \"tolerance\": {:e}, \"max_n_iterations\": 200}}",
            dseed, n, d, k, k, jstr(if random_init { "Random" } else { "KMeans" }), jstr(&if default_params { "default parameter set".to_string() } else { format!("Xoshiro256Plus::seed_from_u64({})", seed) }), nruns, reg, tol
        );
        let f: Run = Box::new(move || {
            let ds = DatasetBase::from((*x).clone());
            let im = if random_init { GmmInitMethod::Random } else { GmmInitMethod::KMeans };
            let m = if default_params {
                GaussianMixtureModel::params(k).init_method(im).n_runs(nruns).reg_covariance(reg).tolerance(tol).max_n_iterations(200).fit(&ds).map_err(es)?
            } else {
                GaussianMixtureModel::params_with_rng(k, Xoshiro256Plus::seed_from_u64(seed)).init_method(im).n_runs(nruns).reg_covariance(reg).tolerance(tol).max_n_iterations(200).fit(&ds).map_err(es)?
            };
            let q = x.slice(ndarray::s![..x.nrows().min(3000), ..]).to_owned();
            Ok(vec![c("model", jcanon(&m)), c("predict", us(m.predict(&q).iter()))])
        });
        let mut tags: Vec<String> = vec!["gmm".into(), "gmm_non_default".into()];
        if big { tags.push("rows_over_4096".into()); }
        v.push(Scn { fam: "gmm", name: format!("gmm/variant/{}", i), tags, desc, nontrivial: true, f });
    }
}

fn density_scenarios(r: &mut Sm64, thorough: bool, v: &mut Vec<Scn>) {
    for i in 0..(if thorough { 12 } else { 4 }) {
        let n = 150 + r.below(250) as usize;
        let rows = if i % 2 == 0 { lattice(r, n, 2, -6, 6) } else { blobs(r, n, 2, 4, 0.8) };
        let x = Arc::new(mat(&rows));
        let minpts = 3 + r.below(4) as usize;
        let tol = *r.pick(&[1.0, 1.5, 2.0]);
        let desc = format!("{{\"estimator\": \"Dbscan/AppxDbscan/Optics\", \"n\": {}, \"min_points\": {}, \"tolerance\": {}, \"X_first_rows\": {:?}}}", n, minpts, tol, &rows[..4]);
        let f: Run = Box::new(move || {
            let lab = |a: &Array1<Option<usize>>| a.iter().map(|o| match o { Some(k) => k.to_string(), None => "-".into() }).collect::<Vec<_>>().join(",");
            let d: Array1<Option<usize>> = Dbscan::params(minpts).tolerance(tol).transform(&*x).map_err(es)?;
            let a: Array1<Option<usize>> = AppxDbscan::params(minpts).tolerance(tol).transform(&*x).map_err(es)?;
            let o = Optics::params(minpts).tolerance(tol).transform(x.view()).map_err(es)?;
            let ot = o.iter().map(|s| format!("{}:{:?}:{:?}", s.index(), s.core_distance().map(|v| v.to_bits()), s.reachability_distance().map(|v| v.to_bits()))).collect::<Vec<_>>().join(",");
            Ok(vec![c("dbscan", lab(&d)), c("appx_dbscan", lab(&a)), c("optics", ot)])
        });
        v.push(Scn { fam: "density", name: format!("density/{}", i), tags: vec!["density".into()], desc, nontrivial: true, f });
    }
}

fn regression_scenarios(r: &mut Sm64, thorough: bool, v: &mut Vec<Scn>) {
    use linfa_elasticnet::ElasticNet;
    use linfa_linear::{LinearRegression, TweedieRegressor};
    use linfa_pls::PlsRegression;
    use linfa_svm::Svm;
    for i in 0..(if thorough { 16 } else { 5 }) {
        let (n, p) = (60 + r.below(200) as usize, 3 + r.below(5) as usize);
        let dseed = r.next();
        let mut g = Sm64::new(dseed);
        let rows = blobs(&mut g, n, p, 3, 1.0);
        let beta: Vec<f64> = (0..p).map(|_| g.gauss()).collect();
        let y: Vec<f64> = rows.iter().map(|row| row.iter().zip(&beta).map(|(a, b)| a * b).sum::<f64>() * 0.1 + 0.3 * g.gauss()).collect();
        let x = Arc::new(mat(&rows));
        let ya = Arc::new(Array1::from(y));
        let desc = format!("{{\"estimator\": \"LinearRegression/ElasticNet/Lasso/PlsRegression/TweedieRegressor/Svm(regression)\", \"data\": \"blobs(Sm64::new({}), n={}, p={}) with a noisy linear response\"}}", dseed, n, p);
        let f: Run = Box::new(move || {
            let ds = Dataset::new((*x).clone(), (*ya).clone());
            let mut out = vec![];
            let dbg = std::env::var("C20_TIMING").is_ok();
            let m = LinearRegression::new().fit(&ds).map_err(es)?;
            out.push(c("ols", format!("{}|{}", jcanon(&m), a1(&m.predict(&*x)))));
            if dbg { eprintln!("ols done"); }
            let m = ElasticNet::<f64>::params().penalty(0.05).l1_ratio(0.5).fit(&ds).map_err(es)?;
            out.push(c("elasticnet", format!("{}|{}", jcanon(&m), a1(&m.predict(&*x)))));
            let m = ElasticNet::<f64>::lasso().penalty(0.02).fit(&ds).map_err(es)?;
            out.push(c("lasso", format!("{}|{}", jcanon(&m), a1(&m.predict(&*x)))));
            if dbg { eprintln!("enet done"); }
            let y2 = ndarray::stack![Axis(1), *ya, ya.mapv(|v| v * v)];
            let dp = Dataset::new((*x).clone(), y2);
            let m = PlsRegression::<f64>::params(2).fit(&dp).map_err(es)?;
            out.push(c("pls", format!("{}|{}", jcanon(&m), a2(&m.predict(&*x)))));
            if dbg { eprintln!("pls done"); }
            let ypos = ya.mapv(|v| v.abs() + 0.5);
            let xs = x.mapv(|v| v * 0.05);
            let dt = Dataset::new(xs.clone(), ypos);
            for pw in [0.0, 1.0, 2.0] {
                let m = TweedieRegressor::<f64>::params().power(pw).alpha(0.1).fit(&dt).map_err(es)?;
                out.push(c(&format!("tweedie_{}", pw), format!("{}|{}", jcanon(&m), a1(&m.predict(&xs)))));
                if dbg { eprintln!("tweedie {} done", pw); }
            }
            if dbg { eprintln!("tweedie done"); }
            let k = x.nrows().min(80);
            let xs = x.slice(ndarray::s![..k, ..]).to_owned();
            let dsr = Dataset::new(xs.clone(), ya.slice(ndarray::s![..k]).to_owned());
            let m = Svm::<f64, f64>::params().c_svr(1.0, Some(0.1)).gaussian_kernel(20.0).fit(&dsr).map_err(es)?;
            out.push(c("svr", format!("{:?}|{}", m, a1(&m.predict(&xs)))));
            Ok(out)
        });
        v.push(Scn { fam: "regression", name: format!("regression/{}", i), tags: vec!["regression".into()], desc, nontrivial: true, f });
    }
}

fn classification_scenarios(r: &mut Sm64, thorough: bool, v: &mut Vec<Scn>) {
    use linfa_ftrl::Ftrl;
    use linfa_logistic::{LogisticRegression, MultiLogisticRegression};
    use linfa_svm::Svm;
    for i in 0..(if thorough { 16 } else { 5 }) {
        let (n, p) = (90 + r.below(120) as usize, 2 + r.below(3) as usize);
        let dseed = r.next();
        let mut g = Sm64::new(dseed);
        let rows = blobs(&mut g, n, p, 3, 2.0);
        let labs = distinct_labels(r, 3);
        let y3: Vec<usize> = (0..n).map(|k| if g.chance(0.15) { *g.pick(&labs) } else { labs[k % 3] }).collect();
        let yb: Vec<bool> = (0..n).map(|k| (k % 3 == 0) ^ g.chance(0.1)).collect();
        let x = Arc::new(mat(&rows));
        let seed = r.below(1000);
        let default_params = i % 2 == 0;
        let desc = format!(
            "{{\"estimator\": \"LogisticRegression/MultiLogisticRegression/Svm(classification)/Ftrl\", \"data\": \"blobs(Sm64::new({}), n={}, p={})\", \"classes\": {:?}, \"ftrl_rng\": {}}}",
            dseed, n, p, labs, jstr(&if default_params { "default parameter set".to_string() } else { format!("Xoshiro256Plus::seed_from_u64({})", seed) })
        );
        let f: Run = Box::new(move || {
            let mut out = vec![];
            let dsb = Dataset::new((*x).clone(), Array1::from(yb.clone()));
            let ds3 = Dataset::new((*x).clone(), Array1::from(y3.clone()));
            let m = LogisticRegression::<f64>::default().max_iterations(80).fit(&dsb).map_err(es)?;
            out.push(c("logistic", format!("{}|{:?}", jcanon(&m), m.predict(&*x).to_vec())));
            let m = MultiLogisticRegression::<f64>::default().max_iterations(60).fit(&ds3).map_err(es)?;
            out.push(c("multilogistic", format!("{}|{}", jcanon(&m), us(m.predict(&*x).iter()))));
            let m = Svm::<f64, bool>::params().pos_neg_weights(1.0, 1.0).gaussian_kernel(30.0).fit(&dsb).map_err(es)?;
            out.push(c("svc", format!("{:?}|{:?}", m, m.predict(&*x).to_vec())));
            let half = x.nrows() / 2;
            let b1 = Dataset::new(x.slice(ndarray::s![..half, ..]).to_owned(), Array1::from(yb[..half].to_vec()));
            let b2 = Dataset::new(x.slice(ndarray::s![half.., ..]).to_owned(), Array1::from(yb[half..].to_vec()));
            let m = if default_params {
                let p = Ftrl::<f64>::params().alpha(0.1);
                let m = p.fit_with(None, &b1).map_err(es)?;
                p.fit_with(Some(m), &b2).map_err(es)?
            } else {
                let p = Ftrl::<f64>::params_with_rng(Xoshiro256Plus::seed_from_u64(seed)).alpha(0.1);
                let m = p.fit_with(None, &b1).map_err(es)?;
                p.fit_with(Some(m), &b2).map_err(es)?
            };
            out.push(c("ftrl", format!("{}|{}", jcanon(&m), m.predict(&*x).iter().map(|p| format!("{:08x}", (**p).to_bits())).collect::<Vec<_>>().join(","))));
            // non-default FTRL parameters, three batches, always an explicit generator
            part(&mut out, "ftrl_non_default", || {
                let p = Ftrl::<f64>::params_with_rng(Xoshiro256Plus::seed_from_u64(seed ^ 0x5a)).alpha(0.05).beta(0.5).l1_ratio(0.3).l2_ratio(0.7);
                let third = x.nrows() / 3;
                let mut m = None;
                for b in 0..3 {
                    let (lo, hi) = (b * third, if b == 2 { x.nrows() } else { (b + 1) * third });
                    let batch = Dataset::new(x.slice(ndarray::s![lo..hi, ..]).to_owned(), Array1::from(yb[lo..hi].to_vec()));
                    m = Some(p.fit_with(m, &batch).map_err(es)?);
                }
                let m = m.unwrap();
                Ok(format!("{}|{}", jcanon(&m), m.predict(&*x).iter().map(|p| format!("{:08x}", (**p).to_bits())).collect::<Vec<_>>().join(",")))
            });
            Ok(out)
        });
        v.push(Scn { fam: "classification", name: format!("classification/{}", i), tags: vec!["classification".into()], desc, nontrivial: true, f });
    }
}

fn decomposition_scenarios(r: &mut Sm64, thorough: bool, v: &mut Vec<Scn>) {
    use linfa_ica::fast_ica::{FastIca, GFunc};
    use linfa_reduction::random_projection::{GaussianRandomProjection, SparseRandomProjection};
    use linfa_reduction::{DiffusionMap, Pca};
    for i in 0..(if thorough { 16 } else { 6 }) {
        let (n, p) = (80 + r.below(200) as usize, 6 + r.below(6) as usize);
        let dseed = r.next();
        let rows = blobs(&mut Sm64::new(dseed), n, p, 3, 1.5);
        let x = Arc::new(mat(&rows));
        let seed = r.below(1000);
        let default_params = i % 2 == 0;
        let k = 1 + r.below(3) as usize;
        let whiten = r.chance(0.5);
        let k2 = 1 + r.below(p as u64 - 1) as usize;
        let td = 1 + r.below(p as u64 - 1) as usize;
        let desc = format!(
            "{{\"estimator\": \"Pca/GaussianRandomProjection/SparseRandomProjection/DiffusionMap/FastIca(random_state)\", \"data\": \"blobs(Sm64::new({}), n={}, p={})\", \"embedding_size\": {}, \"whiten\": {}, \"second_pca\": \"embedding_size {} with the other whitening\", \"projection_target_dim\": {}, \"projection_rng\": {}, \"ica_random_state\": {}}}",
            dseed, n, p, k, whiten, k2, td, jstr(&if default_params { "default parameter set".to_string() } else { format!("Xoshiro256Plus::seed_from_u64({})", seed) }), seed
        );
        let f: Run = Box::new(move || {
            let mut out = vec![];
            let ds = DatasetBase::from((*x).clone());
            part(&mut out, "pca", || {
                let m = Pca::params(k).whiten(whiten).fit(&ds).map_err(es)?;
                Ok(format!("{}|{}", jcanon(&m), a2(&m.predict(&*x))))
            });
            part(&mut out, "pca_other_whitening", || {
                let m = Pca::params(k2).whiten(!whiten).fit(&ds).map_err(es)?;
                Ok(format!("{}|{}|{}", jcanon(&m), a2(&m.predict(&*x)), a1(&m.explained_variance_ratio())))
            });
            if default_params {
                part(&mut out, "gaussian_projection", || Ok(a2(&GaussianRandomProjection::<f64>::params().target_dim(td).fit(&ds).map_err(es)?.transform(&*x))));
                part(&mut out, "sparse_projection", || Ok(a2(&SparseRandomProjection::<f64>::params().target_dim(td).fit(&ds).map_err(es)?.transform(&*x))));
            } else {
                part(&mut out, "gaussian_projection", || Ok(a2(&GaussianRandomProjection::<f64>::params_with_rng(Xoshiro256Plus::seed_from_u64(seed)).target_dim(td).fit(&ds).map_err(es)?.transform(&*x))));
                part(&mut out, "sparse_projection", || Ok(a2(&SparseRandomProjection::<f64>::params_with_rng(Xoshiro256Plus::seed_from_u64(seed)).target_dim(td).fit(&ds).map_err(es)?.transform(&*x))));
            }
            // the target dimension derived from eps (Johnson-Lindenstrauss bound, 83 for 30 samples and eps = 0.9) on a
            // wide matrix built from the data; Gaussian and sparse projection, explicit generators
            let (xn, xp) = (x.nrows(), x.ncols());
            let wide = Array2::from_shape_fn((30, 160), |(i, j)| x[[i % xn, j % xp]] * (1 + (i * j) % 7) as f64);
            let dw = DatasetBase::from(wide.clone());
            part(&mut out, "gaussian_projection_eps", || Ok(a2(&GaussianRandomProjection::<f64>::params_with_rng(Xoshiro256Plus::seed_from_u64(seed + 1)).eps(0.9).fit(&dw).map_err(es)?.transform(&wide))));
            part(&mut out, "sparse_projection_eps", || Ok(a2(&SparseRandomProjection::<f64>::params_with_rng(Xoshiro256Plus::seed_from_u64(seed + 2)).eps(0.9).fit(&dw).map_err(es)?.transform(&wide))));
            part(&mut out, "diffusion_map", || {
                let kernel = Kernel::<f64>::params().kind(KernelType::Sparse(6)).method(KernelMethod::Gaussian(3.0)).transform(x.view());
                let dm = DiffusionMap::<f64>::params(2).steps(1).transform(&kernel).map_err(es)?;
                Ok(format!("{}|{}", a2(dm.embedding()), a1(dm.eigvals())))
            });
            part(&mut out, "fast_ica", || {
                let xi = x.slice(ndarray::s![.., ..4]).to_owned();
                let ica = FastIca::<f64>::params().ncomponents(2).gfunc(GFunc::Logcosh(1.0)).max_iter(60).random_state(seed as usize).fit(&DatasetBase::from(xi.clone())).map_err(es)?;
                Ok(format!("{}|{}", jcanon(&ica), a2(&ica.predict(&xi))))
            });
            Ok(out)
        });
        v.push(Scn { fam: "decomposition", name: format!("decomposition/{}", i), tags: vec!["decomposition".into()], desc, nontrivial: true, f });
    }
}

// ---------------------------------------------------------------- text corpora
/// ASCII words of at least two word characters (shorter runs are dropped by the default tokeniser)
const TWORDS: [&str; 14] = ["aa", "bb", "cc", "dd", "ee", "ff", "gg", "hh", "ab", "ba", "zz", "a1", "b_2", "mm"];
const TSEPS: [&str; 7] = [" ", " ", ", ", " - ", ". ", "  ", " x "];

fn spell(r: &mut Sm64, w: &str) -> String {
    match r.below(5) { 0 => w.to_uppercase(), 1 => { let mut c = w.chars(); let f = c.next().unwrap(); f.to_uppercase().chain(c).collect() }, _ => w.to_string() }
}
fn join_tokens(r: &mut Sm64, toks: &[String]) -> String {
    let mut s = String::new();
    for (i, t) in toks.iter().enumerate() {
        if i > 0 { let sep: &str = *r.pick(&TSEPS[..]); s.push_str(sep); }
        s.push_str(t);
    }
    s
}
/// a corpus whose document frequencies come in groups of equal value, and a `max_features` value that falls
/// strictly inside such a group: the cut has to choose among words of equal document frequency
fn tie_corpus(r: &mut Sm64) -> (Vec<String>, usize) {
    let nd = 3 + r.below(4) as usize;
    let g = 2 + r.below(2) as usize;
    let w = (g * (2 + r.below(3) as usize)).min(TWORDS.len());
    let mut pool: Vec<&str> = TWORDS.to_vec();
    r.shuffle(&mut pool);
    let df = |i: usize| nd.saturating_sub(i / g).max(1);
    let mut docs = vec![];
    for j in 0..nd {
        let mut toks: Vec<String> = vec![];
        for (i, wd) in pool[..w].iter().enumerate() {
            if j < df(i) { for _ in 0..(1 + r.below(2)) { toks.push(spell(r, wd)); } }
        }
        r.shuffle(&mut toks);
        docs.push(join_tokens(r, &toks));
    }
    let grp = r.below((w / g) as u64) as usize;
    let cap = grp * g + 1 + r.below(g as u64 - 1) as usize;
    (docs, cap)
}
fn random_corpus(r: &mut Sm64) -> Vec<String> {
    let nw = 3 + r.below(8) as usize;
    let nd = 2 + r.below(6) as usize;
    (0..nd).map(|_| { let toks: Vec<String> = (0..(1 + r.below(8))).map(|_| { let w = TWORDS[r.below(nw as u64) as usize]; spell(r, w) }).collect(); join_tokens(r, &toks) }).collect()
}

fn preprocessing_scenarios(r: &mut Sm64, thorough: bool, v: &mut Vec<Scn>) {
    use linfa_preprocessing::linear_scaling::LinearScaler;
    use linfa_preprocessing::norm_scaling::NormScaler;
    use linfa_preprocessing::tf_idf_vectorization::TfIdfVectorizer;
    use linfa_preprocessing::whitening::Whitener;
    use linfa_preprocessing::CountVectorizer;
    for i in 0..(if thorough { 10 } else { 4 }) {
        let (n, p) = (40 + r.below(100) as usize, 2 + r.below(4) as usize);
        let dseed = r.next();
        let x = Arc::new(mat(&blobs(&mut Sm64::new(dseed), n, p, 2, 1.5)));
        let desc = format!("{{\"estimator\": \"LinearScaler(standard,min_max,max_abs)/NormScaler(l1,l2,max)/Whitener(pca,zca,cholesky)\", \"data\": \"blobs(Sm64::new({}), n={}, p={})\"}}", dseed, n, p);
        let f: Run = Box::new(move || {
            let mut out = vec![];
            let ds = DatasetBase::from((*x).clone());
            for (nm, s) in [("standard", LinearScaler::<f64>::standard()), ("min_max", LinearScaler::<f64>::min_max()), ("max_abs", LinearScaler::<f64>::max_abs())] {
                let f = s.fit(&ds).map_err(es)?;
                out.push(c(&format!("scaler_{}", nm), format!("{}|{}", jcanon(&f), a2(&f.transform((*x).clone())))));
            }
            for (nm, s) in [("l1", NormScaler::l1()), ("l2", NormScaler::l2()), ("max", NormScaler::max())] {
                out.push(c(&format!("norm_{}", nm), a2(&s.transform((*x).clone()))));
            }
            for (nm, w) in [("pca", Whitener::pca()), ("zca", Whitener::zca()), ("cholesky", Whitener::cholesky())] {
                let f = w.fit(&ds).map_err(es)?;
                out.push(c(&format!("whitener_{}", nm), format!("{}|{}", jcanon(&f), a2(&f.transform((*x).clone())))));
            }
            Ok(out)
        });
        v.push(Scn { fam: "preprocessing", name: format!("preprocessing/{}", i), tags: vec!["preprocessing".into()], desc, nontrivial: true, f });
    }
    // text: equal-frequency words, vocabulary compared as word -> column content
    let words = ["alpha", "beta", "gamma", "delta", "eps", "zeta", "eta", "theta", "iota", "kappa", "la", "mu"];
    for i in 0..(if thorough { 30 } else { 10 }) {
        let nd = 4 + r.below(8) as usize;
        let docs: Vec<String> = (0..nd).map(|_| (0..(3 + r.below(9))).map(|_| r.pick(&words).to_string()).collect::<Vec<_>>().join(" ")).collect();
        let maxf = if i % 2 == 1 { Some(3 + r.below(4) as usize) } else { None };
        let ngram = 1 + (i % 2);
        let desc = format!("{{\"estimator\": \"CountVectorizer/TfIdfVectorizer\", \"documents\": {:?}, \"max_features\": {}, \"n_gram_range\": [1, {}]}}", docs, jopt(&maxf), ngram);
        let f: Run = Box::new(move || {
            let da = Array1::from(docs.clone());
            let cv = CountVectorizer::params().n_gram_range(1, ngram).max_features(maxf).fit(&da).map_err(es)?;
            let m = cv.transform(&da).map_err(es)?.to_dense();
            let mut by_word: BTreeMap<String, Vec<usize>> = BTreeMap::new();
            for (j, w) in cv.vocabulary().iter().enumerate() { by_word.insert(w.clone(), m.column(j).to_vec()); }
            let tv = TfIdfVectorizer::default().n_gram_range(1, ngram).fit(&da).map_err(es)?;
            let tm = tv.transform(&da).map_err(es)?.to_dense();
            let mut tby: BTreeMap<String, String> = BTreeMap::new();
            for (j, w) in tv.vocabulary().iter().enumerate() { tby.insert(w.clone(), bits(tm.column(j).iter())); }
            Ok(vec![c("count_vectorizer", format!("{:?}", by_word)), c("tfidf", format!("{:?}", tby))])
        });
        v.push(Scn { fam: "text", name: format!("text/{}", i), tags: vec!["text".into()], desc, nontrivial: true, f });
    }
    // max_features set and a document-frequency tie straddling the cut, for the count and the tf-idf vectoriser
    for i in 0..(if thorough { 40 } else { 14 }) {
        let (docs, cap) = tie_corpus(r);
        let ngram = if i % 4 == 3 { 2 } else { 1 };
        let extra = random_corpus(r);
        let desc = format!("{{\"estimator\": \"CountVectorizer/TfIdfVectorizer\", \"documents\": {:?}, \"max_features\": {}, \"n_gram_range\": [1, {}], \"also_transformed\": {:?}}}", docs, cap, ngram, extra);
        let f: Run = Box::new(move || {
            let da = Array1::from(docs.clone());
            let mut te = docs.clone();
            te.extend(extra.iter().cloned());
            let ta = Array1::from(te);
            let mut out = vec![];
            part(&mut out, "count_vectorizer", || {
                let cv = CountVectorizer::params().n_gram_range(1, ngram).max_features(Some(cap)).fit(&da).map_err(es)?;
                let m = cv.transform(&ta).map_err(es)?.to_dense();
                let mut by_word: BTreeMap<String, Vec<usize>> = BTreeMap::new();
                for (j, w) in cv.vocabulary().iter().enumerate() { by_word.insert(w.clone(), m.column(j).to_vec()); }
                Ok(format!("{}|{:?}", cv.nentries(), by_word))
            });
            part(&mut out, "tfidf", || {
                let tv = TfIdfVectorizer::default().n_gram_range(1, ngram).max_features(Some(cap)).fit(&da).map_err(es)?;
                let tm = tv.transform(&ta).map_err(es)?.to_dense();
                let mut tby: BTreeMap<String, String> = BTreeMap::new();
                for (j, w) in tv.vocabulary().iter().enumerate() { tby.insert(w.clone(), bits(tm.column(j).iter())); }
                Ok(format!("{}|{:?}", tv.nentries(), tby))
            });
            Ok(out)
        });
        v.push(Scn { fam: "text", name: format!("text/tie/{}", i), tags: vec!["text".into(), "max_features".into(), "df_tie_straddles_cut".into()], desc, nontrivial: true, f });
    }
}

fn dataset_scenarios(r: &mut Sm64, thorough: bool, v: &mut Vec<Scn>) {
    for i in 0..(if thorough { 30 } else { 10 }) {
        let n = 30 + r.below(60) as usize;
        let ncls = 3 + r.below(4) as usize;
        let labs = distinct_labels(r, ncls);
        let rows = if i % 2 == 0 { lattice(r, n, 2, -3, 3) } else { blobs(r, n, 2, ncls, 1.0) };
        let y: Vec<usize> = (0..n).map(|_| *r.pick(&labs)).collect();
        let yp: Vec<usize> = y.iter().map(|l| if r.chance(0.3) { *r.pick(&labs) } else { *l }).collect();
        let w: Vec<f32> = (0..n).map(|_| *r.pick(&[0.1f32, 0.2, 0.3, 1.0])).collect();
        let seed = r.below(1000);
        let desc = format!("{{\"estimator\": \"dataset operations and metrics\", \"classes\": {:?}, \"X\": {:?}, \"y\": {:?}, \"y_pred\": {:?}, \"weights\": {:?}, \"rng_seed\": {}}}", labs, rows, y, yp, w, seed);
        let x = mat(&rows);
        let f: Run = Box::new(move || {
            let ds = Dataset::new(x.clone(), Array1::from(y.clone())).with_weights(Array1::from(w.clone()));
            let mut out = vec![];
            let mut rng = Xoshiro256Plus::seed_from_u64(seed);
            let sh = ds.shuffle(&mut rng);
            out.push(c("shuffle", format!("{}|{}", a2(sh.records()), us(sh.targets().iter()))));
            let bs = ds.bootstrap_samples(n, &mut rng).next().unwrap();
            out.push(c("bootstrap", format!("{}|{}", a2(bs.records()), us(bs.targets().iter()))));
            // the seeded sampling helpers: consecutive draws of one generator, sample + feature sub-sampling, SmallRng
            let mut rng2 = Xoshiro256Plus::seed_from_u64(seed + 7);
            let three: Vec<String> = ds.bootstrap_samples(n / 2 + 1, &mut rng2).take(3).map(|b| format!("{}|{}", a2(b.records()), us(b.targets().iter()))).collect();
            out.push(c("bootstrap_samples_x3", three.join("/")));
            let bf = ds.bootstrap_features(3, &mut rng2).next().unwrap();
            out.push(c("bootstrap_features", format!("{}|{}", a2(bf.records()), us(bf.targets().iter()))));
            let bb = ds.bootstrap((n / 3 + 1, 2), &mut rng2).nth(1).unwrap();
            out.push(c("bootstrap_both", format!("{}|{}", a2(bb.records()), us(bb.targets().iter()))));
            let mut small = rand::rngs::SmallRng::seed_from_u64(seed);
            let sh2 = ds.shuffle(&mut small).shuffle(&mut small);
            out.push(c("shuffle_twice_smallrng", format!("{}|{}", a2(sh2.records()), us(sh2.targets().iter()))));
            let fr: BTreeMap<usize, u32> = ds.label_frequencies().into_iter().map(|(k, v)| (k, v.to_bits())).collect();
            out.push(c("label_frequencies", format!("{:?}", fr)));
            let mut l = ds.labels();
            l.sort_unstable();
            out.push(c("labels_sorted", us(l.iter())));
            let cm = Array1::from(yp.clone()).confusion_matrix(&ds).map_err(es)?;
            out.push(c("confusion_matrix", format!("{:?}|{:08x}|{:08x}|{:08x}|{:08x}", cm, cm.accuracy().to_bits(), cm.precision().to_bits(), cm.recall().to_bits(), cm.mcc().to_bits())));
            let sil: f64 = ds.silhouette_score().map_err(es)?;
            out.push(c("silhouette", hb(sil)));
            let mut ova: Vec<(usize, String)> = ds.one_vs_all().map_err(es)?.into_iter().map(|(l, d)| (l, format!("{:?}", d.targets().as_targets().to_vec()))).collect();
            ova.sort();
            out.push(c("one_vs_all", format!("{:?}", ova)));
            Ok(out)
        });
        v.push(Scn { fam: "dataset", name: format!("dataset/{}", i), tags: vec!["dataset".into()], desc, nontrivial: true, f });
    }
}

fn scenarios(seed: u64, thorough: bool) -> (Vec<Scn>, Vec<(Array2<f64>, Array1<usize>, Option<Array1<f32>>, String)>, Vec<NbObs>, Vec<HierObs>) {
    let mut r = Sm64::new(seed);
    let mut v = vec![];
    let (mut modal, mut nb, mut hier) = (vec![], vec![], vec![]);
    tree_scenarios(&mut r.fork(), if thorough { 1000 } else { 150 }, &mut v, &mut modal);
    nb_scenarios(&mut r.fork(), if thorough { 600 } else { 90 }, &mut v, &mut nb);
    hier_scenarios(&mut r.fork(), if thorough { 300 } else { 50 }, &mut v, &mut hier);
    kmeans_scenarios(&mut r.fork(), thorough, &mut v);
    gmm_scenarios(&mut r.fork(), thorough, &mut v);
    density_scenarios(&mut r.fork(), thorough, &mut v);
    regression_scenarios(&mut r.fork(), thorough, &mut v);
    classification_scenarios(&mut r.fork(), thorough, &mut v);
    decomposition_scenarios(&mut r.fork(), thorough, &mut v);
    preprocessing_scenarios(&mut r.fork(), thorough, &mut v);
    dataset_scenarios(&mut r.fork(), thorough, &mut v);
    (v, modal, nb, hier)
}

// ---------------------------------------------------------------- running and comparing
fn run_one(s: &Scn, pool: Option<&rayon::ThreadPool>) -> Result<Comps, String> {
    let g = || match guarded(std::panic::AssertUnwindSafe(|| (s.f)())) {
        Ok(r) => r,
        Err(p) => Err(format!("PANIC: {}", p)),
    };
    match pool {
        Some(p) => p.install(g),
        None => g(),
    }
}

struct Obs { env: String, same_process: bool, res: Result<Vec<(String, u64, String)>, String> }

fn digest(r: Result<Comps, String>, keep_text: bool) -> Result<Vec<(String, u64, String)>, String> {
    r.map(|cs| cs.into_iter().map(|(k, t)| { let h = fnv(t.as_bytes()); (k, h, if keep_text { t } else { String::new() }) }).collect())
}

fn first_diff(a: &str, b: &str) -> String {
    if a.is_empty() || b.is_empty() { return String::new(); }
    let (ab, bb) = (a.as_bytes(), b.as_bytes());
    let mut i = 0;
    while i < ab.len() && i < bb.len() && ab[i] == bb[i] { i += 1; }
    let lo = i.saturating_sub(40);
    let cut = |s: &str| { let hi = (i + 60).min(s.len()); s.get(lo..hi).unwrap_or("").to_string() };
    format!(" first difference at offset {}: ...{}... vs ...{}...", i, cut(a), cut(b))
}

/// -> (oracle code, what) when the observations of one scenario disagree
fn compare(obs: &[Obs]) -> Option<(u64, String)> {
    let base = &obs[0];
    let mut code = 0u64;
    let mut what = String::new();
    for o in &obs[1..] {
        let bit = if o.same_process && base.same_process && o.env == base.env { 1 } else { 2 };
        match (&base.res, &o.res) {
            (Ok(a), Ok(b)) => {
                for (k, h, t) in a {
                    match b.iter().find(|x| &x.0 == k) {
                        Some((_, h2, t2)) if h2 == h => { let _ = t2; }
                        Some((_, _, t2)) => {
                            if code & bit == 0 { what.push_str(&format!("component '{}' differs between [{}] and [{}];{} ", k, base.env, o.env, first_diff(t, t2))); }
                            code |= bit;
                        }
                        None => { code |= bit; what.push_str(&format!("component '{}' missing in [{}]; ", k, o.env)); }
                    }
                }
            }
            (Err(a), Err(b)) => {
                if a != b { code |= 16; what.push_str(&format!("fails differently: [{}] {} / [{}] {}; ", base.env, a, o.env, b)); }
            }
            (Ok(_), Err(e)) | (Err(e), Ok(_)) => {
                if code & 16 == 0 { what.push_str(&format!("succeeds in one of [{}] / [{}] and fails in the other: {}; ", base.env, o.env, e)); }
                code |= 16;
            }
        }
    }
    if code == 0 { None } else { Some((code, what)) }
}

// ---------------------------------------------------------------- the spying distance (observes the schedule)
#[derive(Clone, Debug)]
struct SpyL2 {
    log: Arc<Mutex<Vec<(usize, usize)>>>,
    base: Arc<AtomicUsize>,
    bytes: Arc<AtomicUsize>,
    stride: Arc<AtomicUsize>,
}
impl SpyL2 {
    fn new() -> SpyL2 {
        SpyL2 { log: Arc::new(Mutex::new(vec![])), base: Arc::new(AtomicUsize::new(0)), bytes: Arc::new(AtomicUsize::new(0)), stride: Arc::new(AtomicUsize::new(1)) }
    }
    fn watch(&self, a: &Array2<f64>) {
        self.base.store(a.as_ptr() as usize, Ordering::SeqCst);
        self.bytes.store(a.len() * 8, Ordering::SeqCst);
        self.stride.store(a.ncols() * 8, Ordering::SeqCst);
        self.log.lock().unwrap().clear();
    }
    fn take(&self) -> Vec<(usize, usize)> {
        std::mem::take(&mut *self.log.lock().unwrap())
    }
}
impl Distance<f64> for SpyL2 {
    fn distance<D: Dimension>(&self, a: ArrayView<f64, D>, b: ArrayView<f64, D>) -> f64 {
        a.l2_dist(&b).unwrap()
    }
    fn rdistance<D: Dimension>(&self, a: ArrayView<f64, D>, b: ArrayView<f64, D>) -> f64 {
        let p = b.as_ptr() as usize;
        let base = self.base.load(Ordering::Relaxed);
        if p >= base && p < base + self.bytes.load(Ordering::Relaxed) {
            let row = (p - base) / self.stride.load(Ordering::Relaxed);
            let k = {
                let mut l = self.log.lock().unwrap();
                l.push((rayon::current_thread_index().unwrap_or(usize::MAX), row));
                l.len()
            };
            // give the other workers of the pool time to steal: without it a small loop is finished by one thread
            if k % 4 == 0 { std::thread::sleep(std::time::Duration::from_micros(40)); }
        }
        a.sq_l2_dist(&b).unwrap()
    }
    fn rdist_to_dist(&self, rdist: f64) -> f64 {
        rdist.sqrt()
    }
    fn dist_to_rdist(&self, dist: f64) -> f64 {
        dist.powi(2)
    }
}
/// the order in which the tasks (rows) were started, per phase of `calls` distance evaluations per row
fn phases(log: &[(usize, usize)], n: usize, calls: usize) -> (Vec<Vec<usize>>, usize) {
    let mut out = vec![];
    let mut threads = BTreeSet::new();
    for ch in log.chunks(n * calls) {
        let mut seen = vec![false; n];
        let mut order = vec![];
        for (t, row) in ch {
            threads.insert(*t);
            if *row < n && !seen[*row] { seen[*row] = true; order.push(*row); }
        }
        out.push(order);
    }
    (out, threads.len())
}

// ---------------------------------------------------------------- main
// ---------------------------------------------------------------- history dimension (round 5)
// State that survives INSIDE an object between two calls (a compiled regex cached in a parameter object, a buffer
// read before it is written, a generator that is advanced instead of cloned) breaks "same parameters => same
// result" without showing in fits of freshly built objects.  Per estimator, bit for bit:
//   (a) fresh parameter object P(S, seed)                                   -> `fresh`
//   (b) object built with other settings S', fitted once on other data, re-configured to S (same seed) through
//       the documented setters, fitted                                      -> `reconf`  must equal `fresh`
//   (c) one object fitted twice in a row on the same data (`&self`)          -> `first`, `second` must equal `fresh`
//   (d) model 1 applied to batch B1 and then to B2, model 2 applied to B2 only -> `b2_seen` must equal `b2_unseen`
// Specification: coq/C20/PropertiesR5.v (configure_then_fit_ignores_history, refit_same_object_same_model and the
// refuted converses); the digests also go to Coq as a CHist case (hist_functional, certified per run).
struct HistObs { fresh: String, other: String, reconf: String, first: String, second: String, b1: String, b2_seen: String, b2_unseen: String }

fn hrun<G: FnOnce() -> Result<String, String>>(f: G) -> String {
    match guarded(std::panic::AssertUnwindSafe(f)) {
        Ok(Ok(t)) => t,
        Ok(Err(e)) => format!("ERROR: {}", e),
        Err(p) => format!("PANIC: {}", p),
    }
}

macro_rules! hist_obs {
    (fresh: $fresh:expr, other: $other:expr, reconf: |$p:ident| $reconf:expr, fit: |$q:ident, $d:ident| $fit:expr,
     data: $ds:expr, other_data: $ods:expr, digest: |$m:ident| $dig:expr, apply: |$a:ident, $b:ident| $app:expr, b1: $b1:expr, b2: $b2:expr) => {{
        let fresh = hrun(|| { let $q = $fresh; let $d = $ds; let mm = ($fit).map_err(es)?; let $m = &mm; Ok($dig) });
        let mut other = String::from("<not run>");
        let reconf = hrun(|| {
            let $p = $other;
            other = hrun(|| { let $q = &$p; let $d = $ods; let mm = ($fit).map_err(es)?; let $m = &mm; Ok($dig) });
            let $q = $reconf;
            let $d = $ds;
            let mm = ($fit).map_err(es)?;
            let $m = &mm;
            Ok($dig)
        });
        let (mut first, mut second, mut b1o, mut b2s, mut b2u) = (String::new(), String::new(), String::new(), String::new(), String::new());
        let r = hrun(|| {
            let $q = $fresh;
            let $d = $ds;
            let m1 = ($fit).map_err(es)?;
            let m2 = ($fit).map_err(es)?;
            { let $m = &m1; first = $dig; }
            { let $m = &m2; second = $dig; }
            { let $a = &m1; let $b = $b1; b1o = $app; }
            { let $a = &m1; let $b = $b2; b2s = $app; }
            { let $a = &m2; let $b = $b2; b2u = $app; }
            Ok(String::new())
        });
        if !r.is_empty() {
            for t in [&mut first, &mut second, &mut b1o, &mut b2s, &mut b2u] { if t.is_empty() { *t = r.clone(); } }
        }
        HistObs { fresh, other, reconf, first, second, b1: b1o, b2_seen: b2s, b2_unseen: b2u }
    }};
}

fn hist_verdict(out: &mut Out, idx: u64, est: &str, desc: &str, o: &HistObs) {
    let (rid, cid) = (300_000 + idx, 300_500 + idx);
    let tag = format!("history_{}", est);
    if out.wanted(rid) {
        out.bump(&tag);
        let failed = |t: &str| t.starts_with("ERROR: ") || t.starts_with("PANIC: ");
        if failed(&o.fresh) {
            out.bump("history_fresh_fit_failed");
            eprintln!("note: history case {} ({}): the fit of the fresh object fails (compared like any other result): {}", rid, est, &o.fresh[..o.fresh.len().min(200)]);
        }
        if failed(&o.other) { out.bump("history_other_settings_fit_failed"); }
        let mut diffs: Vec<String> = vec![];
        for (kind, want, got) in [
            ("reconfigured", &o.fresh, &o.reconf), ("first_of_two_fits", &o.fresh, &o.first), ("second_fit_same_object", &o.fresh, &o.second),
            ("batch2_after_batch1", &o.b2_unseen, &o.b2_seen),
        ] {
            out.bump(&format!("history_compared_{}", kind));
            if want != got { diffs.push(format!("{}:{}", kind, first_diff(want, got))); }
        }
        if o.other != o.fresh { out.bump("history_other_settings_give_other_result"); }
        if o.b1 != o.b2_seen { out.bump("history_batches_give_different_outputs"); }
        out.rust_eval(desc, if o.other != o.fresh && !failed(&o.fresh) { Some(fnv(desc.as_bytes())) } else { None });
        if !diffs.is_empty() {
            out.rust_fail(rid, 32, &["history", &tag], &format!("{}: result depends on the history of the object (fresh object / model that never saw the first batch is the reference); {}", est, diffs.join("; ")), desc);
        }
    }
    // the same observations for the Coq checker: settings ids 0 = S, 1 = S', 100 = "the model fitted from S";
    // data ids 0 = data, 1 = other data, 10 / 11 = batches B1 / B2
    let g = |t: &String| cn(fnv(t.as_bytes()));
    let coq = format!(
        "(CHist {} [({}, [HFit {} {}]); ({}, [HFit {} {}; HSet {}; HFit {} {}]); ({}, [HFit {} {}; HFit {} {}]); ({}, [HFit {} {}; HFit {} {}]); ({}, [HFit {} {}])])",
        cn(cid), cn(0), cn(0), g(&o.fresh), cn(1), cn(1), g(&o.other), cn(0), cn(0), g(&o.reconf), cn(0), cn(0), g(&o.first), cn(0), g(&o.second),
        cn(100), cn(10), g(&o.b1), cn(11), g(&o.b2_seen), cn(100), cn(11), g(&o.b2_unseen)
    );
    out.case(cid, &coq, &["history", "coq_history", &tag], desc, if o.other != o.fresh { Some(fnv(desc.as_bytes()) ^ 0x51) } else { None });
}

fn history_checks(out: &mut Out, seed: u64, thorough: bool) {
    use linfa_bayes::{GaussianNb, MultinomialNb};
    use linfa_elasticnet::ElasticNet;
    use linfa_ftrl::Ftrl;
    use linfa_logistic::{LogisticRegression, MultiLogisticRegression};
    use linfa_preprocessing::linear_scaling::{LinearScaler, ScalingMethod};
    use linfa_preprocessing::tf_idf_vectorization::TfIdfVectorizer;
    use linfa_preprocessing::whitening::{Whitener, WhiteningMethod};
    use linfa_preprocessing::{CountVectorizer, Tokenizer};
    use linfa_reduction::random_projection::{GaussianRandomProjection, SparseRandomProjection};
    use linfa_reduction::Pca;
    use linfa_svm::Svm;
    use linfa_trees::{DecisionTree, SplitQuality};
    let mut r = Sm64::new(seed ^ 0x4157_0215);
    let rounds = if thorough { 8 } else { 2 };
    let mut idx = 0u64;
    let ftrl_pred = |m: &Ftrl<f64>, b: &Array2<f64>| m.predict(b).iter().map(|p| format!("{:08x}", (**p).to_bits())).collect::<Vec<_>>().join(",");
    for round in 0..rounds {
        let (n, n2, p) = (90 + r.below(120) as usize, 60 + r.below(80) as usize, 3 + r.below(2) as usize);
        let (dseed, oseed) = (r.next(), r.next());
        let x = mat(&blobs(&mut Sm64::new(dseed), n, p, 3, 1.5));
        let xo = mat(&blobs(&mut Sm64::new(oseed), n2, p, 4, 2.5));
        let mut g = Sm64::new(dseed ^ 1);
        let labs = distinct_labels(&mut g, 3);
        let y3 = Array1::from((0..n).map(|k| if g.chance(0.15) { *g.pick(&labs) } else { labs[k % 3] }).collect::<Vec<usize>>());
        let y3o = Array1::from((0..n2).map(|k| labs[(k * 7 + k / 3) % 3]).collect::<Vec<usize>>());
        let yb = Array1::from((0..n).map(|k| (k % 3 == 0) ^ g.chance(0.1)).collect::<Vec<bool>>());
        let ybo = Array1::from((0..n2).map(|k| k % 2 == 0).collect::<Vec<bool>>());
        let yr = Array1::from((0..n).map(|k| 0.3 * x[[k, 0]] - 0.2 * x[[k, 1]] + 0.1 * g.gauss()).collect::<Vec<f64>>());
        let yro = Array1::from((0..n2).map(|k| xo[[k, 1]] * 0.5 + 0.2 * g.gauss()).collect::<Vec<f64>>());
        let xc = x.mapv(|v| (v.abs() * 2.0).floor());
        let xco = xo.mapv(|v| (v.abs() * 3.0).floor());
        let ds = DatasetBase::from(x.clone());
        let dso = DatasetBase::from(xo.clone());
        let (ds3, ds3o) = (Dataset::new(x.clone(), y3.clone()), Dataset::new(xo.clone(), y3o.clone()));
        let (dsc, dsco) = (Dataset::new(xc.clone(), y3.clone()), Dataset::new(xco.clone(), y3o.clone()));
        let (dsb, dsbo) = (Dataset::new(x.clone(), yb.clone()), Dataset::new(xo.clone(), ybo.clone()));
        let (dsr, dsro) = (Dataset::new(x.clone(), yr.clone()), Dataset::new(xo.clone(), yro.clone()));
        let b1 = xo.slice(ndarray::s![..n2 / 2, ..]).to_owned();
        let b2 = x.slice(ndarray::s![..40, ..]).to_owned();
        let (b1c, b2c) = (b1.mapv(|v| (v.abs() * 2.0).floor()), b2.mapv(|v| (v.abs() * 2.0).floor()));
        let docs = Array1::from(random_corpus(&mut r).into_iter().chain(tie_corpus(&mut r).0).collect::<Vec<String>>());
        let docso = Array1::from(random_corpus(&mut r).into_iter().map(|d| d.to_uppercase()).collect::<Vec<String>>());
        let (tb1, tb2) = (Array1::from(random_corpus(&mut r)), Array1::from(random_corpus(&mut r)));
        let s = r.below(1000);
        let k = 2 + r.below(3) as usize;
        let base = format!("\"round\": {}, \"data\": \"blobs(Sm64::new({}), n={}, p={}, centres=3, spread=1.5)\", \"other_data\": \"blobs(Sm64::new({}), n={}, p={}, centres=4, spread=2.5)\", \"seed\": {}, \"sequence\": \"(a) fresh P(S,seed).fit(data); (b) P(S',seed').fit(other_data), setters to S (and seed), fit(data); (c) P(S,seed) fitted twice on data; (d) model 1 on batch B1 (other_data[..n/2]) then B2 (data[..40]), model 2 on B2 only\"", round, dseed, n, p, oseed, n2, p, s);
        let rng = |v: u64| Xoshiro256Plus::seed_from_u64(v);
        let mut emit = |out: &mut Out, est: &str, settings: &str, o: HistObs| {
            let desc = format!("{{\"case\": \"history\", \"estimator\": {}, \"settings\": {}, {}}}", jstr(est), jstr(settings), base);
            hist_verdict(out, idx, est, &desc, &o);
            idx += 1;
        };

        let o = hist_obs!(
            fresh: KMeans::params_with_rng(k, rng(s)).n_runs(2).max_n_iterations(30).tolerance(1e-4).init_method(KMeansInit::KMeansPlusPlus),
            other: KMeans::params_with_rng(k, rng(s)).n_runs(1).max_n_iterations(2).tolerance(1e-1).init_method(KMeansInit::Random),
            reconf: |p| p.n_runs(2).max_n_iterations(30).tolerance(1e-4).init_method(KMeansInit::KMeansPlusPlus),
            fit: |q, d| q.fit(d), data: &ds, other_data: &dso,
            digest: |m| format!("{:?}", kmeans_comps(m, &x)),
            apply: |m, b| format!("{}|{}", us(m.predict(b).iter()), a1(&m.transform(b))), b1: &b1, b2: &b2);
        emit(out, "kmeans", "S: k, n_runs 2, max_n_iterations 30, tolerance 1e-4, KMeansPlusPlus; S': n_runs 1, max_n_iterations 2, tolerance 1e-1, Random (the generator is fixed at construction and cloned per fit)", o);

        let o = hist_obs!(
            fresh: GaussianMixtureModel::params_with_rng(k, rng(s)).n_runs(2).max_n_iterations(40).tolerance(1e-4).reg_covariance(1e-5).init_method(GmmInitMethod::KMeans),
            other: GaussianMixtureModel::params_with_rng(k, rng(s + 17)).n_runs(1).max_n_iterations(3).tolerance(1e-1).reg_covariance(1e-2).init_method(GmmInitMethod::Random),
            reconf: |p| p.with_rng(rng(s)).n_runs(2).max_n_iterations(40).tolerance(1e-4).reg_covariance(1e-5).init_method(GmmInitMethod::KMeans),
            fit: |q, d| q.fit(d), data: &ds, other_data: &dso,
            digest: |m| format!("{}|{}", jcanon(m), us(m.predict(&x).iter())),
            apply: |m, b| us(m.predict(b).iter()), b1: &b1, b2: &b2);
        emit(out, "gmm", "S: n_runs 2, max_n_iterations 40, tolerance 1e-4, reg_covariance 1e-5, KMeans init, with_rng(seed); S': seed+17, n_runs 1, max_n_iterations 3, tolerance 1e-1, reg 1e-2, Random init", o);

        let wh = round % 2 == 0;
        let o = hist_obs!(
            fresh: Pca::params(2).whiten(wh), other: Pca::params(2).whiten(!wh), reconf: |p| p.whiten(wh),
            fit: |q, d| q.fit(d), data: &ds, other_data: &dso,
            digest: |m| format!("{}|{}", jcanon(m), a2(&m.predict(&x))),
            apply: |m, b| a2(&m.predict(b)), b1: &b1, b2: &b2);
        emit(out, "pca", "S: embedding 2, whiten w; S': whiten !w", o);

        let o = hist_obs!(
            fresh: DecisionTree::<f64, usize>::params().split_quality(SplitQuality::Gini).max_depth(Some(4)).min_weight_split(2.0).min_weight_leaf(1.0).min_impurity_decrease(1e-7),
            other: DecisionTree::<f64, usize>::params().split_quality(SplitQuality::Entropy).max_depth(Some(1)).min_weight_split(6.0).min_weight_leaf(3.0).min_impurity_decrease(1e-2),
            reconf: |p| p.split_quality(SplitQuality::Gini).max_depth(Some(4)).min_weight_split(2.0).min_weight_leaf(1.0).min_impurity_decrease(1e-7),
            fit: |q, d| q.fit(d), data: &ds3, other_data: &ds3o,
            digest: |m| format!("{}|{}|{}", jcanon(m), us(m.predict(&x).iter()), bits(m.feature_importance().iter())),
            apply: |m, b| us(m.predict(b).iter()), b1: &b1, b2: &b2);
        emit(out, "tree", "S: gini, max_depth 4, min_weight_split 2, min_weight_leaf 1, min_impurity_decrease 1e-7; S': entropy, depth 1, 6, 3, 1e-2", o);

        let o = hist_obs!(
            fresh: GaussianNb::<f64, usize>::params().var_smoothing(1e-9), other: GaussianNb::<f64, usize>::params().var_smoothing(0.3), reconf: |p| p.var_smoothing(1e-9),
            fit: |q, d| q.fit(d), data: &ds3, other_data: &ds3o,
            digest: |m| format!("{}|{}", jcanon(m), us(m.predict(&x).iter())),
            apply: |m, b| us(m.predict(b).iter()), b1: &b1, b2: &b2);
        emit(out, "gaussian_nb", "S: var_smoothing 1e-9; S': 0.3", o);
        {
            // incremental history: fit_with(A), [predict], fit_with(B), predict - the prediction in between must not matter
            let inc = |peek: bool, gaussian: bool| -> String {
                let (da, db) = if gaussian { (ds3.clone(), ds3o.clone()) } else { (dsc.clone(), dsco.clone()) };
                let (xq, pk) = (if gaussian { x.clone() } else { xc.clone() }, peek);
                match guarded(move || -> Result<String, String> {
                    let es = |e: linfa_bayes::NaiveBayesError| format!("{}", e);
                    if gaussian {
                        let pr = GaussianNb::<f64, usize>::params().var_smoothing(1e-9);
                        let m1 = pr.fit_with(None, &da).map_err(es)?;
                        if pk { if let Some(m) = &m1 { let _ = m.predict(&xq); } }
                        let m2 = pr.fit_with(m1, &db).map_err(es)?.ok_or_else(|| "no model".to_string())?;
                        Ok(us(m2.predict(&xq).iter()))
                    } else {
                        let pr = MultinomialNb::<f64, usize>::params().alpha(1.0);
                        let m1 = pr.fit_with(None, &da).map_err(es)?;
                        if pk { if let Some(m) = &m1 { let _ = m.predict(&xq); } }
                        let m2 = pr.fit_with(m1, &db).map_err(es)?.ok_or_else(|| "no model".to_string())?;
                        Ok(us(m2.predict(&xq).iter()))
                    }
                }) { Ok(Ok(t)) => t, Ok(Err(e)) => format!("ERROR: {}", e), Err(p) => format!("PANIC: {}", p) }
            };
            for (gaussian, est) in [(true, "gaussian_nb_incremental"), (false, "multinomial_nb_incremental")] {
                let (plain, peeked) = (inc(false, gaussian), inc(true, gaussian));
                let rid = 300_900 + (round as u64) * 2 + (gaussian as u64);
                if out.wanted(rid) {
                    let tag = format!("history_{}", est);
                    out.bump(&tag);
                    let desc = format!("{{\"estimator\": \"{}\", {}, \"sequence\": \"fit_with(None, data), [predict(data)], fit_with(Some(model), other_data), predict(data): with and without the prediction in between\"}}", est, base);
                    out.rust_eval(&desc, Some(fnv(desc.as_bytes())));
                    if plain != peeked {
                        out.rust_fail(rid, 32, &["history", &tag], &format!("{}: a prediction between two fit_with calls changes what the updated model predicts; {}", est, first_diff(&plain, &peeked)), &desc);
                    }
                }
            }
        }

        let o = hist_obs!(
            fresh: MultinomialNb::<f64, usize>::params().alpha(1.0), other: MultinomialNb::<f64, usize>::params().alpha(0.25), reconf: |p| p.alpha(1.0),
            fit: |q, d| q.fit(d), data: &dsc, other_data: &dsco,
            digest: |m| format!("{}|{}", jcanon(m), us(m.predict(&xc).iter())),
            apply: |m, b| us(m.predict(b).iter()), b1: &b1c, b2: &b2c);
        emit(out, "multinomial_nb", "S: alpha 1; S': alpha 0.25 (count data floor(2|x|))", o);

        let o = hist_obs!(
            fresh: Ftrl::<f64>::params_with_rng(rng(s)).alpha(0.1).beta(1.0).l1_ratio(0.3).l2_ratio(0.7),
            other: Ftrl::<f64>::params_with_rng(rng(s + 5)).alpha(0.5).beta(0.2).l1_ratio(0.9).l2_ratio(0.1),
            reconf: |p| p.rng(rng(s)).alpha(0.1).beta(1.0).l1_ratio(0.3).l2_ratio(0.7),
            fit: |q, d| q.fit_with(None, d), data: &dsb, other_data: &dsbo,
            digest: |m| format!("{}|{}", jcanon(m), ftrl_pred(m, &x)),
            apply: |m, b| ftrl_pred(m, b), b1: &b1, b2: &b2);
        emit(out, "ftrl", "S: rng(seed), alpha 0.1, beta 1, l1 0.3, l2 0.7; S': rng(seed+5), 0.5, 0.2, 0.9, 0.1; fit_with(None, data)", o);

        let cv_dig = |cv: &CountVectorizer, t: &Array1<String>| -> String {
            match cv.transform(t) {
                Ok(sm) => {
                    let m = sm.to_dense();
                    let mut by_word: BTreeMap<String, Vec<usize>> = BTreeMap::new();
                    for (j, w) in cv.vocabulary().iter().enumerate() { by_word.insert(w.clone(), m.column(j).to_vec()); }
                    format!("{}|{:?}", cv.nentries(), by_word)
                }
                Err(e) => format!("ERROR: {}", e),
            }
        };
        let o = hist_obs!(
            fresh: CountVectorizer::params().tokenizer(Tokenizer::Regex(r"\b\w\w+\b".to_string())).n_gram_range(1, 2).max_features(Some(6)).convert_to_lowercase(true).normalize(true).document_frequency(0.0, 1.0).stopwords(&["aa", "zz"]),
            other: CountVectorizer::params().tokenizer(Tokenizer::Regex(r"[a-z]".to_string())).n_gram_range(2, 3).max_features(None).convert_to_lowercase(false).normalize(false).document_frequency(0.1, 0.9).stopwords(&["bb"]),
            reconf: |p| p.tokenizer(Tokenizer::Regex(r"\b\w\w+\b".to_string())).n_gram_range(1, 2).max_features(Some(6)).convert_to_lowercase(true).normalize(true).document_frequency(0.0, 1.0).stopwords(&["aa", "zz"]),
            fit: |q, d| q.fit(d), data: &docs, other_data: &docso,
            digest: |m| cv_dig(m, &docs),
            apply: |m, b| cv_dig(m, b), b1: &tb1, b2: &tb2);
        emit(out, "count_vectorizer", "S: tokenizer regex \\b\\w\\w+\\b, n-grams 1..2, max_features 6, lower-casing, normalize, df [0,1], stop words aa zz; S': regex [a-z] (single letters), n-grams 2..3, no cap, no lower-casing, no normalize, df [0.1,0.9], stop word bb; other data = upper-cased corpus", o);

        let tv_dig = |tv: &linfa_preprocessing::tf_idf_vectorization::FittedTfIdfVectorizer, t: &Array1<String>| -> String {
            match tv.transform(t) {
                Ok(sm) => {
                    let tm = sm.to_dense();
                    let mut tby: BTreeMap<String, String> = BTreeMap::new();
                    for (j, w) in tv.vocabulary().iter().enumerate() { tby.insert(w.clone(), bits(tm.column(j).iter())); }
                    format!("{}|{:?}", tv.nentries(), tby)
                }
                Err(e) => format!("ERROR: {}", e),
            }
        };
        let o = hist_obs!(
            fresh: TfIdfVectorizer::default().tokenizer(Tokenizer::Regex(r"\b\w\w+\b".to_string())).n_gram_range(1, 2).max_features(Some(6)).convert_to_lowercase(true).document_frequency(0.0, 1.0),
            other: TfIdfVectorizer::default().tokenizer(Tokenizer::Regex(r"[a-z]".to_string())).n_gram_range(2, 3).max_features(None).convert_to_lowercase(false).document_frequency(0.1, 0.9),
            reconf: |p| p.tokenizer(Tokenizer::Regex(r"\b\w\w+\b".to_string())).n_gram_range(1, 2).max_features(Some(6)).convert_to_lowercase(true).document_frequency(0.0, 1.0),
            fit: |q, d| q.fit(d), data: &docs, other_data: &docso,
            digest: |m| tv_dig(m, &docs),
            apply: |m, b| tv_dig(m, b), b1: &tb1, b2: &tb2);
        emit(out, "tfidf", "S: tokenizer regex \\b\\w\\w+\\b, n-grams 1..2, max_features 6, lower-casing, df [0,1]; S': regex [a-z] (single letters), n-grams 2..3, no cap, no lower-casing, df [0.1,0.9]", o);

        let o = hist_obs!(
            fresh: LogisticRegression::<f64>::default().alpha(1.0).with_intercept(true).max_iterations(80).gradient_tolerance(1e-4),
            other: LogisticRegression::<f64>::default().alpha(0.01).with_intercept(false).max_iterations(3).gradient_tolerance(1e-1),
            reconf: |p| p.alpha(1.0).with_intercept(true).max_iterations(80).gradient_tolerance(1e-4),
            fit: |q, d| q.fit(d), data: &dsb, other_data: &dsbo,
            digest: |m| format!("{}|{:?}", jcanon(m), m.predict(&x).to_vec()),
            apply: |m, b| format!("{:?}", m.predict(b).to_vec()), b1: &b1, b2: &b2);
        emit(out, "logistic", "S: alpha 1, intercept, max_iterations 80, gradient_tolerance 1e-4; S': alpha 0.01, no intercept, 3 iterations, 1e-1", o);

        let o = hist_obs!(
            fresh: MultiLogisticRegression::<f64>::default().alpha(1.0).with_intercept(true).max_iterations(60).gradient_tolerance(1e-4),
            other: MultiLogisticRegression::<f64>::default().alpha(0.01).with_intercept(false).max_iterations(3).gradient_tolerance(1e-1),
            reconf: |p| p.alpha(1.0).with_intercept(true).max_iterations(60).gradient_tolerance(1e-4),
            fit: |q, d| q.fit(d), data: &ds3, other_data: &ds3o,
            digest: |m| format!("{}|{}", jcanon(m), us(m.predict(&x).iter())),
            apply: |m, b| us(m.predict(b).iter()), b1: &b1, b2: &b2);
        emit(out, "multilogistic", "S: alpha 1, intercept, max_iterations 60, gradient_tolerance 1e-4; S': alpha 0.01, no intercept, 3 iterations, 1e-1", o);

        let o = hist_obs!(
            fresh: Svm::<f64, bool>::params().pos_neg_weights(1.0, 1.0).gaussian_kernel(30.0).eps(1e-3).shrinking(false),
            other: Svm::<f64, bool>::params().nu_weight(0.4).linear_kernel().eps(1e-1).shrinking(true),
            reconf: |p| p.pos_neg_weights(1.0, 1.0).gaussian_kernel(30.0).eps(1e-3).shrinking(false),
            fit: |q, d| q.fit(d), data: &dsb, other_data: &dsbo,
            digest: |m| format!("{:?}|{:?}", m, m.predict(&x).to_vec()),
            apply: |m, b| format!("{:?}", m.predict(b).to_vec()), b1: &b1, b2: &b2);
        emit(out, "svc", "S: C (1,1), gaussian kernel 30, eps 1e-3, no shrinking; S': nu 0.4, linear kernel, eps 1e-1, shrinking", o);

        let o = hist_obs!(
            fresh: Svm::<f64, f64>::params().c_svr(1.0, Some(0.1)).gaussian_kernel(20.0).eps(1e-3),
            other: Svm::<f64, f64>::params().nu_svr(0.5, Some(2.0)).polynomial_kernel(1.0, 2.0).eps(1e-1),
            reconf: |p| p.c_svr(1.0, Some(0.1)).gaussian_kernel(20.0).eps(1e-3),
            fit: |q, d| q.fit(d), data: &dsr, other_data: &dsro,
            digest: |m| format!("{:?}|{}", m, a1(&m.predict(&x))),
            apply: |m, b| a1(&m.predict(b)), b1: &b1, b2: &b2);
        emit(out, "svr", "S: c_svr(1, 0.1), gaussian kernel 20, eps 1e-3; S': nu_svr(0.5, 2), polynomial kernel (1, 2), eps 1e-1", o);

        let o = hist_obs!(
            fresh: ElasticNet::<f64>::params().penalty(0.05).l1_ratio(0.5).with_intercept(true).tolerance(1e-5).max_iterations(500),
            other: ElasticNet::<f64>::params().penalty(1.5).l1_ratio(1.0).with_intercept(false).tolerance(1e-1).max_iterations(2),
            reconf: |p| p.penalty(0.05).l1_ratio(0.5).with_intercept(true).tolerance(1e-5).max_iterations(500),
            fit: |q, d| q.fit(d), data: &dsr, other_data: &dsro,
            digest: |m| format!("{}|{}", jcanon(m), a1(&m.predict(&x))),
            apply: |m, b| a1(&m.predict(b)), b1: &b1, b2: &b2);
        emit(out, "elasticnet", "S: penalty 0.05, l1_ratio 0.5, intercept, tolerance 1e-5, 500 iterations; S': 1.5, 1.0, no intercept, 1e-1, 2", o);

        let o = hist_obs!(
            fresh: LinearScaler::<f64>::standard(), other: LinearScaler::<f64>::min_max_range(-2.0, 5.0), reconf: |p| p.method(ScalingMethod::Standard(true, true)),
            fit: |q, d| q.fit(d), data: &ds, other_data: &dso,
            digest: |m| format!("{}|{}", jcanon(m), a2(&m.transform(x.clone()))),
            apply: |m, b| a2(&m.transform(b.clone())), b1: &b1, b2: &b2);
        emit(out, "linear_scaler", "S: Standard(true, true); S': MinMax(-2, 5)", o);

        let o = hist_obs!(
            fresh: Whitener::pca(), other: Whitener::cholesky(), reconf: |p| p.method(WhiteningMethod::Pca),
            fit: |q, d| q.fit(d), data: &ds, other_data: &dso,
            digest: |m| format!("{}|{}", jcanon(m), a2(&m.transform(x.clone()))),
            apply: |m, b| a2(&m.transform(b.clone())), b1: &b1, b2: &b2);
        emit(out, "whitener", "S: Pca; S': Cholesky", o);

        let td = 1 + r.below(p as u64 - 1) as usize;
        let o = hist_obs!(
            fresh: GaussianRandomProjection::<f64>::params_with_rng(rng(s)).target_dim(td),
            other: GaussianRandomProjection::<f64>::params_with_rng(rng(s + 3)).target_dim(td + 1),
            reconf: |p| p.with_rng(rng(s)).target_dim(td),
            fit: |q, d| q.fit(d), data: &ds, other_data: &dso,
            digest: |m| a2(&m.transform(&x)),
            apply: |m, b| a2(&m.transform(b)), b1: &b1, b2: &b2);
        emit(out, "gaussian_projection", "S: rng(seed), target_dim td; S': rng(seed+3), target_dim td+1", o);

        let o = hist_obs!(
            fresh: SparseRandomProjection::<f64>::params_with_rng(rng(s)).target_dim(td),
            other: SparseRandomProjection::<f64>::params_with_rng(rng(s + 3)).target_dim(td + 1),
            reconf: |p| p.with_rng(rng(s)).target_dim(td),
            fit: |q, d| q.fit(d), data: &ds, other_data: &dso,
            digest: |m| a2(&m.transform(&x)),
            apply: |m, b| a2(&m.transform(b)), b1: &b1, b2: &b2);
        emit(out, "sparse_projection", "S: rng(seed), target_dim td; S': rng(seed+3), target_dim td+1", o);
    }
}

fn main() {
    let args = parse_args();
    let thorough = args.tier == "thorough";
    let child = args.extra.iter().any(|a| a == "child");
    let (scns, modal, nbobs, hierobs) = scenarios(args.seed, thorough);
    if child {
        let stdout = std::io::stdout();
        let mut w = stdout.lock();
        for (id, s) in scns.iter().enumerate() {
            if args.only.map_or(false, |o| o != id as u64) { continue; }
            let t0 = std::time::Instant::now();
            let res = run_one(s, None);
            if std::env::var("C20_TIMING").is_ok() { eprintln!("{}\t{}\t{} ms", id, s.name, t0.elapsed().as_millis()); }
            match digest(res, false) {
                Ok(cs) => for (k, h, _) in cs { writeln!(w, "S\t{}\t{}\t{:016x}", id, k, h).unwrap(); },
                Err(e) => writeln!(w, "E\t{}\t{}", id, e.replace(['\t', '\n'], " ")).unwrap(),
            }
        }
        writeln!(w, "DONE").unwrap();
        return;
    }
    let mut out = Out::new(&args.out, args.shards, "C20.Corr", "case", args.only);
    let wanted_scn = |id: usize| args.only.map_or(true, |o| o == id as u64);
    let any_scn_wanted = args.only.map_or(true, |o| (o as usize) < scns.len());

    // fresh processes (fresh hash seeds, global pool sized by the environment), at most three at a time
    let child_threads: Vec<usize> = if thorough { (1..=16).collect() } else { vec![1, 2, 3, 5, 8, 16] };
    let exe = std::env::current_exe().unwrap();
    let spawn = |t: usize| {
        let mut cmd = std::process::Command::new(&exe);
        cmd.arg("child").arg("--seed").arg(args.seed.to_string()).arg("--tier").arg(&args.tier).arg("--out").arg(&args.out);
        if let Some(o) = args.only { cmd.arg("--only").arg(o.to_string()); }
        cmd.env("RAYON_NUM_THREADS", t.to_string()).stdout(std::process::Stdio::piped()).stderr(std::process::Stdio::null());
        (t, cmd.spawn().expect("cannot re-spawn the harness"))
    };
    let mut child_out: Vec<(usize, String, bool)> = vec![];
    let mut collect = |batch: Vec<(usize, std::process::Child)>| {
        for (t, ch) in batch {
            let o = ch.wait_with_output().expect("child failed");
            child_out.push((t, String::from_utf8_lossy(&o.stdout).to_string(), o.status.success()));
        }
    };
    let mut pending: Vec<(usize, std::process::Child)> = vec![];
    let mut todo = child_threads.clone();
    if any_scn_wanted { while pending.len() < 3 && !todo.is_empty() { pending.push(spawn(todo.remove(0))); } }

    // in-process repetitions: the global pool twice (fresh hash-map states), then pools of other sizes
    let pool_sizes: Vec<usize> = if thorough { vec![1, 2, 3, 5, 7, 11, 16] } else { vec![1, 2, 5, 16] };
    let pools: Vec<rayon::ThreadPool> = pool_sizes.iter().map(|t| rayon::ThreadPoolBuilder::new().num_threads(*t).build().unwrap()).collect();
    let mut all: Vec<Vec<Obs>> = scns.iter().map(|_| vec![]).collect();
    for rep in 0..(2 + pools.len()) {
        for (id, s) in scns.iter().enumerate() {
            if !wanted_scn(id) { continue; }
            let (env, pool) = if rep < 2 { ("in-process, global pool".to_string(), None) } else { (format!("in-process, pool of {} thread(s)", pool_sizes[rep - 2]), Some(&pools[rep - 2])) };
            all[id].push(Obs { env, same_process: true, res: digest(run_one(s, pool), true) });
        }
        if rep == 1 && any_scn_wanted {
            collect(std::mem::take(&mut pending));
            while pending.len() < 3 && !todo.is_empty() { pending.push(spawn(todo.remove(0))); }
        }
    }
    collect(std::mem::take(&mut pending));
    while !todo.is_empty() {
        while pending.len() < 3 && !todo.is_empty() { pending.push(spawn(todo.remove(0))); }
        collect(std::mem::take(&mut pending));
    }
    for (t, text, ok) in &child_out {
        if !*ok || !text.lines().any(|l| l == "DONE") {
            // the machinery, not the property: a child that was killed or crashed outside a guarded call
            eprintln!("child process with RAYON_NUM_THREADS={} did not finish (exit ok: {})", t, ok);
            std::process::exit(3);
        }
        let env = format!("fresh process, RAYON_NUM_THREADS={}", t);
        let mut per: BTreeMap<usize, Result<Vec<(String, u64, String)>, String>> = BTreeMap::new();
        for line in text.lines() {
            let p: Vec<&str> = line.split('\t').collect();
            if p.len() == 4 && p[0] == "S" {
                let id: usize = p[1].parse().unwrap();
                let e = per.entry(id).or_insert_with(|| Ok(vec![]));
                if let Ok(v) = e { v.push((p[2].to_string(), u64::from_str_radix(p[3], 16).unwrap(), String::new())); }
            } else if p.len() >= 3 && p[0] == "E" {
                per.insert(p[1].parse().unwrap(), Err(p[2..].join(" ")));
            }
        }
        for (id, _) in scns.iter().enumerate() {
            if !wanted_scn(id) { continue; }
            let res = per.remove(&id).unwrap_or_else(|| Err(format!("child process produced no result (exit ok: {})", ok)));
            all[id].push(Obs { env: env.clone(), same_process: false, res });
        }
    }
    // verdicts
    for (id, s) in scns.iter().enumerate() {
        if !wanted_scn(id) { continue; }
        let tagrefs: Vec<&str> = s.tags.iter().map(|t| t.as_str()).collect();
        out.bump(&format!("family_{}", s.fam));
        out.bump_by("runs_compared", all[id].len() as u64);
        let key = if s.nontrivial { Some(fnv(s.desc.as_bytes())) } else { None };
        match &all[id][0].res {
            Err(e) if all[id].iter().all(|o| o.res.as_ref().err() == Some(e)) => {
                // the same failure every time: nothing to compare (not a reproducibility question)
                out.bump("scenario_failed_identically");
                eprintln!("note: scenario {} fails identically in every run: {}", s.name, e);
                out.rust_eval(&s.desc, None);
                continue;
            }
            _ => {}
        }
        out.rust_eval(&s.desc, key);
        if let Ok(cs) = &all[id][0].res {
            for (k, _, t) in cs {
                if t.starts_with("PANIC: ") || t.starts_with("ERROR: ") {
                    out.bump("component_failed");
                    if t.starts_with("PANIC: ") { eprintln!("note: component '{}' of scenario {} ends in a panic (compared like any other result): {}", k, s.name, t); }
                }
            }
        }
        if let Some((code, what)) = compare(&all[id]) {
            out.rust_fail(id as u64, code, &tagrefs, &format!("{}: {}", s.name, what), &s.desc);
        }
    }

    // ------------------------------------------------------------ Coq cases
    let mut id = 100_000u64;
    let mut r = Sm64::new(args.seed ^ 0xC20);
    let reps = 6;
    // (1) modal class of a tree leaf
    {
        use linfa_trees::DecisionTree;
        for (x, y, w, desc) in &modal {
            id += 1;
            if !out.wanted(id) { continue; }
            let mut ds = Dataset::new(x.clone(), y.clone());
            if let Some(w) = w { ds = ds.with_weights(w.clone()); }
            let entries: Vec<(usize, f32)> = ds.label_frequencies_with_mask(&[]).into_iter().collect();
            let mut impls = vec![];
            for _ in 0..reps {
                let ds2 = ds.clone();
                if let Ok(Ok(t)) = guarded(move || DecisionTree::<f64, usize>::params().max_depth(Some(0)).fit(&ds2)) {
                    if let Some(p) = t.root_node().prediction() { impls.push(p); }
                }
            }
            let mx = entries.iter().fold(f32::NEG_INFINITY, |m, e| m.max(e.1));
            let tied = entries.iter().filter(|e| e.1 == mx).count();
            let coq = format!("CModal {} ({})%float {}", cn(id), clist(&entries, |e| format!("({}%N, {})", e.0, cf32(e.1))), cvecn(&impls));
            let tags = ["coq_modal", if tied > 1 { "tied_modal_class" } else { "unique_modal_class" }];
            out.bump(if tied > 1 { "modal_tied" } else { "modal_unique" });
            let d2 = format!("{{\"case\": \"modal class of the root (max_depth 0)\", \"entries_in_map_order\": [{}], \"root_predictions_of_{}_fits\": {:?}, \"dataset\": {}}}", entries.iter().map(|e| format!("[{}, {}]", e.0, e.1)).collect::<Vec<_>>().join(", "), reps, impls, desc);
            out.case(id, &coq, &tags, &d2, if tied > 1 { Some(fnv(d2.as_bytes())) } else { None });
        }
    }
    // (2) naive Bayes arg-max
    {
        use linfa_bayes::GaussianNb;
        for o in &nbobs {
            id += 1;
            if !out.wanted(id) { continue; }
            let ds = Dataset::new(o.x.clone(), o.y.clone());
            let mut impls: Vec<Vec<usize>> = vec![];
            let mut entries: Vec<(usize, Vec<f64>)> = vec![];
            for rep in 0..reps {
                let (ds2, q2, vs) = (ds.clone(), o.q.clone(), o.vs);
                if let Ok(Ok(m)) = guarded(move || GaussianNb::<f64, usize>::params().var_smoothing(vs).fit(&ds2)) {
                    impls.push(m.predict(&q2).to_vec());
                    if rep == 0 {
                        let v = serde_json::to_value(&m).unwrap();
                        if let Some(ci) = v.get("class_info").and_then(|c| c.as_object()) {
                            for (lab, info) in ci {
                                let arr = |k: &str| Array1::from(info[k]["data"].as_array().unwrap().iter().map(|x| x.as_f64().unwrap()).collect::<Vec<f64>>());
                                let jll = gnb_jll(info["prior"].as_f64().unwrap(), &arr("theta"), &arr("sigma"), &q2);
                                entries.push((lab.parse().unwrap(), jll.to_vec()));
                            }
                        }
                    }
                }
            }
            r.shuffle(&mut entries);
            let nq = o.q.nrows();
            let tied = (0..nq).filter(|j| { let mx = entries.iter().fold(f64::NEG_INFINITY, |m, e| m.max(e.1[*j])); entries.iter().filter(|e| e.1[*j] == mx).count() > 1 }).count();
            let coq = format!("CArgmax {} ({})%float {}", cn(id), clist(&entries, |e| format!("({}%N, {})", e.0, clist(&e.1, |x| cf64(*x)))), clist(&impls, |p: &Vec<usize>| cvecn(p)));
            out.bump(if tied > 0 { "argmax_with_exact_ties" } else { "argmax_without_ties" });
            let d2 = format!("{{\"case\": \"naive Bayes arg-max\", \"classes_in_shipped_order\": {:?}, \"queries_with_exact_ties\": {}, \"dataset\": {}}}", entries.iter().map(|e| e.0).collect::<Vec<_>>(), tied, o.desc);
            out.case(id, &coq, &["coq_argmax", if tied > 0 { "exact_posterior_ties" } else { "no_posterior_ties" }], &d2, if tied > 0 { Some(fnv(d2.as_bytes())) } else { None });
        }
    }
    // (3) hierarchical cluster numbering (the merge steps are replayed with kodama to obtain the surviving clusters)
    for o in &hierobs {
        id += 1;
        if !out.wanted(id) { continue; }
        let n = o.x.nrows();
        let kernel = Kernel::<f64>::params().kind(KernelType::Dense).method(KernelMethod::Gaussian(o.eps)).transform(o.x.view());
        let mut dist: Vec<f64> = kernel.to_upper_triangle().into_iter().map(|x| if x > 1e-6 { -x.ln() } else { -(1e-6f64).ln() }).collect();
        let dend = kodama::linkage(&mut dist, n, HMETHODS[o.method].0);
        let mut clusters: BTreeMap<usize, Vec<usize>> = (0..n).map(|i| (i, vec![i])).collect();
        let mut ct = n;
        for st in dend.steps() {
            if clusters.len() <= o.num { break; }
            let mut ids = clusters.remove(&st.cluster1).unwrap();
            ids.append(&mut clusters.remove(&st.cluster2).unwrap());
            clusters.insert(ct, ids);
            ct += 1;
        }
        let mut entries: Vec<(usize, Vec<usize>)> = clusters.into_iter().collect();
        r.shuffle(&mut entries);
        let mut impls = vec![];
        for _ in 0..reps {
            let (x2, eps, m, num) = (o.x.clone(), o.eps, o.method, o.num);
            if let Ok(Ok(l)) = guarded(move || hier_run(&x2, eps, m, num)) { impls.push(l); }
        }
        let coq = format!("CHier {} {} {} {}", cn(id), cn(n as u64), clist(&entries, |e| format!("({}%N, {})", e.0, cvecn(&e.1))), clist(&impls, |p: &Vec<usize>| cvecn(p)));
        out.bump("hier_numbering");
        let d2 = format!("{{\"case\": \"hierarchical cluster numbering\", \"surviving_clusters_in_shipped_order\": [{}], \"dataset\": {}}}", entries.iter().map(|e| format!("[{}, {:?}]", e.0, e.1)).collect::<Vec<_>>().join(", "), o.desc);
        out.case(id, &coq, &["coq_hier"], &d2, Some(fnv(d2.as_bytes())));
    }
    // (4) label sets
    for k in 0..(if thorough { 120 } else { 40 }) {
        id += 1;
        let n = 5 + r.below(40) as usize;
        let labs = distinct_labels(&mut r, 2 + (k % 6));
        let y: Vec<usize> = (0..n).map(|_| *r.pick(&labs)).collect();
        if !out.wanted(id) { continue; }
        let ya = Array1::from(y.clone());
        let observed: Vec<Vec<usize>> = (0..4).map(|_| ya.labels()).collect();
        let coq = format!("CLabels {} {} {}", cn(id), cvecn(&y), clist(&observed, |p: &Vec<usize>| cvecn(p)));
        let distinct_orders = observed.iter().collect::<BTreeSet<_>>().len();
        out.bump(if distinct_orders > 1 { "labels_orders_differ" } else { "labels_orders_equal" });
        let d2 = format!("{{\"case\": \"labels() of the same targets, four calls\", \"targets\": {:?}, \"observed\": {:?}}}", y, observed);
        out.case(id, &coq, &["coq_labels"], &d2, if distinct_orders > 1 { Some(fnv(d2.as_bytes())) } else { None });
    }
    // (5) k-means with observed schedules
    for k in 0..(if thorough { 300 } else { 50 }) {
        id += 1;
        let n = 40 + r.below(if thorough { 360 } else { 160 }) as usize;
        let d = 1 + r.below(3) as usize;
        let kk = 2 + r.below(3) as usize;
        let rows = if k % 3 == 0 { lattice(&mut r, n, d, -3, 3) } else { blobs(&mut r, n, d, kk, 1.2) };
        let nruns = 1 + (k % 2);
        let fuel = 1 + r.below(3);
        let tol = *r.pick(&[1e-4, 1e-2]);
        let kseed = r.below(1000);
        // one run from precomputed centroids, or two restarts of the Random initialiser (its draws are replayed:
        // rand::seq::index::sample on the cloned parameter generator, consecutive samples for consecutive runs)
        let inits: Vec<Vec<Vec<f64>>> = if nruns == 1 {
            (0..1).map(|_| { let mut idx: Vec<usize> = (0..n).collect(); r.shuffle(&mut idx); idx[..kk].iter().map(|i| rows[*i].clone()).collect() }).collect()
        } else {
            let mut g = Xoshiro256Plus::seed_from_u64(kseed);
            (0..nruns).map(|_| rand::seq::index::sample(&mut g, n, kk).into_vec().iter().map(|&i| rows[i].clone()).collect()).collect()
        };
        let psize = *r.pick(&[1usize, 2, 3, 4, 8, 16]);
        let nq = 20 + r.below(60) as usize;
        let q: Vec<Vec<f64>> = (0..nq).map(|_| if r.chance(0.5) { rows[r.below(n as u64) as usize].clone() } else { (0..d).map(|_| r.range(-8, 8) as f64 * 0.5).collect() }).collect();
        if !out.wanted(id) { continue; }
        let x = mat(&rows);
        let qa = mat(&q);
        let spy = SpyL2::new();
        let pool = rayon::ThreadPoolBuilder::new().num_threads(psize).build().unwrap();
        let ds = DatasetBase::from(x);
        spy.watch(ds.records());
        let init_arr = mat(&inits[0]);
        let spy2 = spy.clone();
        let fitted = pool.install(|| {
            guarded(std::panic::AssertUnwindSafe(|| {
                let im = if nruns == 1 { KMeansInit::Precomputed(init_arr) } else { KMeansInit::Random };
                KMeans::params_with(kk, Xoshiro256Plus::seed_from_u64(kseed), spy2).init_method(im).n_runs(nruns).max_n_iterations(fuel).tolerance(tol).fit(&ds)
            }))
        });
        let m = match fitted { Ok(Ok(m)) => m, _ => { out.bump("par_fit_failed"); continue; } };
        let (scheds, th1) = phases(&spy.take(), n, kk + 1);
        spy.watch(&qa);
        let pr = pool.install(|| m.predict(&qa));
        let (sp, th2) = phases(&spy.take(), nq, kk + 1);
        spy.watch(&qa);
        let tr = pool.install(|| m.transform(&qa));
        let (st, th3) = phases(&spy.take(), nq, kk + 1);
        let threads = th1.max(th2).max(th3);
        let identity = scheds.iter().all(|s| s.windows(2).all(|w| w[0] < w[1]));
        // same fit on other pool sizes must give the same bits (Rust-side oracle 2)
        let mut differs = None;
        for t in [1usize, 5] {
            let p2 = rayon::ThreadPoolBuilder::new().num_threads(t).build().unwrap();
            let ia = mat(&inits[0]);
            let im = if nruns == 1 { KMeansInit::Precomputed(ia) } else { KMeansInit::Random };
            let m2 = p2.install(|| KMeans::params_with(kk, Xoshiro256Plus::seed_from_u64(kseed), L2Dist).init_method(im).n_runs(nruns).max_n_iterations(fuel).tolerance(tol).fit(&ds));
            if let Ok(m2) = m2 {
                if a2(m2.centroids()) != a2(m.centroids()) || hb(m2.inertia()) != hb(m.inertia()) || a1(m2.cluster_count()) != a1(m.cluster_count()) { differs = Some(t); }
            }
        }
        let coq = format!(
            "CPar {} L2 {} {} {} {} {} {} {} {} {} {} {} {} {} {}",
            cn(id), sf64(tol), cn(fuel), cn(kk as u64), clist(&inits, |m: &Vec<Vec<f64>>| cmat64(m)), cmat64(&rows), clist(&scheds, |s: &Vec<usize>| cvecn(s)),
            cmat64(&rows_of(&m.centroids().view())), cvec64(&m.cluster_count().to_vec()), sf64(m.inertia()),
            cmat64(&q), cvecn(sp.first().unwrap_or(&vec![])), cvecn(st.first().unwrap_or(&vec![])), cvecn(&pr.to_vec()), cvec64(&tr.to_vec())
        );
        out.bump(&format!("par_pool_{}", psize));
        out.bump(&format!("par_threads_seen_{}", threads.min(4)));
        out.bump(if identity { "par_schedule_identity" } else { "par_schedule_permuted" });
        out.bump(&format!("par_restarts_{}", nruns));
        let d2 = format!("{{\"case\": \"k-means with the task schedule observed through a spying distance\", \"n\": {}, \"d\": {}, \"k\": {}, \"max_n_iterations\": {}, \"tolerance\": {:e}, \"pool\": {}, \"threads_seen\": {}, \"parallel_loops_in_fit\": {}, \"n_runs\": {}, \"rng_seed\": {}, \"initial_centroids_per_run\": {:?}, \"X\": {:?}}}", n, d, kk, fuel, tol, psize, threads, scheds.len(), nruns, kseed, inits, rows);
        let tags = ["coq_par"];
        if let Some(t) = differs { out.rust_fail(id, 2, &tags, &format!("k-means fit on a pool of {} thread(s) differs from the fit on a pool of {} thread(s)", t, psize), &d2); }
        out.case(id, &coq, &tags, &d2, if !identity && threads > 1 { Some(fnv(d2.as_bytes())) } else { None });
    }
    // (6) default seeds: the default parameter set must behave exactly like the explicit generator of the translated table
    {
        use linfa_ftrl::Ftrl;
        use linfa_reduction::random_projection::GaussianRandomProjection;
        let x = mat(&blobs(&mut r, 300, 4, 3, 1.0));
        let ds = DatasetBase::from(x.clone());
        let mut seeds: Vec<(&str, &str, u64, bool)> = vec![];
        let km = |m: KMeans<f64, L2Dist>| a2(m.centroids());
        seeds.push(("algorithms/linfa-clustering/src/k_means/algorithm.rs", "KMeans", 42,
            KMeans::params(3).fit(&ds).map(km).ok() == KMeans::params_with_rng(3, Xoshiro256Plus::seed_from_u64(42)).fit(&ds).map(km).ok()));
        let gm = |m: GaussianMixtureModel<f64>| jcanon(&m);
        seeds.push(("algorithms/linfa-clustering/src/gaussian_mixture/hyperparams.rs", "GmmParams", 42,
            GaussianMixtureModel::params(3).fit(&ds).map(gm).ok() == GaussianMixtureModel::params_with_rng(3, Xoshiro256Plus::seed_from_u64(42)).fit(&ds).map(gm).ok()));
        let yb = Array1::from((0..300).map(|i| i % 3 == 0).collect::<Vec<bool>>());
        let dsb = Dataset::new(x.clone(), yb);
        seeds.push(("algorithms/linfa-ftrl/src/lib.rs", "Ftrl", 42,
            Ftrl::<f64>::params().fit_with(None, &dsb).map(|m| jcanon(&m)).ok() == Ftrl::<f64>::params_with_rng(Xoshiro256Plus::seed_from_u64(42)).fit_with(None, &dsb).map(|m| jcanon(&m)).ok()));
        seeds.push(("algorithms/linfa-reduction/src/random_projection/algorithms.rs", "RandomProjection", 42,
            GaussianRandomProjection::<f64>::params().target_dim(2).fit(&ds).map(|p| a2(&p.transform(&x))).ok()
                == GaussianRandomProjection::<f64>::params_with_rng(Xoshiro256Plus::seed_from_u64(42)).target_dim(2).fit(&ds).map(|p| a2(&p.transform(&x))).ok()));
        for (file, ty, seed, agrees) in seeds {
            id += 1;
            if !out.wanted(id) { continue; }
            let coq = format!("CSeed {} {} {} {} {}", cn(id), cstr(file), cstr(ty), cn(seed), cbool(agrees));
            out.bump("default_seed_checked");
            let d2 = format!("{{\"case\": \"default parameter set equals the explicitly seeded generator\", \"file\": {}, \"type\": {}, \"seed\": {}, \"agrees\": {}}}", jstr(file), jstr(ty), seed, agrees);
            out.case(id, &coq, &["coq_seed"], &d2, Some(fnv(d2.as_bytes())));
        }
    }
    // (7) count vectoriser: the `vocabulary()` orders and transformed rows of repeated fits (fresh hash states),
    //     replayed through the enumeration-parametrised model of C20/VocabModel.v
    {
        use linfa_preprocessing::CountVectorizer;
        let cstrs = |xs: &[String]| clist(xs, |w| cstr(w));
        for k in 0..(if thorough { 160 } else { 48 }) {
            id += 1;
            let nmax = if k % 4 == 3 { 2 } else { 1 };
            let (train, cap): (Vec<String>, Option<usize>) = if k % 2 == 0 {
                let (d, cp) = tie_corpus(&mut r);
                (d, Some(cp))
            } else {
                let d = random_corpus(&mut r);
                let cp = if r.chance(0.5) { Some(1 + r.below(6) as usize) } else { None };
                (d, cp)
            };
            let (mindf, maxdf): (f32, f32) = if k % 5 == 4 { *r.pick(&[(0.3f32, 1.0f32), (0.0, 0.8), (0.25, 0.75), (0.5, 0.5)]) } else { (0.0, 1.0) };
            let stop: Option<Vec<String>> = if k % 7 == 5 { Some(vec![r.pick(&TWORDS).to_string(), r.pick(&TWORDS).to_string()]) } else { None };
            let mut test: Vec<String> = train.iter().take(2).cloned().collect();
            test.extend(random_corpus(&mut r).into_iter().take(3));
            if !out.wanted(id) { continue; }
            let (da, ta) = (Array1::from(train.clone()), Array1::from(test.clone()));
            let build = |cap: Option<usize>| {
                let p = CountVectorizer::params().n_gram_range(1, nmax).max_features(cap).document_frequency(mindf, maxdf);
                match &stop { Some(sw) => p.stopwords(sw), None => p }
            };
            let mut fits: Vec<(Vec<String>, Vec<Vec<usize>>)> = vec![];
            let mut failed = false;
            for _ in 0..5 {
                let (p, da2, ta2) = (build(cap), da.clone(), ta.clone());
                match guarded(std::panic::AssertUnwindSafe(move || -> Result<(Vec<String>, Vec<Vec<usize>>), String> {
                    let cv = p.fit(&da2).map_err(es)?;
                    let m = cv.transform(&ta2).map_err(es)?.to_dense();
                    Ok((cv.vocabulary().clone(), m.rows().into_iter().map(|r| r.to_vec()).collect()))
                })) {
                    Ok(Ok(f)) => fits.push(f),
                    _ => { failed = true; }
                }
            }
            if failed || fits.is_empty() { out.bump("vocab_fit_failed"); continue; }
            // does the cut fall between two entries of equal document frequency ? (uncapped fit, frequencies from the training counts)
            let straddles = match cap {
                None => false,
                Some(cp) => {
                    let p = build(None);
                    match guarded(std::panic::AssertUnwindSafe(|| p.fit(&da).ok().and_then(|cv| cv.transform(&da).ok().map(|m| m.to_dense())))) {
                        Ok(Some(m)) => {
                            let mut dfs: Vec<usize> = m.columns().into_iter().map(|col| col.iter().filter(|x| **x > 0).count()).collect();
                            dfs.sort_unstable_by(|a, b| b.cmp(a));
                            cp >= 1 && cp < dfs.len() && dfs[cp - 1] == dfs[cp]
                        }
                        _ => false,
                    }
                }
            };
            let orders = fits.iter().map(|f| &f.0).collect::<BTreeSet<_>>().len();
            let coq = format!(
                "CVocab {} {} {} ({})%Z ({})%Z {} {} {} {}",
                cn(id), cn(nmax as u64), cap.map_or("None".to_string(), |cp| format!("(Some {})", cn(cp as u64))), cbits32(mindf), cbits32(maxdf),
                stop.as_ref().map_or("None".to_string(), |sw| format!("(Some {})", cstrs(sw))), cstrs(&train), cstrs(&test),
                clist(&fits, |f| format!("({}, {})", cstrs(&f.0), clist(&f.1, |row: &Vec<usize>| cvecn(row))))
            );
            out.bump(if orders > 1 { "vocab_orders_differ" } else { "vocab_orders_equal" });
            out.bump(if straddles { "vocab_df_tie_straddles_cut" } else if cap.is_some() { "vocab_cut_without_tie" } else { "vocab_no_cut" });
            if (mindf, maxdf) != (0.0, 1.0) { out.bump("vocab_df_window"); }
            if stop.is_some() { out.bump("vocab_stopwords"); }
            let d2 = format!(
                "{{\"case\": \"CountVectorizer fitted 5 times, vocabulary() order and transform(test) per fit\", \"train\": {:?}, \"test\": {:?}, \"n_gram_range\": [1, {}], \"max_features\": {}, \"document_frequency\": [{}, {}], \"stopwords\": {}, \"distinct_vocabulary_orders\": {}, \"df_tie_straddles_cut\": {}, \"vocabularies\": {:?}}}",
                train, test, nmax, jopt(&cap), mindf, maxdf, stop.as_ref().map_or("null".to_string(), |sw| format!("{:?}", sw)), orders, straddles, fits.iter().map(|f| &f.0).collect::<Vec<_>>()
            );
            let mut tags = vec!["coq_vocab"];
            if cap.is_some() { tags.push("max_features"); }
            if straddles { tags.push("df_tie_straddles_cut"); }
            out.case(id, &coq, &tags, &d2, if orders > 1 { Some(fnv(d2.as_bytes())) } else { None });
        }
    }
    // (8) search step of the reachability obligation (claimed_estimators_do_not_reach_excluded_facilities): the translator
    //     lists every library-code reference to a facility the statement excludes; for a reference from outside the
    //     facility's home a targeted scenario is derived from the call site's guard and run on several pool sizes
    {
        let reach = args.out.ancestors().nth(3).map(|b| b.join("c20_reach.json"));
        let table: Option<serde_json::Value> = reach.as_ref().and_then(|p| std::fs::read_to_string(p).ok()).and_then(|t| serde_json::from_str(&t).ok());
        let fresh = match (&table, std::env::var("VERIF_REPO")) { (Some(t), Ok(repo)) => t["repo"].as_str() == Some(repo.as_str()), (Some(_), Err(_)) => true, _ => false };
        let homes: [(&str, &[&str]); 5] = [
            ("kmeans_para", &["algorithms/linfa-clustering/src/k_means/"]), ("fastica", &["algorithms/linfa-ica/"]), ("tsne", &["algorithms/linfa-tsne/"]),
            ("p_values", &["src/correlation.rs"]), ("unseeded_rng", &["src/correlation.rs", "algorithms/linfa-ica/src/fast_ica.rs", "datasets/src/generate.rs"]),
        ];
        let budget = std::time::Duration::from_secs(if thorough { 240 } else { 60 });
        let t_start = std::time::Instant::now();
        if let (true, Some(t)) = (fresh, &table) {
            for (ri, rf) in t["refs"].as_array().cloned().unwrap_or_default().iter().enumerate() {
                let g = |k: &str| rf[k].as_str().unwrap_or("").to_string();
                let (fac, file, ty, func, guard) = (g("facility"), g("file"), g("ty"), g("fn"), g("guard"));
                if homes.iter().any(|(f, hs)| *f == fac && hs.iter().any(|h| file.starts_with(h))) { continue; }
                let rid = 200_000 + ri as u64;
                if !out.wanted(rid) { continue; }
                out.bump("reach_reference_outside_home");
                let site = format!("{{\"facility\": {}, \"file\": {}, \"line\": {}, \"item\": {}, \"guard\": {}}}", jstr(&fac), jstr(&file), rf["line"], jstr(&format!("{}::{}", ty, func)), jstr(&guard));
                if !(fac == "kmeans_para" && file.contains("gaussian_mixture")) {
                    eprintln!("note: reference {} has no targeted scenario family in the harness (reported through the proof obligation only)", site);
                    out.bump("reach_reference_without_targeted_scenario");
                    continue;
                }
                // read `<ident> <cmp> <literal>` off the guard: the smallest value of the guarded quantity that takes the branch
                let negated = guard.starts_with("!(");
                let mut ks: Vec<usize> = vec![];
                for cmp in [">=", "<=", "==", ">", "<"] {
                    if let Some(p) = guard.find(cmp) {
                        let lit: String = guard[p + cmp.len()..].trim_start().chars().take_while(|c| c.is_ascii_digit() || *c == '_').filter(|c| *c != '_').collect();
                        if let Ok(v) = lit.parse::<usize>() {
                            let takes = match (cmp, negated) { (">", false) | ("<=", true) => v + 1, (">=", false) | ("<", true) | ("==", false) | ("<=", false) | (">", true) => v, ("<", false) | (">=", true) => v.saturating_sub(1), _ => v + 1 };
                            ks.push(takes.max(1));
                            ks.push(takes.max(1) + 27);
                        }
                        break;
                    }
                }
                if ks.is_empty() { ks = vec![2, 64, 129]; }
                let pools: Vec<(usize, rayon::ThreadPool)> = [1usize, 4, 4, 2].iter().map(|t| (*t, rayon::ThreadPoolBuilder::new().num_threads(*t).build().unwrap())).collect();
                let mut found: Option<(u64, String, String)> = None;
                let mut tried = 0;
                'search: for attempt in 0..40u64 {
                    for &k in &ks {
                        if t_start.elapsed() > budget { break 'search; }
                        let n = 4 * k + 200 + 150 * attempt as usize;
                        let dseed = r.next();
                        let x = mat(&blobs(&mut Sm64::new(dseed), n, 2, 8, 1.5));
                        let gseed = r.below(1000);
                        let desc = format!(
                            "{{\"case\": \"targeted search: an estimator of the claim refers to an excluded facility\", \"call_site\": {}, \"estimator\": \"GaussianMixtureModel\", \"n_clusters\": {}, \"data\": \"blobs(Sm64::new({}), n={}, d=2, centres=8, spread=1.5)\", \"init\": \"KMeans (default)\", \"rng\": \"Xoshiro256Plus::seed_from_u64({})\", \"n_runs\": 1, \"max_n_iterations\": 2, \"tolerance\": 1e6, \"reg_covariance\": 1e-2, \"pools\": [1, 4, 4, 2]}}",
                            site, k, dseed, n, gseed
                        );
                        let mut obs: Vec<(usize, String)> = vec![];
                        for (t, pool) in &pools {
                            let xx = x.clone();
                            let res = pool.install(|| guarded(std::panic::AssertUnwindSafe(|| -> Result<String, String> {
                                let ds = DatasetBase::from(xx.clone());
                                let m = GaussianMixtureModel::params_with_rng(k, Xoshiro256Plus::seed_from_u64(gseed)).n_runs(1).max_n_iterations(2).tolerance(1e6).reg_covariance(1e-2).fit(&ds).map_err(es)?;
                                Ok(format!("{}|{}", jcanon(&m), us(m.predict(&xx).iter())))
                            })));
                            obs.push((*t, match res { Ok(Ok(t)) => t, Ok(Err(e)) => format!("ERROR: {}", e), Err(p) => format!("PANIC: {}", p) }));
                        }
                        tried += 1;
                        out.rust_eval(&desc, Some(fnv(desc.as_bytes())));
                        if let Some((t2, txt)) = obs.iter().skip(1).find(|o| o.1 != obs[0].1) {
                            let code = if obs[1].1 != obs[2].1 { 1 } else { 2 };
                            found = Some((code, format!("seeded GaussianMixtureModel fit with {} components differs between a pool of {} thread(s) and a pool of {} thread(s);{}", k, obs[0].0, t2, first_diff(&obs[0].1, txt)), desc));
                            break 'search;
                        }
                    }
                }
                out.bump_by("reach_targeted_scenarios_run", tried);
                match found {
                    Some((code, what, desc)) => {
                        out.bump("reach_targeted_difference_found");
                        out.rust_fail(rid, code, &["reach", "targeted_search", "kmeans_para"], &format!("reference to {} in {} ({}::{}, guard [{}]): {}", fac, file, ty, func, guard, what), &desc);
                    }
                    None => eprintln!("note: targeted search for {} found no run-to-run difference in {} scenario(s) within {:?}", site, tried, budget),
                }
            }
        } else if table.is_some() {
            eprintln!("note: {:?} was written for another repository checkout; search step skipped", reach);
        }
    }
    // (9) history dimension: re-configured / re-used parameter objects and re-used models against fresh ones
    history_checks(&mut out, args.seed, thorough);
    out.bump_by("child_processes", child_out.len() as u64);
    out.finish("scenario = estimator x generated dataset x parameters (tree / naive Bayes / hierarchical inputs are tie-heavy: duplicated rows with conflicting labels, identical classes, lattice distances); every scenario is run twice on the global pool, on pools of 1/2/5/16 threads (thorough: 1,2,3,5,7,11,16) and in fresh processes with RAYON_NUM_THREADS in {1,2,3,5,8,16} (thorough: 1..16); all learned quantities and predictions are compared bit for bit; Coq cases: observed hash-map entry lists, k-means task schedules and the vocabulary orders / transformed rows of repeated count-vectoriser fits; a case is non-trivial when it has ties / several threads / a permuted schedule; distinct = distinct scenario descriptions");
}
