//! C09 harness: k-means fits on generated data (f64 and f32); emits Coq cases for C09/Corr.v.
use linfa::prelude::*;
use linfa_clustering::{KMeans, KMeansInit};
use linfa_nn::distance::{Distance, L1Dist, L2Dist, LInfDist};
use ndarray::{Array2, ArrayView2};
use rand::{RngCore, SeedableRng};
use rand_xoshiro::Xoshiro256Plus;
use vh::*;

#[derive(Clone, Copy, PartialEq, Debug)]
enum Met { L1, L2, Linf }

/// the two float types of the property; values cross to Coq as exact literals
trait Fl: linfa::Float + std::fmt::Debug + std::panic::RefUnwindSafe + std::panic::UnwindSafe {
    const NAME: &'static str;
    const CTOR: &'static str;
    fn of64(v: f64) -> Self;
    fn to64(self) -> f64;
    fn bits(self) -> u64;
    fn scalar(self) -> String;
    fn vec(xs: &[Self]) -> String;
    fn mat(rows: &[Vec<Self>]) -> String;
}
impl Fl for f64 {
    const NAME: &'static str = "f64";
    const CTOR: &'static str = "Case64";
    fn of64(v: f64) -> f64 { v }
    fn to64(self) -> f64 { self }
    fn bits(self) -> u64 { self.to_bits() }
    fn scalar(self) -> String { sf64(self) }
    fn vec(xs: &[f64]) -> String { cvec64(xs) }
    fn mat(rows: &[Vec<f64>]) -> String { cmat64(rows) }
}
impl Fl for f32 {
    const NAME: &'static str = "f32";
    const CTOR: &'static str = "Case32";
    fn of64(v: f64) -> f32 { v as f32 }
    fn to64(self) -> f64 { self as f64 }
    fn bits(self) -> u64 { self.to_bits() as u64 }
    // IEEE bit pattern, decoded by C09.Corr.b32 = Common.B32.b32_of_bits
    fn scalar(self) -> String { format!("(b32 {})", cbits32(self)) }
    fn vec(xs: &[f32]) -> String { clist(xs, |x| format!("b32 {}", cbits32(*x))) }
    fn mat(rows: &[Vec<f32>]) -> String { clist(rows, |r| Self::vec(r)) }
}

#[derive(Clone, Debug)]
enum Init<F> { Pre(Vec<Vec<F>>), Random, PlusPlus, Para }

struct FitOut<F> { centroids: Vec<Vec<F>>, counts: Vec<F>, inertia: F, predict: Vec<usize>, transform: Vec<F> }

fn arr<F: Fl>(rows: &[Vec<F>]) -> Array2<F> {
    let d = if rows.is_empty() { 0 } else { rows[0].len() };
    Array2::from_shape_vec((rows.len(), d), rows.iter().flatten().cloned().collect()).unwrap()
}
fn rows_gen<F: Fl>(a: &ArrayView2<F>) -> Vec<Vec<F>> {
    a.rows().into_iter().map(|r| r.to_vec()).collect()
}

fn fit_with<F: Fl, D: Distance<F> + std::fmt::Debug + 'static>(
    dist: D, x: &Array2<F>, q: &Array2<F>, k: usize, init: &Init<F>, seed: u64, max_iter: u64, tol: F, n_runs: usize,
) -> Result<FitOut<F>, String> {
    let rng = Xoshiro256Plus::seed_from_u64(seed);
    let im = match init {
        Init::Pre(c) => KMeansInit::Precomputed(arr(c)),
        Init::Random => KMeansInit::Random,
        Init::PlusPlus => KMeansInit::KMeansPlusPlus,
        Init::Para => KMeansInit::KMeansPara,
    };
    let params = KMeans::params_with(k, rng, dist).max_n_iterations(max_iter).tolerance(tol).n_runs(n_runs).init_method(im);
    let ds = DatasetBase::from(x.clone());
    let model = params.fit(&ds).map_err(|e| format!("{}", e))?;
    let predict = model.predict(q).to_vec();
    let transform = model.transform(q).to_vec();
    Ok(FitOut {
        centroids: rows_gen(&model.centroids().view()),
        counts: model.cluster_count().to_vec(),
        inertia: model.inertia(),
        predict,
        transform,
    })
}

fn do_fit<F: Fl>(m: Met, x: &Array2<F>, q: &Array2<F>, k: usize, init: &Init<F>, seed: u64, max_iter: u64, tol: F, n_runs: usize) -> Result<FitOut<F>, String> {
    let (x2, q2, init2) = (x.clone(), q.clone(), init.clone());
    match guarded(move || match m {
        Met::L1 => fit_with(L1Dist, &x2, &q2, k, &init2, seed, max_iter, tol, n_runs),
        Met::L2 => fit_with(L2Dist, &x2, &q2, k, &init2, seed, max_iter, tol, n_runs),
        Met::Linf => fit_with(LInfDist, &x2, &q2, k, &init2, seed, max_iter, tol, n_runs),
    }) {
        Ok(r) => r,
        Err(p) => Err(format!("PANIC: {}", p)),
    }
}

fn gen_data(rng: &mut Sm64, n: usize, d: usize, kind: u64) -> Vec<Vec<f64>> {
    let nb = 1 + rng.below(4) as usize;
    let centers: Vec<Vec<f64>> = (0..nb).map(|_| (0..d).map(|_| rng.range(-8, 8) as f64 * 2.5).collect()).collect();
    let mut rows: Vec<Vec<f64>> = Vec::new();
    for i in 0..n {
        let c = &centers[i % nb];
        let r: Vec<f64> = match kind {
            0 => c.iter().map(|v| v + 0.3 * rng.gauss()).collect(),          // separated blobs
            1 => c.iter().map(|v| 0.3 * v + 2.0 * rng.gauss()).collect(),    // overlapping clouds
            2 => (0..d).map(|_| rng.range(-2, 2) as f64).collect(),          // lattice: duplicates and ties
            3 => c.clone(),                                                  // fewer distinct points than clusters
            _ => c.iter().map(|v| v * 1e3 + 1e-3 * rng.gauss()).collect(),   // large offset, tiny spread
        };
        rows.push(r);
    }
    rows
}

fn replay_random_inits<F: Fl>(x: &[Vec<F>], k: usize, seed: u64, n_runs: usize) -> Vec<Vec<Vec<F>>> {
    // KMeansInit::Random = rand::seq::index::sample(rng, n, k) on the cloned parameter RNG; the Lloyd
    // loop draws nothing, so consecutive runs take consecutive samples from one stream.
    let mut rng = Xoshiro256Plus::seed_from_u64(seed);
    (0..n_runs)
        .map(|_| rand::seq::index::sample(&mut rng, x.len(), k).into_vec().iter().map(|&i| x[i].clone()).collect())
        .collect()
}

/// the raw output of the parameter generator: all the Coq model of k-means++ needs (it contains rand's
/// WeightedIndex / UniformFloat arithmetic); at most one word per centroid and run is consumed
fn rng_words(seed: u64, count: usize) -> Vec<u64> {
    let mut rng = Xoshiro256Plus::seed_from_u64(seed);
    (0..count).map(|_| rng.next_u64()).collect()
}

enum InitTerm<F> { Given(Vec<Vec<Vec<F>>>), Words(usize, Vec<u64>), Hidden }

fn fit_term<F: Fl>(fuel: u64, tol: F, init: &InitTerm<F>, k: usize, f: &FitOut<F>, q: &[Vec<F>]) -> String {
    let it = match init {
        InitTerm::Given(l) => format!("InitGiven {}", clist(l, |m| F::mat(m))),
        InitTerm::Words(runs, w) => format!("InitPlusPlus {} ({})%N", cn(*runs as u64), clist(w, |v| format!("{}", v))),
        InitTerm::Hidden => "InitHidden".to_string(),
    };
    format!(
        "{{| fc_fuel := {}; fc_tol := {}; fc_init := {}; fc_k := {}; fc_centroids := {}; fc_counts := {}; fc_inertia := {}; fc_query := {}; fc_predict := {}; fc_transform := {} |}}",
        cn(fuel), tol.scalar(), it, cn(k as u64), F::mat(&f.centroids), F::vec(&f.counts), f.inertia.scalar(),
        F::mat(q), cvecn(&f.predict), F::vec(&f.transform)
    )
}

struct Limits { maxn: usize, maxk: usize, maxd: usize, maxbudget: u64, maxruns: usize, nquery: usize, scales: &'static [f64] }

fn one_dataset<F: Fl>(id: u64, r: &mut Sm64, lim: &Limits, out: &mut Out) {
    let mets = [Met::L2, Met::L2, Met::L1, Met::Linf];
    let d = 1 + r.below(lim.maxd as u64) as usize;
    let n = 2 + r.below(lim.maxn as u64 - 1) as usize;
    let kind = r.below(5);
    let k = 1 + r.below(std::cmp::min(n, lim.maxk) as u64) as usize;
    // magnitude family: the arithmetic is modelled bit for bit, so any scale is fair game; tiny scales
    // expose absolute-epsilon shortcuts, large ones lossy accumulations
    let scale = *r.pick(lim.scales);
    let subnormal = scale < 1e-19;
    let x: Vec<Vec<F>> = gen_data(r, n, d, kind).into_iter().map(|row| row.into_iter().map(|v| F::of64(v * scale)).collect()).collect();
    let m = *r.pick(&mets);
    let xa = arr(&x);
    // queries: fresh points, stored points, midpoints of stored points (ties between centroids are likely on lattices)
    let mut q: Vec<Vec<F>> = Vec::new();
    for _ in 0..lim.nquery {
        match r.below(3) {
            0 => q.push((0..d).map(|_| F::of64(r.range(-20, 20) as f64 * 0.5 * scale)).collect()),
            1 => q.push(x[r.below(n as u64) as usize].clone()),
            _ => {
                let a = &x[r.below(n as u64) as usize];
                let b = &x[r.below(n as u64) as usize];
                q.push(a.iter().zip(b).map(|(u, v)| (*u + *v) / F::of64(2.0)).collect());
            }
        }
    }
    let qa = arr(&q);
    let tol = F::of64(*r.pick(&[1e-4, 1e-2, 1e-12, 1.0]) * scale);
    let stream = r.below(5);
    let mname = format!("{:?}", m);
    let seed = r.below(1000);
    let mut fits: Vec<String> = Vec::new();
    let mut tags: Vec<String> = vec![format!("metric_{}", mname), format!("kind_{}", kind), format!("scale_{:e}", scale), F::NAME.to_string()];
    if subnormal { tags.push("subnormal_sq_dists".into()); }
    out.bump(&format!("{}_scale_{:e}", F::NAME, scale));
    let mut series = 0;
    let mut bbox = true;
    let mut failed: Option<String> = None;
    match stream {
        0 | 1 => {
            // precomputed initial centroids, growing iteration budget
            let init: Vec<Vec<F>> = if stream == 0 {
                let mut idx: Vec<usize> = (0..n).collect();
                r.shuffle(&mut idx);
                idx[..k].iter().map(|&i| x[i].clone()).collect()
            } else {
                bbox = false;
                (0..k).map(|_| (0..d).map(|_| F::of64(r.range(-30, 30) as f64 * scale)).collect()).collect()
            };
            tags.push("init_precomputed".into());
            // the cost comparison is evaluated in floats with a relative slack: meaningless where the squared
            // distances are subnormal (those families are for the bit-exact correspondence)
            if m == Met::L2 && !subnormal { series = 1; }
            for b in 1..=lim.maxbudget {
                match do_fit(m, &xa, &qa, k, &Init::Pre(init.clone()), seed, b, tol, 1) {
                    Ok(f) => fits.push(fit_term(b, tol, &InitTerm::Given(vec![init.clone()]), k, &f, &q)),
                    Err(e) => { failed = Some(e); break; }
                }
            }
        }
        2 => {
            // random initialiser, growing number of restarts from one seed
            tags.push("init_random".into());
            series = 2;
            let b = 1 + r.below(4);
            for runs in 1..=lim.maxruns {
                let inits = replay_random_inits(&x, k, seed, runs);
                match do_fit(m, &xa, &qa, k, &Init::Random, seed, b, tol, runs) {
                    Ok(f) => fits.push(fit_term(b, tol, &InitTerm::Given(inits), k, &f, &q)),
                    Err(e) => { failed = Some(e); break; }
                }
            }
        }
        3 => {
            // k-means++: the model replays rand's weighted sampling from the generator's raw words;
            // growing number of restarts from one seed
            tags.push("init_plusplus".into());
            series = 2;
            let b = 1 + r.below(3);
            for runs in 1..=lim.maxruns {
                let words = rng_words(seed, k * runs);
                match do_fit(m, &xa, &qa, k, &Init::PlusPlus, seed, b, tol, runs) {
                    Ok(f) => fits.push(fit_term(b, tol, &InitTerm::Words(runs, words), k, &f, &q)),
                    Err(e) => { failed = Some(e); break; }
                }
            }
        }
        _ => {
            // k-means||: candidates are sampled by per-rayon-task generators seeded from a shared atomic
            // counter, so the initial centroids are not a function of observable draws -> property oracle only
            tags.push("init_para".into());
            let b = 1 + r.below(6);
            let runs = 1 + r.below(lim.maxruns as u64) as usize;
            match do_fit(m, &xa, &qa, k, &Init::Para, seed, b, tol, runs) {
                Ok(f) => fits.push(fit_term(b, tol, &InitTerm::Hidden, k, &f, &q)),
                Err(e) => failed = Some(e),
            }
        }
    }
    let x0: Vec<f64> = x[0].iter().map(|v| v.to64()).collect();
    let desc = format!(
        "{{\"float\": {}, \"n\": {}, \"d\": {}, \"k\": {}, \"metric\": {}, \"kind\": {}, \"stream\": {}, \"seed\": {}, \"tol\": {:e}, \"scale\": {:e}, \"fits\": {}, \"X_first_row\": {:?}}}",
        jstr(F::NAME), n, d, k, jstr(&mname), kind, stream, seed, tol.to64(), scale, fits.len(), x0
    );
    out.bump(&format!("float_{}", F::NAME));
    out.bump(&format!("stream_{}", stream));
    out.bump(&format!("metric_{}", mname));
    out.bump(&format!("kind_{}", kind));
    out.bump(&format!("k_{}", k));
    out.bump(&format!("n_{}", if n < 10 { "lt10" } else if n < 30 { "10to29" } else { "ge30" }));
    let tagrefs: Vec<&str> = tags.iter().map(|s| s.as_str()).collect();
    if let Some(e) = failed {
        // a finite dataset with k <= n must fit: an error or panic is a violation of "has exactly k finite centroids"
        out.rust_fail(id, 1024, &tagrefs, &format!("fit failed: {}", e), &desc);
        out.rust_eval(&desc, None);
    } else {
        let coq = format!(
            "{} {{| c_id := {}%N; c_metric := {}; c_X := {}; c_bbox := {}; c_series := {}%N; c_fits := [{}] |}}",
            F::CTOR, id, mname, F::mat(&x), cbool(bbox), series, fits.join("; ")
        );
        // non-trivial: more than one cluster and more than one distinct point
        let distinct = { let mut v: Vec<Vec<u64>> = x.iter().map(|r| r.iter().map(|f| f.bits()).collect()).collect(); v.sort(); v.dedup(); v.len() };
        let flat: Vec<f64> = x.iter().flatten().map(|v| v.to64()).collect();
        let salt = (k as u64) << 8 | stream | if F::NAME == "f32" { 1 << 40 } else { 0 };
        let key = if k > 1 && distinct > 1 { Some(fnv_f64s(&flat, salt)) } else { None };
        out.case(id, &coq, &tagrefs, &desc, key);
    }
}

fn main() {
    let args = parse_args();
    let mut rng = Sm64::new(args.seed);
    let thorough = args.tier == "thorough";
    let ndatasets = if thorough { 4200 } else { 720 };
    let mut out = Out::new(&args.out, args.shards, "C09.Corr", "case", args.only);
    let lim64 = Limits {
        maxn: if thorough { 60 } else { 28 }, maxk: 5, maxd: 4, maxbudget: if thorough { 8 } else { 5 },
        maxruns: if thorough { 5 } else { 3 }, nquery: 4, scales: &[1.0, 1.0, 1.0, 1e-9, 3e-8, 1e-4, 1e7, 1e-158],
    };
    // the binary32 model runs on SpecFloat (about 60 us per operation under vm_compute): small instances only
    let lim32 = Limits {
        maxn: if thorough { 20 } else { 12 }, maxk: 3, maxd: 3, maxbudget: if thorough { 4 } else { 3 },
        maxruns: if thorough { 3 } else { 2 }, nquery: 3, scales: &[1.0, 1.0, 1e-4, 3e-3, 1e3, 1e-20],
    };
    for id in 0..ndatasets as u64 {
        let mut r = rng.fork();
        // every 3rd dataset is an f32 one (ids are spread over the shards modulo 16, so the slow cases are too)
        if id % 3 == 2 { one_dataset::<f32>(id, &mut r, &lim32, &mut out) } else { one_dataset::<f64>(id, &mut r, &lim64, &mut out) }
    }
    out.finish("datasets drawn from 5 families (separated blobs, overlapping clouds, integer lattice with duplicates, fewer distinct points than clusters, large offset) x float type (f64, every third f32) x metric x initialiser stream (precomputed from data / arbitrary, random, k-means++, k-means||); a case is non-trivial when k > 1 and the data has > 1 distinct point; distinct = distinct (data, k, stream, float type) hashes");
}
