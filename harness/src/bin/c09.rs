//! C09 harness: k-means fits on generated data (f64 and f32); emits Coq cases for C09/Corr.v.
use linfa::prelude::*;
use linfa_clustering::{KMeans, KMeansInit};
use linfa_nn::distance::{Distance, L1Dist, L2Dist, LInfDist};
use ndarray::{Array2, ArrayView2};
use rand::{RngCore, SeedableRng};
use rand_xoshiro::Xoshiro256Plus;
use vh::*;

#[derive(Clone, Copy, PartialEq, Debug)]
enum Met { L1, L2, Linf }

/// the two float types of the property; values cross to Coq as exact literals
trait Fl: linfa::Float + std::fmt::Debug + std::panic::RefUnwindSafe + std::panic::UnwindSafe {
    const NAME: &'static str;
    const CTOR: &'static str;
    fn of64(v: f64) -> Self;
    fn to64(self) -> f64;
    fn bits(self) -> u64;
    fn scalar(self) -> String;
    fn vec(xs: &[Self]) -> String;
    fn mat(rows: &[Vec<Self>]) -> String;
}
impl Fl for f64 {
    const NAME: &'static str = "f64";
    const CTOR: &'static str = "Case64";
    fn of64(v: f64) -> f64 { v }
    fn to64(self) -> f64 { self }
    fn bits(self) -> u64 { self.to_bits() }
    fn scalar(self) -> String { sf64(self) }
    fn vec(xs: &[f64]) -> String { cvec64(xs) }
    fn mat(rows: &[Vec<f64>]) -> String { cmat64(rows) }
}
impl Fl for f32 {
    const NAME: &'static str = "f32";
    const CTOR: &'static str = "Case32";
    fn of64(v: f64) -> f32 { v as f32 }
    fn to64(self) -> f64 { self as f64 }
    fn bits(self) -> u64 { self.to_bits() as u64 }
    // IEEE bit pattern, decoded by C09.Corr.b32 = Common.B32.b32_of_bits
    fn scalar(self) -> String { format!("(b32 {})", cbits32(self)) }
    fn vec(xs: &[f32]) -> String { clist(xs, |x| format!("b32 {}", cbits32(*x))) }
    fn mat(rows: &[Vec<f32>]) -> String { clist(rows, |r| Self::vec(r)) }
}

#[derive(Clone, Debug)]
enum Init<F> { Pre(Vec<Vec<F>>), Random, PlusPlus, Para,
    /// k-means|| fitted inside a one-thread rayon pool (the task split of `sample_subsequent_candidates` is then a
    /// function of the number of observations, so the model can replay it from the parameter generator's words)
    Para1 }

struct FitOut<F> {
    centroids: Vec<Vec<F>>, counts: Vec<F>, inertia: F, predict: Vec<usize>, predict1: Vec<usize>, transform: Vec<F>,
    /// the other call forms (owned matrix, dataset, dataset reference, column-major copy, view into a wider matrix)
    /// returned something else than `predict(&Array2)` / `transform(&Array2)`
    forms_differ: Option<String>,
}

fn arr<F: Fl>(rows: &[Vec<F>]) -> Array2<F> {
    let d = if rows.is_empty() { 0 } else { rows[0].len() };
    Array2::from_shape_vec((rows.len(), d), rows.iter().flatten().cloned().collect()).unwrap()
}
fn rows_gen<F: Fl>(a: &ArrayView2<F>) -> Vec<Vec<F>> {
    a.rows().into_iter().map(|r| r.to_vec()).collect()
}

/// memory layouts the same logical matrix is presented in (records, query batch, precomputed centroids)
const LAYOUTS: [&str; 8] = ["row_major", "col_major", "rev_rows_view", "rev_rows_owned", "rev_cols_view", "rev_cols_owned", "strided_rows", "strided_cols"];
/// layout of the current dataset (rotates with the dataset id)
static LAYOUT: std::sync::atomic::AtomicU8 = std::sync::atomic::AtomicU8::new(0);
/// owned arrays whose strides stayed negative after `.to_owned()` of a reversed view (sanity counter)
static NEG_OWNED: std::sync::atomic::AtomicUsize = std::sync::atomic::AtomicUsize::new(0);

/// backing storage + recipe for a view with the logical content of `a`
struct Lay<F> { store: Array2<F>, kind: u8 }
impl<F: Fl> Lay<F> {
    fn new(a: &Array2<F>, kind: u8) -> Lay<F> {
        let (n, p) = a.dim();
        let junk = F::nan();
        let store = match kind {
            1 => {
                // column-major owned: (p, n) standard array, transposed
                let mut t = Array2::<F>::zeros((p, n));
                t.assign(&a.t());
                t.reversed_axes()
            }
            2 | 3 => {
                let mut rev = Array2::<F>::zeros((n, p));
                for i in 0..n { rev.row_mut(n - 1 - i).assign(&a.row(i)); }
                if kind == 3 {
                    let o = rev.slice(ndarray::s![..;-1, ..]).to_owned();
                    if o.strides().iter().any(|&st| st < 0) { NEG_OWNED.fetch_add(1, std::sync::atomic::Ordering::Relaxed); }
                    o
                } else { rev }
            }
            4 | 5 => {
                let mut rev = Array2::<F>::zeros((n, p));
                for j in 0..p { rev.column_mut(p - 1 - j).assign(&a.column(j)); }
                if kind == 5 {
                    let o = rev.slice(ndarray::s![.., ..;-1]).to_owned();
                    if o.strides().iter().any(|&st| st < 0) { NEG_OWNED.fetch_add(1, std::sync::atomic::Ordering::Relaxed); }
                    o
                } else { rev }
            }
            6 => {
                let mut w = Array2::<F>::from_elem((2 * n, p), junk);
                for i in 0..n { w.row_mut(2 * i).assign(&a.row(i)); }
                w
            }
            7 => {
                let mut w = Array2::<F>::from_elem((n, 2 * p), junk);
                for j in 0..p { w.column_mut(2 * j).assign(&a.column(j)); }
                w
            }
            _ => a.clone(),
        };
        Lay { store, kind }
    }
    /// kinds whose logical array IS the owned store
    fn owned(&self) -> bool { matches!(self.kind, 0 | 1 | 3 | 5) }
    fn view(&self) -> ArrayView2<'_, F> {
        match self.kind {
            2 => self.store.slice(ndarray::s![..;-1, ..]),
            4 => self.store.slice(ndarray::s![.., ..;-1]),
            6 => self.store.slice(ndarray::s![..;2, ..]),
            7 => self.store.slice(ndarray::s![.., ..;2]),
            _ => self.store.view(),
        }
    }
}

/// predict (matrix and single rows) and transform on a query batch in whatever representation
fn query_model<F: Fl, D: Distance<F> + std::fmt::Debug + 'static, DQ: ndarray::Data<Elem = F>>(
    model: &KMeans<F, D>, q: &ndarray::ArrayBase<DQ, ndarray::Ix2>,
) -> (Vec<usize>, Vec<F>, Vec<usize>) {
    let predict: ndarray::Array1<usize> = model.predict(q);
    let transform = model.transform(q).to_vec();
    // the single-observation form: PredictInplace<ArrayBase<_, Ix1>, usize>
    let predict1: Vec<usize> = q.rows().into_iter().map(|row| { let p: usize = model.predict(&row); p }).collect();
    (predict.to_vec(), transform, predict1)
}

fn fit_with<F: Fl, D: Distance<F> + std::fmt::Debug + 'static>(
    dist: D, x: &Array2<F>, q: &Array2<F>, k: usize, init: &Init<F>, seed: u64, max_iter: u64, tol: F, n_runs: usize,
) -> Result<FitOut<F>, String> {
    let layout = LAYOUT.load(std::sync::atomic::Ordering::Relaxed);
    let rng = Xoshiro256Plus::seed_from_u64(seed);
    let im = match init {
        // the precomputed centroids are an owned array: the owned layouts apply to them
        Init::Pre(c) => KMeansInit::Precomputed(Lay::new(&arr(c), [0u8, 1, 3, 3, 5, 5, 1, 5][layout as usize]).store),
        Init::Random => KMeansInit::Random,
        Init::PlusPlus => KMeansInit::KMeansPlusPlus,
        Init::Para | Init::Para1 => KMeansInit::KMeansPara,
    };
    let params = KMeans::params_with(k, rng, dist).max_n_iterations(max_iter).tolerance(tol).n_runs(n_runs).init_method(im);
    let xl = Lay::new(x, layout);
    let model = if xl.owned() {
        params.fit(&DatasetBase::from(xl.store.clone())).map_err(|e| format!("{}", e))?
    } else {
        params.fit(&DatasetBase::from(xl.view())).map_err(|e| format!("{}", e))?
    };
    let ql = Lay::new(q, layout);
    let (predict, transform, predict1) = if ql.owned() { query_model(&model, &ql.store) } else { query_model(&model, &ql.view()) };
    // the remaining call forms must agree bit for bit with the two above (judged here, not in Coq)
    let mut forms_differ = None;
    {
        let mut note = |name: &str, ok: bool| { if !ok && forms_differ.is_none() { forms_differ = Some(name.to_string()); } };
        let owned: DatasetBase<Array2<F>, ndarray::Array1<usize>> = model.predict(q.clone());
        note("predict(Array2)", owned.targets().to_vec() == predict);
        let dsq = DatasetBase::from(q.clone());
        let byref: ndarray::Array1<usize> = model.predict(&dsq);
        note("predict(&DatasetBase)", byref.to_vec() == predict);
        let byval: DatasetBase<Array2<F>, ndarray::Array1<usize>> = model.predict(dsq);
        note("predict(DatasetBase)", byval.targets().to_vec() == predict);
        // column-major copy: rows are strided
        let mut qf = Array2::<F>::zeros((q.ncols(), q.nrows()));
        qf.assign(&q.t());
        let qf = qf.reversed_axes();
        let pf: ndarray::Array1<usize> = model.predict(&qf);
        note("predict(column-major)", pf.to_vec() == predict);
        let tf = model.transform(&qf).to_vec();
        note("transform(column-major)", tf.iter().zip(&transform).all(|(a, b)| a.bits() == b.bits()) && tf.len() == transform.len());
        // a view into a wider matrix (row stride larger than the row length)
        let mut wide = Array2::<F>::zeros((q.nrows(), q.ncols() + 2));
        wide.slice_mut(ndarray::s![.., 1..q.ncols() + 1]).assign(q);
        let qv = wide.slice(ndarray::s![.., 1..q.ncols() + 1]);
        let pv: ndarray::Array1<usize> = model.predict(&qv);
        note("predict(view)", pv.to_vec() == predict);
        let tv = model.transform(&qv).to_vec();
        note("transform(view)", tv.iter().zip(&transform).all(|(a, b)| a.bits() == b.bits()) && tv.len() == transform.len());
    }
    Ok(FitOut {
        centroids: rows_gen(&model.centroids().view()),
        counts: model.cluster_count().to_vec(),
        inertia: model.inertia(),
        predict,
        predict1,
        transform,
        forms_differ,
    })
}

/// the one-thread pool; replaced when a fit got stuck inside it
static POOL1: std::sync::Mutex<Option<std::sync::Arc<rayon::ThreadPool>>> = std::sync::Mutex::new(None);
fn pool1() -> std::sync::Arc<rayon::ThreadPool> {
    let mut g = POOL1.lock().unwrap();
    if g.is_none() {
        *g = Some(std::sync::Arc::new(rayon::ThreadPoolBuilder::new().num_threads(1).build().unwrap()));
    }
    g.as_ref().unwrap().clone()
}
/// fits of the current dataset run inside the one-thread pool (every other dataset; the assignment step is a
/// rayon `par_for_each`, its result must not depend on the pool) - k-means|| replay always does
static SINGLE_POOL: std::sync::atomic::AtomicBool = std::sync::atomic::AtomicBool::new(false);
/// fits that did not return within FIT_TIMEOUT_S (their threads are abandoned; the process exits explicitly)
static HUNG: std::sync::atomic::AtomicUsize = std::sync::atomic::AtomicUsize::new(0);
const FIT_TIMEOUT_S: u64 = 20;
const MAX_HUNG: usize = 3;

/// every fit runs on its own thread under a watchdog: the instances are tiny (n <= 60, max_n_iterations <= 8,
/// n_runs <= 5), so a fit that does not return within FIT_TIMEOUT_S is not bounded by its iteration budget
fn do_fit_raw<F: Fl>(m: Met, x: &Array2<F>, q: &Array2<F>, k: usize, init: &Init<F>, seed: u64, max_iter: u64, tol: F, n_runs: usize) -> Result<FitOut<F>, String> {
    let (x2, q2, init2) = (x.clone(), q.clone(), init.clone());
    let one_thread = matches!(init, Init::Para1) || (SINGLE_POOL.load(std::sync::atomic::Ordering::Relaxed) && !matches!(init, Init::Para));
    let job = move || match guarded(move || match m {
        Met::L1 => fit_with(L1Dist, &x2, &q2, k, &init2, seed, max_iter, tol, n_runs),
        Met::L2 => fit_with(L2Dist, &x2, &q2, k, &init2, seed, max_iter, tol, n_runs),
        Met::Linf => fit_with(LInfDist, &x2, &q2, k, &init2, seed, max_iter, tol, n_runs),
    }) {
        Ok(r) => r,
        Err(p) => Err(format!("PANIC: {}", p)),
    };
    let pool = if one_thread { Some(pool1()) } else { None };
    let (tx, rx) = std::sync::mpsc::channel();
    std::thread::spawn(move || {
        let r = match pool { Some(p) => p.install(job), None => job() };
        let _ = tx.send(r);
    });
    match rx.recv_timeout(std::time::Duration::from_secs(FIT_TIMEOUT_S)) {
        Ok(r) => r,
        Err(_) => {
            HUNG.fetch_add(1, std::sync::atomic::Ordering::Relaxed);
            if one_thread { *POOL1.lock().unwrap() = None; }
            Err(format!("TIMEOUT: fit with max_n_iterations={} n_runs={} did not return within {} s", max_iter, n_runs, FIT_TIMEOUT_S))
        }
    }
}

/// power-of-two scale exponent e of the current dataset when the exact covariance twin is to be run (0 = none):
/// the data, the queries, the precomputed centroids and the tolerance of the dataset are 2^e times a base instance
static COV_EXP: std::sync::atomic::AtomicI32 = std::sync::atomic::AtomicI32::new(0);
static COV_FAILS: std::sync::Mutex<Vec<String>> = std::sync::Mutex::new(Vec::new());
static COV_CHECKED: std::sync::atomic::AtomicUsize = std::sync::atomic::AtomicUsize::new(0);

/// the fit, plus (for power-of-two scaled datasets) the same fit on the base instance: scaling by a power of two is
/// exact in binary floating point as long as nothing over- or underflows, and k-means has no absolute constant besides
/// the user's tolerance (scaled along), so centroids must scale by 2^e, distances by 2^e (L1, Linf) or 2^2e (L2 reduced
/// distance, inertia), and predictions / counts must be identical - bit for bit
fn do_fit<F: Fl>(m: Met, x: &Array2<F>, q: &Array2<F>, k: usize, init: &Init<F>, seed: u64, max_iter: u64, tol: F, n_runs: usize) -> Result<FitOut<F>, String> {
    let res = do_fit_raw(m, x, q, k, init, seed, max_iter, tol, n_runs)?;
    let e = COV_EXP.load(std::sync::atomic::Ordering::Relaxed);
    // k-means|| in the multi-thread pool is not a function of its input (task split by work stealing): no twin
    if e != 0 && !matches!(init, Init::Para) {
        let s = F::of64(2f64.powi(e));
        let xb = x.mapv(|v| v / s);
        let qb = q.mapv(|v| v / s);
        let ib = match init { Init::Pre(c) => Init::Pre(c.iter().map(|r| r.iter().map(|v| *v / s).collect()).collect()), o => o.clone() };
        let base = do_fit_raw(m, &xb, &qb, k, &ib, seed, max_iter, tol / s, n_runs)?;
        COV_CHECKED.fetch_add(1, std::sync::atomic::Ordering::Relaxed);
        let sd = if m == Met::L2 { s * s } else { s };
        let mut bad: Option<String> = None;
        if !base.centroids.iter().flatten().map(|v| (*v * s).bits()).eq(res.centroids.iter().flatten().map(|v| v.bits())) {
            bad = Some(format!("centroids {:?} at scale 2^{} are not 2^{} x {:?}", res.centroids, e, e, base.centroids));
        } else if base.predict != res.predict || base.predict1 != res.predict1 {
            bad = Some(format!("predict {:?} / {:?} at scale 2^{} differs from {:?} / {:?} at scale 1", res.predict, res.predict1, e, base.predict, base.predict1));
        } else if !base.counts.iter().map(|v| v.bits()).eq(res.counts.iter().map(|v| v.bits())) {
            bad = Some(format!("cluster_count {:?} at scale 2^{} differs from {:?} at scale 1", res.counts, e, base.counts));
        } else if !base.transform.iter().map(|v| (*v * sd).bits()).eq(res.transform.iter().map(|v| v.bits())) {
            bad = Some(format!("transform {:?} at scale 2^{} is not the scaled {:?}", res.transform, e, base.transform));
        } else if (base.inertia * sd).bits() != res.inertia.bits() {
            bad = Some(format!("inertia {:?} at scale 2^{} is not the scaled {:?}", res.inertia, e, base.inertia));
        }
        if let Some(b) = bad {
            COV_FAILS.lock().unwrap().push(format!("max_n_iterations={} n_runs={}: {}", max_iter, n_runs, b));
        }
    }
    Ok(res)
}

fn gen_data(rng: &mut Sm64, n: usize, d: usize, kind: u64) -> Vec<Vec<f64>> {
    let nb = 1 + rng.below(4) as usize;
    let centers: Vec<Vec<f64>> = (0..nb).map(|_| (0..d).map(|_| rng.range(-8, 8) as f64 * 2.5).collect()).collect();
    let mut rows: Vec<Vec<f64>> = Vec::new();
    for i in 0..n {
        let c = &centers[i % nb];
        let r: Vec<f64> = match kind {
            0 => c.iter().map(|v| v + 0.3 * rng.gauss()).collect(),          // separated blobs
            1 => c.iter().map(|v| 0.3 * v + 2.0 * rng.gauss()).collect(),    // overlapping clouds
            2 => (0..d).map(|_| rng.range(-2, 2) as f64).collect(),          // lattice: duplicates and ties
            3 => c.clone(),                                                  // fewer distinct points than clusters
            _ => c.iter().map(|v| v * 1e3 + 1e-3 * rng.gauss()).collect(),   // large offset, tiny spread
        };
        rows.push(r);
    }
    rows
}

fn replay_random_inits<F: Fl>(x: &[Vec<F>], k: usize, seed: u64, n_runs: usize) -> Vec<Vec<Vec<F>>> {
    // KMeansInit::Random = rand::seq::index::sample(rng, n, k) on the cloned parameter RNG; the Lloyd
    // loop draws nothing, so consecutive runs take consecutive samples from one stream.
    let mut rng = Xoshiro256Plus::seed_from_u64(seed);
    (0..n_runs)
        .map(|_| rand::seq::index::sample(&mut rng, x.len(), k).into_vec().iter().map(|&i| x[i].clone()).collect())
        .collect()
}

/// the raw output of the parameter generator: all the Coq model of k-means++ needs (it contains rand's
/// WeightedIndex / UniformFloat arithmetic); at most one word per centroid and run is consumed
fn rng_words(seed: u64, count: usize) -> Vec<u64> {
    let mut rng = Xoshiro256Plus::seed_from_u64(seed);
    (0..count).map(|_| rng.next_u64()).collect()
}

fn note_forms<F: Fl>(f: &FitOut<F>, fails: &mut Vec<(u64, String)>) {
    if let Some(name) = &f.forms_differ {
        if !fails.iter().any(|(c, _)| *c == 8192) {
            fails.push((8192, format!("{} disagrees with predict(&Array2) / transform(&Array2) on the same query", name)));
        }
    }
}

enum InitTerm<F> { Given(Vec<Vec<Vec<F>>>), Replayed(Vec<Vec<Vec<F>>>), Words(usize, Vec<u64>), ParaWords(usize, Vec<u64>), Hidden }

fn fit_term<F: Fl>(fuel: u64, tol: F, init: &InitTerm<F>, k: usize, f: &FitOut<F>, q: &[Vec<F>]) -> String {
    let it = match init {
        InitTerm::Given(l) => format!("InitGiven {}", clist(l, |m| F::mat(m))),
        InitTerm::Replayed(l) => format!("InitRandom {}", clist(l, |m| F::mat(m))),
        InitTerm::Words(runs, w) => format!("InitPlusPlus {} ({})%N", cn(*runs as u64), clist(w, |v| format!("{}", v))),
        InitTerm::ParaWords(runs, w) => format!("InitPara1 {} ({})%N", cn(*runs as u64), clist(w, |v| format!("{}", v))),
        InitTerm::Hidden => "InitHidden".to_string(),
    };
    format!(
        "{{| fc_fuel := {}; fc_tol := {}; fc_init := {}; fc_k := {}; fc_centroids := {}; fc_counts := {}; fc_inertia := {}; fc_query := {}; fc_predict := {}; fc_predict1 := {}; fc_transform := {} |}}",
        cn(fuel), tol.scalar(), it, cn(k as u64), F::mat(&f.centroids), F::vec(&f.counts), f.inertia.scalar(),
        F::mat(q), cvecn(&f.predict), cvecn(&f.predict1), F::vec(&f.transform)
    )
}

struct Limits { maxn: usize, maxk: usize, maxd: usize, maxbudget: u64, maxruns: usize, nquery: usize, scales: &'static [f64] }

fn one_dataset<F: Fl>(id: u64, r: &mut Sm64, lim: &Limits, out: &mut Out) {
    let mets = [Met::L2, Met::L2, Met::L1, Met::Linf];
    let d = 1 + r.below(lim.maxd as u64) as usize;
    let n = 2 + r.below(lim.maxn as u64 - 1) as usize;
    let kind = r.below(5);
    let k = 1 + r.below(std::cmp::min(n, lim.maxk) as u64) as usize;
    // magnitude family: the arithmetic is modelled bit for bit, so any scale is fair game; tiny scales
    // expose absolute-epsilon shortcuts, large ones lossy accumulations
    let scale = *r.pick(lim.scales);
    let subnormal = scale < 1e-19;
    // power-of-two families: the exact covariance twin runs unless the reduced distances could underflow (f32 at 2^-40)
    let pow2: i32 = if scale != 1.0 && scale.log2().fract() == 0.0 && scale.log2().abs() <= 64.0 { scale.log2() as i32 } else { 0 };
    let cov = pow2 != 0 && !(F::NAME == "f32" && pow2 <= -40);
    COV_EXP.store(if cov { pow2 } else { 0 }, std::sync::atomic::Ordering::Relaxed);
    let layout = (id % 8) as u8;
    LAYOUT.store(layout, std::sync::atomic::Ordering::Relaxed);
    let x: Vec<Vec<F>> = gen_data(r, n, d, kind).into_iter().map(|row| row.into_iter().map(|v| F::of64(v * scale)).collect()).collect();
    let m = *r.pick(&mets);
    let xa = arr(&x);
    // queries: fresh points, stored points, midpoints of stored points (ties between centroids are likely on lattices)
    let mut q: Vec<Vec<F>> = Vec::new();
    for _ in 0..lim.nquery {
        match r.below(3) {
            0 => q.push((0..d).map(|_| F::of64(r.range(-20, 20) as f64 * 0.5 * scale)).collect()),
            1 => q.push(x[r.below(n as u64) as usize].clone()),
            _ => {
                let a = &x[r.below(n as u64) as usize];
                let b = &x[r.below(n as u64) as usize];
                q.push(a.iter().zip(b).map(|(u, v)| (*u + *v) / F::of64(2.0)).collect());
            }
        }
    }
    let qa = arr(&q);
    let tol = F::of64(*r.pick(&[1e-4, 1e-2, 1e-12, 1.0]) * scale);
    let stream = r.below(8);
    let mname = format!("{:?}", m);
    let seed = r.below(1000);
    let mut fits: Vec<String> = Vec::new();
    let scale_name = if pow2 != 0 { format!("2^{}", pow2) } else { format!("{:e}", scale) };
    let mut tags: Vec<String> = vec![format!("metric_{}", mname), format!("kind_{}", kind), format!("scale_{}", scale_name), F::NAME.to_string(),
        format!("layout_{}", LAYOUTS[layout as usize])];
    if cov { tags.push("pow2_covariance_twin".into()); }
    out.bump(&format!("layout_{}", LAYOUTS[layout as usize]));
    out.bump(&format!("{}_layout_{}", F::NAME, LAYOUTS[layout as usize]));
    if subnormal { tags.push("subnormal_sq_dists".into()); }
    out.bump(&format!("{}_scale_{}", F::NAME, scale_name));
    out.bump(&format!("scale_{}", scale_name));
    let single = (id / 8) % 2 == 1;
    SINGLE_POOL.store(single, std::sync::atomic::Ordering::Relaxed);
    out.bump(if single || stream == 7 { "pool_one_thread" } else { "pool_default" });
    let mut series = 0;
    let mut bbox = true;
    let mut failed: Option<String> = None;
    // (max_n_iterations, n_runs) of every fit of the case, for the replay description
    let mut configs: Vec<(u64, usize)> = Vec::new();
    // Rust-side verdicts: (oracle code, what)
    let mut rust_fails: Vec<(u64, String)> = Vec::new();
    // initial centroids of the restarts where the harness knows them (precomputed / replayed random rows)
    let mut init_desc: Option<Vec<Vec<Vec<f64>>>> = None;
    match stream {
        0 | 1 => {
            // precomputed initial centroids, growing iteration budget
            let init: Vec<Vec<F>> = if stream == 0 {
                let mut idx: Vec<usize> = (0..n).collect();
                r.shuffle(&mut idx);
                idx[..k].iter().map(|&i| x[i].clone()).collect()
            } else {
                bbox = false;
                (0..k).map(|_| (0..d).map(|_| F::of64(r.range(-30, 30) as f64 * scale)).collect()).collect()
            };
            tags.push("init_precomputed".into());
            init_desc = Some(vec![init.iter().map(|c| c.iter().map(|v| v.to64()).collect()).collect()]);
            // the cost comparison is evaluated in floats with a relative slack: meaningless where the squared
            // distances are subnormal (those families are for the bit-exact correspondence)
            if m == Met::L2 && !subnormal { series = 1; }
            for b in 1..=lim.maxbudget {
                configs.push((b, 1));
                match do_fit(m, &xa, &qa, k, &Init::Pre(init.clone()), seed, b, tol, 1) {
                    Ok(f) => { note_forms(&f, &mut rust_fails); fits.push(fit_term(b, tol, &InitTerm::Given(vec![init.clone()]), k, &f, &q)) }
                    Err(e) => { failed = Some(e); break; }
                }
            }
        }
        2 => {
            // random initialiser, growing number of restarts from one seed
            tags.push("init_random".into());
            series = 2;
            let b = 1 + r.below(4);
            for runs in 1..=lim.maxruns {
                let inits = replay_random_inits(&x, k, seed, runs);
                configs.push((b, runs));
                match do_fit(m, &xa, &qa, k, &Init::Random, seed, b, tol, runs) {
                    Ok(f) => { note_forms(&f, &mut rust_fails); fits.push(fit_term(b, tol, &InitTerm::Replayed(inits), k, &f, &q)) }
                    Err(e) => { failed = Some(e); break; }
                }
            }
        }
        3 => {
            // k-means++: the model replays rand's weighted sampling from the generator's raw words;
            // growing number of restarts from one seed
            tags.push("init_plusplus".into());
            series = 2;
            let b = 1 + r.below(3);
            for runs in 1..=lim.maxruns {
                let words = rng_words(seed, k * runs);
                configs.push((b, runs));
                match do_fit(m, &xa, &qa, k, &Init::PlusPlus, seed, b, tol, runs) {
                    Ok(f) => { note_forms(&f, &mut rust_fails); fits.push(fit_term(b, tol, &InitTerm::Words(runs, words), k, &f, &q)) }
                    Err(e) => { failed = Some(e); break; }
                }
            }
        }
        4 => {
            // k-means|| in the default (multi-thread) pool: candidates are sampled by per-rayon-task generators
            // seeded from a shared atomic counter and the split into tasks depends on work stealing, so the initial
            // centroids are not a function of observable draws -> property oracle only
            tags.push("init_para".into());
            let b = 1 + r.below(6);
            let runs = 1 + r.below(lim.maxruns as u64) as usize;
            configs.push((b, runs));
            match do_fit(m, &xa, &qa, k, &Init::Para, seed, b, tol, runs) {
                Ok(f) => { note_forms(&f, &mut rust_fails); fits.push(fit_term(b, tol, &InitTerm::Hidden, k, &f, &q)) }
                Err(e) => failed = Some(e),
            }
        }
        5 => {
            // restarts x budget, precomputed initial centroids: every restart starts from the same centroids, so
            // n_runs must not matter at all (Properties.v restarts_of_one_init) and every restart has the whole
            // budget; growing budget -> cost series
            tags.push("init_precomputed".into());
            tags.push("restarts_budget".into());
            let mut idx: Vec<usize> = (0..n).collect();
            r.shuffle(&mut idx);
            let init: Vec<Vec<F>> = idx[..k].iter().map(|&i| x[i].clone()).collect();
            let runs = 2 + r.below(2) as usize;
            init_desc = Some(vec![init.iter().map(|c| c.iter().map(|v| v.to64()).collect()).collect(); runs]);
            if m == Met::L2 && !subnormal { series = 1; }
            for b in 1..=lim.maxbudget {
                configs.push((b, runs));
                match do_fit(m, &xa, &qa, k, &Init::Pre(init.clone()), seed, b, tol, runs) {
                    Ok(f) => {
                        note_forms(&f, &mut rust_fails);
                        match do_fit(m, &xa, &qa, k, &Init::Pre(init.clone()), seed, b, tol, 1) {
                            Ok(f1) => {
                                let same = f1.centroids.iter().flatten().map(|v| v.bits()).eq(f.centroids.iter().flatten().map(|v| v.bits()))
                                    && f1.counts.iter().map(|v| v.bits()).eq(f.counts.iter().map(|v| v.bits()))
                                    && f1.inertia.bits() == f.inertia.bits();
                                if !same {
                                    rust_fails.push((4096, format!(
                                        "precomputed initial centroids, max_n_iterations={}: n_runs={} returns centroids {:?} (inertia {:?}) but n_runs=1 returns {:?} (inertia {:?})",
                                        b, runs, f.centroids, f.inertia, f1.centroids, f1.inertia)));
                                }
                            }
                            Err(e) => { failed = Some(e); break; }
                        }
                        fits.push(fit_term(b, tol, &InitTerm::Given(vec![init.clone(); runs]), k, &f, &q))
                    }
                    Err(e) => { failed = Some(e); break; }
                }
            }
        }
        6 => {
            // restarts x budget, random initialiser: a fixed number (>= 2) of restarts from one seed, growing budget:
            // the cost of the returned centroids must not increase (Properties.v restarts_cost_monotone_in_budget)
            tags.push("init_random".into());
            tags.push("restarts_budget".into());
            let runs = 2 + r.below(2) as usize;
            if m == Met::L2 && !subnormal { series = 1; }
            let inits = replay_random_inits(&x, k, seed, runs);
            init_desc = Some(inits.iter().map(|i| i.iter().map(|c| c.iter().map(|v| v.to64()).collect()).collect()).collect());
            for b in 1..=lim.maxbudget {
                configs.push((b, runs));
                match do_fit(m, &xa, &qa, k, &Init::Random, seed, b, tol, runs) {
                    Ok(f) => { note_forms(&f, &mut rust_fails); fits.push(fit_term(b, tol, &InitTerm::Replayed(inits.clone()), k, &f, &q)) }
                    Err(e) => { failed = Some(e); break; }
                }
            }
        }
        _ => {
            // k-means|| inside a one-thread rayon pool: the model replays gen_range, the per-task Xoshiro256Plus
            // generators, the candidate rounds and the weighted k-means++ re-clustering from the raw words of the
            // parameter generator; growing number of restarts from one seed
            tags.push("init_para1".into());
            series = 2;
            let b = 1 + r.below(3);
            for runs in 1..=lim.maxruns {
                // per restart: first index (1 word + rejections), <= 8 round seeds, <= k weighted draws
                let words = rng_words(seed, runs * (k + 9) + 48);
                configs.push((b, runs));
                match do_fit(m, &xa, &qa, k, &Init::Para1, seed, b, tol, runs) {
                    Ok(f) => { note_forms(&f, &mut rust_fails); fits.push(fit_term(b, tol, &InitTerm::ParaWords(runs, words), k, &f, &q)) }
                    Err(e) => { failed = Some(e); break; }
                }
            }
        }
    }
    let x0: Vec<f64> = x[0].iter().map(|v| v.to64()).collect();
    let desc = format!(
        "{{\"float\": {}, \"n\": {}, \"d\": {}, \"k\": {}, \"metric\": {}, \"kind\": {}, \"stream\": {}, \"seed\": {}, \"tol\": {:e}, \"scale\": {:e}, \"layout\": {}, \"fits\": {}, \"max_n_iterations_n_runs\": {:?}, \"X_first_row\": {:?}, \"X\": {:?}, \"initial_centroids_per_restart\": {}}}",
        jstr(F::NAME), n, d, k, jstr(&mname), kind, stream, seed, tol.to64(), scale, jstr(LAYOUTS[layout as usize]), fits.len(),
        configs.iter().map(|c| vec![c.0, c.1 as u64]).collect::<Vec<_>>(), x0,
        x.iter().map(|row| row.iter().map(|v| v.to64()).collect::<Vec<f64>>()).collect::<Vec<_>>(),
        match &init_desc { Some(i) => format!("{:?}", i), None => "null".to_string() }
    );
    out.bump(&format!("float_{}", F::NAME));
    out.bump(&format!("stream_{}", stream));
    out.bump(&format!("metric_{}", mname));
    out.bump(&format!("kind_{}", kind));
    out.bump(&format!("k_{}", k));
    out.bump(&format!("n_{}", if n < 10 { "lt10" } else if n < 30 { "10to29" } else { "ge30" }));
    let tagrefs: Vec<&str> = tags.iter().map(|s| s.as_str()).collect();
    for what in COV_FAILS.lock().unwrap().drain(..).take(2) {
        rust_fails.push((32768, format!("power-of-two scale covariance broken: {}", what)));
    }
    COV_FAILS.lock().unwrap().clear();
    for (code, what) in &rust_fails {
        out.rust_fail(id, *code, &tagrefs, what, &desc);
    }
    if let Some(e) = failed {
        // a finite dataset with k <= n must fit: an error or panic is a violation of "has exactly k finite centroids"
        let code = if e.starts_with("TIMEOUT") { 16384 } else { 1024 };
        out.rust_fail(id, code, &tagrefs, &format!("fit failed: {}", e), &desc);
        out.rust_eval(&desc, None);
    } else {
        let coq = format!(
            "{} {{| c_id := {}%N; c_metric := {}; c_X := {}; c_bbox := {}; c_series := {}%N; c_fits := [{}] |}}",
            F::CTOR, id, mname, F::mat(&x), cbool(bbox), series, fits.join("; ")
        );
        // non-trivial: more than one cluster and more than one distinct point
        let distinct = { let mut v: Vec<Vec<u64>> = x.iter().map(|r| r.iter().map(|f| f.bits()).collect()).collect(); v.sort(); v.dedup(); v.len() };
        let flat: Vec<f64> = x.iter().flatten().map(|v| v.to64()).collect();
        let salt = (k as u64) << 8 | stream | if F::NAME == "f32" { 1 << 40 } else { 0 };
        let key = if k > 1 && distinct > 1 { Some(fnv_f64s(&flat, salt)) } else { None };
        out.case(id, &coq, &tagrefs, &desc, key);
    }
}

const P2M40: f64 = 9.094947017729282e-13;
const P2M20: f64 = 9.5367431640625e-7;
const P2P20: f64 = 1048576.0;
const P2P40: f64 = 1099511627776.0;

fn main() {
    let args = parse_args();
    let mut rng = Sm64::new(args.seed);
    let thorough = args.tier == "thorough";
    let ndatasets = if thorough { 4200 } else { 840 };
    // the thorough tier writes about 30 MB of cases: more, smaller shards keep every coqc below 0.8 GB
    let shards = if thorough { std::cmp::max(args.shards, 40) } else { args.shards };
    let mut out = Out::new(&args.out, shards, "C09.Corr", "case", args.only);
    let lim64 = Limits {
        maxn: if thorough { 60 } else { 28 }, maxk: 5, maxd: 4, maxbudget: if thorough { 8 } else { 5 },
        maxruns: if thorough { 5 } else { 3 }, nquery: 4, scales: &[1.0, 1.0, 1.0, 1e-9, 3e-8, 1e-4, 1e7, 1e-158, P2M40, P2M20, P2P20, P2P40],
    };
    // the binary32 model runs on SpecFloat (about 60 us per operation under vm_compute): small instances only
    let lim32 = Limits {
        maxn: if thorough { 28 } else { 16 }, maxk: 4, maxd: 4, maxbudget: if thorough { 6 } else { 4 },
        maxruns: if thorough { 3 } else { 2 }, nquery: 4, scales: &[1.0, 1.0, 1e-4, 3e-3, 1e3, 1e-20, 1e-9, 1e7, P2M40, P2M20, P2P20, P2P40],
    };
    for id in 0..ndatasets as u64 {
        let mut r = rng.fork();
        // every 3rd dataset is an f32 one (ids are spread over the shards modulo 16, so the slow cases are too)
        if id % 3 == 2 { one_dataset::<f32>(id, &mut r, &lim32, &mut out) } else { one_dataset::<f64>(id, &mut r, &lim64, &mut out) }
        if HUNG.load(std::sync::atomic::Ordering::Relaxed) >= MAX_HUNG {
            // every hung fit keeps a core busy: stop generating, the verdict is a violation anyway
            out.bump("generation_stopped_after_non_terminating_fits");
            break;
        }
    }
    out.bump_by("pow2_covariance_twin_fits", COV_CHECKED.load(std::sync::atomic::Ordering::Relaxed) as u64);
    out.bump_by("owned_arrays_with_negative_strides", NEG_OWNED.load(std::sync::atomic::Ordering::Relaxed) as u64);
    out.finish("datasets drawn from 5 families (separated blobs, overlapping clouds, integer lattice with duplicates, fewer distinct points than clusters, large offset) x float type (f64, every third f32) x metric x stream (precomputed initial centroids from the data / arbitrary with growing budget, random and k-means++ with growing n_runs, k-means|| in the default pool (oracle only), precomputed x n_runs >= 2 x growing budget, random x n_runs >= 2 x growing budget, k-means|| replayed in a one-thread pool with growing n_runs); every dataset presents records, query batch and precomputed centroids in one of 8 memory layouts (row-major, column-major, reversed rows / columns as views and as owned arrays with negative strides, step-2 slices of a longer / wider array; rotating with the dataset id) and at one of 16 (f64) / 12 (f32) magnitudes incl. 2^-40, 2^-20, 2^20, 2^40 (with the exact power-of-two covariance twin); every fit also answers predict (matrix, single rows and four further call forms) and transform (three layouts) on a query set; a case is non-trivial when k > 1 and the data has > 1 distinct point; distinct = distinct (data, k, stream, float type) hashes");
    // (finish consumed `out`; the sanity counters were bumped before)
    // abandoned fit threads (if any) must not keep the process alive
    std::process::exit(0);
}
