//! C09 harness: k-means fits on generated data; emits Coq cases for C09/Corr.v.
use linfa::prelude::*;
use linfa_clustering::{KMeans, KMeansInit};
use linfa_nn::distance::{Distance, L1Dist, L2Dist, LInfDist};
use ndarray::{Array2, Axis};
use rand::SeedableRng;
use rand_xoshiro::Xoshiro256Plus;
use vh::*;

#[derive(Clone, Copy, PartialEq, Debug)]
enum Met { L1, L2, Linf }

#[derive(Clone, Debug)]
enum Init { Pre(Vec<Vec<f64>>), Random, PlusPlus, Para }

struct FitOut { centroids: Vec<Vec<f64>>, counts: Vec<f64>, inertia: f64, predict: Vec<usize>, transform: Vec<f64> }

fn arr(rows: &[Vec<f64>]) -> Array2<f64> {
    let d = if rows.is_empty() { 0 } else { rows[0].len() };
    Array2::from_shape_vec((rows.len(), d), rows.iter().flatten().cloned().collect()).unwrap()
}

fn fit_with<D: Distance<f64> + std::fmt::Debug + 'static>(
    dist: D, x: &Array2<f64>, q: &Array2<f64>, k: usize, init: &Init, seed: u64, max_iter: u64, tol: f64, n_runs: usize,
) -> Result<FitOut, String> {
    let rng = Xoshiro256Plus::seed_from_u64(seed);
    let im = match init {
        Init::Pre(c) => KMeansInit::Precomputed(arr(c)),
        Init::Random => KMeansInit::Random,
        Init::PlusPlus => KMeansInit::KMeansPlusPlus,
        Init::Para => KMeansInit::KMeansPara,
    };
    let params = KMeans::params_with(k, rng, dist).max_n_iterations(max_iter).tolerance(tol).n_runs(n_runs).init_method(im);
    let ds = DatasetBase::from(x.clone());
    let model = params.fit(&ds).map_err(|e| format!("{}", e))?;
    let predict = model.predict(q).to_vec();
    let transform = model.transform(q).to_vec();
    Ok(FitOut {
        centroids: rows_of(&model.centroids().view()),
        counts: model.cluster_count().to_vec(),
        inertia: model.inertia(),
        predict,
        transform,
    })
}

fn do_fit(m: Met, x: &Array2<f64>, q: &Array2<f64>, k: usize, init: &Init, seed: u64, max_iter: u64, tol: f64, n_runs: usize) -> Result<FitOut, String> {
    let (x2, q2, init2) = (x.clone(), q.clone(), init.clone());
    match guarded(move || match m {
        Met::L1 => fit_with(L1Dist, &x2, &q2, k, &init2, seed, max_iter, tol, n_runs),
        Met::L2 => fit_with(L2Dist, &x2, &q2, k, &init2, seed, max_iter, tol, n_runs),
        Met::Linf => fit_with(LInfDist, &x2, &q2, k, &init2, seed, max_iter, tol, n_runs),
    }) {
        Ok(r) => r,
        Err(p) => Err(format!("PANIC: {}", p)),
    }
}

fn gen_data(rng: &mut Sm64, n: usize, d: usize, kind: u64) -> Vec<Vec<f64>> {
    let nb = 1 + rng.below(4) as usize;
    let centers: Vec<Vec<f64>> = (0..nb).map(|_| (0..d).map(|_| rng.range(-8, 8) as f64 * 2.5).collect()).collect();
    let mut rows: Vec<Vec<f64>> = Vec::new();
    for i in 0..n {
        let c = &centers[i % nb];
        let r: Vec<f64> = match kind {
            0 => c.iter().map(|v| v + 0.3 * rng.gauss()).collect(),          // separated blobs
            1 => c.iter().map(|v| 0.3 * v + 2.0 * rng.gauss()).collect(),    // overlapping clouds
            2 => (0..d).map(|_| rng.range(-2, 2) as f64).collect(),          // lattice: duplicates and ties
            3 => c.clone(),                                                  // fewer distinct points than clusters
            _ => c.iter().map(|v| v * 1e3 + 1e-3 * rng.gauss()).collect(),   // large offset, tiny spread
        };
        rows.push(r);
    }
    rows
}

fn replay_random_inits(x: &[Vec<f64>], k: usize, seed: u64, n_runs: usize) -> Vec<Vec<Vec<f64>>> {
    // KMeansInit::Random = rand::seq::index::sample(rng, n, k) on the cloned parameter RNG; the Lloyd
    // loop draws nothing, so consecutive runs take consecutive samples from one stream.
    let mut rng = Xoshiro256Plus::seed_from_u64(seed);
    (0..n_runs)
        .map(|_| rand::seq::index::sample(&mut rng, x.len(), k).into_vec().iter().map(|&i| x[i].clone()).collect())
        .collect()
}

fn fit_term(fuel: u64, tol: f64, inits: &[Vec<Vec<f64>>], k: usize, f: &FitOut, q: &[Vec<f64>]) -> String {
    format!(
        "{{| fc_fuel := {}; fc_tol := {}; fc_inits := {}; fc_k := {}; fc_centroids := {}; fc_counts := {}; fc_inertia := {}; fc_query := {}; fc_predict := {}; fc_transform := {} |}}",
        cn(fuel), sf64(tol), clist(inits, |m| cmat64(m)), cn(k as u64), cmat64(&f.centroids), cvec64(&f.counts), sf64(f.inertia),
        cmat64(q), cvecn(&f.predict), cvec64(&f.transform)
    )
}

fn main() {
    let args = parse_args();
    let mut rng = Sm64::new(args.seed);
    let thorough = args.tier == "thorough";
    let ndatasets = if thorough { 4000 } else { 600 };
    let maxn = if thorough { 60 } else { 28 };
    let mut out = Out::new(&args.out, args.shards, "C09.Corr", "case", args.only);
    let mets = [Met::L2, Met::L2, Met::L1, Met::Linf];
    let mut id: u64 = 0;
    for _ in 0..ndatasets {
        let mut r = rng.fork();
        let d = 1 + r.below(4) as usize;
        let n = 2 + r.below(maxn as u64 - 1) as usize;
        let kind = r.below(5);
        let k = 1 + r.below(std::cmp::min(n, 5) as u64) as usize;
        // magnitude family: the arithmetic is modelled bit for bit, so any scale is fair game; tiny scales
        // expose absolute-epsilon shortcuts, large ones lossy accumulations
        let scale = *r.pick(&[1.0, 1.0, 1.0, 1e-9, 3e-8, 1e-4, 1e7]);
        let x: Vec<Vec<f64>> = gen_data(&mut r, n, d, kind).into_iter().map(|row| row.into_iter().map(|v| v * scale).collect()).collect();
        let m = *r.pick(&mets);
        let xa = arr(&x);
        // queries: fresh points, stored points, midpoints of stored points (ties between centroids are likely on lattices)
        let mut q: Vec<Vec<f64>> = Vec::new();
        for _ in 0..4 {
            match r.below(3) {
                0 => q.push((0..d).map(|_| r.range(-20, 20) as f64 * 0.5 * scale).collect()),
                1 => q.push(x[r.below(n as u64) as usize].clone()),
                _ => {
                    let a = &x[r.below(n as u64) as usize];
                    let b = &x[r.below(n as u64) as usize];
                    q.push(a.iter().zip(b).map(|(u, v)| (u + v) / 2.0).collect());
                }
            }
        }
        let qa = arr(&q);
        let tol = *r.pick(&[1e-4, 1e-2, 1e-12, 1.0]) * scale;
        let stream = r.below(4);
        let mname = format!("{:?}", m);
        let seed = r.below(1000);
        let mut fits: Vec<String> = Vec::new();
        let mut tags: Vec<String> = vec![format!("metric_{}", mname), format!("kind_{}", kind), format!("scale_{:e}", scale)];
        out.bump(&format!("scale_{:e}", scale));
        let mut series = 0;
        let mut bbox = true;
        let mut failed: Option<String> = None;
        match stream {
            0 | 1 => {
                // precomputed initial centroids, growing iteration budget
                let init: Vec<Vec<f64>> = if stream == 0 {
                    let mut idx: Vec<usize> = (0..n).collect();
                    r.shuffle(&mut idx);
                    idx[..k].iter().map(|&i| x[i].clone()).collect()
                } else {
                    bbox = false;
                    (0..k).map(|_| (0..d).map(|_| r.range(-30, 30) as f64 * scale).collect()).collect()
                };
                tags.push("init_precomputed".into());
                if m == Met::L2 { series = 1; }
                let maxb = if thorough { 8 } else { 5 };
                for b in 1..=maxb {
                    match do_fit(m, &xa, &qa, k, &Init::Pre(init.clone()), seed, b, tol, 1) {
                        Ok(f) => fits.push(fit_term(b, tol, &[init.clone()], k, &f, &q)),
                        Err(e) => { failed = Some(e); break; }
                    }
                }
            }
            2 => {
                // random initialiser, growing number of restarts from one seed
                tags.push("init_random".into());
                series = 2;
                let b = 1 + r.below(4);
                for runs in 1..=(if thorough { 5 } else { 3 }) {
                    let inits = replay_random_inits(&x, k, seed, runs);
                    match do_fit(m, &xa, &qa, k, &Init::Random, seed, b, tol, runs) {
                        Ok(f) => fits.push(fit_term(b, tol, &inits, k, &f, &q)),
                        Err(e) => { failed = Some(e); break; }
                    }
                }
            }
            _ => {
                // k-means++ / k-means||: initial centroids are not observable -> property oracle only
                let para = r.chance(0.4);
                tags.push(if para { "init_para".into() } else { "init_plusplus".into() });
                let b = 1 + r.below(6);
                let runs = 1 + r.below(3) as usize;
                let init = if para { Init::Para } else { Init::PlusPlus };
                match do_fit(m, &xa, &qa, k, &init, seed, b, tol, runs) {
                    Ok(f) => fits.push(fit_term(b, tol, &[], k, &f, &q)),
                    Err(e) => failed = Some(e),
                }
            }
        }
        let desc = format!(
            "{{\"n\": {}, \"d\": {}, \"k\": {}, \"metric\": {}, \"kind\": {}, \"stream\": {}, \"seed\": {}, \"tol\": {:e}, \"scale\": {:e}, \"fits\": {}, \"X_first_row\": {:?}}}",
            n, d, k, jstr(&mname), kind, stream, seed, tol, scale, fits.len(), x[0]
        );
        out.bump(&format!("stream_{}", stream));
        out.bump(&format!("metric_{}", mname));
        out.bump(&format!("kind_{}", kind));
        out.bump(&format!("k_{}", k));
        out.bump(&format!("n_{}", if n < 10 { "lt10" } else if n < 30 { "10to29" } else { "ge30" }));
        let tagrefs: Vec<&str> = tags.iter().map(|s| s.as_str()).collect();
        if let Some(e) = failed {
            // a finite dataset with k <= n must fit: an error or panic is a violation of "has exactly k finite centroids"
            out.rust_fail(id, 1024, &tagrefs, &format!("fit failed: {}", e), &desc);
            out.rust_eval(&desc, None);
        } else {
            let coq = format!(
                "{{| c_id := {}%N; c_metric := {}; c_X := {}; c_bbox := {}; c_series := {}%N; c_fits := [{}] |}}",
                id, mname, cmat64(&x), cbool(bbox), series, fits.join("; ")
            );
            // non-trivial: more than one cluster and more than one distinct point
            let distinct = { let mut v: Vec<Vec<u64>> = x.iter().map(|r| r.iter().map(|f| f.to_bits()).collect()).collect(); v.sort(); v.dedup(); v.len() };
            let key = if k > 1 && distinct > 1 { Some(fnv_f64s(&x.concat(), (k as u64) << 8 | stream)) } else { None };
            out.case(id, &coq, &tagrefs, &desc, key);
        }
        id += 1;
    }
    let _ = Axis(0);
    out.finish("datasets drawn from 5 families (separated blobs, overlapping clouds, integer lattice with duplicates, fewer distinct points than clusters, large offset) x metric x initialiser stream; a case is non-trivial when k > 1 and the data has > 1 distinct point; distinct = distinct (data, k, stream) hashes");
}
