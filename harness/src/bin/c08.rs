//! C08 harness: DBSCAN and OPTICS on generated point sets with the three neighbour indices;
//! emits Coq cases for C08/Corr.v (model correspondence + density-clustering oracle).
use linfa::traits::Transformer;
use linfa::{DatasetBase, ParamGuard};
use linfa_clustering::{Dbscan, DbscanParams, Optics, OpticsParams};
use linfa_nn::distance::{Distance, L1Dist, L2Dist, LInfDist};
use linfa_nn::{CommonNearestNeighbour, NearestNeighbour};
use ndarray::{Array1, Array2};
use std::time::Duration;
use vh::*;

#[derive(Clone, Copy, PartialEq, Debug)]
enum Met { L1, L2, Linf }

#[derive(Clone, Copy, PartialEq, Debug)]
enum EpsMode { Explicit, DbscanDefault, OpticsDefault }

/// how the parameter sets are built: `start` = W params_with(min_points, metric, index) | X params_with with ANOTHER
/// index (the intended one is then set by nn_algo) | P params(min_points) (L2 / KdTree defaults, metric and index
/// set by the setters; L2 cases only) | O OpticsParams::new for OPTICS (DBSCAN: params_with);
/// `steps` = the setter calls in order: T tolerance, D dist_fn, N nn_algo - always with the values of the case
#[derive(Clone, Debug)]
struct Chain { start: char, steps: Vec<char> }
impl Chain {
    fn name(&self) -> String { format!("{}{}", self.start, self.steps.iter().collect::<String>()) }
}

const CHAIN_ORDERS: [&str; 11] = ["T", "DT", "TD", "NT", "TN", "DNT", "DTN", "NDT", "NTD", "TDN", "TND"];

fn gen_chain(r: &mut Sm64, m: Met, ds_all: usize) -> Chain {
    if ds_all < 66 {
        // every order of the setters at least six times per run, whatever the seed (covers the corpus of past findings)
        return Chain { start: 'W', steps: CHAIN_ORDERS[ds_all % CHAIN_ORDERS.len()].chars().collect() };
    }
    let start = match r.below(8) { 0 => 'X', 1 if m == Met::L2 => 'P', 2 => 'O', _ => 'W' };
    let mut steps = vec!['T'];
    if start == 'P' || r.chance(0.6) { steps.push('D'); }
    if start == 'P' || start == 'X' || r.chance(0.5) { steps.push('N'); }
    r.shuffle(&mut steps);
    Chain { start, steps }
}

#[derive(Clone, Debug)]
struct RunOut {
    nbrs: Vec<Vec<usize>>,
    labels: Vec<Option<usize>>,
    optics: Vec<(usize, Option<f64>, Option<f64>)>,
    dataset_same: bool,
    getters_ok: bool,
}

fn nn_of(k: usize) -> CommonNearestNeighbour {
    match k {
        0 => CommonNearestNeighbour::LinearSearch,
        1 => CommonNearestNeighbour::KdTree,
        _ => CommonNearestNeighbour::BallTree,
    }
}

fn arr(rows: &[Vec<f64>], d: usize) -> Array2<f64> {
    Array2::from_shape_vec((rows.len(), d), rows.iter().flatten().cloned().collect()).unwrap()
}

/// run `f` on its own thread; a panic or a run longer than `secs` is an observation
fn timed<T: Send + 'static>(secs: u64, f: impl FnOnce() -> T + Send + 'static) -> Result<T, String> {
    let (tx, rx) = std::sync::mpsc::channel();
    std::thread::spawn(move || {
        let r = std::panic::catch_unwind(std::panic::AssertUnwindSafe(f)).map_err(|e| {
            if let Some(s) = e.downcast_ref::<&str>() {
                format!("PANIC: {}", s)
            } else if let Some(s) = e.downcast_ref::<String>() {
                format!("PANIC: {}", s)
            } else {
                "PANIC".to_string()
            }
        });
        let _ = tx.send(r);
    });
    match rx.recv_timeout(Duration::from_secs(secs)) {
        Ok(r) => r,
        Err(_) => Err("TIMEOUT: no result (does not terminate?)".to_string()),
    }
}

type MkD<D> = fn(usize, D, CommonNearestNeighbour) -> DbscanParams<f64, D, CommonNearestNeighbour>;
type MkO<D> = fn(usize, D, CommonNearestNeighbour) -> OpticsParams<f64, D, CommonNearestNeighbour>;

fn run_with<D: Distance<f64> + 'static>(
    dist: D, nnk: usize, x: &Array2<f64>, eps: f64, mode: EpsMode, minpts: usize, chain: &Chain, mk_d: MkD<D>, mk_o: MkO<D>,
) -> Result<RunOut, String> {
    let n = x.nrows();
    // the neighbour lists the algorithms will see: same index type, same construction
    let nbrs: Vec<Vec<usize>> = match nn_of(nnk).from_batch(x, dist.clone()) {
        Ok(index) => (0..n)
            .map(|i| index.within_range(x.row(i), eps).map(|v| v.into_iter().map(|(_, j)| j).collect()))
            .collect::<Result<Vec<_>, _>>()
            .map_err(|e| format!("within_range: {}", e))?,
        Err(_) => vec![vec![]; n],
    };
    // the parameter sets are built through the setters in the order of the chain, always with the case's values;
    // everything the results are judged against (neighbour lists above, oracle in Coq) comes from the case, not from them
    let nn0 = if chain.start == 'X' { nn_of((nnk + 1) % 3) } else { nn_of(nnk) };
    let mut dp = mk_d(minpts, dist.clone(), nn0.clone());
    for st in chain.steps.iter() {
        dp = match st {
            'T' => if mode == EpsMode::DbscanDefault { dp } else { dp.tolerance(eps) },
            'D' => dp.dist_fn(dist.clone()),
            _ => dp.nn_algo(nn_of(nnk)),
        };
    }
    let labels: Array1<Option<usize>> = dp.transform(x).map_err(|e| format!("Dbscan: {}", e))?;
    // the dataset form must give the same targets and leave the records alone
    let ds = DatasetBase::from(x.clone());
    let ds2 = dp.transform(ds).map_err(|e| format!("Dbscan(dataset): {}", e))?;
    let dataset_same = ds2.targets() == &labels && ds2.records() == x;
    let mut op = mk_o(minpts, dist.clone(), nn0);
    for st in chain.steps.iter() {
        op = match st {
            'T' => if mode == EpsMode::OpticsDefault { op } else { op.tolerance(eps) },
            'D' => op.dist_fn(dist.clone()),
            _ => op.nn_algo(nn_of(nnk)),
        };
    }
    // the getters of the checked parameter sets must report the case's values (extra Rust-side check, bit 65536)
    let getters_ok = match (dp.clone().check(), op.clone().check()) {
        (Ok(dv), Ok(ov)) => dv.minimum_points() == minpts && ov.minimum_points() == minpts
            && dv.tolerance() == eps && ov.tolerance() == eps
            && dv.nn_algo() == &nn_of(nnk) && ov.nn_algo() == &nn_of(nnk),
        _ => false,
    };
    let an = op.transform(x.view()).map_err(|e| format!("Optics: {}", e))?;
    let optics: Vec<(usize, Option<f64>, Option<f64>)> =
        an.iter().map(|s| (s.index(), *s.core_distance(), *s.reachability_distance())).collect();
    // the other views of the analysis (as_slice, indexing) must show the same samples
    let same = |a: &[linfa_clustering::Sample<f64>]| {
        a.len() == optics.len()
            && a.iter().zip(optics.iter()).all(|(s, t)| {
                s.index() == t.0
                    && s.core_distance().map(f64::to_bits) == t.1.map(f64::to_bits)
                    && s.reachability_distance().map(f64::to_bits) == t.2.map(f64::to_bits)
            })
    };
    let views_same = same(an.as_slice()) && same(&an[..]) && (optics.is_empty() || an[0].index() == optics[0].0);
    Ok(RunOut { nbrs, labels: labels.to_vec(), optics, dataset_same: dataset_same && views_same, getters_ok })
}

fn mk_d_with<D: Distance<f64>>(mp: usize, d: D, n: CommonNearestNeighbour) -> DbscanParams<f64, D, CommonNearestNeighbour> {
    Dbscan::params_with(mp, d, n)
}
fn mk_o_with<D: Distance<f64>>(mp: usize, d: D, n: CommonNearestNeighbour) -> OpticsParams<f64, D, CommonNearestNeighbour> {
    Optics::params_with(mp, d, n)
}
fn mk_o_new<D: Distance<f64>>(mp: usize, d: D, n: CommonNearestNeighbour) -> OpticsParams<f64, D, CommonNearestNeighbour> {
    OpticsParams::new(mp, d, n)
}
fn mk_d_params(mp: usize, _d: L2Dist, _n: CommonNearestNeighbour) -> DbscanParams<f64, L2Dist, CommonNearestNeighbour> {
    Dbscan::params(mp)
}
fn mk_o_params(mp: usize, _d: L2Dist, _n: CommonNearestNeighbour) -> OpticsParams<f64, L2Dist, CommonNearestNeighbour> {
    Optics::params(mp)
}

fn run(m: Met, nnk: usize, x: &Array2<f64>, eps: f64, mode: EpsMode, minpts: usize, chain: &Chain) -> Result<RunOut, String> {
    let x2 = x.clone();
    let ch = chain.clone();
    let new_o = ch.start == 'O';
    match timed(8, move || match m {
        Met::L1 => run_with(L1Dist, nnk, &x2, eps, mode, minpts, &ch, mk_d_with, if new_o { mk_o_new } else { mk_o_with }),
        Met::L2 => if ch.start == 'P' {
            run_with(L2Dist, nnk, &x2, eps, mode, minpts, &ch, mk_d_params, mk_o_params)
        } else {
            run_with(L2Dist, nnk, &x2, eps, mode, minpts, &ch, mk_d_with, if new_o { mk_o_new } else { mk_o_with })
        },
        Met::Linf => run_with(LInfDist, nnk, &x2, eps, mode, minpts, &ch, mk_d_with, if new_o { mk_o_new } else { mk_o_with }),
    }) {
        Ok(r) => r,
        Err(e) => Err(e),
    }
}

fn dist_of(m: Met, a: &[f64], b: &[f64]) -> f64 {
    let (a, b) = (ndarray::aview1(a), ndarray::aview1(b));
    match m {
        Met::L1 => L1Dist.distance(a, b),
        Met::L2 => L2Dist.distance(a, b),
        Met::Linf => LInfDist.distance(a, b),
    }
}

/// embed a low-dimensional point into d dimensions (extra coordinates constant)
fn embed(p: &[f64], d: usize) -> Vec<f64> {
    (0..d).map(|k| if k < p.len() { p[k] } else { 0.0 }).collect()
}

fn gen_points(r: &mut Sm64, fam: u64, n: usize, d: usize) -> Vec<Vec<f64>> {
    let mut pts: Vec<Vec<f64>> = Vec::new();
    if d == 0 {
        return vec![vec![]; n];
    }
    let steps = [1.0, 0.5, 2.0, 0.25];
    match fam {
        0 => {
            // chains: collinear equally spaced points, several chains, gaps between them
            let mut origin = 0.0;
            while pts.len() < n {
                let len = 1 + r.below(8) as usize;
                let s = *r.pick(&steps);
                let diag = d >= 2 && r.chance(0.3);
                let y = r.range(-2, 2) as f64 * 4.0;
                for k in 0..len {
                    let t = origin + s * k as f64;
                    pts.push(embed(&if diag { vec![t, t + y] } else { vec![t, y] }, d));
                }
                origin += s * len as f64 + *r.pick(&[0.5, 1.0, 1.5, 3.0, 7.0]);
            }
        }
        1 => {
            // rings (non-lattice coordinates) with a blob inside
            let k = std::cmp::max(3, n * 2 / 3);
            let rad = *r.pick(&[2.0, 3.0, 5.0]);
            for j in 0..k {
                let a = 2.0 * std::f64::consts::PI * j as f64 / k as f64;
                pts.push(embed(&[rad * a.cos(), rad * a.sin()], d));
            }
            while pts.len() < n {
                pts.push(embed(&[0.2 * r.gauss(), 0.2 * r.gauss()], d));
            }
        }
        2 => {
            // touching clusters: dense blocks joined by single bridge points at a larger gap
            let mut t = 0.0;
            while pts.len() < n {
                let b = 2 + r.below(4) as usize;
                let h = *r.pick(&[0.5, 1.0]);
                let rows = if d >= 2 && r.chance(0.5) { 2 } else { 1 };
                for k in 0..b {
                    for q in 0..rows {
                        pts.push(embed(&[t + h * k as f64, h * q as f64], d));
                    }
                }
                t += h * (b - 1) as f64;
                let g = *r.pick(&[1.0, 1.5, 2.0]);
                if r.chance(0.8) {
                    pts.push(embed(&[t + g, 0.0], d)); // the bridge
                    t += 2.0 * g;
                } else {
                    t += g;
                }
            }
        }
        3 => {
            // small lattice: heavy duplicates, many exact ties, Pythagorean distances
            let w = 2 + r.below(4) as i64;
            for _ in 0..n {
                pts.push((0..d).map(|_| r.range(0, w) as f64).collect());
            }
        }
        4 => {
            // stars: a centre with spokes whose ends are far from each other
            let mut cx = 0.0;
            while pts.len() < n {
                let len = *r.pick(&[1.0, 2.0, 1.5]);
                let dirs: Vec<Vec<f64>> = if d >= 2 {
                    vec![vec![1., 0.], vec![-1., 0.], vec![0., 1.], vec![0., -1.], vec![1., 1.], vec![-1., -1.], vec![1., -1.], vec![-1., 1.]]
                } else {
                    vec![vec![1.], vec![-1.]]
                };
                let k = 1 + r.below(dirs.len() as u64) as usize;
                let centre_last = r.chance(0.5);
                if !centre_last {
                    pts.push(embed(&[cx, 0.0], d));
                }
                for q in 0..k {
                    let v: Vec<f64> = dirs[q].iter().map(|c| c * len).collect();
                    let mut p = embed(&v, d);
                    p[0] += cx;
                    pts.push(p);
                    if r.chance(0.25) {
                        let v2: Vec<f64> = dirs[q].iter().map(|c| c * 2.0 * len).collect();
                        let mut p2 = embed(&v2, d);
                        p2[0] += cx;
                        pts.push(p2);
                    }
                }
                if centre_last {
                    pts.push(embed(&[cx, 0.0], d));
                }
                cx += *r.pick(&[3.0, 4.0, 6.0, 10.0]) * len;
            }
        }
        5 => {
            // gaussian blobs with uniform noise: arbitrary doubles
            let nb = 1 + r.below(3) as usize;
            let centers: Vec<Vec<f64>> = (0..nb).map(|_| (0..d).map(|_| r.range(-6, 6) as f64).collect()).collect();
            for i in 0..n {
                if r.chance(0.2) {
                    pts.push((0..d).map(|_| 16.0 * r.unit() - 8.0).collect());
                } else {
                    let c = &centers[i % nb];
                    pts.push(c.iter().map(|v| v + 0.6 * r.gauss()).collect());
                }
            }
        }
        6 => {
            // 1-D integers as in the unit tests, embedded
            for _ in 0..n {
                pts.push(embed(&[r.range(0, 20) as f64], d));
            }
        }
        _ => {
            // lattice at the scale of DBSCAN's default tolerance 1e-4 (spacing 2^-14)
            let sc = (2.0f64).powi(-14);
            for _ in 0..n {
                pts.push((0..d).map(|_| r.range(0, 5) as f64 * sc).collect());
            }
        }
    }
    pts.truncate(n);
    // isolated noise replaces a few points
    if n > 4 && fam != 7 && r.chance(0.5) {
        let k = 1 + r.below(2) as usize;
        for q in 0..k {
            let i = r.below(n as u64) as usize;
            pts[i] = (0..d).map(|c| if c == 0 { 60.0 + 25.0 * q as f64 } else { -30.0 }).collect();
        }
    }
    r.shuffle(&mut pts);
    pts
}

fn rdist_of(m: Met, a: &[f64], b: &[f64]) -> f64 {
    let (a, b) = (ndarray::aview1(a), ndarray::aview1(b));
    match m {
        Met::L1 => L1Dist.rdistance(a, b),
        Met::L2 => L2Dist.rdistance(a, b),
        Met::Linf => LInfDist.rdistance(a, b),
    }
}
fn to_r(m: Met, eps: f64) -> f64 {
    match m {
        Met::L1 => Distance::<f64>::dist_to_rdist(&L1Dist, eps),
        Met::L2 => Distance::<f64>::dist_to_rdist(&L2Dist, eps),
        Met::Linf => Distance::<f64>::dist_to_rdist(&LInfDist, eps),
    }
}

/// blocks of b >= 3 collinear points (spacing h) joined by single bridge points at distance 2h from both
/// neighbouring block ends; with min_points 4 and a tolerance in (2h, 3h) the block ends are core points
/// and every bridge is a border point contested by two clusters
fn gen_bridged(r: &mut Sm64, n: usize, d: usize) -> (Vec<Vec<f64>>, usize, f64) {
    let h = *r.pick(&[0.5, 1.0, 0.25]);
    let mut pts: Vec<Vec<f64>> = Vec::new();
    let mut t = 0.0;
    let y = if d >= 2 { r.range(-3, 3) as f64 } else { 0.0 };
    while pts.len() < n {
        let b = 3 + r.below(3) as usize;
        for k in 0..b {
            pts.push(embed(&[t + h * k as f64, y], d));
        }
        t += h * (b - 1) as f64 + 2.0 * h;
        pts.push(embed(&[t, y], d));
        t += 2.0 * h;
    }
    pts.truncate(n);
    r.shuffle(&mut pts);
    (pts, 4, h * *r.pick(&[2.25, 2.5, 2.75]))
}

/// tolerance relative to the inter-point distances -> (eps, exact?, stream):
///  "between": strictly between two distinct distances with a relative margin (exact = true),
///  "border": equal to an inter-point distance (for L2: one whose square root is exact, so that the
///            squared tolerance equals the squared distance),
///  "near_border": L2 only, the rounded square root of a squared distance (the squared tolerance may
///            land one ulp above the squared distance).
fn pick_eps(r: &mut Sm64, m: Met, x: &[Vec<f64>], minpts: usize, want: &'static str) -> (f64, bool, &'static str) {
    let n = x.len();
    if n < 2 || x[0].is_empty() {
        return (*r.pick(&[0.5, 1.0, 2.5]), true, "between");
    }
    let mut all: Vec<f64> = Vec::new();
    for i in 0..n {
        for j in 0..i {
            all.push(dist_of(m, &x[i], &x[j]));
        }
    }
    all.sort_by(|a, b| a.partial_cmp(b).unwrap());
    all.dedup();
    // target: the distance from a random point to its k-th nearest other point
    let p = r.below(n as u64) as usize;
    let mut dp: Vec<f64> = (0..n).filter(|&j| j != p).map(|j| dist_of(m, &x[p], &x[j])).collect();
    dp.sort_by(|a, b| a.partial_cmp(b).unwrap());
    // mostly around the core threshold (the (min_points-1)-th other point makes p a core point)
    let k = if r.chance(0.75) { minpts - 2 + r.below(3) as usize } else { r.below(minpts as u64 + 1) as usize };
    let k = std::cmp::min(dp.len() - 1, k);
    let t = dp[k];
    let pos = all.iter().position(|&v| v == t).unwrap();
    if want != "between" {
        // candidates from the target upwards (the tolerance must be positive)
        let cands: Vec<f64> = all[pos..].iter().cloned().filter(|&v| v > 0.0).collect();
        let is_exact = |v: f64| -> bool {
            // is v the exact distance of some pair?  L1/Linf on dyadic data: sums of exact terms - taken as exact;
            // L2: the squared distance must be the exact square of v
            if m != Met::L2 { return true; }
            (0..n).any(|i| (0..i).any(|j| dist_of(m, &x[i], &x[j]) == v && rdist_of(m, &x[i], &x[j]) == v * v))
        };
        if want == "border" {
            if let Some(&v) = cands.iter().find(|&&v| is_exact(v)) {
                return (v, false, "border");
            }
        }
        if let Some(&v) = cands.iter().find(|&&v| !is_exact(v)).or(cands.first()) {
            return (v, false, if is_exact(v) { "border" } else { "near_border" });
        }
        return (1.0, false, "border");
    }
    let (lo, hi) = if r.chance(0.7) || pos == 0 {
        (t, if pos + 1 < all.len() { all[pos + 1] } else { t * 2.0 + 1.0 })
    } else {
        (all[pos - 1], t)
    };
    let e = lo + (hi - lo) * *r.pick(&[0.5, 0.25, 0.75]);
    if !(e > 0.0) {
        return (1.0, false, "border");
    }
    let exact = (e - lo) > 1e-9 * hi.max(1.0) && (hi - e) > 1e-9 * hi.max(1.0);
    (e, exact, "between")
}

/// inputs of past findings and of the unit tests, run first: (metric, min_points, tolerance, points, mode)
fn corpus() -> Vec<(Met, usize, f64, Vec<Vec<f64>>, EpsMode)> {
    let col = |v: &[f64]| -> Vec<Vec<f64>> { v.iter().map(|x| vec![*x]).collect() };
    let mut c = Vec::new();
    // F3: a point exactly on the radius (k-d tree used to include it)
    c.push((Met::L2, 2, 1.0, vec![vec![0.0, 0.0], vec![1.0, 0.0]], EpsMode::Explicit));
    c.push((Met::L2, 3, 5.0, vec![vec![0.0, 0.0], vec![3.0, 4.0], vec![0.0, 5.0], vec![5.0, 0.0], vec![-3.0, -4.0]], EpsMode::Explicit));
    // F4: unsorted neighbour lists (linear scan) gave wrong OPTICS core distances
    c.push((Met::L2, 3, f64::INFINITY, col(&[0.0, 10.0, 1.0, 9.0, 2.0, 3.5]), EpsMode::OpticsDefault));
    c.push((Met::L2, 3, 4.0, col(&[0.0, 10.0, 1.0, 9.0, 2.0, 3.5]), EpsMode::Explicit));
    // F24: neighbours listed before the first core point of their cluster
    c.push((Met::L2, 3, 2.2, col(&[0.0, 1.0, 2.0, 3.0, 4.0, 5.0]), EpsMode::Explicit));
    c.push((Met::L1, 3, 2.2, col(&[0.0, 1.5, 2.0, 3.5, 4.0, 9.0]), EpsMode::Explicit));
    // F38 (ball tree bound rounded up): a point 1 ulp inside the range, n > leaf size
    let mut f38: Vec<Vec<f64>> = Vec::new();
    for k in 0..5 { f38.push(vec![38.75 + 2.0 * k as f64, 38.75 + 2.0 * k as f64, 0.0]); }
    for k in 0..7 { f38.push(vec![2.0 * k as f64, -8.0, 0.0]); }
    for k in 0..7 { f38.push(vec![23.75 + 2.0 * k as f64, -8.0, 0.0]); }
    for k in 0..5 { f38.push(vec![21.0 + 0.25 * k as f64, 0.0, 0.0]); }
    c.push((Met::L2, 4, (8.0f64).sqrt(), f38.clone(), EpsMode::Explicit));
    c.push((Met::L2, 2, (8.0f64).sqrt(), f38, EpsMode::Explicit));
    // the fixtures of the OPTICS unit tests
    c.push((Met::L2, 3, 4.0, col(&[1.0, 2.0, 3.0, 10.0, 18.0, 18.0, 15.0, 2.0, 15.0, 18.0, 3.0, 100.0, 101.0]), EpsMode::Explicit));
    c.push((Met::L2, 3, f64::INFINITY, col(&[1.0, 2.0, 3.0, 8.0, 8.0, 7.0, 2.0, 5.0, 6.0, 7.0, 8.0, 3.0]), EpsMode::OpticsDefault));
    c.push((Met::L2, 4, f64::INFINITY, col(&[1.0, 2.0, 3.0]), EpsMode::OpticsDefault));
    c
}

fn next_up(x: f64) -> f64 {
    if x.is_nan() || x == f64::INFINITY { return x; }
    if x == 0.0 { return f64::from_bits(1); }
    let b = x.to_bits();
    f64::from_bits(if x > 0.0 { b + 1 } else { b - 1 })
}
fn next_down(x: f64) -> f64 { -next_up(-x) }

/// a fixed-parameter dataset of a targeted stream
struct Spec { m: Met, minpts: usize, eps: f64, x: Vec<Vec<f64>>, mode: EpsMode, stream: &'static str, exact: bool }

/// targeted streams (small n, each aimed at one boundary of the property):
///  ulp_border     - the tolerance is a computed inter-point distance t, the next float above t, the next below t:
///                   the strict comparison of computed reduced distances flips between them;
///  duplicates     - every point occurs 2-3 times (distance +0 between copies), tolerance at the smallest positive
///                   distance (copies only inside) / above it / so small that the squared tolerance underflows to +0;
///  minpts_extreme - min_points in {2, n-1, n, n+1} with a tolerance that covers everything, or that equals the
///                   largest distance (the farthest pairs miss each other by the strict comparison);
///  shared_border  - a chain of one-core-point clusters ("stars": a centre with 1-2 private satellites) whose
///                   neighbouring centres share one border point; min_points = size of an inner centre's
///                   neighbourhood, so a core test that discounts already labelled neighbours loses clusters.
fn targeted(r: &mut Sm64) -> Vec<Spec> {
    let mut v: Vec<Spec> = Vec::new();
    let mets3 = [Met::L2, Met::L1, Met::Linf];
    // ---- ulp_border ----
    for k in 0..12u64 {
        let d = 1 + (k % 3) as usize;
        let n = 5 + r.below(7) as usize;
        let m = mets3[(k % 3) as usize];
        let fam = *r.pick(&[0u64, 3, 5, 6]);
        let x = gen_points(r, fam, n, d);
        let minpts = 2 + r.below(3) as usize;
        let p = r.below(n as u64) as usize;
        let mut dp: Vec<f64> = (0..n).filter(|&j| j != p).map(|j| dist_of(m, &x[p], &x[j])).filter(|&t| t > 0.0).collect();
        dp.sort_by(|a, b| a.partial_cmp(b).unwrap());
        if dp.is_empty() { continue; }
        let t = dp[std::cmp::min(dp.len() - 1, minpts - 2 + r.below(2) as usize)];
        for e in [t, next_up(t), next_down(t)] {
            v.push(Spec { m, minpts, eps: e, x: x.clone(), mode: EpsMode::Explicit, stream: "ulp_border", exact: false });
        }
    }
    // ---- duplicates ----
    for k in 0..14u64 {
        let d = 1 + (k % 2) as usize;
        let m = mets3[(k % 3) as usize];
        let nb = 2 + r.below(4) as usize;
        let fam = *r.pick(&[0u64, 3, 6]);
        let base = gen_points(r, fam, nb, d);
        let mut x: Vec<Vec<f64>> = Vec::new();
        for b in base.iter() {
            for _ in 0..(2 + r.below(2)) { x.push(b.clone()); }
        }
        r.shuffle(&mut x);
        let n = x.len();
        let mut all: Vec<f64> = Vec::new();
        for i in 0..n { for j in 0..i { let t = dist_of(m, &x[i], &x[j]); if t > 0.0 { all.push(t); } } }
        all.sort_by(|a, b| a.partial_cmp(b).unwrap());
        let smallest = if all.is_empty() { 1.0 } else { all[0] };
        let (eps, exact) = match k % 4 {
            0 => (smallest, false),                 // copies only: the nearest distinct point is on the border
            1 => (smallest * 1.5, true),
            2 => (1e-200, m != Met::L2),             // L2: the squared tolerance underflows to +0, nothing is inside
            _ => (next_up(smallest), false),
        };
        v.push(Spec { m, minpts: 2 + r.below(3) as usize, eps, x, mode: EpsMode::Explicit, stream: "duplicates", exact });
    }
    // ---- minpts_extreme ----
    for k in 0..24u64 {
        let n = 2 + r.below(9) as usize;
        let d = 1 + (k % 2) as usize;
        let m = mets3[(k % 3) as usize];
        let fam = *r.pick(&[0u64, 3, 4, 6]);
        let x = gen_points(r, fam, n, d);
        let mut mx = 0.0f64;
        for i in 0..n { for j in 0..i { mx = mx.max(dist_of(m, &x[i], &x[j])); } }
        let minpts = std::cmp::max(2, match k % 4 { 0 => 2, 1 => n.saturating_sub(1), 2 => n, _ => n + 1 });
        let (eps, exact) = if k % 8 < 4 || !(mx > 0.0) { (2.0 * mx + 1.0, true) } else { (mx, false) };
        v.push(Spec { m, minpts, eps, x, mode: EpsMode::Explicit, stream: "minpts_extreme", exact });
    }
    // ---- shared_border ----
    for k in 0..24u64 {
        let d = 2 + (k % 2) as usize;
        let m = if k % 3 == 0 { Met::L1 } else { Met::L2 };
        let h = *r.pick(&[1.0, 0.5, 2.0]);
        let centres = 2 + r.below(4) as usize;
        let nsat = 1 + (k / 2 % 2) as usize;
        let mut x: Vec<Vec<f64>> = Vec::new();
        for c in 0..centres {
            let cx = 2.0 * h * c as f64;
            // shared point first / centre first alternate, so that both visiting orders occur unshuffled
            if c > 0 && k % 4 >= 2 { x.push(embed(&[cx - h, 0.0], d)); }
            x.push(embed(&[cx, 0.0], d));
            for q in 0..nsat {
                x.push(embed(&[cx, if q == 0 { h } else { -h }], d));
            }
            if c > 0 && k % 4 < 2 { x.push(embed(&[cx - h, 0.0], d)); }
        }
        if k % 2 == 1 { r.shuffle(&mut x); }
        let eps = h * *r.pick(&[1.125, 1.25, 1.375]);
        v.push(Spec { m, minpts: 3 + nsat, eps, x, mode: EpsMode::Explicit, stream: "shared_border", exact: true });
    }
    v
}

fn copt(x: &Option<f64>) -> String {
    match x {
        Some(v) => format!("Some {}", sf64(*v)),
        None => "None".to_string(),
    }
}

fn run_term(nnk: usize, o: &RunOut) -> String {
    format!(
        "{{| r_index := {}; r_nbrs := ({})%N; r_labels := ({})%N; r_optics := {} |}}",
        cn(nnk as u64),
        clist(&o.nbrs, |l| clist(l, |j| format!("{}", j))),
        clist(&o.labels, |l| match l { Some(v) => format!("Some {}", v), None => "None".to_string() }),
        clist(&o.optics, |(i, c, rr)| format!("({}, ({}, {}))", cn(*i as u64), copt(c), copt(rr)))
    )
}

fn jrows(x: &[Vec<f64>]) -> String {
    format!("[{}]", x.iter().map(|r| format!("{:?}", r)).collect::<Vec<_>>().join(", "))
}

fn main() {
    std::panic::set_hook(Box::new(|_| {}));
    let args = parse_args();
    let mut rng = Sm64::new(args.seed);
    let thorough = args.tier == "thorough";
    let ndatasets = if thorough { 2000 } else { 720 };
    let maxn: u64 = if thorough { 40 } else { 30 };
    let mut out = Out::new(&args.out, args.shards, "C08.Corr", "case", args.only);
    let mets = [Met::L2, Met::L2, Met::L1, Met::Linf];
    let mut id: u64 = 0;

    // ---- malformed stream: the guards accept exactly min_points > 1 and tolerance > 0 ----
    for &mp in &[0usize, 1, 2, 3] {
        for &tol in &[-1.0f64, -0.0, 0.0, f64::MIN_POSITIVE, 1e-4, 2.5, f64::INFINITY] {
            let want = mp > 1 && tol > 0.0;
            let d_ok = Dbscan::params_with::<f64, _, _>(mp, L2Dist, CommonNearestNeighbour::KdTree).tolerance(tol).check().is_ok();
            let d_ref = Dbscan::params_with::<f64, _, _>(mp, L2Dist, CommonNearestNeighbour::KdTree).tolerance(tol).check_ref().is_ok();
            let o_ok = Optics::params_with::<f64, _, _>(mp, L2Dist, CommonNearestNeighbour::KdTree).tolerance(tol).check().is_ok();
            let o_ref = Optics::params_with::<f64, _, _>(mp, L2Dist, CommonNearestNeighbour::KdTree).tolerance(tol).check_ref().is_ok();
            let desc = format!("{{\"stream\": \"malformed\", \"min_points\": {}, \"tolerance\": \"{:?}\", \"expected_accept\": {}, \"dbscan_check\": {}, \"dbscan_check_ref\": {}, \"optics_check\": {}, \"optics_check_ref\": {}}}",
                mp, tol, want, d_ok, d_ref, o_ok, o_ref);
            out.bump("stream_malformed");
            // the checked parameters report what was set
            if want {
                let dv = Dbscan::params_with::<f64, _, _>(mp, L2Dist, CommonNearestNeighbour::BallTree).tolerance(tol).check().unwrap();
                let ov = Optics::params_with::<f64, _, _>(mp, L2Dist, CommonNearestNeighbour::BallTree).tolerance(tol).check().unwrap();
                if dv.tolerance() != tol || dv.minimum_points() != mp || dv.nn_algo() != &CommonNearestNeighbour::BallTree
                    || ov.tolerance() != tol || ov.minimum_points() != mp || ov.nn_algo() != &CommonNearestNeighbour::BallTree {
                    out.rust_fail(id, 65536, &["stream_malformed"], "checked parameters do not report the values that were set", &desc);
                }
            }
            if d_ok != want || d_ref != want || o_ok != want || o_ref != want {
                out.rust_fail(id, 32768, &["stream_malformed"], "hyper-parameter guard accepts/rejects wrongly", &desc);
            }
            out.rust_eval(&desc, Some(fnv(desc.as_bytes())));
            id += 1;
        }
    }
    // defaults without a tolerance: the documented defaults must pass the guards
    {
        let d_ok = Dbscan::params::<f64>(2).check().is_ok() && Dbscan::params::<f64>(1).check().is_err();
        let o_ok = Optics::params::<f64>(2).check().is_ok() && Optics::params::<f64>(1).check().is_err();
        let desc = format!("{{\"stream\": \"malformed\", \"defaults\": true, \"dbscan\": {}, \"optics\": {}}}", d_ok, o_ok);
        if !d_ok || !o_ok {
            out.rust_fail(id, 32768, &["stream_malformed"], "default parameters: guard accepts/rejects wrongly", &desc);
        }
        out.rust_eval(&desc, None);
        id += 1;
    }

    // ---- point sets ----
    let mut corpus: Vec<Spec> = corpus().into_iter()
        .map(|c| Spec { m: c.0, minpts: c.1, eps: c.2, x: c.3, mode: c.4, stream: "corpus", exact: false }).collect();
    {
        let mut rt = rng.fork();
        corpus.extend(targeted(&mut rt));
    }
    for ds_all in 0..(corpus.len() + ndatasets) {
        let mut r = rng.fork();
        let (fam, d, m, minpts, x, mode, eps, exact, stream): (u64, usize, Met, usize, Vec<Vec<f64>>, EpsMode, f64, bool, &'static str) =
        if ds_all < corpus.len() {
            let c = &corpus[ds_all];
            let d = if c.x.is_empty() { 1 } else { c.x[0].len() };
            (99, d, c.m, c.minpts, c.x.clone(), c.mode, c.eps, c.exact, c.stream)
        } else {
        let ds_no = ds_all - corpus.len();
        // the first datasets are the exhaustive-small part: every n in 0..=4, every family
        let small = ds_no < 40;
        let fam = if small { (ds_no % 8) as u64 } else { r.below(8) };
        let n = if small { (ds_no / 8) as usize % 5 } else if r.chance(0.15) { r.below(6) as usize } else { 4 + r.below(maxn - 3) as usize };
        let d = if r.chance(0.04) { 0 } else if r.chance(0.3) { 1 } else { 2 + r.below(2) as usize };
        let m = *r.pick(&mets);
        let minpts = 2 + r.below(if thorough { 6 } else { 4 }) as usize;
        let bridged = fam == 2 && d > 0 && n >= 7 && r.chance(0.5);
        let (x, minpts, bridged_eps) = if bridged { gen_bridged(&mut r, n, d) } else { (gen_points(&mut r, fam, n, d), minpts, 0.0) };
        let sel = r.below(20);
        let (mode, (eps, exact, stream)) = if bridged {
            (EpsMode::Explicit, (bridged_eps, true, "between"))
        } else if fam == 7 && sel < 12 {
            (EpsMode::DbscanDefault, (1e-4, true, "dbscan_default"))
        } else if sel == 0 {
            (EpsMode::OpticsDefault, (f64::INFINITY, false, "optics_default"))
        } else if sel < 3 {
            (EpsMode::Explicit, pick_eps(&mut r, m, &x, minpts, "near_border"))
        } else if sel < 8 {
            (EpsMode::Explicit, pick_eps(&mut r, m, &x, minpts, "border"))
        } else {
            (EpsMode::Explicit, pick_eps(&mut r, m, &x, minpts, "between"))
        };
        (fam, d, m, minpts, x, mode, eps, exact, stream)
        };
        let n = x.len();
        let xa = arr(&x, d);
        let mname = format!("{:?}", m);
        let chain = gen_chain(&mut r, m, ds_all);
        let desc = format!(
            "{{\"n\": {}, \"d\": {}, \"metric\": {}, \"family\": {}, \"min_points\": {}, \"tolerance\": \"{:e}\", \"tolerance_literal\": {}, \"stream\": {}, \"builder_chain\": {}, \"X\": {}}}",
            n, d, jstr(&mname), fam, minpts, eps, jstr(&cf64(eps)), jstr(stream), jstr(&chain.name()), jrows(&x)
        );
        let mut tags: Vec<String> = vec![format!("metric_{}", mname), format!("family_{}", fam), format!("stream_{}", stream), format!("chain_{}", chain.name())];
        if d == 0 { tags.push("dim0".into()); }
        // input class of finding F25: some pair lies inside the range by at most 4 ulps of the reduced range
        let rr = to_r(m, eps);
        if d > 0 && rr.is_finite() && (0..n).any(|i| (0..i).any(|j| { let q = rdist_of(m, &x[i], &x[j]); q < rr && rr - q <= 4.0 * f64::EPSILON * rr })) {
            tags.push("pair_within_4ulp_below_range".into());
            out.bump("pair_within_4ulp_below_range");
        }
        // the strict / non-strict boundary in computed arithmetic: some pair has its computed reduced distance equal to the computed reduced tolerance
        if d > 0 && (0..n).any(|i| (0..i).any(|j| rdist_of(m, &x[i], &x[j]) == rr)) {
            tags.push("pair_on_computed_border".into());
            out.bump("pair_on_computed_border");
        }
        if d > 0 && (0..n).any(|i| (0..i).any(|j| x[i] == x[j])) { out.bump("has_duplicate_points"); }
        if minpts >= n && n > 0 { out.bump("min_points_ge_n"); }
        let mut runs: Vec<RunOut> = Vec::new();
        let mut failed: Option<String> = None;
        for nnk in 0..3 {
            match run(m, nnk, &xa, eps, mode, minpts, &chain) {
                Ok(o) => runs.push(o),
                Err(e) => { failed = Some(format!("index {}: {}", nnk, e)); break; }
            }
        }
        out.bump(&format!("stream_{}", stream));
        out.bump(&format!("chain_{}", chain.name()));
        out.bump(&format!("chain_start_{}", chain.start));
        if let (Some(t), Some(dd)) = (chain.steps.iter().position(|&c| c == 'T'), chain.steps.iter().position(|&c| c == 'D')) {
            out.bump(if dd > t { "chain_dist_fn_after_tolerance" } else { "chain_dist_fn_before_tolerance" });
        }
        if let (Some(t), Some(nn)) = (chain.steps.iter().position(|&c| c == 'T'), chain.steps.iter().position(|&c| c == 'N')) {
            out.bump(if nn > t { "chain_nn_algo_after_tolerance" } else { "chain_nn_algo_before_tolerance" });
        }
        out.bump(&format!("metric_{}", mname));
        out.bump(&format!("family_{}", fam));
        out.bump(&format!("min_points_{}", if minpts > 5 { "gt5".to_string() } else { minpts.to_string() }));
        out.bump(&format!("dim_{}", d));
        out.bump(&format!("n_{}", if n < 4 { "lt4" } else if n < 12 { "4to11" } else if n < 24 { "12to23" } else { "ge24" }));
        let tagrefs: Vec<&str> = tags.iter().map(|s| s.as_str()).collect();
        if let Some(e) = failed {
            out.rust_fail(id, 16384, &tagrefs, &format!("valid input, no result: {}", e), &desc);
            out.rust_eval(&desc, None);
            if e.contains("TIMEOUT") {
                // a runaway thread is still spinning: stop generating, report what we have
                out.finish("aborted after a non-terminating run");
                std::process::exit(0);
            }
            id += 1;
            continue;
        }
        if runs.iter().any(|o| !o.dataset_same) {
            out.rust_fail(id, 65536, &tagrefs, "Dbscan on a dataset differs from Dbscan on its records (or changed the records), or as_slice / indexing of the OPTICS analysis disagree with iter", &desc);
        }
        if runs.iter().any(|o| !o.getters_ok) {
            out.rust_fail(id, 65536, &tagrefs, "the checked parameter sets do not report the min_points / tolerance / index that the setter chain was given", &desc);
        }
        // input classes, measured on the linear-scan run
        let o0 = &runs[0];
        let ncore = o0.nbrs.iter().filter(|l| l.len() >= minpts).count();
        let nlab = o0.labels.iter().filter(|l| l.is_some()).count();
        let nclusters = o0.labels.iter().filter_map(|l| *l).max().map_or(0, |v| v + 1);
        let nborder = (0..n).filter(|&i| o0.labels[i].is_some() && o0.nbrs[i].len() < minpts).count();
        // a border point within reach of core points of two different clusters
        let contested = (0..n).filter(|&i| o0.nbrs[i].len() < minpts && {
            let mut ls: Vec<usize> = o0.nbrs[i].iter().filter(|&&j| o0.nbrs[j].len() >= minpts).filter_map(|&j| o0.labels[j]).collect();
            ls.sort(); ls.dedup(); ls.len() > 1 }).count();
        let mut reach: Vec<u64> = o0.optics.iter().filter_map(|s| s.2.map(|v| v.to_bits())).collect();
        let nreach = reach.len();
        reach.sort(); reach.dedup();
        out.bump(&format!("clusters_{}", if nclusters > 3 { "ge4".to_string() } else { nclusters.to_string() }));
        if nborder > 0 { out.bump("has_border_point"); }
        if contested > 0 { out.bump("has_contested_border_point"); }
        if nlab < n && ncore > 0 { out.bump("has_noise_and_cluster"); }
        if reach.len() < nreach { out.bump("has_tied_reachability"); }
        if o0.nbrs.iter().any(|l| l.len() == minpts) { out.bump("has_exactly_min_points_neighbourhood"); }
        let nontrivial = ncore > 0 && (nborder > 0 || nlab < n || nclusters > 1);
        let key = if nontrivial {
            Some(fnv_f64s(&x.concat(), (minpts as u64) << 32 ^ eps.to_bits() ^ (m as u64) << 60))
        } else { None };
        let coq = format!(
            "{{| c_id := {}; c_metric := {}; c_dim := {}; c_X := {}; c_eps := {}; c_minpts := {}; c_exact := {}; c_runs := [{}] |}}",
            cn(id), mname, cn(d as u64), cmat64(&x), sf64(eps), cn(minpts as u64), cbool(exact),
            runs.iter().enumerate().map(|(k, o)| run_term(k, o)).collect::<Vec<_>>().join("; ")
        );
        out.case(id, &coq, &tagrefs, &desc, key);
        id += 1;
    }
    out.finish("point sets from 8 families (chains, rings with a blob, dense blocks joined by bridge points, small lattices with duplicates, stars, gaussian blobs with noise, 1-D integers, lattice at the scale of the default tolerance) x L1/L2/Linf x min_points 2..5 x tolerance strictly between / exactly equal to an inter-point distance / default, each run with LinearSearch, KdTree and BallTree, the Dbscan / Optics parameter sets built through a per-case chain of constructor (params_with / params_with + nn_algo / params / OpticsParams::new) and setters (tolerance, dist_fn, nn_algo in every order) that always carries the case's values; plus the targeted streams ulp_border (tolerance = a computed distance and its two neighbouring floats), duplicates (copies at distance +0; squared tolerance underflowing to +0), minpts_extreme (min_points 2 / n-1 / n / n+1, tolerance covering everything or equal to the largest distance) and shared_border (chains of one-core-point clusters sharing border points, min_points = the size of an inner centre's neighbourhood); a case is non-trivial when it has a core point and a border point, noise or a second cluster; distinct = distinct (points, min_points, tolerance, metric) hashes; plus the grid of malformed hyper-parameters");
}
