//! C03 harness: prediction is a per-sample function, identical through every calling form.
//!
//! Rust side (metamorphic, no Coq needed): for every predictor type of the workspace a fitted model
//! predicts a batch, every row alone, a permutation, a batch with duplicated rows, two halves, the
//! empty batch, non-contiguous / column-major / reversed copies of the batch and goes through every
//! calling form (borrowed / owned records, borrowed / owned dataset, in-place on a pre-filled target).
//! Coq side (C03/Corr.v): the composing wrappers on mock members, platt_predict, and the predictors
//! whose row function is modelled in Gallina (k-means, x.dot(w)+b, tree descent, isotonic
//! interpolation, affine maps recomputed over Q); C03/CorrMat.v: every predict_inplace transliteration
//! of C03/MatModel.v on a pre-filled target, bit for bit, including panics on malformed shapes
//! (matrixmultiply entries and libm values cross as tables that Coq checks independently).
use linfa::composing::platt_scaling::{platt_predict, Platt};
use linfa::composing::{MultiClassModel, MultiTargetModel};
use linfa::dataset::Pr;
use linfa::prelude::*;
use linfa::traits::{Fit, FitWith, Predict, PredictInplace};
use ndarray::{s, Array1, Array2, ArrayBase, ArrayView2, Axis, Data, Ix2, ShapeBuilder};
use std::panic::AssertUnwindSafe;
use vh::*;

// ------------------------------------------------------------------------------------------------
// canonical observations
// ------------------------------------------------------------------------------------------------

/// One prediction result: shape and, per input row, the outputs as u64 codes
/// (f64 bit patterns of the exactly widened value for real outputs, label codes otherwise).
#[derive(Clone, Debug, PartialEq)]
struct Obs {
    shape: Vec<usize>,
    rows: Vec<Vec<u64>>,
    real: bool,
    eps: f64,
}

trait Target {
    fn obs(&self) -> Obs;
    fn junk(&mut self);
}
impl Target for Array1<usize> {
    fn obs(&self) -> Obs {
        Obs { shape: self.shape().to_vec(), rows: self.iter().map(|v| vec![*v as u64]).collect(), real: false, eps: 0.0 }
    }
    fn junk(&mut self) {
        self.iter_mut().enumerate().for_each(|(i, v)| *v = 7_000_003 + i);
    }
}
impl Target for Array1<bool> {
    fn obs(&self) -> Obs {
        Obs { shape: self.shape().to_vec(), rows: self.iter().map(|v| vec![*v as u64]).collect(), real: false, eps: 0.0 }
    }
    fn junk(&mut self) {
        self.iter_mut().enumerate().for_each(|(i, v)| *v = i % 3 != 1);
    }
}
impl Target for Array1<f64> {
    fn obs(&self) -> Obs {
        Obs { shape: self.shape().to_vec(), rows: self.iter().map(|v| vec![v.to_bits()]).collect(), real: true, eps: f64::EPSILON }
    }
    fn junk(&mut self) {
        self.iter_mut().enumerate().for_each(|(i, v)| *v = 1.0e30 + i as f64);
    }
}
impl Target for Array1<f32> {
    fn obs(&self) -> Obs {
        Obs { shape: self.shape().to_vec(), rows: self.iter().map(|v| vec![(*v as f64).to_bits()]).collect(), real: true, eps: f32::EPSILON as f64 }
    }
    fn junk(&mut self) {
        self.iter_mut().enumerate().for_each(|(i, v)| *v = 1.0e30 + i as f32);
    }
}
impl Target for Array1<Pr> {
    fn obs(&self) -> Obs {
        Obs { shape: self.shape().to_vec(), rows: self.iter().map(|v| vec![(**v as f64).to_bits()]).collect(), real: true, eps: f32::EPSILON as f64 }
    }
    fn junk(&mut self) {
        self.iter_mut().enumerate().for_each(|(i, v)| *v = Pr::new_unchecked(0.123 + (i % 5) as f32 * 0.01));
    }
}
impl Target for Array2<f64> {
    fn obs(&self) -> Obs {
        Obs { shape: self.shape().to_vec(), rows: self.rows().into_iter().map(|r| r.iter().map(|v| v.to_bits()).collect()).collect(), real: true, eps: f64::EPSILON }
    }
    fn junk(&mut self) {
        self.iter_mut().enumerate().for_each(|(i, v)| *v = -1.0e30 - i as f64);
    }
}
impl Target for Array2<f32> {
    fn obs(&self) -> Obs {
        Obs { shape: self.shape().to_vec(), rows: self.rows().into_iter().map(|r| r.iter().map(|v| (*v as f64).to_bits()).collect()).collect(), real: true, eps: f32::EPSILON as f64 }
    }
    fn junk(&mut self) {
        self.iter_mut().enumerate().for_each(|(i, v)| *v = -1.0e30 - i as f32);
    }
}

/// element types of the record matrices
trait Elem: linfa::Float {
    fn of(v: f64) -> Self;
    fn f(self) -> f64;
}
impl Elem for f64 {
    fn of(v: f64) -> f64 { v }
    fn f(self) -> f64 { self }
}
impl Elem for f32 {
    fn of(v: f64) -> f32 { v as f32 }
    fn f(self) -> f64 { self as f64 }
}

type Ds<E> = DatasetBase<Array2<E>, Array1<usize>>;

/// all calling forms of one fitted model, type-erased
struct Pred<'a, E: Elem> {
    by_ref: Box<dyn Fn(&Array2<E>) -> Obs + 'a>,
    by_view: Option<Box<dyn Fn(&ArrayView2<E>) -> Obs + 'a>>,
    owned: Box<dyn Fn(Array2<E>) -> (Array2<E>, Obs) + 'a>,
    ds_ref: Box<dyn Fn(&Ds<E>) -> Obs + 'a>,
    ds_owned: Box<dyn Fn(Ds<E>) -> (Array2<E>, Obs) + 'a>,
    inplace_junk: Box<dyn Fn(&Array2<E>) -> Obs + 'a>,
    /// multi-step sequence on ONE target buffer: predict_inplace of the batch in reversed row order first (the buffer
    /// then holds valid answers that belong to other rows), then predict_inplace of the batch itself into the same buffer
    inplace_reused: Box<dyn Fn(&Array2<E>) -> Obs + 'a>,
}

macro_rules! mk_pred {
    ($m:expr, $t:ty, $e:ty, view) => {{
        let mut p = mk_pred!($m, $t, $e);
        let m = &$m;
        p.by_view = Some(Box::new(move |x: &ArrayView2<$e>| { let y: $t = m.predict(x); y.obs() }));
        p
    }};
    ($m:expr, $t:ty, $e:ty) => {{
        let m = &$m;
        Pred::<$e> {
            by_ref: Box::new(move |x: &Array2<$e>| { let y: $t = m.predict(x); y.obs() }),
            by_view: None,
            owned: Box::new(move |x: Array2<$e>| {
                let d: DatasetBase<Array2<$e>, $t> = m.predict(x);
                let o = d.targets.obs();
                (d.records, o)
            }),
            ds_ref: Box::new(move |d: &Ds<$e>| { let y: $t = m.predict(d); y.obs() }),
            ds_owned: Box::new(move |d: Ds<$e>| {
                let d2: DatasetBase<Array2<$e>, $t> = m.predict(d);
                let o = d2.targets.obs();
                (d2.records, o)
            }),
            inplace_junk: Box::new(move |x: &Array2<$e>| {
                let mut y: $t = PredictInplace::<Array2<$e>, $t>::default_target(m, x);
                y.junk();
                PredictInplace::<Array2<$e>, $t>::predict_inplace(m, x, &mut y);
                y.obs()
            }),
            inplace_reused: Box::new(move |x: &Array2<$e>| {
                let xr = x.slice(s![..;-1, ..]).to_owned();
                let mut y: $t = PredictInplace::<Array2<$e>, $t>::default_target(m, x);
                PredictInplace::<Array2<$e>, $t>::predict_inplace(m, &xr, &mut y);
                PredictInplace::<Array2<$e>, $t>::predict_inplace(m, x, &mut y);
                y.obs()
            }),
        }
    }};
}

// ------------------------------------------------------------------------------------------------
// the metamorphic driver
// ------------------------------------------------------------------------------------------------

const B_SINGLE: u64 = 1;
const B_BATCH: u64 = 2;
const B_COUNT: u64 = 4;
const B_FORMS: u64 = 8;
const B_RECORDS: u64 = 16;
const B_LAYOUT: u64 = 32;
const B_PANIC: u64 = 64;

/// how two predictions of the same rows in different memory layouts may differ
struct Xl<'a> {
    /// bit-identical results are required (no arithmetic that depends on the layout)
    exact: bool,
    /// magnitude scale of the fitted parameters for the rounding window of real outputs
    scale: f64,
    /// rows whose discrete decision lies within rounding distance of a boundary (skipped, counted)
    near: Option<Box<dyn Fn(&[f64]) -> bool + 'a>>,
    /// the output is the exponential of the linear predictor (relative window instead of absolute)
    expo: bool,
}
impl<'a> Xl<'a> {
    fn exact() -> Xl<'a> { Xl { exact: true, scale: 1.0, near: None, expo: false } }
    fn real(scale: f64) -> Xl<'a> { Xl { exact: false, scale, near: None, expo: false } }
}

struct Ctx {
    out: Out,
    id: u64,
    nbatches: usize,
    max_xl_ulps: f64,
    max_xl_window: f64,
}
impl Ctx {
    fn next_id(&mut self) -> u64 { self.id += 1; self.id }
}

fn rows_f64<E: Elem>(x: &Array2<E>) -> Vec<Vec<f64>> {
    x.rows().into_iter().map(|r| r.iter().map(|v| v.f()).collect()).collect()
}
fn same_bits<E: Elem>(a: &Array2<E>, b: &Array2<E>) -> bool {
    a.shape() == b.shape() && a.strides() == b.strides() && a.iter().zip(b.iter()).all(|(u, v)| u.f().to_bits() == v.f().to_bits())
}
fn jrows(r: &[Vec<f64>]) -> String {
    let mut s = String::from("[");
    for (i, row) in r.iter().enumerate() {
        if i > 0 { s.push_str(", "); }
        s.push('[');
        for (j, v) in row.iter().enumerate() {
            if j > 0 { s.push_str(", "); }
            if v.is_finite() { s.push_str(&format!("{:e}", v)); } else { s.push_str(&jstr(&format!("{}", v))); }
        }
        s.push(']');
    }
    s.push(']');
    s
}
fn show(o: &[u64], real: bool) -> String {
    if real { format!("{:?}", o.iter().map(|b| f64::from_bits(*b)).collect::<Vec<_>>()) } else { format!("{:?}", o) }
}

/// strided owned copy: the values of `x` sit at the even positions of a (2n+1) x (2p+1) buffer
fn strided<E: Elem>(x: &Array2<E>) -> Array2<E> {
    let (n, p) = x.dim();
    let mut big = Array2::<E>::from_elem((2 * n + 1, 2 * p + 1), E::of(-777.25));
    for i in 0..n { for j in 0..p { big[(2 * i, 2 * j)] = x[(i, j)]; } }
    big.slice_move(s![..2 * n;2, ..2 * p;2])
}
fn fortran<E: Elem>(x: &Array2<E>) -> Array2<E> {
    let (n, p) = x.dim();
    let mut f = Array2::<E>::zeros((n, p).f());
    f.assign(x);
    f
}

struct Batch<E: Elem> { x: Array2<E>, kind: &'static str }

fn make_batches<E: Elem>(rng: &mut Sm64, pool: &Array2<E>, nb: usize) -> Vec<Batch<E>> {
    let np = pool.nrows();
    let mut v = Vec::new();
    for b in 0..nb {
        let (idx, kind): (Vec<usize>, &'static str) = match b {
            0 => ((0..np).collect(), "pool"),
            1 => (vec![], "empty"),
            2 => (vec![rng.below(np as u64) as usize], "single"),
            3 => { let i = rng.below(np as u64) as usize; (vec![i; 3], "same_row_thrice") }
            _ => {
                let n = 2 + rng.below(9) as usize;
                ((0..n).map(|_| rng.below(np as u64) as usize).collect(), "random_rows")
            }
        };
        v.push(Batch { x: pool.select(Axis(0), &idx), kind });
    }
    v
}

/// run every metamorphic relation on one batch; returns (failure code, first failure description)
fn check_batch<E: Elem>(ctx: &mut Ctx, rng: &mut Sm64, pred: &Pred<E>, x: &Array2<E>, xl: &Xl) -> (u64, String) {
    let n = x.nrows();
    let p = x.ncols();
    let mut code = 0u64;
    let mut what = String::new();
    let mut fail = |c: u64, w: String, code: &mut u64, what: &mut String| {
        if *code & c == 0 && what.len() < 1500 { what.push_str(&w); what.push_str("; "); }
        *code |= c;
    };
    macro_rules! call { ($e:expr) => { guarded(AssertUnwindSafe(|| $e)) }; }

    let base = match call!((pred.by_ref)(x)) {
        Ok(o) => o,
        Err(e) => { return (B_PANIC, format!("predict(&batch) panicked on a batch of {} finite rows: {}", n, e)); }
    };
    if base.rows.len() != n || base.shape.first().copied() != Some(n) {
        fail(B_COUNT, format!("{} input rows but output shape {:?}", n, base.shape), &mut code, &mut what);
        return (code, what);
    }
    let cmp_exact = |o: &Result<Obs, String>, expect: &[Vec<u64>], form: &str, bit: u64, code: &mut u64, what: &mut String, fail: &mut dyn FnMut(u64, String, &mut u64, &mut String)| {
        match o {
            Err(e) => fail(B_PANIC, format!("{} panicked: {}", form, e), code, what),
            Ok(o) => {
                if o.rows.len() != expect.len() {
                    fail(B_COUNT, format!("{}: {} outputs for {} rows", form, o.rows.len(), expect.len()), code, what);
                } else if let Some(i) = (0..expect.len()).find(|&i| o.rows[i] != expect[i]) {
                    fail(bit, format!("{}: row {} gives {} but {} in the reference batch", form, i, show(&o.rows[i], o.real), show(&expect[i], o.real)), code, what);
                }
            }
        }
    };
    // every row alone (owned single-row array and single-row view)
    let cap = 14.min(n);
    for i in 0..cap {
        let xi = x.slice(s![i..i + 1, ..]).to_owned();
        let o = call!((pred.by_ref)(&xi));
        cmp_exact(&o, &base.rows[i..i + 1], &format!("row {} alone {:?}", i, rows_f64(&xi)[0]), B_SINGLE, &mut code, &mut what, &mut fail);
        if let Some(bv) = &pred.by_view {
            let v = x.slice(s![i..i + 1, ..]);
            let o = call!(bv(&v));
            cmp_exact(&o, &base.rows[i..i + 1], &format!("row {} alone (view)", i), B_SINGLE, &mut code, &mut what, &mut fail);
        }
    }
    if n >= 2 {
        // permutation
        let mut idx: Vec<usize> = (0..n).collect();
        rng.shuffle(&mut idx);
        let xp = x.select(Axis(0), &idx);
        let expect: Vec<Vec<u64>> = idx.iter().map(|&i| base.rows[i].clone()).collect();
        cmp_exact(&call!((pred.by_ref)(&xp)), &expect, &format!("permuted batch {:?}", idx), B_BATCH, &mut code, &mut what, &mut fail);
        // duplication / sub-batch
        let idx: Vec<usize> = (0..n + 2).map(|_| rng.below(n as u64) as usize).collect();
        let xd = x.select(Axis(0), &idx);
        let expect: Vec<Vec<u64>> = idx.iter().map(|&i| base.rows[i].clone()).collect();
        cmp_exact(&call!((pred.by_ref)(&xd)), &expect, &format!("batch with duplicated rows {:?}", idx), B_BATCH, &mut code, &mut what, &mut fail);
        // two halves
        let h = 1 + rng.below(n as u64 - 1) as usize;
        let a = x.slice(s![..h, ..]).to_owned();
        let b = x.slice(s![h.., ..]).to_owned();
        cmp_exact(&call!((pred.by_ref)(&a)), &base.rows[..h], &format!("first {} rows", h), B_BATCH, &mut code, &mut what, &mut fail);
        cmp_exact(&call!((pred.by_ref)(&b)), &base.rows[h..], &format!("last {} rows", n - h), B_BATCH, &mut code, &mut what, &mut fail);
    }
    // calling forms
    if let Some(bv) = &pred.by_view {
        let v = x.view();
        cmp_exact(&call!(bv(&v)), &base.rows, "predict(&view)", B_FORMS, &mut code, &mut what, &mut fail);
    }
    cmp_exact(&call!((pred.inplace_junk)(x)), &base.rows, "predict_inplace on a pre-filled target", B_FORMS, &mut code, &mut what, &mut fail);
    cmp_exact(&call!((pred.inplace_reused)(x)), &base.rows, "predict_inplace on a target reused from an earlier call (reversed batch)", B_FORMS, &mut code, &mut what, &mut fail);
    match call!((pred.owned)(x.clone())) {
        Err(e) => fail(B_PANIC, format!("predict(records) panicked: {}", e), &mut code, &mut what),
        Ok((rec, o)) => {
            if !same_bits(&rec, x) { fail(B_RECORDS, "predict(records): the returned dataset does not hold the input records".into(), &mut code, &mut what); }
            if o.shape != base.shape { fail(B_FORMS, format!("predict(records): shape {:?} vs {:?}", o.shape, base.shape), &mut code, &mut what); }
            cmp_exact(&Ok(o), &base.rows, "predict(records)", B_FORMS, &mut code, &mut what, &mut fail);
        }
    }
    let old_targets: Array1<usize> = (0..n).map(|i| 900 + i).collect();
    let ds = DatasetBase::new(x.clone(), old_targets);
    match call!((pred.ds_ref)(&ds)) {
        Err(e) => fail(B_PANIC, format!("predict(&dataset) panicked: {}", e), &mut code, &mut what),
        Ok(o) => {
            if o.shape != base.shape { fail(B_FORMS, format!("predict(&dataset): shape {:?} vs {:?}", o.shape, base.shape), &mut code, &mut what); }
            cmp_exact(&Ok(o), &base.rows, "predict(&dataset)", B_FORMS, &mut code, &mut what, &mut fail);
        }
    }
    match call!((pred.ds_owned)(ds.clone())) {
        Err(e) => fail(B_PANIC, format!("predict(dataset) panicked: {}", e), &mut code, &mut what),
        Ok((rec, o)) => {
            if !same_bits(&rec, x) { fail(B_RECORDS, "predict(dataset): the returned dataset does not hold the input records".into(), &mut code, &mut what); }
            if o.shape != base.shape { fail(B_FORMS, format!("predict(dataset): shape {:?} vs {:?}", o.shape, base.shape), &mut code, &mut what); }
            cmp_exact(&Ok(o), &base.rows, "predict(dataset)", B_FORMS, &mut code, &mut what, &mut fail);
        }
    }
    // memory layouts
    let xrows = rows_f64(x);
    let mut layouts: Vec<(&str, Result<Obs, String>, bool)> = Vec::new(); // (name, result, reversed)
    let xf = fortran(x);
    layouts.push(("column-major copy", call!((pred.by_ref)(&xf)), false));
    let xs = strided(x);
    layouts.push(("strided owned copy", call!((pred.by_ref)(&xs)), false));
    match call!((pred.owned)(xs.clone())) {
        Err(e) => fail(B_PANIC, format!("predict(strided records) panicked: {}", e), &mut code, &mut what),
        Ok((rec, o)) => {
            if !same_bits(&rec, &xs) { fail(B_RECORDS, "predict(strided records): the returned dataset does not hold the input records".into(), &mut code, &mut what); }
            layouts.push(("strided owned records form", Ok(o), false));
        }
    }
    if let Some(bv) = &pred.by_view {
        let rv = x.slice(s![..;-1, ..]);
        layouts.push(("row-reversed view", call!(bv(&rv)), true));
        let t = x.t().to_owned();
        let tv = t.t();
        layouts.push(("transposed view of the transposed copy", call!(bv(&tv)), false));
    }
    for (name, res, reversed) in layouts {
        match res {
            Err(e) => fail(B_PANIC, format!("{} panicked: {}", name, e), &mut code, &mut what),
            Ok(o) => {
                if o.rows.len() != n { fail(B_COUNT, format!("{}: {} outputs for {} rows", name, o.rows.len(), n), &mut code, &mut what); continue; }
                for i in 0..n {
                    let k = if reversed { n - 1 - i } else { i };
                    let (a, b) = (&o.rows[k], &base.rows[i]);
                    if a == b { continue; }
                    ctx.out.bump("xl_rows_not_bit_identical");
                    if xl.exact {
                        fail(B_LAYOUT, format!("{}: row {} {:?} gives {} but {} in row-major layout", name, i, xrows[i], show(a, o.real), show(b, o.real)), &mut code, &mut what);
                    } else if !o.real {
                        if xl.near.as_ref().map_or(false, |f| f(&xrows[i])) { ctx.out.bump("xl_rows_within_margin"); continue; }
                        fail(B_LAYOUT, format!("{}: row {} {:?} gives label {:?} but {:?} in row-major layout", name, i, xrows[i], a, b), &mut code, &mut what);
                    } else {
                        let l1: f64 = xrows[i].iter().map(|v| v.abs()).sum();
                        for (ua, ub) in a.iter().zip(b.iter()) {
                            let (va, vb) = (f64::from_bits(*ua), f64::from_bits(*ub));
                            let mag = if xl.expo { (va.abs() + vb.abs()) * (1.0 + xl.scale * (1.0 + l1)) } else { va.abs() + vb.abs() + xl.scale * (1.0 + l1) };
                            let tol = 4.0 * (p as f64 + 1.0) * o.eps * mag;
                            let d = (va - vb).abs();
                            let ulps = d / (o.eps * (va.abs().max(vb.abs()).max(f64::MIN_POSITIVE)));
                            if ulps > ctx.max_xl_ulps { ctx.max_xl_ulps = ulps; }
                            if tol > 0.0 && d / tol > ctx.max_xl_window { ctx.max_xl_window = d / tol; }
                            if !(d <= tol) {
                                fail(B_LAYOUT, format!("{}: row {} {:?} gives {:e} but {:e} in row-major layout (window {:e})", name, i, xrows[i], va, vb, tol), &mut code, &mut what);
                            }
                        }
                    }
                }
            }
        }
    }
    (code, what)
}

/// the whole metamorphic programme for one fitted model
fn metamorph<E: Elem>(ctx: &mut Ctx, rng: &mut Sm64, model: &str, inst: &str, pred: &Pred<E>, pool: &Array2<E>, xl: &Xl) {
    let batches = make_batches(rng, pool, ctx.nbatches);
    for b in batches {
        let id = ctx.next_id();
        // own child generator per batch: a replay of one id sees the same random choices as the full run
        let mut br = rng.fork();
        if !ctx.out.wanted(id) { continue; }
        let (code, what) = check_batch(ctx, &mut br, pred, &b.x, xl);
        let desc = format!(
            "{{\"predictor\": {}, \"instance\": {}, \"batch_kind\": {}, \"rows\": {}, \"cols\": {}, \"batch\": {}}}",
            jstr(model), jstr(inst), jstr(b.kind), b.x.nrows(), b.x.ncols(), jrows(&rows_f64(&b.x))
        );
        ctx.out.bump(&format!("meta_{}", model));
        ctx.out.bump(&format!("batch_{}", b.kind));
        let key = if b.x.nrows() >= 2 { Some(fnv(desc.as_bytes())) } else { None };
        ctx.out.rust_eval(&desc, key);
        if code != 0 {
            let tag_model = format!("predictor_{}", model);
            let tag_kind = format!("batch_{}", b.kind);
            ctx.out.rust_fail(id, code, &[&tag_model, &tag_kind], &what, &desc);
        }
    }
}

/// a model could not be fitted on valid data: recorded (not a C03 matter), the instance is skipped
fn no_model(ctx: &mut Ctx, model: &str, why: &str) {
    ctx.out.bump(&format!("nomodel_{}", model));
    let _ = why;
}

// ------------------------------------------------------------------------------------------------
// data
// ------------------------------------------------------------------------------------------------

fn arr<E: Elem>(rows: &[Vec<f64>]) -> Array2<E> {
    let d = if rows.is_empty() { 0 } else { rows[0].len() };
    Array2::from_shape_vec((rows.len(), d), rows.iter().flatten().map(|v| E::of(*v)).collect()).unwrap()
}

/// k blobs in p dimensions; kind 0 = gaussian clouds, 1 = integer lattice with duplicates
fn blobs(rng: &mut Sm64, n: usize, p: usize, k: usize, kind: u64) -> (Vec<Vec<f64>>, Vec<usize>) {
    let centers: Vec<Vec<f64>> = (0..k).map(|c| (0..p).map(|j| if kind == 1 { ((c as i64 * 4 + j as i64) % 7 - 3) as f64 * 2.0 } else { rng.range(-6, 6) as f64 + c as f64 }).collect()).collect();
    let mut x = Vec::new();
    let mut y = Vec::new();
    for i in 0..n {
        let c = i % k;
        let row: Vec<f64> = match kind {
            1 => centers[c].iter().map(|v| v + rng.range(-1, 1) as f64).collect(),
            _ => centers[c].iter().map(|v| v + 0.8 * rng.gauss()).collect(),
        };
        x.push(row);
        y.push(c);
    }
    (x, y)
}

/// regression data y = X w + b + noise
fn regdata(rng: &mut Sm64, n: usize, p: usize, noise: f64) -> (Vec<Vec<f64>>, Vec<f64>) {
    let w: Vec<f64> = (0..p).map(|_| rng.range(-4, 4) as f64 * 0.5).collect();
    let b = rng.range(-3, 3) as f64;
    let mut x = Vec::new();
    let mut y = Vec::new();
    for _ in 0..n {
        let row: Vec<f64> = (0..p).map(|_| 2.0 * rng.gauss() + 0.5).collect();
        y.push(row.iter().zip(&w).map(|(a, c)| a * c).sum::<f64>() + b + noise * rng.gauss());
        x.push(row);
    }
    (x, y)
}

/// query pool: training rows, fresh rows, lattice rows, the origin, a large row, repeated rows, extras
fn pool_rows(rng: &mut Sm64, train: &[Vec<f64>], extra: &[Vec<f64>]) -> Vec<Vec<f64>> {
    let p = train[0].len();
    let mut q: Vec<Vec<f64>> = Vec::new();
    for _ in 0..6 { q.push(train[rng.below(train.len() as u64) as usize].clone()); }
    for _ in 0..6 { q.push((0..p).map(|_| 3.0 * rng.gauss()).collect()); }
    for _ in 0..3 { q.push((0..p).map(|_| rng.range(-3, 3) as f64).collect()); }
    q.push(vec![0.0; p]);
    q.push((0..p).map(|j| if j % 2 == 0 { 1.0e3 } else { -2.5e2 }).collect());
    let d = q[1].clone();
    q.push(d);
    for e in extra { q.push(e.clone()); }
    q
}

/// neighbouring doubles (finite inputs)
fn next_up(v: f64) -> f64 {
    if v == 0.0 { return f64::from_bits(1); }
    if v > 0.0 { f64::from_bits(v.to_bits() + 1) } else { f64::from_bits(v.to_bits() - 1) }
}
fn next_down(v: f64) -> f64 { -next_up(-v) }

const DIMS: [usize; 7] = [1, 2, 3, 5, 8, 9, 17];

// ================================================================================================
// C03 harness, part 2: mock members, the composing wrappers, Platt scaling.

/// mock single-target regressor. mode 0: a function of the row alone; mode 1: depends on the row
/// index (like the DummyModel2 of the crate's tests); `extra` != 0 returns a vector of the wrong length.
#[derive(Debug, Clone)]
struct MockReg { tag: f64, mode: u8, extra: isize }
impl<D: Data<Elem = f64>> PredictInplace<ArrayBase<D, Ix2>, Array1<f64>> for MockReg {
    fn predict_inplace(&self, x: &ArrayBase<D, Ix2>, y: &mut Array1<f64>) {
        let n = (x.nrows() as isize + self.extra).max(0) as usize;
        let p = x.ncols();
        *y = (0..n)
            .map(|i| {
                if self.mode == 0 && i < x.nrows() && p > 0 {
                    self.tag * 1000.0 + 7.0 * x[(i, 0)] - x[(i, p - 1)]
                } else {
                    self.tag * 1000.0 + i as f64
                }
            })
            .collect();
    }
    fn default_target(&self, x: &ArrayBase<D, Ix2>) -> Array1<f64> { Array1::zeros(x.nrows()) }
}

/// mock probability model: probabilities are multiples of 1/4 so that ties between members are frequent
#[derive(Debug, Clone)]
struct MockPr { tag: f64, mode: u8, extra: isize }
impl<D: Data<Elem = f64>> PredictInplace<ArrayBase<D, Ix2>, Array1<Pr>> for MockPr {
    fn predict_inplace(&self, x: &ArrayBase<D, Ix2>, y: &mut Array1<Pr>) {
        let n = (x.nrows() as isize + self.extra).max(0) as usize;
        *y = (0..n)
            .map(|i| {
                let v = if self.mode == 0 && i < x.nrows() && x.ncols() > 0 {
                    (x[(i, 0)] * (self.tag + 1.0)).rem_euclid(5.0).floor() / 4.0
                } else if self.mode == 2 {
                    0.5
                } else {
                    ((i as f64 * (self.tag + 1.0)) % 5.0).floor() / 4.0
                };
                Pr::new(v as f32)
            })
            .collect();
    }
    fn default_target(&self, x: &ArrayBase<D, Ix2>) -> Array1<Pr> { Array1::default(x.nrows()) }
}

fn lattice(rng: &mut Sm64, n: usize, p: usize) -> Array2<f64> {
    Array2::from_shape_fn((n, p), |_| rng.range(-6, 6) as f64 * 0.5)
}

fn multi_target_cases(ctx: &mut Ctx, rng: &mut Sm64, thorough: bool) {
    let mut shapes: Vec<(usize, usize, u8, isize)> = Vec::new();
    for n in 0..=4 { for m in 0..=4 { for mode in 0..2u8 { shapes.push((n, m, mode, 0)); } } }
    let nrand = if thorough { 120 } else { 30 };
    for _ in 0..nrand { shapes.push((rng.below(10) as usize, rng.below(7) as usize, rng.below(2) as u8, 0)); }
    for _ in 0..(if thorough { 20 } else { 8 }) { shapes.push((1 + rng.below(4) as usize, 1 + rng.below(4) as usize, 1, if rng.chance(0.5) { 1 } else { -1 })); }
    for (n, m, mode, extra) in shapes {
        let id = ctx.next_id();
        let mut cr = rng.fork();
        let rng = &mut cr;
        if !ctx.out.wanted(id) { continue; }
        let x = lattice(rng, n, 2);
        let bad = if extra != 0 { rng.below(m as u64) as usize } else { usize::MAX };
        let mocks: Vec<MockReg> = (0..m).map(|j| MockReg { tag: (j + 1) as f64, mode, extra: if j == bad { extra } else { 0 } }).collect();
        let members: Vec<Vec<f64>> = mocks.iter().map(|mk| { let y: Array1<f64> = mk.predict(&x); y.to_vec() }).collect();
        let model: MultiTargetModel<Array2<f64>, f64> = mocks.iter().cloned().collect();
        let res = guarded(AssertUnwindSafe(|| { let y: Array2<f64> = model.predict(&x); y }));
        let (panicked, shape, rows) = match &res {
            Ok(y) => (false, (y.nrows(), y.ncols()), rows_of(&y.view())),
            Err(_) => (true, (0, 0), vec![]),
        };
        let coq = format!(
            "CMT {} {} {} {} ({}, {}) {}",
            cn(id), cn(n as u64), clist(&members, |v| cvec64(v)), cbool(panicked), cn(shape.0 as u64), cn(shape.1 as u64), cmat64(&rows)
        );
        let desc = format!(
            "{{\"wrapper\": \"MultiTargetModel\", \"rows\": {}, \"members\": {}, \"member_mode\": {}, \"malformed_member\": {}, \"member_outputs\": {}, \"panicked\": {}, \"output\": {}}}",
            n, m, mode, extra != 0, jrows(&members), panicked, jrows(&rows)
        );
        ctx.out.bump("coq_multi_target");
        if extra != 0 { ctx.out.bump("coq_multi_target_malformed"); }
        let key = if n >= 2 && m >= 2 { Some(fnv(desc.as_bytes())) } else { None };
        let tags: Vec<&str> = if extra != 0 { vec!["wrapper_multi_target", "malformed_member"] } else { vec!["wrapper_multi_target"] };
        ctx.out.case(id, &coq, &tags, &desc, key);
    }
    // metamorphic programme on wrappers whose members are row functions
    for k in 0..(if thorough { 6 } else { 2 }) {
        let m = 1 + k % 4;
        let model: MultiTargetModel<Array2<f64>, f64> = (0..m).map(|j| MockReg { tag: (j + 1) as f64, mode: 0, extra: 0 }).collect();
        let pool = lattice(rng, 14, 3);
        let pred = mk_pred!(model, Array2<f64>, f64);
        metamorph(ctx, rng, "multi_target_mock", &format!("{} row-function members", m), &pred, &pool, &Xl::exact());
    }
}

fn multi_class_cases(ctx: &mut Ctx, rng: &mut Sm64, thorough: bool) {
    let mut shapes: Vec<(usize, usize, u8, isize)> = Vec::new();
    for n in 0..=4 { for m in 0..=4 { for mode in 0..3u8 { shapes.push((n, m, mode, 0)); } } }
    let nrand = if thorough { 150 } else { 40 };
    for _ in 0..nrand { shapes.push((rng.below(10) as usize, rng.below(7) as usize, rng.below(3) as u8, 0)); }
    for _ in 0..(if thorough { 20 } else { 8 }) { shapes.push((1 + rng.below(4) as usize, 2 + rng.below(3) as usize, 1, if rng.chance(0.5) { 1 } else { -1 })); }
    for (n, m, mode, extra) in shapes {
        let id = ctx.next_id();
        let mut cr = rng.fork();
        let rng = &mut cr;
        if !ctx.out.wanted(id) { continue; }
        let x = lattice(rng, n, 2);
        let bad = if extra != 0 { rng.below(m as u64) as usize } else { usize::MAX };
        let dup_labels = rng.chance(0.15);
        let labels: Vec<usize> = (0..m).map(|j| if dup_labels { 10 + j / 2 } else { 10 + ((j * 7) % 11) }).collect();
        let mocks: Vec<MockPr> = (0..m).map(|j| MockPr { tag: ((j * 3) % 5) as f64, mode, extra: if j == bad { extra } else { 0 } }).collect();
        let members: Vec<Vec<f64>> = mocks.iter().map(|mk| { let y: Array1<Pr> = mk.predict(&x); y.iter().map(|p| **p as f64).collect() }).collect();
        let model: MultiClassModel<Array2<f64>, usize> = labels.iter().cloned().zip(mocks.iter().cloned()).collect();
        let res = guarded(AssertUnwindSafe(|| { let y: Array1<usize> = model.predict(&x); y }));
        let (panicked, outv) = match &res { Ok(y) => (false, y.to_vec()), Err(_) => (true, vec![]) };
        let coq = format!(
            "CMC {} {} 0%N {} {} {} {}",
            cn(id), cn(n as u64), cvecn(&labels), clist(&members, |v| cvec64(v)), cbool(panicked), cvecn(&outv)
        );
        let desc = format!(
            "{{\"wrapper\": \"MultiClassModel\", \"rows\": {}, \"labels\": {:?}, \"member_mode\": {}, \"malformed_member\": {}, \"member_probabilities\": {}, \"panicked\": {}, \"output\": {:?}}}",
            n, labels, mode, extra != 0, jrows(&members), panicked, outv
        );
        ctx.out.bump("coq_multi_class");
        // ties between the best members are what distinguishes > from >= and first from last
        let ties = (0..n).filter(|&i| {
            let pr: Vec<f64> = members.iter().filter(|v| v.len() > i).map(|v| v[i]).collect();
            let mx = pr.iter().cloned().fold(f64::NEG_INFINITY, f64::max);
            pr.iter().filter(|v| **v == mx).count() >= 2
        }).count();
        if ties > 0 { ctx.out.bump("coq_multi_class_with_ties"); }
        let key = if n >= 1 && m >= 2 { Some(fnv(desc.as_bytes())) } else { None };
        let tags: Vec<&str> = if extra != 0 { vec!["wrapper_multi_class", "malformed_member"] } else { vec!["wrapper_multi_class"] };
        ctx.out.case(id, &coq, &tags, &desc, key);
    }
    for k in 0..(if thorough { 6 } else { 2 }) {
        let m = 2 + k % 4;
        let model: MultiClassModel<Array2<f64>, usize> = (0..m).map(|j| (20 + j, MockPr { tag: j as f64, mode: 0, extra: 0 })).collect();
        let pool = lattice(rng, 14, 2);
        let pred = mk_pred!(model, Array1<usize>, f64);
        metamorph(ctx, rng, "multi_class_mock", &format!("{} row-function members", m), &pred, &pool, &Xl::exact());
    }
}

// ---------------------------------------------------------------- Platt

/// (bits of f_apb as f32, bits of exp(-|f_apb|) as f32): the libm value the Gallina model takes as input
fn platt_aux64(x: f64, a: f64, b: f64) -> (u32, u32) {
    let f = (a * x + b) as f32;
    (f.to_bits(), (-f.abs()).exp().to_bits())
}
fn platt_aux32(x: f32, a: f32, b: f32) -> (u32, u32) {
    let f = a * x + b;
    (f.to_bits(), (-f.abs()).exp().to_bits())
}
fn platt_case(ctx: &mut Ctx, id: u64, is32: bool, a: f64, b: f64, pts: &[(f64, u32, u32, i64)], origin: &str) {
    let coq = format!(
        "CPL {} {} {} {} {}",
        cn(id), cbool(is32), sf64(a), sf64(b),
        clist(pts, |t| format!("({}, ({}, ({}, {})))", sf64(t.0), cz(t.1 as i64), cz(t.2 as i64), cz(t.3)))
    );
    let desc = format!(
        "{{\"platt\": {}, \"f32_model\": {}, \"a\": {:e}, \"b\": {:e}, \"decision_values\": {:?}, \"probabilities\": {:?}}}",
        jstr(origin), is32, a, b,
        pts.iter().map(|t| format!("{:e}", t.0)).collect::<Vec<_>>(),
        pts.iter().map(|t| if t.3 < 0 { "panic".to_string() } else { format!("{:e}", f32::from_bits(t.3 as u32)) }).collect::<Vec<_>>()
    );
    ctx.out.bump(&format!("coq_platt_{}", origin));
    let key = Some(fnv(desc.as_bytes()));
    ctx.out.case(id, &coq, &["wrapper_platt"], &desc, key);
}

fn platt_direct_cases(ctx: &mut Ctx, rng: &mut Sm64, thorough: bool) {
    let n = if thorough { 200 } else { 50 };
    let special = [0.0, -0.0, 1.0, -1.0, 0.5, -2.0, 3.75, 1.0e-3, -1.0e-3];
    for k in 0..n {
        let id = ctx.next_id();
        let mut cr = rng.fork();
        let rng = &mut cr;
        if !ctx.out.wanted(id) { continue; }
        let is32 = k % 3 == 2;
        let mut a = if rng.chance(0.5) { *rng.pick(&special) } else { rng.gauss() * 2.0 };
        let mut b = if rng.chance(0.5) { *rng.pick(&special) } else { rng.gauss() * 1.5 };
        if is32 { a = a as f32 as f64; b = b as f32 as f64; }
        let mut xs: Vec<f64> = vec![0.0, -0.0, 1.0, -1.0, 1.0e-8, -1.0e-8, 12.5, -12.5, 50.0, -50.0, 200.0, -200.0, 1.0e10, -1.0e10];
        if !is32 { xs.push(1.0e300); xs.push(-1.0e300); xs.push(1.0e-300); }
        for _ in 0..8 { xs.push(rng.gauss() * 4.0); }
        for _ in 0..4 { xs.push(rng.range(-8, 8) as f64 * 0.25); }
        if a != 0.0 { xs.push(-b / a); }    // decision value (close to) zero
        let mut pts = Vec::new();
        for x in xs {
            let x = if is32 { x as f32 as f64 } else { x };
            let (fb, eb) = if is32 { platt_aux32(x as f32, a as f32, b as f32) } else { platt_aux64(x, a, b) };
            let r = if is32 { guarded(move || *platt_predict(x as f32, a as f32, b as f32)) } else { guarded(move || *platt_predict(x, a, b)) };
            let pb = match r { Ok(p) => p.to_bits() as i64, Err(_) => -1 };
            pts.push((x, fb, eb, pb));
        }
        platt_case(ctx, id, is32, a, b, &pts, "direct");
    }
}

/// a and b of a fitted Platt model (private fields, no accessor): read from the derived Debug rendering
fn platt_coeffs(dbg: &str) -> Option<(f64, f64)> {
    let r = dbg.strip_prefix("Platt { a: ")?;
    let (a, r) = r.split_once(", b: ")?;
    let (b, _) = r.split_once(", obj: ")?;
    Some((a.parse().ok()?, b.parse().ok()?))
}

/// Platt::predict_inplace against platt_predict of the inner model's predictions, then the Coq case
fn platt_wrapper_check<O>(ctx: &mut Ctx, rng: &mut Sm64, name: &str, inner: O, x: &Array2<f64>, y: &Array1<bool>, pool: &Array2<f64>)
where
    O: PredictInplace<Array2<f64>, Array1<f64>> + std::fmt::Debug + Clone,
{
    let ds = DatasetBase::new(x.clone(), y.clone());
    let fitted = match guarded(AssertUnwindSafe(|| Platt::<f64, O>::params().fit_with(inner.clone(), &ds))) {
        Ok(Ok(m)) => m,
        Ok(Err(e)) => { no_model(ctx, name, &format!("{}", e)); return; }
        Err(e) => { no_model(ctx, name, &e); return; }
    };
    let (a, b) = match platt_coeffs(&format!("{:?}", fitted)) {
        Some(ab) => ab,
        None => panic!("cannot read a, b from the Debug rendering of Platt: {:?}", fitted),
    };
    let id = ctx.next_id();
    if ctx.out.wanted(id) {
        let dec: Array1<f64> = inner.predict(pool);
        let res = guarded(AssertUnwindSafe(|| { let p: Array1<Pr> = fitted.predict(pool); p }));
        let mut pts = Vec::new();
        for (i, v) in dec.iter().enumerate() {
            let (fb, eb) = platt_aux64(*v, a, b);
            let pb = match &res { Ok(p) if p.len() == dec.len() => p[i].to_bits() as i64, _ => -1 };
            pts.push((*v, fb, eb, pb));
        }
        platt_case(ctx, id, false, a, b, &pts, name);
    }
    let pred = mk_pred!(fitted, Array1<Pr>, f64);
    metamorph(ctx, rng, name, &format!("a={:e} b={:e}", a, b), &pred, pool, &Xl::real(a.abs() + b.abs() + 1.0));
}

fn platt_mock_cases(ctx: &mut Ctx, rng: &mut Sm64, thorough: bool) {
    for k in 0..(if thorough { 10 } else { 3 }) {
        let n = 20 + rng.below(20) as usize;
        let x = lattice(rng, n, 3);
        let inner = MockReg { tag: 0.0, mode: 0, extra: 0 };
        let dec: Array1<f64> = inner.predict(&x);
        // labels correlated with the decision value, with some noise
        let y: Array1<bool> = dec.iter().map(|v| (*v + 3.0 * rng.gauss() > 0.0) ^ (k % 2 == 1)).collect();
        let pool = lattice(rng, 16, 3);
        platt_wrapper_check(ctx, rng, "platt_mock", inner, &x, &y, &pool);
    }
}
// ================================================================================================
// C03 harness, part 3: the predictor types of the workspace.
use linfa_bayes::{GaussianNb, MultinomialNb};
use linfa_clustering::{GaussianMixtureModel, KMeans, KMeansInit};
use linfa_elasticnet::{ElasticNet, MultiTaskElasticNet};
use linfa_ftrl::Ftrl;
use linfa_linear::{IsotonicRegression, LinearRegression, Link, TweedieRegressor};
use linfa_logistic::{LogisticRegression, MultiLogisticRegression};
use linfa_nn::distance::L2Dist;
use linfa_pls::PlsRegression;
use linfa_reduction::Pca;
use linfa_svm::Svm;
use linfa_trees::{DecisionTree, TreeNode};
use rand::SeedableRng;
use std::convert::TryInto;
use rand_xoshiro::Xoshiro256Plus;

/// ndarray's unrolled_dot (contiguous operands), transliterated
fn udot(xs: &[f64], ys: &[f64]) -> f64 {
    let mut p = [0.0f64; 8];
    let mut i = 0;
    while xs.len() - i >= 8 {
        for l in 0..8 { p[l] = p[l] + xs[i + l] * ys[i + l]; }
        i += 8;
    }
    let mut sum = 0.0;
    sum = sum + (p[0] + p[4]);
    sum = sum + (p[1] + p[5]);
    sum = sum + (p[2] + p[6]);
    sum = sum + (p[3] + p[7]);
    while i < xs.len() { sum = sum + xs[i] * ys[i]; i += 1; }
    sum
}
fn maxabs(v: &[f64]) -> f64 { v.iter().fold(0.0, |m, x| m.max(x.abs())) }

// ------------------------------------------------------------------------------------------------
// array-level cases: predict_inplace on a pre-filled target against C03/MatModel.v (C03/CorrMat.v)
// ------------------------------------------------------------------------------------------------

/// ndarray's sequential 1-D dot product (an operand is not a contiguous slice), transliterated
fn sdot(xs: &[f64], ys: &[f64]) -> f64 {
    let mut sum = 0.0;
    for i in 0..xs.len().min(ys.len()) { sum = sum + xs[i] * ys[i]; }
    sum
}
fn dot_as(contig: bool, xs: &[f64], ys: &[f64]) -> f64 { if contig { udot(xs, ys) } else { sdot(xs, ys) } }
fn rows_contig(x: &Array2<f64>) -> bool { x.nrows() == 0 || x.row(0).as_slice().is_some() }

fn copt(s: Option<String>) -> String { match s { Some(v) => format!("(Some {})", v), None => "None".into() } }
fn cpairs(t: &[(f64, f64)]) -> String { format!("({})%float", clist(t, |ab| format!("({}, {})", cf64(ab.0), cf64(ab.1)))) }
fn cvecz(xs: &[i64]) -> String { format!("({})%Z", clist(xs, |x| format!("{}", x))) }
fn cvecb(xs: &[bool]) -> String { clist(xs, |b| cbool(*b).to_string()) }
fn cmat(x: &Array2<f64>) -> String { cmat64(&rows_of(&x.view())) }

fn junk_f64(n: usize) -> Array1<f64> { (0..n).map(|i| 1.0e30 + 1.0e15 * i as f64).collect() }
fn junk_usize(n: usize) -> Array1<usize> { (0..n).map(|i| 7_000_003 + i).collect() }
fn junk_bool(n: usize) -> Array1<bool> { (0..n).map(|i| i % 3 != 1).collect() }
fn junk_pr(n: usize) -> Array1<Pr> { (0..n).map(|i| Pr::new_unchecked(0.125 + (i % 5) as f32 * 0.0625)).collect() }
fn junk_mat(n: usize, k: usize) -> Array2<f64> { Array2::from_shape_fn((n, k), |(i, j)| -1.0e30 - (i * 31 + j) as f64) }

/// predict_inplace on the given target; None = the call panicked
fn inplace_on<M, T>(m: &M, x: &Array2<f64>, y: T) -> Option<T>
where M: PredictInplace<Array2<f64>, T> {
    guarded(AssertUnwindSafe(move || { let mut y = y; m.predict_inplace(x, &mut y); y })).ok()
}

/// the batches every array-level case family is run on: (variant, records, length of the target)
fn mat_variants(pool: &Array2<f64>, layouts: bool, extra_col: bool) -> Vec<(&'static str, Array2<f64>, usize)> {
    let n = pool.nrows().min(20);
    let x = pool.slice(s![..n, ..]).to_owned();
    let mut v: Vec<(&'static str, Array2<f64>, usize)> = vec![("row_major", x.clone(), n)];
    if layouts { v.push(("column_major", fortran(&x), n)); }
    v.push(("empty_batch", x.slice(s![..0, ..]).to_owned(), 0));
    let m = n.min(3);
    v.push(("target_too_long", x.slice(s![..m, ..]).to_owned(), m + 1));
    if m > 0 { v.push(("target_too_short", x.slice(s![..m, ..]).to_owned(), m - 1)); }
    if extra_col {
        let p = x.ncols();
        v.push(("extra_column", Array2::from_shape_fn((m, p + 1), |(i, j)| if j < p { x[(i, j)] } else { 1.0 }), m));
    }
    v
}

fn mat_case(ctx: &mut Ctx, model: &str, variant: &str, term: String, x: &Array2<f64>, panicked: bool) {
    let id = ctx.next_id();
    if !ctx.out.wanted(id) { return; }
    let desc = format!(
        "{{\"predictor\": {}, \"model\": \"C03/MatModel.v predict_inplace on a pre-filled target\", \"variant\": {}, \"rows\": {}, \"cols\": {}, \"panicked\": {}, \"batch\": {}}}",
        jstr(model), jstr(variant), x.nrows(), x.ncols(), panicked, jrows(&rows_of(&x.view()))
    );
    ctx.out.bump(&format!("coq_mat_{}", model));
    ctx.out.bump(&format!("coq_mat_variant_{}", variant));
    if panicked { ctx.out.bump("coq_mat_panics"); }
    let tag = format!("predictor_{}", model);
    let vtag = format!("variant_{}", variant);
    let key = if x.nrows() >= 2 && !panicked { Some(fnv(desc.as_bytes())) } else { None };
    ctx.out.case(id, &format!("CMAT {} ({})", cn(id), term), &[&tag, "array_model", &vtag], &desc, key);
}

/// x.dot(w) + b predictors. link 0: OLS / elastic net; 1, 2, 3: Tweedie GLM identity / log / logit
fn mat_lin<M>(ctx: &mut Ctx, model: &str, m: &M, link: u64, w: &[f64], b: f64, pool: &Array2<f64>)
where M: PredictInplace<Array2<f64>, Array1<f64>> {
    for (variant, x, ny) in mat_variants(pool, true, true) {
        let contig = rows_contig(&x);
        let out = inplace_on(m, &x, junk_f64(ny));
        let mut exps = Vec::new();
        if link >= 2 && x.ncols() == w.len() {
            for r in x.rows() {
                let z = dot_as(contig, &r.to_vec(), w) * 1.0 + b;
                let a = if link == 2 { z } else { -z };
                exps.push((a, a.exp()));
            }
        }
        let term = format!("MLin {} {} {} {} {} {} {} {} {}", cn(link), cbool(contig), cn(w.len() as u64), cvec64(w), sf64(b), cpairs(&exps),
            cmat(&x), cvec64(&junk_f64(ny).to_vec()), copt(out.as_ref().map(|o| cvec64(&o.to_vec()))));
        mat_case(ctx, model, variant, term, &x, out.is_none());
    }
}

/// binary32 OLS / elastic net: values cross as bit patterns
fn mat_lin32<M>(ctx: &mut Ctx, model: &str, m: &M, w: &[f32], b: f32, pool: &Array2<f32>)
where M: PredictInplace<Array2<f32>, Array1<f32>> {
    let n = pool.nrows().min(16);
    let x0 = pool.slice(s![..n, ..]).to_owned();
    let p = x0.ncols();
    let k = n.min(3);
    let variants: Vec<(&str, Array2<f32>, usize)> = vec![
        ("row_major", x0.clone(), n),
        ("column_major", fortran(&x0), n),
        ("empty_batch", x0.slice(s![..0, ..]).to_owned(), 0),
        ("target_too_long", x0.slice(s![..k, ..]).to_owned(), k + 1),
        ("extra_column", Array2::from_shape_fn((k, p + 1), |(i, j)| if j < p { x0[(i, j)] } else { 1.0 }), k),
    ];
    let bits = |v: &[f32]| -> Vec<i64> { v.iter().map(|a| a.to_bits() as i64).collect() };
    for (variant, x, ny) in variants {
        let contig = x.nrows() == 0 || x.row(0).as_slice().is_some();
        let y0: Array1<f32> = (0..ny).map(|i| 1.0e30 + 1.0e24 * i as f32).collect();
        let xx = &x;
        let yy = y0.clone();
        let out = guarded(AssertUnwindSafe(move || { let mut y = yy; m.predict_inplace(xx, &mut y); y })).ok();
        let xrows: Vec<Vec<i64>> = x.rows().into_iter().map(|r| bits(&r.to_vec())).collect();
        let term = format!("MLin32 {} {} {} {} {} {} {}", cbool(contig), cn(w.len() as u64), cvecz(&bits(w)), cz(b.to_bits() as i64),
            clist(&xrows, |r| cvecz(r)), cvecz(&bits(&y0.to_vec())), copt(out.as_ref().map(|o| cvecz(&bits(&o.to_vec())))));
        mat_case(ctx, model, variant, term, &x.mapv(|v| v as f64), out.is_none());
    }
}

fn mat_logit<M>(ctx: &mut Ctx, model: &str, m: &M, w: &[f64], b: f64, thr: f64, pos: usize, neg: usize, pool: &Array2<f64>)
where M: PredictInplace<Array2<f64>, Array1<usize>> {
    for (variant, x, ny) in mat_variants(pool, true, true) {
        let contig = rows_contig(&x);
        let out = inplace_on(m, &x, junk_usize(ny));
        let mut exps = Vec::new();
        if x.ncols() == w.len() {
            for r in x.rows() { let z = dot_as(contig, &r.to_vec(), w) * 1.0 + b; exps.push((-z, (-z).exp())); }
        }
        let term = format!("MLogit {} {} {} {} {} {} {} {} {} {} {}", cbool(contig), cn(w.len() as u64), cvec64(w), sf64(b), sf64(thr), cpairs(&exps),
            cn(pos as u64), cn(neg as u64), cmat(&x), cvecn(&junk_usize(ny).to_vec()), copt(out.as_ref().map(|o| cvecn(&o.to_vec()))));
        mat_case(ctx, model, variant, term, &x, out.is_none());
    }
}

/// product table: what the same ndarray call returns on the same operands (empty when the shapes do not fit)
fn prod_table(a: &Array2<f64>, b: &ArrayView2<f64>) -> Array2<f64> {
    if a.ncols() != b.nrows() { return Array2::zeros((0, 0)); }
    a.dot(b)
}

fn mat_mlogit<M>(ctx: &mut Ctx, model: &str, m: &M, w: &Array2<f64>, b: &[f64], classes: &[usize], pool: &Array2<f64>)
where M: PredictInplace<Array2<f64>, Array1<usize>> {
    for (variant, x, ny) in mat_variants(pool, false, true) {
        let out = inplace_on(m, &x, junk_usize(ny));
        let prod = prod_table(&x, &w.view());
        let term = format!("MMlogit {} {} {} {} {} {} {} {} {}", cn(w.nrows() as u64), cn(w.ncols() as u64), cmat(w), cvec64(b), cvecn(classes), cmat(&prod),
            cmat(&x), cvecn(&junk_usize(ny).to_vec()), copt(out.as_ref().map(|o| cvecn(&o.to_vec()))));
        mat_case(ctx, model, variant, term, &x, out.is_none());
    }
}

fn mat_mtl<M>(ctx: &mut Ctx, model: &str, m: &M, w: &Array2<f64>, b: &[f64], pool: &Array2<f64>)
where M: PredictInplace<Array2<f64>, Array2<f64>> {
    for (variant, x, ny) in mat_variants(pool, false, true) {
        let out = inplace_on(m, &x, junk_mat(ny, w.ncols()));
        let prod = prod_table(&x, &w.view());
        let term = format!("MMtl {} {} {} {} {} {} {} {}", cn(w.nrows() as u64), cn(w.ncols() as u64), cmat(w), cvec64(b), cmat(&prod),
            cmat(&x), cn(ny as u64), copt(out.as_ref().map(|o| cmat(o))));
        mat_case(ctx, model, variant, term, &x, out.is_none());
    }
}

fn mat_pca<M>(ctx: &mut Ctx, model: &str, m: &M, mean: &Array1<f64>, e: &Array2<f64>, pool: &Array2<f64>)
where M: PredictInplace<Array2<f64>, Array2<f64>> {
    // observation (not a C03 matter, outside the modelled inputs): ndarray co-broadcasts a one-column batch
    // against the fitted mean, so such a batch is accepted by a model with more than one feature
    if mean.len() > 1 && pool.nrows() >= 2 {
        let x1 = pool.slice(s![..2, ..1]).to_owned();
        if inplace_on(m, &x1, junk_mat(2, e.nrows())).is_some() { ctx.out.bump("obs_one_column_batch_accepted_pca"); }
    }
    for (variant, x, ny) in mat_variants(pool, false, true) {
        let y0 = junk_mat(ny, e.nrows());
        let out = inplace_on(m, &x, y0.clone());
        let prod = if x.ncols() == mean.len() { prod_table(&(&x - mean), &e.t()) } else { Array2::zeros((0, 0)) };
        let term = format!("MPca {} {} {} {} {} {} {}", cn(mean.len() as u64), cvec64(&mean.to_vec()), cmat(e), cmat(&prod),
            cmat(&x), cmat(&y0), copt(out.as_ref().map(|o| cmat(o))));
        mat_case(ctx, model, variant, term, &x, out.is_none());
    }
}

fn mat_pls<M>(ctx: &mut Ctx, model: &str, m: &M, xm: &[f64], xs: &[f64], coef: &Array2<f64>, ym: &[f64], pool: &Array2<f64>)
where M: PredictInplace<Array2<f64>, Array2<f64>> {
    if xm.len() > 1 && pool.nrows() >= 2 {
        let x1 = pool.slice(s![..2, ..1]).to_owned();
        if inplace_on(m, &x1, junk_mat(2, coef.ncols())).is_some() { ctx.out.bump("obs_one_column_batch_accepted_pls"); }
    }
    for (variant, x, ny) in mat_variants(pool, false, true) {
        let y0 = junk_mat(ny, coef.ncols());
        let out = inplace_on(m, &x, y0.clone());
        let prod = if x.ncols() == xm.len() {
            let mut xc = &x - &Array1::from(xm.to_vec());
            xc /= &Array1::from(xs.to_vec());
            prod_table(&xc, &coef.view())
        } else { Array2::zeros((0, 0)) };
        let term = format!("MPls {} {} {} {} {} {} {} {} {} {}", cn(xm.len() as u64), cn(coef.ncols() as u64), cvec64(xm), cvec64(xs), cmat(coef), cvec64(ym), cmat(&prod),
            cmat(&x), cmat(&y0), copt(out.as_ref().map(|o| cmat(o))));
        mat_case(ctx, model, variant, term, &x, out.is_none());
    }
}

/// naive Bayes; classes = (label, prior, first array, second array) as read from the bincode image
fn mat_nb<M>(ctx: &mut Ctx, model: &str, m: &M, gaussian: bool, classes: &[(usize, f64, Vec<f64>, Vec<f64>)], pool: &Array2<f64>)
where M: PredictInplace<Array2<f64>, Array1<usize>> {
    let mut cls: Vec<&(usize, f64, Vec<f64>, Vec<f64>)> = classes.iter().collect();
    cls.sort_by_key(|c| c.0);
    let p = pool.ncols();
    for (variant, x, ny) in mat_variants(pool, true, false) {
        let out = inplace_on(m, &x, junk_usize(ny));
        let term = if gaussian {
            // sum_axis(Axis(1)) sums lanes when axis 1 has the smallest stride, columns otherwise
            let lanes = !(x.strides()[0].abs() < x.strides()[1].abs());
            let mut lns = Vec::new();
            for c in &cls { for s in &c.3 { let a = 2.0 * std::f64::consts::PI * s; lns.push((a, a.ln())); } }
            format!("MGnb {} {} {} {} {} {} {}", cbool(lanes), cn(p as u64),
                clist(&cls, |c| format!("({}, ({}, ({}, ({}, {}))))", cn(c.0 as u64), sf64(c.1), sf64(c.1.ln()), cvec64(&c.2), cvec64(&c.3))),
                cpairs(&lns), cmat(&x), cvecn(&junk_usize(ny).to_vec()), copt(out.as_ref().map(|o| cvecn(&o.to_vec()))))
        } else {
            format!("MMnb {} {} {} {} {}", cbool(rows_contig(&x)),
                clist(&cls, |c| format!("({}, ({}, ({}, {})))", cn(c.0 as u64), sf64(c.1), sf64(c.1.ln()), cvec64(&c.3))),
                cmat(&x), cvecn(&junk_usize(ny).to_vec()), copt(out.as_ref().map(|o| cvecn(&o.to_vec()))))
        };
        mat_case(ctx, model, variant, term, &x, out.is_none());
    }
}

fn mat_ftrl<M>(ctx: &mut Ctx, model: &str, m: &M, w: &[f64], pool: &Array2<f64>)
where M: PredictInplace<Array2<f64>, Array1<Pr>> {
    for (variant, x, ny) in mat_variants(pool, true, true) {
        let contig = rows_contig(&x);
        let y0 = junk_pr(ny);
        let out = inplace_on(m, &x, y0.clone());
        let mut exps = Vec::new();
        if x.ncols() == w.len() {
            for r in x.rows() {
                let z = dot_as(contig, &r.to_vec(), w) * 1.0;
                let v = z.min(35.0).max(-35.0);
                let a = if v.is_sign_negative() { v } else { -v };
                exps.push((a, a.exp()));
            }
        }
        let bits = |a: &Array1<Pr>| -> Vec<i64> { a.iter().map(|p| p.to_bits() as i64).collect() };
        let term = format!("MFtrl {} {} {} {} {} {} {}", cbool(contig), cn(w.len() as u64), cvec64(w), cpairs(&exps),
            cmat(&x), cvecz(&bits(&y0)), copt(out.as_ref().map(|o| cvecz(&bits(o)))));
        mat_case(ctx, model, variant, term, &x, out.is_none());
    }
}

/// explicit hyperplane of a linear-kernel SVM (private field): w_j = weighted_sum(e_j), exact
fn svm_linear_w<T>(m: &Svm<f64, T>, p: usize) -> Vec<f64> {
    (0..p).map(|j| { let mut e = Array1::<f64>::zeros(p); e[j] = 1.0; m.weighted_sum(&e) }).collect()
}
fn mat_svm_reg(ctx: &mut Ctx, model: &str, m: &Svm<f64, f64>, pool: &Array2<f64>) {
    let w = svm_linear_w(m, pool.ncols());
    for (variant, x, ny) in mat_variants(pool, true, false) {
        let out = inplace_on(m, &x, junk_f64(ny));
        let term = format!("MSvm 0%N {} {} {} {} {} [] None", cvec64(&w), sf64(m.rho), cmat(&x), cvec64(&junk_f64(ny).to_vec()), copt(out.as_ref().map(|o| cvec64(&o.to_vec()))));
        mat_case(ctx, model, variant, term, &x, out.is_none());
    }
}
fn mat_svm_cls(ctx: &mut Ctx, model: &str, m: &Svm<f64, bool>, pool: &Array2<f64>) {
    let w = svm_linear_w(m, pool.ncols());
    for (variant, x, ny) in mat_variants(pool, true, false) {
        let out = inplace_on(m, &x, junk_bool(ny));
        let term = format!("MSvm 1%N {} {} {} ([])%float None {} {}", cvec64(&w), sf64(m.rho), cmat(&x), cvecb(&junk_bool(ny).to_vec()), copt(out.as_ref().map(|o| cvecb(&o.to_vec()))));
        mat_case(ctx, model, variant, term, &x, out.is_none());
    }
}
fn mat_kmeans<M>(ctx: &mut Ctx, model: &str, m: &M, cents: &[Vec<f64>], pool: &Array2<f64>)
where M: PredictInplace<Array2<f64>, Array1<usize>> {
    for (variant, x, ny) in mat_variants(pool, true, false) {
        let out = inplace_on(m, &x, junk_usize(ny));
        let term = format!("MKm {} {} {} {}", cmat64(cents), cmat(&x), cvecn(&junk_usize(ny).to_vec()), copt(out.as_ref().map(|o| cvecn(&o.to_vec()))));
        mat_case(ctx, model, variant, term, &x, out.is_none());
    }
}
fn mat_tree<M>(ctx: &mut Ctx, model: &str, m: &M, tree: &str, pool: &Array2<f64>)
where M: PredictInplace<Array2<f64>, Array1<usize>> {
    for (variant, x, ny) in mat_variants(pool, true, false) {
        let out = inplace_on(m, &x, junk_usize(ny));
        let term = format!("MTree {} {} {} {}", tree, cmat(&x), cvecn(&junk_usize(ny).to_vec()), copt(out.as_ref().map(|o| cvecn(&o.to_vec()))));
        mat_case(ctx, model, variant, term, &x, out.is_none());
    }
}
/// isotonic regression: the pool in its non-monotone order plus a NaN query (its target element is left untouched)
fn mat_iso<M>(ctx: &mut Ctx, model: &str, m: &M, reg: &[f64], resp: &[f64], pool: &Array2<f64>, rng: &mut Sm64)
where M: PredictInplace<Array2<f64>, Array1<f64>> {
    let mut q: Vec<f64> = pool.column(0).to_vec();
    rng.shuffle(&mut q);
    q.truncate(24);
    q.insert(q.len() / 2, f64::NAN);
    let qa = Array2::from_shape_vec((q.len(), 1), q).unwrap();
    for (variant, x, ny) in mat_variants(&qa, true, true) {
        let out = inplace_on(m, &x, junk_f64(ny));
        let term = format!("MIso {} {} {} {} {}", cvec64(reg), cvec64(resp), cmat(&x), cvec64(&junk_f64(ny).to_vec()), copt(out.as_ref().map(|o| cvec64(&o.to_vec()))));
        mat_case(ctx, model, variant, term, &x, out.is_none());
    }
}

fn ext_case(ctx: &mut Ctx, model: &str, ok: bool, what: &str, detail: &str) {
    let id = ctx.next_id();
    if !ctx.out.wanted(id) { return; }
    let code = if ok { 0 } else { 512 };
    let desc = format!("{{\"predictor\": {}, \"rust_transliteration\": {}, \"detail\": {}}}", jstr(model), jstr(what), jstr(detail));
    ctx.out.bump(&format!("coq_ext_{}", model));
    let tag = format!("predictor_{}", model);
    ctx.out.case(id, &format!("CEXT {} {}", cn(id), cn(code)), &[&tag, "rust_transliteration"], &desc, Some(fnv(desc.as_bytes())));
}

/// single-sample calling forms (one-dimensional records) against the batch prediction
fn row_form_check(ctx: &mut Ctx, model: &str, bad: Option<usize>, pool: &Array2<f64>) {
    let id = ctx.next_id();
    if !ctx.out.wanted(id) { return; }
    let desc = format!("{{\"predictor\": {}, \"check\": \"predict(one-dimensional sample) equals the batch prediction of that row\", \"rows\": {}, \"first_differing_row\": {}}}",
        jstr(model), pool.nrows(), match bad { Some(i) => format!("{:?}", pool.row(i).to_vec()), None => "null".into() });
    ctx.out.bump(&format!("rowform_{}", model));
    ctx.out.rust_eval(&desc, Some(fnv(desc.as_bytes()) ^ id));
    if let Some(i) = bad {
        let tag = format!("predictor_{}", model);
        ctx.out.rust_fail(id, 1, &[&tag, "single_sample_form"], &format!("predict on the single sample {:?} differs from its prediction inside the batch", pool.row(i).to_vec()), &desc);
    }
}

fn lin_case(ctx: &mut Ctx, model: &str, kind: u64, w: &[f64], b: f64, x: &Array2<f64>, out: &[f64], labs: &[bool]) {
    let id = ctx.next_id();
    if !ctx.out.wanted(id) { return; }
    let contig = x.nrows() == 0 || x.row(0).as_slice().is_some();
    let rows = rows_of(&x.view());
    let coq = format!(
        "CLIN {} {} {} {} {} {} {} {}",
        cn(id), cn(kind), cbool(contig), cvec64(w), sf64(b), cmat64(&rows), cvec64(out), clist(labs, |l| cbool(*l).to_string())
    );
    let desc = format!(
        "{{\"predictor\": {}, \"model\": \"x.dot(w)+b\", \"kind\": {}, \"contiguous_rows\": {}, \"w\": {:?}, \"b\": {:e}, \"rows\": {}, \"features\": {}}}",
        jstr(model), kind, contig, w, b, x.nrows(), x.ncols()
    );
    ctx.out.bump(&format!("coq_lin_{}", model));
    if !contig { ctx.out.bump("coq_lin_strided_rows"); }
    if x.ncols() >= 8 { ctx.out.bump("coq_lin_ge8_features"); }
    let tag = format!("predictor_{}", model);
    ctx.out.case(id, &coq, &[&tag], &desc, Some(fnv(desc.as_bytes())));
}

fn aff_case(ctx: &mut Ctx, model: &str, kind: u64, mean: &[f64], scale: &[f64], w: &Array2<f64>, b: &[f64], x: &Array2<f64>, out: &[Vec<f64>], labs: &[usize]) {
    let id = ctx.next_id();
    if !ctx.out.wanted(id) { return; }
    let coq = format!(
        "CAFF {} {} {} {} {} {} {} {} {}",
        cn(id), cn(kind), cvec64(mean), cvec64(scale), cmat64(&rows_of(&w.view())), cvec64(b), cmat64(&rows_of(&x.view())), cmat64(out), cvecn(labs)
    );
    let desc = format!(
        "{{\"predictor\": {}, \"model\": \"((X - mean) / scale) W + b over Q\", \"kind\": {}, \"rows\": {}, \"features\": {}, \"outputs\": {}}}",
        jstr(model), kind, x.nrows(), x.ncols(), w.ncols()
    );
    ctx.out.bump(&format!("coq_aff_{}", model));
    let tag = format!("predictor_{}", model);
    ctx.out.case(id, &coq, &[&tag], &desc, Some(fnv(desc.as_bytes())));
}

fn pick_dim(rng: &mut Sm64, inst: usize, maxp: usize) -> usize {
    let c: Vec<usize> = DIMS.iter().cloned().filter(|d| *d <= maxp).collect();
    if inst < c.len() { c[c.len() - 1 - inst] } else { *rng.pick(&c) }
}

// ---------------------------------------------------------------- k-means
fn kmeans_models(ctx: &mut Ctx, rng: &mut Sm64, ninst: usize) {
    for inst in 0..ninst + 2 {
        let (x, k, init): (Vec<Vec<f64>>, usize, Option<Vec<Vec<f64>>>) = if inst == 0 {
            // points at -1 and +1: centroids exactly -1 / +1, the origin is an exact tie
            let p = 2;
            let mut x = Vec::new();
            for i in 0..10 { x.push(vec![if i % 2 == 0 { -1.0 } else { 1.0 }; p]); }
            (x, 2, Some(vec![vec![-1.0; p], vec![1.0; p]]))
        } else if inst == 1 {
            // a duplicated centroid: every query near +1 ties between centroids 1 and 2
            let mut x = Vec::new();
            for i in 0..12 { x.push(vec![if i % 2 == 0 { -1.0 } else { 1.0 }, 0.5]); }
            (x, 3, Some(vec![vec![-1.0, 0.5], vec![1.0, 0.5], vec![1.0, 0.5]]))
        } else {
            let p = pick_dim(rng, inst - 2, 9);
            let k = 2 + rng.below(3) as usize;
            let n = 24 + rng.below(12) as usize;
            let (x, _) = blobs(rng, n, p, k, (inst % 2) as u64);
            (x, k, None)
        };
        let xa: Array2<f64> = arr(&x);
        let ds = DatasetBase::from(xa.clone());
        let seed = rng.below(1000);
        let im = match &init { Some(c) => KMeansInit::Precomputed(arr(c)), None => KMeansInit::KMeansPlusPlus };
        let fit = guarded(AssertUnwindSafe(|| {
            KMeans::params_with(k, Xoshiro256Plus::seed_from_u64(seed), L2Dist).max_n_iterations(30).n_runs(1).init_method(im).fit(&ds)
        }));
        let model = match fit { Ok(Ok(m)) => m, _ => { no_model(ctx, "kmeans", "fit failed"); continue; } };
        let cents = rows_of(&model.centroids().view());
        let mut extra: Vec<Vec<f64>> = cents.clone();
        for i in 0..cents.len() { for j in i + 1..cents.len() {
            extra.push(cents[i].iter().zip(&cents[j]).map(|(a, b)| (a + b) / 2.0).collect());
        } }
        let pool: Array2<f64> = arr(&pool_rows(rng, &x, &extra));
        // Coq: arg-min scan bit for bit
        let id = ctx.next_id();
        if ctx.out.wanted(id) {
            let pr: Array1<usize> = model.predict(&pool);
            let coq = format!("CKM {} {} {} {}", cn(id), cmat64(&cents), cmat64(&rows_of(&pool.view())), cvecn(&pr.to_vec()));
            let desc = format!("{{\"predictor\": \"kmeans\", \"centroids\": {}, \"queries\": {}}}", jrows(&cents), pool.nrows());
            ctx.out.bump("coq_kmeans");
            ctx.out.case(id, &coq, &["predictor_kmeans"], &desc, Some(fnv(desc.as_bytes())));
        }
        mat_kmeans(ctx, "kmeans", &model, &cents, &pool);
        {
            let pr: Array1<usize> = model.predict(&pool);
            let bad = (0..pool.nrows()).find(|&i| {
                let owned: usize = model.predict(&pool.row(i).to_owned());
                let v = pool.row(i);
                let view: usize = model.predict(&v);
                owned != pr[i] || view != pr[i]
            });
            row_form_check(ctx, "kmeans", bad, &pool);
        }
        let pred = mk_pred!(model, Array1<usize>, f64, view);
        metamorph(ctx, rng, "kmeans", &format!("k={} inst={}", k, inst), &pred, &pool, &Xl::exact());
        if inst == 2 {
            // the same data as f32
            let xa32: Array2<f32> = arr(&x);
            let ds32 = DatasetBase::from(xa32);
            if let Ok(Ok(m32)) = guarded(AssertUnwindSafe(|| KMeans::params_with(k, Xoshiro256Plus::seed_from_u64(seed), L2Dist).max_n_iterations(30).fit(&ds32))) {
                let pool32: Array2<f32> = pool.mapv(|v| v as f32);
                let pred = mk_pred!(m32, Array1<usize>, f32, view);
                metamorph(ctx, rng, "kmeans_f32", "f32", &pred, &pool32, &Xl::exact());
            }
        }
    }
}

// ---------------------------------------------------------------- Gaussian mixture
fn gmm_models(ctx: &mut Ctx, rng: &mut Sm64, ninst: usize) {
    for inst in 0..ninst {
        let p = pick_dim(rng, inst + 2, 5);
        let k = 2 + rng.below(2) as usize;
        let n = 40 + rng.below(20) as usize;
        let (x, _) = blobs(rng, n, p, k, 0);
        let ds = DatasetBase::from(arr::<f64>(&x));
        let seed = rng.below(1000);
        let fit = guarded(AssertUnwindSafe(|| {
            GaussianMixtureModel::params(k).with_rng(Xoshiro256Plus::seed_from_u64(seed)).n_runs(2).tolerance(1e-4).fit(&ds)
        }));
        let model = match fit { Ok(Ok(m)) => m, _ => { no_model(ctx, "gmm", "fit failed"); continue; } };
        let pool: Array2<f64> = arr(&pool_rows(rng, &x, &rows_of(&model.means().view())));
        let near = |row: &[f64]| {
            let r = Array2::from_shape_vec((1, row.len()), row.to_vec()).unwrap();
            let mut pr = model.predict_proba(&r).row(0).to_vec();
            pr.sort_by(|a, b| b.partial_cmp(a).unwrap_or(std::cmp::Ordering::Equal));
            pr.len() < 2 || !((pr[0] - pr[1]).abs() > 1e-9)
        };
        let xl = Xl { exact: false, scale: 1.0, near: Some(Box::new(near)), expo: false };
        {
            // the label is the first maximum of the row of responsibilities that predict_proba publishes
            let pr: Array1<usize> = model.predict(&pool);
            let proba = model.predict_proba(&pool);
            let bad = (0..pool.nrows()).find(|&i| {
                let r = proba.row(i);
                let mut best = 0;
                for c in 1..r.len() { if r[c] > r[best] { best = c; } }
                best != pr[i]
            });
            ext_case(ctx, "gmm", bad.is_none(), "predict(x) = first arg-max of predict_proba(x)", &format!("first differing row {:?}", bad.map(|i| pool.row(i).to_vec())));
        }
        let pred = mk_pred!(model, Array1<usize>, f64, view);
        metamorph(ctx, rng, "gmm", &format!("k={} p={}", k, p), &pred, &pool, &xl);
    }
}

// ---------------------------------------------------------------- OLS, elastic net, GLM
fn linear_models(ctx: &mut Ctx, rng: &mut Sm64, ninst: usize) {
    for inst in 0..ninst {
        let p = pick_dim(rng, inst, 17);
        let n = 3 * p + 8 + rng.below(10) as usize;
        let (x, y) = regdata(rng, n, p, 0.3);
        let xa: Array2<f64> = arr(&x);
        let ya = Array1::from(y.clone());
        let ds = DatasetBase::new(xa.clone(), ya.clone());
        let pool: Array2<f64> = arr(&pool_rows(rng, &x, &[]));
        let poolf = fortran(&pool);

        // OLS
        match guarded(AssertUnwindSafe(|| LinearRegression::new().with_intercept(inst % 3 != 2).fit(&ds))) {
            Ok(Ok(m)) => {
                let w = m.params().to_vec();
                let b = m.intercept();
                let o: Array1<f64> = m.predict(&pool);
                lin_case(ctx, "ols", 0, &w, b, &pool, &o.to_vec(), &[]);
                let o: Array1<f64> = m.predict(&poolf);
                lin_case(ctx, "ols", 0, &w, b, &poolf, &o.to_vec(), &[]);
                mat_lin(ctx, "ols", &m, 0, &w, b, &pool);
                let pred = mk_pred!(m, Array1<f64>, f64, view);
                metamorph(ctx, rng, "ols", &format!("p={}", p), &pred, &pool, &Xl::real(maxabs(&w) + b.abs()));
            }
            _ => no_model(ctx, "ols", "fit failed"),
        }
        // elastic net
        match guarded(AssertUnwindSafe(|| ElasticNet::params().penalty(0.05 + 0.1 * (inst % 3) as f64).l1_ratio(0.5).with_intercept(inst % 4 != 3).fit(&ds))) {
            Ok(Ok(m)) => {
                let w = m.hyperplane().to_vec();
                let b = m.intercept();
                let o: Array1<f64> = m.predict(&pool);
                lin_case(ctx, "elasticnet", 0, &w, b, &pool, &o.to_vec(), &[]);
                let o: Array1<f64> = m.predict(&poolf);
                lin_case(ctx, "elasticnet", 0, &w, b, &poolf, &o.to_vec(), &[]);
                mat_lin(ctx, "elasticnet", &m, 0, &w, b, &pool);
                let pred = mk_pred!(m, Array1<f64>, f64, view);
                metamorph(ctx, rng, "elasticnet", &format!("p={}", p), &pred, &pool, &Xl::real(maxabs(&w) + b.abs()));
            }
            _ => no_model(ctx, "elasticnet", "fit failed"),
        }
        // multi-task elastic net
        let t = 2 + inst % 3;
        let y2 = Array2::from_shape_fn((n, t), |(i, j)| y[i] * (j as f64 + 1.0) - x[i][0] * j as f64);
        let ds2 = DatasetBase::new(xa.clone(), y2);
        match guarded(AssertUnwindSafe(|| MultiTaskElasticNet::params().penalty(0.1).l1_ratio(0.4).fit(&ds2))) {
            Ok(Ok(m)) => {
                let o: Array2<f64> = m.predict(&pool);
                aff_case(ctx, "multitask_elasticnet", 0, &[], &[], m.hyperplane(), &m.intercept().to_vec(), &pool, &rows_of(&o.view()), &[]);
                mat_mtl(ctx, "multitask_elasticnet", &m, m.hyperplane(), &m.intercept().to_vec(), &pool);
                let sc = maxabs(m.hyperplane().as_slice().unwrap_or(&[1.0])) + maxabs(&m.intercept().to_vec());
                let pred = mk_pred!(m, Array2<f64>, f64, view);
                metamorph(ctx, rng, "multitask_elasticnet", &format!("p={} tasks={}", p, t), &pred, &pool, &Xl::real(sc));
            }
            _ => no_model(ctx, "multitask_elasticnet", "fit failed"),
        }
        // Tweedie GLM: identity link (normal) and log link (Poisson / gamma) on positive targets
        // mild scales: the line search of the GLM solver does not terminate once it meets a NaN deviance
        let ymax = maxabs(&y).max(1.0);
        let ypos = ya.mapv(|v| (1.5 * v / ymax).exp());
        let dsp = DatasetBase::new(xa.mapv(|v| 0.25 * v), ypos);
        // targets in (0, 1) for the logit link (normal distribution)
        let y01 = ya.mapv(|v| 1.0 / (1.0 + (-1.5 * v / ymax).exp()));
        let ds01 = DatasetBase::new(xa.mapv(|v| 0.25 * v), y01);
        for (power, link) in [(0.0, Link::Identity), (1.0, Link::Log), (2.0, Link::Log), (0.0, Link::Logit)] {
            if power == 2.0 && inst % 2 == 0 { continue; }
            let name = match link { Link::Identity => "glm_identity", Link::Log => "glm_log", Link::Logit => "glm_logit" };
            let r = if link == Link::Identity {
                guarded(AssertUnwindSafe(|| TweedieRegressor::params().power(power).link(link).alpha(0.01).max_iter(200).fit(&ds)))
            } else if link == Link::Logit {
                guarded(AssertUnwindSafe(|| TweedieRegressor::params().power(power).link(link).alpha(0.1).max_iter(100).fit(&ds01)))
            } else {
                guarded(AssertUnwindSafe(|| TweedieRegressor::params().power(power).link(link).alpha(0.1).max_iter(100).fit(&dsp)))
            };
            match r {
                Ok(Ok(m)) => {
                    let w = m.coef.to_vec();
                    let b = m.intercept;
                    let o: Array1<f64> = m.predict(&pool);
                    if link == Link::Identity {
                        lin_case(ctx, name, 0, &w, b, &pool, &o.to_vec(), &[]);
                        let o: Array1<f64> = m.predict(&poolf);
                        lin_case(ctx, name, 0, &w, b, &poolf, &o.to_vec(), &[]);
                    } else if link == Link::Logit {
                        let bad = pool.rows().into_iter().zip(o.iter()).position(|(r, v)| (1.0 / (1.0 + (-(udot(r.as_slice().unwrap(), &w) * 1.0 + b)).exp())).to_bits() != v.to_bits());
                        ext_case(ctx, name, bad.is_none(), "predict(x) = 1 / (1 + exp(-(unrolled_dot(x, coef) + intercept)))", &format!("first differing row {:?} coef {:?} intercept {:e}", bad.map(|i| pool.row(i).to_vec()), w, b));
                    } else {
                        let bad = pool.rows().into_iter().zip(o.iter()).position(|(r, v)| (udot(r.as_slice().unwrap(), &w) * 1.0 + b).exp().to_bits() != v.to_bits());
                        ext_case(ctx, name, bad.is_none(), "predict(x) = exp(unrolled_dot(x, coef) + intercept)", &format!("first differing row {:?} coef {:?} intercept {:e}", bad.map(|i| pool.row(i).to_vec()), w, b));
                    }
                    mat_lin(ctx, name, &m, match link { Link::Identity => 1, Link::Log => 2, Link::Logit => 3 }, &w, b, &pool);
                    let mut xl = Xl::real(maxabs(&w) + b.abs());
                    xl.expo = link == Link::Log;
                    let pred = mk_pred!(m, Array1<f64>, f64, view);
                    metamorph(ctx, rng, name, &format!("p={} power={}", p, power), &pred, &pool, &xl);
                }
                _ => no_model(ctx, name, "fit failed"),
            }
        }
        if inst == 1 {
            // f32 elastic net
            let ds32 = DatasetBase::new(xa.mapv(|v| v as f32), ya.mapv(|v| v as f32));
            if let Ok(Ok(m)) = guarded(AssertUnwindSafe(|| ElasticNet::<f32>::params().penalty(0.1).l1_ratio(0.5).fit(&ds32))) {
                let pool32 = pool.mapv(|v| v as f32);
                let sc = m.hyperplane().iter().fold(0.0f64, |a, v| a.max(v.abs() as f64)) + m.intercept().abs() as f64;
                mat_lin32(ctx, "elasticnet_f32", &m, &m.hyperplane().to_vec(), m.intercept(), &pool32);
                let pred = mk_pred!(m, Array1<f32>, f32, view);
                metamorph(ctx, rng, "elasticnet_f32", &format!("p={}", p), &pred, &pool32, &Xl::real(sc));
            }
        }
    }
}

// ---------------------------------------------------------------- isotonic regression
/// reader of bincode images (fitted parameters that are private and have no accessor);
/// ndarray's serde format of an array: version u8 = 1, dim (u64 per axis), length u64, data
struct Rd<'b> { b: &'b [u8], pos: usize }
impl<'b> Rd<'b> {
    fn u8(&mut self) -> Option<u8> { let v = *self.b.get(self.pos)?; self.pos += 1; Some(v) }
    fn u64(&mut self) -> Option<u64> { let v = u64::from_le_bytes(self.b.get(self.pos..self.pos + 8)?.try_into().ok()?); self.pos += 8; Some(v) }
    fn f64(&mut self) -> Option<f64> { Some(f64::from_bits(self.u64()?)) }
    fn arr1(&mut self) -> Option<Vec<f64>> {
        if self.u8()? != 1 { return None; }
        let dim = self.u64()? as usize;
        let len = self.u64()? as usize;
        if dim != len || len > 1 << 24 { return None; }
        (0..len).map(|_| self.f64()).collect()
    }
    fn arr2(&mut self) -> Option<Array2<f64>> {
        if self.u8()? != 1 { return None; }
        let (r, c) = (self.u64()? as usize, self.u64()? as usize);
        let len = self.u64()? as usize;
        if r.checked_mul(c)? != len || len > 1 << 24 { return None; }
        let v: Option<Vec<f64>> = (0..len).map(|_| self.f64()).collect();
        Array2::from_shape_vec((r, c), v?).ok()
    }
    fn done(&self) -> bool { self.pos == self.b.len() }
}
/// regressor / response of a fitted isotonic model
fn iso_knots(bytes: &[u8]) -> Option<(Vec<f64>, Vec<f64>)> {
    let mut r = Rd { b: bytes, pos: 0 };
    let a = r.arr1()?;
    let b = r.arr1()?;
    if r.done() { Some((a, b)) } else { None }
}

fn isotonic_models(ctx: &mut Ctx, rng: &mut Sm64, ninst: usize) {
    for inst in 0..ninst {
        let n = 6 + rng.below(25) as usize;
        let dir = if inst % 3 == 2 { -1.0 } else { 1.0 };
        let lattice = inst % 4 == 1;
        let xs: Vec<f64> = (0..n).map(|_| if lattice { rng.range(-6, 6) as f64 } else { 4.0 * rng.gauss() }).collect();
        let ys: Vec<f64> = xs.iter().map(|v| dir * v + if lattice { rng.range(-3, 3) as f64 } else { 2.0 * rng.gauss() }).collect();
        let xa = Array2::from_shape_vec((n, 1), xs.clone()).unwrap();
        let ds = DatasetBase::new(xa.clone(), Array1::from(ys));
        let model = match guarded(AssertUnwindSafe(|| IsotonicRegression::new().fit(&ds))) { Ok(Ok(m)) => m, _ => { no_model(ctx, "isotonic", "fit failed"); continue; } };
        let (reg, resp) = match bincode::serialize(&model).ok().and_then(|b| iso_knots(&b)) {
            Some(k) => k,
            None => panic!("cannot read the knots of FittedIsotonicRegression from its bincode image"),
        };
        // queries: every knot, just below / above, midpoints, far outside, training points
        let mut q: Vec<Vec<f64>> = Vec::new();
        for (i, k) in reg.iter().enumerate() {
            q.push(vec![*k]);
            q.push(vec![next_up(*k)]);
            q.push(vec![next_down(*k)]);
            if i + 1 < reg.len() { q.push(vec![(k + reg[i + 1]) / 2.0]); }
        }
        q.truncate(40);
        q.push(vec![-1.0e6]);
        q.push(vec![1.0e6]);
        q.push(vec![0.0]);
        for _ in 0..6 { q.push(vec![xs[rng.below(n as u64) as usize]]); q.push(vec![5.0 * rng.gauss()]); }
        let pool: Array2<f64> = arr(&q);
        let id = ctx.next_id();
        if ctx.out.wanted(id) {
            let o: Array1<f64> = model.predict(&pool);
            let coq = format!("CISO {} {} {} {} {}", cn(id), cvec64(&reg), cvec64(&resp), cvec64(&pool.column(0).to_vec()), cvec64(&o.to_vec()));
            let desc = format!("{{\"predictor\": \"isotonic\", \"regressor\": {:?}, \"response\": {:?}, \"queries\": {}}}", reg, resp, pool.nrows());
            ctx.out.bump("coq_isotonic");
            ctx.out.case(id, &coq, &["predictor_isotonic"], &desc, Some(fnv(desc.as_bytes())));
        }
        { let mut ir = rng.fork(); mat_iso(ctx, "isotonic", &model, &reg, &resp, &pool, &mut ir); }
        let pred = mk_pred!(model, Array1<f64>, f64, view);
        metamorph(ctx, rng, "isotonic", &format!("knots={}", reg.len()), &pred, &pool, &Xl::exact());
    }
}

// ---------------------------------------------------------------- logistic regression
fn logistic_models(ctx: &mut Ctx, rng: &mut Sm64, ninst: usize) {
    for inst in 0..ninst {
        let p = pick_dim(rng, inst, 9);
        let n = 40 + rng.below(20) as usize;
        // binary, overlapping classes (separable data makes L-BFGS fail: "no model")
        let (x, y) = blobs(rng, n, p, 2, 0);
        let x: Vec<Vec<f64>> = x.iter().map(|r| r.iter().map(|v| 0.4 * v + 1.5 * rng.gauss()).collect()).collect();
        let xa: Array2<f64> = arr(&x);
        let labels: Array1<usize> = y.iter().map(|c| if *c == 0 { 3 } else { 8 }).collect();
        let ds = DatasetBase::new(xa.clone(), labels);
        let pool: Array2<f64> = arr(&pool_rows(rng, &x, &[]));
        match guarded(AssertUnwindSafe(|| LogisticRegression::default().alpha(0.5).max_iterations(200).fit(&ds))) {
            Ok(Ok(m)) => {
                let w = m.params().to_vec();
                let b = m.intercept();
                let pos = m.labels().pos.class;
                let neg = m.labels().neg.class;
                let o: Array1<usize> = m.predict(&pool);
                let labs: Vec<bool> = o.iter().map(|l| *l == pos).collect();
                lin_case(ctx, "logistic", 1, &w, b, &pool, &[], &labs);
                let only_two = o.iter().all(|l| *l == pos || *l == neg);
                // decision threshold placed exactly on one row's probability: the row must be positive
                let probs = m.predict_probabilities(&pool);
                let r = rng.below(pool.nrows() as u64) as usize;
                let thr = probs[r];
                let m2 = m.clone().set_threshold(thr);
                let o2: Array1<usize> = m2.predict(&pool);
                let bad = (0..pool.nrows()).find(|&i| o2[i] != if probs[i] >= thr { pos } else { neg });
                ext_case(ctx, "logistic", only_two && bad.is_none(), "label = pos iff predict_probabilities(x) >= threshold (threshold set to one row's probability)",
                    &format!("threshold {:e} first differing row {:?}", thr, bad.map(|i| pool.row(i).to_vec())));
                let sc = maxabs(&w) + b.abs();
                for (mm, thr, nm) in [(&m, 0.5, "logistic"), (&m2, thr, "logistic_threshold_tie")] {
                    mat_logit(ctx, nm, mm, &w, b, thr, pos, neg, &pool);
                    let near = move |row: &[f64]| {
                        let r = Array2::from_shape_vec((1, row.len()), row.to_vec()).unwrap();
                        !((mm.predict_probabilities(&r)[0] - thr).abs() > 1e-9)
                    };
                    let xl = Xl { exact: false, scale: sc, near: Some(Box::new(near)), expo: false };
                    let pred = mk_pred!(*mm, Array1<usize>, f64, view);
                    metamorph(ctx, rng, nm, &format!("p={}", p), &pred, &pool, &xl);
                }
            }
            _ => no_model(ctx, "logistic", "fit failed"),
        }
        // multinomial
        let k = 3 + inst % 2;
        let (x3, y3) = blobs(rng, n + 10, p, k, 0);
        let x3: Vec<Vec<f64>> = x3.iter().map(|r| r.iter().map(|v| 0.4 * v + 1.2 * rng.gauss()).collect()).collect();
        let ds3 = DatasetBase::new(arr::<f64>(&x3), Array1::from(y3.iter().map(|c| 10 * c + 1).collect::<Vec<usize>>()));
        let pool3: Array2<f64> = arr(&pool_rows(rng, &x3, &[]));
        match guarded(AssertUnwindSafe(|| MultiLogisticRegression::default().alpha(0.5).max_iterations(200).fit(&ds3))) {
            Ok(Ok(m)) => {
                let o: Array1<usize> = m.predict(&pool3);
                let classes = m.classes().to_vec();
                let idx: Vec<usize> = o.iter().map(|l| classes.iter().position(|c| c == l).unwrap_or(usize::MAX >> 8)).collect();
                aff_case(ctx, "multi_logistic", 1, &[], &[], m.params(), &m.intercept().to_vec(), &pool3, &[], &idx);
                mat_mlogit(ctx, "multi_logistic", &m, m.params(), &m.intercept().to_vec(), &classes, &pool3);
                let wv = m.params().clone();
                let bv = m.intercept().clone();
                let sc = wv.iter().fold(0.0f64, |a, v| a.max(v.abs())) + maxabs(&bv.to_vec());
                let near = move |row: &[f64]| {
                    let mut z: Vec<f64> = (0..wv.ncols()).map(|c| row.iter().enumerate().map(|(j, v)| v * wv[(j, c)]).sum::<f64>() + bv[c]).collect();
                    z.sort_by(|a, b| b.partial_cmp(a).unwrap_or(std::cmp::Ordering::Equal));
                    !((z[0] - z[1]).abs() > 1e-9 * (1.0 + z[0].abs()))
                };
                let xl = Xl { exact: false, scale: sc, near: Some(Box::new(near)), expo: false };
                let pred = mk_pred!(m, Array1<usize>, f64, view);
                metamorph(ctx, rng, "multi_logistic", &format!("p={} classes={}", p, k), &pred, &pool3, &xl);
            }
            _ => no_model(ctx, "multi_logistic", "fit failed"),
        }
    }
}
// ================================================================================================
// C03 harness, part 4: SVM, trees, naive Bayes, FTRL, PCA, PLS, wrappers over fitted members.

fn after<'s>(s: &'s str, key: &str) -> Option<&'s str> { s.find(key).map(|i| &s[i + key.len()..]) }
/// Platt coefficients of an SVM fitted for probabilities (private field): from the Debug rendering
fn svm_platt_coeffs(dbg: &str) -> Option<(f64, f64)> {
    let r = after(dbg, "probability_coeffs: Some((")?;
    let (a, r) = r.split_once(", ")?;
    let (b, _) = r.split_once("))")?;
    Some((a.parse().ok()?, b.parse().ok()?))
}

#[derive(Clone, Copy, Debug)]
enum Kern { Lin, Gauss(f64), Poly(f64, f64) }

macro_rules! with_kernel {
    ($p:expr, $k:expr) => {
        match $k { Kern::Lin => $p.linear_kernel(), Kern::Gauss(e) => $p.gaussian_kernel(e), Kern::Poly(c, d) => $p.polynomial_kernel(c, d) }
    };
}

// ---- round 5: non-linear-kernel SVM predict_inplace against C03/ModelR5.v (run in C03/CorrR5.v) ----
fn r5_variants(pool: &Array2<f64>) -> Vec<(&'static str, Array2<f64>, usize)> {
    let n = pool.nrows().min(8);
    let x = pool.slice(s![..n, ..]).to_owned();
    let p = x.ncols();
    let mut v: Vec<(&'static str, Array2<f64>, usize)> = vec![("row_major", x.clone(), n), ("column_major", fortran(&x), n)];
    v.push(("empty_batch", x.slice(s![..0, ..]).to_owned(), 0));
    let m = n.min(3);
    v.push(("target_too_long", x.slice(s![..m, ..]).to_owned(), m + 1));
    if m > 0 { v.push(("target_too_short", x.slice(s![..m, ..]).to_owned(), m - 1)); }
    // Gaussian: the iterator zip truncates; polynomial: &a * &b panics unless one operand has length 1
    v.push(("extra_column", Array2::from_shape_fn((m, p + 1), |(i, j)| if j < p { x[(i, j)] } else { 1.0 }), m));
    if p > 1 { v.push(("single_column", x.slice(s![..m, ..1]).to_owned(), m)); }
    v
}
/// (argument, libm value) pairs of every kernel evaluation of the batch: exp for the Gaussian kernel,
/// powf(., d) for the polynomial kernel; the arguments are recomputed by the Gallina model
fn r5_table(kern: Kern, train: &Array2<f64>, alpha: &[f64], x: &Array2<f64>) -> Vec<(f64, f64)> {
    let mut t: Vec<(f64, f64)> = Vec::new();
    let mut seen = std::collections::HashSet::new();
    for r in x.rows() {
        for (s, a) in train.rows().into_iter().zip(alpha.iter()) {
            if !(a.abs() > 100.0 * f64::EPSILON) { continue; }
            let kv = match kern {
                Kern::Gauss(eps) => {
                    let d = s.iter().zip(r.iter()).map(|(u, v)| (*u - *v) * (*u - *v)).sum::<f64>();
                    let z = -d / eps;
                    Some((z, z.exp()))
                }
                Kern::Poly(c, d) => {
                    if s.len() == r.len() || s.len() == 1 || r.len() == 1 { let b = (&s * &r).sum() + c; Some((b, b.powf(d))) } else { None }
                }
                Kern::Lin => None,
            };
            if let Some((k, v)) = kv { if seen.insert(k.to_bits()) { t.push((k, v)); } }
        }
    }
    t
}
fn r5_head(kern: Kern, kind: u64, train: &Array2<f64>, alpha: &[f64], rho: f64, x: &Array2<f64>) -> String {
    let (km, p1, p2, dn) = match kern {
        Kern::Gauss(e) => (0u64, e, 0.0, "None".to_string()),
        Kern::Poly(c, d) => (1u64, c, d, if d.fract() == 0.0 && (0.0..=64.0).contains(&d) { format!("(Some {})", cz(d as i64)) } else { "None".to_string() }),
        Kern::Lin => unreachable!(),
    };
    format!("RSvmK {} {} {} {} {} {} {} {} {} {}", cn(km), cn(kind), sf64(p1), sf64(p2), dn, cpairs(&r5_table(kern, train, alpha, x)),
        cmat(train), cvec64(alpha), sf64(rho), cmat(x))
}
fn r5_case(ctx: &mut Ctx, model: &str, kern: Kern, variant: &str, term: String, x: &Array2<f64>, panicked: bool) {
    let id = ctx.next_id();
    if !ctx.out.wanted(id) { return; }
    let desc = format!(
        "{{\"predictor\": {}, \"model\": \"C03/ModelR5.v svm_kernel_inplace on a pre-filled target\", \"kernel\": {}, \"variant\": {}, \"rows\": {}, \"cols\": {}, \"panicked\": {}, \"batch\": {}}}",
        jstr(model), jstr(&format!("{:?}", kern)), jstr(variant), x.nrows(), x.ncols(), panicked, jrows(&rows_of(&x.view()))
    );
    ctx.out.bump(&format!("coq_r5_{}", model));
    ctx.out.bump(&format!("coq_r5_variant_{}", variant));
    ctx.out.bump(match kern { Kern::Gauss(_) => "coq_r5_kernel_gaussian", Kern::Poly(..) => "coq_r5_kernel_polynomial", Kern::Lin => "coq_r5_kernel_linear" });
    if panicked { ctx.out.bump("coq_r5_panics"); }
    let tag = format!("predictor_{}", model);
    let vtag = format!("variant_{}", variant);
    let key = if x.nrows() >= 2 && !panicked { Some(fnv(desc.as_bytes())) } else { None };
    ctx.out.case(id, &format!("CR5 {} ({})", cn(id), term), &[&tag, "array_model_r5", "svm_nonlinear_kernel", &vtag], &desc, key);
}
fn r5_svm_reg(ctx: &mut Ctx, model: &str, kern: Kern, m: &Svm<f64, f64>, train: &Array2<f64>, pool: &Array2<f64>) {
    for (variant, x, ny) in r5_variants(pool) {
        let out = inplace_on(m, &x, junk_f64(ny));
        let term = format!("{} {} {} [] None", r5_head(kern, 0, train, &m.alpha, m.rho, &x), cvec64(&junk_f64(ny).to_vec()), copt(out.as_ref().map(|o| cvec64(&o.to_vec()))));
        r5_case(ctx, model, kern, variant, term, &x, out.is_none());
    }
}
fn r5_svm_cls(ctx: &mut Ctx, model: &str, kern: Kern, m: &Svm<f64, bool>, train: &Array2<f64>, pool: &Array2<f64>) {
    for (variant, x, ny) in r5_variants(pool) {
        let out = inplace_on(m, &x, junk_bool(ny));
        let term = format!("{} ([])%float None {} {}", r5_head(kern, 1, train, &m.alpha, m.rho, &x), cvecb(&junk_bool(ny).to_vec()), copt(out.as_ref().map(|o| cvecb(&o.to_vec()))));
        r5_case(ctx, model, kern, variant, term, &x, out.is_none());
    }
}

fn svm_models(ctx: &mut Ctx, rng: &mut Sm64, ninst: usize) {
    let kerns = [Kern::Lin, Kern::Gauss(8.0), Kern::Poly(1.0, 2.0), Kern::Gauss(30.0)];
    for inst in 0..ninst {
        let p = pick_dim(rng, inst, 9);
        let kern = kerns[inst % kerns.len()];
        let n = 36 + rng.below(16) as usize;
        let (x, y) = blobs(rng, n, p, 2, 0);
        let x: Vec<Vec<f64>> = x.iter().map(|r| r.iter().map(|v| 0.5 * v + 0.8 * rng.gauss()).collect()).collect();
        let xa: Array2<f64> = arr(&x);
        let yb: Array1<bool> = y.iter().map(|c| *c == 1).collect();
        let ds = DatasetBase::new(xa.clone(), yb.clone());
        let pool: Array2<f64> = arr(&pool_rows(rng, &x, &[]));
        let inst_name = format!("p={} kernel={:?}", p, kern);

        // classification (bool)
        match guarded(AssertUnwindSafe(|| with_kernel!(Svm::<f64, bool>::params().pos_neg_weights(1.0, 1.0), kern).fit(&ds))) {
            Ok(Ok(m)) => {
                let o: Array1<bool> = m.predict(&pool);
                let bad = (0..pool.nrows()).find(|&i| o[i] != (m.weighted_sum(&pool.row(i)) - m.rho >= 0.0));
                ext_case(ctx, "svm_classification", bad.is_none(), "predict(x) = (weighted_sum(x) - rho >= 0)", &format!("{} first differing row {:?}", inst_name, bad.map(|i| pool.row(i).to_vec())));
                let badrow = (0..pool.nrows()).find(|&i| { let one: bool = m.predict(pool.row(i)); let own: bool = m.predict(pool.row(i).to_owned()); one != o[i] || own != o[i] });
                row_form_check(ctx, "svm_classification", badrow, &pool);
                if let Kern::Lin = kern { mat_svm_cls(ctx, "svm_classification", &m, &pool); } else { r5_svm_cls(ctx, "svm_classification", kern, &m, &xa, &pool); }
                let asum: f64 = m.alpha.iter().map(|a| a.abs()).sum::<f64>() + m.rho.abs();
                let mm = &m;
                let near = move |row: &[f64]| !((mm.weighted_sum(&Array1::from(row.to_vec())) - mm.rho).abs() > 1e-9 * (1.0 + asum));
                let xl = Xl { exact: false, scale: asum, near: Some(Box::new(near)), expo: false };
                let pred = mk_pred!(m, Array1<bool>, f64, view);
                metamorph(ctx, rng, "svm_classification", &inst_name, &pred, &pool, &xl);
            }
            _ => no_model(ctx, "svm_classification", "fit failed"),
        }
        // classification with probabilities (Platt inside the SVM)
        match guarded(AssertUnwindSafe(|| with_kernel!(Svm::<f64, Pr>::params().pos_neg_weights(1.0, 1.0), kern).fit(&ds))) {
            Ok(Ok(m)) => {
                match svm_platt_coeffs(&format!("{:?}", m)) {
                    Some((a, b)) => {
                        let o: Array1<Pr> = m.predict(&pool);
                        let dec: Vec<f64> = (0..pool.nrows()).map(|i| m.weighted_sum(&pool.row(i)) - m.rho).collect();
                        let bad = (0..pool.nrows()).find(|&i| o[i].to_bits() != platt_predict(dec[i], a, b).to_bits());
                        ext_case(ctx, "svm_probability", bad.is_none(), "predict(x) = platt_predict(weighted_sum(x) - rho, a, b)", &format!("{} first differing row {:?}", inst_name, bad.map(|i| pool.row(i).to_vec())));
                        let badrow = (0..pool.nrows()).find(|&i| { let one: Pr = m.predict(pool.row(i)); one.to_bits() != o[i].to_bits() });
                        row_form_check(ctx, "svm_probability", badrow, &pool);
                        let id = ctx.next_id();
                        if ctx.out.wanted(id) {
                            let pts: Vec<(f64, u32, u32, i64)> = dec.iter().zip(o.iter()).map(|(v, pr)| { let (fb, eb) = platt_aux64(*v, a, b); (*v, fb, eb, pr.to_bits() as i64) }).collect();
                            platt_case(ctx, id, false, a, b, &pts, "svm_probability");
                        }
                        let asum: f64 = (m.alpha.iter().map(|a| a.abs()).sum::<f64>() + m.rho.abs()) * (1.0 + a.abs()) + b.abs();
                        let pred = mk_pred!(m, Array1<Pr>, f64, view);
                        metamorph(ctx, rng, "svm_probability", &inst_name, &pred, &pool, &Xl::real(asum));
                    }
                    None => panic!("cannot read probability_coeffs from the Debug rendering of Svm"),
                }
            }
            _ => no_model(ctx, "svm_probability", "fit failed"),
        }
        // regression
        let yr: Array1<f64> = x.iter().map(|r| r.iter().enumerate().map(|(j, v)| v * (1.0 - 0.3 * j as f64)).sum::<f64>() + 0.2 * rng.gauss()).collect();
        let dsr = DatasetBase::new(xa.clone(), yr.clone());
        let nu = inst % 2 == 1;
        match guarded(AssertUnwindSafe(|| {
            let prm = Svm::<f64, f64>::params();
            let prm = if nu { prm.nu_svr(0.5, Some(1.0)) } else { prm.c_svr(2.0, Some(0.1)) };
            with_kernel!(prm, kern).fit(&dsr)
        })) {
            Ok(Ok(m)) => {
                let o: Array1<f64> = m.predict(&pool);
                let bad = (0..pool.nrows()).find(|&i| o[i].to_bits() != (m.weighted_sum(&pool.row(i)) - m.rho).to_bits());
                ext_case(ctx, "svm_regression", bad.is_none(), "predict(x) = weighted_sum(x) - rho", &format!("{} first differing row {:?}", inst_name, bad.map(|i| pool.row(i).to_vec())));
                let badrow = (0..pool.nrows()).find(|&i| { let one: f64 = m.predict(pool.row(i)); let own: f64 = m.predict(pool.row(i).to_owned()); one.to_bits() != o[i].to_bits() || own.to_bits() != o[i].to_bits() });
                row_form_check(ctx, "svm_regression", badrow, &pool);
                if let Kern::Lin = kern { mat_svm_reg(ctx, "svm_regression", &m, &pool); } else { r5_svm_reg(ctx, "svm_regression", kern, &m, &xa, &pool); }
                let asum: f64 = m.alpha.iter().map(|a| a.abs()).sum::<f64>() * (1.0 + maxabs(xa.as_slice().unwrap())) + m.rho.abs();
                let pred = mk_pred!(m, Array1<f64>, f64, view);
                metamorph(ctx, rng, "svm_regression", &inst_name, &pred, &pool, &Xl::real(asum));
            }
            _ => no_model(ctx, "svm_regression", "fit failed"),
        }
        if inst == 0 {
            let ds32 = DatasetBase::new(xa.mapv(|v| v as f32), yr.mapv(|v| v as f32));
            if let Ok(Ok(m)) = guarded(AssertUnwindSafe(|| Svm::<f32, f32>::params().c_svr(2.0, Some(0.1)).gaussian_kernel(8.0).fit(&ds32))) {
                let pool32 = pool.mapv(|v| v as f32);
                let asum: f64 = m.alpha.iter().map(|a| a.abs() as f64).sum::<f64>() + m.rho.abs() as f64;
                let pred = mk_pred!(m, Array1<f32>, f32, view);
                metamorph(ctx, rng, "svm_regression_f32", &inst_name, &pred, &pool32, &Xl::real(asum));
            }
        }
        // one-class
        let dso = DatasetBase::new(xa.clone(), Array1::from_elem(n, ()));
        match guarded(AssertUnwindSafe(|| with_kernel!(Svm::<f64, Pr>::params().nu_weight(0.2), if let Kern::Lin = kern { Kern::Gauss(8.0) } else { kern }).fit(&dso))) {
            Ok(Ok(m)) => {
                let m: Svm<f64, bool> = m;
                let o: Array1<bool> = m.predict(&pool);
                let bad = (0..pool.nrows()).find(|&i| o[i] != (m.weighted_sum(&pool.row(i)) - m.rho >= 0.0));
                ext_case(ctx, "svm_one_class", bad.is_none(), "predict(x) = (weighted_sum(x) - rho >= 0)", &format!("{} first differing row {:?}", inst_name, bad.map(|i| pool.row(i).to_vec())));
                r5_svm_cls(ctx, "svm_one_class", if let Kern::Lin = kern { Kern::Gauss(8.0) } else { kern }, &m, &xa, &pool);
                let asum: f64 = m.alpha.iter().map(|a| a.abs()).sum::<f64>() + m.rho.abs();
                let mm = &m;
                let near = move |row: &[f64]| !((mm.weighted_sum(&Array1::from(row.to_vec())) - mm.rho).abs() > 1e-9 * (1.0 + asum));
                let xl = Xl { exact: false, scale: asum, near: Some(Box::new(near)), expo: false };
                let pred = mk_pred!(m, Array1<bool>, f64, view);
                metamorph(ctx, rng, "svm_one_class", &inst_name, &pred, &pool, &xl);
            }
            _ => no_model(ctx, "svm_one_class", "fit failed"),
        }
    }
}

// ---------------------------------------------------------------- decision tree
fn tree_term(node: &TreeNode<f64, usize>, splits: &mut Vec<(usize, f64)>) -> String {
    if node.is_leaf() {
        format!("(Leaf {}%N)", node.prediction().unwrap())
    } else {
        let (f, v, _) = node.split();
        splits.push((f, v));
        let ch = node.children();
        let l = tree_term(ch[0].as_ref().expect("internal node without left child"), splits);
        let r = tree_term(ch[1].as_ref().expect("internal node without right child"), splits);
        format!("(Node {}%nat {} {} {})", f, sf64(v), l, r)
    }
}

fn tree_models(ctx: &mut Ctx, rng: &mut Sm64, ninst: usize) {
    for inst in 0..ninst {
        let p = pick_dim(rng, inst + 1, 9);
        let k = 2 + inst % 3;
        let n = 30 + rng.below(30) as usize;
        let (x, y) = blobs(rng, n, p, k, (inst % 2) as u64);
        let xa: Array2<f64> = arr(&x);
        let ds = DatasetBase::new(xa.clone(), Array1::from(y.iter().map(|c| c * 5 + 2).collect::<Vec<usize>>()));
        let depth = 2 + inst % 4;
        let model = match guarded(AssertUnwindSafe(|| DecisionTree::params().max_depth(Some(depth)).fit(&ds))) { Ok(Ok(m)) => m, _ => { no_model(ctx, "decision_tree", "fit failed"); continue; } };
        let mut splits = Vec::new();
        let term = tree_term(model.root_node(), &mut splits);
        // rows sitting exactly on a split value (x[feature] <= split goes left), and one ulp around it
        let mut extra = Vec::new();
        for (f, v) in splits.iter().take(8) {
            for dv in [*v, next_up(*v), next_down(*v)] {
                let mut r = x[rng.below(n as u64) as usize].clone();
                r[*f] = dv;
                extra.push(r);
            }
        }
        let pool: Array2<f64> = arr(&pool_rows(rng, &x, &extra));
        let id = ctx.next_id();
        if ctx.out.wanted(id) {
            let o: Array1<usize> = model.predict(&pool);
            let coq = format!("CTREE {} {} {} {}", cn(id), term, cmat64(&rows_of(&pool.view())), cvecn(&o.to_vec()));
            let desc = format!("{{\"predictor\": \"decision_tree\", \"internal_nodes\": {}, \"queries\": {}, \"queries_on_split_values\": {}}}", splits.len(), pool.nrows(), extra.len());
            ctx.out.bump("coq_tree");
            ctx.out.bump_by("coq_tree_rows_on_split_value", (extra.len() / 3) as u64);
            ctx.out.case(id, &coq, &["predictor_decision_tree"], &desc, if splits.is_empty() { None } else { Some(fnv(desc.as_bytes()) ^ id) });
        }
        { let mut sp = Vec::new(); let term = tree_term(model.root_node(), &mut sp); mat_tree(ctx, "decision_tree", &model, &term, &pool); }
        let pred = mk_pred!(model, Array1<usize>, f64, view);
        metamorph(ctx, rng, "decision_tree", &format!("p={} depth<={} splits={}", p, depth, splits.len()), &pred, &pool, &Xl::exact());
        if inst == 0 {
            let ds32 = DatasetBase::new(xa.mapv(|v| v as f32), ds.targets().clone());
            if let Ok(Ok(m)) = guarded(AssertUnwindSafe(|| DecisionTree::<f32, usize>::params().max_depth(Some(depth)).fit(&ds32))) {
                let pool32 = pool.mapv(|v| v as f32);
                let pred = mk_pred!(m, Array1<usize>, f32, view);
                metamorph(ctx, rng, "decision_tree_f32", "f32", &pred, &pool32, &Xl::exact());
            }
        }
    }
}

// ---------------------------------------------------------------- naive Bayes
/// per-class fitted statistics (private HashMap<label, info>) from the bincode image:
/// (label, prior, first array, second array) with info = {class_count, prior, array, array}
fn nb_classes(bytes: &[u8]) -> Option<Vec<(usize, f64, Vec<f64>, Vec<f64>)>> {
    let mut r = Rd { b: bytes, pos: 0 };
    let n = r.u64()? as usize;
    if n > 1000 { return None; }
    let mut v = Vec::new();
    for _ in 0..n {
        let label = r.u64()? as usize;
        let _count = r.u64()?;
        let prior = r.f64()?;
        let a = r.arr1()?;
        let b = r.arr1()?;
        v.push((label, prior, a, b));
    }
    if r.done() { Some(v) } else { None }
}
/// the predicted label must attain the maximal joint log-likelihood (recomputed naively) up to rounding
fn nb_argmax_check(pool: &Array2<f64>, pred: &Array1<usize>, classes: &[(usize, f64, Vec<f64>, Vec<f64>)], jll: &dyn Fn(&[f64], &(usize, f64, Vec<f64>, Vec<f64>)) -> f64) -> Option<usize> {
    (0..pool.nrows()).find(|&i| {
        let row = pool.row(i).to_vec();
        let vals: Vec<(usize, f64)> = classes.iter().map(|c| (c.0, jll(&row, c))).collect();
        let mx = vals.iter().map(|v| v.1).fold(f64::NEG_INFINITY, f64::max);
        match vals.iter().find(|v| v.0 == pred[i]) {
            None => true,
            Some(v) => !(v.1 >= mx - 1e-9 * (1.0 + mx.abs())),
        }
    })
}
fn bayes_models(ctx: &mut Ctx, rng: &mut Sm64, ninst: usize) {
    // nine features: the unrolled and the sequential summation orders differ (array-level Coq cases only;
    // the metamorphic programme below keeps fewer than 8 features, where every layout sums in the same order)
    for k in [2usize, 3] {
        let p = 9;
        let n = 40;
        let (x, y) = blobs(rng, n, p, k, 0);
        let labels = Array1::from(y.iter().map(|c| c * 3 + 1).collect::<Vec<usize>>());
        if let Ok(Ok(m)) = guarded(AssertUnwindSafe(|| GaussianNb::params().fit(&DatasetBase::new(arr::<f64>(&x), labels.clone())))) {
            let pool: Array2<f64> = arr(&pool_rows(rng, &x, &[]));
            let classes = match bincode::serialize(&m).ok().and_then(|b| nb_classes(&b)) { Some(c) => c, None => panic!("cannot read the class statistics of GaussianNb from its bincode image") };
            mat_nb(ctx, "gaussian_nb", &m, true, &classes, &pool);
        } else { no_model(ctx, "gaussian_nb", "fit failed"); }
        let xc: Vec<Vec<f64>> = y.iter().map(|c| (0..p).map(|j| (rng.below(4) + if j % k == *c { 3 } else { 0 }) as f64).collect()).collect();
        if let Ok(Ok(m)) = guarded(AssertUnwindSafe(|| MultinomialNb::params().fit(&DatasetBase::new(arr::<f64>(&xc), labels.clone())))) {
            let q: Vec<Vec<f64>> = (0..16).map(|i| if i < 6 { xc[rng.below(n as u64) as usize].clone() } else { (0..p).map(|_| rng.below(6) as f64 + 0.25 * rng.below(4) as f64).collect() }).collect();
            let classes = match bincode::serialize(&m).ok().and_then(|b| nb_classes(&b)) { Some(c) => c, None => panic!("cannot read the class statistics of MultinomialNb from its bincode image") };
            mat_nb(ctx, "multinomial_nb", &m, false, &classes, &arr(&q));
        } else { no_model(ctx, "multinomial_nb", "fit failed"); }
    }
    for inst in 0..ninst {
        // fewer than 8 features: the row sums then run in the same order in every layout
        let p = pick_dim(rng, inst + 2, 5);
        let k = 2 + inst % 3;
        let n = 30 + rng.below(30) as usize;
        let (x, y) = blobs(rng, n, p, k, 0);
        let labels = Array1::from(y.iter().map(|c| c * 3 + 1).collect::<Vec<usize>>());
        let ds = DatasetBase::new(arr::<f64>(&x), labels.clone());
        match guarded(AssertUnwindSafe(|| GaussianNb::params().fit(&ds))) {
            Ok(Ok(m)) => {
                let pool: Array2<f64> = arr(&pool_rows(rng, &x, &[]));
                let classes = match bincode::serialize(&m).ok().and_then(|b| nb_classes(&b)) { Some(c) => c, None => panic!("cannot read the class statistics of GaussianNb from its bincode image") };
                let o: Array1<usize> = m.predict(&pool);
                let bad = nb_argmax_check(&pool, &o, &classes, &|row, c| {
                    let (theta, sigma) = (&c.2, &c.3);
                    let a: f64 = sigma.iter().map(|s| (2.0 * std::f64::consts::PI * s).ln()).sum();
                    let b: f64 = row.iter().zip(theta.iter().zip(sigma)).map(|(x, (t, s))| (x - t) * (x - t) / s).sum();
                    -0.5 * a - 0.5 * b + c.1.ln()
                });
                mat_nb(ctx, "gaussian_nb", &m, true, &classes, &pool);
                ext_case(ctx, "gaussian_nb", bad.is_none(), "predict(x) attains the maximal joint log-likelihood of the fitted class statistics", &format!("first differing row {:?}", bad.map(|i| pool.row(i).to_vec())));
                let pred = mk_pred!(m, Array1<usize>, f64, view);
                let xl = Xl { exact: false, scale: 1.0, near: None, expo: false };
                metamorph(ctx, rng, "gaussian_nb", &format!("p={} classes={}", p, k), &pred, &pool, &xl);
            }
            _ => no_model(ctx, "gaussian_nb", "fit failed"),
        }
        let xc: Vec<Vec<f64>> = y.iter().map(|c| (0..p).map(|j| (rng.below(4) + if j % k == *c { 3 } else { 0 }) as f64).collect()).collect();
        let dsc = DatasetBase::new(arr::<f64>(&xc), labels);
        match guarded(AssertUnwindSafe(|| MultinomialNb::params().fit(&dsc))) {
            Ok(Ok(m)) => {
                let q: Vec<Vec<f64>> = (0..20).map(|i| if i < 8 { xc[rng.below(n as u64) as usize].clone() } else { (0..p).map(|_| rng.below(6) as f64).collect() }).collect();
                let pool: Array2<f64> = arr(&q);
                let classes = match bincode::serialize(&m).ok().and_then(|b| nb_classes(&b)) { Some(c) => c, None => panic!("cannot read the class statistics of MultinomialNb from its bincode image") };
                let o: Array1<usize> = m.predict(&pool);
                let bad = nb_argmax_check(&pool, &o, &classes, &|row, c| row.iter().zip(&c.3).map(|(x, l)| x * l).sum::<f64>() + c.1.ln());
                mat_nb(ctx, "multinomial_nb", &m, false, &classes, &pool);
                ext_case(ctx, "multinomial_nb", bad.is_none(), "predict(x) attains the maximal joint log-likelihood x.feature_log_prob + ln prior", &format!("first differing row {:?}", bad.map(|i| pool.row(i).to_vec())));
                let pred = mk_pred!(m, Array1<usize>, f64, view);
                let xl = Xl { exact: false, scale: 1.0, near: None, expo: false };
                metamorph(ctx, rng, "multinomial_nb", &format!("p={} classes={}", p, k), &pred, &pool, &xl);
            }
            _ => no_model(ctx, "multinomial_nb", "fit failed"),
        }
    }
}

// ---------------------------------------------------------------- FTRL
fn ftrl_sigmoid(v: f64) -> f64 {
    let v = v.min(35.0).max(-35.0);
    if v.is_sign_negative() { let e = v.exp(); e / (e + 1.0) } else { 1.0 / (1.0 + (-v).exp()) }
}
fn fit_ftrl(x: &Array2<f64>, y: &Array1<bool>, passes: usize, alpha: f64) -> Option<Ftrl<f64>> {
    let ds = DatasetBase::new(x.clone(), y.clone());
    guarded(AssertUnwindSafe(|| {
        let params = Ftrl::params().alpha(alpha).beta(1.0).l1_ratio(0.01).l2_ratio(0.05);
        let mut m = params.fit_with(None, &ds).ok()?;
        for _ in 1..passes { m = params.fit_with(Some(m), &ds).ok()?; }
        Some(m)
    })).ok().flatten()
}
fn ftrl_models(ctx: &mut Ctx, rng: &mut Sm64, ninst: usize) {
    for inst in 0..ninst {
        let p = pick_dim(rng, inst, 17);
        let n = 40 + rng.below(20) as usize;
        let (x, y) = blobs(rng, n, p, 2, 0);
        let xa: Array2<f64> = arr(&x);
        let yb: Array1<bool> = y.iter().map(|c| *c == 1).collect();
        let m = match fit_ftrl(&xa, &yb, 3 + inst % 3, 0.05 + 0.1 * (inst % 3) as f64) { Some(m) => m, None => { no_model(ctx, "ftrl", "fit failed"); continue; } };
        let pool: Array2<f64> = arr(&pool_rows(rng, &x, &[]));
        let w = m.get_weights().to_vec();
        let o: Array1<Pr> = m.predict(&pool);
        let bad = (0..pool.nrows()).find(|&i| o[i].to_bits() != (ftrl_sigmoid(udot(pool.row(i).as_slice().unwrap(), &w)) as f32).to_bits());
        ext_case(ctx, "ftrl", bad.is_none(), "predict(x) = stable_sigmoid(unrolled_dot(x, get_weights())) as f32", &format!("p={} first differing row {:?} weights {:?}", p, bad.map(|i| pool.row(i).to_vec()), w));
        mat_ftrl(ctx, "ftrl", &m, &w, &pool);
        let pred = mk_pred!(m, Array1<Pr>, f64, view);
        metamorph(ctx, rng, "ftrl", &format!("p={}", p), &pred, &pool, &Xl::real(maxabs(&w)));
    }
}

// ---------------------------------------------------------------- PCA, PLS
fn reduction_models(ctx: &mut Ctx, rng: &mut Sm64, ninst: usize) {
    for inst in 0..ninst {
        let p = pick_dim(rng, inst, 9).max(2);
        let n = 3 * p + 10 + rng.below(10) as usize;
        let (x, y) = regdata(rng, n, p, 0.5);
        let xa: Array2<f64> = arr(&x);
        let ds = DatasetBase::new(xa.clone(), Array1::from(y.clone()));
        let pool: Array2<f64> = arr(&pool_rows(rng, &x, &[]));
        // embedding sizes 1, 2 or p: the sizes for which the external eigen-solver is reliable
        let k = if inst % 3 == 0 { 1 } else if inst % 3 == 1 { 2.min(p) } else { p };
        match guarded(AssertUnwindSafe(|| Pca::params(k).fit(&ds))) {
            Ok(Ok(m)) => {
                let o: Array2<f64> = m.predict(&pool);
                let w = m.components().t().to_owned();
                aff_case(ctx, "pca", 0, &m.mean().to_vec(), &[], &w, &vec![0.0; w.ncols()], &pool, &rows_of(&o.view()), &[]);
                mat_pca(ctx, "pca", &m, &m.mean().to_owned(), &m.components().to_owned(), &pool);
                let sc = (1.0 + maxabs(&m.mean().to_vec())) * w.iter().fold(0.0f64, |a, v| a.max(v.abs()));
                let pred = mk_pred!(m, Array2<f64>, f64, view);
                metamorph(ctx, rng, "pca", &format!("p={} k={}", p, k), &pred, &pool, &Xl::real(sc));
            }
            _ => no_model(ctx, "pca", "fit failed"),
        }
        let t = 1 + inst % 2;
        let y2 = Array2::from_shape_fn((n, t), |(i, j)| y[i] + j as f64 * x[i][p - 1]);
        let ds2 = DatasetBase::new(xa.clone(), y2);
        let kc = 1 + inst % 2.min(p);
        match guarded(AssertUnwindSafe(|| PlsRegression::params(kc).fit(&ds2))) {
            Ok(Ok(m)) => {
                // x_mean, x_std, y_mean are private: read them from the bincode image (field order of Pls)
                let img = bincode::serialize(&m).expect("bincode image of PlsRegression");
                let mut rd = Rd { b: &img, pos: 0 };
                let parsed = (|| { let xm = rd.arr1()?; let xs = rd.arr1()?; let ym = rd.arr1()?; let _ys = rd.arr1()?;
                    for _ in 0..6 { rd.arr2()?; }
                    let coef = rd.arr2()?; if rd.done() { Some((xm, xs, ym, coef)) } else { None } })();
                let (xm, xs, ym, coef) = match parsed { Some(t) => t, None => panic!("cannot read the fitted parameters of PlsRegression from its bincode image") };
                assert!(coef == *m.coefficients(), "bincode image of PlsRegression: coefficients differ from the accessor");
                let o: Array2<f64> = m.predict(&pool);
                aff_case(ctx, "pls", 0, &xm, &xs, &coef, &ym, &pool, &rows_of(&o.view()), &[]);
                mat_pls(ctx, "pls", &m, &xm, &xs, &coef, &ym, &pool);
                let sc = m.coefficients().iter().fold(0.0f64, |a, v| a.max(v.abs())) * 8.0 + 8.0;
                let pred = mk_pred!(m, Array2<f64>, f64, view);
                metamorph(ctx, rng, "pls", &format!("p={} components={} targets={}", p, kc, t), &pred, &pool, &Xl::real(sc));
            }
            _ => no_model(ctx, "pls", "fit failed"),
        }
    }
}

// ---------------------------------------------------------------- wrappers over fitted members
fn composed_models(ctx: &mut Ctx, rng: &mut Sm64, ninst: usize) {
    for inst in 0..ninst {
        let p = pick_dim(rng, inst + 1, 9);
        let n = 40 + rng.below(10) as usize;
        let (x, y) = regdata(rng, n, p, 0.4);
        let xa: Array2<f64> = arr(&x);
        let pool: Array2<f64> = arr(&pool_rows(rng, &x, &[]));
        // multi-target: one OLS per target column
        let t = 2 + inst % 3;
        let mut members = Vec::new();
        for j in 0..t {
            let yj: Array1<f64> = (0..n).map(|i| y[i] * (1.0 + j as f64) - 2.0 * j as f64 * x[i][0]).collect();
            if let Ok(Ok(m)) = guarded(AssertUnwindSafe(|| LinearRegression::new().fit(&DatasetBase::new(xa.clone(), yj)))) { members.push(m); }
        }
        if members.len() == t {
            let sc = members.iter().map(|m| maxabs(&m.params().to_vec()) + m.intercept().abs()).fold(0.0, f64::max);
            let wrapper: MultiTargetModel<Array2<f64>, f64> = members.iter().cloned().collect();
            // column j of the wrapper is member j's prediction, bit for bit
            let o: Array2<f64> = wrapper.predict(&pool);
            let mut ok = o.nrows() == pool.nrows() && o.ncols() == t;
            for (j, m) in members.iter().enumerate() {
                let oj: Array1<f64> = m.predict(&pool);
                ok = ok && (0..pool.nrows()).all(|i| o[(i, j)].to_bits() == oj[i].to_bits());
            }
            let id = ctx.next_id();
            if ctx.out.wanted(id) {
                let desc = format!("{{\"wrapper\": \"MultiTargetModel over OLS members\", \"members\": {}, \"rows\": {}}}", t, pool.nrows());
                ctx.out.bump("multi_target_fitted_columns");
                ctx.out.rust_eval(&desc, Some(fnv(desc.as_bytes()) ^ id));
                if !ok { ctx.out.rust_fail(id, 128, &["wrapper_multi_target"], "a column of the multi-target prediction differs from the member model's own prediction", &desc); }
            }
            let pred = mk_pred!(wrapper, Array2<f64>, f64);
            metamorph(ctx, rng, "multi_target_ols", &format!("p={} targets={}", p, t), &pred, &pool, &Xl::real(sc));
        } else { no_model(ctx, "multi_target_ols", "member fit failed"); }

        // multi-class: one-vs-rest FTRL members
        let k = 3;
        let (xc, yc) = blobs(rng, 60, p, k, 0);
        let xca: Array2<f64> = arr(&xc);
        let poolc: Array2<f64> = arr(&pool_rows(rng, &xc, &[]));
        let mut ms = Vec::new();
        for c in 0..k {
            let yb: Array1<bool> = yc.iter().map(|l| *l == c).collect();
            if let Some(m) = fit_ftrl(&xca, &yb, 4, 0.1) { ms.push((100 + c, m)); }
        }
        if ms.len() == k {
            let sc = ms.iter().map(|(_, m)| maxabs(&m.get_weights().to_vec())).fold(0.0, f64::max);
            let probs: Vec<Array1<Pr>> = ms.iter().map(|(_, m)| m.predict(&poolc)).collect();
            let wrapper: MultiClassModel<Array2<f64>, usize> = ms.iter().cloned().collect();
            let o: Array1<usize> = wrapper.predict(&poolc);
            // the returned label is the label of a member with maximal probability
            let ok = o.len() == poolc.nrows() && (0..poolc.nrows()).all(|i| {
                let mx = probs.iter().map(|v| *v[i]).fold(f32::NEG_INFINITY, f32::max);
                ms.iter().zip(&probs).any(|((l, _), v)| *l == o[i] && *v[i] == mx)
            });
            let id = ctx.next_id();
            if ctx.out.wanted(id) {
                let desc = format!("{{\"wrapper\": \"MultiClassModel over one-vs-rest FTRL members\", \"members\": {}, \"rows\": {}}}", k, poolc.nrows());
                ctx.out.bump("multi_class_fitted_argmax");
                ctx.out.rust_eval(&desc, Some(fnv(desc.as_bytes()) ^ id));
                if !ok { ctx.out.rust_fail(id, 256, &["wrapper_multi_class"], "the multi-class label is not the label of a member with maximal probability", &desc); }
            }
            let probs2 = probs.clone();
            let poolrows = rows_f64(&poolc);
            let near = move |row: &[f64]| {
                // rows whose two best member probabilities are closer than f32 rounding of the sums
                match poolrows.iter().position(|r| r.as_slice() == row) {
                    Some(i) => { let mut v: Vec<f32> = probs2.iter().map(|q| *q[i]).collect(); v.sort_by(|a, b| b.partial_cmp(a).unwrap()); (v[0] - v[1]).abs() <= 1e-6 }
                    None => true,
                }
            };
            let xl = Xl { exact: false, scale: sc, near: Some(Box::new(near)), expo: false };
            let pred = mk_pred!(wrapper, Array1<usize>, f64);
            metamorph(ctx, rng, "multi_class_ftrl", &format!("p={} classes={}", p, k), &pred, &poolc, &xl);
        } else { no_model(ctx, "multi_class_ftrl", "member fit failed"); }

        // Platt calibration of a fitted regressor's decision value
        let yb: Array1<bool> = y.iter().map(|v| *v + 1.5 * rng.gauss() > 0.0).collect();
        if let Ok(Ok(inner)) = guarded(AssertUnwindSafe(|| LinearRegression::new().fit(&DatasetBase::new(xa.clone(), Array1::from(y.clone()))))) {
            platt_wrapper_check(ctx, rng, "platt_ols", inner, &xa, &yb, &pool);
        }
    }
}

// ---------------------------------------------------------------- further f32 instances (metamorphic programme only)
fn f32_models(ctx: &mut Ctx, rng: &mut Sm64, ninst: usize) {
    for inst in 0..(ninst + 1) / 2 {
        let p = pick_dim(rng, inst, 9);
        let n = 40 + rng.below(20) as usize;
        let (x, y) = regdata(rng, n, p, 0.3);
        let xa: Array2<f32> = arr(&x);
        let ya: Array1<f32> = y.iter().map(|v| *v as f32).collect();
        let pool: Array2<f32> = arr(&pool_rows(rng, &x, &[]));
        if let Ok(Ok(m)) = guarded(AssertUnwindSafe(|| LinearRegression::new().fit(&DatasetBase::new(xa.clone(), ya.clone())))) {
            let sc = m.params().iter().fold(0.0f64, |a, v| a.max(v.abs() as f64)) + m.intercept().abs() as f64;
            mat_lin32(ctx, "ols_f32", &m, &m.params().to_vec(), m.intercept(), &pool);
            let pred = mk_pred!(m, Array1<f32>, f32, view);
            metamorph(ctx, rng, "ols_f32", &format!("p={}", p), &pred, &pool, &Xl::real(sc));
        } else { no_model(ctx, "ols_f32", "fit failed"); }
        let t = 2;
        let y2 = Array2::from_shape_fn((n, t), |(i, j)| (y[i] + j as f64 * x[i][0]) as f32);
        if let Ok(Ok(m)) = guarded(AssertUnwindSafe(|| PlsRegression::<f32>::params(1).fit(&DatasetBase::new(xa.clone(), y2)))) {
            let sc = m.coefficients().iter().fold(0.0f64, |a, v| a.max(v.abs() as f64)) * 8.0 + 8.0;
            let pred = mk_pred!(m, Array2<f32>, f32, view);
            metamorph(ctx, rng, "pls_f32", &format!("p={}", p), &pred, &pool, &Xl::real(sc));
        } else { no_model(ctx, "pls_f32", "fit failed"); }

        let pc = pick_dim(rng, inst + 2, 5);
        let (xc, yc) = blobs(rng, n, pc, 2, 0);
        let xc: Vec<Vec<f64>> = xc.iter().map(|r| r.iter().map(|v| 0.4 * v + 1.5 * rng.gauss()).collect()).collect();
        let xca: Array2<f32> = arr(&xc);
        let poolc: Array2<f32> = arr(&pool_rows(rng, &xc, &[]));
        let lab: Array1<usize> = yc.iter().map(|c| c * 4 + 1).collect();
        if let Ok(Ok(m)) = guarded(AssertUnwindSafe(|| LogisticRegression::default().alpha(0.5).max_iterations(200).fit(&DatasetBase::new(xca.clone(), lab.clone())))) {
            let mm = &m;
            let near = move |row: &[f64]| {
                let r = Array2::from_shape_vec((1, row.len()), row.iter().map(|v| *v as f32).collect()).unwrap();
                !((mm.predict_probabilities(&r)[0] - 0.5).abs() > 1e-4)
            };
            let xl = Xl { exact: false, scale: 1.0, near: Some(Box::new(near)), expo: false };
            let pred = mk_pred!(m, Array1<usize>, f32, view);
            metamorph(ctx, rng, "logistic_f32", &format!("p={}", pc), &pred, &poolc, &xl);
        } else { no_model(ctx, "logistic_f32", "fit failed"); }
        if let Ok(Ok(m)) = guarded(AssertUnwindSafe(|| GaussianNb::params().fit(&DatasetBase::new(xca.clone(), lab.clone())))) {
            let pred = mk_pred!(m, Array1<usize>, f32, view);
            let xl = Xl { exact: false, scale: 1.0, near: None, expo: false };
            metamorph(ctx, rng, "gaussian_nb_f32", &format!("p={}", pc), &pred, &poolc, &xl);
        } else { no_model(ctx, "gaussian_nb_f32", "fit failed"); }
        let yb: Array1<bool> = yc.iter().map(|c| *c == 1).collect();
        let fitted = guarded(AssertUnwindSafe(|| {
            let params = Ftrl::<f32>::params().alpha(0.1).beta(1.0).l1_ratio(0.01).l2_ratio(0.05);
            let ds = DatasetBase::new(xca.clone(), yb.clone());
            let m = params.fit_with(None, &ds).ok()?;
            params.fit_with(Some(m), &ds).ok()
        })).ok().flatten();
        if let Some(m) = fitted {
            let sc = m.get_weights().iter().fold(0.0f64, |a, v| a.max(v.abs() as f64));
            let pred = mk_pred!(m, Array1<Pr>, f32, view);
            metamorph(ctx, rng, "ftrl_f32", &format!("p={}", pc), &pred, &poolc, &Xl::real(sc));
        } else { no_model(ctx, "ftrl_f32", "fit failed"); }
        let (xg, _) = blobs(rng, 50, pc, 2, 0);
        let seed = rng.below(1000);
        if let Ok(Ok(m)) = guarded(AssertUnwindSafe(|| GaussianMixtureModel::params(2).with_rng(Xoshiro256Plus::seed_from_u64(seed)).n_runs(2).tolerance(1e-3).fit(&DatasetBase::from(arr::<f32>(&xg))))) {
            let poolg: Array2<f32> = arr(&pool_rows(rng, &xg, &[]));
            let mm = &m;
            let near = move |row: &[f64]| {
                let r = Array2::from_shape_vec((1, row.len()), row.iter().map(|v| *v as f32).collect()).unwrap();
                let mut pr = mm.predict_proba(&r).row(0).to_vec();
                pr.sort_by(|a, b| b.partial_cmp(a).unwrap_or(std::cmp::Ordering::Equal));
                pr.len() < 2 || !((pr[0] - pr[1]).abs() > 1e-4)
            };
            let xl = Xl { exact: false, scale: 1.0, near: Some(Box::new(near)), expo: false };
            let pred = mk_pred!(m, Array1<usize>, f32, view);
            metamorph(ctx, rng, "gmm_f32", &format!("p={}", pc), &pred, &poolg, &xl);
        } else { no_model(ctx, "gmm_f32", "fit failed"); }
    }
}
// ================================================================================================
// C03 harness, part 5: the run.
fn main() {
    let args = parse_args();
    // watchdog: a fit that does not terminate must not hang the check
    std::thread::spawn(|| {
        std::thread::sleep(std::time::Duration::from_secs(900));
        eprintln!("c03 harness: watchdog - generation did not finish within 900 s (a library fit does not terminate?)");
        std::process::exit(3);
    });
    let thorough = args.tier == "thorough";
    let mut rng = Sm64::new(args.seed);
    let mut ctx = Ctx {
        out: Out::new(&args.out, args.shards, "C03.Corr", "case", args.only),
        id: 0,
        nbatches: if thorough { 16 } else { 8 },
        max_xl_ulps: 0.0,
        max_xl_window: 0.0,
    };
    let ninst = if thorough { 20 } else { 5 };
    // every section draws from its own child generator, so that a replay of one id is stable
    let t0 = std::time::Instant::now();
    macro_rules! lap { ($n:expr) => { if std::env::var("C03_TRACE").is_ok() { eprintln!("{:>8.2}s {}", t0.elapsed().as_secs_f64(), $n); } }; }
    lap!("multi_target_cases");
    let mut r = rng.fork(); multi_target_cases(&mut ctx, &mut r, thorough);
    lap!("multi_class_cases");
    let mut r = rng.fork(); multi_class_cases(&mut ctx, &mut r, thorough);
    lap!("platt_direct_cases");
    let mut r = rng.fork(); platt_direct_cases(&mut ctx, &mut r, thorough);
    lap!("platt_mock_cases");
    let mut r = rng.fork(); platt_mock_cases(&mut ctx, &mut r, thorough);
    lap!("kmeans_models");
    let mut r = rng.fork(); kmeans_models(&mut ctx, &mut r, ninst);
    lap!("gmm_models");
    let mut r = rng.fork(); gmm_models(&mut ctx, &mut r, ninst);
    lap!("linear_models");
    let mut r = rng.fork(); linear_models(&mut ctx, &mut r, ninst);
    lap!("isotonic_models");
    let mut r = rng.fork(); isotonic_models(&mut ctx, &mut r, 3 * ninst);
    lap!("logistic_models");
    let mut r = rng.fork(); logistic_models(&mut ctx, &mut r, ninst);
    lap!("svm_models");
    let mut r = rng.fork(); svm_models(&mut ctx, &mut r, ninst);
    lap!("tree_models");
    let mut r = rng.fork(); tree_models(&mut ctx, &mut r, ninst);
    lap!("bayes_models");
    let mut r = rng.fork(); bayes_models(&mut ctx, &mut r, ninst);
    lap!("ftrl_models");
    let mut r = rng.fork(); ftrl_models(&mut ctx, &mut r, ninst);
    lap!("reduction_models");
    let mut r = rng.fork(); reduction_models(&mut ctx, &mut r, ninst);
    lap!("f32_models");
    let mut r = rng.fork(); f32_models(&mut ctx, &mut r, ninst);
    lap!("composed_models");
    let mut r = rng.fork(); composed_models(&mut ctx, &mut r, ninst);
    // largest cross-layout difference seen, in units of 1e-3 ulp of the larger value
    let ulps = (ctx.max_xl_ulps * 1000.0).min(1.0e15) as u64;
    ctx.out.bump_by("xl_max_difference_milli_ulps", ulps);
    // largest fraction of the cross-layout rounding window that was consumed, in 1e-6
    let win = (ctx.max_xl_window * 1.0e6).min(1.0e15) as u64;
    ctx.out.bump_by("xl_max_window_fraction_ppm", win);
    ctx.out.finish("per predictor type: fitted instances over feature counts {1,2,3,5,8,9,17} x batches (whole pool, empty, single row, one row three times, random rows with repeats), each batch predicted whole / row by row / permuted / with duplicates / in halves / through every calling form / in column-major, strided and reversed layouts; Coq cases: exhaustive (rows, members) in 0..4 x 0..4 for both wrappers plus random and malformed members, platt_predict over special and random (a, b, x), one case per fitted k-means / linear / tree / isotonic / affine model; array-level cases (predict_inplace on a pre-filled target vs C03/MatModel.v) per fitted model of 14 families x {row-major, column-major, empty batch, target too long, target too short, one extra column}; a case is non-trivial when the batch has >= 2 rows (metamorphic) or the wrapper has >= 2 members; distinct = distinct canonical inputs");
}
